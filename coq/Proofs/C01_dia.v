(* C01 - Dia conversions (dense.from_dia, dia.from_dense, csr.from_dia) and
   the trace kernels. *)
From Coq Require Import List ZArith Bool Arith Lia ZifyBool.
Import ListNotations.
From QV Require Import Model.C01 Proofs.C01 Proofs.C01_pred Proofs.C01_add.

Section Dia.
Variable C : Type.
Variable c0 : C.
Variable cadd : C -> C -> C.
Variable is0 : C -> bool.
Variable small : C -> bool.
Hypothesis Hadd0r : forall x, cadd x c0 = x.
Hypothesis Hadd0l : forall x, cadd c0 x = x.
Hypothesis Hadda : forall x y z, cadd x (cadd y z) = cadd (cadd x y) z.
Hypothesis His0 : forall x, is0 x = true <-> x = c0.

Notation den_dense := (den_dense C c0).
Notation den_csr := (den_csr C c0).
Notation den_dia := (den_dia C c0).
Notation row_get := (row_get C c0).

(* ------------------------------------------------------ dense <- dia *)
Theorem dense_from_dia_den : forall (a : dia C) i j,
  den_dense (dense_from_dia C c0 a) i j = den_dia a i j.
Proof.
  intros a i j. unfold dense_from_dia. rewrite den_tabulate.
  destruct ((i <? a_nr C a) && (j <? a_nc C a)) eqn:E; [reflexivity|].
  unfold C01.den_dia. rewrite E. reflexivity.
Qed.

(* ------------------------------------------------------ dia <- dense *)
Section FromDense.
Variable d : dense C.
Let nr := d_nr C d.
Let nc := d_nc C d.
Let g := fun k : nat =>
  let off := (Z.of_nat k - Z.of_nat nr + 1)%Z in
  (off, map (fun col : nat =>
      let row := (Z.of_nat col - off)%Z in
      if (0 <=? row)%Z && (row <? Z.of_nat nr)%Z
      then nth (didx nr nc (d_fortran C d) (Z.to_nat row) col) (d_data C d) c0
      else c0) (seq 0 nc)).

Lemma g_in : forall n a e, In e (map g (seq a n)) ->
  exists k, a <= k < a + n /\ e = g k.
Proof.
  intros n a e H. apply in_map_iff in H. destruct H as [k [E Hk]].
  apply in_seq in Hk. exists k. split; [lia|symmetry; exact E].
Qed.

Lemma g_sorted : forall n a, zsorted C (map g (seq a n)).
Proof.
  induction n as [|n IH]; intros a; simpl; [exact I|]. split; [|apply IH].
  intros e He. apply g_in in He. destruct He as [k [Hk ->]]. unfold g. simpl. lia.
Qed.

Lemma g_find : forall n a k0,
  find (fun e : Z * list C => (fst e =? Z.of_nat k0 - Z.of_nat nr + 1)%Z) (map g (seq a n)) =
  if (a <=? k0) && (k0 <? a + n) then Some (g k0) else None.
Proof.
  induction n as [|n IH]; intros a k0; simpl.
  - assert (E : (a <=? k0) && (k0 <? a + 0) = false) by lia. rewrite E. reflexivity.
  - destruct (Z.eqb_spec (Z.of_nat a - Z.of_nat nr + 1) (Z.of_nat k0 - Z.of_nat nr + 1)) as [E|E].
    + assert (a = k0) by lia. subst a.
      assert (E2 : (k0 <=? k0) && (k0 <? k0 + S n) = true) by lia. rewrite E2. reflexivity.
    + rewrite IH.
      assert (E2 : (S a <=? k0) && (k0 <? S a + n) = (a <=? k0) && (k0 <? a + S n)) by lia.
      rewrite E2. reflexivity.
Qed.

Theorem dia_from_dense_den : forall i j,
  den_dia (dia_from_dense_full C c0 d) i j = den_dense d i j.
Proof.
  intros i j. unfold C01.den_dia, C01.den_dense, dia_from_dense_full. simpl.
  fold nr nc.
  destruct ((i <? nr) && (j <? nc)) eqn:E; [|reflexivity].
  assert (Hi : i < nr) by lia. assert (Hj : j < nc) by lia.
  change (map _ (seq 0 (nr + nc - 1))) with (map g (seq 0 (nr + nc - 1))).
  rewrite (find_rev_sorted C _ _ (g_sorted (nr + nc - 1) 0)).
  set (k0 := j + (nr - 1 - i)).
  assert (Eoff : (Z.of_nat j - Z.of_nat i = Z.of_nat k0 - Z.of_nat nr + 1)%Z) by (unfold k0; lia).
  rewrite Eoff. rewrite g_find.
  assert (E2 : (0 <=? k0) && (k0 <? 0 + (nr + nc - 1)) = true) by (unfold k0; lia).
  rewrite E2. unfold g at 1. cbn [snd].
  rewrite nth_map_seq by exact Hj. cbn zeta.
  assert (Erow : (Z.of_nat j - (Z.of_nat k0 - Z.of_nat nr + 1) = Z.of_nat i)%Z) by lia.
  rewrite Erow.
  assert (E3 : (0 <=? Z.of_nat i)%Z && (Z.of_nat i <? Z.of_nat nr)%Z = true) by lia.
  rewrite E3. rewrite Nat2Z.id. reflexivity.
Qed.

Theorem dia_from_dense_wf : wf_dia C (dia_from_dense_full C c0 d).
Proof.
  unfold wf_dia, dia_from_dense_full. simpl. fold nr nc.
  change (map _ (seq 0 (nr + nc - 1))) with (map g (seq 0 (nr + nc - 1))). split.
  - (* strictly increasing offsets are distinct *)
    assert (H : forall n a, NoDup (map fst (map g (seq a n)))).
    { induction n as [|n IH]; intros a; simpl; [constructor|]. constructor; [|apply IH].
      intro Hin. apply in_map_iff in Hin. destruct Hin as [e [Ee He]].
      apply g_in in He. destruct He as [k [Hk ->]]. unfold g in Ee. simpl in Ee. lia. }
    apply H.
  - intros e He. apply g_in in He. destruct He as [k [_ ->]]. unfold g. simpl.
    rewrite map_length, seq_length. reflexivity.
Qed.
End FromDense.

(* -------------------------------------------------------- csr <- dia *)
Lemma find_rev_nodupZ : forall (A : list (Z * list C)) off, NoDup (map fst A) ->
  find (fun e : Z * list C => (fst e =? off)%Z) (rev A) = find (fun e => (fst e =? off)%Z) A.
Proof.
  induction A as [|e t IH]; intros off Hnd; simpl; [reflexivity|].
  inversion Hnd as [|x l Hnotin Hnd' Heq]; subst.
  rewrite find_app. rewrite (IH off Hnd'). simpl.
  destruct (fst e =? off)%Z eqn:E.
  - apply Z.eqb_eq in E.
    assert (N : find (fun e' : Z * list C => (fst e' =? off)%Z) t = None).
    { destruct (find (fun e' : Z * list C => (fst e' =? off)%Z) t) as [e'|] eqn:F; [|reflexivity].
      apply find_some in F. destruct F as [Hin E2]. apply Z.eqb_eq in E2.
      exfalso. apply Hnotin. rewrite E, <- E2. apply in_map. exact Hin. }
    rewrite N. reflexivity.
  - destruct (find (fun e' : Z * list C => (fst e' =? off)%Z) t); reflexivity.
Qed.

Section FromDia.
Variable nc : nat.
Variable i : nat.
Let G := fun e : Z * list C =>
  let col := (Z.of_nat i + fst e)%Z in
  if (0 <=? col)%Z && (col <? Z.of_nat nc)%Z
  then [(Z.to_nat col, nth (Z.to_nat col) (snd e) c0)] else [] : crow C.

Lemma G_find : forall (A : list (Z * list C)) j, j < nc ->
  find (fun p : nat * C => fst p =? j) (flat_map G A) =
  option_map (fun e : Z * list C => (j, nth j (snd e) c0))
             (find (fun e : Z * list C => (fst e =? Z.of_nat j - Z.of_nat i)%Z) A).
Proof.
  induction A as [|e t IH]; intros j Hj; simpl; [reflexivity|].
  rewrite find_app.
  destruct (Z.eqb_spec (fst e) (Z.of_nat j - Z.of_nat i)) as [E|E].
  - unfold G at 1. rewrite E.
    assert (E1 : (0 <=? Z.of_nat i + (Z.of_nat j - Z.of_nat i))%Z
                 && (Z.of_nat i + (Z.of_nat j - Z.of_nat i) <? Z.of_nat nc)%Z = true) by lia.
    rewrite E1.
    assert (E2 : Z.to_nat (Z.of_nat i + (Z.of_nat j - Z.of_nat i)) = j) by lia.
    rewrite E2. simpl. rewrite Nat.eqb_refl. reflexivity.
  - assert (N : find (fun p : nat * C => fst p =? j) (G e) = None).
    { unfold G. destruct ((0 <=? Z.of_nat i + fst e)%Z && (Z.of_nat i + fst e <? Z.of_nat nc)%Z) eqn:R;
        simpl; [|reflexivity].
      assert (E3 : (Z.to_nat (Z.of_nat i + fst e) =? j) = false) by lia.
      rewrite E3. reflexivity. }
    rewrite N. apply IH. exact Hj.
Qed.

Lemma G_keys : forall (A : list (Z * list C)) k, In k (map fst (flat_map G A)) ->
  exists e, In e A /\ (0 <= Z.of_nat i + fst e)%Z /\ k = Z.to_nat (Z.of_nat i + fst e).
Proof.
  induction A as [|e t IH]; intros k H; simpl in H; [contradiction|].
  rewrite map_app in H. apply in_app_or in H. destruct H as [H|H].
  - unfold G in H.
    destruct ((0 <=? Z.of_nat i + fst e)%Z && (Z.of_nat i + fst e <? Z.of_nat nc)%Z) eqn:R;
      simpl in H; [|contradiction].
    destruct H as [H|[]]. exists e. split; [left; reflexivity|]. split; [lia|symmetry; exact H].
  - destruct (IH k H) as [e' [He' R]]. exists e'. split; [right; exact He'|exact R].
Qed.

Lemma G_nodup : forall (A : list (Z * list C)), NoDup (map fst A) ->
  NoDup (map fst (flat_map G A)).
Proof.
  induction A as [|e t IH]; intros Hnd; simpl; [constructor|].
  inversion Hnd as [|x l Hnotin Hnd' Heq]; subst.
  rewrite map_app. unfold G at 1.
  destruct ((0 <=? Z.of_nat i + fst e)%Z && (Z.of_nat i + fst e <? Z.of_nat nc)%Z) eqn:R;
    simpl; [|apply IH; exact Hnd'].
  constructor; [|apply IH; exact Hnd'].
  intro Hin. apply G_keys in Hin. destruct Hin as [e' [He' [H0 Ek]]].
  apply Hnotin. assert (fst e = fst e') by lia. rewrite H. apply in_map. exact He'.
Qed.
End FromDia.

Lemma dropzero_ext : forall (l : crow C),
  flat_map (fun p : nat * C => if is0 (snd p) then [] else [p]) l =
  flat_map (fun p : nat * C => let v := (fun x : C => x) (snd p) in
                               if is0 v then [] else [(fst p, v)]) l.
Proof.
  intros l. apply flat_map_ext. intros [c v]. reflexivity.
Qed.

Theorem csr_from_dia_den : forall (a : dia C) i j, wf_dia C a ->
  den_csr (csr_from_dia C c0 cadd is0 a) i j = den_dia a i j.
Proof.
  intros a i j [Hnd _]. unfold C01.den_csr, C01.den_dia, csr_from_dia. simpl.
  destruct ((i <? a_nr C a) && (j <? a_nc C a)) eqn:E; [|reflexivity].
  assert (Hi : i < a_nr C a) by lia. assert (Hj : j < a_nc C a) by lia.
  rewrite nth_map_seq by exact Hi.
  rewrite dropzero_ext.
  set (L := flat_map _ (a_diags C a)).
  assert (NL : NoDup (map fst L)) by (apply (G_nodup (a_nc C a) i); exact Hnd).
  assert (NS : NoDup (map fst (scatter_all C cadd L))).
  { unfold scatter_all. apply scatter_fold_nodup. constructor. }
  rewrite (tidy_row_get C c0 is0 (fun x => x) His0 eq_refl) by (apply sort_nodup; exact NS).
  rewrite sort_get by exact NS.
  rewrite (scatter_all_get C c0 cadd Hadd0r Hadd0l Hadda).
  rewrite (tot_nodup C c0 cadd Hadd0r) by exact NL.
  unfold C01.row_get, L. rewrite (G_find (a_nc C a) i) by exact Hj.
  rewrite find_rev_nodupZ by exact Hnd.
  destruct (find (fun e : Z * list C => (fst e =? Z.of_nat j - Z.of_nat i)%Z) (a_diags C a));
    reflexivity.
Qed.

(* ---------------------------------------------------------------- trace *)
Lemma diag_sum_ext : forall (f h : nat -> C) n a,
  (forall k, a <= k < a + n -> f k = h k) -> diag_sum C c0 cadd f a n = diag_sum C c0 cadd h a n.
Proof.
  intros f h. induction n as [|n IH]; intros a H; simpl; [reflexivity|].
  rewrite (H a) by lia. rewrite (IH (S a)); [reflexivity|]. intros k Hk. apply H. lia.
Qed.

Lemma trace_rows_spec : forall (rows : list (crow C)) r (f : nat -> C),
  (forall k, k < length rows -> f (r + k) = row_get (r + k) (nth k rows [])) ->
  trace_rows C c0 cadd r rows = diag_sum C c0 cadd f r (length rows).
Proof.
  induction rows as [|row t IH]; intros r f H; simpl; [reflexivity|].
  assert (E0 : f r = row_get r row).
  { specialize (H 0). simpl in H. rewrite Nat.add_0_r in H. apply H. lia. }
  rewrite E0. f_equal. apply IH. intros k Hk.
  specialize (H (S k)). simpl in H. replace (S r + k) with (r + S k) by lia. apply H. lia.
Qed.

Theorem trace_csr_spec : forall (m : csr C), length (s_rows C m) = s_nr C m ->
  trace_csr C c0 cadd m =
  if s_nr C m =? s_nc C m
  then Some (diag_sum C c0 cadd (fun k => den_csr m k k) 0 (s_nr C m)) else None.
Proof.
  intros m Hlen. unfold trace_csr. destruct (s_nr C m =? s_nc C m) eqn:E; [|reflexivity].
  f_equal. rewrite <- Hlen. apply trace_rows_spec. intros k Hk. simpl.
  unfold C01.den_csr.
  assert (E2 : (k <? s_nr C m) && (k <? s_nc C m) = true) by lia. rewrite E2. reflexivity.
Qed.

Lemma fold_diag : forall (gk f : nat -> C) n a,
  (forall k, a <= k < a + n -> gk k = f k) ->
  fold_right (fun k acc => cadd (gk k) acc) c0 (seq a n) = diag_sum C c0 cadd f a n.
Proof.
  intros gk f. induction n as [|n IH]; intros a H; simpl; [reflexivity|].
  rewrite (H a) by lia. f_equal. apply IH. intros k Hk. apply H. lia.
Qed.

Theorem trace_dense_spec : forall (d : dense C),
  trace_dense C c0 cadd d =
  if d_nr C d =? d_nc C d
  then Some (diag_sum C c0 cadd (fun k => den_dense d k k) 0 (d_nr C d)) else None.
Proof.
  intros d. unfold trace_dense. destruct (d_nr C d =? d_nc C d) eqn:E; [|reflexivity].
  f_equal. apply fold_diag. intros k Hk. unfold C01.den_dense.
  assert (E2 : (k <? d_nr C d) && (k <? d_nc C d) = true) by lia. rewrite E2.
  f_equal. unfold didx. assert (d_nr C d = d_nc C d) by lia.
  destruct (d_fortran C d); lia.
Qed.

(* trace does not depend on the format *)
Theorem trace_formats_agree : forall (d : dense C),
  (forall x, small x = true -> x = c0) ->
  trace_csr C c0 cadd (csr_from_dense C c0 small d) = trace_dense C c0 cadd d.
Proof.
  intros d Hs.
  rewrite trace_csr_spec by (destruct (csr_from_dense_wf C c0 small d) as [H _]; exact H).
  rewrite trace_dense_spec. simpl.
  destruct (d_nr C d =? d_nc C d); [|reflexivity]. f_equal.
  apply diag_sum_ext. intros k _. rewrite csr_from_dense_den.
  destruct (small (den_dense d k k)) eqn:S; [|reflexivity]. symmetry. apply Hs. exact S.
Qed.
End Dia.
