(* Proofs for C19, part 6: merging two exponents of equal rate and coupling
   operator (R+I -> RI, R+R -> R, ...) intertwines the two hierarchies. *)
From Coq Require Import List ZArith Bool Arith Lia Ring.
Import ListNotations.
From QV Require Import Model.C19 Proofs.C19 Proofs.C19_enum Proofs.C19_gen.
From QV Require Import Model.C19_merge.

Arguments sbasis_eqb : simpl never.

(* ------------------------------------------------------------ weights *)
Lemma mw_S_S a b : mw (S a) (S b) = mw a (S b) + mw (S a) b.
Proof. reflexivity. Qed.
Lemma mw_0_r a : mw a 0 = 1.
Proof. destruct a; reflexivity. Qed.

Lemma mw_absorb s : forall a b, a + b = s ->
  (a + 1) * mw (a + 1) b = (s + 1) * mw a b /\ (b + 1) * mw a (b + 1) = (s + 1) * mw a b.
Proof.
  induction s as [|s IH]; intros a b H.
  - assert (a = 0) by lia. assert (b = 0) by lia. subst. split; reflexivity.
  - split.
    + destruct b as [|b'].
      * rewrite !mw_0_r. lia.
      * rewrite Nat.add_1_r. rewrite mw_S_S.
        destruct (IH a b' ltac:(lia)) as [H1 H2].
        rewrite Nat.add_1_r in H1, H2. assert (s = a + b') by lia. subst s. nia.
    + destruct a as [|a'].
      * simpl. lia.
      * rewrite (Nat.add_1_r b). rewrite mw_S_S.
        destruct (IH a' b ltac:(lia)) as [H1 H2].
        rewrite !Nat.add_1_r in H1, H2. assert (s = a' + b) by lia. subst s. nia.
Qed.

Lemma mw_absorb_l a b : S a * mw (S a) b = S (a + b) * mw a b.
Proof. destruct (mw_absorb (a + b) a b eq_refl) as [H _]. rewrite !Nat.add_1_r in H. exact H. Qed.
Lemma mw_absorb_r a b : S b * mw a (S b) = S (a + b) * mw a b.
Proof. destruct (mw_absorb (a + b) a b eq_refl) as [_ H]. rewrite !Nat.add_1_r in H. exact H. Qed.

Lemma sbasis_eqb_refl b : sbasis_eqb b b = true.
Proof. destruct b; unfold sbasis_eqb; auto using Nat.eqb_refl. Qed.


(* ------------------------------- the column is what _rhs puts in that column *)
Lemma trow_tag_row t : trow t = tag_row t.
Proof. destruct t; reflexivity. Qed.

Lemma col_tags_spec dims D n' t :
  valid dims D n' ->
  (In t (col_tags dims D n') <->
   tag_ok dims D (enum_spec dims D) t /\ tag_col t = n').
Proof.
  intros Hv. pose proof Hv as (Hl & _ & _). unfold col_tags. split.
  - intros [<-|H].
    + split; [|reflexivity]. split; [now apply labels_valid|exact I].
    + apply in_flat_map in H. destruct H as (k & Hk & H). apply in_seq in Hk.
      apply in_app_iff in H. destruct H as [H|H].
      * destruct (ados_prev n' k) as [m|] eqn:E; [|destruct H]. destruct H as [<-|[]].
        pose proof (prev_valid dims D n' k m Hv ltac:(lia) E) as Vm.
        pose proof (next_prev dims D n' k m Hv ltac:(lia) E) as En.
        pose proof (next_spec _ _ _ _ _ En) as (Es & _ & _).
        split; [|simpl; now symmetry]. split; [now apply labels_valid|]. simpl.
        split; [lia|]. now rewrite <- Es.
      * destruct (ados_next dims D n' k) as [m|] eqn:E; [|destruct H]. destruct H as [<-|[]].
        pose proof (next_valid dims D n' k m Hv ltac:(lia) E) as Vm.
        pose proof (prev_next dims D n' k m ltac:(lia) E) as Ep.
        pose proof (prev_spec _ _ _ Ep) as (Es & _).
        split; [|simpl; now symmetry]. split; [now apply labels_valid|]. simpl.
        split; [lia|]. now rewrite <- Es.
  - intros [[Hin Hok] Hc]. destruct t as [n|n k|n k]; simpl in *.
    + left. now subst.
    + right. destruct Hok as [Hk E]. rewrite Hc in E. apply in_flat_map. exists k.
      split; [apply in_seq; lia|]. apply in_app_iff. left.
      apply labels_valid in Hin. destruct Hin as (Hln & _ & _).
      rewrite (prev_next dims D n k n' ltac:(lia) E). now left.
    + right. destruct Hok as [Hk E]. rewrite Hc in E. apply in_flat_map. exists k.
      split; [apply in_seq; lia|]. apply in_app_iff. right.
      apply labels_valid in Hin.
      rewrite (next_prev _ _ _ _ _ Hin Hk E). now left.
Qed.

(* ----------------------------------------------------------------- ring *)
Section Ring.
Variable C : Type.
Variables (c0 c1 : C) (cadd cmul : C -> C -> C) (cneg : C -> C).
Variable ci : C.
Variable cconj : C -> C.
Variable ceqb : C -> C -> bool.
Hypothesis Rth : ring_theory c0 c1 cadd cmul (fun a b => cadd a (cneg b)) cneg eq.
Hypothesis ceqb_eq : forall a b, ceqb a b = true -> a = b.
Hypothesis ci_sq : cmul ci ci = cneg c1.          (* 1j * 1j = -1 *)
Add Ring Cring3 : Rth.

Notation bexp := (bexp C).
Notation "a +! b" := (cadd a b) (at level 50, left associativity).
Notation "a *! b" := (cmul a b) (at level 40, left associativity).
Notation natC := (natC C c0 c1 cadd).
Notation coef_at := (coef_at C c0 cadd).
Notation opt_sop := (opt_sop C).
Notation block_op := (block_op C c0 c1 cadd cmul cneg ci cconj).
Notation col_sum := (col_sum C c0 c1 cadd cmul cneg ci cconj).
Notation gpb := (grad_prev_bosonic C c0 c1 cadd cmul cneg ci).
Notation combine2 := (combine2 C c0 cadd).
Notation can_combine := (can_combine C ceqb).
Notation heom_dims := (heom_dims C).
Notation nthe := (nthe C c0).
Notation vk_sum := (vk_sum C c0 c1 cadd cmul).

Lemma natC_add a b : natC (a + b) = natC a +! natC b.
Proof. induction a; simpl; [ring|rewrite IHa; ring]. Qed.
Lemma natC_mul a b : natC (a * b) = natC a *! natC b.
Proof. induction a; simpl; [ring|rewrite natC_add, IHa; ring]. Qed.
Lemma natC_1 : natC 1 = c1.
Proof. simpl. ring. Qed.

Lemma negi_i m x : cneg ci *! m *! ci *! x = m *! x.
Proof.
  transitivity (cneg (ci *! ci) *! m *! x); [ring|]. rewrite ci_sq. ring.
Qed.

(* ---- column sums *)
Definition term f rowmap wt exps odd (z : label -> C) b (t : btag) : C :=
  (z (rowmap (trow t)) *! natC (wt (trow t))) *! coef_at f (opt_sop (block_op exps odd t)) b.

Lemma col_sum_cons f rm wt exps odd t l z b :
  col_sum f rm wt exps odd (t :: l) z b =
  term f rm wt exps odd z b t +! col_sum f rm wt exps odd l z b.
Proof. reflexivity. Qed.

Lemma col_sum_nil f rm wt exps odd z b : col_sum f rm wt exps odd [] z b = c0.
Proof. reflexivity. Qed.

Lemma col_sum_app f rm wt exps odd l1 l2 z b :
  col_sum f rm wt exps odd (l1 ++ l2) z b =
  col_sum f rm wt exps odd l1 z b +! col_sum f rm wt exps odd l2 z b.
Proof.
  induction l1 as [|t l1 IH]; simpl app.
  - rewrite col_sum_nil. ring.
  - rewrite !col_sum_cons, IH. ring.
Qed.

Lemma col_sum_flat_map_ext fA rmA wtA expsA fB rmB wtB expsB odd
      (FA FB : nat -> list btag) (l : list nat) z b (w : C) :
  (forall k, In k l -> col_sum fA rmA wtA expsA odd (FA k) z b =
                       w *! col_sum fB rmB wtB expsB odd (FB k) z b) ->
  col_sum fA rmA wtA expsA odd (flat_map FA l) z b =
  w *! col_sum fB rmB wtB expsB odd (flat_map FB l) z b.
Proof.
  induction l as [|k l IH]; intros H; simpl flat_map.
  - rewrite !col_sum_nil. ring.
  - rewrite !col_sum_app, (H k) by (now left). rewrite IH by (intros j Hj; apply H; now right).
    ring.
Qed.

(* ---- coefficients of the elementary operators *)
Lemma coef_pmp_shift j c b :
  coef_at cmap (pmp C cneg (S (S j)) c) b = coef_at (fun x => x) (pmp C cneg (S j) c) b.
Proof. reflexivity. Qed.
Lemma coef_pmp_01 c b :
  coef_at cmap (pmp C cneg 1 c) b = coef_at cmap (pmp C cneg 0 c) b /\
  coef_at cmap (pmp C cneg 0 c) b = coef_at (fun x => x) (pmp C cneg 0 c) b.
Proof. split; reflexivity. Qed.

(* grad_prev_bosonic depends on (exps, n, k) only through the exponent, the
   position and n_k *)
Definition gp1 (e : bexp) (k : nat) (nk : C) : option (sop C) :=
  match e_type C e with
  | TR => Some (pmp C cneg k (cmul (cmul (cneg ci) nk) (e_ck C e)))
  | TI => Some (ppp C k (cmul (cmul (cmul (cneg ci) nk) ci) (e_ck C e)))
  | TRI => match e_ck2 C e with
           | Some c2 => Some (pmp C cneg k (cmul (cmul nk (cneg ci)) (e_ck C e)) ++ ppp C k (cmul nk c2))
           | None => None
           end
  | _ => None
  end.

Lemma gpb_gp1 exps n k : gpb exps n k = gp1 (nthe exps k) k (natC (nth k n 0)).
Proof. reflexivity. Qed.

Lemma coef_gp1_scale f e k (m : C) b :
  coef_at f (opt_sop (gp1 e k m)) b = m *! coef_at f (opt_sop (gp1 e k c1)) b.
Proof.
  unfold gp1. destruct (e_type C e); simpl; try ring.
  - destruct (sbasis_eqb (f (BPre k)) b), (sbasis_eqb (f (BPost k)) b); ring.
  - destruct (sbasis_eqb (f (BPre k)) b), (sbasis_eqb (f (BPost k)) b); ring.
  - destruct (e_ck2 C e); simpl; [|ring].
    destruct (sbasis_eqb (f (BPre k)) b), (sbasis_eqb (f (BPost k)) b); ring.
Qed.

Lemma coef_gp1_shift e j m b :
  coef_at cmap (opt_sop (gp1 e (S (S j)) m)) b = coef_at (fun x => x) (opt_sop (gp1 e (S j) m)) b.
Proof.
  unfold gp1. destruct (e_type C e); try reflexivity. destruct (e_ck2 C e); reflexivity.
Qed.

Notation wf := (wf C).

(* per-unit `prev` coefficient of the merged exponent = sum of the two *)
Lemma coef_gp1_merge e1 e2 b :
  wf e1 -> wf e2 -> can_combine e1 e2 = true ->
  coef_at (fun x => x) (opt_sop (gp1 (combine2 e1 e2) 0 c1)) b =
  coef_at cmap (opt_sop (gp1 e1 0 c1)) b +! coef_at cmap (opt_sop (gp1 e2 1 c1)) b.
Proof.
  intros W1 W2 Hc. unfold Model.C19.can_combine in Hc.
  apply andb_true_iff in Hc. destruct Hc as [Hc _].
  apply andb_true_iff in Hc. destruct Hc as [Hf _].
  apply negb_true_iff in Hf. apply orb_false_iff in Hf. destruct Hf as [F1 F2].
  unfold Proofs.C19_gen.wf in *. unfold gp1, Model.C19.combine2.
  destruct e1 as [t1 d1 q1 ck1 vk1 ck21 o1]; destruct e2 as [t2 d2 q2 ck2 vk2 ck22 o2];
    simpl in *.
  destruct t1; destruct t2; simpl in *; try discriminate;
    try destruct W1 as [x1 W1]; try destruct W2 as [x2 W2]; subst; simpl;
    unfold ck2_or0; simpl;
    destruct (sbasis_eqb (BPre 0) b), (sbasis_eqb (BPost 0) b);
    rewrite ?negi_i; ring.
Qed.


Lemma fold_left_cadd_acc (l : list C) acc : fold_left cadd l acc = acc +! fold_left cadd l c0.
Proof.
  revert acc. induction l as [|x l IH]; intros acc; simpl; [ring|].
  rewrite IH, (IH (c0 +! x)). ring.
Qed.

Lemma flat_map_map {A B X} (g : A -> B) (F : B -> list X) l :
  flat_map F (map g l) = flat_map (fun x => F (g x)) l.
Proof. induction l; simpl; [reflexivity|now rewrite IHl]. Qed.

(* ---- next / prev on the two shapes of labels *)
Lemma prev_A0_S a b r : ados_prev (S a :: b :: r) 0 = Some (a :: b :: r).
Proof. unfold ados_prev. cbn [nth]. simpl. rewrite Nat.sub_0_r. reflexivity. Qed.
Lemma prev_A0_0 b r : ados_prev (0 :: b :: r) 0 = None.
Proof. reflexivity. Qed.
Lemma prev_A1_S a b r : ados_prev (a :: S b :: r) 1 = Some (a :: b :: r).
Proof. unfold ados_prev. cbn [nth]. simpl. rewrite Nat.sub_0_r. reflexivity. Qed.
Lemma prev_A1_0 a r : ados_prev (a :: 0 :: r) 1 = None.
Proof. reflexivity. Qed.
Lemma prev_B0_S s r : ados_prev (S s :: r) 0 = Some (s :: r).
Proof. unfold ados_prev. cbn [nth]. simpl. rewrite Nat.sub_0_r. reflexivity. Qed.
Lemma prev_B0_0 r : ados_prev (0 :: r) 0 = None.
Proof. reflexivity. Qed.

Lemma prev_A_rest a b r j :
  ados_prev (a :: b :: r) (S (S j)) =
  match ados_prev r j with Some m => Some (a :: b :: m) | None => None end.
Proof.
  unfold ados_prev. cbn [nth]. destruct (nth j r 0 <=? 0); [reflexivity|].
  now rewrite !set_at_S.
Qed.
Lemma prev_B_rest s r j :
  ados_prev (s :: r) (S j) =
  match ados_prev r j with Some m => Some (s :: m) | None => None end.
Proof.
  unfold ados_prev. cbn [nth]. destruct (nth j r 0 <=? 0); [reflexivity|].
  now rewrite !set_at_S.
Qed.

Definition nx_ok (dimsR : list nat) (D a b : nat) (r : label) (j : nat) : bool :=
  negb ((nth j dimsR 0 - 1 <=? nth j r 0) || (D <=? a + b + lsum r)).

Lemma next_A_rest dimsR D a b r j d0 d1 :
  ados_next (d0 :: d1 :: dimsR) D (a :: b :: r) (S (S j)) =
  if nx_ok dimsR D a b r j then Some (a :: b :: set_at r j (nth j r 0 + 1)) else None.
Proof.
  unfold ados_next, nx_ok. cbn [nth]. cbn [lsum fold_right].
  replace (a + (b + fold_right Nat.add 0 r)) with (a + b + lsum r) by (unfold lsum; lia).
  destruct (nth j dimsR 0 - 1 <=? nth j r 0); [reflexivity|].
  destruct (D <=? a + b + lsum r); [reflexivity|]. simpl. now rewrite !set_at_S.
Qed.
Lemma next_B_rest dimsR D a b r j d0 :
  ados_next (d0 :: dimsR) D ((a + b) :: r) (S j) =
  if nx_ok dimsR D a b r j then Some ((a + b) :: set_at r j (nth j r 0 + 1)) else None.
Proof.
  unfold ados_next, nx_ok. cbn [nth]. cbn [lsum fold_right].
  replace (a + b + fold_right Nat.add 0 r) with (a + b + lsum r) by (unfold lsum; lia).
  destruct (nth j dimsR 0 - 1 <=? nth j r 0); [reflexivity|].
  destruct (D <=? a + b + lsum r); [reflexivity|]. simpl. now rewrite !set_at_S.
Qed.

Lemma next_A0 dimsR D a b r :
  a + b + lsum r <= D ->
  ados_next ((D + 1) :: (D + 1) :: dimsR) D (a :: b :: r) 0 =
  if a + b + lsum r <? D then Some (S a :: b :: r) else None.
Proof.
  intros H. unfold ados_next. cbn [nth]. cbn [lsum fold_right].
  replace (a + (b + fold_right Nat.add 0 r)) with (a + b + lsum r) by (unfold lsum; lia).
  replace (D + 1 - 1) with D by lia.
  destruct (Nat.ltb_spec (a + b + lsum r) D) as [L|L].
  - replace (D <=? a) with false by (symmetry; apply Nat.leb_gt; lia).
    replace (D <=? a + b + lsum r) with false by (symmetry; apply Nat.leb_gt; lia).
    rewrite set_at_0, Nat.add_1_r. reflexivity.
  - destruct (D <=? a); [reflexivity|].
    replace (D <=? a + b + lsum r) with true by (symmetry; apply Nat.leb_le; lia). reflexivity.
Qed.
Lemma next_A1 dimsR D a b r :
  a + b + lsum r <= D ->
  ados_next ((D + 1) :: (D + 1) :: dimsR) D (a :: b :: r) 1 =
  if a + b + lsum r <? D then Some (a :: S b :: r) else None.
Proof.
  intros H. unfold ados_next. cbn [nth]. cbn [lsum fold_right].
  replace (a + (b + fold_right Nat.add 0 r)) with (a + b + lsum r) by (unfold lsum; lia).
  replace (D + 1 - 1) with D by lia.
  destruct (Nat.ltb_spec (a + b + lsum r) D) as [L|L].
  - replace (D <=? b) with false by (symmetry; apply Nat.leb_gt; lia).
    replace (D <=? a + b + lsum r) with false by (symmetry; apply Nat.leb_gt; lia).
    rewrite set_at_S, set_at_0, Nat.add_1_r. reflexivity.
  - destruct (D <=? b); [reflexivity|].
    replace (D <=? a + b + lsum r) with true by (symmetry; apply Nat.leb_le; lia). reflexivity.
Qed.
Lemma next_B0 dimsR D a b r :
  a + b + lsum r <= D ->
  ados_next ((D + 1) :: dimsR) D ((a + b) :: r) 0 =
  if a + b + lsum r <? D then Some (S (a + b) :: r) else None.
Proof.
  intros H. unfold ados_next. cbn [nth]. cbn [lsum fold_right].
  replace (a + b + fold_right Nat.add 0 r) with (a + b + lsum r) by (unfold lsum; lia).
  replace (D + 1 - 1) with D by lia.
  destruct (Nat.ltb_spec (a + b + lsum r) D) as [L|L].
  - replace (D <=? a + b) with false by (symmetry; apply Nat.leb_gt; lia).
    replace (D <=? a + b + lsum r) with false by (symmetry; apply Nat.leb_gt; lia).
    rewrite set_at_0, Nat.add_1_r. reflexivity.
  - destruct (D <=? a + b); [reflexivity|].
    replace (D <=? a + b + lsum r) with true by (symmetry; apply Nat.leb_le; lia). reflexivity.
Qed.


(* ------------------------------------------------------------ the theorem *)
Section Main.
Variables (e1 e2 : bexp) (rest : list bexp) (D : nat) (odd : bool).
Hypothesis W1 : wf e1.
Hypothesis W2 : wf e2.
Hypothesis Hc : can_combine e1 e2 = true.
Hypothesis Hd1 : e_dim C e1 = None.
Hypothesis Hd2 : e_dim C e2 = None.
(* fermionic exponents among the others keep their partner inside `rest` *)
Hypothesis Hoff : forall j o, fermionic (e_type C (nthe rest j)) = true ->
  e_off C (nthe rest j) = Some o -> (0 <= Z.of_nat j + o)%Z.

Definition e12 : bexp := combine2 e1 e2.
Definition expsA : list bexp := e1 :: e2 :: rest.
Definition expsB : list bexp := e12 :: rest.
Definition dimsR : list nat := heom_dims rest D.

Lemma bos12 :
  fermionic (e_type C e1) = false /\ fermionic (e_type C e2) = false /\
  fermionic (e_type C e12) = false.
Proof.
  unfold Model.C19.can_combine in Hc.
  apply andb_true_iff in Hc. destruct Hc as [H _].
  apply andb_true_iff in H. destruct H as [Hf _].
  apply negb_true_iff in Hf. apply orb_false_iff in Hf. destruct Hf as [F1 F2].
  split; [assumption|split; [assumption|]].
  unfold e12, Model.C19.combine2.
  destruct (etype_eqb (e_type C e1) (e_type C e2) && negb (etype_eqb (e_type C e1) TRI));
    simpl; [assumption|reflexivity].
Qed.

Lemma vk12 : e_vk C e2 = e_vk C e1 /\ e_vk C e12 = e_vk C e1.
Proof.
  unfold Model.C19.can_combine in Hc.
  apply andb_true_iff in Hc. destruct Hc as [H _].
  apply andb_true_iff in H. destruct H as [_ Hv]. apply ceqb_eq in Hv.
  split; [now symmetry|].
  unfold e12, Model.C19.combine2.
  destruct (etype_eqb (e_type C e1) (e_type C e2) && negb (etype_eqb (e_type C e1) TRI));
    reflexivity.
Qed.

Lemma dim12 : e_dim C e12 = None.
Proof.
  unfold e12, Model.C19.combine2.
  destruct (etype_eqb (e_type C e1) (e_type C e2) && negb (etype_eqb (e_type C e1) TRI));
    reflexivity.
Qed.

Lemma dimsA_eq : heom_dims expsA D = (D + 1) :: (D + 1) :: dimsR.
Proof. unfold Model.C19.heom_dims, expsA, dimsR. simpl. now rewrite Hd1, Hd2. Qed.
Lemma dimsB_eq : heom_dims expsB D = (D + 1) :: dimsR.
Proof. unfold Model.C19.heom_dims, expsB, dimsR. simpl. now rewrite dim12. Qed.

(* operators *)
Lemma opA_next0 m : block_op expsA odd (TNext m 0) = Some (pmp C cneg 0 (cneg ci)).
Proof.
  simpl. unfold Model.C19.grad_next. cbn [Model.C19.nthe nth expsA].
  destruct bos12 as (F & _ & _). now rewrite F.
Qed.
Lemma opA_next1 m : block_op expsA odd (TNext m 1) = Some (pmp C cneg 1 (cneg ci)).
Proof.
  simpl. unfold Model.C19.grad_next. cbn [Model.C19.nthe nth expsA].
  destruct bos12 as (_ & F & _). now rewrite F.
Qed.
Lemma opB_next0 m : block_op expsB odd (TNext m 0) = Some (pmp C cneg 0 (cneg ci)).
Proof.
  simpl. unfold Model.C19.grad_next. cbn [Model.C19.nthe nth expsB].
  destruct bos12 as (_ & _ & F). now rewrite F.
Qed.
Lemma opA_prev0 m : block_op expsA odd (TPrev m 0) = gp1 e1 0 (natC (nth 0 m 0)).
Proof.
  simpl. unfold Model.C19.grad_prev. cbn [Model.C19.nthe nth expsA].
  destruct bos12 as (F & _ & _). rewrite F. reflexivity.
Qed.
Lemma opA_prev1 m : block_op expsA odd (TPrev m 1) = gp1 e2 1 (natC (nth 1 m 0)).
Proof.
  simpl. unfold Model.C19.grad_prev. cbn [Model.C19.nthe nth expsA].
  destruct bos12 as (_ & F & _). rewrite F. reflexivity.
Qed.
Lemma opB_prev0 m : block_op expsB odd (TPrev m 0) = gp1 e12 0 (natC (nth 0 m 0)).
Proof.
  simpl. unfold Model.C19.grad_prev. cbn [Model.C19.nthe nth expsB].
  destruct bos12 as (_ & _ & F). rewrite F. reflexivity.
Qed.
(* ---- the other exponents (bosonic or fermionic): position j+2 in A, j+1 in B *)
Lemma fermA a b m : ferm_n C expsA (a :: b :: m) = 0 :: 0 :: ferm_n C rest m.
Proof.
  unfold ferm_n, expsA. cbn [combine map fst snd].
  destruct bos12 as (F1 & F2 & _). now rewrite F1, F2.
Qed.
Lemma fermB s m : ferm_n C expsB (s :: m) = 0 :: ferm_n C rest m.
Proof.
  unfold ferm_n, expsB. cbn [combine map fst snd].
  destruct bos12 as (_ & _ & F). now rewrite F.
Qed.
Lemma sign1A a b m : sign1_exp C expsA (a :: b :: m) odd = sign1_exp C rest m odd.
Proof. unfold sign1_exp. now rewrite fermA. Qed.
Lemma sign1B s m : sign1_exp C expsB (s :: m) odd = sign1_exp C rest m odd.
Proof. unfold sign1_exp. now rewrite fermB. Qed.
Lemma sign2A a b m j : sign2_exp C expsA (a :: b :: m) (S (S j)) odd = sign2_exp C rest m j odd.
Proof. unfold sign2_exp. now rewrite fermA. Qed.
Lemma sign2B s m j : sign2_exp C expsB (s :: m) (S j) odd = sign2_exp C rest m j odd.
Proof. unfold sign2_exp. now rewrite fermB. Qed.

Lemma sbarA j :
  fermionic (e_type C (nthe rest j)) = true ->
  sigma_bar C c0 expsA (S (S j)) = option_map (fun t => S (S t)) (sigma_bar C c0 rest j).
Proof.
  intros F. unfold sigma_bar, expsA. cbn [Model.C19.nthe nth length].
  fold (nthe rest j). destruct (e_off C (nthe rest j)) as [o|] eqn:E; [|reflexivity].
  pose proof (Hoff j o F E) as H0.
  destruct (Z.leb_spec 0 (Z.of_nat (S (S j)) + o)); [|lia].
  destruct (Z.leb_spec 0 (Z.of_nat j + o)); [|lia].
  destruct (Z.ltb_spec (Z.of_nat (S (S j)) + o) (Z.of_nat (S (S (length rest)))));
    destruct (Z.ltb_spec (Z.of_nat j + o) (Z.of_nat (length rest))); cbn [andb option_map]; try lia;
    [|reflexivity].
  f_equal. lia.
Qed.
Lemma sbarB j :
  fermionic (e_type C (nthe rest j)) = true ->
  sigma_bar C c0 expsB (S j) = option_map S (sigma_bar C c0 rest j).
Proof.
  intros F. unfold sigma_bar, expsB. cbn [Model.C19.nthe nth length].
  fold (nthe rest j). destruct (e_off C (nthe rest j)) as [o|] eqn:E; [|reflexivity].
  pose proof (Hoff j o F E) as H0.
  destruct (Z.leb_spec 0 (Z.of_nat (S j) + o)); [|lia].
  destruct (Z.leb_spec 0 (Z.of_nat j + o)); [|lia].
  destruct (Z.ltb_spec (Z.of_nat (S j) + o) (Z.of_nat (S (length rest))));
    destruct (Z.ltb_spec (Z.of_nat j + o) (Z.of_nat (length rest))); cbn [andb option_map]; try lia;
    [|reflexivity].
  f_equal. lia.
Qed.

Lemma coefNextR a b m j bb :
  coef_at cmap (opt_sop (block_op expsA odd (TNext (a :: b :: m) (S (S j))))) bb =
  coef_at (fun x => x) (opt_sop (block_op expsB odd (TNext ((a + b) :: m) (S j)))) bb.
Proof.
  cbn [Model.C19.block_op]. unfold Model.C19.grad_next.
  unfold expsA at 1, expsB at 1. cbn [Model.C19.nthe nth]. fold (nthe rest j).
  destruct (fermionic (e_type C (nthe rest j))) eqn:F; [|reflexivity].
  unfold grad_next_fermionic. rewrite sign1A, sign1B, sign2A, sign2B.
  unfold expsA, expsB. cbn [Model.C19.nthe nth]. fold (nthe rest j).
  destruct (e_type C (nthe rest j)); try reflexivity;
    destruct (negb (Nat.even (sign1_exp C rest m odd))); reflexivity.
Qed.

Lemma coefPrevR a b m j bb :
  coef_at cmap (opt_sop (block_op expsA odd (TPrev (a :: b :: m) (S (S j))))) bb =
  coef_at (fun x => x) (opt_sop (block_op expsB odd (TPrev ((a + b) :: m) (S j)))) bb.
Proof.
  cbn [Model.C19.block_op]. unfold Model.C19.grad_prev.
  unfold expsA at 1, expsB at 1. cbn [Model.C19.nthe nth]. fold (nthe rest j).
  destruct (fermionic (e_type C (nthe rest j))) eqn:F.
  - unfold grad_prev_fermionic. rewrite sbarA, sbarB by assumption.
    destruct (sigma_bar C c0 rest j) as [t|]; [|reflexivity]. cbn [option_map].
    rewrite sign1A, sign1B, sign2A, sign2B.
    unfold expsA, expsB. cbn [Model.C19.nthe nth]. fold (nthe rest j). fold (nthe rest t).
    destruct (e_type C (nthe rest j)); reflexivity.
  - exact (coef_gp1_shift (nthe rest j) j (natC (nth j m 0)) bb).
Qed.

Notation csA := (col_sum cmap merge_label merge_weight expsA odd).
Notation csB := (col_sum (fun x => x) (fun n => n) (fun _ => 1) expsB odd).
Notation tmA := (term cmap merge_label merge_weight expsA odd).
Notation tmB := (term (fun x => x) (fun n => n) (fun _ => 1) expsB odd).

(* diagonal block *)
Lemma L_diag a b r z bb :
  tmA z bb (TGradN (a :: b :: r)) = natC (mw a b) *! tmB z bb (TGradN ((a + b) :: r)).
Proof.
  unfold term. cbn [trow merge_label merge_weight Model.C19.block_op opt_sop].
  unfold Model.C19.grad_n.
  assert (E : vk_sum expsA (a :: b :: r) = vk_sum expsB ((a + b) :: r)).
  { unfold Model.C19.vk_sum, expsA, expsB. cbn [combine map fold_left fst snd].
    destruct vk12 as [V2 V12]. rewrite V2, V12.
    rewrite fold_left_cadd_acc. rewrite (fold_left_cadd_acc _ (c0 +! _)).
    rewrite natC_add. ring. }
  rewrite E.
  unfold Model.C19_merge.coef_at. cbn [fold_right fst snd cmap].
  destruct (sbasis_eqb BId bb); rewrite natC_1; ring.
Qed.

(* `next` operators reading from the column ADO through exponents 0 and 1 *)
Lemma L_next01 a b r z bb :
  csA ((match ados_prev (a :: b :: r) 0 with Some m => [TNext m 0] | None => [] end) ++
       (match ados_prev (a :: b :: r) 1 with Some m => [TNext m 1] | None => [] end)) z bb =
  natC (mw a b) *!
  csB (match ados_prev ((a + b) :: r) 0 with Some m => [TNext m 0] | None => [] end) z bb.
Proof.
  destruct (coef_pmp_01 (cneg ci) bb) as [P1 P0].
  destruct a as [|a0]; destruct b as [|b0].
  - cbn [Nat.add]. rewrite prev_A0_0, prev_A1_0, prev_B0_0. simpl app.
    rewrite !col_sum_nil. ring.
  - cbn [Nat.add]. rewrite prev_A0_0, prev_A1_S, prev_B0_S. simpl app.
    rewrite !col_sum_cons, !col_sum_nil. unfold term.
    rewrite opA_next1, opB_next0. cbn [trow merge_label merge_weight opt_sop Nat.add mw].
    rewrite P1, P0. rewrite natC_1. ring.
  - cbn [Nat.add]. rewrite prev_A0_S, prev_A1_0, prev_B0_S. simpl app.
    rewrite !col_sum_cons, !col_sum_nil. unfold term.
    rewrite opA_next0, opB_next0. cbn [trow merge_label merge_weight opt_sop].
    rewrite !mw_0_r. rewrite P0. rewrite natC_1. ring.
  - cbn [Nat.add]. rewrite prev_A0_S, prev_A1_S, prev_B0_S. simpl app.
    rewrite !col_sum_cons, !col_sum_nil. unfold term.
    rewrite opA_next0, opA_next1, opB_next0. cbn [trow merge_label merge_weight opt_sop].
    rewrite mw_S_S, natC_add. rewrite P1, P0.
    replace (S a0 + b0) with (a0 + S b0) by lia. rewrite natC_1. ring.
Qed.

(* `prev` operators reading from the column ADO through exponents 0 and 1 *)
Lemma L_prev01 a b r z bb :
  a + b + lsum r <= D ->
  csA ((match ados_next ((D + 1) :: (D + 1) :: dimsR) D (a :: b :: r) 0 with
        | Some m => [TPrev m 0] | None => [] end) ++
       (match ados_next ((D + 1) :: (D + 1) :: dimsR) D (a :: b :: r) 1 with
        | Some m => [TPrev m 1] | None => [] end)) z bb =
  natC (mw a b) *!
  csB (match ados_next ((D + 1) :: dimsR) D ((a + b) :: r) 0 with
       | Some m => [TPrev m 0] | None => [] end) z bb.
Proof.
  intros HD. rewrite next_A0, next_A1, next_B0 by assumption.
  destruct (a + b + lsum r <? D).
  - simpl app. rewrite !col_sum_cons, !col_sum_nil. unfold term.
    rewrite opA_prev0, opA_prev1, opB_prev0. cbn [trow merge_label merge_weight nth].
    rewrite (coef_gp1_scale cmap e1), (coef_gp1_scale cmap e2),
      (coef_gp1_scale (fun x => x) e12).
    unfold e12. rewrite (coef_gp1_merge e1 e2 bb W1 W2 Hc).
    set (P1 := coef_at cmap (opt_sop (gp1 e1 0 c1)) bb).
    set (P2 := coef_at cmap (opt_sop (gp1 e2 1 c1)) bb).
    replace (a + S b) with (S (a + b)) by lia. cbn [Nat.add].
    set (Z := z (S (a + b) :: r)).
    assert (E1 : natC (mw (S a) b) *! natC (S a) = natC (S (a + b)) *! natC (mw a b)).
    { rewrite <- !natC_mul. f_equal. rewrite (Nat.mul_comm (mw (S a) b)). apply mw_absorb_l. }
    assert (E2 : natC (mw a (S b)) *! natC (S b) = natC (S (a + b)) *! natC (mw a b)).
    { rewrite <- !natC_mul. f_equal. rewrite (Nat.mul_comm (mw a (S b))). apply mw_absorb_r. }
    transitivity (Z *! (natC (mw (S a) b) *! natC (S a)) *! P1 +!
                  Z *! (natC (mw a (S b)) *! natC (S b)) *! P2); [ring|].
    rewrite E1, E2, natC_1. ring.
  - simpl app. rewrite !col_sum_nil. ring.
Qed.

(* the other exponents: position j+2 before merging, j+1 after *)
Lemma L_rest a b r z bb j :
  csA ((match ados_prev (a :: b :: r) (S (S j)) with
        | Some m => [TNext m (S (S j))] | None => [] end) ++
       (match ados_next ((D + 1) :: (D + 1) :: dimsR) D (a :: b :: r) (S (S j)) with
        | Some m => [TPrev m (S (S j))] | None => [] end)) z bb =
  natC (mw a b) *!
  csB ((match ados_prev ((a + b) :: r) (S j) with
        | Some m => [TNext m (S j)] | None => [] end) ++
       (match ados_next ((D + 1) :: dimsR) D ((a + b) :: r) (S j) with
        | Some m => [TPrev m (S j)] | None => [] end)) z bb.
Proof.
  rewrite prev_A_rest, prev_B_rest, next_A_rest, next_B_rest.
  destruct (ados_prev r j) as [m|]; destruct (nx_ok dimsR D a b r j); simpl app;
    rewrite ?col_sum_cons, ?col_sum_nil; unfold term;
    cbn [trow merge_label merge_weight];
    rewrite ?coefNextR, ?coefPrevR, ?natC_1; ring.
Qed.

(* T G_A = G_B T, column by column, cached operator by cached operator *)
Theorem merge_intertwines n' z bb :
  valid (heom_dims expsA D) D n' ->
  csA (col_tags (heom_dims expsA D) D n') z bb =
  natC (merge_weight n') *! csB (col_tags (heom_dims expsB D) D (merge_label n')) z bb.
Proof.
  intros (Hl & _ & Hs). rewrite dimsA_eq in *. rewrite dimsB_eq.
  destruct n' as [|a [|b r]]; try (simpl in Hl; lia).
  cbn [merge_label merge_weight]. unfold col_tags.
  cbn [length]. cbn [lsum fold_right] in Hs.
  assert (HD : a + b + lsum r <= D) by (unfold lsum; lia).
  set (L := length dimsR).
  replace (seq 0 (S (S L))) with (0 :: 1 :: map S (map S (seq 0 L)))
    by (simpl; now rewrite !seq_shift).
  replace (seq 0 (S L)) with (0 :: map S (seq 0 L)) by (simpl; now rewrite seq_shift).
  cbn [flat_map]. rewrite !flat_map_map.
  rewrite !col_sum_cons, !col_sum_app.
  rewrite L_diag.
  pose proof (L_next01 a b r z bb) as EN. rewrite col_sum_app in EN.
  pose proof (L_prev01 a b r z bb HD) as EP. rewrite col_sum_app in EP.
  rewrite (col_sum_flat_map_ext _ _ _ _ (fun x => x) (fun n => n) (fun _ => 1) expsB odd
             _ (fun j => (match ados_prev ((a + b) :: r) (S j) with
                          | Some m => [TNext m (S j)] | None => [] end) ++
                         (match ados_next ((D + 1) :: dimsR) D ((a + b) :: r) (S j) with
                          | Some m => [TPrev m (S j)] | None => [] end))
             (seq 0 L) z bb (natC (mw a b))) by (intros j _; apply L_rest).
  set (X1 := csA (match ados_prev (a :: b :: r) 0 with Some m => [TNext m 0] | None => [] end) z bb) in *.
  set (X2 := csA (match ados_prev (a :: b :: r) 1 with Some m => [TNext m 1] | None => [] end) z bb) in *.
  set (Y1 := csA (match ados_next ((D + 1) :: (D + 1) :: dimsR) D (a :: b :: r) 0 with
                  | Some m => [TPrev m 0] | None => [] end) z bb) in *.
  set (Y2 := csA (match ados_next ((D + 1) :: (D + 1) :: dimsR) D (a :: b :: r) 1 with
                  | Some m => [TPrev m 1] | None => [] end) z bb) in *.
  transitivity (natC (mw a b) *! tmB z bb (TGradN ((a + b) :: r)) +!
                ((X1 +! X2) +! (Y1 +! Y2) +!
                 natC (mw a b) *!
                 csB (flat_map (fun j => (match ados_prev ((a + b) :: r) (S j) with
                          | Some m => [TNext m (S j)] | None => [] end) ++
                         (match ados_next ((D + 1) :: dimsR) D ((a + b) :: r) (S j) with
                          | Some m => [TPrev m (S j)] | None => [] end)) (seq 0 L)) z bb)); [ring|].
  rewrite EN, EP. ring.
Qed.

(* T maps the un-merged hierarchy into the merged one and fixes rho_0 *)
Lemma merge_label_valid n' :
  valid (heom_dims expsA D) D n' -> valid (heom_dims expsB D) D (merge_label n').
Proof.
  rewrite dimsA_eq, dimsB_eq. intros (Hl & Hb & Hs).
  destruct n' as [|a [|b r]]; try (simpl in Hl; lia).
  cbn [merge_label]. cbn [lsum fold_right] in Hs. split; [simpl in *; lia|split].
  - intros [|k] Hk.
    + simpl. lia.
    + specialize (Hb (S (S k))). simpl in *. apply Hb. lia.
  - cbn [lsum fold_right]. lia.
Qed.

Lemma merge_fixes_rho0 n' :
  length n' = length expsA ->
  (merge_label n' = repeat 0 (length expsB) <-> n' = repeat 0 (length expsA)) /\
  merge_weight (repeat 0 (length expsA)) = 1.
Proof.
  intros Hl. split; [|reflexivity].
  unfold expsA, expsB in *. destruct n' as [|a [|b r]]; try (simpl in Hl; lia).
  cbn [merge_label length repeat]. split; intros H.
  - injection H as H0 Hr. assert (a = 0) by lia. assert (b = 0) by lia. subst.
    reflexivity.
  - inversion H; subst. reflexivity.
Qed.

End Main.
End Ring.
