(* Proofs for Model/C13_conf.v *)
From Coq Require Import List ZArith Bool Arith Lia.
Import ListNotations.
From QV Require Import Model.C13_conf.

Definition cur_flags : flags := {| f_forward := true; f_rebind := false; f_nm_args_first := true |}.
Definition fixed_flags : flags := {| f_forward := true; f_rebind := true; f_nm_args_first := true |}.

Definition of_cfg (k : skind) (c : config) : solver :=
  construct k (c_args c) (c_so c) (c_oo c).

Lemma upd_idem o a : upd (upd o a) a = upd o a.
Proof. destruct o as [[?|] [?|]], a as [[?|] [?|]]; reflexivity. Qed.

Lemma upd_empty o a : is_empty a = true -> upd o a = o.
Proof. destruct o as [? ?], a as [[?|] [?|]]; simpl; intros H; try discriminate; reflexivity. Qed.

Lemma base_argument_fresh k x sv ovl a :
  base_argument (construct k x sv ovl) a =
  with_args (construct k x sv ovl) (upd x a) (upd x a) (upd x a).
Proof.
  unfold base_argument. destruct (is_empty a) eqn:E.
  - rewrite (upd_empty x a E). reflexivity.
  - unfold mci_arguments. rewrite E. unfold rhs_arguments, with_args, construct. simpl.
    rewrite !upd_idem. reflexivity.
Qed.

Lemma base_argument_rates k x r sv ovl a :
  base_argument (with_rates (construct k x sv ovl) r r r) a =
  with_rates (with_args (construct k x sv ovl) (upd x a) (upd x a) (upd x a)) r r r.
Proof.
  unfold base_argument. destruct (is_empty a) eqn:E.
  - rewrite (upd_empty x a E). reflexivity.
  - unfold mci_arguments. rewrite E. unfold rhs_arguments, with_args, with_rates, construct. simpl.
    rewrite !upd_idem. reflexivity.
Qed.

Lemma argument_fresh k x sv ovl a :
  argument (construct k x sv ovl) a = construct k (upd x a) sv ovl.
Proof.
  unfold argument. destruct k; simpl.
  - rewrite base_argument_fresh. reflexivity.
  - unfold nm_argument. change (aR (construct KNM x sv ovl)) with x.
    change (aS (construct KNM x sv ovl)) with x. change (aQ (construct KNM x sv ovl)) with x.
    rewrite base_argument_rates. reflexivity.
Qed.

Lemma nm_argument_fresh x sv ovl a :
  nm_argument (construct KNM x sv ovl) a = construct KNM (upd x a) sv ovl.
Proof. exact (argument_fresh KNM x sv ovl a). Qed.

Definition rate_args (k : skind) (x : args) : args :=
  match k with KMC => (None, None) | KNM => x end.

Lemma run_fresh f k x sv ovl a tl :
  f_nm_args_first f = true ->
  run f (construct k x sv ovl) a tl =
  ({| v_H := upd x a; v_C := upd x a; v_N := upd x a; v_R := rate_args k (upd x a);
      v_shift := rate_args k (upd x a);
      v_times := match k with KMC => None | KNM => Some tl end; v_so := sv; v_prep := ovl |},
   construct k (upd x a) sv ovl).
Proof.
  intros F3. unfold run. destruct k; simpl.
  - rewrite base_argument_fresh. reflexivity.
  - rewrite F3, nm_argument_fresh. reflexivity.
Qed.

(* one call on a solver that is in the state of a fresh one leaves it in the
   state of a fresh one for the updated configuration *)
Lemma apply_fresh f k c e :
  f_forward f = true -> f_rebind f = true -> f_nm_args_first f = true ->
  snd (apply f (of_cfg k c) e) = of_cfg k (cfg_step c e).
Proof.
  intros F1 F2 F3. destruct c as [x sv ovl]. unfold of_cfg. simpl c_args; simpl c_so; simpl c_oo.
  destruct e as [a tl|a|ode v|sv' ov']; unfold apply.
  - rewrite (run_fresh f k x sv ovl a tl F3). reflexivity.
  - unfold step. replace (match s_kind (construct k x sv ovl) with
                          | KMC => construct k x sv ovl
                          | KNM => with_cache (construct k x sv ovl) None end)
      with (construct k x sv ovl) by (destruct k; reflexivity).
    rewrite argument_fresh. reflexivity.
  - unfold set_item, apply_ode_key, with_opts, construct. destruct ode; simpl.
    + destruct (Z.eqb_spec v ovl) as [->|]; simpl; rewrite ?F1; reflexivity.
    + destruct (Z.eqb_spec v sv) as [->|]; simpl; reflexivity.
  - unfold set_dict, changed, apply_ode_key, with_opts, construct.
    destruct sv' as [s'|], ov' as [o'|]; simpl;
      try destruct (Z.eqb_spec s' sv) as [->|]; try destruct (Z.eqb_spec o' ovl) as [->|];
      simpl; rewrite ?F1, ?F2; simpl; rewrite ?F1; reflexivity.
Qed.

Lemma after_fresh f k evs : forall c,
  f_forward f = true -> f_rebind f = true -> f_nm_args_first f = true ->
  after f (of_cfg k c) evs = of_cfg k (cfg_after c evs).
Proof.
  unfold after, cfg_after. induction evs as [|e r IH]; intros c F1 F2 F3; simpl; [reflexivity|].
  rewrite (apply_fresh f k c e F1 F2 F3). apply IH; assumption.
Qed.

(* what the trajectories of run(args=a) on a fresh solver see *)
Lemma fresh_view f k c a tl :
  f_nm_args_first f = true ->
  fst (run f (of_cfg k c) a tl) =
  {| v_H := upd (c_args c) a; v_C := upd (c_args c) a; v_N := upd (c_args c) a;
     v_R := rate_args k (upd (c_args c) a); v_shift := rate_args k (upd (c_args c) a);
     v_times := match k with KMC => None | KNM => Some tl end;
     v_so := c_so c; v_prep := c_oo c |}.
Proof. intros F3. unfold of_cfg. rewrite (run_fresh f k _ _ _ a tl F3). reflexivity. Qed.

(* ---- the three ways this has failed / fails *)
Definition c0 : config := {| c_args := (Some 1, Some 2); c_so := 4; c_oo := 6 |}%Z.

(* before /repo c83a966 (f_rebind = false): `solver.options = {"norm_tol": v}` left
   MCIntegrator with the old options object *)
Lemma setter_leaves_old_options :
  v_so (fst (run cur_flags (after cur_flags (of_cfg KMC c0) [ESetDict (Some 9%Z) None])
               (None, None) [])) <> 9%Z.
Proof. vm_compute. discriminate. Qed.

(* before bdf00f0 (f_forward = false): an ODE option set later never reached the ODE solver *)
Lemma no_forward_ignores_ode_option :
  v_prep (fst (run {| f_forward := false; f_rebind := true; f_nm_args_first := true |}
                 (after {| f_forward := false; f_rebind := true; f_nm_args_first := true |}
                        (of_cfg KMC c0) [ESetItem true 9%Z]) (None, None) [])) <> 9%Z.
Proof. vm_compute. discriminate. Qed.

(* cache before args (seeded change C13_2): the continuous martingale uses the old rates *)
Lemma cache_before_args_uses_old_rates :
  let f := {| f_forward := true; f_rebind := true; f_nm_args_first := false |} in
  let v := fst (run f (of_cfg KNM c0) (Some 7%Z, None) [0; 1]%Z) in
  v_shift v <> v_R v.
Proof. vm_compute. discriminate. Qed.
