(* C07 - the loop-skipping devices of the sparse Bloch-Redfield kernels
   (break over c, d_min, break over d; break in the pre-sum loop) are sound
   for sorted eigenvalues: the kept (c,d) pairs are exactly those passing the
   secular test, each emitted once. *)
From mathcomp Require Import all_ssreflect all_algebra.
From mathcomp Require Import mxtens.
From QV Require Import Base.MxHerm Model.C07 Model.C07_kernels Gen.C07_kernels.
From QV Require Import Gen.C07_sparse Model.C07_sparse.
From QV Require Import Proofs.C07_kernels.
Set Implicit Arguments. Unset Strict Implicit. Unset Printing Implicit Defensive.
Import GRing.Theory Num.Theory Order.Theory.
Local Open Scope ring_scope.

Section SparseProofs.
Variable F : realDomainType.
Variable cutoff : F.
Variable n : nat.
Variable w : nat -> F.
Hypothesis w_sorted : forall i j, (i <= j)%N -> (j < n)%N -> w i <= w j.

Local Notation skw := (skw w).
Variables a b : nat.
Let f (c d : nat) : F := skw a b - skw c d.
Let near (x : F) : bool := `|x| < cutoff.

Lemma f_mono_d c d d' : (d <= d')%N -> (d' < n)%N -> f c d <= f c d'.
Proof.
move=> Hd Hn; rewrite /f /C07_sparse.skw ler_add2l ler_opp2 ler_add2l ler_opp2.
exact: w_sorted.
Qed.

Lemma f_mono_c c c' d : (c <= c')%N -> (c' < n)%N -> f c' d <= f c d.
Proof.
move=> Hc Hn; rewrite /f /C07_sparse.skw ler_add2l ler_opp2 ler_add2r.
exact: w_sorted.
Qed.

Lemma not_near_ge x : cutoff <= x -> near x = false.
Proof. by move=> H; rewrite /near ltr_norml [x < cutoff]ltNge H andbF. Qed.

Lemma not_near_le x : x <= - cutoff -> near x = false.
Proof. by move=> H; rewrite /near ltr_norml ltNge H. Qed.

Lemma loop_d_spec c fuel : forall d dm l m,
  (d + fuel = n)%N ->
  gen_sparse_loop_d cutoff skw a b c d fuel dm = (l, m) ->
  [/\ forall x, (x \in l) <-> ((d <= x < n)%N /\ near (f c x)),
      m = dm \/ ((d <= m < n)%N /\ f c m < - cutoff)
    & uniq l].
Proof.
elim: fuel=> [|fuel IH] d dm l m Hn /=.
  case=> <- <-; split=> //; last by left.
  move=> x; split=> //; case; rewrite -Hn addn0.
  by case/andP=> H1 H2; move: (leq_ltn_trans H1 H2); rewrite ltnn.
have Hd : (d < n)%N by rewrite -Hn -addSnnS leq_addr.
have Hn' : (d.+1 + fuel = n)%N by rewrite addSnnS.
rewrite -/(f c d).
case: ifP=> [H1|H1].
  (* d_min = d *)
  move=> Hr; have [M D U] := IH _ _ _ _ Hn' Hr.
  have Hlt : f c d < - cutoff by rewrite ltr_oppr.
  split=> //.
  - move=> x; split.
      by move/M=> [/andP[H2 H3] H4]; split=> //; rewrite (ltnW H2).
    case=> /andP[H2 H3] H4; apply/M; split=> //; rewrite H3 andbT.
    rewrite ltn_neqAle H2 andbT; apply/eqP=> E.
    by move: H4; rewrite -E not_near_le // ltW.
  - right; case: D=> [->|[/andP[D1 D2] D3]]; first by rewrite leqnn Hd.
    by split=> //; rewrite (ltnW D1).
case: ifP=> [H2|H2].
  (* kept *)
  case E: (gen_sparse_loop_d _ _ _ _ _ _ _ _)=> [l' m'] [<- <-].
  have [M D U] := IH _ _ _ _ Hn' E.
  split.
  - move=> x; rewrite inE; split.
      case/orP=> [/eqP ->|/M [/andP[H3 H4] H5]]; first by rewrite leqnn Hd.
      by split=> //; rewrite (ltnW H3).
    case=> /andP[H3 H4] H5; rewrite leq_eqVlt in H3.
    case/orP: H3=> [/eqP Ed|H3]; first by rewrite -Ed eqxx.
    by apply/orP; right; apply/M; split=> //; rewrite H3.
  - case: D=> [->|[/andP[D1 D2] D3]]; first by left.
    by right; split=> //; rewrite (ltnW D1).
  - rewrite /= U andbT; apply/negP=> /M [/andP[H3 _] _].
    by rewrite ltnn in H3.
case: ifP=> [H3|H3].
  (* break *)
  case=> <- <-; split=> //; last by left.
  move=> x; split=> //; case=> /andP[H4 H5].
  by rewrite not_near_ge // (le_trans H3) // f_mono_d.
(* f c d = - cutoff: continue *)
move=> Hr; have [M D U] := IH _ _ _ _ Hn' Hr.
split=> //.
- move=> x; split.
    by move/M=> [/andP[H4 H5] H6]; split=> //; rewrite (ltnW H4).
  case=> /andP[H4 H5] H6; apply/M; split=> //; rewrite H5 andbT.
  rewrite ltn_neqAle H4 andbT; apply/eqP=> E.
  by move: H6; rewrite -E /near H2.
- case: D=> [->|[/andP[D1 D2] D3]]; first by left.
  by right; split=> //; rewrite (ltnW D1).
Qed.

Lemma loop_c_spec fuel : forall c dm,
  (c + fuel = n)%N -> (dm <= n)%N ->
  ((c < n)%N -> forall x, (x < dm)%N -> f c x < - cutoff) ->
  (forall c' d', ((c', d') \in gen_sparse_loop_c cutoff n skw a b c fuel dm)
                 <-> [/\ (c <= c' < n)%N, (d' < n)%N & near (f c' d')])
  /\ uniq (gen_sparse_loop_c cutoff n skw a b c fuel dm).
Proof.
elim: fuel=> [|fuel IH] c dm Hn Hdm HP /=.
  split=> // c' d'; split=> //; case; rewrite -Hn addn0.
  by case/andP=> H1 H2; move: (leq_ltn_trans H1 H2); rewrite ltnn.
have Hc : (c < n)%N by rewrite -Hn -addSnnS leq_addr.
have Hn' : (c.+1 + fuel = n)%N by rewrite addSnnS.
have Hpred : forall d', (d' < n)%N -> (d' <= n.-1)%N.
  by move=> d' Hd'; rewrite -ltnS prednK // (leq_ltn_trans (leq0n d')).
rewrite -/(f c n.-1).
case: ifP=> [H1|H1].
  (* break over c *)
  split=> // c' d'; split=> //; case=> /andP[H2 H3] H4.
  rewrite not_near_le // (le_trans (f_mono_c d' H2 H3)) //.
  apply: le_trans H1; apply: f_mono_d; first exact: Hpred.
  by rewrite prednK // (leq_ltn_trans (leq0n c)).
case E: (gen_sparse_loop_d _ _ _ _ _ _ _ _)=> [l m].
have [M D U] := loop_d_spec (subnKC Hdm) E.
have Hm : (m <= n)%N.
  by case: D=> [->//|[/andP[_ /ltnW]]].
have HP' : (c.+1 < n)%N -> forall x, (x < m)%N -> f c.+1 x < - cutoff.
  move=> Hc1 x Hx.
  have Hxn : (x < n)%N by exact: leq_trans Hx Hm.
  apply: le_lt_trans (f_mono_c x (leqnSn c) Hc1) _.
  case: D=> [Em|[/andP[D1 D2] D3]]; first by apply: HP=> //; rewrite -Em.
  by apply: le_lt_trans D3; apply: f_mono_d=> //; exact: ltnW.
have [M' U'] := IH _ _ Hn' Hm HP'.
split.
- move=> c' d'; rewrite mem_cat; split.
    case/orP=> [/mapP[x Hx [-> ->]]|/M' [/andP[H2 H3] H4 H5]].
      by move/M: Hx=> [/andP[H2 H3] H4]; split=> //; rewrite leqnn Hc.
    by split=> //; rewrite (ltnW H2) H3.
  case=> /andP[H2 H3] H4 H5; rewrite leq_eqVlt in H2.
  case/orP: H2=> [/eqP Ec|H2]; last first.
    by apply/orP; right; apply/M'; split=> //; rewrite H2 H3.
  apply/orP; left; apply/mapP; exists d'; last by rewrite Ec.
  apply/M; rewrite Ec; split=> //; rewrite H4 andbT leqNgt; apply/negP=> Hlt.
  by move: H5; rewrite -Ec not_near_le // ltW // HP.
- rewrite cat_uniq U' andbT map_inj_uniq ?U /=; last by move=> x y [].
  apply/hasPn=> [[c' d']] /M' [/andP[H2 _] _ _].
  apply/negP=> /mapP[x _ [Ec _]].
  by move: H2; rewrite Ec ltnn.
Qed.

Theorem sparse_kept_spec :
  (forall c d, ((c, d) \in gen_sparse_kept cutoff n skw a b)
               <-> [/\ (c < n)%N, (d < n)%N & near (f c d)])
  /\ uniq (gen_sparse_kept cutoff n skw a b).
Proof.
have H0 : (0 < n)%N -> forall x, (x < 0)%N -> f 0 x < - cutoff by [].
have [M U] := loop_c_spec (add0n n) (leq0n n) H0.
by split.
Qed.

(* pre-sum loop: the break `elif skew[a, b] > cutoff` skips no b that passes
   the test *)
Lemma presum_spec a' fuel : (fuel <= n)%N ->
  forall b', (b' \in gen_sparse_presum_loop cutoff skw a' fuel)
             <-> ((b' < fuel)%N /\ `|skw a' b'| < cutoff).
Proof.
elim: fuel=> [|k IH] Hk b' /=; first by split=> //; case.
have Hk' : (k <= n)%N by exact: ltnW.
case: ifP=> [H1|H1].
  rewrite inE; split.
    case/orP=> [/eqP ->|/(IH Hk') [H2 H3]]; first by rewrite ltnSn.
    by split=> //; exact: ltnW.
  case=> H2 H3; rewrite ltnS leq_eqVlt in H2.
  case/orP: H2=> [/eqP ->|H2]; first by rewrite eqxx.
  by apply/orP; right; apply/(IH Hk').
case: ifP=> [H2|H2].
  split=> //; case=> H3 H4; rewrite ltnS in H3.
  suff: cutoff <= skw a' b' by move/not_near_ge; rewrite /near H4.
  apply: le_trans (ltW H2) _; rewrite /C07_sparse.skw ler_add2l ler_opp2.
  exact: w_sorted.
split.
  by move/(IH Hk')=> [H3 H4]; split=> //; exact: ltnW.
case=> H3 H4; apply/(IH Hk'); split=> //.
rewrite ltnS leq_eqVlt in H3; case/orP: H3=> [/eqP E|//].
by move: H4; rewrite E H1.
Qed.

Theorem sparse_presum_spec a' :
  forall b', (b' \in gen_sparse_presum_computed cutoff n skw a')
             <-> ((b' < n)%N /\ `|skw a' b'| < cutoff).
Proof. exact: presum_spec. Qed.
End SparseProofs.

(* ---- the sparse kernels as whole tensors ---- *)
Section SparseTensorProofs.
Variable R : fieldType.
Variable F : realDomainType.
Variable n : nat.
Variable h : R.
Variable cutoff : F.
Variable w : nat -> F.
Hypothesis w_sorted : forall i j, (i <= j)%N -> (j < n)%N -> w i <= w j.

Lemma br_term_sparse_eq_dense (A S : 'M[R]_n) :
  br_term_sparse_tensor h cutoff w A S
  = gen_br_term_dense h (near_cut cutoff) A S (skew_ord w).
Proof.
apply/matrixP=> I J; rewrite !mxE.
set a := (mxtens_unindex I).1; set b := (mxtens_unindex I).2.
set c := (mxtens_unindex J).1; set d := (mxtens_unindex J).2.
have [M _] := sparse_kept_spec cutoff w_sorted a b.
rewrite /=; case: (boolP ((nat_of_ord c, nat_of_ord d) \in _))=> [//|Hn].
rewrite /gen_br_term_dense_elem.
case Hnear: (near_cut cutoff (skew_ord w a b - skew_ord w c d))=> //.
by case/negP: Hn; apply/M; split.
Qed.

Lemma br_cterm_sparse_eq_dense (A B S : 'M[R]_n) :
  br_cterm_sparse_tensor h cutoff w A B S
  = gen_br_cterm_dense h (near_cut cutoff) A B S (skew_ord w).
Proof.
apply/matrixP=> I J; rewrite !mxE.
set a := (mxtens_unindex I).1; set b := (mxtens_unindex I).2.
set c := (mxtens_unindex J).1; set d := (mxtens_unindex J).2.
have [M _] := sparse_kept_spec cutoff w_sorted a b.
rewrite /=; case: (boolP ((nat_of_ord c, nat_of_ord d) \in _))=> [_|Hn].
  exact: cterm_sparse_elem_eq_dense.
rewrite /gen_br_cterm_dense_elem.
case Hnear: (near_cut cutoff (skew_ord w a b - skew_ord w c d))=> //.
by case/negP: Hn; apply/M; split.
Qed.
End SparseTensorProofs.
