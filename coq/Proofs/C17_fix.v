(* C17 - Wiener.__call__ (half-open sum): the value returned for t is the
   running sum of the increments of the steps before t, for every history of
   look-ups and dW requests. *)
From Coq Require Import List ZArith Bool Arith Lia.
Import ListNotations.
From QV Require Import Model.C17 Proofs.C17.

Lemma vadd_assoc : forall a b c, vadd (vadd a b) c = vadd a (vadd b c).
Proof.
  induction a as [|x a IH]; intros b c; [reflexivity|].
  destruct b as [|y b]; [reflexivity|]. destruct c as [|z c]; [reflexivity|].
  simpl. f_equal; [lia|apply IH].
Qed.

Lemma vadd_length : forall n a b, length a = n -> length b = n -> length (vadd a b) = n.
Proof.
  induction n as [|n IH]; intros a b Ha Hb.
  - destruct a; [reflexivity|discriminate].
  - destruct a as [|x a]; [discriminate|]. destruct b as [|y b]; [discriminate|].
    simpl. f_equal. apply IH; simpl in *; lia.
Qed.

Lemma vzero_length : forall n, length (vzero n) = n.
Proof. intros. apply repeat_length. Qed.

Lemma vadd_zero_l' : forall n v, length v = n -> vadd (vzero n) v = v.
Proof. intros n v <-. apply vadd_zero_l. Qed.

Definition all_len (n : nat) (l : list vec) : Prop := forall v, In v l -> length v = n.

Lemma fold_vadd_length : forall n l a, length a = n -> all_len n l ->
  length (fold_left vadd l a) = n.
Proof.
  induction l as [|v l IH]; intros a Ha Hl; [exact Ha|].
  simpl. apply IH.
  - apply vadd_length; [exact Ha|apply Hl; now left].
  - intros u Hu. apply Hl. now right.
Qed.

Lemma fold_vadd_shift : forall n l a, length a = n -> all_len n l ->
  fold_left vadd l a = vadd a (fold_left vadd l (vzero n)).
Proof.
  induction l as [|v l IH]; intros a Ha Hl.
  - simpl. rewrite <- Ha. clear. induction a as [|x a IH]; [reflexivity|].
    simpl. f_equal; [lia|exact IH].
  - assert (Hv : length v = n) by (apply Hl; now left).
    assert (Hl' : all_len n l) by (intros u Hu; apply Hl; now right).
    simpl. rewrite (IH (vadd a v)) by (try apply vadd_length; assumption).
    rewrite (vadd_zero_l' n v Hv).
    rewrite (IH v Hv Hl'). apply vadd_assoc.
Qed.

Lemma vsum_app : forall n l1 l2, all_len n l1 -> all_len n l2 ->
  vsum n (l1 ++ l2) = vadd (vsum n l1) (vsum n l2).
Proof.
  intros n l1 l2 H1 H2. unfold vsum. rewrite fold_left_app.
  apply fold_vadd_shift; [|exact H2].
  apply fold_vadd_length; [apply vzero_length|exact H1].
Qed.

Lemma firstn_split' : forall {B} a k (l : list B),
  firstn a l ++ firstn k (skipn a l) = firstn (a + k) l.
Proof.
  intros B a k. induction a as [|a IH]; intros l; [reflexivity|].
  destruct l as [|x l]; [simpl; now rewrite firstn_nil|].
  simpl. f_equal. apply IH.
Qed.

Lemma firstn_split : forall {B} (l : list B) a b, a <= b ->
  firstn a l ++ slice l a b = firstn b l.
Proof.
  intros B l a b H. unfold slice. rewrite firstn_split'. f_equal. lia.
Qed.

Lemma row0_slab_len : forall g rows ops k, 1 <= rows -> length (row0 (slab_of g rows ops k)) = ops.
Proof.
  intros g rows ops k H. destruct rows as [|r]; [lia|].
  unfold slab_of, row0. simpl. now rewrite map_length, seq_length.
Qed.

Lemma gen_rows_len : forall g rows ops n, 1 <= rows ->
  all_len ops (map row0 (gen_noise g rows ops n)).
Proof.
  intros g rows ops n H v Hv. unfold gen_noise in Hv. rewrite map_map in Hv.
  apply in_map_iff in Hv. destruct Hv as (k & <- & _). now apply row0_slab_len.
Qed.

Lemma firstn_gen : forall g rows ops L k, k <= L ->
  firstn k (gen_noise g rows ops L) = gen_noise g rows ops k.
Proof.
  intros. unfold gen_noise. rewrite firstn_map, firstn_seq' by lia. reflexivity.
Qed.

(* invariant of the repaired look-up: last_W is the prefix sum up to idx_last *)
Definition J (g : nat -> Z) (rows ops : nat) (w : wiener) : Prop :=
  Inv g rows ops w /\ w_idx w <= length (w_noise w) /\
  w_last w = vsum ops (map row0 (gen_noise g rows ops (w_idx w))).

Lemma J_init : forall g rows ops, J g rows ops (w_init rows ops).
Proof. intros. split; [apply Inv_init|]. split; [simpl; lia|reflexivity]. Qed.

Lemma J_extend : forall g rows ops w idx, J g rows ops w -> length (w_noise w) <= idx ->
  J g rows ops (w_extend g w idx).
Proof.
  intros g rows ops w idx (HI & Hle & Hl) H.
  destruct (extend_Inv g rows ops w idx HI H) as [HI' Hlen].
  split; [exact HI'|]. split; [rewrite Hlen; simpl; lia|exact Hl].
Qed.

Lemma J_dW : forall g rows ops w idx0 N, J g rows ops w -> J g rows ops (fst (w_dW g w idx0 N)).
Proof.
  intros g rows ops w idx0 N HJ. unfold w_dW.
  destruct (length (w_noise w) + 1 <=? idx0 + N) eqn:E; cbn [fst]; [|exact HJ].
  apply Nat.leb_le in E. apply J_extend; [exact HJ|lia].
Qed.

Lemma call_fixed_spec : forall g rows ops w idx, 1 <= rows -> J g rows ops w ->
  J g rows ops (fst (w_call_fixed g w idx)) /\
  snd (w_call_fixed g w idx) = vsum ops (map row0 (gen_noise g rows ops idx)).
Proof.
  intros g rows ops w idx Hrows HJ. unfold w_call_fixed.
  set (w1 := if length (w_noise w) + 1 <=? idx then w_extend g w idx else w).
  assert (HJ1 : J g rows ops w1 /\ idx <= length (w_noise w1)).
  { unfold w1. destruct (length (w_noise w) + 1 <=? idx) eqn:E.
    - apply Nat.leb_le in E. split; [apply J_extend; [exact HJ|lia]|].
      destruct HJ as (HI & _). destruct (extend_Inv g rows ops w idx HI) as [_ Hlen]; lia.
    - apply Nat.leb_gt in E. split; [exact HJ|lia]. }
  destruct HJ1 as ((HI & Hle & Hl) & Hidx). clearbody w1.
  destruct HI as (Hr & Ho & Hn).
  assert (Hval : snd (call_core_fixed w1 idx) = vsum ops (map row0 (gen_noise g rows ops idx))).
  { unfold call_core_fixed. rewrite Ho.
    destruct (idx <? w_idx w1) eqn:E; cbn [snd].
    - unfold slice. rewrite Nat.sub_0_r. cbn [skipn].
      rewrite Hn, firstn_gen by lia.
      apply vadd_zero_l'. apply fold_vadd_length; [apply vzero_length|].
      now apply gen_rows_len.
    - apply Nat.ltb_ge in E. rewrite Hl.
      rewrite <- vsum_app.
      + rewrite <- map_app. f_equal. f_equal.
        rewrite <- (firstn_gen g rows ops (length (w_noise w1)) (w_idx w1)) by lia.
        rewrite <- Hn. rewrite firstn_split by lia.
        rewrite Hn at 1. apply firstn_gen. lia.
      + now apply gen_rows_len.
      + rewrite Hn. unfold slice, gen_noise. rewrite skipn_map, firstn_map, map_map.
        intros v Hv. apply in_map_iff in Hv. destruct Hv as (k & <- & _).
        now apply row0_slab_len. }
  split; [|exact Hval].
  assert (Hw : w_noise (fst (call_core_fixed w1 idx)) = w_noise w1 /\
               w_rows (fst (call_core_fixed w1 idx)) = w_rows w1 /\
               w_ops (fst (call_core_fixed w1 idx)) = w_ops w1 /\
               w_idx (fst (call_core_fixed w1 idx)) = idx /\
               w_last (fst (call_core_fixed w1 idx)) = snd (call_core_fixed w1 idx)).
  { unfold call_core_fixed. destruct (idx <? w_idx w1); cbn; auto. }
  destruct Hw as (A & B & C & D & E).
  split; [unfold Inv; rewrite A, B, C; auto|].
  split; [rewrite A, D; exact Hidx|]. rewrite E, D. exact Hval.
Qed.

Lemma J_run_fixed : forall g rows ops qs w, 1 <= rows -> J g rows ops w ->
  J g rows ops (w_run_fixed g w qs).
Proof.
  intros g rows ops qs. induction qs as [|q qs IH]; intros w Hrows HJ; [exact HJ|].
  cbn [w_run_fixed]. apply IH; [exact Hrows|].
  destruct q as [m den N|m den]; unfold w_query_fixed.
  - pose proof (J_dW g rows ops w (pyround m den) N HJ) as H.
    destruct (w_dW g w (pyround m den) N). exact H.
  - pose proof (call_fixed_spec g rows ops w (pyround m den) Hrows HJ) as [H _].
    destruct (w_call_fixed g w (pyround m den)). exact H.
Qed.

Lemma fixed_call_running_sum : forall g rows ops (history : list query) idx, 1 <= rows ->
  snd (w_call_fixed g (w_run_fixed g (w_init rows ops) history) idx)
  = vsum ops (map row0 (gen_noise g rows ops idx)).
Proof.
  intros. apply call_fixed_spec; [assumption|]. apply J_run_fixed; [assumption|apply J_init].
Qed.

(* w_call / w_run of the model are the definitions the lemmas above are about *)
Lemma w_call_is_fixed : forall g w idx, w_call g w idx = w_call_fixed g w idx.
Proof. reflexivity. Qed.

Lemma w_run_is_fixed : forall g qs w, fst (w_run g w qs) = w_run_fixed g w qs.
Proof.
  intros g qs. induction qs as [|q qs IH]; intros w; [reflexivity|].
  cbn [w_run w_run_fixed].
  assert (E : fst (w_query g w q) = fst (w_query_fixed g w q)).
  { destruct q as [m den N|m den]; unfold w_query, w_query_fixed.
    - destruct (w_dW g w (pyround m den) N); reflexivity.
    - rewrite w_call_is_fixed. destruct (w_call_fixed g w (pyround m den)); reflexivity. }
  destruct (w_query g w q) as [w1 a]. cbn [fst] in E. subst w1.
  specialize (IH (fst (w_query_fixed g w q))).
  destruct (w_run g (fst (w_query_fixed g w q)) qs) as [w2 as_]. exact IH.
Qed.

Lemma call_running_sum : forall g rows ops (history : list query) idx, 1 <= rows ->
  snd (w_call g (fst (w_run g (w_init rows ops) history)) idx)
  = vsum ops (map row0 (gen_noise g rows ops idx)).
Proof.
  intros. rewrite w_call_is_fixed, w_run_is_fixed. now apply fixed_call_running_sum.
Qed.
