(* C16 - proofs about the model of IntegratorScipyDop853.mcstep (Model/C16_dop.v) *)
From Coq Require Import List ZArith Bool Lia.
Import ListNotations.
From QV Require Import Model.C16_dop.
Open Scope Z_scope.

(* a request at the time the solver stands at changes nothing *)
Lemma d_same s dt r near :
  d_mcstep s (d_t s) dt r near = (s, (negb (d_isset s), d_t s)).
Proof. unfold d_mcstep. rewrite Z.eqb_refl. reflexivity. Qed.

(* forward, under scipy's contract (exact, or short by a rounding error): the
   answer is exactly the time asked of scipy, which lies in (ode.t, t]; it is t
   itself when work[6] = 0 or the target is within ode.t + work[6] *)
Lemma d_forward s t dt r near :
  d_isset s = true -> d_t s < t -> 0 <= dt ->
  (r = d_target s t dt \/ near = true) ->
  let '(s1, (raised, tout)) := d_mcstep s t dt r near in
  raised = false /\ tout = d_target s t dt /\ d_t s1 = tout /\ d_isset s1 = true /\
  d_t s < tout <= t /\ ((dt = 0 \/ t <= d_t s + dt) -> tout = t).
Proof.
  intros Hs Hlt Hdt Hc. unfold d_mcstep.
  assert (E1 : (d_t s =? t) = false) by (apply Z.eqb_neq; lia). rewrite E1.
  assert (E2 : (d_t s <=? t) = true) by (apply Z.leb_le; lia). rewrite E2.
  assert (Hr : (if r =? d_target s t dt then d_target s t dt else if near then d_target s t dt else r)
               = d_target s t dt).
  { destruct (r =? d_target s t dt) eqn:E; [reflexivity|].
    destruct Hc as [Hc|Hc]; [apply Z.eqb_neq in E; contradiction|rewrite Hc; reflexivity]. }
  rewrite Hr. cbn [d_isset d_t]. rewrite Hs. cbn [negb].
  unfold d_target. destruct (dt =? 0) eqn:Ed.
  - apply Z.eqb_eq in Ed. repeat split; auto; lia.
  - apply Z.eqb_neq in Ed. repeat split; auto; try lia.
    all: try (intros [H|H]; [contradiction|]; lia).
Qed.

(* forward with work[6] > 0 and a target beyond ode.t + work[6]: the answer is
   short of the request (the case a caller must handle by looking at the
   returned time) *)
Lemma d_forward_cut s t dt r near :
  d_isset s = true -> 0 < dt -> d_t s + dt < t ->
  (r = d_target s t dt \/ near = true) ->
  snd (snd (d_mcstep s t dt r near)) = d_t s + dt.
Proof.
  intros Hs Hdt Hlt Hc.
  pose proof (d_forward s t dt r near Hs ltac:(lia) ltac:(lia) Hc) as H.
  destruct (d_mcstep s t dt r near) as [s1 [raised tout]]. destruct H as (_ & H & _).
  cbn [snd]. rewrite H. unfold d_target.
  assert (E : (dt =? 0) = false) by (apply Z.eqb_neq; lia). rewrite E. lia.
Qed.

(* backward, under scipy's contract: the answer is the requested time *)
Lemma d_backward s t dt near :
  d_isset s = true -> t < d_t s ->
  d_mcstep s t dt t near = (mk_dst true t, (false, t)).
Proof.
  intros Hs Hlt. unfold d_mcstep.
  assert (E1 : (d_t s =? t) = false) by (apply Z.eqb_neq; lia). rewrite E1.
  assert (E2 : (d_t s <=? t) = false) by (apply Z.leb_gt; lia). rewrite E2.
  cbn [d_isset d_t]. rewrite Hs. reflexivity.
Qed.

(* the pattern of a collapse search with work[6] = 0 (what the installed SciPy
   provides: every recorded call): whatever the order of the requests -
   forward, backward, repeated - each is answered at exactly the requested time
   and none raises *)
Definition d_ok0 (s : dst) (o : dop) : Prop :=
  match o with
  | DSet _ => False
  | DMc t dt r near =>
      dt = 0 /\ (if d_t s =? t then True else if d_t s <=? t then r = t \/ near = true else r = t)
  end.

Fixpoint d_all_ok0 (s : dst) (ops : list dop) : Prop :=
  match ops with
  | [] => True
  | o :: r => d_ok0 s o /\ d_all_ok0 (fst (d_do s o)) r
  end.

Definition req_time (o : dop) : Z := match o with DSet t => t | DMc t _ _ _ => t end.

Lemma d_requests_exact : forall ops s,
  d_isset s = true -> d_all_ok0 s ops ->
  d_trace s ops = map (fun o => (false, req_time o, (true, req_time o))) ops.
Proof.
  induction ops as [|o r IH]; intros s Hs Hok; cbn [d_trace map]; [reflexivity|].
  destruct Hok as (Ho & Hr). destruct o as [t|t dt rr near]; [contradiction|].
  cbn [d_do d_ok0 req_time] in *. destruct Ho as (Hdt & Hc). subst dt.
  assert (E : d_mcstep s t 0 rr near = (mk_dst true t, (false, t))).
  { unfold d_mcstep. destruct (d_t s =? t) eqn:E1.
    - apply Z.eqb_eq in E1. destruct s as [b ts]. cbn [d_t d_isset] in *. subst. reflexivity.
    - destruct (d_t s <=? t) eqn:E2.
      + unfold d_target. cbn [Z.eqb]. cbn [d_isset d_t]. rewrite Hs. cbn [negb].
        destruct (rr =? t) eqn:E3; [reflexivity|].
        destruct Hc as [Hc|Hc]; [apply Z.eqb_neq in E3; contradiction|rewrite Hc; reflexivity].
      + subst rr. cbn [d_isset d_t]. rewrite Hs. reflexivity. }
  rewrite E in *. cbn [fst] in Hr. rewrite (IH (mk_dst true t) eq_refl Hr). reflexivity.
Qed.
