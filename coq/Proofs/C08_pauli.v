(* C08 - the flat matrix of _superpauli_basis (Model/C08.v::superpauli) is
   orthogonal and complete with constant 2^nq for EVERY number of qubits:
   induction on the Kronecker structure of the executable model (stdlib). *)
From Coq Require Import List ZArith Bool Arith Lia.
Import ListNotations.
From QV Require Import Model.C08 Proofs.C08.

(* ------------------------------------------------- Gaussian integer laws *)
Ltac gz := intros; repeat match goal with x : GZ |- _ => destruct x end;
           unfold gadd, gmul, gconj, g0, g1; simpl; f_equal; ring.

Lemma gadd_comm x y : gadd x y = gadd y x. Proof. gz. Qed.
Lemma gadd_assoc x y z : gadd x (gadd y z) = gadd (gadd x y) z. Proof. gz. Qed.
Lemma gadd_0_l x : gadd g0 x = x. Proof. gz. Qed.
Lemma gadd_0_r' x : gadd x g0 = x. Proof. gz. Qed.
Lemma gmul_assoc x y z : gmul x (gmul y z) = gmul (gmul x y) z. Proof. gz. Qed.
Lemma gmul_comm' x y : gmul x y = gmul y x. Proof. gz. Qed.
Lemma gmul_add_r x y z : gmul x (gadd y z) = gadd (gmul x y) (gmul x z). Proof. gz. Qed.
Lemma gmul_add_l x y z : gmul (gadd x y) z = gadd (gmul x z) (gmul y z). Proof. gz. Qed.
Lemma gmul_0_r x : gmul x g0 = g0. Proof. gz. Qed.
Lemma gmul_0_l x : gmul g0 x = g0. Proof. gz. Qed.
Lemma gmul_1_r x : gmul x g1 = x. Proof. gz. Qed.
Lemma gconj_mul x y : gconj (gmul x y) = gmul (gconj x) (gconj y). Proof. gz. Qed.
Lemma gmul_4 a b c d : gmul (gmul a b) (gmul c d) = gmul (gmul a c) (gmul b d). Proof. gz. Qed.
Lemma gofnat_mul a b : gmul (gofnat a) (gofnat b) = gofnat (a * b).
Proof. unfold gofnat, gmul. simpl. f_equal; rewrite ?Nat2Z.inj_mul; ring. Qed.

(* ------------------------------------------------------------ finite sums *)
Definition gS (N : nat) (f : nat -> GZ) : GZ := gsum (map f (seq 0 N)).

Lemma gsum_app l1 l2 : gsum (l1 ++ l2) = gadd (gsum l1) (gsum l2).
Proof.
  induction l1 as [|x l1 IH]; simpl.
  - symmetry. apply gadd_0_l.
  - rewrite IH. apply gadd_assoc.
Qed.

Lemma gS_S N f : gS (S N) f = gadd (gS N f) (f N).
Proof.
  unfold gS. rewrite seq_S, map_app, gsum_app. simpl. rewrite gadd_0_r'. reflexivity.
Qed.

Lemma gS_0 f : gS 0 f = g0. Proof. reflexivity. Qed.

Lemma gS_ext N f g : (forall i, i < N -> f i = g i) -> gS N f = gS N g.
Proof.
  intros H. unfold gS. f_equal. apply map_ext_in. intros i Hi.
  apply in_seq in Hi. apply H. lia.
Qed.

Lemma gS_add N f g : gS N (fun i => gadd (f i) (g i)) = gadd (gS N f) (gS N g).
Proof.
  induction N as [|N IH]; [rewrite !gS_0; symmetry; apply gadd_0_l|].
  rewrite !gS_S, IH.
  rewrite <- !gadd_assoc. f_equal. rewrite !gadd_assoc. f_equal. apply gadd_comm.
Qed.

Lemma gS_zero N : gS N (fun _ => g0) = g0.
Proof. induction N as [|N IH]; [reflexivity|]. rewrite gS_S, IH. apply gadd_0_l. Qed.

Lemma gS_mul_l N c f : gmul c (gS N f) = gS N (fun i => gmul c (f i)).
Proof.
  induction N as [|N IH]; [rewrite !gS_0; apply gmul_0_r|].
  rewrite !gS_S, gmul_add_r, IH. reflexivity.
Qed.

Lemma gS_mul_r N c f : gmul (gS N f) c = gS N (fun i => gmul (f i) c).
Proof.
  rewrite gmul_comm', gS_mul_l. apply gS_ext. intros. apply gmul_comm'.
Qed.

Lemma gS_exchange N M (F : nat -> nat -> GZ) :
  gS N (fun i => gS M (fun j => F i j)) = gS M (fun j => gS N (fun i => F i j)).
Proof.
  induction N as [|N IH].
  - rewrite gS_0. symmetry. rewrite (gS_ext M _ (fun _ => g0)) by (intros; apply gS_0).
    apply gS_zero.
  - rewrite gS_S, IH. rewrite <- gS_add. apply gS_ext. intros j _. rewrite gS_S. reflexivity.
Qed.

Lemma gS_plus A B f : gS (A + B) f = gadd (gS A f) (gS B (fun d => f (A + d))).
Proof.
  induction B as [|B IH].
  - rewrite Nat.add_0_r, gS_0, gadd_0_r'. reflexivity.
  - rewrite Nat.add_succ_r, !gS_S, IH. symmetry. apply gadd_assoc.
Qed.

(* radix split of the summation index: x = b*q + d *)
Lemma gS_split b N f : gS (b * N) f = gS N (fun q => gS b (fun d => f (b * q + d))).
Proof.
  induction N as [|N IH].
  - rewrite Nat.mul_0_r. reflexivity.
  - replace (b * S N) with (b * N + b) by ring.
    rewrite gS_plus, IH, gS_S. reflexivity.
Qed.

(* a product of two sums is the double sum of the products *)
Lemma gS_prod N M f g :
  gmul (gS N f) (gS M g) = gS N (fun i => gS M (fun j => gmul (f i) (g j))).
Proof.
  rewrite gS_mul_r. apply gS_ext. intros i _. apply gS_mul_l.
Qed.

(* a Kronecker delta picks one term *)
Lemma gS_delta N k (c : GZ) : k < N ->
  gS N (fun i => if i =? k then c else g0) = c.
Proof.
  induction N as [|N IH]; [lia|]. intros Hk. rewrite gS_S.
  destruct (Nat.eq_dec k N) as [->|Hne].
  - rewrite Nat.eqb_refl.
    rewrite (gS_ext N _ (fun _ => g0)).
    + rewrite gS_zero. apply gadd_0_l.
    + intros i Hi. destruct (i =? N) eqn:E; [apply Nat.eqb_eq in E; lia|reflexivity].
  - rewrite IH by lia. destruct (N =? k) eqn:E; [apply Nat.eqb_eq in E; lia|].
    apply gadd_0_r'.
Qed.

(* ------------------------------------------------------- Pauli strings *)
Lemma pauli_str_S n k r c :
  pauli_str (S n) k r c
  = gmul (pauli_str n (k / 4) (r / 2) (c / 2)) (pauli1 (k mod 4) (r mod 2) (c mod 2)).
Proof. reflexivity. Qed.

Lemma dm b q d : d < b -> (b * q + d) / b = q /\ (b * q + d) mod b = d.
Proof.
  intros H. rewrite (Nat.mul_comm b q). apply divmod_pair. exact H.
Qed.

(* tr(P_k^dag P_l) *)
Definition orth (n k l : nat) : GZ :=
  gS (2 ^ n) (fun r => gS (2 ^ n) (fun c => gmul (gconj (pauli_str n k r c)) (pauli_str n l r c))).

Definition orth1 (k l : nat) : GZ :=
  gS 2 (fun r => gS 2 (fun c => gmul (gconj (pauli1 k r c)) (pauli1 l r c))).

Lemma orth1_table : forall k l, k < 4 -> l < 4 ->
  orth1 k l = if k =? l then gofnat 2 else g0.
Proof.
  intros k l Hk Hl.
  destruct k as [|[|[|[|k]]]]; try lia; destruct l as [|[|[|[|l]]]]; try lia; reflexivity.
Qed.

Lemma orth_step n k l :
  orth (S n) k l = gmul (orth n (k / 4) (l / 4)) (orth1 (k mod 4) (l mod 4)).
Proof.
  unfold orth at 1. rewrite Nat.pow_succ_r'.
  rewrite gS_split.
  (* sum over r = 2 r' + r0 , then c = 2 c' + c0 *)
  transitivity (gS (2 ^ n) (fun r' => gS 2 (fun r0 => gS (2 ^ n) (fun c' => gS 2 (fun c0 =>
     gmul (gmul (gconj (pauli_str n (k / 4) r' c')) (pauli_str n (l / 4) r' c'))
          (gmul (gconj (pauli1 (k mod 4) r0 c0)) (pauli1 (l mod 4) r0 c0))))))).
  { apply gS_ext. intros r' _. apply gS_ext. intros r0 Hr0.
    rewrite gS_split. apply gS_ext. intros c' _. apply gS_ext. intros c0 Hc0.
    rewrite !pauli_str_S.
    destruct (dm 2 r' r0 Hr0) as [E1 E2]. destruct (dm 2 c' c0 Hc0) as [E3 E4].
    rewrite E1, E2, E3, E4. rewrite gconj_mul. apply gmul_4. }
  unfold orth, orth1. rewrite gS_prod.
  apply gS_ext. intros r' _. apply gS_ext. intros r0 _.
  rewrite gS_prod. reflexivity.
Qed.

Lemma pow4 n : 4 ^ n = 2 ^ n * 2 ^ n.
Proof. change 4 with (2 * 2). apply Nat.pow_mul_l. Qed.

Lemma pow2_pos n : 0 < 2 ^ n.
Proof. induction n; simpl; lia. Qed.

Lemma orth_all : forall n k l, k < 4 ^ n -> l < 4 ^ n ->
  orth n k l = if k =? l then gofnat (2 ^ n) else g0.
Proof.
  induction n as [|n IH]; intros k l Hk Hl.
  - simpl in Hk, Hl. assert (k = 0) by lia. assert (l = 0) by lia. subst. reflexivity.
  - rewrite Nat.pow_succ_r' in Hk, Hl.
    assert (Hk4 : k / 4 < 4 ^ n) by (apply Nat.div_lt_upper_bound; lia).
    assert (Hl4 : l / 4 < 4 ^ n) by (apply Nat.div_lt_upper_bound; lia).
    assert (Hkm : k mod 4 < 4) by (apply Nat.mod_upper_bound; lia).
    assert (Hlm : l mod 4 < 4) by (apply Nat.mod_upper_bound; lia).
    rewrite orth_step, (IH _ _ Hk4 Hl4), (orth1_table _ _ Hkm Hlm).
    pose proof (Nat.div_mod k 4 ltac:(lia)) as Ek.
    pose proof (Nat.div_mod l 4 ltac:(lia)) as El.
    destruct (k =? l) eqn:E.
    + apply Nat.eqb_eq in E. subst l. rewrite !Nat.eqb_refl.
      rewrite gofnat_mul. f_equal. rewrite Nat.pow_succ_r'. ring.
    + apply Nat.eqb_neq in E.
      destruct (k / 4 =? l / 4) eqn:E1; [|apply gmul_0_l].
      destruct (k mod 4 =? l mod 4) eqn:E2; [|apply gmul_0_r].
      apply Nat.eqb_eq in E1. apply Nat.eqb_eq in E2. exfalso. apply E. lia.
Qed.

(* sum_k P_k[r,c] conj P_k[r',c'] *)
Definition compl (n r c r' c' : nat) : GZ :=
  gS (4 ^ n) (fun k => gmul (pauli_str n k r c) (gconj (pauli_str n k r' c'))).
Definition compl1 (r c r' c' : nat) : GZ :=
  gS 4 (fun k => gmul (pauli1 k r c) (gconj (pauli1 k r' c'))).

Lemma compl1_table : forall r c r' c', r < 2 -> c < 2 -> r' < 2 -> c' < 2 ->
  compl1 r c r' c' = if (r =? r') && (c =? c') then gofnat 2 else g0.
Proof.
  intros r c r' c' H1 H2 H3 H4.
  destruct r as [|[|r]]; try lia; destruct c as [|[|c]]; try lia;
  destruct r' as [|[|r']]; try lia; destruct c' as [|[|c']]; try lia; reflexivity.
Qed.

Lemma compl_step n r c r' c' :
  compl (S n) r c r' c'
  = gmul (compl n (r / 2) (c / 2) (r' / 2) (c' / 2))
         (compl1 (r mod 2) (c mod 2) (r' mod 2) (c' mod 2)).
Proof.
  unfold compl at 1. rewrite Nat.pow_succ_r'. rewrite gS_split.
  unfold compl, compl1. rewrite gS_prod.
  apply gS_ext. intros k' _. apply gS_ext. intros k0 Hk0.
  rewrite !pauli_str_S. destruct (dm 4 k' k0 Hk0) as [E1 E2]. rewrite E1, E2.
  rewrite gconj_mul. apply gmul_4.
Qed.

Lemma compl_all : forall n r c r' c',
  r < 2 ^ n -> c < 2 ^ n -> r' < 2 ^ n -> c' < 2 ^ n ->
  compl n r c r' c' = if (r =? r') && (c =? c') then gofnat (2 ^ n) else g0.
Proof.
  induction n as [|n IH]; intros r c r' c' H1 H2 H3 H4.
  - simpl in *. assert (r = 0) by lia. assert (c = 0) by lia.
    assert (r' = 0) by lia. assert (c' = 0) by lia. subst. reflexivity.
  - rewrite Nat.pow_succ_r' in H1, H2, H3, H4.
    assert (D : forall z, z < 2 * 2 ^ n -> z / 2 < 2 ^ n /\ z mod 2 < 2 /\ z = 2 * (z / 2) + z mod 2).
    { intros z Hz. split; [apply Nat.div_lt_upper_bound; lia|].
      split; [apply Nat.mod_upper_bound; lia|apply Nat.div_mod; lia]. }
    destruct (D r H1) as (A1 & B1 & C1). destruct (D c H2) as (A2 & B2 & C2).
    destruct (D r' H3) as (A3 & B3 & C3). destruct (D c' H4) as (A4 & B4 & C4).
    rewrite compl_step, (IH _ _ _ _ A1 A2 A3 A4), (compl1_table _ _ _ _ B1 B2 B3 B4).
    destruct ((r =? r') && (c =? c')) eqn:E.
    + apply andb_true_iff in E. destruct E as [E1 E2].
      apply Nat.eqb_eq in E1. apply Nat.eqb_eq in E2. subst r' c'.
      rewrite !Nat.eqb_refl. cbn [andb]. rewrite gofnat_mul. f_equal. rewrite Nat.pow_succ_r'. ring.
    + destruct ((r / 2 =? r' / 2) && (c / 2 =? c' / 2)) eqn:F1; [|apply gmul_0_l].
      destruct ((r mod 2 =? r' mod 2) && (c mod 2 =? c' mod 2)) eqn:F2; [|apply gmul_0_r].
      apply andb_true_iff in F1. destruct F1 as [F1a F1b].
      apply andb_true_iff in F2. destruct F2 as [F2a F2b].
      apply Nat.eqb_eq in F1a. apply Nat.eqb_eq in F1b.
      apply Nat.eqb_eq in F2a. apply Nat.eqb_eq in F2b.
      assert (r = r') by lia. assert (c = c') by lia. subst.
      rewrite !Nat.eqb_refl in E. discriminate.
Qed.

(* ----------------------------------------------------- the flat matrix *)
Lemma mbuild_ext nr nc f g :
  (forall r c, r < nr -> c < nc -> f r c = g r c) -> mbuild nr nc f = mbuild nr nc g.
Proof.
  intros H. unfold mbuild.
  assert (G : forall l, (forall r, In r l -> r < nr) ->
     flat_map (fun r => map (fun c => f r c) (seq 0 nc)) l
     = flat_map (fun r => map (fun c => g r c) (seq 0 nc)) l).
  { induction l as [|r l IH]; intros Hl; [reflexivity|]. simpl. f_equal.
    - apply map_ext_in. intros c Hc. apply in_seq in Hc. apply H; [apply Hl; left; reflexivity|lia].
    - apply IH. intros r' Hr'. apply Hl. right. exact Hr'. }
  apply G. intros r Hr. apply in_seq in Hr. lia.
Qed.

Lemma superpauli_get n x k : x < 2 ^ n * 2 ^ n -> k < 2 ^ n * 2 ^ n ->
  mget (superpauli n) (2 ^ n * 2 ^ n) x k = pauli_str n k (x mod 2 ^ n) (x / 2 ^ n).
Proof. intros Hx Hk. unfold superpauli. rewrite mbuild_get by assumption. reflexivity. Qed.

Definition scaled_id (N : nat) (c : GZ) : list GZ :=
  mbuild N N (fun r k => if r =? k then c else g0).

(* B^dag B = 2^nq 1 on the flat list matrix, every nq *)
Lemma superpauli_orthogonal : forall nq,
  mmul (4 ^ nq) (4 ^ nq) (4 ^ nq) (madj (4 ^ nq) (4 ^ nq) (superpauli nq)) (superpauli nq)
  = scaled_id (4 ^ nq) (gofnat (2 ^ nq)).
Proof.
  intros n. unfold mmul, scaled_id. apply mbuild_ext. intros k l Hk Hl.
  fold (gS (4 ^ n) (fun x => gmul (mget (madj (4 ^ n) (4 ^ n) (superpauli n)) (4 ^ n) k x)
                                   (mget (superpauli n) (4 ^ n) x l))).
  rewrite <- (orth_all n k l Hk Hl).
  rewrite pow4 in *. set (d := 2 ^ n) in *.
  assert (Hd : 0 < d) by apply pow2_pos.
  rewrite gS_split. unfold orth. fold d. rewrite gS_exchange.
  apply gS_ext. intros q Hq. apply gS_ext. intros e He.
  assert (Hx : d * e + q < d * d) by nia.
  unfold madj. rewrite mbuild_get by assumption.
  rewrite !superpauli_get by assumption.
  fold d. destruct (dm d e q Hq) as [E1 E2]. rewrite E1, E2. reflexivity.
Qed.

(* B B^dag = 2^nq 1 on the flat list matrix, every nq *)
Lemma superpauli_complete : forall nq,
  mmul (4 ^ nq) (4 ^ nq) (4 ^ nq) (superpauli nq) (madj (4 ^ nq) (4 ^ nq) (superpauli nq))
  = scaled_id (4 ^ nq) (gofnat (2 ^ nq)).
Proof.
  intros n. unfold mmul, scaled_id. apply mbuild_ext. intros x y Hx Hy.
  fold (gS (4 ^ n) (fun k => gmul (mget (superpauli n) (4 ^ n) x k)
                                   (mget (madj (4 ^ n) (4 ^ n) (superpauli n)) (4 ^ n) k y))).
  assert (Hd : 0 < 2 ^ n) by apply pow2_pos.
  assert (Hx' : x < 2 ^ n * 2 ^ n) by (rewrite <- pow4; exact Hx).
  assert (Hy' : y < 2 ^ n * 2 ^ n) by (rewrite <- pow4; exact Hy).
  set (d := 2 ^ n) in *.
  assert (Dx : x / d < d /\ x mod d < d /\ x = d * (x / d) + x mod d).
  { split; [apply Nat.div_lt_upper_bound; lia|].
    split; [apply Nat.mod_upper_bound; lia|apply Nat.div_mod; lia]. }
  assert (Dy : y / d < d /\ y mod d < d /\ y = d * (y / d) + y mod d).
  { split; [apply Nat.div_lt_upper_bound; lia|].
    split; [apply Nat.mod_upper_bound; lia|apply Nat.div_mod; lia]. }
  destruct Dx as (A1 & B1 & C1). destruct Dy as (A2 & B2 & C2).
  transitivity (compl n (x mod d) (x / d) (y mod d) (y / d)).
  - unfold compl. apply gS_ext. intros k Hk.
    assert (Hk' : k < d * d) by (unfold d; rewrite <- pow4; exact Hk).
    replace (4 ^ n) with (d * d) by (unfold d; symmetry; apply pow4).
    unfold madj. rewrite mbuild_get by assumption.
    rewrite !superpauli_get by assumption. reflexivity.
  - fold d in B1, A1, B2, A2.
    rewrite (compl_all n _ _ _ _ B1 A1 B2 A2). fold d.
    destruct (x =? y) eqn:E.
    + apply Nat.eqb_eq in E. subst y. rewrite !Nat.eqb_refl. reflexivity.
    + apply Nat.eqb_neq in E.
      destruct ((x mod d =? y mod d) && (x / d =? y / d)) eqn:F; [|reflexivity].
      apply andb_true_iff in F. destruct F as [F1 F2].
      apply Nat.eqb_eq in F1. apply Nat.eqb_eq in F2. exfalso. apply E. lia.
Qed.
