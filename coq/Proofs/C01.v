(* C01 - proofs about the storage-format kernels of Model/C01.v *)
From Coq Require Import List ZArith Bool Arith Lia ZifyBool Permutation.
Import ListNotations.
From QV Require Import Model.C01.

(* ------------------------------------------------------ index arithmetic *)
Lemma didx_lt : forall nr nc f i j, i < nr -> j < nc -> didx nr nc f i j < nr * nc.
Proof. intros nr nc f i j Hi Hj. unfold didx. destruct f; nia. Qed.

Lemma dunidx_didx : forall nr nc f i j, i < nr -> j < nc ->
  dunidx nr nc f (didx nr nc f i j) = (i, j).
Proof.
  intros nr nc f i j Hi Hj. unfold dunidx, didx. destruct f.
  - f_equal.
    + symmetry. apply Nat.mod_unique with (q := j); lia.
    + symmetry. apply Nat.div_unique with (r := i); lia.
  - f_equal.
    + symmetry. apply Nat.div_unique with (r := j); lia.
    + symmetry. apply Nat.mod_unique with (q := i); lia.
Qed.

Lemma nth_map_seq : forall (A : Type) (g : nat -> A) n k d, k < n ->
  nth k (map g (seq 0 n)) d = g k.
Proof.
  intros A g n k d Hk.
  rewrite nth_indep with (d' := g 0) by (rewrite map_length, seq_length; exact Hk).
  rewrite map_nth. rewrite seq_nth by exact Hk. reflexivity.
Qed.

Section P.
Variable C : Type.
Variables (c0 c1 : C) (cadd cmul : C -> C -> C) (copp cconj : C -> C).
Variable is0 : C -> bool.
Variable ceqb : C -> C -> bool.
Variable small : C -> bool.
Variable tidy : C -> C.

Notation dense := (dense C).
Notation csr := (csr C).
Notation dia := (dia C).
Notation den_dense := (den_dense C c0).
Notation den_csr := (den_csr C c0).
Notation den_dia := (den_dia C c0).
Notation row_get := (row_get C c0).
Notation tabulate := (tabulate C).

Lemma nth_tabulate : forall nr nc f g i j, i < nr -> j < nc ->
  nth (didx nr nc f i j) (tabulate nr nc f g) c0 = g i j.
Proof.
  intros nr nc f g i j Hi Hj. unfold tabulate.
  rewrite nth_map_seq by (apply didx_lt; assumption).
  rewrite dunidx_didx by assumption. reflexivity.
Qed.

Lemma tabulate_length : forall nr nc f g, length (tabulate nr nc f g) = nr * nc.
Proof. intros. unfold tabulate. rewrite map_length, seq_length. reflexivity. Qed.

Lemma den_tabulate : forall nr nc f g i j,
  den_dense {| d_nr := nr; d_nc := nc; d_fortran := f; d_data := tabulate nr nc f g |} i j
  = if (i <? nr) && (j <? nc) then g i j else c0.
Proof.
  intros. unfold C01.den_dense. simpl.
  destruct (i <? nr) eqn:Hi; simpl; [|reflexivity].
  destruct (j <? nc) eqn:Hj; simpl; [|reflexivity].
  apply Nat.ltb_lt in Hi. apply Nat.ltb_lt in Hj. apply nth_tabulate; assumption.
Qed.

(* ------------------------------------------------------------ row lookup *)
Lemma find_none_notin : forall (row : crow C) j,
  ~ In j (map fst row) -> find (fun p => fst p =? j) row = None.
Proof.
  induction row as [|p t IH]; intros j Hn; simpl; [reflexivity|].
  destruct (fst p =? j) eqn:E.
  - apply Nat.eqb_eq in E. exfalso. apply Hn. simpl. left. exact E.
  - apply IH. intro H. apply Hn. simpl. right. exact H.
Qed.

Lemma find_app : forall (A : Type) (f : A -> bool) l1 l2,
  find f (l1 ++ l2) = match find f l1 with Some x => Some x | None => find f l2 end.
Proof.
  induction l1 as [|a t IH]; intros l2; simpl; [reflexivity|].
  destruct (f a); [reflexivity|apply IH].
Qed.

(* with distinct columns the first and the last stored entry of a column
   are the same: CSR.to_array (last write wins) = den_csr (first match) *)
Lemma row_get_rev : forall (row : crow C) j,
  NoDup (map fst row) -> row_get j (rev row) = row_get j row.
Proof.
  unfold C01.row_get. induction row as [|p t IH]; intros j Hnd; simpl; [reflexivity|].
  inversion Hnd as [|x l Hnotin Hnd' Heq]; subst.
  rewrite find_app. simpl.
  destruct (fst p =? j) eqn:E.
  - apply Nat.eqb_eq in E. subst j.
    assert (Hn : find (fun q => fst q =? fst p) (rev t) = None).
    { apply find_none_notin. rewrite map_rev. intro H. apply in_rev in H. exact (Hnotin H). }
    rewrite Hn. reflexivity.
  - specialize (IH j Hnd').
    destruct (find (fun q => fst q =? j) (rev t)); destruct (find (fun q => fst q =? j) t);
      simpl in *; try exact IH; reflexivity.
Qed.

(* ------------------------------------------------------- dense <- csr *)
Lemma dense_from_csr_den : forall fortran (m : csr) i j,
  wf_csr C m ->
  den_dense (dense_from_csr C c0 fortran m) i j = den_csr m i j.
Proof.
  intros fortran m i j [Hlen Hrows]. unfold dense_from_csr.
  rewrite den_tabulate. unfold C01.den_csr.
  destruct ((i <? s_nr C m) && (j <? s_nc C m)) eqn:E; [|reflexivity].
  unfold row_get_last. apply row_get_rev.
  apply andb_prop in E. destruct E as [Ei _]. apply Nat.ltb_lt in Ei.
  destruct (Hrows (nth i (s_rows C m) [])) as [Hnd _]; [|exact Hnd].
  apply nth_In. rewrite Hlen. exact Ei.
Qed.

Lemma dense_from_csr_wf : forall fortran (m : csr), wf_dense C (dense_from_csr C c0 fortran m).
Proof. intros. unfold wf_dense, dense_from_csr. simpl. apply tabulate_length. Qed.

(* ------------------------------------------------------- csr <- dense *)
Section FromDense.
Variable v : nat -> C.      (* value read at column col of the current row *)
Let G := fun col => if small (v col) then [] else [(col, v col)] : crow C.

Lemma from_dense_row_find : forall n a j,
  find (fun p => fst p =? j) (flat_map G (seq a n)) =
  if (a <=? j) && (j <? a + n) then (if small (v j) then None else Some (j, v j)) else None.
Proof.
  induction n as [|n IH]; intros a j; simpl.
  - destruct (a <=? j) eqn:E1; simpl; [|reflexivity].
    destruct (j <? a + 0) eqn:E2; [|reflexivity].
    apply Nat.leb_le in E1. apply Nat.ltb_lt in E2. lia.
  - rewrite find_app. rewrite IH. unfold G at 1.
    destruct (Nat.eq_dec a j) as [->|Hne].
    + assert (H1 : (j <=? j) && (j <? j + S n) = true).
      { apply andb_true_intro. split; [apply Nat.leb_le|apply Nat.ltb_lt]; lia. }
      rewrite H1.
      assert (H2 : (S j <=? j) = false) by (apply Nat.leb_gt; lia). rewrite H2. simpl.
      destruct (small (v j)); simpl; [reflexivity|]. rewrite Nat.eqb_refl. reflexivity.
    + assert (H3 : find (fun p => fst p =? j) (if small (v a) then [] else [(a, v a)]) = None).
      { destruct (small (v a)); simpl; [reflexivity|].
        destruct (a =? j) eqn:E; [apply Nat.eqb_eq in E; contradiction|reflexivity]. }
      rewrite H3.
      assert (H4 : (a <=? j) && (j <? a + S n) = (S a <=? j) && (j <? S a + n)).
      { lia. }
      rewrite H4. reflexivity.
Qed.

Lemma from_dense_row_in : forall n a p, In p (flat_map G (seq a n)) -> a <= fst p < a + n.
Proof.
  induction n as [|n IH]; intros a p H; simpl in H; [contradiction|].
  apply in_app_or in H. destruct H as [H|H].
  - unfold G in H. destruct (small (v a)); simpl in H; [contradiction|].
    destruct H as [H|[]]. subst p. simpl. lia.
  - apply IH in H. lia.
Qed.

Lemma from_dense_row_nodup : forall n a, NoDup (map fst (flat_map G (seq a n))).
Proof.
  induction n as [|n IH]; intros a; simpl; [constructor|].
  rewrite map_app. unfold G at 1. destruct (small (v a)); simpl; [apply IH|].
  constructor; [|apply IH].
  intro H. apply in_map_iff in H. destruct H as [p [Hp Hin]].
  apply from_dense_row_in in Hin. lia.
Qed.
End FromDense.

Lemma nth_map_seq_nil : forall (g : nat -> crow C) n k, k < n ->
  nth k (map g (seq 0 n)) [] = g k.
Proof. intros. apply nth_map_seq. assumption. Qed.

Theorem csr_from_dense_den : forall (d : dense) i j,
  den_csr (csr_from_dense C c0 small d) i j =
  if small (den_dense d i j) then c0 else den_dense d i j.
Proof.
  intros d i j. unfold C01.den_csr, csr_from_dense, C01.den_dense. simpl.
  destruct (i <? d_nr C d) eqn:Hi; simpl.
  2:{ destruct (small c0); reflexivity. }
  destruct (j <? d_nc C d) eqn:Hj; simpl.
  2:{ destruct (small c0); reflexivity. }
  apply Nat.ltb_lt in Hi. pose proof Hj as Hj'. apply Nat.ltb_lt in Hj'.
  rewrite nth_map_seq_nil by exact Hi.
  unfold C01.row_get.
  rewrite (from_dense_row_find
    (fun col => nth ((if d_fortran C d then 1 else d_nc C d) * i
                     + col * (if d_fortran C d then d_nr C d else 1)) (d_data C d) c0)).
  simpl. rewrite Hj. simpl.
  assert (E : (if d_fortran C d then 1 else d_nc C d) * i + j * (if d_fortran C d then d_nr C d else 1)
              = didx (d_nr C d) (d_nc C d) (d_fortran C d) i j).
  { unfold didx. destruct (d_fortran C d); lia. }
  rewrite E. destruct (small _); reflexivity.
Qed.

Theorem csr_from_dense_wf : forall (d : dense), wf_csr C (csr_from_dense C c0 small d).
Proof.
  intros d. unfold wf_csr, csr_from_dense. simpl. split.
  - rewrite map_length, seq_length. reflexivity.
  - intros row Hin. apply in_map_iff in Hin. destruct Hin as [r [Hr _]]. subst row.
    split.
    + apply (from_dense_row_nodup
        (fun col => nth ((if d_fortran C d then 1 else d_nc C d) * r
                         + col * (if d_fortran C d then d_nr C d else 1)) (d_data C d) c0)).
    + intros p Hp.
      apply (from_dense_row_in
        (fun col => nth ((if d_fortran C d then 1 else d_nc C d) * r
                         + col * (if d_fortran C d then d_nr C d else 1)) (d_data C d) c0)) in Hp.
      lia.
Qed.

(* --------------------------------------- dense transpose / adjoint / map *)
Lemma didx_swap : forall nr nc f i j, didx nc nr (negb f) j i = didx nr nc f i j.
Proof. intros. unfold didx. destruct f; simpl; lia. Qed.

Theorem transpose_dense_den : forall (d : dense) i j,
  den_dense (transpose_dense C d) j i = den_dense d i j.
Proof.
  intros. unfold C01.den_dense, transpose_dense. simpl.
  rewrite didx_swap. rewrite andb_comm. reflexivity.
Qed.

Lemma nth_map_default : forall (f : C -> C) l k, f c0 = c0 -> nth k (map f l) c0 = f (nth k l c0).
Proof. intros f l k H. rewrite <- H at 1. apply map_nth. Qed.

Theorem map_dense_den : forall (f : C -> C) (d : dense) i j, f c0 = c0 ->
  den_dense (map_dense C f d) i j = f (den_dense d i j).
Proof.
  intros f d i j H0. unfold C01.den_dense, map_dense. simpl.
  destruct ((i <? d_nr C d) && (j <? d_nc C d)); [|symmetry; exact H0].
  apply nth_map_default. exact H0.
Qed.

Theorem adjoint_dense_den : forall (d : dense) i j, cconj c0 = c0 ->
  den_dense (adjoint_dense C cconj d) j i = cconj (den_dense d i j).
Proof.
  intros d i j H0. unfold C01.den_dense, adjoint_dense. simpl.
  rewrite didx_swap. rewrite andb_comm.
  destruct ((i <? d_nr C d) && (j <? d_nc C d)); [|symmetry; exact H0].
  apply nth_map_default. exact H0.
Qed.

Theorem reorder_dense_den : forall (d : dense) i j,
  den_dense (reorder_dense C c0 d) i j = den_dense d i j.
Proof.
  intros d i j. unfold reorder_dense. rewrite den_tabulate.
  destruct ((i <? d_nr C d) && (j <? d_nc C d)) eqn:E; [reflexivity|].
  unfold C01.den_dense. rewrite E. reflexivity.
Qed.

(* ----------------------------------------------------- csr entry-wise map *)
Lemma find_map_snd : forall (f : C -> C) (row : crow C) j,
  find (fun p => fst p =? j) (map (fun p => (fst p, f (snd p))) row) =
  option_map (fun p => (fst p, f (snd p))) (find (fun p => fst p =? j) row).
Proof.
  induction row as [|p t IH]; intros j; simpl; [reflexivity|].
  destruct (fst p =? j); [reflexivity|apply IH].
Qed.

Lemma row_get_map_rows : forall (f : C -> C) j (rows : list (crow C)) i, f c0 = c0 ->
  row_get j (nth i (map (map (fun p : nat * C => (fst p, f (snd p)))) rows) []) =
  f (row_get j (nth i rows [])).
Proof.
  intros f j rows i H0. revert i. induction rows as [|row t IH]; intros i.
  - destruct i; simpl; unfold C01.row_get; simpl; symmetry; exact H0.
  - destruct i as [|i]; simpl; [|apply IH].
    unfold C01.row_get. rewrite find_map_snd.
    destruct (find (fun p : nat * C => fst p =? j) row); simpl;
      [reflexivity|symmetry; exact H0].
Qed.

Theorem map_csr_den : forall (f : C -> C) (m : csr) i j, f c0 = c0 ->
  den_csr (map_csr C f m) i j = f (den_csr m i j).
Proof.
  intros f m i j H0. unfold C01.den_csr, map_csr. simpl.
  destruct ((i <? s_nr C m) && (j <? s_nc C m)); [|symmetry; exact H0].
  apply row_get_map_rows. exact H0.
Qed.

Theorem map_csr_wf : forall (f : C -> C) (m : csr), wf_csr C m -> wf_csr C (map_csr C f m).
Proof.
  intros f m [Hlen Hrows]. unfold wf_csr, map_csr. simpl. split.
  - rewrite map_length. exact Hlen.
  - intros row Hin. apply in_map_iff in Hin. destruct Hin as [r0 [Hr Hin]]. subst row.
    destruct (Hrows r0 Hin) as [Hnd Hb]. split.
    + rewrite map_map. simpl. exact Hnd.
    + intros p Hp. apply in_map_iff in Hp. destruct Hp as [q [Hq Hqin]]. subst p. simpl.
      apply Hb. exact Hqin.
Qed.

Lemma row_get_repeat_nil : forall j n i, row_get j (nth i (repeat (@nil (nat * C)) n) []) = c0.
Proof.
  intros j n. induction n as [|n IH]; intros [|i]; simpl; try reflexivity. apply IH.
Qed.

Lemma zeros_csr_den : forall nr nc i j, den_csr (zeros_csr C nr nc) i j = c0.
Proof.
  intros. unfold C01.den_csr, zeros_csr. simpl.
  destruct ((i <? nr) && (j <? nc)); [|reflexivity].
  apply row_get_repeat_nil.
Qed.

(* -------------------------------------------------------- csr transpose *)
Lemma find_tag_other : forall (f : C -> C) (r i : nat) (l tl : crow C), r <> i ->
  find (fun p => fst p =? i) (map (fun p => (r, f (snd p))) l ++ tl) =
  find (fun p => fst p =? i) tl.
Proof.
  intros f r i l tl Hne. induction l as [|p t IH]; simpl; [reflexivity|].
  destruct (r =? i) eqn:E; [apply Nat.eqb_eq in E; contradiction|exact IH].
Qed.

Lemma find_tag_same : forall (f : C -> C) (r j : nat) (row tl : crow C),
  find (fun p => fst p =? r)
       (map (fun p => (r, f (snd p))) (filter (fun p => fst p =? j) row) ++ tl) =
  match find (fun p => fst p =? j) row with
  | Some p => Some (r, f (snd p))
  | None => find (fun p => fst p =? r) tl
  end.
Proof.
  intros f r j row tl. induction row as [|p t IH]; simpl; [reflexivity|].
  destruct (fst p =? j); simpl; [rewrite Nat.eqb_refl; reflexivity|exact IH].
Qed.

Lemma col_entries_ge : forall (f : C -> C) c rows r p,
  In p (col_entries C f c r rows) -> r <= fst p < r + length rows.
Proof.
  intros f c. induction rows as [|row t IH]; intros r p H; simpl in H; [contradiction|].
  apply in_app_or in H. destruct H as [H|H].
  - apply in_map_iff in H. destruct H as [q [Hq _]]. subst p. simpl. lia.
  - apply IH in H. simpl. lia.
Qed.

Lemma col_entries_find : forall (f : C -> C) j rows r i,
  find (fun p => fst p =? i) (col_entries C f j r rows) =
  if (r <=? i) && (i <? r + length rows)
  then option_map (fun p => (i, f (snd p))) (find (fun p => fst p =? j) (nth (i - r) rows []))
  else None.
Proof.
  intros f j. induction rows as [|row t IH]; intros r i; simpl.
  - destruct ((r <=? i) && (i <? r + 0)) eqn:E; [|reflexivity].
    apply andb_prop in E. destruct E as [E1 E2].
    apply Nat.leb_le in E1. apply Nat.ltb_lt in E2. lia.
  - destruct (Nat.eq_dec r i) as [->|Hne].
    + rewrite find_tag_same. rewrite Nat.sub_diag.
      assert (H1 : (i <=? i) && (i <? i + S (length t)) = true).
      { apply andb_true_intro. split; [apply Nat.leb_le|apply Nat.ltb_lt]; lia. }
      rewrite H1.
      destruct (find (fun p => fst p =? j) row) eqn:Ef; simpl; [reflexivity|].
      rewrite IH.
      assert (H2 : (S i <=? i) = false) by (apply Nat.leb_gt; lia).
      rewrite H2. reflexivity.
    + rewrite find_tag_other by exact Hne. rewrite IH.
      assert (H4 : (S r <=? i) && (i <? S r + length t) = (r <=? i) && (i <? r + S (length t)))
        by lia.
      rewrite H4.
      destruct ((r <=? i) && (i <? r + S (length t))) eqn:E; [|reflexivity].
      assert (Hs : i - r = S (i - S r)) by lia.
      rewrite Hs. reflexivity.
Qed.

Theorem transpose_gen_den : forall (f : C -> C) (m : csr) i j, f c0 = c0 ->
  length (s_rows C m) = s_nr C m ->
  den_csr (transpose_gen C f m) j i = f (den_csr m i j).
Proof.
  intros f m i j H0 Hlen. unfold C01.den_csr, transpose_gen. simpl.
  rewrite andb_comm.
  destruct (i <? s_nr C m) eqn:Hi; simpl; [|symmetry; exact H0].
  destruct (j <? s_nc C m) eqn:Hj; simpl; [|symmetry; exact H0].
  apply Nat.ltb_lt in Hi. apply Nat.ltb_lt in Hj.
  rewrite nth_map_seq_nil by exact Hj.
  unfold C01.row_get. rewrite col_entries_find. simpl. rewrite Nat.sub_0_r. rewrite Hlen.
  assert (H1 : (i <? s_nr C m) = true) by (apply Nat.ltb_lt; exact Hi). rewrite H1.
  destruct (find (fun p => fst p =? j) (nth i (s_rows C m) [])); simpl;
    [reflexivity|symmetry; exact H0].
Qed.

Lemma filter_nodup_le1 : forall (row : crow C) j, NoDup (map fst row) ->
  filter (fun p => fst p =? j) row = [] \/ exists p, filter (fun p => fst p =? j) row = [p].
Proof.
  induction row as [|p t IH]; intros j Hnd; simpl; [left; reflexivity|].
  inversion Hnd as [|x l Hnotin Hnd' Heq]; subst.
  destruct (fst p =? j) eqn:E.
  - right. exists p. f_equal.
    apply Nat.eqb_eq in E. subst j.
    clear IH Hnd Hnd'. induction t as [|q t' IHt]; simpl; [reflexivity|].
    destruct (fst q =? fst p) eqn:E2.
    + apply Nat.eqb_eq in E2. exfalso. apply Hnotin. simpl. left. exact E2.
    + apply IHt. intro H. apply Hnotin. simpl. right. exact H.
  - apply IH. exact Hnd'.
Qed.

Lemma col_entries_nodup : forall (f : C -> C) c rows r,
  (forall row, In row rows -> NoDup (map fst row)) ->
  NoDup (map fst (col_entries C f c r rows)).
Proof.
  intros f c. induction rows as [|row t IH]; intros r Hnd; simpl; [constructor|].
  rewrite map_app.
  assert (Ht : NoDup (map fst (col_entries C f c (S r) t))).
  { apply IH. intros row' Hin. apply Hnd. right. exact Hin. }
  destruct (filter_nodup_le1 row c (Hnd row (or_introl eq_refl))) as [E|[p E]]; rewrite E; simpl.
  - exact Ht.
  - constructor; [|exact Ht].
    intro H. apply in_map_iff in H. destruct H as [q [Hq Hin]].
    apply col_entries_ge in Hin. lia.
Qed.

Theorem transpose_gen_wf : forall (f : C -> C) (m : csr), wf_csr C m ->
  wf_csr C (transpose_gen C f m).
Proof.
  intros f m [Hlen Hrows]. unfold wf_csr, transpose_gen. simpl. split.
  - rewrite map_length, seq_length. reflexivity.
  - intros row Hin. apply in_map_iff in Hin. destruct Hin as [c [Hc _]]. subst row. split.
    + apply col_entries_nodup. intros row Hin. destruct (Hrows row Hin) as [H _]. exact H.
    + intros p Hp. apply col_entries_ge in Hp. lia.
Qed.

End P.

(* ------------------------------------------------------------ add_dense *)
Section AddDense.
Variable C : Type.
Variables (c0 : C) (cadd cmul : C -> C -> C).

Lemma nth_map_combine : forall (g : C * C -> C) (a b : list C) k,
  k < length a -> length a = length b ->
  nth k (map g (combine a b)) c0 = g (nth k a c0, nth k b c0).
Proof.
  intros g a. induction a as [|x a IH]; intros b k Hk Hl; simpl in *; [lia|].
  destruct b as [|y b]; simpl in *; [lia|].
  destruct k as [|k]; [reflexivity|]. apply IH; lia.
Qed.

Theorem add_dense_den : forall (l r out : dense C) scale i j,
  wf_dense C l -> wf_dense C r ->
  add_dense C c0 cadd cmul l r scale = Some out ->
  i < d_nr C l -> j < d_nc C l ->
  den_dense C c0 out i j =
  cadd (den_dense C c0 l i j) (cmul scale (den_dense C c0 r i j)).
Proof.
  intros l r out scale i j Wl Wr H Hi Hj. unfold add_dense in H.
  destruct ((d_nr C l =? d_nr C r) && (d_nc C l =? d_nc C r)) eqn:Es; simpl in H; [|discriminate].
  apply andb_prop in Es. destruct Es as [E1 E2].
  apply Nat.eqb_eq in E1. apply Nat.eqb_eq in E2.
  injection H as H. subst out. unfold den_dense. simpl.
  rewrite <- E1, <- E2.
  assert (Hi' : (i <? d_nr C l) = true) by (apply Nat.ltb_lt; exact Hi).
  assert (Hj' : (j <? d_nc C l) = true) by (apply Nat.ltb_lt; exact Hj).
  rewrite Hi', Hj'. simpl.
  unfold wf_dense in Wl, Wr.
  pose proof (didx_lt (d_nr C l) (d_nc C l) (d_fortran C l) i j Hi Hj) as Hlt.
  destruct (eqb (d_fortran C l) (d_fortran C r)) eqn:Ef.
  - apply eqb_prop in Ef. rewrite <- Ef.
    rewrite nth_map_combine; [reflexivity|lia|lia].
  - rewrite nth_map_seq by exact Hlt. f_equal. f_equal. f_equal.
    unfold didx. destruct (d_fortran C l) eqn:Fl; destruct (d_fortran C r) eqn:Fr;
      simpl in Ef; try discriminate.
    + (* left Fortran, right C: pos = i + j*nr, dim1 = nr, dim2 = nc *)
      assert (A : (i + j * d_nr C l) / d_nr C l = j)
        by (symmetry; apply Nat.div_unique with (r := i); lia).
      assert (B : (i + j * d_nr C l) mod d_nr C l = i)
        by (symmetry; apply Nat.mod_unique with (q := j); lia).
      rewrite A, B. lia.
    + assert (A : (i * d_nc C l + j) / d_nc C l = i)
        by (symmetry; apply Nat.div_unique with (r := j); lia).
      assert (B : (i * d_nc C l + j) mod d_nc C l = j)
        by (symmetry; apply Nat.mod_unique with (q := i); lia).
      rewrite A, B. lia.
Qed.

(* shape guard: operands of different shapes are refused *)
Theorem add_dense_guard : forall (l r : dense C) scale,
  (d_nr C l <> d_nr C r \/ d_nc C l <> d_nc C r) ->
  add_dense C c0 cadd cmul l r scale = None.
Proof.
  intros l r scale H. unfold add_dense.
  assert (E : (d_nr C l =? d_nr C r) && (d_nc C l =? d_nc C r) = false) by lia.
  rewrite E. reflexivity.
Qed.
End AddDense.

(* ------------------------------------------------------------ dispatcher *)
Section DispatchProofs.
Variable V : Type.
Variable ty : V -> nat.
Variable M : Type.                 (* mathematical matrices *)
Variable den : V -> M.

Definition has_ty (t : nat) (x : V) : Prop := t = TData \/ ty x = t.

(* a converter is good when, on every object of its source type, running its
   function list keeps the denotation and lands in its target type *)
Definition conv_good (c : conv V) : Prop :=
  forall x, has_ty (c_from V c) x ->
    let y := fold_left (fun a f => f a) (c_funs V c) x in
    den y = den x /\ has_ty (c_to V c) y.

(* a chain of direct conversions f1 .. fk typed (t1 <- t0), (t2 <- t1) ...
   composes to a good converter: what _to.add_conversions builds from the
   predecessor matrix *)
Fixpoint chain_typed (fs : list ((V -> V) * nat)) (from : nat) : Prop :=
  match fs with
  | [] => True
  | (f, t) :: rest =>
      (forall x, has_ty from x -> den (f x) = den x /\ ty (f x) = t) /\ chain_typed rest t
  end.
Fixpoint chain_end (fs : list ((V -> V) * nat)) (from : nat) : nat :=
  match fs with [] => from | (_, t) :: rest => chain_end rest t end.

Lemma chain_good : forall fs from x, chain_typed fs from -> has_ty from x ->
  den (fold_left (fun a f => f a) (map fst fs) x) = den x /\
  has_ty (chain_end fs from) (fold_left (fun a f => f a) (map fst fs) x).
Proof.
  induction fs as [|[f t] rest IH]; intros from x Hc Hx; simpl.
  - split; [reflexivity|exact Hx].
  - destruct Hc as [Hf Hrest]. destruct (Hf x Hx) as [Hd Ht].
    assert (Hx' : has_ty t (f x)) by (right; exact Ht).
    destruct (IH t (f x) Hrest Hx') as [Hd' Ht']. split.
    + rewrite Hd'. exact Hd.
    + exact Ht'.
Qed.

Theorem chain_conv_good : forall fs from,
  chain_typed fs from ->
  conv_good {| c_to := chain_end fs from; c_from := from; c_funs := map fst fs |}.
Proof. intros fs from Hc x Hx. simpl. apply chain_good; assumption. Qed.

Lemma conv_call_good : forall c x, conv_good c -> has_ty (c_from V c) x ->
  exists y, conv_call V ty c x = Some y /\ den y = den x /\ has_ty (c_to V c) y.
Proof.
  intros c x Hg Hx. unfold conv_call.
  assert (E : (c_from V c =? TData) || (ty x =? c_from V c) = true).
  { destruct Hx as [H|H]; [rewrite H; reflexivity|].
    rewrite H. rewrite Nat.eqb_refl. apply orb_true_r. }
  rewrite E. eexists. split; [reflexivity|]. apply Hg. exact Hx.
Qed.

(* the guard of _converter.__call__: an object of another type is refused *)
Lemma conv_call_refuses : forall c x,
  c_from V c <> TData -> ty x <> c_from V c -> conv_call V ty c x = None.
Proof.
  intros c x H1 H2. unfold conv_call.
  destruct (c_from V c =? TData) eqn:E1; [apply Nat.eqb_eq in E1; contradiction|].
  destruct (ty x =? c_from V c) eqn:E2; [apply Nat.eqb_eq in E2; contradiction|].
  reflexivity.
Qed.

Lemma has_ty_weaken : forall c i s x,
  conv_typed V c i s = true -> ty x = i -> has_ty (c_from V c) x.
Proof.
  intros c i s x H Hx. unfold conv_typed in H. apply andb_prop in H. destruct H as [H _].
  apply orb_prop in H. destruct H as [H|H]; apply Nat.eqb_eq in H.
  - right. rewrite H. exact Hx.
  - left. exact H.
Qed.

Lemma conv_args_good : forall cs ins spec args,
  convs_typed V cs ins spec = true ->
  Forall conv_good cs ->
  Forall2 (fun x t => ty x = t) args ins ->
  exists args', conv_args V ty cs args = Some args' /\
    map den args' = map den args /\
    Forall2 (fun x t => has_ty t x) args' spec.
Proof.
  induction cs as [|c cs IH]; intros ins spec args Ht Hg Ha.
  - destruct ins; destruct spec; simpl in Ht; try discriminate.
    inversion Ha; subst. exists []. simpl. repeat split; constructor.
  - destruct ins as [|i ins]; destruct spec as [|s spec]; simpl in Ht; try discriminate.
    inversion Ha as [|x t args0 ins0 Hx Ha0]; subst.
    inversion Hg as [|c' cs' Hgc Hgcs]; subst.
    apply andb_prop in Ht. destruct Ht as [Hc Hrest].
    destruct (IH ins spec args0 Hrest Hgcs Ha0) as [args' [E1 [E2 E3]]].
    assert (Hfrom : has_ty (c_from V c) x) by (apply (has_ty_weaken c (ty x) s x Hc eq_refl)).
    destruct (conv_call_good c x Hgc Hfrom) as [y [Ey [Dy Ty]]].
    exists (y :: args'). simpl. rewrite Ey, E1. split; [reflexivity|]. split.
    + simpl. rewrite Dy, E2. reflexivity.
    + constructor; [|exact E3].
      unfold conv_typed in Hc. apply andb_prop in Hc. destruct Hc as [_ Hc].
      apply Nat.eqb_eq in Hc. rewrite <- Hc. exact Ty.
Qed.

(* a registered specialisation is correct for the operation F when, on
   operands of its declared types, it returns an object of its declared
   output type denoting F of the operands' denotations *)
Definition base_good (F : list M -> M) (spec_in : list nat) (spec_out : option nat)
           (base : list V -> option V) : Prop :=
  forall args, Forall2 (fun x t => has_ty t x) args spec_in ->
    exists out, base args = Some out /\ den out = F (map den args) /\
      match spec_out with Some t => has_ty t out | None => True end.

(* Soundness of the checker: an entry of the lookup table that passes
   `entry_ok`, whose converters are good and whose base is a correct
   specialisation, computes F on the denotations, for operands of the key's
   types, and returns the requested type. *)
Theorem entry_ok_sound : forall (F : list M -> M) spec_in spec_out (e : entry V) args,
  entry_ok V spec_in spec_out e = true ->
  Forall conv_good (e_convs V e) ->
  (forall c, e_outconv V e = Some c -> conv_good c) ->
  base_good F spec_in spec_out (e_base V e) ->
  Forall2 (fun x t => ty x = t) args (e_in V e) ->
  exists out, entry_call V ty e args = Some out /\ den out = F (map den args) /\
    match e_out V e with Some o => has_ty o out | None => True end.
Proof.
  intros F spec_in spec_out e args Hok Hg Hgo Hb Ha.
  unfold entry_ok in Hok. apply andb_prop in Hok. destruct Hok as [Hin Hout].
  destruct (conv_args_good _ _ _ _ Hin Hg Ha) as [args' [E1 [E2 E3]]].
  destruct (Hb args' E3) as [out [Eb [Db Tb]]].
  unfold entry_call. rewrite E1, Eb.
  destruct (e_out V e) as [o|]; destruct (e_outconv V e) as [c|]; try discriminate.
  - destruct spec_out as [so|]; [|discriminate].
    apply andb_prop in Hout. destruct Hout as [Hf Ht].
    assert (Hfrom : has_ty (c_from V c) out).
    { apply orb_prop in Hf. destruct Hf as [Hf|Hf]; apply Nat.eqb_eq in Hf.
      - rewrite Hf. exact Tb.
      - left. exact Hf. }
    destruct (conv_call_good c out (Hgo c eq_refl) Hfrom) as [y [Ey [Dy Ty]]].
    exists y. split; [exact Ey|]. split.
    + rewrite Dy, Db, E2. reflexivity.
    + apply Nat.eqb_eq in Ht. rewrite <- Ht. exact Ty.
  - exists out. split; [reflexivity|]. split; [rewrite Db, E2; reflexivity|exact I].
Qed.

(* two entries of one operation agree on every operand tuple: format
   independence of the dispatcher *)
Corollary entries_agree : forall (F : list M -> M) si1 so1 si2 so2 (e1 e2 : entry V) a1 a2,
  entry_ok V si1 so1 e1 = true -> entry_ok V si2 so2 e2 = true ->
  Forall conv_good (e_convs V e1) -> Forall conv_good (e_convs V e2) ->
  (forall c, e_outconv V e1 = Some c -> conv_good c) ->
  (forall c, e_outconv V e2 = Some c -> conv_good c) ->
  base_good F si1 so1 (e_base V e1) -> base_good F si2 so2 (e_base V e2) ->
  Forall2 (fun x t => ty x = t) a1 (e_in V e1) ->
  Forall2 (fun x t => ty x = t) a2 (e_in V e2) ->
  map den a1 = map den a2 ->
  exists o1 o2, entry_call V ty e1 a1 = Some o1 /\ entry_call V ty e2 a2 = Some o2 /\
                den o1 = den o2.
Proof.
  intros F si1 so1 si2 so2 e1 e2 a1 a2 H1 H2 G1 G2 O1 O2 B1 B2 A1 A2 Hd.
  destruct (entry_ok_sound F si1 so1 e1 a1 H1 G1 O1 B1 A1) as [o1 [E1 [D1 _]]].
  destruct (entry_ok_sound F si2 so2 e2 a2 H2 G2 O2 B2 A2) as [o2 [E2 [D2 _]]].
  exists o1, o2. split; [exact E1|]. split; [exact E2|]. rewrite D1, D2, Hd. reflexivity.
Qed.
End DispatchProofs.
