(* Proofs for the MultiTrajResult option logic (Model/C12_mt.v): every
   statement is for all option valuations and all numbers of e_ops; the
   proofs are case analyses (24 valuations x (nops = 0 | nops = S n)). *)
From Coq Require Import List Bool Arith Lia.
Import ListNotations.
From QV Require Import Model.C12 Model.C12_mt.

Ltac mt_cases o nops :=
  destruct o as [[[|]|] [|] [|]]; destruct nops as [|nops]; cbv; try reflexivity.

Lemma mt_states : forall o nops,
  states_avail o nops = stores_states (traj_opts o) nops
  /\ average_states_avail o nops = stores_states (traj_opts o) nops
  /\ runs_states_avail o nops = m_keep o && stores_states (traj_opts o) nops.
Proof. intros o nops. mt_cases o nops; repeat split; reflexivity. Qed.

Lemma mt_final : forall o nops,
  final_avail o nops = m_store_final o || stores_states (traj_opts o) nops
  /\ average_final_avail o nops = m_store_final o || stores_states (traj_opts o) nops
  /\ runs_final_avail o nops
     = m_keep o && (m_store_final o || stores_states (traj_opts o) nops).
Proof. intros o nops. mt_cases o nops; repeat split; reflexivity. Qed.

(* where the averaged final state comes from *)
Lemma mt_final_src : forall o nops,
  average_final_src o nops
  = if stores_states (traj_opts o) nops then FLastAverageState
    else if m_store_final o then (if m_keep o then FFromTrajectories else FFromSum)
    else FNone.
Proof. intros o nops. mt_cases o nops. Qed.

Lemma mt_e_data_kind : forall o nops,
  e_data_is_runs o nops = true <-> (m_keep o = true /\ nops <> 0).
Proof.
  intros o nops. unfold e_data_is_runs.
  destruct (m_keep o); destruct nops as [|n]; simpl; split; intros H.
  - discriminate.
  - destruct H as [_ B]. exfalso. apply B. reflexivity.
  - split; [reflexivity|discriminate].
  - reflexivity.
  - discriminate.
  - destruct H as [A _]. discriminate.
  - discriminate.
  - destruct H as [A _]. discriminate.
Qed.

Lemma mt_processors : forall o nops,
  hd_error (mt_procs o nops) = Some MIncrement
  /\ (In MStoreTrajectory (mt_procs o nops) <-> m_keep o = true)
  /\ (In MReduceStates (mt_procs o nops)
      <-> (stores_states (traj_opts o) nops = true /\ m_keep o = false))
  /\ (In MReduceFinal (mt_procs o nops)
      <-> (m_store_final o = true /\ stores_states (traj_opts o) nops = false
           /\ m_keep o = false))
  /\ (In MReduceExpect (mt_procs o nops) <-> nops <> 0).
Proof.
  intros o nops.
  destruct o as [[[|]|] [|] [|]]; destruct nops as [|nops]; cbv -[In];
    (split; [reflexivity|]); simpl;
    repeat split; intros; try discriminate; try tauto; try lia;
    repeat match goal with
           | H : _ \/ _ |- _ => destruct H
           | H : False |- _ => destruct H
           | H : _ /\ _ |- _ => destruct H
           end; try discriminate; try tauto; try lia; auto.
Qed.
