(* Proofs for C13 (model: Model/C13.v; scheduler: Model/C14.v, Proofs/C14.v). *)
From Coq Require Import List ZArith Bool Arith Lia Permutation.
Import ListNotations.
From QV Require Import Model.C14 Proofs.C14 Model.C13.

Arguments m_coll {U T Y}. Arguments m_target {U T Y}. Arguments m_gen {U T Y}.
Arguments m_t {U T Y}. Arguments m_y {U T Y}. Arguments m_set {U T Y}. Arguments m_log {U T Y}.
Arguments tr_states {T Y}. Arguments tr_coll {T Y}. Arguments tr_draws {T Y}.
Arguments w_t0 {V}. Arguments w_dt {V}. Arguments w_rows {V}. Arguments w_gen {V}. Arguments w_calls {V}.
Arguments i_dt {V Y}. Arguments i_t {V Y}. Arguments i_y {V Y}. Arguments i_w {V Y}. Arguments i_set {V Y}.
Arguments st_points {V Y}. Arguments st_calls {V Y}.
Arguments r_seeds {TR}. Arguments r_trajs {TR}. Arguments r_coll {TR}. Arguments r_sum {TR}. Arguments r_num {TR}.

(* ------------------------------------------------------------------ *)
(* 1. seeds *)

Lemma spawn_length s n : length (fst (spawn s n)) = n.
Proof. unfold spawn; simpl. now rewrite map_length, seq_length. Qed.

Lemma sid_child_inj s k k' : sid (child s k) = sid (child s k') -> k = k'.
Proof.
  unfold sid, child; simpl. intros H. injection H as H.
  apply app_inv_head in H. now injection H.
Qed.

Lemma sid_child_neq_parent s k : sid (child s k) <> sid s.
Proof.
  unfold sid, child; simpl. intros H. injection H as H.
  apply (f_equal (@length nat)) in H. rewrite app_length in H. simpl in H. lia.
Qed.

Lemma in_spawn s n x :
  In x (fst (spawn s n)) <-> exists k, ss_n s <= k < ss_n s + n /\ x = child s k.
Proof.
  unfold spawn; simpl. rewrite in_map_iff. split.
  - intros [k [Hk Hi]]. apply in_seq in Hi. exists (ss_n s + k). split; [lia|now symmetry].
  - intros [k [Hk ->]]. exists (k - ss_n s). split; [f_equal; lia|apply in_seq; lia].
Qed.

Lemma NoDup_map_inj_in {A B} (f : A -> B) l :
  (forall x y, In x l -> In y l -> f x = f y -> x = y) -> NoDup l -> NoDup (map f l).
Proof.
  intros Hinj Hnd. induction Hnd as [|a l Hn Hnd IH]; simpl; constructor.
  - intros Hin. apply in_map_iff in Hin. destruct Hin as [y [Hy Hin]].
    assert (y = a) by (apply Hinj; simpl; auto). subst. contradiction.
  - apply IH. intros x y Hx Hy. apply Hinj; simpl; auto.
Qed.

(* the children of one spawn call have pairwise different stream identities *)
Lemma spawn_nodup s n : NoDup (map sid (fst (spawn s n))).
Proof.
  unfold spawn; simpl. rewrite map_map. apply NoDup_map_inj_in; [|apply seq_NoDup].
  intros x y _ _ H. apply sid_child_inj in H. lia.
Qed.

(* two successive spawn calls on the same sequence never hand out the same
   stream twice *)
Lemma spawn_successive_disjoint s n m x y :
  In x (fst (spawn s n)) -> In y (fst (spawn (snd (spawn s n)) m)) -> sid x <> sid y.
Proof.
  intros Hx Hy. apply in_spawn in Hx. apply in_spawn in Hy.
  destruct Hx as [k [Hk ->]]. destruct Hy as [k' [Hk' ->]].
  unfold spawn in Hk'; simpl in Hk'.
  unfold sid, child, spawn, bump; simpl. intros H. injection H as H.
  apply app_inv_head in H. injection H as H. lia.
Qed.

Lemma spawn_prefix s k m : k <= m -> fst (spawn s k) = firstn k (fst (spawn s m)).
Proof.
  intros H. unfold spawn; simpl. rewrite firstn_map. f_equal.
  replace m with (k + (m - k)) by lia. rewrite seq_app, firstn_app, seq_length.
  replace (k - k) with 0 by lia. simpl. rewrite app_nil_r.
  rewrite firstn_all2; [reflexivity|rewrite seq_length; lia].
Qed.

Lemma read_seed_length ss a n l : rs_seeds (read_seed ss a n) = Some l -> length l = n.
Proof.
  destruct a as [|s|z|li]; simpl.
  - intros H; injection H as <-. now rewrite map_length, seq_length.
  - intros H; injection H as <-. now rewrite map_length, seq_length.
  - intros H; injection H as <-. now rewrite map_length, seq_length.
  - destruct (n <=? length li) eqn:E; simpl; [|discriminate].
    intros H; injection H as <-. apply Nat.leb_le in E.
    rewrite map_length, firstn_length. lia.
Qed.

Lemma read_seed_short_list ss li n :
  length li < n -> rs_seeds (read_seed ss (SList li) n) = None.
Proof.
  intros H. simpl. destruct (n <=? length li) eqn:E; [apply Nat.leb_le in E; lia|reflexivity].
Qed.

(* a sub-ensemble of an integer-seeded run uses a prefix of the same seeds *)
Lemma read_seed_int_prefix ss ss' z k m :
  k <= m ->
  rs_seeds (read_seed ss (SInt z) k) =
  option_map (firstn k) (rs_seeds (read_seed ss' (SInt z) m)).
Proof. intros H. simpl. f_equal. now apply spawn_prefix. Qed.

Lemma read_seed_spawned_nodup ss a n l :
  (forall li, a <> SList li) -> rs_seeds (read_seed ss a n) = Some l -> NoDup (map sid l).
Proof.
  intros Hn. destruct a as [|s|z|li]; simpl.
  - intros H; injection H as <-. apply (spawn_nodup ss n).
  - intros H; injection H as <-. apply (spawn_nodup s n).
  - intros H; injection H as <-. apply (spawn_nodup (fresh z) n).
  - exfalso. now apply (Hn li).
Qed.

(* a list of seed sequences is used as it is: this is what makes
   result.seeds a valid `seeds=` argument *)
Lemma read_seed_list_identity ss (l : list sseq) :
  read_seed ss (SList (map ISeq l)) (length l) =
  {| rs_seeds := Some l; rs_solver := ss; rs_user := None |}.
Proof.
  simpl. rewrite map_length, Nat.leb_refl.
  rewrite <- (map_length ISeq l) at 1. rewrite firstn_all, map_map. simpl.
  now rewrite map_id.
Qed.

Lemma read_seed_list_positional ss li n l j :
  rs_seeds (read_seed ss (SList li) n) = Some l -> j < n ->
  nth_error l j = option_map of_item (nth_error li j).
Proof.
  simpl. destruct (n <=? length li) eqn:E; simpl; [|discriminate].
  intros H Hj; injection H as <-. apply Nat.leb_le in E.
  rewrite nth_error_map. f_equal.
  rewrite <- (firstn_skipn n li) at 2. rewrite nth_error_app1; [reflexivity|].
  rewrite firstn_length. lia.
Qed.

(* only seeds=None touches the solver's own sequence, and then by exactly
   ntraj children; successive runs therefore use fresh streams *)
Lemma read_seed_solver_ss ss a n :
  rs_solver (read_seed ss a n) = match a with SNone => bump ss n | _ => ss end.
Proof. destruct a as [|s|z|li]; simpl; try reflexivity. destruct (n <=? length li); reflexivity. Qed.

Lemma read_seed_none_twice_disjoint ss n m l1 l2 x y :
  rs_seeds (read_seed ss SNone n) = Some l1 ->
  rs_seeds (read_seed (rs_solver (read_seed ss SNone n)) SNone m) = Some l2 ->
  In x l1 -> In y l2 -> sid x <> sid y.
Proof.
  simpl. intros H1 H2; injection H1 as <-; injection H2 as <-.
  apply (spawn_successive_disjoint ss n m).
Qed.

(* ------------------------------------------------------------------ *)
(* 2. Monte-Carlo trajectory *)
Section MC.
Variables U T Y : Type.
Variable zeroU oneU : U.
Variable leU : U -> U -> bool.
Variable ltT : T -> T -> bool.
Variable mix : U -> U -> U.
Variable nchan : nat.
Variable prob : Y -> U.
Variable ode_step : T -> Y -> T -> T * Y.
Variable find : T -> Y -> T -> Y -> U -> U -> U -> option (T * Y).
Variable choose : T -> Y -> U -> nat.
Variable jump : nat -> T -> Y -> option Y.
Variable renorm : Y -> Y.

Notation set_state st := (mc_set_state U T Y st zeroU mix).
Notation do_collapse st := (mc_do_collapse U T Y st nchan choose jump renorm).
Notation loop st := (mc_loop U T Y st oneU leU ltT nchan prob ode_step find choose jump renorm).
Notation integrate st := (mc_integrate U T Y st oneU leU ltT nchan prob ode_step find choose jump renorm).
Notation run st := (mc_run U T Y st oneU leU ltT nchan prob ode_step find choose jump renorm).
Notation run_one st := (mc_run_one U T Y st zeroU oneU leU ltT mix nchan prob ode_step find choose jump renorm).

(* set_state overwrites every attribute that a previous trajectory left *)
Lemma mc_set_state_forgets stream (s s' : mci U T Y) t y0 g nj fl :
  set_state stream s t y0 g nj fl = set_state stream s' t y0 g nj fl.
Proof. unfold mc_set_state, draw. destruct nj; reflexivity. Qed.

Lemma mc_history_independent stream fuel (s s' : mci U T Y) seed t0 y0 ts nj fl :
  fst (run_one stream fuel s seed t0 y0 ts nj fl) = fst (run_one stream fuel s' seed t0 y0 ts nj fl).
Proof. unfold mc_run_one. now rewrite (mc_set_state_forgets stream s s'). Qed.

(* --- locality: only the stream of the trajectory's own seed is read *)
Section Local.
Variables st1 st2 : seedid -> nat -> U.
Variable sd : seedid.
Hypothesis Hagree : forall k, st1 sd k = st2 sd k.

Lemma draw_local (s : mci U T Y) r :
  g_seed (m_gen s) = sd -> draw U T Y st1 s r = draw U T Y st2 s r.
Proof. intros H. unfold draw. now rewrite H, Hagree. Qed.

Lemma draw_seed stream (s : mci U T Y) r :
  g_seed (m_gen (snd (draw U T Y stream s r))) = g_seed (m_gen s).
Proof. reflexivity. Qed.

Lemma do_collapse_local (s : mci U T Y) tc y :
  g_seed (m_gen s) = sd ->
  do_collapse st1 s tc y = do_collapse st2 s tc y /\
  g_seed (m_gen (do_collapse st2 s tc y)) = sd.
Proof.
  intros H. unfold mc_do_collapse, draw.
  destruct (nchan =? 1).
  - destruct (jump 0 tc y); simpl; rewrite ?H, ?Hagree; split; auto.
  - simpl. rewrite H, Hagree.
    destruct (jump (choose tc y (st2 sd (g_pos (m_gen s)))) tc y); simpl;
      rewrite ?H, ?Hagree; split; auto.
Qed.

Lemma loop_local fuel : forall (s : mci U T Y) t t_old y_old n_old,
  g_seed (m_gen s) = sd ->
  loop st1 fuel s t t_old y_old n_old = loop st2 fuel s t t_old y_old n_old /\
  match loop st2 fuel s t t_old y_old n_old with
  | Some (s', _, _) => g_seed (m_gen s') = sd
  | None => True
  end.
Proof.
  induction fuel as [|f IH]; intros s t t_old y_old n_old H; simpl; [split; auto|].
  destruct (ltT t_old t); [|split; [reflexivity|exact H]].
  destruct (ode_step t_old y_old t) as [t_step y].
  destruct (leU (prob y) (m_target s)).
  - destruct (find t_old y_old t_step y n_old (prob y) (m_target s)) as [[tc yc]|]; [|split; auto].
    destruct (do_collapse_local s tc yc H) as [E1 E2]. rewrite E1. apply IH. exact E2.
  - apply IH. exact H.
Qed.

Lemma run_local fuel ts : forall (s : mci U T Y) acc,
  g_seed (m_gen s) = sd -> run st1 fuel s ts acc = run st2 fuel s ts acc.
Proof.
  induction ts as [|t r IH]; intros s acc H; simpl; [reflexivity|].
  unfold mc_integrate.
  destruct (loop_local fuel s t (m_t s) (m_y s) (prob (m_y s)) H) as [E1 E2]. rewrite E1.
  destruct (loop st2 fuel s t (m_t s) (m_y s) (prob (m_y s))) as [[[s' t'] y']|]; [|reflexivity].
  apply IH. exact E2.
Qed.

Lemma run_one_local fuel (s : mci U T Y) seed t0 y0 ts nj fl :
  sid seed = sd ->
  run_one st1 fuel s seed t0 y0 ts nj fl = run_one st2 fuel s seed t0 y0 ts nj fl.
Proof.
  intros H. unfold mc_run_one.
  assert (E : set_state st1 s t0 y0 (mkgen seed) nj fl = set_state st2 s t0 y0 (mkgen seed) nj fl).
  { unfold mc_set_state, draw, mkgen. destruct nj; [reflexivity|]. simpl. now rewrite H, Hagree. }
  rewrite E. rewrite run_local; [reflexivity|].
  unfold mc_set_state, draw, mkgen. destruct nj; simpl; exact H.
Qed.
End Local.

(* --- the order of the draws *)
Variable stream : seedid -> nat -> U.

Definition is_thr (x : role * nat) : bool := match fst x with RThreshold => true | RWhich => false end.
Definition n_thr (l : list (role * nat)) : nat := length (filter is_thr l).
Definition n_which (l : list (role * nat)) : nat := length (filter (fun x => negb (is_thr x)) l).

(* invariant of a trajectory in progress: the j-th draw is the j-th value of
   the generator created from the seed; one threshold draw at set_state and
   one per recorded collapse; channel draws only with several channels *)
Definition Idraw (sd : seedid) (nj : bool) (s : mci U T Y) : Prop :=
  g_seed (m_gen s) = sd /\
  map snd (m_log s) = seq 0 (g_pos (m_gen s)) /\
  n_thr (m_log s) = (if nj then 0 else 1) + length (m_coll s) /\
  (nchan = 1 -> n_which (m_log s) = 0) /\
  (nchan <> 1 -> length (m_coll s) <= n_which (m_log s)).

Lemma n_thr_app l x : n_thr (l ++ [x]) = n_thr l + (if is_thr x then 1 else 0).
Proof. unfold n_thr. rewrite filter_app, app_length. simpl. destruct (is_thr x); reflexivity. Qed.
Lemma n_which_app l x : n_which (l ++ [x]) = n_which l + (if is_thr x then 0 else 1).
Proof. unfold n_which. rewrite filter_app, app_length. simpl. destruct (is_thr x); reflexivity. Qed.

Lemma seq_snoc n : seq 0 (n + 1) = seq 0 n ++ [n].
Proof. now rewrite seq_app. Qed.

Lemma Idraw_set_state (s : mci U T Y) seed t0 y0 nj fl :
  Idraw (sid seed) nj (set_state stream s t0 y0 (mkgen seed) nj fl).
Proof.
  unfold Idraw, mc_set_state, draw, mkgen. destruct nj; simpl.
  - repeat split; auto.
  - repeat split; auto; intros; lia.
Qed.

Lemma Idraw_do_collapse sd nj (s : mci U T Y) tc y :
  Idraw sd nj s -> Idraw sd nj (do_collapse stream s tc y).
Proof.
  intros (A & B & C & D & E). unfold mc_do_collapse, draw.
  destruct (nchan =? 1) eqn:En; [apply Nat.eqb_eq in En | apply Nat.eqb_neq in En].
  - destruct (jump 0 tc y); unfold Idraw; simpl.
    + rewrite map_app, B, app_length, n_thr_app, n_which_app, seq_snoc. simpl.
      split; [exact A|]. split; [reflexivity|]. split; [lia|].
      split; [intros _; rewrite (D En); reflexivity|intros Hn; contradiction].
    + split; [exact A|]. split; [exact B|]. split; [exact C|]. split; [exact D|exact E].
  - simpl.
    destruct (jump (choose tc y (stream (g_seed (m_gen s)) (g_pos (m_gen s)))) tc y);
      unfold Idraw; simpl.
    + rewrite !map_app, B, !app_length, !n_thr_app, !n_which_app, !seq_snoc. simpl.
      split; [exact A|]. split; [reflexivity|]. split; [lia|].
      split; [intros Hn; contradiction|intros _; specialize (E En); lia].
    + rewrite map_app, B, n_thr_app, n_which_app, seq_snoc. simpl.
      split; [exact A|]. split; [reflexivity|]. split; [lia|].
      split; [intros Hn; contradiction|intros _; specialize (E En); lia].
Qed.

Lemma Idraw_loop sd nj fuel : forall (s : mci U T Y) t t_old y_old n_old,
  Idraw sd nj s ->
  match loop stream fuel s t t_old y_old n_old with
  | Some (s', _, _) => Idraw sd nj s'
  | None => True
  end.
Proof.
  induction fuel as [|f IH]; intros s t t_old y_old n_old H; simpl; [exact I|].
  destruct (ltT t_old t); [|exact H].
  destruct (ode_step t_old y_old t) as [t_step y].
  destruct (leU (prob y) (m_target s)).
  - destruct (find t_old y_old t_step y n_old (prob y) (m_target s)) as [[tc yc]|]; [|exact I].
    apply IH. apply Idraw_do_collapse. exact H.
  - apply IH. exact H.
Qed.

Lemma Idraw_run sd nj fuel ts : forall (s : mci U T Y) acc,
  Idraw sd nj s -> Idraw sd nj (fst (run stream fuel s ts acc)).
Proof.
  induction ts as [|t r IH]; intros s acc H; simpl; [exact H|].
  unfold mc_integrate.
  pose proof (Idraw_loop sd nj fuel s t (m_t s) (m_y s) (prob (m_y s)) H) as HL.
  destruct (loop stream fuel s t (m_t s) (m_y s) (prob (m_y s))) as [[[s' t'] y']|]; [|exact H].
  apply IH. exact HL.
Qed.

Lemma mc_draw_order fuel (s : mci U T Y) seed t0 y0 ts nj fl :
  let '(tr, s') := run_one stream fuel s seed t0 y0 ts nj fl in
  g_seed (m_gen s') = sid seed /\
  map snd (tr_draws tr) = seq 0 (g_pos (m_gen s')) /\
  n_thr (tr_draws tr) = (if nj then 0 else 1) + length (tr_coll tr) /\
  (nchan = 1 -> n_which (tr_draws tr) = 0) /\
  (nchan <> 1 -> length (tr_coll tr) <= n_which (tr_draws tr)).
Proof.
  unfold mc_run_one.
  pose proof (Idraw_run (sid seed) nj fuel ts _ [] (Idraw_set_state s seed t0 y0 nj fl)) as H.
  destruct (run stream fuel (set_state stream s t0 y0 (mkgen seed) nj fl) ts []) as [s2 out].
  simpl in *. exact H.
Qed.

End MC.
