(* Soundness of the restore-on-every-exit checker (Model/C04_fin.v). *)
From Coq Require Import List Bool Arith Lia.
Import ListNotations.
From QV Require Import Model.C04_fin.

Definition incl_n (a b : list nat) : Prop := forall x, In x a -> In x b.

Lemma memn_In x l : memn x l = true <-> In x l.
Proof.
  unfold memn. rewrite existsb_exists. split.
  - intros [y [Hy E]]. apply Nat.eqb_eq in E. subst. exact Hy.
  - intros H. exists x. split; [exact H|apply Nat.eqb_refl].
Qed.

Lemma subsetn_incl a b : subsetn a b = true -> incl_n a b.
Proof.
  unfold subsetn. rewrite forallb_forall. intros H x Hx. apply memn_In. apply H. exact Hx.
Qed.

Lemma In_remn y x l : In y (remn x l) <-> In y l /\ y <> x.
Proof.
  unfold remn. rewrite filter_In. split.
  - intros [H1 H2]. split; [exact H1|]. apply negb_true_iff in H2.
    apply Nat.eqb_neq in H2. intro E. subst. apply H2. reflexivity.
  - intros [H1 H2]. split; [exact H1|]. apply negb_true_iff. apply Nat.eqb_neq.
    intro E. subst. apply H2. reflexivity.
Qed.

(* covered o l: exit reachable with displaced set l is described by o *)
Definition covered (o : oset) (l : list nat) : Prop :=
  match o with None => False | Some D => incl_n l D end.

Lemma covered_ounion_l a b l : covered a l -> covered (ounion a b) l.
Proof.
  destruct a as [x|]; simpl; [|intros []]. destruct b as [y|]; simpl; [|auto].
  intros H z Hz. apply in_or_app. left. apply H. exact Hz.
Qed.

Lemma covered_ounion_r a b l : covered b l -> covered (ounion a b) l.
Proof.
  destruct b as [y|]; simpl; [|intros []]. destruct a as [x|]; simpl; [|auto].
  intros H z Hz. apply in_or_app. right. apply H. exact Hz.
Qed.

(* which component of an `exits` record describes a status *)
Definition sel (e : exits) (r : fstatus) : oset :=
  match r with
  | FNormal => eN e
  | FReturned => eR e
  | FRaised => eX e
  | FOutOfFuel => None
  end.

Definition floop_step (vals : list bool) (b : fstmt) : list nat -> list nat :=
  fun C => match fabs vals b C with
           | Some e => match eN e with Some C' => C ++ C' | None => C end
           | None => C
           end.

Lemma fabs_loop vals b D :
  fabs vals (FLoop b) D =
  match fabs vals b (fiter FLOOP_ITERS (floop_step vals b) D) with
  | None => None
  | Some e =>
      match eN e with
      | Some C' => if subsetn C' (fiter FLOOP_ITERS (floop_step vals b) D)
                   then Some (mkex (Some (fiter FLOOP_ITERS (floop_step vals b) D)) (eR e) (eX e))
                   else None
      | None => Some (mkex (Some (fiter FLOOP_ITERS (floop_step vals b) D)) (eR e) (eX e))
      end
  end.
Proof. reflexivity. Qed.

Section Sound.
Variable O : foracle.
Let vals := fvals O.

Definition ok_result (e : exits) (st' : fstate) (r : fstatus) : Prop :=
  r = FOutOfFuel \/ covered (sel e r) (disp st').

Lemma loop_step_incl b n : forall D, incl_n D (fiter n (floop_step vals b) D).
Proof.
  induction n as [|k IH]; intros D; simpl; [intros x Hx; exact Hx|].
  intros x Hx. apply IH. unfold floop_step.
  destruct (fabs vals b D) as [e|]; [|exact Hx].
  destruct (eN e); [apply in_or_app; left; exact Hx|exact Hx].
Qed.

Lemma loop_sound b I e :
  fabs vals b I = Some e ->
  (forall C', eN e = Some C' -> incl_n C' I) ->
  (forall fuel st st' r, incl_n (disp st) I -> fexec O fuel b st = (st', r) ->
      ok_result e st' r) ->
  forall fuel st st' r, incl_n (disp st) I -> fexec O fuel (FLoop b) st = (st', r) ->
      ok_result (mkex (Some I) (eR e) (eX e)) st' r.
Proof.
  intros Hb Hinv Hbody. induction fuel as [|n IH]; intros st st' r HD He; simpl in He.
  - inversion He. left. reflexivity.
  - destruct (fbit O (fcnt st)).
    + destruct (fexec O n b (ftick st)) as [st1 r1] eqn:E1.
      assert (HD1 : incl_n (disp (ftick st)) I) by exact HD.
      destruct (Hbody n (ftick st) st1 r1 HD1 E1) as [Hf|Hc].
      * subst r1. inversion He. left. reflexivity.
      * destruct r1; simpl in Hc.
        -- apply (IH st1 st' r); [|exact He].
           destruct (eN e) as [C'|] eqn:EN; [|destruct Hc].
           intros x Hx. apply (Hinv C' eq_refl). apply Hc. exact Hx.
        -- inversion He. subst. right. exact Hc.
        -- inversion He. subst. right. exact Hc.
        -- destruct Hc.
    + inversion He. subst. right. simpl. exact HD.
Qed.

Theorem fabs_sound : forall s D e fuel st st' r,
  fabs vals s D = Some e -> incl_n (disp st) D -> fexec O fuel s st = (st', r) ->
  ok_result e st' r.
Proof.
  induction s as [| |c x|c x|a IHa b IHb|a IHa b IHb|c a IHa b IHb|b IHb| |
                  |b IHb f IHf];
    intros D e fuel st st' r Ha HD He; (destruct fuel as [|n]; simpl in He;
      [inversion He; left; reflexivity|]).
  - (* FSkip *) simpl in Ha. inversion Ha. inversion He. subst. right. simpl. exact HD.
  - (* FCall *)
    simpl in Ha. inversion Ha. inversion He. subst. right.
    destruct (fraises O (fcnt st)); simpl; exact HD.
  - (* FDisplace *)
    simpl in Ha. inversion Ha. inversion He. subst. right. simpl. fold vals.
    destruct (holds vals c); simpl; [|exact HD].
    intros y [Hy|Hy]; [left; exact Hy|right; apply HD; exact Hy].
  - (* FRestore *)
    simpl in Ha. inversion Ha. inversion He. subst. right. simpl. fold vals.
    destruct (holds vals c); simpl; [|exact HD].
    intros y Hy. apply In_remn in Hy. apply In_remn. split; [apply HD; tauto|tauto].
  - (* FSeq *)
    simpl in Ha. destruct (fabs vals a D) as [ea|] eqn:Ea; [|discriminate].
    destruct (fexec O n a st) as [st1 r1] eqn:X1.
    pose proof (IHa D ea n st st1 r1 Ea HD X1) as [Hf|Hc].
    + subst r1. inversion He. left. reflexivity.
    + destruct (eN ea) as [D1|] eqn:EN.
      * destruct (fabs vals b D1) as [eb|] eqn:Eb; [|discriminate].
        inversion Ha. subst e. clear Ha.
        destruct r1; simpl in Hc.
        -- rewrite EN in Hc. simpl in Hc.
           pose proof (IHb D1 eb n st1 st' r Eb Hc He) as [Hf2|Hc2]; [left; exact Hf2|].
           right. destruct r; simpl in *; try exact Hc2.
           ++ apply covered_ounion_r. exact Hc2.
           ++ apply covered_ounion_r. exact Hc2.
        -- inversion He. subst. right. simpl. apply covered_ounion_l. exact Hc.
        -- inversion He. subst. right. simpl. apply covered_ounion_l. exact Hc.
        -- destruct Hc.
      * inversion Ha. subst e. clear Ha.
        destruct r1; simpl in Hc.
        -- rewrite EN in Hc. destruct Hc.
        -- inversion He. subst. right. exact Hc.
        -- inversion He. subst. right. exact Hc.
        -- destruct Hc.
  - (* FIf *)
    simpl in Ha. destruct (fabs vals a D) as [ea|] eqn:Ea; [|discriminate].
    destruct (fabs vals b D) as [eb|] eqn:Eb; [|discriminate].
    inversion Ha. subst e. clear Ha.
    destruct (fbit O (fcnt st)).
    + pose proof (IHa D ea n (ftick st) st' r Ea HD He) as [Hf|Hc]; [left; exact Hf|].
      right. destruct r; simpl in *; try (apply covered_ounion_l; exact Hc). exact Hc.
    + pose proof (IHb D eb n (ftick st) st' r Eb HD He) as [Hf|Hc]; [left; exact Hf|].
      right. destruct r; simpl in *; try (apply covered_ounion_r; exact Hc). exact Hc.
  - (* FIfC *)
    simpl in Ha. fold vals in He. destruct (holds vals c).
    + apply (IHa D e n st st' r Ha HD He).
    + apply (IHb D e n st st' r Ha HD He).
  - (* FLoop *)
    rewrite fabs_loop in Ha.
    remember (fiter FLOOP_ITERS (floop_step vals b) D) as I eqn:EI.
    destruct (fabs vals b I) as [eb|] eqn:Eb; [|discriminate].
    assert (HDI : incl_n (disp st) I).
    { intros x Hx. subst I. apply loop_step_incl. apply HD. exact Hx. }
    assert (Hres : e = mkex (Some I) (eR eb) (eX eb) /\
                   (forall C', eN eb = Some C' -> incl_n C' I)).
    { destruct (eN eb) as [C'|] eqn:EN.
      - destruct (subsetn C' I) eqn:Es; [|discriminate]. inversion Ha. split; [reflexivity|].
        intros C2 H2. inversion H2. subst. apply subsetn_incl. exact Es.
      - inversion Ha. split; [reflexivity|]. intros C2 H2. discriminate. }
    destruct Hres as [He' Hinv]. subst e.
    apply (loop_sound b I eb Eb Hinv) with (fuel := S n) (st := st); [|exact HDI|].
    + intros fu s0 s0' r0 H0 X0. apply (IHb I eb fu s0 s0' r0 Eb H0 X0).
    + simpl. exact He.
  - (* FReturn *) simpl in Ha. inversion Ha. inversion He. subst. right. simpl. exact HD.
  - (* FRaise *) simpl in Ha. inversion Ha. inversion He. subst. right. simpl. exact HD.
  - (* FTry *)
    simpl in Ha. destruct (fabs vals b D) as [eb|] eqn:Eb; [|discriminate].
    destruct (fexec O n b st) as [st1 r1] eqn:X1.
    pose proof (IHb D eb n st st1 r1 Eb HD X1) as [Hf|Hc].
    { subst r1. inversion He. left. reflexivity. }
    (* name the three analyses of the finally block *)
    destruct (match eN eb with
              | None => Some None
              | Some D1 => match fabs vals f D1 with Some e0 => Some (Some e0) | None => None end
              end) as [fn|] eqn:EfN; [|discriminate].
    destruct (match eR eb with
              | None => Some None
              | Some D1 => match fabs vals f D1 with Some e0 => Some (Some e0) | None => None end
              end) as [fr|] eqn:EfR; [|discriminate].
    destruct (match eX eb with
              | None => Some None
              | Some D1 => match fabs vals f D1 with Some e0 => Some (Some e0) | None => None end
              end) as [fx|] eqn:EfX; [|discriminate].
    inversion Ha. subst e. clear Ha.
    destruct r1; simpl in Hc.
    + (* body completed normally *)
      destruct (eN eb) as [D1|] eqn:EN; [|destruct Hc]. simpl in Hc.
      destruct (fabs vals f D1) as [ef|] eqn:Ef; [|discriminate]. inversion EfN. subst fn.
      destruct (fexec O n f st1) as [st2 r2] eqn:X2.
      pose proof (IHf D1 ef n st1 st2 r2 Ef Hc X2) as [Hf2|Hc2].
      { subst r2. inversion He. left. reflexivity. }
      destruct r2; inversion He; subst; right; simpl in *.
      * exact Hc2.
      * apply covered_ounion_r. apply covered_ounion_l. exact Hc2.
      * apply covered_ounion_r. apply covered_ounion_l. exact Hc2.
      * destruct Hc2.
    + (* body returned *)
      destruct (eR eb) as [D1|] eqn:ER; [|destruct Hc]. simpl in Hc.
      destruct (fabs vals f D1) as [ef|] eqn:Ef; [|discriminate]. inversion EfR. subst fr.
      destruct (fexec O n f st1) as [st2 r2] eqn:X2.
      pose proof (IHf D1 ef n st1 st2 r2 Ef Hc X2) as [Hf2|Hc2].
      { subst r2. inversion He. left. reflexivity. }
      destruct r2; inversion He; subst; right; simpl in *.
      * apply covered_ounion_l. exact Hc2.
      * apply covered_ounion_r. apply covered_ounion_r. apply covered_ounion_l. exact Hc2.
      * apply covered_ounion_r. apply covered_ounion_r. apply covered_ounion_l. exact Hc2.
      * destruct Hc2.
    + (* body raised *)
      destruct (eX eb) as [D1|] eqn:EX; [|destruct Hc]. simpl in Hc.
      destruct (fabs vals f D1) as [ef|] eqn:Ef; [|discriminate]. inversion EfX. subst fx.
      destruct (fexec O n f st1) as [st2 r2] eqn:X2.
      pose proof (IHf D1 ef n st1 st2 r2 Ef Hc X2) as [Hf2|Hc2].
      { subst r2. inversion He. left. reflexivity. }
      destruct r2; inversion He; subst; right; simpl in *.
      * apply covered_ounion_l. exact Hc2.
      * apply covered_ounion_r. apply covered_ounion_r. apply covered_ounion_r. exact Hc2.
      * apply covered_ounion_r. apply covered_ounion_r. apply covered_ounion_r. exact Hc2.
      * destruct Hc2.
    + destruct Hc.
Qed.

Lemma oempty_covered o l : oempty o = true -> covered o l -> l = [].
Proof.
  destruct o as [D|]; simpl; [|intros _ []].
  destruct D; [|discriminate]. intros _ H. destruct l as [|x t]; [reflexivity|].
  exfalso. apply (H x). left. reflexivity.
Qed.

Theorem restored_for_sound s :
  restored_for vals s = true ->
  forall fuel st' r, fexec O fuel s (mkfst [] 0) = (st', r) -> r <> FOutOfFuel ->
    disp st' = [].
Proof.
  unfold restored_for. intros H fuel st' r He Hr.
  destruct (fabs vals s []) as [e|] eqn:Ea; [|discriminate].
  apply andb_true_iff in H. destruct H as [H12 H3]. apply andb_true_iff in H12.
  destruct H12 as [H1 H2].
  assert (HD : incl_n (disp (mkfst [] 0)) []) by (intros x Hx; exact Hx).
  destruct (fabs_sound s [] e fuel (mkfst [] 0) st' r Ea HD He) as [Hf|Hc]; [contradiction|].
  destruct r; simpl in Hc.
  - apply (oempty_covered _ _ H1 Hc).
  - apply (oempty_covered _ _ H2 Hc).
  - apply (oempty_covered _ _ H3 Hc).
  - destruct Hc.
Qed.

End Sound.

(* every valuation of k conditions is enumerated *)
Lemma all_vals_complete k : forall v, length v = k -> In v (all_vals k).
Proof.
  induction k as [|n IH]; intros v Hv.
  - destruct v; [left; reflexivity|discriminate].
  - destruct v as [|b t]; [discriminate|]. simpl in Hv. injection Hv as Ht.
    simpl. apply in_flat_map. exists t. split; [apply IH; exact Ht|].
    destruct b; [left; reflexivity|right; left; reflexivity].
Qed.

Theorem restored_on_every_exit_sound k s :
  restored_on_every_exit k s = true ->
  forall O fuel st' r,
    length (fvals O) = k ->
    fexec O fuel s (mkfst [] 0) = (st', r) -> r <> FOutOfFuel ->
    disp st' = [].
Proof.
  unfold restored_on_every_exit. rewrite forallb_forall. intros H O fuel st' r Hk He Hr.
  apply (restored_for_sound O s (H (fvals O) (all_vals_complete k _ Hk)) fuel st' r He Hr).
Qed.
