(* Proofs for C13, diffusive trajectories (Model/C13.v section 4). *)
From Coq Require Import List ZArith Bool Arith Lia.
Import ListNotations.
From QV Require Import Model.C13.

Arguments w_t0 {V}. Arguments w_dt {V}. Arguments w_rows {V}. Arguments w_gen {V}. Arguments w_calls {V}.
Arguments i_dt {V Y}. Arguments i_t {V Y}. Arguments i_y {V Y}. Arguments i_w {V Y}. Arguments i_set {V Y}.
Arguments st_points {V Y}. Arguments st_calls {V Y}.

Lemma map_seq_shift {A} (f : nat -> A) n m :
  map f (seq n m) = map (fun j => f (n + j)) (seq 0 m).
Proof.
  revert n f. induction m as [|m IH]; intros n f; simpl; [reflexivity|].
  rewrite Nat.add_0_r. f_equal. rewrite (IH (S n) f), (IH 1 (fun j => f (n + j))).
  apply map_ext. intros j. f_equal. lia.
Qed.

Section SDE.
Variables V Y : Type.
Variable zeroV : V.
Variable addV : V -> V -> V.
Variable ndw ncol : nat.
Variable sstep : Y -> list (list V) -> Y.

Notation rowat st := (row_at V st ndw ncol).
Notation extend st := (w_extend V st ndw ncol).
Notation dW st := (w_dW V st ndw ncol).
Notation integrate st := (s_integrate V Y st zeroV addV ndw ncol sstep).
Notation run st := (s_run V Y st zeroV addV ndw ncol sstep).
Notation run_one st := (s_run_one V Y st zeroV addV ndw ncol sstep).
Notation experiment st := (s_experiment V Y st zeroV addV ndw ncol sstep).
Notation W := (width ndw ncol).

(* ---- the option "dt" is the only attribute a trajectory inherits *)
Lemma s_set_state_dt (s s' : sint V Y) t y0 g :
  i_dt s = i_dt s' -> s_set_state V Y s t y0 g = s_set_state V Y s' t y0 g.
Proof. intros H. unfold s_set_state. now rewrite H. Qed.

Lemma s_set_state_keeps_dt (s : sint V Y) t y0 g : i_dt (s_set_state V Y s t y0 g) = i_dt s.
Proof. reflexivity. Qed.

Section WithStream.
Variable stream : seedid -> nat -> V.

Lemma s_integrate_dt (s : sint V Y) t :
  match integrate stream s t with
  | SOk _ _ s' _ _ => i_dt s' = i_dt s
  | SSkip _ _ s' => i_dt s' = i_dt s
  | SErr _ _ => True
  end.
Proof.
  unfold s_integrate.
  destruct (t - i_t s <? 0)%Z; [exact I|].
  destruct (2 * (t - i_t s) <? i_dt s)%Z; [reflexivity|].
  destruct (dW stream (i_w s) (i_t s) _) as [[w1 rows]|]; [reflexivity|exact I].
Qed.

Lemma s_run_dt ts : forall (s : sint V Y) acc, i_dt (fst (run stream s ts acc)) = i_dt s.
Proof.
  induction ts as [|t r IH]; intros s acc; simpl; [reflexivity|].
  pose proof (s_integrate_dt s t) as H.
  destruct (integrate stream s t) as [s' t' nz|s'|]; simpl; [|..]; try reflexivity;
    rewrite IH; exact H.
Qed.

Lemma s_run_one_dt (s : sint V Y) seed t0 y0 ts :
  i_dt (snd (run_one stream s seed t0 y0 ts)) = i_dt s.
Proof.
  unfold s_run_one.
  pose proof (s_run_dt ts (s_set_state V Y s t0 y0 (GGen V (mkgen seed))) []) as H.
  destruct (run stream (s_set_state V Y s t0 y0 (GGen V (mkgen seed))) ts []) as [s2 out].
  simpl in *. exact H.
Qed.

Lemma s_run_one_given_dt (s s' : sint V Y) seed t0 y0 ts :
  i_dt s = i_dt s' ->
  fst (run_one stream s seed t0 y0 ts) = fst (run_one stream s' seed t0 y0 ts).
Proof. intros H. unfold s_run_one. now rewrite (s_set_state_dt s s' t0 y0 _ H). Qed.

(* run_from_experiment with the old value put back: dt unchanged *)
Lemma s_experiment_restores (s : sint V Y) t0 dtx y0 ts rows :
  i_dt (snd (experiment stream true s t0 dtx y0 ts rows)) = i_dt s.
Proof.
  unfold s_experiment. destruct (negb (ndw =? 1)); [reflexivity|].
  destruct (run stream _ ts []) as [s2 out]. simpl. destruct out; reflexivity.
Qed.

(* the code as it is: after a successful run_from_experiment the option
   holds the spacing of the experiment's tlist *)
Lemma s_experiment_leaks (s : sint V Y) t0 dtx y0 ts rows :
  st_points (fst (experiment stream false s t0 dtx y0 ts rows)) <> None ->
  i_dt (snd (experiment stream false s t0 dtx y0 ts rows)) = dtx.
Proof.
  unfold s_experiment. destruct (negb (ndw =? 1)); [intros C; now contradiction C|].
  pose proof (s_run_dt ts
    (s_set_state V Y {| i_dt := dtx; i_t := i_t s; i_y := i_y s; i_w := i_w s; i_set := i_set s |}
       t0 y0 (GPreset V t0 dtx rows)) []) as H.
  destruct (run stream _ ts []) as [s2 out]. simpl in *.
  destruct out; [intros _; exact H|intros C; now contradiction C].
Qed.

(* ---- histories of a solver object *)
Inductive sev :=
| ERun (seed : sseq) (t0 : Z) (y0 : Y) (ts : list Z)
| EExp (t0 dtx : Z) (y0 : Y) (ts : list Z) (rows : list (list V)).

Definition s_apply (restore : bool) (s : sint V Y) (e : sev) : sint V Y :=
  match e with
  | ERun seed t0 y0 ts => snd (run_one stream s seed t0 y0 ts)
  | EExp t0 dtx y0 ts rows => snd (experiment stream restore s t0 dtx y0 ts rows)
  end.

Definition s_after (restore : bool) (s : sint V Y) (evs : list sev) : sint V Y :=
  fold_left (s_apply restore) evs s.

Definition is_run (e : sev) : bool := match e with ERun _ _ _ _ => true | _ => false end.

Lemma s_after_dt_fixed evs : forall s, i_dt (s_after true s evs) = i_dt s.
Proof.
  unfold s_after. induction evs as [|e r IH]; intros s; simpl; [reflexivity|].
  rewrite IH. destruct e; simpl.
  - apply s_run_one_dt.
  - apply s_experiment_restores.
Qed.

Lemma s_after_dt_runs restore evs : forall s,
  forallb is_run evs = true -> i_dt (s_after restore s evs) = i_dt s.
Proof.
  unfold s_after. induction evs as [|e r IH]; intros s H; simpl; [reflexivity|].
  simpl in H. apply andb_prop in H. destruct H as [He Hr].
  rewrite (IH _ Hr). destruct e; simpl; [|discriminate].
  apply s_run_one_dt.
Qed.

(* ---- the noise of a trajectory is the stream of its seed, row by row,
   whatever the batches in which it was generated *)
Definition Wgood (g0 : gen) (w : wiener V) : Prop :=
  exists n, w_gen w = Some (adv g0 (n * W)) /\
            w_rows w = map (rowat stream g0) (seq 0 n) /\
            list_sum (w_calls w) = n.

Lemma row_at_adv g0 n j : rowat stream (adv g0 (n * W)) j = rowat stream g0 (n + j).
Proof.
  unfold row_at, adv; simpl. apply map_ext. intros i. f_equal. lia.
Qed.

Lemma list_sum_snoc l x : list_sum (l ++ [x]) = list_sum l + x.
Proof. rewrite list_sum_app. simpl. lia. Qed.

Lemma Wgood_extend g0 w idx w' :
  Wgood g0 w -> extend stream w idx = Some w' -> Wgood g0 w'.
Proof.
  intros (n & Hg & Hr & Hc) H. unfold w_extend in H. rewrite Hg in H.
  injection H as <-. set (nnew := idx - length (w_rows w)).
  exists (n + nnew). simpl. split; [|split].
  - f_equal. unfold adv; simpl. f_equal. lia.
  - rewrite Hr, seq_app, map_app. f_equal. simpl.
    rewrite (map_seq_shift (rowat stream g0) n nnew). apply map_ext. intros j. apply row_at_adv.
  - rewrite list_sum_snoc. lia.
Qed.

Lemma Wgood_dW g0 w t n w' rows :
  Wgood g0 w -> dW stream w t n = Some (w', rows) -> Wgood g0 w'.
Proof.
  intros Hw H. unfold w_dW in H.
  destruct (Z.of_nat (length (w_rows w)) <=? _)%Z.
  - destruct (extend stream w _) as [w1|] eqn:E; [|discriminate].
    injection H as <- _. eapply Wgood_extend; eauto.
  - injection H as <- _. exact Hw.
Qed.

Definition Sgood (g0 : gen) (s : sint V Y) : Prop := Wgood g0 (i_w s).

Lemma Sgood_integrate g0 (s : sint V Y) t :
  Sgood g0 s ->
  match integrate stream s t with
  | SOk _ _ s' _ _ => Sgood g0 s'
  | SSkip _ _ s' => Sgood g0 s'
  | SErr _ _ => True
  end.
Proof.
  intros H. unfold s_integrate.
  destruct (t - i_t s <? 0)%Z; [exact I|].
  destruct (2 * (t - i_t s) <? i_dt s)%Z; [exact H|].
  destruct (dW stream (i_w s) (i_t s) _) as [[w1 rows]|] eqn:E; [|exact I].
  unfold Sgood; simpl. eapply Wgood_dW; eauto.
Qed.

Lemma Sgood_run g0 ts : forall (s : sint V Y) acc, Sgood g0 s -> Sgood g0 (fst (run stream s ts acc)).
Proof.
  induction ts as [|t r IH]; intros s acc H; simpl; [exact H|].
  pose proof (Sgood_integrate g0 s t H) as HI.
  destruct (integrate stream s t) as [s' t' nz|s'|]; simpl; [apply IH; exact HI|apply IH; exact HI|exact H].
Qed.

Lemma s_noise_is_stream (s : sint V Y) seed t0 y0 ts :
  let '(tr, s') := run_one stream s seed t0 y0 ts in
  let n := list_sum (st_calls tr) in
  w_rows (i_w s') = map (rowat stream (mkgen seed)) (seq 0 n) /\
  w_gen (i_w s') = Some (adv (mkgen seed) (n * W)).
Proof.
  unfold s_run_one.
  assert (H0 : Sgood (mkgen seed) (s_set_state V Y s t0 y0 (GGen V (mkgen seed)))).
  { exists 0. unfold adv, mkgen; simpl. repeat split. }
  pose proof (Sgood_run (mkgen seed) ts _ [] H0) as H.
  destruct (run stream (s_set_state V Y s t0 y0 (GGen V (mkgen seed))) ts []) as [s2 out].
  simpl in *. destruct H as (n & Hg & Hr & Hc). rewrite Hc. split; assumption.
Qed.

End WithStream.

(* ---- locality: only the stream of the trajectory's own seed is read *)
Section Local.
Variables st1 st2 : seedid -> nat -> V.
Variable sd : seedid.
Hypothesis Hagree : forall k, st1 sd k = st2 sd k.

Definition Wseed (w : wiener V) : Prop :=
  match w_gen w with Some g => g_seed g = sd | None => True end.

Lemma extend_local w idx :
  Wseed w -> extend st1 w idx = extend st2 w idx /\
  match extend st2 w idx with Some w' => Wseed w' | None => True end.
Proof.
  unfold Wseed, w_extend. destruct (w_gen w) as [g|]; [|split; auto].
  intros H. split.
  - do 2 f_equal. f_equal. apply map_ext. intros j. unfold row_at. apply map_ext. intros i.
    now rewrite H, Hagree.
  - simpl. exact H.
Qed.

Lemma dW_local w t n :
  Wseed w -> dW st1 w t n = dW st2 w t n /\
  match dW st2 w t n with Some (w', _) => Wseed w' | None => True end.
Proof.
  intros H. unfold w_dW.
  destruct (Z.of_nat (length (w_rows w)) <=? _)%Z.
  - destruct (extend_local w (Z.to_nat (round_div (t - w_t0 w) (w_dt w)) + n) H) as [E1 E2].
    rewrite E1. split; [reflexivity|].
    destruct (extend st2 w _); [exact E2|exact I].
  - split; [reflexivity|exact H].
Qed.

Definition Sseed (s : sint V Y) : Prop := Wseed (i_w s).

Lemma integrate_local (s : sint V Y) t :
  Sseed s -> integrate st1 s t = integrate st2 s t /\
  match integrate st2 s t with
  | SOk _ _ s' _ _ => Sseed s'
  | SSkip _ _ s' => Sseed s'
  | SErr _ _ => True
  end.
Proof.
  intros H. unfold s_integrate.
  destruct (t - i_t s <? 0)%Z; [split; auto|].
  destruct (2 * (t - i_t s) <? i_dt s)%Z; [split; auto|].
  destruct (dW_local (i_w s) (i_t s)
              (Z.to_nat (if (i_dt s <? 2 * ((t - i_t s) mod i_dt s))%Z
                         then ((t - i_t s) / i_dt s + 1)%Z else ((t - i_t s) / i_dt s)%Z)) H)
    as [E1 E2].
  rewrite E1. split; [reflexivity|].
  destruct (dW st2 (i_w s) (i_t s) _) as [[w1 rows]|]; [exact E2|exact I].
Qed.

Lemma run_local ts : forall (s : sint V Y) acc, Sseed s -> run st1 s ts acc = run st2 s ts acc.
Proof.
  induction ts as [|t r IH]; intros s acc H; simpl; [reflexivity|].
  destruct (integrate_local s t H) as [E1 E2]. rewrite E1.
  destruct (integrate st2 s t) as [s' t' nz|s'|]; [apply IH; exact E2|apply IH; exact E2|reflexivity].
Qed.

Lemma s_run_one_local (s : sint V Y) seed t0 y0 ts :
  sid seed = sd -> run_one st1 s seed t0 y0 ts = run_one st2 s seed t0 y0 ts.
Proof.
  intros H. unfold s_run_one. rewrite run_local; [reflexivity|].
  unfold Sseed, Wseed; simpl. exact H.
Qed.
End Local.

End SDE.

(* ------------------------------------------------------------------ *)
(* the witness: on the code as it is, one run_from_experiment changes what
   a later run(seed) computes *)
Definition wit_stream (sd : seedid) (k : nat) : Z := Z.of_nat k.
Definition wit_step (y : list (list Z)) (rows : list (list Z)) : list (list Z) := y ++ rows.
Definition wit_solver : sint Z (list (list Z)) :=
  {| i_dt := 1; i_t := 0; i_y := [];
     i_w := {| w_t0 := 0; w_dt := 1; w_rows := []; w_gen := None; w_calls := [] |};
     i_set := false |}.
Definition wit_run (s : sint Z (list (list Z))) :=
  fst (s_run_one Z (list (list Z)) wit_stream 0%Z Z.add 1 1 wit_step s (fresh 7) 0%Z [] [2; 4]%Z).
Definition wit_after_experiment (restore : bool) :=
  snd (s_experiment Z (list (list Z)) wit_stream 0%Z Z.add 1 1 wit_step restore wit_solver
         0%Z 2%Z [] [2; 4]%Z [[5]; [6]]%Z).

Lemma sde_experiment_changes_later_run :
  wit_run (wit_after_experiment false) <> wit_run wit_solver.
Proof. vm_compute. discriminate. Qed.

Lemma sde_experiment_fixed_witness :
  wit_run (wit_after_experiment true) = wit_run wit_solver.
Proof. vm_compute. reflexivity. Qed.
