(* Proofs for C04: soundness of the checker `astmt` / `params_preserved`
   with respect to `exec`, for every oracle, fuel, heap and environment. *)
From Coq Require Import List String Bool Arith Lia.
Import ListNotations.
From QV Require Import Model.C04.
Open Scope string_scope.

(* --------------------------------------------------------- small helpers *)
Lemma memf_In f l : memf f l = true <-> In f l.
Proof.
  unfold memf. rewrite existsb_exists. split.
  - intros [x [Hin Heq]]. apply String.eqb_eq in Heq. subst. exact Hin.
  - intros Hin. exists f. split; [exact Hin|apply String.eqb_refl].
Qed.

Lemma In_inter f a b : In f (inter a b) <-> In f a /\ In f b.
Proof.
  unfold inter. rewrite filter_In. rewrite memf_In. tauto.
Qed.

Lemma subset_incl a b : subset a b = true -> forall f, In f a -> In f b.
Proof.
  unfold subset. rewrite forallb_forall. intros H f Hf.
  apply memf_In. apply H. exact Hf.
Qed.

(* --------------------------------------------------------- alookup facts *)
Lemma alookup_remove_key x s y :
  alookup (remove_key x s) y = if String.eqb y x then None else alookup s y.
Proof.
  induction s as [|[z F] t IH]; simpl.
  - destruct (String.eqb y x); reflexivity.
  - destruct (String.eqb x z) eqn:Exz; simpl.
    + apply String.eqb_eq in Exz. subst z.
      destruct (String.eqb y x) eqn:Eyx; exact IH.
    + destruct (String.eqb y z) eqn:Eyz.
      * apply String.eqb_eq in Eyz. subst z.
        destruct (String.eqb y x) eqn:Eyx; [|reflexivity].
        apply String.eqb_eq in Eyx. subst y. rewrite String.eqb_refl in Exz.
        discriminate.
      * exact IH.
Qed.

Lemma alookup_aset s x a y :
  alookup (aset s x a) y = if String.eqb y x then a else alookup s y.
Proof.
  destruct a as [F|]; simpl.
  - destruct (String.eqb y x) eqn:E; [reflexivity|].
    rewrite alookup_remove_key, E. reflexivity.
  - rewrite alookup_remove_key. destruct (String.eqb y x); reflexivity.
Qed.

Lemma alookup_map_vals (g : list field -> list field) s y :
  alookup (map (fun p => (fst p, g (snd p))) s) y = option_map g (alookup s y).
Proof.
  induction s as [|[z F] t IH]; simpl; [reflexivity|].
  destruct (String.eqb y z); [reflexivity|exact IH].
Qed.

Lemma alookup_forget_all W s y :
  alookup (forget_all W s) y =
  option_map (filter (fun f => negb (inW f W))) (alookup s y).
Proof. unfold forget_all. apply alookup_map_vals. Qed.

Lemma alookup_drop_field_all f s y :
  alookup (drop_field_all f s) y =
  option_map (filter (fun g => negb (String.eqb g f))) (alookup s y).
Proof. unfold drop_field_all. apply alookup_map_vals. Qed.

Lemma alookup_ajoin s1 s2 y :
  alookup (ajoin s1 s2) y = ajoin_val (alookup s1 y) (alookup s2 y).
Proof.
  induction s1 as [|[z F1] t IH]; simpl; [reflexivity|].
  destruct (alookup s2 z) as [F2|] eqn:E2; simpl.
  - destruct (String.eqb y z) eqn:Eyz.
    + apply String.eqb_eq in Eyz. subst z. rewrite E2. reflexivity.
    + exact IH.
  - destruct (String.eqb y z) eqn:Eyz.
    + apply String.eqb_eq in Eyz. subst z. rewrite IH, E2.
      destruct (alookup t y); reflexivity.
    + exact IH.
Qed.

Lemma alookup_In s y F : alookup s y = Some F -> In (y, F) s.
Proof.
  induction s as [|[z G] t IH]; simpl; [discriminate|].
  destruct (String.eqb y z) eqn:E.
  - apply String.eqb_eq in E. subst z. intros H. inversion H. subst. left. reflexivity.
  - intros H. right. apply IH. exact H.
Qed.

(* weaker s1 s2: every claim of s2 is a claim of s1 *)
Definition weaker (s1 s2 : aenv) : Prop :=
  forall y F2, alookup s2 y = Some F2 ->
    exists F1, alookup s1 y = Some F1 /\ forall f, In f F2 -> In f F1.

Lemma aleq_weaker s1 s2 : aleq s1 s2 = true -> weaker s1 s2.
Proof.
  unfold aleq, weaker. rewrite forallb_forall. intros H y F2 Hy.
  specialize (H (y, F2) (alookup_In _ _ _ Hy)). simpl in H.
  destruct (alookup s1 y) as [F1|]; [|discriminate].
  exists F1. split; [reflexivity|]. apply subset_incl. exact H.
Qed.

Lemma weaker_refl s : weaker s s.
Proof. intros y F H. exists F. split; [exact H|auto]. Qed.

Lemma weaker_trans a b c : weaker a b -> weaker b c -> weaker a c.
Proof.
  intros Hab Hbc y F Hy. destruct (Hbc y F Hy) as [F1 [H1 I1]].
  destruct (Hab y F1 H1) as [F0 [H0 I0]]. exists F0. split; [exact H0|auto].
Qed.

Lemma weaker_ajoin_l a b : weaker a (ajoin a b).
Proof.
  intros y F Hy. rewrite alookup_ajoin in Hy.
  destruct (alookup a y) as [Fa|]; [|discriminate].
  destruct (alookup b y) as [Fb|]; [|discriminate].
  simpl in Hy. inversion Hy. subst F. exists Fa. split; [reflexivity|].
  intros f Hf. apply In_inter in Hf. tauto.
Qed.

Lemma weaker_ajoin_r a b : weaker b (ajoin a b).
Proof.
  intros y F Hy. rewrite alookup_ajoin in Hy.
  destruct (alookup a y) as [Fa|]; [|discriminate].
  destruct (alookup b y) as [Fb|]; [|discriminate].
  simpl in Hy. inversion Hy. subst F. exists Fb. split; [reflexivity|].
  intros f Hf. apply In_inter in Hf. tauto.
Qed.

Lemma weaker_iter b n : forall a,
  weaker a (iter_n n (fun c => match astmt b c with
                               | Some c' => ajoin c c'
                               | None => c
                               end) a).
Proof.
  induction n as [|k IH]; intros a; simpl; [apply weaker_refl|].
  eapply weaker_trans; [|apply IH].
  destruct (astmt b a); [apply weaker_ajoin_l|apply weaker_refl].
Qed.

Definition loop_step (b : stmt) : aenv -> aenv :=
  fun c => match astmt b c with
           | Some c' => ajoin c c'
           | None => c
           end.

Lemma astmt_loop b a :
  astmt (SLoop b) a =
  match astmt b (iter_n LOOP_ITERS (loop_step b) a) with
  | Some c' => if aleq c' (iter_n LOOP_ITERS (loop_step b) a)
               then Some (iter_n LOOP_ITERS (loop_step b) a) else None
  | None => None
  end.
Proof. reflexivity. Qed.

(* ------------------------------------------------------------- invariant *)
Section Sound.
Variable n0 : nat.          (* cells below n0 belong to the caller *)
Variable O : oracle.

Definition isnew (st : state) (v : loc) : Prop := n0 <= v < nx st.

Definition gval (a : option (list field)) (v : loc) (st : state) : Prop :=
  match a with
  | None => True
  | Some F => isnew st v /\ forall f, In f F -> isnew st (hp st v f)
  end.

Definition Inv (s : aenv) (st : state) : Prop :=
  n0 <= nx st /\ forall x F, alookup s x = Some F -> gval (Some F) (env st x) st.

Definition preserved (st st' : state) : Prop :=
  forall l f, l < n0 -> hp st' l f = hp st l f.

Definition good (st st' : state) : Prop := preserved st st' /\ nx st <= nx st'.

Lemma good_refl st : good st st.
Proof. split; [intros l f _; reflexivity|lia]. Qed.

Lemma good_trans a b c : good a b -> good b c -> good a c.
Proof.
  intros [P1 N1] [P2 N2]. split; [|lia].
  intros l f Hl. rewrite (P2 l f Hl). apply P1. exact Hl.
Qed.

Lemma Inv_weaker s1 s2 st : weaker s1 s2 -> Inv s1 st -> Inv s2 st.
Proof.
  intros W [Hn H]. split; [exact Hn|]. intros x F2 Hx.
  destruct (W x F2 Hx) as [F1 [H1 I1]]. destruct (H x F1 H1) as [A B].
  split; [exact A|]. intros f Hf. apply B. apply I1. exact Hf.
Qed.

Lemma Inv_tick s st : Inv s st -> Inv s (tick st).
Proof. intros H. exact H. Qed.

Lemma good_tick st : good st (tick st).
Proof. split; [intros l f _; reflexivity|simpl; lia]. Qed.

Lemma gval_var s st x : Inv s st -> gval (alookup s x) (env st x) st.
Proof.
  intros [_ H]. destruct (alookup s x) as [F|] eqn:E; [|exact I].
  apply H. exact E.
Qed.

Lemma Inv_set_env s st x a v :
  Inv s st -> gval a v st -> Inv (aset s x a) (set_env st x v).
Proof.
  intros [Hn H] Hv. split; [exact Hn|]. intros y F Hy.
  rewrite alookup_aset in Hy. unfold set_env; simpl.
  destruct (String.eqb y x) eqn:E.
  - subst a. exact Hv.
  - apply H. exact Hy.
Qed.

(* a callee overwrites fields W of a new cell *)
Lemma havoc_sound s st x W g F0 :
  Inv s st -> alookup s x = Some F0 ->
  Inv (forget_all W s) (havoc st (env st x) W g)
  /\ good st (havoc st (env st x) W g).
Proof.
  intros [Hn H] Hx. destruct (H x F0 Hx) as [[Hlo Hhi] _].
  split.
  - split; [exact Hn|]. intros y F Hy. rewrite alookup_forget_all in Hy.
    destruct (alookup s y) as [Fy|] eqn:Ey; [|discriminate]. simpl in Hy.
    inversion Hy. subst F. clear Hy. destruct (H y Fy Ey) as [A B].
    split; [exact A|]. intros f Hf. apply filter_In in Hf. destruct Hf as [Hf Hk].
    unfold havoc, isnew; simpl. apply negb_true_iff in Hk. rewrite Hk.
    rewrite andb_false_r. apply B. exact Hf.
  - split; [|simpl; lia]. intros l f Hl. unfold havoc; simpl.
    destruct (Nat.eqb l (env st x)) eqn:E; [|reflexivity].
    apply Nat.eqb_eq in E. lia.
Qed.

Lemma do_mut_sound mut args : forall s s1 st,
  amut mut args s = Some s1 -> Inv s st ->
  Inv s1 (do_mut O mut args st) /\ good st (do_mut O mut args st).
Proof.
  induction mut as [|[k W] m IH]; intros s s1 st Ha HI; simpl in *.
  - inversion Ha. subst. split; [exact HI|apply good_refl].
  - destruct (alookup s (nth k args "")) as [F0|] eqn:E; [|discriminate].
    destruct (havoc_sound s st (nth k args "") W (oloc O (cnt st)) F0 HI E)
      as [HI1 G1].
    destruct (IH _ _ _ Ha HI1) as [HI2 G2].
    split; [exact HI2|eapply good_trans; eassumption].
Qed.

Lemma alloc_sound s st F g l st1 :
  Inv s st -> alloc st F g = (l, st1) ->
  Inv s st1 /\ good st st1 /\ gval (Some F) l st1.
Proof.
  intros [Hn H] Ha. unfold alloc in Ha. inversion Ha. subst l st1. clear Ha.
  split; [|split].
  - split; [simpl; lia|]. intros y Fy Hy. destruct (H y Fy Hy) as [[A1 A2] B].
    unfold gval, isnew in *; simpl. split; [lia|]. intros f Hf.
    destruct (Nat.eqb (env st y) (nx st)) eqn:E.
    + apply Nat.eqb_eq in E. lia.
    + destruct (B f Hf) as [B1 B2]. lia.
  - split; [|simpl; lia]. intros l f Hl. simpl.
    destruct (Nat.eqb l (nx st)) eqn:E; [|reflexivity].
    apply Nat.eqb_eq in E. lia.
  - unfold gval, isnew; simpl. split; [lia|]. intros f Hf.
    rewrite Nat.eqb_refl. apply memf_In in Hf. rewrite Hf. lia.
Qed.

Lemma eval_sound e s s1 a st v st1 :
  aexpr e s = Some (s1, a) -> Inv s st -> eval O e st = (v, st1) ->
  Inv s1 st1 /\ good st st1 /\ gval a v st1.
Proof.
  intros Ha HI He. destruct e as [x|x f|x y|mut r args]; simpl in *.
  - inversion Ha. inversion He. subst. split; [exact HI|split; [apply good_refl|]].
    apply gval_var. exact HI.
  - inversion Ha. inversion He. subst. split; [exact HI|split; [apply good_refl|]].
    destruct (alookup s1 x) as [F|] eqn:E; [|exact I].
    destruct (memf f F) eqn:Ef; [|exact I].
    destruct HI as [Hn H]. destruct (H x F E) as [_ B].
    split; [apply B; apply memf_In; exact Ef|]. intros g Hg. destruct Hg.
  - inversion Ha. inversion He. subst. clear Ha He.
    split; [exact HI|split; [apply good_tick|]].
    pose proof (gval_var s1 st x HI) as Gx. pose proof (gval_var s1 st y HI) as Gy.
    destruct (alookup s1 x) as [Fx|]; [|exact I].
    destruct (alookup s1 y) as [Fy|]; [|exact I]. simpl.
    destruct Gx as [Ax Bx]. destruct Gy as [Ay By].
    destruct (obit O (cnt st)).
    + split; [exact Ax|]. intros f Hf. apply In_inter in Hf. apply Bx. tauto.
    + split; [exact Ay|]. intros f Hf. apply In_inter in Hf. apply By. tauto.
  - destruct (amut mut args s) as [s2|] eqn:Em; [|discriminate].
    inversion Ha. subst s1 a. clear Ha.
    destruct (do_mut_sound mut args s s2 st Em HI) as [HI2 G2].
    destruct r as [F|k|].
    + destruct (alloc_sound s2 _ F _ v st1 HI2 He) as [A [B C]].
      split; [exact A|split; [eapply good_trans; eassumption|exact C]].
    + inversion He. subst. split; [exact HI2|split; [exact G2|]].
      apply gval_var. exact HI2.
    + inversion He. subst. split; [exact HI2|split; [|exact I]].
      eapply good_trans; [exact G2|apply good_tick].
Qed.

Lemma store_sound s st x f y F :
  Inv s st -> alookup s x = Some F ->
  good st (upd st (env st x) f (env st y)) /\
  Inv (match alookup s y with
       | Some _ => aset s x (Some (f :: F))
       | None => drop_field_all f s
       end) (upd st (env st x) f (env st y)).
Proof.
  intros HI Hx. destruct HI as [Hn H]. destruct (H x F Hx) as [[Xlo Xhi] XB].
  split.
  - split; [|simpl; lia]. intros l g Hl. unfold upd; simpl.
    destruct (Nat.eqb l (env st x)) eqn:E; [|reflexivity].
    apply Nat.eqb_eq in E. lia.
  - destruct (alookup s y) as [Fy|] eqn:Ey.
    + destruct (H y Fy Ey) as [Ynew _].
      split; [exact Hn|]. intros z Fz Hz. rewrite alookup_aset in Hz.
      assert (Hcell : forall w G, gval (Some G) w st ->
                gval (Some G) w (upd st (env st x) f (env st y))).
      { intros w G [A B]. split; [exact A|]. intros g Hg. unfold upd, isnew; simpl.
        destruct (Nat.eqb w (env st x) && String.eqb g f); [exact Ynew|].
        apply B. exact Hg. }
      destruct (String.eqb z x) eqn:Ezx.
      * apply String.eqb_eq in Ezx. subst z. inversion Hz. subst Fz. clear Hz.
        unfold upd; simpl. split; [split; [exact Xlo|exact Xhi]|].
        intros g Hg. unfold isnew; simpl.
        destruct (Nat.eqb (env st x) (env st x) && String.eqb g f) eqn:E;
          [exact Ynew|].
        destruct Hg as [Hg|Hg].
        -- subst g. rewrite Nat.eqb_refl, String.eqb_refl in E. discriminate.
        -- apply XB. exact Hg.
      * apply (Hcell (env st z) Fz). apply H. exact Hz.
    + split; [exact Hn|]. intros z Fz Hz. rewrite alookup_drop_field_all in Hz.
      destruct (alookup s z) as [G|] eqn:Ez; [|discriminate]. simpl in Hz.
      inversion Hz. subst Fz. clear Hz. destruct (H z G Ez) as [A B].
      split; [exact A|]. intros g Hg. apply filter_In in Hg. destruct Hg as [Hg Hne].
      unfold upd, isnew; simpl. apply negb_true_iff in Hne. rewrite Hne.
      rewrite andb_false_r. apply B. exact Hg.
Qed.

(* soundness of the loop rule, given soundness of the body at every fuel *)
Lemma loop_sound b sI :
  (forall fuel st st' r, Inv sI st -> exec O fuel b st = (st', r) ->
     good st st' /\ (r = Normal -> Inv sI st')) ->
  forall fuel st st' r, Inv sI st -> exec O fuel (SLoop b) st = (st', r) ->
     good st st' /\ (r = Normal -> Inv sI st').
Proof.
  intros Hb. induction fuel as [|n IH]; intros st st' r HI He; simpl in He.
  - inversion He. subst. split; [apply good_refl|discriminate].
  - destruct (obit O (cnt st)).
    + destruct (exec O n b (tick st)) as [st1 r1] eqn:E1.
      destruct (Hb n (tick st) st1 r1 (Inv_tick _ _ HI) E1) as [G1 I1].
      assert (G01 : good st st1) by (eapply good_trans; [apply good_tick|exact G1]).
      destruct r1.
      * destruct (IH st1 st' r (I1 eq_refl) He) as [G2 I2].
        split; [eapply good_trans; eassumption|exact I2].
      * inversion He. subst. split; [exact G01|discriminate].
      * inversion He. subst. split; [exact G01|discriminate].
    + inversion He. subst. split; [apply good_tick|]. intros _. exact HI.
Qed.

Lemma always_returns_not_normal : forall s, always_returns s = true ->
  forall fuel st st' r, exec O fuel s st = (st', r) -> r <> Normal.
Proof.
  induction s as [|x e|x f y|s1 IH1 s2 IH2|s1 IH1 s2 IH2|b IHb|];
    intros Hr fuel st st' r He; simpl in Hr; try discriminate.
  - destruct fuel; simpl in He; [inversion He; discriminate|].
    destruct (exec O fuel s1 st) as [st1 r1] eqn:X1.
    destruct r1.
    + apply orb_true_iff in Hr. destruct Hr as [Hr|Hr].
      * exfalso. apply (IH1 Hr fuel st st1 Normal X1). reflexivity.
      * apply (IH2 Hr fuel st1 st' r He).
    + inversion He. discriminate.
    + inversion He. discriminate.
  - apply andb_true_iff in Hr. destruct Hr as [H1 H2].
    destruct fuel; simpl in He; [inversion He; discriminate|].
    destruct (obit O (cnt st)).
    + apply (IH1 H1 fuel _ _ _ He).
    + apply (IH2 H2 fuel _ _ _ He).
  - destruct fuel; simpl in He; inversion He; discriminate.
Qed.

Theorem exec_sound : forall s a a' fuel st st' r,
  astmt s a = Some a' -> Inv a st -> exec O fuel s st = (st', r) ->
  good st st' /\ (r = Normal -> Inv a' st').
Proof.
  induction s as [|x e|x f y|s1 IH1 s2 IH2|s1 IH1 s2 IH2|b IHb|];
    intros a a' fuel st st' r Ha HI He.
  - (* SSkip *)
    destruct fuel; simpl in He; inversion He; subst.
    + split; [apply good_refl|discriminate].
    + simpl in Ha. inversion Ha. subst. split; [apply good_refl|intros _; exact HI].
  - (* SAssign *)
    destruct fuel; simpl in He.
    + inversion He; subst. split; [apply good_refl|discriminate].
    + simpl in Ha. destruct (aexpr e a) as [[a1 v]|] eqn:Ea; [|discriminate].
      inversion Ha. subst a'. clear Ha.
      destruct (eval O e st) as [w st1] eqn:Ev. inversion He. subst st' r. clear He.
      destruct (eval_sound e a a1 v st w st1 Ea HI Ev) as [I1 [G1 V1]].
      split.
      * destruct G1 as [P N]. split; [exact P|simpl; exact N].
      * intros _. apply Inv_set_env; assumption.
  - (* SStore *)
    destruct fuel; simpl in He.
    + inversion He; subst. split; [apply good_refl|discriminate].
    + simpl in Ha. destruct (alookup a x) as [F|] eqn:Ex; [|discriminate].
      inversion He. subst st' r. clear He.
      destruct (store_sound a st x f y F HI Ex) as [G I1].
      split; [exact G|]. intros _.
      destruct (alookup a y); inversion Ha; subst; exact I1.
  - (* SSeq *)
    destruct fuel; simpl in He.
    + inversion He; subst. split; [apply good_refl|discriminate].
    + simpl in Ha. destruct (astmt s1 a) as [a1|] eqn:E1; [|discriminate].
      destruct (exec O fuel s1 st) as [st1 r1] eqn:X1.
      destruct (IH1 a a1 fuel st st1 r1 E1 HI X1) as [G1 I1].
      destruct r1.
      * destruct (IH2 a1 a' fuel st1 st' r Ha (I1 eq_refl) He) as [G2 I2].
        split; [eapply good_trans; eassumption|exact I2].
      * inversion He. subst. split; [exact G1|discriminate].
      * inversion He. subst. split; [exact G1|discriminate].
  - (* SIf *)
    destruct fuel; simpl in He.
    + inversion He; subst. split; [apply good_refl|discriminate].
    + simpl in Ha. destruct (astmt s1 a) as [a1|] eqn:E1; [|discriminate].
      destruct (astmt s2 a) as [a2|] eqn:E2; [|discriminate].
      inversion Ha. subst a'. clear Ha.
      destruct (obit O (cnt st)).
      * destruct (IH1 a a1 fuel (tick st) st' r E1 (Inv_tick _ _ HI) He) as [G I1].
        split; [eapply good_trans; [apply good_tick|exact G]|].
        intros Hr. destruct (always_returns s1) eqn:R1.
        { exfalso. apply (always_returns_not_normal s1 R1 fuel (tick st) st' r He Hr). }
        destruct (always_returns s2); [apply I1; exact Hr|].
        eapply Inv_weaker; [apply weaker_ajoin_l|apply I1; exact Hr].
      * destruct (IH2 a a2 fuel (tick st) st' r E2 (Inv_tick _ _ HI) He) as [G I2].
        split; [eapply good_trans; [apply good_tick|exact G]|].
        intros Hr. destruct (always_returns s1) eqn:R1; [apply I2; exact Hr|].
        destruct (always_returns s2) eqn:R2.
        { exfalso. apply (always_returns_not_normal s2 R2 fuel (tick st) st' r He Hr). }
        eapply Inv_weaker; [apply weaker_ajoin_r|apply I2; exact Hr].
  - (* SLoop *)
    rewrite astmt_loop in Ha.
    remember (iter_n LOOP_ITERS (loop_step b) a) as sI eqn:EsI.
    destruct (astmt b sI) as [c'|] eqn:Eb; [|discriminate].
    destruct (aleq c' sI) eqn:El; [|discriminate].
    inversion Ha. subst a'. clear Ha.
    assert (HIs : Inv sI st).
    { eapply Inv_weaker; [|exact HI]. subst sI. apply weaker_iter. }
    apply (loop_sound b sI) with (fuel := fuel) (st := st); [|exact HIs|exact He].
    intros fu s0 s0' r0 HI0 He0.
    destruct (IHb sI c' fu s0 s0' r0 Eb HI0 He0) as [G I1].
    split; [exact G|]. intros Hr.
    eapply Inv_weaker; [apply aleq_weaker; exact El|apply I1; exact Hr].
  - (* SReturn *)
    destruct fuel; simpl in He; inversion He; subst;
      (split; [apply good_refl|discriminate]).
Qed.

End Sound.

(* -------------------------------------------------------- function level *)
(* entry condition: owned parameters point to cells that are not among the
   caller's protected cells [0, n0) *)
Definition entry_ok (n0 : nat) (fn : func) (st : state) : Prop :=
  n0 <= nx st /\
  forall x F, In (x, F) (f_owned fn) ->
    n0 <= env st x < nx st /\
    forall f, In f F -> n0 <= hp st (env st x) f < nx st.

Lemma entry_Inv n0 fn st : entry_ok n0 fn st -> Inv n0 (init_aenv (f_owned fn)) st.
Proof.
  intros [Hn H]. split; [exact Hn|]. intros x F Hx.
  unfold init_aenv in Hx. apply alookup_In in Hx. exact (H x F Hx).
Qed.

Theorem params_preserved_sound fn :
  params_preserved fn = true ->
  forall n0 O fuel st st' r,
    entry_ok n0 fn st -> exec O fuel (f_body fn) st = (st', r) ->
    forall l f, l < n0 -> hp st' l f = hp st l f.
Proof.
  unfold params_preserved. intros Hc n0 O fuel st st' r He Hx.
  destruct (astmt (f_body fn) (init_aenv (f_owned fn))) as [a'|] eqn:Ea;
    [|discriminate].
  destruct (exec_sound n0 O (f_body fn) _ a' fuel st st' r Ea
              (entry_Inv n0 fn st He) Hx) as [[P _] _].
  exact P.
Qed.

(* ------------------------------------------------ reachability, snapshots *)
Inductive reach (h : loc -> field -> loc) (roots : list loc) : loc -> Prop :=
| reach_root l : In l roots -> reach h roots l
| reach_step l f : reach h roots l -> reach h roots (h l f).

Definition closed (h : loc -> field -> loc) (n0 : nat) : Prop :=
  forall l f, l < n0 -> h l f < n0.

Lemma reach_below h roots n0 :
  closed h n0 -> (forall l, In l roots -> l < n0) ->
  forall l, reach h roots l -> l < n0.
Proof.
  intros Hc Hr l H. induction H as [l Hl|l f _ IH]; [apply Hr; exact Hl|].
  apply Hc. exact IH.
Qed.

Lemma reach_same h h' roots n0 :
  closed h n0 -> (forall l, In l roots -> l < n0) ->
  (forall l f, l < n0 -> h' l f = h l f) ->
  forall l, reach h' roots l <-> reach h roots l.
Proof.
  intros Hc Hr He l. split; intros H.
  - induction H as [l Hl|l f Hl IH]; [apply reach_root; exact Hl|].
    rewrite He; [apply reach_step; exact IH|].
    eapply reach_below; eassumption.
  - induction H as [l Hl|l f Hl IH]; [apply reach_root; exact Hl|].
    rewrite <- He; [apply reach_step; exact IH|].
    eapply reach_below; eassumption.
Qed.

Theorem reachable_unchanged fn :
  params_preserved fn = true ->
  forall n0 O fuel st st' r roots,
    entry_ok n0 fn st -> closed (hp st) n0 ->
    (forall l, In l roots -> l < n0) ->
    exec O fuel (f_body fn) st = (st', r) ->
    forall l, reach (hp st) roots l ->
      reach (hp st') roots l /\ forall f, hp st' l f = hp st l f.
Proof.
  intros Hc n0 O fuel st st' r roots He Hcl Hr Hx l Hl.
  pose proof (params_preserved_sound fn Hc n0 O fuel st st' r He Hx) as P.
  split.
  - apply (reach_same (hp st) (hp st') roots n0 Hcl Hr P). exact Hl.
  - intros f. apply P. eapply reach_below; eassumption.
Qed.

(* two calls in a row on the same arguments (any oracles, any fuel): the
   second call starts from argument objects equal to the first call's, and
   leaves them equal again.  The second start state only has to satisfy the
   entry condition again (automatic when the function owns nothing, see
   repeat_call_pure). *)
Theorem repeat_call fn :
  params_preserved fn = true ->
  forall n0 O1 O2 fuel1 fuel2 st st1 r1 st2 r2 c,
    entry_ok n0 fn st ->
    exec O1 fuel1 (f_body fn) st = (st1, r1) ->
    entry_ok n0 fn (mkst (hp st1) (nx st1) (env st) c (dirty st1)) ->
    exec O2 fuel2 (f_body fn) (mkst (hp st1) (nx st1) (env st) c (dirty st1))
      = (st2, r2) ->
    forall l f, l < n0 -> hp st1 l f = hp st l f /\ hp st2 l f = hp st l f.
Proof.
  intros Hc n0 O1 O2 fuel1 fuel2 st st1 r1 st2 r2 c He X1 He2 X2 l f Hl.
  pose proof (params_preserved_sound fn Hc n0 O1 fuel1 st st1 r1 He X1) as P1.
  pose proof (params_preserved_sound fn Hc n0 O2 fuel2 _ st2 r2 He2 X2) as P2.
  split; [apply P1; exact Hl|]. rewrite (P2 l f Hl). simpl. apply P1. exact Hl.
Qed.

Theorem repeat_call_pure fn :
  params_preserved fn = true -> f_owned fn = [] ->
  forall n0 O1 O2 fuel1 fuel2 st st1 r1 st2 r2 c,
    n0 <= nx st ->
    exec O1 fuel1 (f_body fn) st = (st1, r1) ->
    exec O2 fuel2 (f_body fn) (mkst (hp st1) (nx st1) (env st) c (dirty st1))
      = (st2, r2) ->
    forall l f, l < n0 -> hp st1 l f = hp st l f /\ hp st2 l f = hp st l f.
Proof.
  intros Hc Hown n0 O1 O2 fuel1 fuel2 st st1 r1 st2 r2 c Hn X1 X2.
  assert (He : entry_ok n0 fn st).
  { split; [exact Hn|]. rewrite Hown. intros x F H. destruct H. }
  apply (repeat_call fn Hc n0 O1 O2 fuel1 fuel2 st st1 r1 st2 r2 c He X1); [|exact X2].
  split; [|rewrite Hown; intros x F H; destruct H]. simpl.
  unfold params_preserved in Hc.
  destruct (astmt (f_body fn) (init_aenv (f_owned fn))) as [a'|] eqn:Ea; [|discriminate].
  destruct (exec_sound n0 O1 (f_body fn) _ a' fuel1 st st1 r1 Ea
              (entry_Inv n0 fn st He) X1) as [[_ N] _].
  lia.
Qed.

(* the checker rejects a store through / a mutation of an unowned variable *)
Lemma reject_store x f y : astmt (SStore x f y) [] = None.
Proof. reflexivity. Qed.

Lemma reject_mut W x r : aexpr (ECall [(0, W)] r [x]) [] = None.
Proof. reflexivity. Qed.

(* the standard test state satisfies the entry condition and is closed *)
Lemma h0_closed fn : closed h0 (N0 fn).
Proof.
  intros l f Hl. unfold h0, N0 in *. unfold R in *.
  pose proof (Nat.mod_upper_bound (l mod 4 * 3 + String.length f + 1) 4) as Hm.
  pose proof (Nat.div_mod l 4) as Hd.
  assert (l / 4 < S (List.length (f_params fn))).
  { apply Nat.div_lt_upper_bound; lia. }
  lia.
Qed.

(* the computed entry test of the standard state implies entry_ok *)
Lemma st0_entry_sound fn : st0_entry_b fn = true -> entry_ok (N0 fn) fn (st0 fn).
Proof.
  unfold st0_entry_b. rewrite forallb_forall. intros H.
  unfold entry_ok. cbn [nx env hp st0].
  split; [lia|]. intros x F Hx. specialize (H (x, F) Hx).
  cbn [fst snd nx st0] in H. apply andb_true_iff in H. destruct H as [H1 H2].
  apply andb_true_iff in H1. destruct H1 as [Ha Hb].
  apply Nat.leb_le in Ha. apply Nat.ltb_lt in Hb.
  split; [split; [exact Ha|exact Hb]|].
  intros f Hf. rewrite forallb_forall in H2. specialize (H2 f Hf).
  apply andb_true_iff in H2. destruct H2 as [Hc Hd].
  apply Nat.leb_le in Hc. apply Nat.ltb_lt in Hd.
  split; [exact Hc|exact Hd].
Qed.
