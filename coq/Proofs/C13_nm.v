(* C13 for nm_mcsolve: NonMarkovianMCSolver._run_one_traj =
   MCSolver._run_one_traj (the NmMCIntegrator IS the MCIntegrator on the
   Monte-Carlo part of its state: Props/C16_nmint.v C16_nm_integrate_is_mc_integrate)
   followed by  result.trace = [martingale.value(t) for t in tlist],  and the
   stored trace is a function of the trajectory's (time, channel) list, the
   rate functions and the times (C16_nm_trajectory_trace), the rate functions
   and the cache being those of the last-set args for this run's times
   (Props/C13_conf.v C13_trajectory_sees_last_set_values). *)
From Coq Require Import List ZArith Bool Arith Lia.
Import ListNotations.
From QV Require Import Model.C13 Proofs.C13 Proofs.C13_imp.

Section NM.
Variables U T Y TRACE : Type.
Variable zeroU oneU : U.
Variable leU : U -> U -> bool.
Variable ltT : T -> T -> bool.
Variable mix : U -> U -> U.
Variable nchan : nat.
Variable prob : Y -> U.
Variable ode_step : T -> Y -> T -> T * Y.
Variable find : T -> Y -> T -> Y -> U -> U -> U -> option (T * Y).
Variable choose : T -> Y -> U -> nat.
Variable jump : nat -> T -> Y -> option Y.
Variable renorm : Y -> Y.
Variable trace_of : list (T * nat) -> list T -> TRACE.   (* C16_nm_trajectory_trace *)

Notation run_one st := (mc_run_one U T Y st zeroU oneU leU ltT mix nchan prob ode_step find choose jump renorm).

Definition nm_run_one (stream : seedid -> nat -> U) fuel (s : mci U T Y) seed t0 y0 ts nj fl
  : (mc_traj T Y * TRACE) * mci U T Y :=
  let '(tr, s') := run_one stream fuel s seed t0 y0 ts nj fl in
  ((tr, trace_of (tr_coll tr) (t0 :: ts)), s').

Lemma nm_forgets_history stream fuel (s s' : mci U T Y) seed t0 y0 ts nj fl :
  nm_run_one stream fuel s seed t0 y0 ts nj fl = nm_run_one stream fuel s' seed t0 y0 ts nj fl.
Proof.
  unfold nm_run_one.
  now rewrite (mc_run_one_forgets U T Y stream zeroU oneU leU ltT mix nchan prob ode_step find
                 choose jump renorm fuel s s' seed t0 y0 ts nj fl).
Qed.

Lemma nm_reads_only_own_stream st1 st2 fuel (s : mci U T Y) seed t0 y0 ts nj fl :
  (forall k, st1 (sid seed) k = st2 (sid seed) k) ->
  nm_run_one st1 fuel s seed t0 y0 ts nj fl = nm_run_one st2 fuel s seed t0 y0 ts nj fl.
Proof.
  intros H. unfold nm_run_one.
  now rewrite (run_one_local U T Y zeroU oneU leU ltT mix nchan prob ode_step find choose jump
                 renorm st1 st2 (sid seed) H fuel s seed t0 y0 ts nj fl eq_refl).
Qed.
End NM.
