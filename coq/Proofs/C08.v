(* C08 - proofs over the index model (stdlib only). *)
From Coq Require Import List ZArith Bool Arith Lia.
Import ListNotations.
From QV Require Import Model.C08.

(* ------------------------------------------------------------ unravel *)
Lemma unravel_r_step : forall n t i q, i < n ->
  unravel_r (n :: t) (i + n * q) = i :: unravel_r t q.
Proof.
  intros n t i q Hi. simpl. f_equal.
  - rewrite (Nat.mul_comm n q). rewrite Nat.mod_add by lia. apply Nat.mod_small; exact Hi.
  - rewrite (Nat.mul_comm n q). rewrite Nat.div_add by lia.
    rewrite Nat.div_small by exact Hi. reflexivity.
Qed.

(* the literal [s0,s1,s0,s1] / (3,1,2,0) pipeline on digits *)
Lemma shuffle_digits : forall s0 s1 a b c d,
  a < s0 -> b < s1 -> c < s0 -> d < s1 ->
  tr_src shuffle_axes (shuffle_shape s0 s1) (ravel [s1; s1; s0; s0] [d; b; c; a])
  = ravel [s0; s1; s0; s1] [a; b; c; d].
Proof.
  intros s0 s1 a b c d Ha Hb Hc Hd.
  unfold tr_src, shuffle_axes, shuffle_shape, tr_shape, unravel, ravel.
  cbn [map nth rev app length seq ravel_r].
  rewrite (unravel_r_step s0 _ a) by exact Ha.
  rewrite (unravel_r_step s0 _ c) by exact Hc.
  rewrite (unravel_r_step s1 _ b) by exact Hb.
  rewrite (unravel_r_step s1 _ d) by exact Hd.
  reflexivity.
Qed.

(* outer / middle / outer form: the two middle axes stay together *)
Lemma shuffle_mid : forall s0 s1 a d M,
  a < s0 -> d < s1 -> M < s0 * s1 ->
  tr_src shuffle_axes (shuffle_shape s0 s1) ((d * (s0 * s1) + M) * s0 + a)
  = (a * (s0 * s1) + M) * s1 + d.
Proof.
  intros s0 s1 a d M Ha Hd HM.
  assert (Hs0 : s0 <> 0) by lia.
  pose proof (Nat.div_mod M s0 Hs0) as HMd.
  assert (Hc : M mod s0 < s0) by (apply Nat.mod_upper_bound; exact Hs0).
  assert (Hb : M / s0 < s1).
  { apply Nat.div_lt_upper_bound; [exact Hs0|]. exact HM. }
  pose proof (shuffle_digits s0 s1 a (M / s0) (M mod s0) d Ha Hb Hc Hd) as H.
  unfold ravel in H. cbn [rev app ravel_r] in H.
  set (b := M / s0) in *. set (c := M mod s0) in *.
  assert (E1 : (d * (s0 * s1) + M) * s0 + a
               = a + s0 * (c + s0 * (b + s1 * (d + s1 * 0)))).
  { rewrite HMd. ring. }
  assert (E2 : (a * (s0 * s1) + M) * s1 + d
               = d + s1 * (c + s0 * (b + s1 * (a + s0 * 0)))).
  { rewrite HMd. ring. }
  rewrite E1, E2. exact H.
Qed.

(* --------------------------------------------------------- list lemmas *)
Lemma nth_map_seq : forall {T} (f : nat -> T) L g d, g < L ->
  nth g (map f (seq 0 L)) d = f g.
Proof.
  intros T f L g d Hg.
  rewrite (nth_indep _ d (f 0)) by (rewrite map_length, seq_length; exact Hg).
  rewrite map_nth. rewrite seq_nth by exact Hg. reflexivity.
Qed.

Lemma np_transpose_length : forall {T} (dflt : T) axes shape data,
  length (np_transpose dflt axes shape data) = length data.
Proof. intros. unfold np_transpose. rewrite map_length, seq_length. reflexivity. Qed.

Lemma np_transpose_nth : forall {T} (dflt : T) axes shape data g, g < length data ->
  nth g (np_transpose dflt axes shape data) dflt = nth (tr_src axes shape g) data dflt.
Proof.
  intros T dflt axes shape data g H. unfold np_transpose.
  apply (nth_map_seq (fun k => nth (tr_src axes shape k) data dflt)). exact H.
Qed.

(* ------------------------------------------------- entries of the shuffle *)
(* super -> choi reading: m = out, n = in.  J[(i,a),(j,b)] = S[(b,a),(j,i)] *)
Lemma shuffle_entries : forall {T} (dflt : T) m n (data : list T) a b i j,
  a < m -> b < m -> i < n -> j < n -> length data = m * n * m * n ->
  nth ((i * m + a) * (n * m) + (j * m + b))
      (np_transpose dflt shuffle_axes (shuffle_shape m n) data) dflt
  = nth ((b * m + a) * (n * n) + (j * n + i)) data dflt.
Proof.
  intros T dflt m n data a b i j Ha Hb Hi Hj HL.
  assert (HM : a * n + j < m * n) by nia.
  assert (Hg : (i * m + a) * (n * m) + (j * m + b) < length data).
  { rewrite HL. nia. }
  rewrite np_transpose_nth by exact Hg.
  replace ((i * m + a) * (n * m) + (j * m + b))
    with ((i * (m * n) + (a * n + j)) * m + b) by ring.
  rewrite (shuffle_mid m n b i (a * n + j) Hb Hi HM).
  f_equal. ring.
Qed.

(* decomposition of a flat index as outer / middle / outer *)
Lemma decompose_omo : forall s P t g, s <> 0 -> P <> 0 -> g < t * P * s ->
  exists a M d, a < s /\ M < P /\ d < t /\ g = (d * P + M) * s + a.
Proof.
  intros s P t g Hs HP Hg.
  exists (g mod s), ((g / s) mod P), ((g / s) / P).
  assert (H1 : g mod s < s) by (apply Nat.mod_upper_bound; exact Hs).
  assert (H2 : (g / s) mod P < P) by (apply Nat.mod_upper_bound; exact HP).
  assert (H3 : g / s < t * P).
  { apply Nat.div_lt_upper_bound; [exact Hs|]. lia. }
  assert (H4 : g / s / P < t).
  { apply Nat.div_lt_upper_bound; [exact HP|]. lia. }
  pose proof (Nat.div_mod g s Hs) as E1.
  pose proof (Nat.div_mod (g / s) P HP) as E2.
  repeat split; try assumption.
  rewrite (Nat.mul_comm (g / s / P) P). rewrite <- E2. lia.
Qed.

Lemma list_ext_nth : forall {T} (d : T) (l1 l2 : list T),
  length l1 = length l2 -> (forall g, g < length l1 -> nth g l1 d = nth g l2 d) -> l1 = l2.
Proof.
  intros T d l1. induction l1 as [|x l1 IH]; intros [|y l2] HL H; simpl in HL; try discriminate.
  - reflexivity.
  - f_equal.
    + apply (H 0). simpl. lia.
    + apply IH; [lia|]. intros g Hg. apply (H (S g)). simpl. lia.
Qed.

(* the reshuffle is an involution on the data, for every pair of sizes *)
Lemma shuffle_involution : forall {T} (dflt : T) s0 s1 (data : list T),
  length data = s0 * s1 * s0 * s1 ->
  np_transpose dflt shuffle_axes (shuffle_shape s1 s0)
    (np_transpose dflt shuffle_axes (shuffle_shape s0 s1) data) = data.
Proof.
  intros T dflt s0 s1 data HL.
  apply (list_ext_nth dflt).
  - rewrite !np_transpose_length. reflexivity.
  - intros g Hg. rewrite !np_transpose_length in Hg.
    rewrite np_transpose_nth by (rewrite np_transpose_length; exact Hg).
    destruct (Nat.eq_dec s0 0) as [Z0|N0]; [subst; simpl in HL; lia|].
    destruct (Nat.eq_dec s1 0) as [Z1|N1]; [subst; rewrite Nat.mul_0_r in HL; simpl in HL; lia|].
    assert (HP : s1 * s0 <> 0) by nia.
    assert (Hg' : g < s0 * (s1 * s0) * s1) by (rewrite HL in Hg; nia).
    destruct (decompose_omo s1 (s1 * s0) s0 g N1 HP Hg') as (a' & M & d' & Ha & HM & Hd & E).
    subst g.
    rewrite (shuffle_mid s1 s0 a' d' M Ha Hd HM).
    assert (Hsrc : (a' * (s1 * s0) + M) * s0 + d' < length data) by (rewrite HL; nia).
    rewrite np_transpose_nth by exact Hsrc.
    replace ((a' * (s1 * s0) + M) * s0 + d') with ((a' * (s0 * s1) + M) * s0 + d') by ring.
    assert (HM' : M < s0 * s1) by lia.
    rewrite (shuffle_mid s0 s1 d' a' M Hd Ha HM').
    f_equal. ring.
Qed.

(* -------------------------------------------------- Qobj-level involution *)
Lemma prodl_app : forall l1 l2, prodl (l1 ++ l2) = prodl l1 * prodl l2.
Proof.
  induction l1 as [|x l1 IH]; intros l2; simpl.
  - lia.
  - rewrite IH. ring.
Qed.

Lemma flip_flip : forall r, r <> Chi -> flip_rep (flip_rep r) = r.
Proof. intros [| |] H; try reflexivity. congruence. Qed.

Lemma tofrom_ok_inv : forall {T} (dflt : T) q q1,
  super_tofrom_choi dflt q = Ok q1 ->
  s_rep q <> Chi /\
  length (s_data q) = shuffle_s0 (s_dims q) * shuffle_s1 (s_dims q)
                      * shuffle_s0 (s_dims q) * shuffle_s1 (s_dims q) /\
  length (s_data q) = sdims_d0 (shuffle_new_dims (s_dims q)) * sdims_d1 (shuffle_new_dims (s_dims q)) /\
  q1 = mkS (np_transpose dflt shuffle_axes
              (shuffle_shape (shuffle_s0 (s_dims q)) (shuffle_s1 (s_dims q))) (s_data q))
           (shuffle_new_dims (s_dims q)) (flip_rep (s_rep q)).
Proof.
  intros T dflt q q1 H. unfold super_tofrom_choi in H.
  destruct (s_rep q) eqn:Er; try discriminate.
  - destruct (length (s_data q) =? _) eqn:E1 in H; simpl in H; try discriminate.
    destruct (length (s_data q) =? _) eqn:E2 in H; simpl in H; try discriminate.
    apply Nat.eqb_eq in E1. apply Nat.eqb_eq in E2.
    inversion H. repeat split; try assumption. congruence.
  - destruct (length (s_data q) =? _) eqn:E1 in H; simpl in H; try discriminate.
    destruct (length (s_data q) =? _) eqn:E2 in H; simpl in H; try discriminate.
    apply Nat.eqb_eq in E1. apply Nat.eqb_eq in E2.
    inversion H. repeat split; try assumption. congruence.
Qed.

Lemma tofrom_involution : forall {T} (dflt : T) q q1,
  super_tofrom_choi dflt q = Ok q1 -> super_tofrom_choi dflt q1 = Ok q.
Proof.
  intros T dflt q q1 H.
  destruct (tofrom_ok_inv dflt q q1 H) as (Hr & HL & HD & E).
  destruct q as [data [[a b] [c d]] r]. simpl in *.
  subst q1. unfold super_tofrom_choi. simpl.
  assert (Hr' : flip_rep r <> Chi) by (destruct r; simpl; congruence).
  rewrite np_transpose_length.
  rewrite !prodl_app in HD. rewrite !prodl_app.
  assert (E1 : length data = prodl d * prodl a * prodl d * prodl a) by (rewrite HL; ring).
  assert (E2 : length data = prodl a * prodl b * (prodl c * prodl d)) by (rewrite HD; ring).
  apply Nat.eqb_eq in E1. apply Nat.eqb_eq in E2.
  destruct r; try congruence; simpl; rewrite E1, E2; simpl;
    rewrite shuffle_involution by exact HL; reflexivity.
Qed.

(* error branches *)
Lemma tofrom_chi_error : forall {T} (dflt : T) q, s_rep q = Chi ->
  super_tofrom_choi dflt q = ValueError.
Proof. intros T dflt q H. unfold super_tofrom_choi. rewrite H. reflexivity. Qed.

Lemma tofrom_size_error : forall {T} (dflt : T) q,
  length (s_data q) <> shuffle_s0 (s_dims q) * shuffle_s1 (s_dims q)
                       * shuffle_s0 (s_dims q) * shuffle_s1 (s_dims q) ->
  super_tofrom_choi dflt q = ValueError.
Proof.
  intros T dflt q H. unfold super_tofrom_choi.
  apply Nat.eqb_neq in H. destruct (s_rep q); try reflexivity; rewrite H; reflexivity.
Qed.

(* ------------------------------------------------------------- mbuild *)
Lemma mbuild_rows : forall nc (f : nat -> nat -> GZ) nr s r c, r < nr -> c < nc ->
  nth (r * nc + c) (flat_map (fun r => map (fun c => f r c) (seq 0 nc)) (seq s nr)) g0
  = f (s + r) c.
Proof.
  intros nc f nr. induction nr as [|nr IH]; intros s r c Hr Hc; [lia|].
  simpl. destruct r as [|r].
  - simpl. rewrite app_nth1 by (rewrite map_length, seq_length; exact Hc).
    rewrite nth_map_seq by exact Hc. f_equal. lia.
  - rewrite app_nth2 by (rewrite map_length, seq_length; simpl; lia).
    rewrite map_length, seq_length.
    replace (S r * nc + c - nc) with (r * nc + c) by (simpl; lia).
    rewrite IH by lia. f_equal. lia.
Qed.

Lemma mbuild_get : forall nr nc f r c, r < nr -> c < nc ->
  mget (mbuild nr nc f) nc r c = f r c.
Proof. intros. unfold mget, mbuild. rewrite mbuild_rows by assumption. reflexivity. Qed.

Lemma mbuild_length_s : forall nc (f : nat -> nat -> GZ) nr s,
  length (flat_map (fun r => map (fun c => f r c) (seq 0 nc)) (seq s nr)) = nr * nc.
Proof.
  intros nc f nr. induction nr as [|nr IH]; intros s; simpl; [reflexivity|].
  rewrite app_length, map_length, seq_length, IH. reflexivity.
Qed.

Lemma mbuild_length : forall nr nc f, length (mbuild nr nc f) = nr * nc.
Proof. intros. unfold mbuild. apply mbuild_length_s. Qed.

Lemma divmod_pair : forall m i a, a < m -> (i * m + a) / m = i /\ (i * m + a) mod m = a.
Proof.
  intros m i a Ha. split.
  - rewrite Nat.add_comm. rewrite Nat.div_add by lia. rewrite Nat.div_small by exact Ha. reflexivity.
  - rewrite Nat.add_comm. rewrite Nat.mod_add by lia. apply Nat.mod_small. exact Ha.
Qed.

(* ----------------------------------------------------- kraus_to_choi *)
Lemma vecF_entry : forall K i a, a < o_m K ->
  vecF K (i * o_m K + a) = mget (o_data K) (o_n K) a i.
Proof.
  intros K i a Ha. unfold vecF.
  destruct (divmod_pair (o_m K) i a Ha) as [E1 E2]. rewrite E1, E2. reflexivity.
Qed.

Lemma kraus_entries : forall Ks J m n a b i j,
  Ks <> [] -> (forall K, In K Ks -> o_m K = m /\ o_n K = n) ->
  kraus_to_choi Ks = Ok J ->
  a < m -> b < m -> i < n -> j < n ->
  mget (s_data J) (m * n) (i * m + a) (j * m + b)
  = gsum (map (fun K => gmul (mget (o_data K) n a i) (gconj (mget (o_data K) n b j))) Ks).
Proof.
  intros Ks J m n a b i j Hne Hall H Ha Hb Hi Hj.
  destruct Ks as [|K0 Ks']; [congruence|].
  unfold kraus_to_choi in H.
  destruct (negb _) eqn:Eg in H; try discriminate.
  inversion H as [HJ]. clear H HJ. cbn [s_data].
  destruct (Hall K0 (or_introl eq_refl)) as [Em En]. rewrite Em, En.
  rewrite mbuild_get by nia.
  assert (Hone : forall K, In K (K0 :: Ks') ->
            gmul (vecF K (i * m + a)) (gconj (vecF K (j * m + b)))
            = gmul (mget (o_data K) n a i) (gconj (mget (o_data K) n b j))).
  { intros K HK. destruct (Hall K HK) as [Em' En'].
    replace (i * m + a) with (i * o_m K + a) by (rewrite Em'; reflexivity).
    replace (j * m + b) with (j * o_m K + b) by (rewrite Em'; reflexivity).
    rewrite !vecF_entry by (rewrite Em'; assumption).
    rewrite En'. reflexivity. }
  change (gsum (map (fun K => gmul (vecF K (i * m + a)) (gconj (vecF K (j * m + b)))) (K0 :: Ks'))
          = gsum (map (fun K => gmul (mget (o_data K) n a i) (gconj (mget (o_data K) n b j)))
                      (K0 :: Ks'))).
  f_equal. apply map_ext_in. exact Hone.
Qed.

Lemma kraus_labels : forall K0 Ks J, kraus_to_choi (K0 :: Ks) = Ok J ->
  s_dims J = ((o_dr K0, o_dl K0), (o_dr K0, o_dl K0)) /\ s_rep J = Choi.
Proof.
  intros K0 Ks J H. unfold kraus_to_choi in H.
  destruct (negb _) in H; try discriminate. inversion H. split; reflexivity.
Qed.

(* ------------------------------------------- to_choi of a plain operator *)
Lemma gmul_comm : forall x y, gmul x y = gmul y x.
Proof. intros [a b] [c d]. unfold gmul. simpl. f_equal; ring. Qed.

Lemma to_choi_oper_entries : forall A J a b i j,
  o_dl A = [o_m A] -> o_dr A = [o_n A] -> 1 < o_m A -> 1 < o_n A ->
  to_choi (QOper A) = Ok J ->
  a < o_m A -> b < o_m A -> i < o_n A -> j < o_n A ->
  mget (s_data J) (o_n A * o_m A) (i * o_m A + a) (j * o_m A + b)
  = gmul (mget (o_data A) (o_n A) a i) (gconj (mget (o_data A) (o_n A) b j))
  /\ s_dims J = ((o_dr A, o_dl A), (o_dr A, o_dl A)) /\ s_rep J = Choi.
Proof.
  intros A J a b i j Hdl Hdr Hm Hn H Ha Hb Hi Hj.
  unfold to_choi, sprepost_dag in H. rewrite Hdl, Hdr in H |- *.
  set (m := o_m A) in *. set (n := o_n A) in *.
  assert (Em : (m =? 1) = false) by (apply Nat.eqb_neq; lia).
  assert (En : (n =? 1) = false) by (apply Nat.eqb_neq; lia).
  unfold drop1 in H. cbn [filter] in H. rewrite Em, En in H.
  cbn [negb is_nil orb rbind] in H.
  assert (P1 : forall x, prodl [x] = x) by (intro x; simpl; lia).
  destruct (tofrom_ok_inv g0 _ _ H) as (_ & HL & _ & EJ).
  cbn [s_data s_dims s_rep shuffle_s0 shuffle_s1 shuffle_new_dims flip_rep] in EJ, HL.
  rewrite !P1 in EJ. subst J. cbn [s_data s_dims s_rep].
  split; [|split; reflexivity].
  unfold mget at 1.
  rewrite (shuffle_entries g0 m n _ a b i j Ha Hb Hi Hj)
    by (rewrite mbuild_length; ring).
  match goal with |- nth ?k (mbuild ?nr ?nc ?f) g0 = _ =>
    change (mget (mbuild nr nc f) (n * n) (b * m + a) (j * n + i) = 
            gmul (mget (o_data A) n a i) (gconj (mget (o_data A) n b j))) end.
  rewrite mbuild_get by nia.
  destruct (divmod_pair m b a Ha) as [E1 E2]. destruct (divmod_pair n j i Hi) as [E3 E4].
  rewrite E1, E2, E3, E4. apply gmul_comm.
Qed.

(* ------------------------- kraus_to_choi [A] and to_choi A are one object *)
Lemma gadd_0_r : forall x, gadd x g0 = x.
Proof. intros [a b]. unfold gadd, g0. simpl. f_equal; ring. Qed.

Lemma to_choi_oper_length : forall A J,
  o_dl A = [o_m A] -> o_dr A = [o_n A] -> 1 < o_m A -> 1 < o_n A ->
  to_choi (QOper A) = Ok J -> length (s_data J) = (o_n A * o_m A) * (o_n A * o_m A).
Proof.
  intros A J Hdl Hdr Hm Hn H.
  unfold to_choi, sprepost_dag in H. rewrite Hdl, Hdr in H.
  set (m := o_m A) in *. set (n := o_n A) in *.
  assert (Em : (m =? 1) = false) by (apply Nat.eqb_neq; lia).
  assert (En : (n =? 1) = false) by (apply Nat.eqb_neq; lia).
  unfold drop1 in H. cbn [filter] in H. rewrite Em, En in H.
  cbn [negb is_nil orb rbind] in H.
  destruct (tofrom_ok_inv g0 _ _ H) as (_ & _ & _ & EJ).
  subst J. cbn [s_data]. rewrite np_transpose_length, mbuild_length. ring.
Qed.

Lemma kraus_single_eq_to_choi : forall A J Jk,
  o_dl A = [o_m A] -> o_dr A = [o_n A] -> 1 < o_m A -> 1 < o_n A ->
  to_choi (QOper A) = Ok J -> kraus_to_choi [A] = Ok Jk -> Jk = J.
Proof.
  intros A J Jk Hdl Hdr Hm Hn HJ HK.
  pose proof (to_choi_oper_length A J Hdl Hdr Hm Hn HJ) as HLJ.
  destruct (kraus_labels A [] Jk HK) as [Dk Rk].
  assert (H0m : 0 < o_m A) by lia. assert (H0n : 0 < o_n A) by lia.
  destruct (to_choi_oper_entries A J 0 0 0 0 Hdl Hdr Hm Hn HJ H0m H0m H0n H0n) as (_ & DJ & RJ).
  assert (HLk : length (s_data Jk) = (o_m A * o_n A) * (o_m A * o_n A)).
  { unfold kraus_to_choi in HK. destruct (negb _) in HK; try discriminate.
    inversion HK. cbn [s_data]. apply mbuild_length. }
  set (m := o_m A) in *. set (n := o_n A) in *.
  assert (Edata : s_data Jk = s_data J).
  { apply (list_ext_nth g0); [rewrite HLk, HLJ; ring|].
    intros g Hg. rewrite HLk in Hg.
    assert (Hmn : m * n <> 0) by nia. assert (Hm0 : m <> 0) by lia.
    set (r := g / (m * n)). set (c := g mod (m * n)).
    assert (Hr : r < n * m).
    { unfold r. apply Nat.div_lt_upper_bound; [exact Hmn|]. nia. }
    assert (Hc : c < n * m).
    { unfold c. pose proof (Nat.mod_upper_bound g (m * n) Hmn). lia. }
    assert (Eg : g = r * (m * n) + c).
    { unfold r, c. pose proof (Nat.div_mod g (m * n) Hmn). lia. }
    set (i := r / m). set (a := r mod m). set (j := c / m). set (b := c mod m).
    assert (Er : r = i * m + a).
    { unfold i, a. pose proof (Nat.div_mod r m Hm0). lia. }
    assert (Ec : c = j * m + b).
    { unfold j, b. pose proof (Nat.div_mod c m Hm0). lia. }
    assert (Ha : a < m) by (unfold a; apply Nat.mod_upper_bound; exact Hm0).
    assert (Hb : b < m) by (unfold b; apply Nat.mod_upper_bound; exact Hm0).
    assert (Hi : i < n).
    { unfold i. apply Nat.div_lt_upper_bound; [exact Hm0|]. lia. }
    assert (Hj : j < n).
    { unfold j. apply Nat.div_lt_upper_bound; [exact Hm0|]. lia. }
    assert (Hall : forall K, In K [A] -> o_m K = m /\ o_n K = n).
    { intros K [<-|[]]. split; reflexivity. }
    assert (Hne : [A] <> []) by discriminate.
    pose proof (kraus_entries [A] Jk m n a b i j Hne Hall HK Ha Hb Hi Hj) as E1.
    destruct (to_choi_oper_entries A J a b i j Hdl Hdr Hm Hn HJ Ha Hb Hi Hj) as (E2 & _ & _).
    fold m n in E2. unfold mget in E1, E2. cbn [map gsum fold_right] in E1.
    rewrite gadd_0_r in E1.
    replace g with ((i * m + a) * (m * n) + (j * m + b)) at 1 by (rewrite Eg, Er, Ec; reflexivity).
    rewrite E1.
    replace g with ((i * m + a) * (n * m) + (j * m + b)) by (rewrite Eg, Er, Ec; ring).
    rewrite E2. reflexivity. }
  destruct J as [dJ dmJ rJ]. destruct Jk as [dK dmK rK]. simpl in *.
  subst. reflexivity.
Qed.
