From Coq Require Import List ZArith QArith Qcanon Bool Arith Lia.
Import ListNotations.
From QV Require Import Model.C15 Proofs.C15 Model.C15_tt.
Local Open Scope Qc_scope.

Lemma qmax_l a b : a <= qmax a b.
Proof. unfold qmax. destruct (Qclt_le_dec a b); [apply Qclt_le_weak; assumption|apply Qcle_refl]. Qed.
Lemma qmax_r a b : b <= qmax a b.
Proof. unfold qmax. destruct (Qclt_le_dec a b); [apply Qcle_refl|assumption]. Qed.
Lemma qmax_cases a b : qmax a b = a \/ qmax a b = b.
Proof. unfold qmax. destruct (Qclt_le_dec a b); auto. Qed.

Lemma fold_max_spec r : forall acc,
  acc <= fold_left qmax r acc /\ (forall x, In x r -> x <= fold_left qmax r acc) /\
  (fold_left qmax r acc = acc \/ In (fold_left qmax r acc) r).
Proof.
  induction r as [|y r IH]; intros acc; simpl.
  - split; [apply Qcle_refl|split; [tauto|auto]].
  - destruct (IH (qmax acc y)) as (A & B & C). split; [|split].
    + eapply Qcle_trans; [apply qmax_l|exact A].
    + intros x [->|Hx]; [eapply Qcle_trans; [apply qmax_r|exact A]|apply B; assumption].
    + destruct C as [C|C]; [|auto]. rewrite C. destruct (qmax_cases acc y) as [E|E]; rewrite E; auto.
Qed.

Lemma vmaxQ_ge v x : In x v -> x <= vmaxQ v.
Proof.
  destruct v as [|y r]; simpl; [tauto|]. destruct (fold_max_spec r y) as (A & B & _).
  intros [->|H]; [assumption|apply B; assumption].
Qed.

Lemma vmaxQ_in v : v <> [] -> In (vmaxQ v) v.
Proof.
  destruct v as [|y r]; [congruence|]. intros _. simpl.
  destruct (fold_max_spec r y) as (_ & _ & [C|C]); [left; symmetry; assumption|right; assumption].
Qed.

Lemma qmin_cases a b : (qmin a b = b /\ b < a) \/ (qmin a b = a /\ a <= b).
Proof. unfold qmin. destruct (Qclt_le_dec b a); auto. Qed.

Lemma qmin_le_r a b : qmin a b <= b.
Proof. destruct (qmin_cases a b) as [[-> _]|[-> H]]; [apply Qcle_refl|assumption]. Qed.

Lemma QcN_lt a b : (a < b)%nat -> QcN a < QcN b.
Proof.
  intros H. unfold Qclt, QcN. cbn [this Q2Qc]. rewrite !Qred_correct.
  unfold Qlt, inject_Z. simpl. lia.
Qed.

Lemma pos_diff a b : a < b -> 0 < b - a.
Proof. intros H. apply Qclt_minus_iff in H. exact H. Qed.

(* ---- the three regimes *)
Lemma tt_ntraj i : (tt_target i <= tt_num i)%nat -> tt_end i = (TVal 0, 1%Z).
Proof. intros H. unfold tt_end. apply Nat.leb_le in H. rewrite H. reflexivity. Qed.

Lemma tt_too_few i : (tt_num i < tt_target i)%nat -> (tt_num i <= 1)%nat -> tt_end i = (TInf, 0%Z).
Proof.
  intros H1 H2. unfold tt_end.
  assert (E1 : (tt_target i <=? tt_num i)%nat = false) by (apply Nat.leb_gt; lia).
  apply Nat.leb_le in H2. rewrite E1, H2. reflexivity.
Qed.

Definition tt_est (i : ttin) : Qc :=
  qmin (vmaxQ (tt_ratio i) + 1 - QcN (tt_num i)) (QcN (tt_target i) - QcN (tt_num i)).

Lemma tt_value i : (tt_num i < tt_target i)%nat -> (2 <= tt_num i)%nat ->
  tt_end i = (TVal (tt_est i), if Qclt_le_dec 0 (tt_est i) then 0%Z else 2%Z).
Proof.
  intros H1 H2. unfold tt_end, tt_est.
  assert (E1 : (tt_target i <=? tt_num i)%nat = false) by (apply Nat.leb_gt; lia).
  assert (E2 : (tt_num i <=? 1)%nat = false) by (apply Nat.leb_gt; lia).
  rewrite E1, E2. reflexivity.
Qed.

Lemma le_shift r M c : r <= M -> M + c <= 0 -> r + c <= 0.
Proof. intros H1 H2. eapply Qcle_trans; [apply Qcplus_le_compat; [exact H1|apply Qcle_refl]|exact H2]. Qed.

(* soundness: an end signalled before ntraj means at least two trajectories
   and the criterion std_k / target_k^2 + 1 <= N for every component *)
Lemma tt_sound i e : fst (tt_end i) = TVal e -> e <= 0 -> (tt_num i < tt_target i)%nat ->
  (2 <= tt_num i)%nat /\ snd (tt_end i) = 2%Z /\
  forall r, In r (tt_ratio i) -> r + (1 - QcN (tt_num i)) <= 0.
Proof.
  intros He Hle Hlt.
  destruct (le_lt_dec (tt_num i) 1) as [H1|H1].
  { rewrite (tt_too_few i Hlt H1) in He. discriminate. }
  assert (H2 : (2 <= tt_num i)%nat) by lia. split; [assumption|].
  rewrite (tt_value i Hlt H2) in *. simpl in *. injection He as <-.
  split.
  - destruct (Qclt_le_dec 0 (tt_est i)) as [P|P]; [|reflexivity].
    exfalso. apply (Qcle_not_lt _ _ Hle). assumption.
  - pose proof (pos_diff _ _ (QcN_lt _ _ Hlt)) as Pos.
    unfold tt_est in Hle.
    destruct (qmin_cases (vmaxQ (tt_ratio i) + 1 - QcN (tt_num i)) (QcN (tt_target i) - QcN (tt_num i)))
      as [[E _]|[E _]]; rewrite E in Hle.
    + exfalso. apply (Qcle_not_lt _ _ Hle). assumption.
    + intros r Hr. apply (le_shift r (vmaxQ (tt_ratio i))); [apply vmaxQ_ge; assumption|].
      replace (vmaxQ (tt_ratio i) + (1 - QcN (tt_num i))) with (vmaxQ (tt_ratio i) + 1 - QcN (tt_num i)) by ring.
      assumption.
Qed.

(* completeness: when the criterion holds for every component the end is signalled *)
Lemma tt_complete i : (tt_num i < tt_target i)%nat -> (2 <= tt_num i)%nat -> tt_ratio i <> [] ->
  (forall r, In r (tt_ratio i) -> r + (1 - QcN (tt_num i)) <= 0) ->
  exists e, tt_end i = (TVal e, 2%Z) /\ e <= 0.
Proof.
  intros Hlt H2 Hne Hall. rewrite (tt_value i Hlt H2).
  assert (Hx : vmaxQ (tt_ratio i) + 1 - QcN (tt_num i) <= 0).
  { replace (vmaxQ (tt_ratio i) + 1 - QcN (tt_num i)) with (vmaxQ (tt_ratio i) + (1 - QcN (tt_num i))) by ring.
    apply Hall. apply vmaxQ_in. assumption. }
  assert (He : tt_est i <= 0).
  { unfold tt_est.
    destruct (qmin_cases (vmaxQ (tt_ratio i) + 1 - QcN (tt_num i)) (QcN (tt_target i) - QcN (tt_num i)))
      as [[E L]|[E _]]; rewrite E; [|assumption].
    eapply Qcle_trans; [apply Qclt_le_weak; exact L|assumption]. }
  exists (tt_est i). split; [|assumption].
  destruct (Qclt_le_dec 0 (tt_est i)) as [P|P]; [|reflexivity].
  exfalso. apply (Qcle_not_lt _ _ He). assumption.
Qed.

(* the estimate never exceeds what is left up to ntraj *)
Lemma tt_at_most_ntraj i e : fst (tt_end i) = TVal e -> (tt_num i < tt_target i)%nat ->
  e <= QcN (tt_target i) - QcN (tt_num i).
Proof.
  intros He Hlt. destruct (le_lt_dec (tt_num i) 1) as [H1|H1].
  { rewrite (tt_too_few i Hlt H1) in He. discriminate. }
  rewrite (tt_value i Hlt) in He by lia. simpl in He. injection He as <-. apply qmin_le_r.
Qed.

(* the components of the criterion *)
Lemma map2_In {A B C} (f : A -> B -> C) l m x : In x (map2 f l m) -> exists a b, In a l /\ In b m /\ x = f a b.
Proof.
  revert m. induction l as [|a l IH]; intros [|b m] H; simpl in H; try tauto.
  destruct H as [<-|H]; [exists a, b; simpl; auto|].
  destruct (IH m H) as (a' & b' & A1 & B1 & E). exists a', b'. simpl. auto.
Qed.

(* zero spread (e.g. identical trajectories): the end is signalled as soon as
   there are two trajectories *)
Lemma tt_zero_spread i : (tt_num i < tt_target i)%nat -> (2 <= tt_num i)%nat -> tt_ratio i <> [] ->
  (forall s, In s (tt_std i) -> s = 0) -> exists e, tt_end i = (TVal e, 2%Z) /\ e <= 0.
Proof.
  intros Hlt H2 Hne Hz. apply tt_complete; auto.
  intros r Hr. unfold tt_ratio in Hr. apply map2_In in Hr. destruct Hr as (s & t & Hs & _ & ->).
  rewrite (Hz s Hs). rewrite Qcdiv_0_l.
  assert (L : QcN 1 <= QcN (tt_num i)).
  { destruct (Nat.eq_dec (tt_num i) 1) as [->|]; [apply Qcle_refl|]. apply Qclt_le_weak, QcN_lt. lia. }
  rewrite QcN_1 in L. apply Qcle_minus_iff in L.
  replace (0 + (1 - QcN (tt_num i))) with (- (QcN (tt_num i) + - (1))) by ring.
  apply Qcopp_le_compat in L. replace (- 0) with 0 in L by ring. exact L.
Qed.

(* deterministic trajectories: the second moment is scaled by one minus their total weight *)
Lemma tt_one_spec i :
  (pysum (tt_wdet i) 0 = 0 -> tt_one i = 1) /\
  (pysum (tt_wdet i) 0 <> 0 -> tt_one i = 1 - pysum (tt_wdet i) 0).
Proof.
  unfold tt_one. split; intros H.
  - rewrite H. reflexivity.
  - destruct (Qc_eq_bool (pysum (tt_wdet i) 0) 0) eqn:E; [|reflexivity].
    apply Qc_eq_bool_correct in E. contradiction.
Qed.

Lemma tt_std_In i s : In s (tt_std i) ->
  exists a2 a, In a2 (tt_avg2 i) /\ In a (tt_avg i) /\ s = a2 * tt_one i - Qcabs a * Qcabs a.
Proof. unfold tt_std. apply map2_In. Qed.
