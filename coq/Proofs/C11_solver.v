(* C11 - proofs about the Solver call-protocol model. *)
From Coq Require Import List ZArith Bool Arith Lia.
Require Import ZifyBool.
Import ListNotations.
From QV Require Import Model.C11_solver.
Open Scope Z_scope.

(* value a dictionary (list of unique keys) assigns to a key *)
Fixpoint dfind (k : nat) (d : list (nat * option Z)) : option (option Z) :=
  match d with
  | [] => None
  | (k', v) :: r => if Nat.eqb k k' then Some v else dfind k r
  end.

Lemma last_cons_default {T} (l : list T) : forall a d1 d2, last (a :: l) d1 = last (a :: l) d2.
Proof.
  induction l as [|b l IH]; intros a d1 d2; [reflexivity|].
  change (last (b :: l) d1 = last (b :: l) d2). apply IH.
Qed.

Lemma find_app k a b :
  find k (a ++ b) = match find k a with Some v => Some v | None => find k b end.
Proof.
  induction a as [|[k' v] a IH]; simpl; [reflexivity|].
  destruct (Nat.eqb k k'); [reflexivity|exact IH].
Qed.

Lemma find_filter k (f : nat -> bool) o :
  find k (filter (fun p => f (fst p)) o) = if f k then find k o else None.
Proof.
  induction o as [|[k' v] o IH]; simpl; [destruct (f k); reflexivity|].
  destruct (f k') eqn:Ef; simpl.
  - destruct (Nat.eqb k k') eqn:E; [apply Nat.eqb_eq in E; subst; rewrite Ef; reflexivity|exact IH].
  - destruct (Nat.eqb k k') eqn:E; [apply Nat.eqb_eq in E; subst; rewrite Ef in IH; rewrite Ef; exact IH|exact IH].
Qed.

Lemma dfind_notin k d : ~ In k (map fst d) -> dfind k d = None.
Proof.
  induction d as [|[k' v] d IH]; simpl; intros H; [reflexivity|].
  destruct (Nat.eqb k k') eqn:E; [apply Nat.eqb_eq in E; subst; exfalso; apply H; left; reflexivity|].
  apply IH. intros Hin. apply H. right. exact Hin.
Qed.

Lemma existsb_eqb0 keys : existsb (Nat.eqb 0) keys = true <-> In 0%nat keys.
Proof.
  rewrite existsb_exists. split.
  - intros (x & Hx & E). apply Nat.eqb_eq in E. subst. exact Hx.
  - intros H. exists 0%nat. split; [exact H|reflexivity].
Qed.

Section SolverProofs.
  Variables (X A : Type) (skey : nat -> bool) (sdflt : nat -> Z)
            (supports : nat -> nat -> bool) (dflt : nat -> nat -> Z)
            (valid_m : Z -> bool) (nkeys : nat)
            (flow : nat -> (nat -> Z) -> A -> Z -> Z -> X -> X).
  (* "method" is a solver-level key; integrator options are not *)
  Hypothesis skey0 : skey 0 = true.
  Hypothesis supp_not_skey : forall m k, supports m k = true -> skey k = false.
  (* an integrator only depends on its own options *)
  Hypothesis flow_ext : forall m f g a t t' x,
    (forall k, supports m k = true -> f k = g k) -> flow m f a t t' x = flow m g a t t' x.

  Notation meth := (meth sdflt).
  Notation look := (look skey sdflt dflt).
  Notation valof := (valof skey sdflt dflt).
  Notation solv := (solv X A).
  Notation new_solver := (new_solver skey sdflt dflt).
  Notation new_ode := (new_ode skey sdflt dflt).
  Notation set_options := (set_options X A skey sdflt supports dflt valid_m nkeys).
  Notation set_item := (set_item X A skey sdflt supports dflt valid_m nkeys).
  Notation rebuild := (rebuild X A skey sdflt supports dflt nkeys).
  Notation reset_hard := (reset_hard X A skey sdflt supports dflt nkeys).
  Notation apply_keys := (apply_keys X A skey sdflt supports dflt nkeys).

  (* ---- the two parse passes keep exactly the values that change ---- *)
  Lemma find_new_solver o d k : NoDup (map fst d) ->
    find k (new_solver o d) =
    match dfind k d with
    | Some v => if skey k then
                  (if valof (meth o) k v =? look o k then None else Some (valof (meth o) k v))
                else None
    | None => None
    end.
  Proof.
    induction d as [|[k' v] d IH]; intros HN; simpl; [reflexivity|].
    inversion HN as [|? ? Hn HN']; subst. rewrite find_app. cbv zeta.
    destruct (Nat.eqb k k') eqn:E.
    - apply Nat.eqb_eq in E. subst k'.
      destruct (skey k) eqn:Es.
      + destruct (valof (meth o) k v =? look o k) eqn:Ev; simpl.
        * rewrite (IH HN'). rewrite (dfind_notin _ _ Hn). reflexivity.
        * rewrite Nat.eqb_refl. reflexivity.
      + simpl. rewrite (IH HN'). rewrite (dfind_notin _ _ Hn). reflexivity.
    - destruct (skey k'); simpl; [|exact (IH HN')].
      destruct (valof (meth o) k' v =? look o k'); simpl; [exact (IH HN')|].
      rewrite E. exact (IH HN').
  Qed.

  Lemma find_new_ode o m' d k : NoDup (map fst d) ->
    find k (new_ode o m' d) =
    match dfind k d with
    | Some v => if skey k then None
                else if Nat.eqb m' (meth o) && (valof m' k v =? look o k) then None
                     else Some (valof m' k v)
    | None => None
    end.
  Proof.
    induction d as [|[k' v] d IH]; intros HN; simpl; [reflexivity|].
    inversion HN as [|? ? Hn HN']; subst. rewrite find_app. cbv zeta.
    destruct (Nat.eqb k k') eqn:E.
    - apply Nat.eqb_eq in E. subst k'.
      destruct (skey k) eqn:Es; simpl.
      + rewrite (IH HN'). rewrite (dfind_notin _ _ Hn). reflexivity.
      + destruct (Nat.eqb m' (meth o) && (valof m' k v =? look o k)) eqn:Ev; simpl.
        * rewrite (IH HN'). rewrite (dfind_notin _ _ Hn). reflexivity.
        * rewrite Nat.eqb_refl. reflexivity.
    - destruct (skey k'); simpl; [exact (IH HN')|].
      destruct (Nat.eqb m' (meth o) && (valof m' k' v =? look o k')); simpl; [exact (IH HN')|].
      rewrite E. exact (IH HN').
  Qed.

  (* the method a dictionary designates *)
  Definition d_method (o : odict) (d : list (nat * option Z)) : Z :=
    match dfind 0 d with
    | Some v => valof (meth o) 0 v
    | None => Z.of_nat (meth o)
    end.

  Lemma look0 o : look o 0 = match find 0 o with Some v => v | None => sdflt 0 end.
  Proof. unfold Model.C11_solver.look. rewrite skey0. reflexivity. Qed.

  Lemma meth_look o : meth o = Z.to_nat (look o 0).
  Proof. rewrite look0. reflexivity. Qed.

  Lemma valof_skey m1 m2 k v : skey k = true -> valof m1 k v = valof m2 k v.
  Proof. intros H. unfold Model.C11_solver.valof. destruct v; [reflexivity|]. rewrite H. reflexivity. Qed.

  Lemma look_skey o k : skey k = true ->
    look o k = match find k o with Some v => v | None => sdflt k end.
  Proof. intros H. unfold Model.C11_solver.look. rewrite H. reflexivity. Qed.

  (* what `solver.options = d` must leave in the options object: every key of
     d gets its value (None = default); a key not in d keeps its value, except
     that the integrator options fall back to the new integrator's defaults
     when the method changes *)
  Definition spec_look (o : odict) (d : list (nat * option Z)) (k : nat) : Z :=
    let m' := Z.to_nat (d_method o d) in
    match dfind k d with
    | Some v => valof m' k v
    | None => if Nat.eqb m' (meth o) then look o k
              else if skey k then look o k else dflt m' k
    end.

  Lemma apply_keys_o s keys : v_o (apply_keys s keys) = v_o s.
  Proof.
    unfold Model.C11_solver.apply_keys. destruct keys; [reflexivity|].
    destruct (existsb (Nat.eqb 0) (n :: keys)); [reflexivity|].
    destruct (existsb _ (n :: keys)); reflexivity.
  Qed.

  Lemma mz_method o d : NoDup (map fst d) ->
    Z.to_nat (match find 0 (new_solver o d) with Some z => z | None => Z.of_nat (meth o) end)
    = Z.to_nat (d_method o d).
  Proof.
    intros HN. rewrite (find_new_solver o d 0 HN). unfold d_method. rewrite skey0.
    destruct (dfind 0 d) as [v|]; [|reflexivity].
    destruct (valof (meth o) 0 v =? look o 0) eqn:E; [|reflexivity].
    rewrite Nat2Z.id. apply Z.eqb_eq in E. rewrite E. apply meth_look.
  Qed.

  Theorem set_options_spec s d s' : NoDup (map fst d) ->
    set_options s d = (s', Ok) ->
    meth (v_o s') = Z.to_nat (d_method (v_o s) d) /\
    forall k, look (v_o s') k = spec_look (v_o s) d k.
  Proof.
    intros HN H. unfold Model.C11_solver.set_options in H.
    set (o := v_o s) in *. set (ns := new_solver o d) in *.
    pose proof (mz_method o d HN) as Hm. fold ns in Hm.
    set (mz := match find 0 ns with Some z => z | None => Z.of_nat (meth o) end) in *.
    destruct (negb (valid_m mz)); [discriminate|].
    set (m' := Z.to_nat mz) in *.
    destruct (existsb _ d); [discriminate|].
    set (no := new_ode o m' d) in *.
    assert (Hns : forall k, find k ns = match dfind k d with
              | Some v => if skey k then (if valof (meth o) k v =? look o k then None
                                          else Some (valof (meth o) k v)) else None
              | None => None end) by (intros k; apply find_new_solver; exact HN).
    assert (Hno : forall k, find k no = match dfind k d with
              | Some v => if skey k then None
                          else if Nat.eqb m' (meth o) && (valof m' k v =? look o k) then None
                               else Some (valof m' k v)
              | None => None end) by (intros k; apply find_new_ode; exact HN).
    assert (Hcase : (ns = [] /\ no = [] /\ s' = s) \/
                    v_o s' = no ++ ns ++ (if Nat.eqb m' (meth o) then o
                                          else filter (fun p => skey (fst p)) o)).
    { destruct ns as [|p1 ns']; [destruct no as [|p2 no']|].
      - left. injection H as <-. auto.
      - right. injection H as <-. rewrite apply_keys_o. reflexivity.
      - right. destruct no; injection H as <-; rewrite apply_keys_o; reflexivity. }
    clear H. destruct Hcase as [(En & Eo & ->)|Ho].
    - (* nothing to do: every value given equals the current one *)
      assert (Hmm : m' = meth o).
      { unfold m', mz. rewrite En. simpl. apply Nat2Z.id. }
      split; [fold o; rewrite <- Hm; fold m'; symmetry; exact Hmm|].
      intros k. fold o. unfold spec_look. rewrite <- Hm. fold m'. rewrite Hmm, Nat.eqb_refl.
      specialize (Hns k). specialize (Hno k). rewrite En in Hns. rewrite Eo in Hno. simpl in Hns, Hno.
      rewrite Hmm, Nat.eqb_refl in Hno.
      destruct (dfind k d) as [v|]; [|reflexivity].
      destruct (skey k) eqn:Es.
      + destruct (valof (meth o) k v =? look o k) eqn:E; [lia|discriminate].
      + simpl in Hno. destruct (valof (meth o) k v =? look o k) eqn:E; [lia|discriminate].
    - (* a new options object is built *)
      assert (Hf0 : find 0 (v_o s') = match find 0 ns with Some z => Some z | None => find 0 o end).
      { rewrite Ho, !find_app, (Hno 0%nat), skey0.
        assert (find 0 no = None) as _ by (rewrite (Hno 0%nat), skey0; destruct (dfind 0 d); reflexivity).
        destruct (dfind 0 d); simpl; destruct (find 0 ns); try reflexivity;
          destruct (Nat.eqb m' (meth o)); try reflexivity; rewrite find_filter, skey0; reflexivity. }
      assert (Hmeth : meth (v_o s') = m').
      { unfold Model.C11_solver.meth at 1. rewrite Hf0. unfold m', mz.
        destruct (find 0 ns); [reflexivity|]. rewrite Nat2Z.id. reflexivity. }
      split; [rewrite Hmeth; exact Hm|].
      intros k. unfold spec_look. rewrite <- Hm. fold m'. fold o.
      unfold Model.C11_solver.look at 1. rewrite Hmeth, Ho, !find_app, (Hno k), (Hns k).
      destruct (dfind k d) as [v|].
      + destruct (skey k) eqn:Es.
        * rewrite (valof_skey m' (meth o) k v Es).
          destruct (valof (meth o) k v =? look o k) eqn:E; [|reflexivity].
          rewrite (look_skey o k Es) in E.
          destruct (Nat.eqb m' (meth o)); [|rewrite find_filter, Es]; destruct (find k o); lia.
        * destruct (Nat.eqb m' (meth o)) eqn:Em; simpl.
          -- apply Nat.eqb_eq in Em.
             destruct (valof m' k v =? look o k) eqn:E; [|reflexivity].
             unfold Model.C11_solver.look in E. rewrite Es in E. rewrite <- Em in E.
             destruct (find k o); lia.
          -- reflexivity.
      + destruct (Nat.eqb m' (meth o)) eqn:Em.
        * apply Nat.eqb_eq in Em. unfold Model.C11_solver.look. rewrite Em. reflexivity.
        * rewrite find_filter. destruct (skey k) eqn:Es.
          -- rewrite (look_skey o k Es). reflexivity.
          -- reflexivity.
  Qed.

  Lemma set_options_shape s d s' : set_options s d = (s', Ok) ->
    s' = s \/ exists o', s' = apply_keys (with_o X A s o') (map fst d).
  Proof.
    unfold Model.C11_solver.set_options.
    destruct (negb (valid_m _)); [discriminate|].
    destruct (existsb _ d); [discriminate|].
    destruct (new_solver (v_o s) d); [destruct (new_ode (v_o s) _ d)|];
      intros H; injection H as <-; eauto.
  Qed.

  (* ---- the integrator object agrees with the options object ---- *)
  Definition Coh (s : solv) : Prop :=
    g_m (v_int s) = meth (v_o s) /\
    forall k, supports (g_m (v_int s)) k = true ->
              look (g_o (v_int s)) k = look (v_o s) k.

  Lemma rebuild_coh s : Coh (rebuild s).
  Proof. split; simpl; auto. Qed.

  Lemma reset_hard_coh s : g_m (v_int s) = meth (v_o s) -> Coh (reset_hard s).
  Proof. intros H. split; simpl; auto. Qed.

  Lemma existsb_supports_false m keys k :
    existsb (supports m) keys = false -> supports m k = true -> ~ In k keys.
  Proof.
    intros H Hk Hin. assert (existsb (supports m) keys = true); [|congruence].
    apply existsb_exists. exists k. auto.
  Qed.

  Lemma apply_keys_coh s o' keys : Coh s ->
    (~ In 0%nat keys -> meth o' = meth (v_o s)) ->
    (~ In 0%nat keys -> forall k, ~ In k keys -> look o' k = look (v_o s) k) ->
    Coh (apply_keys (with_o X A s o') keys).
  Proof.
    intros [C1 C2] Hm Hl. unfold Model.C11_solver.apply_keys.
    destruct keys as [|k0 keys'] eqn:Ek.
    - split; simpl; [rewrite C1; symmetry; apply Hm; auto|].
      intros k Hk. rewrite (C2 k Hk). symmetry. apply Hl; auto.
    - rewrite <- Ek in *. destruct (existsb (Nat.eqb 0) keys) eqn:E0; [apply rebuild_coh|].
      assert (H0 : ~ In 0%nat keys).
      { intros Hin. apply existsb_eqb0 in Hin. congruence. }
      simpl. destruct (existsb (supports (g_m (v_int s))) keys) eqn:Es.
      + apply reset_hard_coh. simpl. rewrite C1. symmetry. apply Hm. exact H0.
      + split; simpl; [rewrite C1; symmetry; apply Hm; exact H0|]. intros k Hk. reflexivity.
  Qed.

  Lemma set_options_coh s d s' : NoDup (map fst d) -> Coh s ->
    set_options s d = (s', Ok) -> Coh s'.
  Proof.
    intros HN HC H. destruct (set_options_spec s d s' HN H) as [Hm Hl].
    destruct (set_options_shape s d s' H) as [->|(o' & E)]; [exact HC|].
    assert (Ho : v_o s' = o') by (rewrite E, apply_keys_o; reflexivity).
    rewrite E. apply apply_keys_coh; [exact HC| |].
    - intros H0. rewrite <- Ho, Hm. unfold d_method. rewrite (dfind_notin _ _ H0).
      apply Nat2Z.id.
    - intros H0 k Hk. rewrite <- Ho, (Hl k). unfold spec_look, d_method.
      rewrite (dfind_notin _ _ H0), (dfind_notin _ _ Hk), Nat2Z.id, Nat.eqb_refl. reflexivity.
  Qed.

  (* options[k] = v *)
  Definition item_look (o : odict) (k : nat) (v : option Z) (j : nat) : Z :=
    let z := valof (meth o) k v in
    if z =? look o k then look o j
    else if Nat.eqb k 0 then
           (if skey j then (if Nat.eqb j 0 then z else look o j) else dflt (Z.to_nat z) j)
         else if Nat.eqb j k then z else look o j.

  Lemma look_cons_other o k z j : k <> 0%nat -> j <> k -> look ((k, z) :: o) j = look o j.
  Proof.
    intros Hk Hj. unfold Model.C11_solver.look, Model.C11_solver.meth. simpl.
    destruct (Nat.eqb j k) eqn:E; [apply Nat.eqb_eq in E; congruence|].
    destruct k as [|k']; [congruence|]. reflexivity.
  Qed.

  Lemma look_cons_same o k z : look ((k, z) :: o) k = z.
  Proof. unfold Model.C11_solver.look. simpl. rewrite Nat.eqb_refl. reflexivity. Qed.

  Lemma meth_cons_other o k z : k <> 0%nat -> meth ((k, z) :: o) = meth o.
  Proof.
    intros Hk. unfold Model.C11_solver.meth. simpl.
    destruct k as [|k']; [congruence|]. reflexivity.
  Qed.

  Lemma rebuild_o s : v_o (rebuild s) = v_o s. Proof. reflexivity. Qed.
  Lemma reset_hard_o s : v_o (reset_hard s) = v_o s. Proof. reflexivity. Qed.

  Theorem set_item_spec s k v s' : set_item s k v = (s', Ok) ->
    Coh s -> Coh s' /\ forall j, look (v_o s') j = item_look (v_o s) k v j.
  Proof.
    intros H HC. unfold Model.C11_solver.set_item in H. unfold item_look.
    set (o := v_o s) in *. destruct (negb (skey k || supports (meth o) k)); [discriminate|].
    set (z := valof (meth o) k v) in *.
    destruct (z =? look o k) eqn:Ez.
    { injection H as <-. split; [exact HC|reflexivity]. }
    destruct (Nat.eqb k 0) eqn:Ek.
    - apply Nat.eqb_eq in Ek. subst k. destruct (negb (valid_m z)); [discriminate|].
      injection H as <-. split; [apply rebuild_coh|]. intros j. rewrite rebuild_o. simpl.
      unfold Model.C11_solver.look at 1. unfold Model.C11_solver.meth at 1.
      rewrite skey0. simpl.
      destruct (Nat.eqb j 0) eqn:Ej0.
      + apply Nat.eqb_eq in Ej0. subst j. rewrite skey0. reflexivity.
      + rewrite find_filter. destruct (skey j) eqn:Ej.
        * rewrite (look_skey o j Ej). reflexivity.
        * reflexivity.
    - apply Nat.eqb_neq in Ek. destruct HC as [C1 C2].
      destruct (supports (g_m (v_int s)) k) eqn:Es.
      + injection H as <-. split.
        * apply reset_hard_coh. simpl. rewrite (meth_cons_other o k z Ek). exact C1.
        * intros j. rewrite reset_hard_o. simpl.
          destruct (Nat.eqb j k) eqn:Ej; [apply Nat.eqb_eq in Ej; subst; apply look_cons_same|].
          apply Nat.eqb_neq in Ej. apply look_cons_other; assumption.
      + injection H as <-. split.
        * split; simpl; [rewrite (meth_cons_other o k z Ek); exact C1|].
          intros j Hj. rewrite (C2 j Hj). symmetry. apply look_cons_other; [exact Ek|].
          intros ->. congruence.
        * intros j. simpl.
          destruct (Nat.eqb j k) eqn:Ej; [apply Nat.eqb_eq in Ej; subst; apply look_cons_same|].
          apply Nat.eqb_neq in Ej. apply look_cons_other; assumption.
  Qed.

  (* ---- run / start / step do not touch the configuration ---- *)
  Notation i_set := (i_set X A).
  Notation argument := (argument X A).
  Notation i_integrate := (i_integrate X A skey sdflt dflt flow).
  Notation step := (step X A skey sdflt dflt flow).
  Notation run := (run X A skey sdflt dflt flow).
  Notation run_times := (run_times X A skey sdflt dflt flow).
  Notation do_sop := (do_sop X A skey sdflt supports dflt valid_m nkeys flow).
  Notation srun := (srun X A skey sdflt supports dflt valid_m nkeys flow).
  Notation init := (init X A skey sdflt supports dflt valid_m nkeys).

  Definition same_cfg (s s' : solv) : Prop :=
    v_o s' = v_o s /\ g_m (v_int s') = g_m (v_int s) /\ g_o (v_int s') = g_o (v_int s).

  Lemma same_cfg_coh s s' : same_cfg s s' -> Coh s -> Coh s'.
  Proof. intros (A1 & A2 & A3) [C1 C2]. unfold Coh. rewrite A1, A2, A3. auto. Qed.

  Lemma same_cfg_refl s : same_cfg s s. Proof. repeat split. Qed.
  Lemma same_cfg_trans a b c : same_cfg a b -> same_cfg b c -> same_cfg a c.
  Proof. intros (A1 & A2 & A3) (B1 & B2 & B3). repeat split; congruence. Qed.

  Lemma i_set_cfg s t x : same_cfg s (i_set s t x). Proof. repeat split. Qed.
  Lemma argument_cfg s a : same_cfg s (argument s a).
  Proof. destruct a; repeat split. Qed.
  Lemma i_integrate_cfg s t : same_cfg s (fst (i_integrate s t)).
  Proof. unfold Model.C11_solver.i_integrate. destruct (g_x (v_int s)); repeat split. Qed.

  Lemma run_times_cfg tl : forall s, same_cfg s (fst (run_times s tl)).
  Proof.
    induction tl as [|t r IH]; intros s; simpl; [apply same_cfg_refl|].
    pose proof (i_integrate_cfg s t) as H1.
    destruct (i_integrate s t) as [s1 [x|]]; simpl in *; [|exact H1].
    pose proof (IH s1) as H2. destruct (run_times s1 r) as [s2 xs]. simpl in *.
    eapply same_cfg_trans; eassumption.
  Qed.

  Lemma step_cfg s t a : same_cfg s (fst (step s t a)).
  Proof.
    unfold Model.C11_solver.step. destruct (negb (g_set (v_int s))); [apply same_cfg_refl|].
    eapply same_cfg_trans; [apply argument_cfg|apply i_integrate_cfg].
  Qed.

  Lemma run_cfg s x0 t0 tl a : same_cfg s (fst (run s x0 t0 tl a)).
  Proof.
    unfold Model.C11_solver.run.
    pose proof (run_times_cfg tl (argument (i_set s t0 x0) a)) as H.
    destruct (run_times _ tl) as [s1 xs]. simpl in *.
    eapply same_cfg_trans; [apply i_set_cfg|]. eapply same_cfg_trans; [apply argument_cfg|exact H].
  Qed.

  (* an operation of a history is admissible when its dictionary has unique
     keys (a Python dict) and a method assigned by item is a registered one *)
  Hypothesis valid_default : valid_m (sdflt 0) = true.
  Definition good_sop (o : sop X A) : Prop :=
    match o with
    | SOpts d => NoDup (map fst d)
    | SItem 0%nat (Some z) => valid_m z = true
    | _ => True
    end.

  Lemma do_sop_coh s o : good_sop o -> Coh s -> Coh (fst (do_sop s o)).
  Proof.
    intros Hg HC. destruct o as [d|k v|x t0|t a|x0 t0 tl a]; simpl.
    - destruct (set_options s d) as [s1 r] eqn:E. simpl. destruct r.
      + eapply set_options_coh; eassumption.
      + unfold Model.C11_solver.set_options in E.
        destruct (negb (valid_m _)); [injection E as <-; exact HC|].
        destruct (existsb _ d); [injection E as <-; exact HC|].
        destruct (new_solver (v_o s) d); [destruct (new_ode (v_o s) _ d)|]; discriminate.
    - destruct (set_item s k v) as [s1 r] eqn:E. simpl. destruct r.
      + exact (proj1 (set_item_spec s k v s1 E HC)).
      + unfold Model.C11_solver.set_item in E.
        destruct (negb (skey k || supports (meth (v_o s)) k)); [injection E as <-; exact HC|].
        destruct (valof (meth (v_o s)) k v =? look (v_o s) k); [discriminate|].
        destruct (Nat.eqb k 0) eqn:Ek.
        * apply Nat.eqb_eq in Ek. subst k. exfalso.
          destruct v as [z|]; simpl in *.
          -- rewrite Hg in E. simpl in E. discriminate.
          -- unfold Model.C11_solver.valof in E. rewrite skey0, valid_default in E. simpl in E. discriminate.
        * destruct (supports (g_m (v_int s)) k); discriminate.
    - eapply same_cfg_coh; [apply i_set_cfg|exact HC].
    - pose proof (step_cfg s t a) as H. destruct (step s t a) as [s1 [x|]]; simpl in *;
        eapply same_cfg_coh; eassumption.
    - pose proof (run_cfg s x0 t0 tl a) as H. destruct (run s x0 t0 tl a) as [s1 xs]. simpl in *.
      eapply same_cfg_coh; eassumption.
  Qed.

  Lemma srun_coh ops : forall s, Forall good_sop ops -> Coh s -> Coh (srun s ops).
  Proof.
    induction ops as [|o r IH]; intros s HG HC; simpl; [exact HC|].
    inversion HG; subst. apply IH; [assumption|]. apply do_sop_coh; assumption.
  Qed.

  Lemma init_coh a0 d s : init a0 d = (s, Ok) -> Coh s.
  Proof.
    unfold Model.C11_solver.init. destruct (negb (valid_m _)); [discriminate|].
    destruct (existsb _ d); [discriminate|]. intros H. injection H as <-. split; simpl; auto.
  Qed.

  (* ---- what the integrator is asked at a step ---- *)
  Definition cur_a (a0 : A) (a : option A) : A := match a with Some x => x | None => a0 end.

  Theorem step_answer s t a x : Coh s -> g_set (v_int s) = true -> g_x (v_int s) = Some x ->
    let x' := flow (meth (v_o s)) (look (v_o s)) (cur_a (v_args s) a) (g_t (v_int s)) t x in
    snd (step s t a) = Some x' /\
    g_set (v_int (fst (step s t a))) = true /\ g_t (v_int (fst (step s t a))) = t /\
    g_x (v_int (fst (step s t a))) = Some x' /\ v_args (fst (step s t a)) = cur_a (v_args s) a.
  Proof.
    intros [C1 C2] Hs Hx x'. unfold Model.C11_solver.step. rewrite Hs. simpl.
    unfold Model.C11_solver.i_integrate.
    assert (E : g_x (v_int (argument s a)) = Some x) by (destruct a; simpl; exact Hx).
    rewrite E. simpl.
    assert (Ex : flow (g_m (v_int (argument s a))) (ilook X skey sdflt dflt (v_int (argument s a)))
                      (v_args (argument s a)) (g_t (v_int (argument s a))) t x = x').
    { unfold x'. destruct a; simpl; rewrite C1; apply flow_ext; intros k Hk;
        unfold ilook; apply C2; rewrite C1; exact Hk. }
    rewrite Ex. repeat split; try reflexivity.
    - destruct a; simpl; exact Hs.
    - destruct a; reflexivity.
  Qed.

  (* ---- option changes keep the position and the arguments ---- *)
  Definition pos (s : solv) := (g_set (v_int s), g_t (v_int s), g_x (v_int s)).

  Lemma apply_keys_pos s keys : pos (apply_keys s keys) = pos s /\ v_args (apply_keys s keys) = v_args s.
  Proof.
    unfold Model.C11_solver.apply_keys. destruct keys; [auto|].
    destruct (existsb (Nat.eqb 0) (n :: keys)); [split; reflexivity|].
    destruct (existsb _ (n :: keys)); split; reflexivity.
  Qed.

  Theorem options_keep_position s o : (exists d, o = SOpts d) \/ (exists k v, o = SItem k v) ->
    pos (fst (do_sop s o)) = pos s /\ v_args (fst (do_sop s o)) = v_args s.
  Proof.
    intros [[d ->]|(k & v & ->)]; simpl.
    - destruct (set_options s d) as [s1 r] eqn:E. simpl.
      unfold Model.C11_solver.set_options in E.
      destruct (negb (valid_m _)); [injection E as <- <-; auto|].
      destruct (existsb _ d); [injection E as <- <-; auto|].
      destruct (new_solver (v_o s) d); [destruct (new_ode (v_o s) _ d)|];
        injection E as <- <-; auto;
        match goal with |- context [apply_keys ?q ?ks] =>
          destruct (apply_keys_pos q ks) as [P Q]; split; [exact P|exact Q] end.
    - destruct (set_item s k v) as [s1 r] eqn:E. simpl.
      unfold Model.C11_solver.set_item in E.
      destruct (negb (skey k || supports (meth (v_o s)) k)); [injection E as <- <-; auto|].
      destruct (valof (meth (v_o s)) k v =? look (v_o s) k); [injection E as <- <-; auto|].
      destruct (Nat.eqb k 0).
      + destruct (negb (valid_m _)); injection E as <- <-; auto.
      + destruct (supports (g_m (v_int s)) k); injection E as <- <-; auto.
  Qed.

  (* ---- after run, the integrator stands at the last time and state ---- *)
  Lemma i_integrate_some s t x : g_x (v_int s) = Some x ->
    exists s1 x1, i_integrate s t = (s1, Some x1) /\ g_x (v_int s1) = Some x1 /\
                  g_set (v_int s1) = g_set (v_int s) /\ g_t (v_int s1) = t /\
                  v_args s1 = v_args s.
  Proof.
    intros Hx. unfold Model.C11_solver.i_integrate. rewrite Hx.
    eexists. eexists. split; [reflexivity|]. simpl. auto.
  Qed.

  Lemma run_times_pos tl : forall s x, g_x (v_int s) = Some x -> g_set (v_int s) = true ->
    exists s' xs, run_times s tl = (s', xs) /\ length xs = length tl /\
      pos s' = (true, last tl (g_t (v_int s)), Some (last xs x)) /\ v_args s' = v_args s.
  Proof.
    clear skey0 supp_not_skey flow_ext valid_default.
    induction tl as [|t r IH]; intros s x Hx Hs; simpl.
    - exists s, []. split; [reflexivity|]. split; [reflexivity|]. split; [|reflexivity].
      unfold pos. rewrite Hs, Hx. reflexivity.
    - destruct (i_integrate_some s t x Hx) as (s1 & x1 & E1 & Hx1 & Hs1 & Ht1 & Ha1).
      rewrite E1. destruct (IH s1 x1 Hx1 ltac:(congruence)) as (s2 & xs & E2 & L & P & Ha2).
      rewrite E2. exists s2, (x1 :: xs). split; [reflexivity|]. split; [simpl; lia|].
      split; [|congruence]. rewrite P, Ht1. f_equal; [f_equal|].
      + destruct r as [|z r']; [reflexivity|].
        simpl. apply last_cons_default.
      + destruct xs as [|y xs']; [destruct r; simpl in L; [reflexivity|lia]|].
        f_equal. change (last (x1 :: y :: xs') x) with (last (y :: xs') x).
        apply last_cons_default.
  Qed.

  Theorem run_position s x0 t0 tl a :
    let r := run s x0 t0 tl a in
    length (snd r) = S (length tl) /\
    pos (fst r) = (true, last tl t0, Some (last (snd r) x0)) /\
    v_args (fst r) = cur_a (v_args s) a.
  Proof.
    clear skey0 supp_not_skey flow_ext valid_default.
    unfold Model.C11_solver.run.
    set (s1 := argument (i_set s t0 x0) a).
    assert (Hx : g_x (v_int s1) = Some x0) by (unfold s1; destruct a; reflexivity).
    assert (Hs : g_set (v_int s1) = true) by (unfold s1; destruct a; reflexivity).
    assert (Ht : g_t (v_int s1) = t0) by (unfold s1; destruct a; reflexivity).
    assert (Ha : v_args s1 = cur_a (v_args s) a) by (unfold s1; destruct a; reflexivity).
    destruct (run_times_pos tl s1 x0 Hx Hs) as (s2 & xs & E & L & P & Ha2).
    rewrite E. simpl. split; [lia|]. split; [|congruence].
    rewrite P, Ht. f_equal. f_equal. destruct xs as [|y xs']; reflexivity.
  Qed.

  (* ==================================================================
     Two solver objects that hold the same option values, arguments and
     position answer every later history identically.
     ================================================================== *)
  Definition Equiv (s1 s2 : solv) : Prop :=
    Coh s1 /\ Coh s2 /\ (forall k, look (v_o s1) k = look (v_o s2) k) /\
    v_args s1 = v_args s2 /\ pos s1 = pos s2.

  Lemma equiv_meth (s1 s2 : solv) : (forall k, look (v_o s1) k = look (v_o s2) k) ->
    meth (v_o s1) = meth (v_o s2).
  Proof. intros H. rewrite !meth_look, (H 0%nat). reflexivity. Qed.

  Lemma same_cfg_equiv (s1 s2 s1' s2' : solv) : Equiv s1 s2 -> same_cfg s1 s1' -> same_cfg s2 s2' ->
    v_args s1' = v_args s2' -> pos s1' = pos s2' -> Equiv s1' s2'.
  Proof.
    intros (C1 & C2 & L & _ & _) H1 H2 Ha Hp.
    split; [eapply same_cfg_coh; eassumption|]. split; [eapply same_cfg_coh; eassumption|].
    destruct H1 as (E1 & _). destruct H2 as (E2 & _). rewrite E1, E2. auto.
  Qed.

  Lemma i_integrate_equiv (s1 s2 : solv) t : Equiv s1 s2 ->
    snd (i_integrate s1 t) = snd (i_integrate s2 t) /\
    Equiv (fst (i_integrate s1 t)) (fst (i_integrate s2 t)).
  Proof.
    intros HE. pose proof HE as (C1 & C2 & L & Ha & Hp).
    pose proof (i_integrate_cfg s1 t) as G1. pose proof (i_integrate_cfg s2 t) as G2.
    unfold pos in Hp. injection Hp as Hs Ht Hx.
    unfold Model.C11_solver.i_integrate in *. rewrite <- Hx.
    destruct (g_x (v_int s1)) as [x|] eqn:Ex; simpl in *.
    - assert (Efl : flow (g_m (v_int s1)) (ilook X skey sdflt dflt (v_int s1)) (v_args s1)
                         (g_t (v_int s1)) t x
                  = flow (g_m (v_int s2)) (ilook X skey sdflt dflt (v_int s2)) (v_args s2)
                         (g_t (v_int s2)) t x).
      { destruct C1 as [A1 B1]. destruct C2 as [A2 B2].
        rewrite A1, A2, <- (equiv_meth s1 s2 L), Ha, Ht. apply flow_ext. intros k Hk.
        unfold ilook. rewrite B1 by (rewrite A1; exact Hk).
        rewrite B2 by (rewrite A2, <- (equiv_meth s1 s2 L); exact Hk). apply L. }
      split; [rewrite Efl; reflexivity|].
      eapply (same_cfg_equiv s1 s2 _ _ HE); [repeat split|repeat split|exact Ha|].
      unfold pos. simpl. rewrite Hs, Efl. reflexivity.
    - split; [reflexivity|exact HE].
  Qed.

  Lemma i_set_equiv (s1 s2 : solv) t x : Equiv s1 s2 -> Equiv (i_set s1 t x) (i_set s2 t x).
  Proof.
    intros HE. pose proof HE as (_ & _ & _ & Ha & _).
    eapply same_cfg_equiv; [exact HE|apply i_set_cfg|apply i_set_cfg|exact Ha|reflexivity].
  Qed.

  Lemma argument_equiv (s1 s2 : solv) a : Equiv s1 s2 -> Equiv (argument s1 a) (argument s2 a).
  Proof.
    intros HE. pose proof HE as (_ & _ & _ & Ha & Hp).
    eapply same_cfg_equiv; [exact HE|apply argument_cfg|apply argument_cfg| |];
      destruct a; simpl; auto.
  Qed.

  Lemma run_times_equiv tl : forall s1 s2, Equiv s1 s2 ->
    snd (run_times s1 tl) = snd (run_times s2 tl) /\
    Equiv (fst (run_times s1 tl)) (fst (run_times s2 tl)).
  Proof.
    induction tl as [|t r IH]; intros s1 s2 HE; simpl; [split; [reflexivity|exact HE]|].
    destruct (i_integrate_equiv s1 s2 t HE) as [E1 E2].
    destruct (i_integrate s1 t) as [a1 [x1|]]; destruct (i_integrate s2 t) as [a2 [x2|]];
      simpl in *; try discriminate.
    - injection E1 as <-. destruct (IH a1 a2 E2) as [F1 F2].
      destruct (run_times a1 r) as [b1 xs1]. destruct (run_times a2 r) as [b2 xs2]. simpl in *.
      split; [rewrite F1; reflexivity|exact F2].
    - split; [reflexivity|exact E2].
  Qed.

  Lemma set_options_outcome_ext (s1 s2 : solv) d : NoDup (map fst d) ->
    (forall k, look (v_o s1) k = look (v_o s2) k) ->
    snd (set_options s1 d) = snd (set_options s2 d).
  Proof.
    intros HN L. pose proof (equiv_meth s1 s2 L) as Hm.
    unfold Model.C11_solver.set_options.
    assert (Ef : find 0 (new_solver (v_o s1) d) = find 0 (new_solver (v_o s2) d)).
    { rewrite !(find_new_solver _ d 0 HN), Hm, (L 0%nat). reflexivity. }
    rewrite Ef, Hm.
    destruct (negb (valid_m _)); [reflexivity|].
    destruct (existsb _ d); [reflexivity|].
    destruct (new_solver (v_o s1) d); [destruct (new_ode (v_o s1) _ d)|];
      (destruct (new_solver (v_o s2) d); [destruct (new_ode (v_o s2) _ d)|]); reflexivity.
  Qed.

  Lemma spec_look_ext o1 o2 d k : (forall j, look o1 j = look o2 j) ->
    spec_look o1 d k = spec_look o2 d k.
  Proof.
    intros L. assert (Hm : meth o1 = meth o2) by (rewrite !meth_look, (L 0%nat); reflexivity).
    unfold spec_look, d_method. rewrite Hm, (L k). reflexivity.
  Qed.

  Lemma set_options_err_same s d s' : set_options s d = (s', Err) -> s' = s.
  Proof.
    unfold Model.C11_solver.set_options.
    destruct (negb (valid_m _)); [intros H; injection H as <-; reflexivity|].
    destruct (existsb _ d); [intros H; injection H as <-; reflexivity|].
    destruct (new_solver (v_o s) d); [destruct (new_ode (v_o s) _ d)|]; discriminate.
  Qed.

  Lemma set_item_err_same s k v s' : good_sop (SItem k v) -> set_item s k v = (s', Err) -> s' = s.
  Proof.
    intros Hg. unfold Model.C11_solver.set_item.
    destruct (negb (skey k || supports (meth (v_o s)) k)); [intros H; injection H as <-; reflexivity|].
    destruct (valof (meth (v_o s)) k v =? look (v_o s) k); [discriminate|].
    destruct (Nat.eqb k 0) eqn:Ek.
    - apply Nat.eqb_eq in Ek. subst k. destruct v as [z|]; simpl in *.
      + rewrite Hg. simpl. discriminate.
      + unfold Model.C11_solver.valof. rewrite skey0, valid_default. simpl. discriminate.
    - destruct (supports (g_m (v_int s)) k); discriminate.
  Qed.

  Lemma set_item_outcome_ext (s1 s2 : solv) k v : Equiv s1 s2 ->
    snd (set_item s1 k v) = snd (set_item s2 k v).
  Proof.
    intros ([A1 _] & [A2 _] & L & _ & _). pose proof (equiv_meth s1 s2 L) as Hm.
    unfold Model.C11_solver.set_item. rewrite Hm, (L k).
    destruct (negb (skey k || supports (meth (v_o s2)) k)); [reflexivity|].
    destruct (valof (meth (v_o s2)) k v =? look (v_o s2) k); [reflexivity|].
    destruct (Nat.eqb k 0); [destruct (negb (valid_m _)); reflexivity|].
    rewrite A1, A2, Hm. destruct (supports (meth (v_o s2)) k); reflexivity.
  Qed.

  Lemma item_look_ext o1 o2 k v j : (forall i, look o1 i = look o2 i) ->
    item_look o1 k v j = item_look o2 k v j.
  Proof.
    intros L. assert (Hm : meth o1 = meth o2) by (rewrite !meth_look, (L 0%nat); reflexivity).
    unfold item_look. rewrite Hm, (L k), (L j). reflexivity.
  Qed.

  Theorem do_sop_equiv (s1 s2 : solv) o : good_sop o -> Equiv s1 s2 ->
    snd (do_sop s1 o) = snd (do_sop s2 o) /\ Equiv (fst (do_sop s1 o)) (fst (do_sop s2 o)).
  Proof.
    intros Hg HE. pose proof HE as (C1 & C2 & L & Ha & Hp).
    destruct o as [d|k v|x t0|t a|x0 t0 tl a].
    - (* options = d *)
      pose proof (set_options_outcome_ext s1 s2 d Hg L) as Ho.
      destruct (options_keep_position s1 (SOpts d) (or_introl (ex_intro _ d eq_refl))) as [P1 Q1].
      destruct (options_keep_position s2 (SOpts d) (or_introl (ex_intro _ d eq_refl))) as [P2 Q2].
      simpl in *. destruct (set_options s1 d) as [a1 r1] eqn:E1.
      destruct (set_options s2 d) as [a2 r2] eqn:E2. simpl in *. subst r2.
      split; [reflexivity|]. destruct r1.
      + destruct (set_options_spec s1 d a1 Hg E1) as [_ S1].
        destruct (set_options_spec s2 d a2 Hg E2) as [_ S2].
        split; [exact (set_options_coh s1 d a1 Hg C1 E1)|]. split; [exact (set_options_coh s2 d a2 Hg C2 E2)|].
        split; [intros k; rewrite S1, S2; apply spec_look_ext; exact L|].
        split; congruence.
      + rewrite (set_options_err_same s1 d a1 E1), (set_options_err_same s2 d a2 E2). exact HE.
    - (* options[k] = v *)
      pose proof (set_item_outcome_ext s1 s2 k v HE) as Ho.
      destruct (options_keep_position s1 (SItem k v) (or_intror (ex_intro _ k (ex_intro _ v eq_refl)))) as [P1 Q1].
      destruct (options_keep_position s2 (SItem k v) (or_intror (ex_intro _ k (ex_intro _ v eq_refl)))) as [P2 Q2].
      simpl in *. destruct (set_item s1 k v) as [a1 r1] eqn:E1.
      destruct (set_item s2 k v) as [a2 r2] eqn:E2. simpl in *. subst r2.
      split; [reflexivity|]. destruct r1.
      + destruct (set_item_spec s1 k v a1 E1 C1) as [D1 S1].
        destruct (set_item_spec s2 k v a2 E2 C2) as [D2 S2].
        split; [exact D1|]. split; [exact D2|].
        split; [intros j; rewrite S1, S2; apply item_look_ext; exact L|].
        split; congruence.
      + rewrite (set_item_err_same s1 k v a1 Hg E1), (set_item_err_same s2 k v a2 Hg E2). exact HE.
    - (* start *)
      simpl. split; [reflexivity|]. apply i_set_equiv. exact HE.
    - (* step *)
      simpl. unfold Model.C11_solver.step.
      assert (Hs : g_set (v_int s1) = g_set (v_int s2)) by (unfold pos in Hp; congruence).
      rewrite Hs. destruct (negb (g_set (v_int s2))); [split; [reflexivity|exact HE]|].
      destruct (i_integrate_equiv _ _ t (argument_equiv s1 s2 a HE)) as [F1 F2].
      destruct (i_integrate (argument s1 a) t) as [b1 [y1|]];
        destruct (i_integrate (argument s2 a) t) as [b2 [y2|]]; simpl in *; try discriminate.
      + injection F1 as <-. split; [reflexivity|exact F2].
      + split; [reflexivity|exact F2].
    - (* run *)
      simpl. unfold Model.C11_solver.run.
      destruct (run_times_equiv tl _ _ (argument_equiv _ _ a (i_set_equiv s1 s2 t0 x0 HE))) as [F1 F2].
      destruct (run_times (argument (i_set s1 t0 x0) a) tl) as [b1 xs1].
      destruct (run_times (argument (i_set s2 t0 x0) a) tl) as [b2 xs2]. simpl in *.
      split; [rewrite F1; reflexivity|exact F2].
  Qed.

  Notation sanswers := (sanswers X A skey sdflt supports dflt valid_m nkeys flow).

  Theorem sanswers_equiv ops : forall s1 s2, Forall good_sop ops -> Equiv s1 s2 ->
    sanswers s1 ops = sanswers s2 ops.
  Proof.
    induction ops as [|o r IH]; intros s1 s2 HG HE; simpl; [reflexivity|].
    inversion HG; subst. destruct (do_sop_equiv s1 s2 o H1 HE) as [E1 E2].
    rewrite E1. f_equal. apply IH; assumption.
  Qed.
End SolverProofs.

(* ---------------------------------------------- the executable instance *)
Lemma x_skey0 : x_skey 0 = true. Proof. reflexivity. Qed.
Lemma x_supp_not_skey m k : x_supports m k = true -> x_skey k = false.
Proof.
  destruct m as [|[|[|[|m]]]]; destruct k as [|[|[|[|[|[|[|[|k]]]]]]]]; simpl; intros H;
    try discriminate; reflexivity.
Qed.
Lemma x_flow_ext m f g a t t' x :
  (forall k, x_supports m k = true -> f k = g k) -> x_flow m f a t t' x = x_flow m g a t t' x.
Proof.
  intros H. unfold x_flow.
  replace (map (fun k => if x_supports m k then Z.of_nat (S k) * f k else 0) (seq 0 8))
    with (map (fun k => if x_supports m k then Z.of_nat (S k) * g k else 0) (seq 0 8)); [reflexivity|].
  apply map_ext. intros k. destruct (x_supports m k) eqn:E; [rewrite (H k E)|]; reflexivity.
Qed.
Lemma x_valid_default : x_valid (x_sdflt 0) = true. Proof. reflexivity. Qed.
