(* C10 - IntegratorDiag: the cached step exponential is never stale, and every
   history returns the exact diagonal evolution of the state set last. *)
From Coq Require Import List ZArith Bool Lia.
Import ListNotations.
From QV Require Import Model.C10_diag.

Section Diag.
Variables T Y S E : Type.
Variable tsub tadd : T -> T -> T.
Variable tzero : T.
Variable teqb : T -> T -> bool.
Variable expd : T -> E.
Variable vmulE : Y -> E -> Y.
Variable toU : Y -> S.
Variable fromU : S -> Y.
Hypothesis teqb_eq : forall a b, teqb a b = true <-> a = b.
Hypothesis tsub_zero : forall a b, tsub a b = tzero -> a = b.
Hypothesis tsub_refl : forall a, tsub a a = tzero.
Hypothesis tsub_chain : forall a b c, tadd (tsub b a) (tsub c b) = tsub c a.
(* exp(diag*a) .* exp(diag*b) = exp(diag*(a+b)),  exp(0) = 1 *)
Hypothesis exp_add : forall y a b, vmulE (vmulE y (expd a)) (expd b) = vmulE y (expd (tadd a b)).
Hypothesis exp_zero : forall y, vmulE y (expd tzero) = y.

Notation dobj := (dobj T Y E).
Notation integ := (d_integrate T Y S E tsub tzero teqb expd vmulE toU).
Notation setst := (d_set_state T Y S E fromU).
Notation run := (d_run T Y S E tsub tzero teqb expd vmulE toU fromU).
Notation ref := (d_ref T Y S E tsub expd vmulE toU fromU).

(* the cache invariant: the stored exponential belongs to the stored step *)
Definition cache_ok (o : dobj) : Prop :=
  d_exp T Y E o = Some (expd (d_dt T Y E o)) \/
  (d_exp T Y E o = None /\ d_dt T Y E o = tzero).

Lemma cache_prepare : cache_ok (d_prepare T Y E tzero).
Proof. right. split; reflexivity. Qed.

Lemma cache_set t s o : cache_ok o -> cache_ok (setst t s o).
Proof. intros H. exact H. Qed.

Lemma teqb_false a b : teqb a b = false <-> a <> b.
Proof.
  split.
  - intros H E0. apply teqb_eq in E0. congruence.
  - intros H. destruct (teqb a b) eqn:E0; [|reflexivity]. apply teqb_eq in E0. contradiction.
Qed.

(* one integrate call on a set object with a sound cache: it does not raise,
   multiplies by exactly exp(diag*(t - t_prev)), and keeps the cache sound *)
Lemma integrate_step t o t0 y :
  cache_ok o -> d_set T Y E o = Some (t0, y) ->
  exists o', integ t o = Some (o', (t, toU (vmulE y (expd (tsub t t0))))) /\
             cache_ok o' /\ d_set T Y E o' = Some (t, vmulE y (expd (tsub t t0))).
Proof.
  intros HC HS. unfold d_integrate. rewrite HS.
  destruct (teqb (tsub t t0) tzero) eqn:E0.
  - apply teqb_eq in E0. pose proof (tsub_zero _ _ E0) as ->.
    exists o. rewrite E0, exp_zero. split; [reflexivity|]. split; [exact HC|exact HS].
  - destruct (teqb (d_dt T Y E o) (tsub t t0)) eqn:E1; simpl.
    + apply teqb_eq in E1.
      destruct HC as [HC|[HC HZ]].
      * destruct (d_exp T Y E o) as [e|] eqn:EX; [|discriminate].
        injection HC as HC. subst e.
        eexists. split; [rewrite E1; reflexivity|]. split; [|reflexivity].
        left. simpl. reflexivity.
      * exfalso. apply teqb_false in E0. apply E0. rewrite <- E1. exact HZ.
    + eexists. split; [reflexivity|]. split; [|reflexivity]. left. reflexivity.
Qed.

(* ghost invariant linking the object with the state set last *)
Definition tracks (o : dobj) (cur : option (T * S)) : Prop :=
  match cur with
  | None => d_set T Y E o = None
  | Some (ts, s) => exists t, d_set T Y E o = Some (t, vmulE (fromU s) (expd (tsub t ts)))
  end.

Lemma run_exact ops : forall o cur,
  cache_ok o -> tracks o cur -> fst (run ops o) = ref ops cur.
Proof.
  induction ops as [|op r IH]; intros o cur HC HT; [reflexivity|].
  destruct op as [t s|t]; simpl.
  - apply IH; [exact HC|]. simpl. exists t. rewrite tsub_refl, exp_zero. reflexivity.
  - destruct cur as [[ts s]|]; simpl in HT.
    + destruct HT as [t0 HS].
      destruct (integrate_step t o t0 _ HC HS) as (o' & HI & HC' & HS').
      rewrite HI.
      specialize (IH o' (Some (ts, s)) HC').
      destruct (run r o') as [outs ofin] eqn:ER. simpl in *.
      rewrite exp_add, tsub_chain in *.
      f_equal. apply IH. exists t. exact HS'.
    + unfold d_integrate. rewrite HT. reflexivity.
Qed.

(* from a freshly prepared integrator *)
Lemma diag_history_exact ops :
  fst (run ops (d_prepare T Y E tzero)) = ref ops None.
Proof. apply run_exact; [apply cache_prepare|reflexivity]. Qed.

(* the cache is sound after every history *)
Lemma run_cache ops : forall o, cache_ok o -> cache_ok (snd (run ops o)).
Proof.
  induction ops as [|op r IH]; intros o HC; [exact HC|].
  destruct op as [t s|t]; simpl.
  - apply IH. exact HC.
  - destruct (d_set T Y E o) as [[t0 y]|] eqn:HS.
    + destruct (integrate_step t o t0 y HC HS) as (o' & HI & HC' & _).
      rewrite HI. specialize (IH o' HC'). destruct (run r o'). exact IH.
    + unfold d_integrate. rewrite HS. exact HC.
Qed.
End Diag.
