(* C07 - proofs (Tier A).  See Props/C07.v for the property theorems. *)
From mathcomp Require Import all_ssreflect all_algebra.
From mathcomp Require Import mxtens.
From QV Require Import Base.MxHerm Model.C07 Gen.C07_terms.
Set Implicit Arguments. Unset Strict Implicit. Unset Printing Implicit Defensive.
Import GRing.Theory.
Local Open Scope ring_scope.

(* ------------------------------------------------ stacking / unstacking *)
Section Stack.
Variable R : fieldType.

Lemma cvecK m n (X : 'M[R]_(m,n)) : unvec (cvec X) = X.
Proof. by apply/matrixP=> r c; rewrite !mxE mxtens_indexK. Qed.

Lemma unvecK m n (v : 'cV[R]_(n * m)) : cvec (unvec v) = v.
Proof.
by apply/matrixP=> k j; rewrite !mxE ord1 -surjective_pairing mxtens_unindexK.
Qed.

Lemma cvec_inj m n : injective (@cvec R m n).
Proof. exact: (can_inj (@cvecK m n)). Qed.

Lemma cvec_add m n (X Y : 'M[R]_(m,n)) : cvec (X + Y) = cvec X + cvec Y.
Proof. by apply/matrixP=> k j; rewrite !mxE. Qed.
Lemma cvec_opp m n (X : 'M[R]_(m,n)) : cvec (- X) = - cvec X.
Proof. by apply/matrixP=> k j; rewrite !mxE. Qed.
Lemma cvec_sub m n (X Y : 'M[R]_(m,n)) : cvec (X - Y) = cvec X - cvec Y.
Proof. by rewrite cvec_add cvec_opp. Qed.
Lemma cvec_scale m n z (X : 'M[R]_(m,n)) : cvec (z *: X) = z *: cvec X.
Proof. by apply/matrixP=> k j; rewrite !mxE. Qed.
Lemma cvec0 m n : cvec (0 : 'M[R]_(m,n)) = 0.
Proof. by apply/matrixP=> k j; rewrite !mxE. Qed.

(* the stacked index is row + rows * col (superoperator.stacked_index) *)
Lemma cvec_index m n (X : 'M[R]_(m,n)) (r : 'I_m) (c : 'I_n) :
  cvec X (mxtens_index (c, r)) 0 = X r c /\
  (mxtens_index (c, r) : nat) = (r + m * c)%N.
Proof. by rewrite !mxE mxtens_indexK /= addnC mulnC. Qed.

(* vec(A X B) = (B^T (x) A) vec(X), any shapes *)
Lemma vec_sandwich m n p q (A : 'M[R]_(m,n)) (X : 'M[R]_(n,p)) (B : 'M[R]_(p,q)) :
  cvec (A *m X *m B) = (B^T *t A) *m cvec X.
Proof.
apply/matrixP=> k j; rewrite !mxE.
case: (mxtens_indexP k)=> c r; rewrite mxtens_indexK /=.
rewrite [RHS](reindex (@mxtens_index _ _)) /=; last first.
  by exists (@mxtens_unindex _ _)=> x _; rewrite ?mxtens_indexK ?mxtens_unindexK.
under eq_bigr=> c' _ do rewrite mxE big_distrl /=.
rewrite pair_big /=; apply: eq_bigr=> [[c' r']] _ /=.
by rewrite tensmxE !mxE mxtens_indexK /= mulrC mulrA.
Qed.

Lemma mx_ext_cV m n (M1 M2 : 'M[R]_(m,n)) :
  (forall v : 'cV[R]_n, M1 *m v = M2 *m v) -> M1 = M2.
Proof.
move=> H; apply/matrixP=> a b.
by have /matrixP/(_ a 0) := H (delta_mx b 0); rewrite -!colE !mxE.
Qed.

Lemma had_tr m n (A B : 'M[R]_(m,n)) : (had A B)^T = had A^T B^T.
Proof. by apply/matrixP=> r c; rewrite !mxE. Qed.
Lemma had_scale_const m n (A : 'M[R]_(m,n)) z g :
  had A (z *: const_mx g) = (z * g) *: A.
Proof. by apply/matrixP=> r c; rewrite !mxE mulrC. Qed.
End Stack.

(* the trace as a functional on stacked operators: vec(I)^T vec(X) = tr X *)
Section TraceFunctional.
Variable R : fieldType.
Lemma tr_cvec n (X : 'M[R]_n) : ((cvec (1%:M : 'M[R]_n))^T *m cvec X) = (\tr X)%:M.
Proof.
apply/matrixP=> a b; rewrite !ord1 !mxE eqxx mulr1n.
rewrite (reindex (@mxtens_index _ _)) /=; last first.
  by exists (@mxtens_unindex _ _)=> x _; rewrite ?mxtens_indexK ?mxtens_unindexK.
rewrite /mxtrace.
rewrite [RHS](eq_bigr (fun c => \sum_r (cvec (1%:M : 'M[R]_n))^T 0 (mxtens_index (c, r)) * cvec X (mxtens_index (c, r)) 0)); last first.
  move=> c _; rewrite (bigD1 c) //= !mxE mxtens_indexK /= eqxx mul1r big1 ?addr0 // => r /negbTE ne.
  by rewrite !mxE mxtens_indexK /= ne mul0r.
by rewrite pair_big /=; apply: eq_bigr=> [[c r]] _.
Qed.

Lemma row0_ext m (w : 'rV[R]_m) : (forall v : 'cV[R]_m, w *m v = 0) -> w = 0.
Proof.
move=> H; apply/matrixP=> a b; rewrite ord1 [in RHS]mxE.
by have /matrixP/(_ 0 0) := H (delta_mx b 0); rewrite -colE !mxE.
Qed.
End TraceFunctional.

(* ------------------------------------------------------- meta-theorem *)
Section Meta.
Variable R : fieldType.
Variable conj : {rmorphism R -> R}.
Variable n : nat.
Local Notation Sexpr := (Sexpr R n).
Local Notation den := (@den R conj n).
Local Notation act := (@act R conj n).

Lemma den_act (e : Sexpr) (X : 'M[R]_n) : den e *m cvec X = cvec (act e X).
Proof.
elim: e X=> [b a|b a|l IHl r IHr z|l IHl r IHr|z s IHs|l IHl r IHr|] X /=.
- by rewrite vec_sandwich trmxK.
- by rewrite vec_sandwich.
- by rewrite mulmxDl -scalemxAl IHl IHr cvec_add cvec_scale.
- by rewrite mulmxBl IHl IHr cvec_sub.
- by rewrite -scalemxAl IHs cvec_scale.
- by rewrite -mulmxA IHr IHl.
- by rewrite mul0mx cvec0.
Qed.

Lemma den_ext (e1 e2 : Sexpr) :
  (forall X, act e1 X = act e2 X) -> den e1 = den e2.
Proof.
move=> H; apply: mx_ext_cV=> v.
by rewrite -(unvecK v) !den_act H.
Qed.

Lemma trace_functional (e : Sexpr) :
  (forall X, \tr (act e X) = 0) -> (cvec (1%:M : 'M[R]_n))^T *m den e = 0.
Proof.
move=> H; apply: row0_ext=> v.
by rewrite -mulmxA -(unvecK v) den_act tr_cvec H; apply/matrixP=> a b; rewrite !mxE mul0rn.
Qed.

Lemma act_foldl (T : Type) (f : Sexpr -> T -> Sexpr) (g : T -> 'M[R]_n) X :
  (forall acc p, act (f acc p) X = act acc X + g p) ->
  forall cs acc, act (foldl f acc cs) X = act acc X + \sum_(p <- cs) g p.
Proof.
move=> Hf; elim=> [|p cs IH] acc /=; first by rewrite big_nil addr0.
by rewrite IH Hf big_cons addrA.
Qed.
End Meta.

(* --------------------------------------- theorems on the generated terms *)
Section Generated.
Variable R : fieldType.
Variable conj : {rmorphism R -> R}.
Hypothesis conjK : involutive conj.
Variable n : nat.
Variable i : R.
Hypothesis conj_i : conj i = - i.
Variable h : R.
Hypothesis hh : h + h = 1.
Variable expi : R -> R.
Hypothesis expi0 : expi 0 = 1.

Local Notation Oexpr := (Oexpr R n).
Local Notation Sexpr := (Sexpr R n).
Local Notation oden := (@oden R conj n).
Local Notation den := (@den R conj n).
Local Notation act := (@act R conj n).
Local Notation dag := (dag conj).
Local Notation dissip := (@dissip R conj n h).
Local Notation lindblad_rhs := (@lindblad_rhs R conj n i h expi).
Local Notation br_rhs := (@br_rhs R n h).

Definition ocs (cs : seq (Oexpr * R)) : seq ('M[R]_n * R) :=
  [seq (oden p.1, p.2) | p <- cs].

Lemma conj_h : conj h = h.
Proof.
have H2 : conj h + conj h = h + h by rewrite -rmorphD hh rmorph1.
have: (conj h - h) * (h + h) = 0.
  by rewrite mulrDr -mulrDl mulrC [X in h * X = _]addrACA -opprD H2 subrr mulr0.
by rewrite hh mulr1=> /eqP; rewrite subr_eq0=> /eqP.
Qed.

Lemma act_spre (A : Oexpr) X : act (gen_spre A) X = oden A *m X.
Proof. by rewrite /gen_spre /= trmx1 mulmx1. Qed.

Lemma act_spost (A : Oexpr) X : act (gen_spost A) X = X *m oden A.
Proof. by rewrite /gen_spost /= mul1mx. Qed.

Lemma act_sprepost (A B : Oexpr) X :
  act (gen_sprepost A B) X = oden A *m X *m oden B.
Proof. by []. Qed.

Lemma act_sprepost_evo (A B : Oexpr) X :
  act (gen_sprepost_evo A B) X = oden A *m X *m oden B.
Proof. by rewrite /gen_sprepost_evo /= trmx1 mulmx1 mul1mx mulmxA. Qed.

Lemma act_dissipator (a b : Oexpr) chi X :
  act (gen_lindblad_dissipator h expi a b chi) X
  = dissip (oden a) (oden b) (expi chi) X.
Proof.
rewrite /gen_lindblad_dissipator /dissip; case: eqP=> [->|_] /=;
  rewrite ?expi0 ?scale1r !trmx1 !mulmx1 !mul1mx !mulmxA //.
Qed.

Lemma act_liouvillian_noH (cs : seq (Oexpr * R)) X :
  act (gen_liouvillian_noH h expi cs) X
  = \sum_(p <- ocs cs) dissip p.1 p.1 (expi p.2) X.
Proof.
rewrite /gen_liouvillian_noH /ocs big_map /=.
rewrite (@act_foldl _ conj _ _ _
  (fun p : Oexpr * R => dissip (oden p.1) (oden p.1) (expi p.2) X)) /=.
  by rewrite add0r.
by move=> acc p /=; rewrite scale1r act_dissipator.
Qed.

Lemma act_liouvillian_qobj (H : Oexpr) (cs : seq (Oexpr * R)) X :
  act (gen_liouvillian_qobj i h expi H cs) X = lindblad_rhs (oden H) (ocs cs) X.
Proof.
rewrite /gen_liouvillian_qobj /lindblad_rhs /ocs big_map /=.
rewrite (@act_foldl _ conj _ _ _
  (fun p : Oexpr * R => dissip (oden p.1) (oden p.1) (expi p.2) X)) /=.
  by rewrite add0r scale1r trmx1 mulmx1 mul1mx.
by move=> acc p /=; rewrite scale1r act_dissipator.
Qed.

Lemma cjT_dag (A : 'M[R]_n) : (cj conj A)^T = dag A.
Proof. by rewrite /cj /MxHerm.dag map_trmx. Qed.

Lemma act_liouvillian_data (H : Oexpr) (cs : seq (Oexpr * R)) X :
  act (gen_liouvillian_data i h expi H cs) X = lindblad_rhs (oden H) (ocs cs) X.
Proof.
rewrite /gen_liouvillian_data /lindblad_rhs /ocs big_map /=.
rewrite (@act_foldl _ conj _ _ _
  (fun p : Oexpr * R => dissip (oden p.1) (oden p.1) (expi p.2) X)) /=.
  congr (_ + _).
  by rewrite trmx1 mulmx1 mul1mx scalerBr !scaleNr opprK.
move=> acc p /=; rewrite /dissip trmx1 mulmx1 mul1mx cjT_dag !scaleNr.
by rewrite -!addrA.
Qed.

(* ---- generator-level invariants of the specification ---- *)
Lemma tr_dissip (c : 'M[R]_n) X : \tr (dissip c c 1 X) = 0.
Proof.
rewrite /dissip scale1r !linearB /= !linearZ /=.
have -> : \tr (c *m X *m dag c) = \tr (dag c *m c *m X).
  by rewrite mxtrace_mulC mulmxA.
have -> : \tr (X *m (dag c *m c)) = \tr (dag c *m c *m X).
  by rewrite mxtrace_mulC.
set t := \tr _.
by rewrite -addrA -opprD -mulrDl hh mul1r subrr.
Qed.

Lemma tr_lindblad_rhs (H : 'M[R]_n) (cs : seq ('M[R]_n * R)) X :
  all (fun p => expi p.2 == 1) cs -> \tr (lindblad_rhs H cs X) = 0.
Proof.
move=> Hall; rewrite /lindblad_rhs linearD /= linearZ /= linearB /=.
rewrite (mxtrace_mulC H X) subrr mulr0 add0r.
rewrite raddf_sum /= big_seq_cond big1 // => p; rewrite andbT=> Hp.
by move/allP: Hall=> /(_ p Hp) /eqP ->; exact: tr_dissip.
Qed.

Lemma dag0 m k : dag (0 : 'M[R]_(m,k)) = 0.
Proof. by apply/matrixP=> r c; rewrite !mxE rmorph0. Qed.

Lemma dag_sum (T : Type) (s : seq T) (F : T -> 'M[R]_n) :
  dag (\sum_(p <- s) F p) = \sum_(p <- s) dag (F p).
Proof. by apply: (big_morph (fun M => dag M) (@dag_add _ conj _ _)); exact: dag0. Qed.

Lemma dag_dissip (c : 'M[R]_n) e X :
  conj e = e -> dag (dissip c c e X) = dissip c c e (dag X).
Proof.
move=> He; rewrite /dissip !dag_sub !dag_scale !dag_mul !(dagK conjK) He conj_h.
by rewrite !mulmxA -addrA [- _ - _]addrC addrA.
Qed.

Lemma dag_lindblad_rhs (H : 'M[R]_n) (cs : seq ('M[R]_n * R)) X :
  is_herm conj H -> all (fun p => conj (expi p.2) == expi p.2) cs ->
  dag (lindblad_rhs H cs X) = lindblad_rhs H cs (dag X).
Proof.
move=> HH Hall; rewrite /lindblad_rhs dag_add dag_scale dag_sub !dag_mul HH.
rewrite rmorphN conj_i opprK; congr (_ + _).
  by rewrite scaleNr -scalerN opprB.
rewrite dag_sum big_seq_cond [RHS]big_seq_cond; apply: eq_bigr=> p.
rewrite andbT=> Hp; move/allP: Hall=> /(_ p Hp) /eqP He.
exact: dag_dissip.
Qed.

(* ---- Bloch-Redfield: the matrix-operation route ---- *)
Lemma act_br_term_data (A S : Oexpr) X :
  act (gen_br_term_data h A S) X = br_rhs (oden A) (oden S) X.
Proof.
rewrite /gen_br_term_data /br_rhs /= scale1r trmx1 mulmx1 mul1mx.
rewrite !trmx_mul !had_tr !trmxK.
by rewrite [X in X - _ - _ = _]addrC.
Qed.

Lemma tr_br_rhs (A S X : 'M[R]_n) : \tr (br_rhs A S X) = 0.
Proof.
rewrite /br_rhs /=; set AS := had A (h *: S); set AST := had A (h *: S)^T.
rewrite !linearB /= linearD /=.
have -> : \tr (AST *m X *m A) = \tr (A *m AST *m X).
  by rewrite mxtrace_mulC mulmxA.
have -> : \tr (X *m (AS *m A)) = \tr (A *m X *m AS).
  by rewrite (mxtrace_mulC X) -(mulmxA AS) (mxtrace_mulC AS).
by rewrite addrAC addrK subrr.
Qed.

Lemma dag_had (A B : 'M[R]_n) : dag (had A B) = had (dag A) (dag B).
Proof. by apply/matrixP=> r c; rewrite !mxE rmorphM. Qed.

Lemma dag_br_rhs (A S X : 'M[R]_n) :
  is_herm conj A -> cj conj S = S ->
  dag (br_rhs A S X) = br_rhs A S (dag X).
Proof.
move=> HA HS; rewrite /br_rhs /=.
have E1 : dag (had A (h *: S)) = had A (h *: S)^T.
  by rewrite dag_had HA dag_scale conj_h -{1}HS (dag_cj conjK) linearZ.
have E2 : dag (had A (h *: S)^T) = had A (h *: S).
  by rewrite -E1 (dagK conjK).
rewrite !dag_sub dag_add !dag_mul E1 E2 HA !mulmxA.
rewrite [X in X - _ - _ = _]addrC -!addrA; congr (_ + (_ + _)).
by rewrite addrC.
Qed.

Lemma br_rhs_flat (A X : 'M[R]_n) g :
  is_herm conj A -> br_rhs A (const_mx g) X = g *: dissip A A 1 X.
Proof.
move=> HA; rewrite /br_rhs /dissip /= HA scale1r.
have -> : (h *: const_mx g : 'M[R]_n)^T = h *: const_mx g.
  by apply/matrixP=> r c; rewrite !mxE.
rewrite had_scale_const -!scalemxAl -!scalemxAr -scalemxAl.
rewrite !scalerBr !scalerA -!mulmxA.
rewrite -addrA -scalerDl -mulrDl hh mul1r.
by rewrite (mulrC g h) -!addrA.
Qed.
End Generated.
