(* C10 - the generator level and the route instances over MathComp matrices
   of arbitrary dimension (R any field with an involution `conj`, `ii` any
   element with conj ii = - ii; nothing else is assumed of the complex
   numbers). *)
From mathcomp Require Import all_ssreflect all_algebra.
From QV Require Import Base.MxHerm.
From QV Require Model.C10 Proofs.C10.
Set Implicit Arguments.
Unset Strict Implicit.
Unset Printing Implicit Defensive.
Import GRing.Theory.
Local Open Scope ring_scope.

Section Generator.
Variable R : fieldType.
Variable conj : {rmorphism R -> R}.
Hypothesis conjK : involutive conj.
Variable ii : R.
Hypothesis conj_ii : conj ii = - ii.

Local Notation dag := (dag conj).

(* SESolver.__init__ : rhs = -1j * H *)
Definition se_rhs n (H : 'M[R]_n) : 'M[R]_n := (- ii) *: H.
(* MESolver.__init__ without collapse operators: liouvillian(H) acting on rho
   is -i (H rho - rho H) *)
Definition me_act n (H rho : 'M[R]_n) : 'M[R]_n := (- ii) *: (H *m rho - rho *m H).

(* ket route vs density-matrix route: d/dt (psi psi^+) computed from the
   Schroedinger right-hand side is the von Neumann right-hand side *)
Lemma ket_dm_generator n (H : 'M[R]_n) (psi : 'cV[R]_n) :
  is_herm conj H ->
  me_act H (psi *m dag psi)
  = (se_rhs H *m psi) *m dag psi + psi *m dag (se_rhs H *m psi).
Proof.
  move=> hH. rewrite /me_act /se_rhs.
  rewrite dag_mul dag_scale rmorphN /= conj_ii opprK hH.
  rewrite -!scalemxAl -!scalemxAr scalerBr !mulmxA.
  by rewrite [in X in _ - X]scaleNr opprK.
Qed.

(* the von Neumann generator maps Hermitian matrices to Hermitian matrices
   (Hermiticity is preserved by every linear-combination step of an
   integrator) *)
Lemma me_act_herm n (H rho : 'M[R]_n) :
  is_herm conj H -> is_herm conj rho -> is_herm conj (me_act H rho).
Proof.
  move=> hH hr. rewrite /is_herm /me_act dag_scale rmorphN /= conj_ii opprK.
  rewrite dag_sub !dag_mul hH hr.
  by rewrite -(opprB (rho *m H) (H *m rho)) scalerN scaleNr opprK.
Qed.

(* and it is trace-free: the trace is constant along the flow and along
   every Runge-Kutta step *)
Lemma me_act_trace n (H rho : 'M[R]_n) : \tr (me_act H rho) = 0.
Proof.
  by rewrite /me_act mxtraceZ raddfB /= (mxtrace_mulC H rho) subrr mulr0.
Qed.
End Generator.

(* --------------------------------------------------------------------- *)
(* The Runge-Kutta kernel of Model/C10.v on matrices. *)
Section KernelOnMatrices.
Variable R : fieldType.
Import QV.Model.C10 QV.Proofs.C10.

Definition mx_step n m (tb : tableau R) (M : R -> 'M[R]_n) (t : R)
           (y : 'M[R]_(n,m)) (dt : R) : 'M[R]_(n,m) :=
  compute_step R 'M[R]_(n,m) +%R *%R 0 (fun c => c == 0) +%R *:%R
               (fun t v => M t *m v) tb t y dt.

Definition mx_session n m (tb : tableau R) (M : R -> 'M[R]_n)
           (ltb eqb : R -> R -> bool) (fuel : nat) (h : R) (ts : seq R)
           (y0 : 'M[R]_(n,m)) (t0 : R) :=
  session R 'M[R]_(n,m) +%R *%R (fun a b => a - b) (fun a b => a / b) 0
          (fun c => c == 0) ltb eqb +%R *:%R (fun t v => M t *m v) tb fuel h ts
          (set_initial_value R 'M[R]_(n,m) 0 y0 t0).

(* propagator route = state route, step by step, for any time dependence:
   evolving the identity (or any operator U0) and applying the result to
   psi0 gives what evolving U0 psi0 gives - every stored time, exact *)
Lemma propagator_route_session n m (tb : tableau R) (M : R -> 'M[R]_n)
      ltb eqb fuel h ts (U0 : 'M[R]_n) (psi0 : 'M[R]_(n,m)) t0 :
  List.map (option_map (fun p => (fst p, snd p *m psi0)))
           (mx_session tb M ltb eqb fuel h ts U0 t0)
  = mx_session tb M ltb eqb fuel h ts (U0 *m psi0) t0.
Proof.
  rewrite /mx_session.
  apply: (session_hom R 'M[R]_n 'M[R]_(n,m) +%R *%R (fun a b => a - b) (fun a b => a / b) 0
            (fun c => c == 0) ltb eqb +%R *:%R (fun t v => M t *m v) +%R *:%R
            (fun t v => M t *m v) (fun U : 'M[R]_n => U *m psi0)).
  - by move=> u v; rewrite mulmxDl.
  - by move=> c v; rewrite scalemxAl.
  - by move=> t v; rewrite mulmxA.
Qed.

(* column stacking as a linear map: cvec X lists the columns of X *)
Definition cvec n (X : 'M[R]_n) : 'cV[R]_(n * n) := (mxvec X^T)^T.

Lemma cvec_add n (X Y : 'M[R]_n) : cvec (X + Y) = cvec X + cvec Y.
Proof. by rewrite /cvec !linearD. Qed.
Lemma cvec_scale n c (X : 'M[R]_n) : cvec (c *: X) = c *: cvec X.
Proof. by rewrite /cvec !linearZ. Qed.
Lemma cvec_inj n : injective (@cvec n).
Proof.
  move=> X Y /(congr1 trmx). rewrite /cvec !trmxK => /(can_inj mxvecK).
  exact: trmx_inj.
Qed.

(* master-equation route: integrating the stacked density matrix with a
   super-operator matrix S(t) that represents the action act(t) (the
   statement S(t) vec X = vec (act t X) is C07's) gives the stacked result
   of integrating the density matrix itself - every stored time, exact *)
Lemma stacked_route_session n (tb : tableau R) (act : R -> 'M[R]_n -> 'M[R]_n)
      (S : R -> 'M[R]_(n * n)) ltb eqb fuel h ts (rho0 : 'M[R]_n) t0 :
  (forall t X, cvec (act t X) = S t *m cvec X) ->
  List.map (option_map (fun p => (fst p, cvec (snd p))))
    (session R 'M[R]_n +%R *%R (fun a b => a - b) (fun a b => a / b) 0
             (fun c => c == 0) ltb eqb +%R *:%R act tb fuel h ts
             (set_initial_value R 'M[R]_n 0 rho0 t0))
  = mx_session tb S ltb eqb fuel h ts (cvec rho0) t0.
Proof.
  move=> HS. rewrite /mx_session.
  apply: (session_hom R 'M[R]_n 'cV[R]_(n * n) +%R *%R (fun a b => a - b) (fun a b => a / b) 0
            (fun c => c == 0) ltb eqb +%R *:%R act +%R *:%R
            (fun t v => S t *m v) (@cvec n)).
  - exact: cvec_add.
  - exact: cvec_scale.
  - exact: HS.
Qed.

(* matrices satisfy the module laws of the linear-step theorem: for every
   dimension, every generator matrix M and every tableau, one step is the
   kernel's symbolic polynomial evaluated at M *)
Lemma mx_linear_step n m (tb : tableau R) (M : 'M[R]_n) t (y : 'M[R]_(n,m)) dt :
  mx_step tb (fun _ => M) t y dt
  = peval R 'M[R]_(n,m) +%R *:%R 0 (mulmx M) y
      (compute_step R (list R) +%R *%R 0 (fun c => c == 0)
         (padd R +%R) (pscal R *%R) (fun _ => pshift R 0) tb t [:: 1] dt).
Proof.
  rewrite /mx_step.
  apply: (step_is_polynomial R 'M[R]_(n,m) +%R *%R 0 1 (fun c => c == 0) +%R *:%R 0 (mulmx M)).
  - exact: addrC.
  - exact: addrA.
  - exact: addr0.
  - by move=> a b v; rewrite scalerDl.
  - by move=> c u v; rewrite scalerDr.
  - by move=> a b v; rewrite scalerA.
  - exact: scale0r.
  - exact: scale1r.
  - exact: scaler0.
  - by move=> u v; rewrite mulmxDr.
  - by move=> c v; rewrite -scalemxAr.
Qed.
(* ... and in Taylor form: y_front = sum_j p_j (dt M)^j y *)
Lemma mx_linear_step_taylor n m (tb : tableau R) (M : 'M[R]_n) t (y : 'M[R]_(n,m)) dt :
  mx_step tb (fun _ => M) t y dt
  = peval R 'M[R]_(n,m) +%R *:%R 0 (fun v => dt *: (M *m v)) y
      (compute_step R (list R) +%R *%R 0 (fun c => c == 0)
         (padd R +%R) (pscal R *%R) (fun _ => pshift R 0) tb t [:: 1] 1).
Proof.
  rewrite /mx_step.
  apply: (step_taylor_form R 'M[R]_(n,m) +%R *%R 0 1 (fun c => c == 0) +%R *:%R 0 (mulmx M)).
  - exact: mulrC.
  - exact: mul1r.
  - by move=> c v /eqP ->; rewrite scale0r.
  - exact: addrC.
  - exact: addrA.
  - exact: addr0.
  - by move=> a b v; rewrite scalerDl.
  - by move=> c u v; rewrite scalerDr.
  - by move=> a b v; rewrite scalerA.
  - exact: scale0r.
  - exact: scale1r.
  - exact: scaler0.
  - by move=> u v; rewrite mulmxDr.
  - by move=> c v; rewrite -scalemxAr.
Qed.
End KernelOnMatrices.
