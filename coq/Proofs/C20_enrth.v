(* C20 - enr_thermal_dm: the normalised weights are the product thermal state
   restricted to the allowed states and renormalised; exact rationals. *)
From Coq Require Import List ZArith QArith Bool Arith Lia Field.
Import ListNotations.
From QV Require Import Model.C20 Model.C20_b Proofs.C20_enum Proofs.C20_ext.
Open Scope Q_scope.

Lemma qsum_scale_l (l : list Q) c : qsum (map (fun x => c * x) l) == c * qsum l.
Proof.
  induction l as [|x l IH]; simpl; [ring|].
  fold (qsum (map (fun x0 => c * x0) l)). fold (qsum l). rewrite IH. ring.
Qed.

Lemma qsum_ext (f g : list Z -> Q) l : (forall x, In x l -> f x == g x) ->
  qsum (map f l) == qsum (map g l).
Proof.
  induction l as [|x l IH]; intros H; simpl; [reflexivity|].
  fold (qsum (map f l)). fold (qsum (map g l)).
  rewrite IH by (intros; apply H; now right). rewrite (H x) by now left. reflexivity.
Qed.

(* the full-space product weight is the ENR weight divided by the product of
   the single-mode partition sums *)
Lemma prod_weight_factor : forall dims n st,
  length n = length dims -> length st = length dims ->
  (forall d nk, In (d, nk) (combine dims n) -> ~ partition d nk == 0) ->
  prod_weight dims n st == enr_weight n st / partition_prod dims n.
Proof.
  induction dims as [|d dr IH]; intros n st Ln Ls Hp.
  - destruct n; [|discriminate]. simpl. field.
  - destruct n as [|nk nr]; [discriminate|]. destruct st as [|sk sr]; [discriminate|].
    simpl in Ln, Ls. cbn [prod_weight enr_weight partition_prod].
    rewrite (IH nr sr) by (try lia; intros; apply Hp; now right).
    assert (H1 : ~ partition d nk == 0) by (apply Hp; now left).
    assert (H2 : ~ partition_prod dr nr == 0).
    { clear - Hp Ln. revert nr Ln Hp. induction dr as [|d2 dr IH2]; intros nr Ln Hp.
      - destruct nr; simpl; discriminate.
      - destruct nr as [|n2 nr]; [discriminate|]. cbn [partition_prod].
        intros E. apply Qmult_integral in E as [E|E].
        + revert E. apply Hp. right. now left.
        + revert E. apply (IH2 nr); [simpl in Ln; lia|].
          intros d0 nk0 Hin. apply Hp. simpl in Hin |- *. destruct Hin as [Hin|Hin]; [now left|right; now right]. }
    field. split; assumption.
Qed.

(* normalisation *)
Lemma enr_thermal_trace sts n : ~ qsum (map (enr_weight n) sts) == 0 ->
  qsum (enr_thermal sts n) == 1.
Proof.
  intros H. unfold enr_thermal. cbv zeta. rewrite qsum_scale. field. exact H.
Qed.

(* the restricted and renormalised product state has the same populations *)
Lemma enr_thermal_restricted_product dims n sts :
  length n = length dims -> (forall st, In st sts -> length st = length dims) ->
  (forall d nk, In (d, nk) (combine dims n) -> ~ partition d nk == 0) ->
  ~ qsum (map (enr_weight n) sts) == 0 ->
  forall st, In st sts ->
    prod_weight dims n st / qsum (map (prod_weight dims n) sts)
    == enr_weight n st / qsum (map (enr_weight n) sts).
Proof.
  intros Ln Ls Hp Hs st Hin.
  assert (HP : ~ partition_prod dims n == 0).
  { clear - Hp Ln. revert n Ln Hp. induction dims as [|d dr IH]; intros n Ln Hp.
    - destruct n; simpl; discriminate.
    - destruct n as [|nk nr]; [discriminate|]. cbn [partition_prod].
      intros E. apply Qmult_integral in E as [E|E].
      + revert E. apply Hp. now left.
      + revert E. apply (IH nr); [simpl in Ln; lia|]. intros; apply Hp; now right. }
  rewrite (prod_weight_factor dims n st Ln (Ls st Hin) Hp).
  rewrite (qsum_ext (prod_weight dims n) (fun t => (/ partition_prod dims n) * enr_weight n t) sts).
  2:{ intros t Ht. rewrite (prod_weight_factor dims n t Ln (Ls t Ht) Hp). field. exact HP. }
  rewrite <- (map_map (enr_weight n) (fun x => / partition_prod dims n * x)).
  rewrite qsum_scale_l. field. split; assumption.
Qed.

(* for non-negative occupations the normalising sum is positive as soon as
   the vacuum is among the states (it always is: C20_enumerate_exact) *)
Lemma enr_weight_nonneg : forall n st, (forall nk, In nk n -> 0 <= nk) -> 0 <= enr_weight n st.
Proof.
  induction n as [|nk nr IH]; intros st H; [destruct st; discriminate|].
  destruct st as [|sk sr]; [discriminate|]. cbn [enr_weight].
  apply Qmult_le_0_compat.
  - apply qpow_nonneg. unfold Qdiv. apply Qmult_le_0_compat; [apply H; now left|].
    apply Qinv_le_0_compat. apply Qle_trans with (1 + 0); [discriminate|].
    apply Qplus_le_r. apply H. now left.
  - apply IH. intros; apply H; now right.
Qed.

Lemma enr_weight_vacuum : forall n st, (forall s, In s st -> s = 0%Z) -> enr_weight n st == 1.
Proof.
  induction n as [|nk nr IH]; intros st H; [destruct st; reflexivity|].
  destruct st as [|sk sr]; [reflexivity|]. cbn [enr_weight].
  rewrite (H sk) by now left. simpl qpow. rewrite IH by (intros; apply H; now right). ring.
Qed.

Lemma qsum_nonneg_ge (f : list Z -> Q) l x : (forall t, In t l -> 0 <= f t) -> In x l ->
  f x <= qsum (map f l).
Proof.
  induction l as [|y l IH]; intros H Hin; [destruct Hin|]. simpl. fold (qsum (map f l)).
  destruct Hin as [->|Hin].
  - apply Qle_trans with (f x + 0); [rewrite Qplus_0_r; apply Qle_refl|].
    apply Qplus_le_r. clear IH. induction l as [|z l IHl]; simpl; [apply Qle_refl|].
    fold (qsum (map f l)). apply Qle_trans with (0 + 0); [discriminate|].
    apply Qplus_le_compat; [apply H; right; now left|apply IHl; intros; apply H; simpl in *; tauto].
  - apply Qle_trans with (0 + qsum (map f l)); [rewrite Qplus_0_l; apply IH; [intros; apply H; now right|exact Hin]|].
    apply Qplus_le_l. apply H. now left.
Qed.

Lemma enr_thermal_sum_positive sts n vac :
  (forall nk, In nk n -> 0 <= nk) -> In vac sts -> (forall s, In s vac -> s = 0%Z) ->
  ~ qsum (map (enr_weight n) sts) == 0.
Proof.
  intros Hn Hv Hz E.
  pose proof (qsum_nonneg_ge (enr_weight n) sts vac (fun t _ => enr_weight_nonneg n t Hn) Hv) as H.
  rewrite E, (enr_weight_vacuum n vac Hz) in H. unfold Qle in H. simpl in H. lia.
Qed.
