(* C20 - the algebraic constructions behind the random generators, over an
   arbitrary commutative ring R with an involutive conjugation cj that is a
   ring morphism (Section variables: this is all that is assumed of the
   complex numbers).  Matrices are index functions nat -> nat -> R, sums and
   products are those of Proofs/C20.v. *)
From Coq Require Import List ZArith Bool Arith Lia Ring.
Import ListNotations.
From QV Require Import Model.C20 Proofs.C20.

Section Inv.
  Variable R : Type.
  Variables (rO rI : R) (radd rmul rsub : R -> R -> R) (ropp : R -> R).
  Variable Rth : ring_theory rO rI radd rmul rsub ropp eq.
  Add Ring Rring2 : Rth.
  Notation "x +r y" := (radd x y) (at level 50, left associativity).
  Notation "x *r y" := (rmul x y) (at level 40, left associativity).
  Notation "x -r y" := (rsub x y) (at level 50, left associativity).
  Notation sum := (sumn R rO radd).
  Notation mm := (mmul R rO radd rmul).

  Variable cj : R -> R.
  Hypothesis cj_add : forall a b, cj (a +r b) = cj a +r cj b.
  Hypothesis cj_mul : forall a b, cj (a *r b) = cj a *r cj b.
  Hypothesis cj_inv : forall a, cj (cj a) = a.

  Lemma cj_0 : cj rO = rO.
  Proof.
    assert (E : cj rO +r cj rO = cj rO) by (rewrite <- cj_add; f_equal; ring).
    transitivity ((cj rO +r cj rO) -r cj rO); [ring|rewrite E; ring].
  Qed.

  Lemma cj_sum n f : cj (sum n f) = sum n (fun k => cj (f k)).
  Proof. induction n as [|n IH]; simpl; [apply cj_0|]. now rewrite cj_add, IH. Qed.

  Definition hermitian (n : nat) (A : nat -> nat -> R) : Prop :=
    forall i j, (i < n)%nat -> (j < n)%nat -> cj (A j i) = A i j.

  (* _rand_herm_dense / _rand_herm_sparse / rand_stochastic:
       M = 0.5 * (M + M.conj().transpose())     (h real: cj h = h) *)
  Definition herm_part (h : R) (M : nat -> nat -> R) : nat -> nat -> R :=
    fun i j => h *r (M i j +r cj (M j i)).
  Lemma herm_part_hermitian n h M : cj h = h -> hermitian n (herm_part h M).
  Proof.
    intros Hh i j _ _. unfold herm_part. rewrite cj_mul, cj_add, cj_inv, Hh. ring.
  Qed.

  (* _rand_herm_dense: M[col,row] = 0; M[row,col] = 0 *)
  Definition zero_pair (r c : nat) (M : nat -> nat -> R) : nat -> nat -> R :=
    fun i j => if ((i =? r)%nat && (j =? c)%nat) || ((i =? c)%nat && (j =? r)%nat)
               then rO else M i j.
  Lemma zero_pair_hermitian n r c M : hermitian n M -> hermitian n (zero_pair r c M).
  Proof.
    intros H i j Hi Hj. unfold zero_pair.
    replace (((j =? r)%nat && (i =? c)%nat) || ((j =? c)%nat && (i =? r)%nat))
      with (((i =? r)%nat && (j =? c)%nat) || ((i =? c)%nat && (j =? r)%nat))
      by (destruct (i =? r)%nat, (j =? c)%nat, (i =? c)%nat, (j =? r)%nat; reflexivity).
    destruct (((i =? r)%nat && (j =? c)%nat) || ((i =? c)%nat && (j =? r)%nat));
      [apply cj_0|now apply H].
  Qed.

  (* pos_def: a real number is added on the diagonal *)
  Definition add_diag (c : nat -> R) (M : nat -> nat -> R) : nat -> nat -> R :=
    fun i j => if (i =? j)%nat then M i j +r c i else M i j.
  Lemma add_diag_hermitian n c M :
    (forall i, cj (c i) = c i) -> hermitian n M -> hermitian n (add_diag c M).
  Proof.
    intros Hc H i j Hi Hj. unfold add_diag. rewrite (Nat.eqb_sym j i).
    destruct (i =? j)%nat eqn:Q; [|now apply H].
    apply Nat.eqb_eq in Q. subst j. rewrite cj_add, Hc. now rewrite (H i i Hi Hi).
  Qed.

  (* _rand_dm_ginibre / rand_super_bcsz: rho = X X^dagger (X is n x m) *)
  Definition gram (m : nat) (X : nat -> nat -> R) : nat -> nat -> R :=
    fun i j => sum m (fun k => X i k *r cj (X j k)).
  Lemma gram_hermitian n m X : hermitian n (gram m X).
  Proof.
    intros i j _ _. unfold gram. rewrite cj_sum. apply sumn_ext. intros k _.
    rewrite cj_mul, cj_inv. ring.
  Qed.

  Lemma sum_scal_r n c f : sum n (fun k => f k *r c) = sum n f *r c.
  Proof. induction n as [|n IH]; simpl; [ring|rewrite IH; ring]. Qed.

  Lemma sum_mul n m f g :
    sum n f *r sum m g = sum n (fun i => sum m (fun j => f i *r g j)).
  Proof.
    induction n as [|n IH]; simpl; [ring|].
    rewrite <- IH. rewrite (sumn_scal R rO rI radd rmul rsub ropp Rth m (f n) g). ring.
  Qed.

  (* positive semidefinite form: x^dagger (X X^dagger) x = sum_k |(X^dagger x)_k|^2 *)
  Theorem gram_quadratic_form n m X (x : nat -> R) :
    sum n (fun i => sum n (fun j => cj (x i) *r gram m X i j *r x j)) =
    sum m (fun k => let y := sum n (fun i => cj (X i k) *r x i) in cj y *r y).
  Proof.
    cbv zeta.
    transitivity (sum m (fun k => sum n (fun i => sum n (fun j =>
                     (X i k *r cj (x i)) *r (cj (X j k) *r x j))))).
    - transitivity (sum n (fun i => sum m (fun k => sum n (fun j =>
                     (X i k *r cj (x i)) *r (cj (X j k) *r x j))))).
      + apply sumn_ext. intros i _.
        transitivity (sum n (fun j => sum m (fun k =>
                     (X i k *r cj (x i)) *r (cj (X j k) *r x j)))).
        * apply sumn_ext. intros j _. unfold gram.
          rewrite <- (sumn_scal R rO rI radd rmul rsub ropp Rth m (cj (x i))).
          rewrite <- sum_scal_r. apply sumn_ext. intros k _. ring.
        * apply (sumn_swap R rO rI radd rmul rsub ropp Rth).
      + apply (sumn_swap R rO rI radd rmul rsub ropp Rth).
    - apply sumn_ext. intros k _. rewrite cj_sum. rewrite sum_mul.
      apply sumn_ext. intros i _. apply sumn_ext. intros j _.
      rewrite cj_mul, cj_inv. ring.
  Qed.

  (* trace of X X^dagger is real, so dividing by it keeps the matrix Hermitian *)
  Lemma trace_gram_real n m X : cj (sum n (fun i => gram m X i i)) = sum n (fun i => gram m X i i).
  Proof.
    rewrite cj_sum. apply sumn_ext. intros i Hi.
    exact (gram_hermitian n m X i i Hi Hi).
  Qed.
  Lemma scale_hermitian n t A : cj t = t -> hermitian n A -> hermitian n (fun i j => t *r A i j).
  Proof. intros Ht H i j Hi Hj. rewrite cj_mul, Ht. now rewrite (H i j Hi Hj). Qed.

  (* rand_dm: rho / tr(rho) has unit trace whenever tr(rho) is invertible *)
  Lemma unit_trace n A tinv :
    sum n (fun i => A i i) *r tinv = rI -> sum n (fun i => A i i *r tinv) = rI.
  Proof. intros H. now rewrite sum_scal_r. Qed.

  (* rand_stochastic: every row is divided by its sum *)
  Lemma stochastic_rows n M (rinv : nat -> R) i :
    sum n (fun j => M i j) *r rinv i = rI -> sum n (fun j => M i j *r rinv i) = rI.
  Proof. intros H. now rewrite sum_scal_r. Qed.

  (* rand_kraus_map: the first N columns V of a unitary on N^3 dimensions are
     cut into N^2 blocks  K_a[i][j] = V[a*N + i][j];  sum_a K_a^dagger K_a = V^dagger V *)
  Lemma sum_split p q f : sum (p + q) f = sum p f +r sum q (fun i => f (p + i)%nat).
  Proof.
    induction q as [|q IHq]; [rewrite Nat.add_0_r; simpl; ring|].
    rewrite Nat.add_succ_r. simpl. rewrite IHq. ring.
  Qed.

  Lemma sum_block A N f :
    sum (A * N) f = sum A (fun a => sum N (fun i => f (a * N + i)%nat)).
  Proof.
    induction A as [|A IH]; [reflexivity|].
    rewrite Nat.mul_succ_l, sum_split, IH. reflexivity.
  Qed.

  Theorem kraus_completeness N (V : nat -> nat -> R) :
    (* columns of V orthonormal: (V^dagger V) = 1 on N x N, rows 0 .. N^2*N-1 *)
    (forall j j', (j < N)%nat -> (j' < N)%nat ->
       sum (N * N * N) (fun r => cj (V r j) *r V r j') = if (j =? j')%nat then rI else rO) ->
    forall j j', (j < N)%nat -> (j' < N)%nat ->
      sum (N * N) (fun a => sum N (fun i => cj (V (a * N + i)%nat j) *r V (a * N + i)%nat j'))
      = if (j =? j')%nat then rI else rO.
  Proof.
    intros H j j' Hj Hj'. rewrite <- (H j j' Hj Hj').
    symmetry. apply (sum_block (N * N) N (fun r => cj (V r j) *r V r j')).
  Qed.
End Inv.
