(* C16 - proofs about the model of MCIntegrator (Model/C16.v).
   Part 1: any number type whose comparisons satisfy two order laws.
   Part 2: exact rational arithmetic (instance QN). *)
From Coq Require Import List Bool Arith ZArith QArith Qabs Lia Lqa.
Import ListNotations.
From QV Require Import Model.C16.
Local Open Scope nat_scope.

(* ===================================================== Part 1: generic *)
Section Generic.
Variable N : Num.
Notation TT := (T N).
Variable o : opts N.
Variable nrm2 : nat -> TT -> TT.
Variable lg : TT -> TT.
Variable stp : nat -> TT -> TT -> TT.
Variable rate : nat -> TT -> TT -> nat -> TT.
Variable jnorm : nat -> TT -> TT -> nat -> TT.
Variable rnd : nat -> TT.
Variable nch : nat.

Hypothesis lt_le : forall a b, ltb N a b = true -> leb N a b = true.
Hypothesis nlt_le : forall a b, ltb N a b = false -> leb N b a = true.

Notation fct := (fct_loop N o nrm2 lg stp).

(* --- tries / termination *)
Lemma fct_tries :
  forall fuel tries sg reqs cur tp tf no n tg,
    match fct fuel tries sg reqs cur tp tf no n tg with
    | Broke _ _ _ tr rq =>
        tries < tr /\ tr <= tries + fuel /\
        length rq <= length reqs + (tr - tries) /\ length reqs + (tr - tries) <= S (length rq)
    | LoopEnd _ tr rq => tr = tries + fuel /\ length rq = length reqs + fuel
    end.
Proof.
  induction fuel as [|f IH]; intros tries sg reqs cur tp tf no n tg; simpl.
  - split; lia.
  - destruct (leb N tf (add N tp (norm_t_tol N o))) eqn:Hw.
    + repeat split; lia.
    + set (g := clamp_guess N o tp (secant N lg tp tf no n tg)).
      destruct (ltb N (absv N (sub N tg (nrm2 sg (stp sg cur g)))) (mul N (norm_tol N o) tg)) eqn:Hn.
      * cbn [length]. repeat split; lia.
      * destruct (ltb N (nrm2 sg (stp sg cur g)) tg) eqn:Hl.
        -- specialize (IH (S tries) sg (g :: reqs) (stp sg cur g) tp g no (nrm2 sg (stp sg cur g)) tg).
           destruct (fct f (S tries) sg (g :: reqs) (stp sg cur g) tp g no (nrm2 sg (stp sg cur g)) tg);
             cbv iota beta in *; cbn [length] in *; lia.
        -- specialize (IH (S tries) sg (g :: reqs) (stp sg cur g) g tf (nrm2 sg (stp sg cur g)) n tg).
           destruct (fct f (S tries) sg (g :: reqs) (stp sg cur g) g tf (nrm2 sg (stp sg cur g)) n tg);
             cbv iota beta in *; cbn [length] in *; lia.
Qed.

(* --- the bracket invariant and what a `break` guarantees.
   The ODE integrator answers interpolation requests exactly (Hstp). *)
Section Bracket.
Hypothesis Hstp : forall sg c g, stp sg c g = g.
Variables (sg : nat) (tp0 tf0 no0 n0 tg : TT).

(* the value the code holds for the squared norm at an end of the bracket:
   the one it was called with, or the one it computed at that time *)
Definition held (t v t0 v0 : TT) : Prop := (t = t0 /\ v = v0) \/ v = nrm2 sg t.

Definition binv (cur tp tf no n : TT) : Prop :=
  leb N tg no = true /\ leb N n tg = true /\ (cur = tp \/ cur = tf) /\
  held tp no tp0 no0 /\ held tf n tf0 n0.

(* outcome of a successful search *)
Definition found_ok (g s : TT) : Prop :=
  (s = g /\ ltb N (absv N (sub N tg (nrm2 sg g))) (mul N (norm_tol N o) tg) = true)
  \/ (exists tp tf no n,
        leb N tf (add N tp (norm_t_tol N o)) = true /\ g = tf /\ (s = tp \/ s = tf) /\
        leb N tg no = true /\ leb N n tg = true /\
        held tp no tp0 no0 /\ held tf n tf0 n0).

Lemma fct_bracket :
  forall fuel tries reqs cur tp tf no n,
    binv cur tp tf no n ->
    forall g s tr rq, fct fuel tries sg reqs cur tp tf no n tg = Broke N g s tr rq ->
    found_ok g s.
Proof.
  induction fuel as [|f IH]; intros tries reqs cur tp tf no n HI g s tr rq; simpl.
  - discriminate.
  - destruct HI as (H1 & H2 & H3 & H4 & H5).
    destruct (leb N tf (add N tp (norm_t_tol N o))) eqn:Hw.
    + intros E; inversion E; subst. right. exists tp, g, no, n. repeat split; auto.
    + set (gg := clamp_guess N o tp (secant N lg tp tf no n tg)).
      rewrite (Hstp sg cur gg).
      destruct (ltb N (absv N (sub N tg (nrm2 sg gg))) (mul N (norm_tol N o) tg)) eqn:Hn.
      * intros E; inversion E; subst. left. split; auto.
      * destruct (ltb N (nrm2 sg gg) tg) eqn:Hl.
        -- apply IH. unfold binv, held. repeat split; auto.
        -- apply IH. unfold binv, held. repeat split; auto.
Qed.
End Bracket.

(* --- find_collapse: success iff the loop broke, which it can only do within
   norm_steps tries *)
Lemma find_collapse_some :
  forall sg cur tp tf no n tg g s,
    fst (find_collapse N o nrm2 lg stp sg cur tp tf no n tg) = Some (g, s) <->
    exists tr rq, fct (norm_steps N o) 0 sg [] cur tp tf no n tg = Broke N g s tr rq
                  /\ 1 <= tr <= norm_steps N o.
Proof.
  intros. unfold find_collapse.
  pose proof (fct_tries (norm_steps N o) 0 sg [] cur tp tf no n tg) as Ht.
  destruct (fct (norm_steps N o) 0 sg [] cur tp tf no n tg) as [g' s' tr rq|tr rq]; simpl.
  - split.
    + intros H; inversion H; subst. exists tr, rq. split; [reflexivity|lia].
    + intros (tr' & rq' & H & _). inversion H; subst. reflexivity.
  - split; [discriminate|]. intros (tr' & rq' & H & _). discriminate.
Qed.

(* the error is raised exactly when norm_steps tries went by without success *)
Lemma find_collapse_none :
  forall sg cur tp tf no n tg,
    fst (find_collapse N o nrm2 lg stp sg cur tp tf no n tg) = None <->
    exists rq, fct (norm_steps N o) 0 sg [] cur tp tf no n tg = LoopEnd N (norm_steps N o) rq.
Proof.
  intros. unfold find_collapse.
  pose proof (fct_tries (norm_steps N o) 0 sg [] cur tp tf no n tg) as Ht.
  destruct (fct (norm_steps N o) 0 sg [] cur tp tf no n tg) as [g' s' tr rq|tr rq]; simpl.
  - split; [discriminate|]. intros (rq' & H). discriminate.
  - split; [|reflexivity]. intros _. destruct Ht as (E & _). exists rq. f_equal. exact E.
Qed.

(* --- _do_collapse *)
Notation docol := (do_collapse N o rate jnorm rnd nch).

(* searchsorted: everything before the returned index is < v, the element at
   the returned index is not *)
Lemma prefix_lt_spec :
  forall (l : list TT) v d,
    prefix_lt N l v <= length l /\
    (forall i, i < prefix_lt N l v -> ltb N (nth i l d) v = true) /\
    (prefix_lt N l v < length l -> ltb N (nth (prefix_lt N l v) l d) v = false).
Proof.
  induction l as [|a r IH]; intros v d; simpl.
  - repeat split; intros; lia.
  - destruct (ltb N a v) eqn:E.
    + destruct (IH v d) as (A & B & C). repeat split.
      * lia.
      * intros [|i] Hi; [exact E|]. apply B. lia.
      * intros Hlt. apply C. lia.
    + repeat split; try lia. intros _. exact E.
Qed.

(* a collapse is recorded iff the image of the state under the chosen
   operator is not below mc_corr_eps; the threshold is redrawn exactly then;
   the integrator is always restarted at the collapse time *)
Lemma do_collapse_spec :
  forall st tc s,
    let st' := docol st tc s in
    seg N st' = S (seg N st) /\ cur N st' = tc /\ reqlog N st' = reqlog N st /\
    ((cols N st' = cols N st /\ target N st' = target N st /\
      exists k, ltb N (jnorm (seg N st) tc s k) (mc_corr_eps N o) = true /\
                ndraw N st' = (if Nat.eqb nch 1 then ndraw N st else S (ndraw N st)))
     \/ (exists k, cols N st' = (tc, k) :: cols N st /\
                   ltb N (jnorm (seg N st) tc s k) (mc_corr_eps N o) = false /\
                   ndraw N st' = S (if Nat.eqb nch 1 then ndraw N st else S (ndraw N st)) /\
                   target N st' = rnd (ndraw N st' - 1) /\
                   (nch = 1 -> k = 0) /\
                   (nch <> 1 -> k = which_of N (map (rate (seg N st) tc s) (seq 0 nch))
                                              (rnd (ndraw N st))))).
Proof.
  intros st tc s. unfold do_collapse.
  destruct (Nat.eqb nch 1) eqn:E1.
  - apply Nat.eqb_eq in E1.
    destruct (ltb N (jnorm (seg N st) tc s 0) (mc_corr_eps N o)) eqn:E2; simpl.
    + repeat split; auto. left. repeat split; auto. exists 0. auto.
    + repeat split; auto. right. exists 0. repeat split; auto;
        try (intros; lia); simpl; try rewrite Nat.sub_0_r; reflexivity.
  - apply Nat.eqb_neq in E1.
    set (k := which_of N (map (rate (seg N st) tc s) (seq 0 nch)) (rnd (ndraw N st))).
    destruct (ltb N (jnorm (seg N st) tc s k) (mc_corr_eps N o)) eqn:E2; simpl.
    + repeat split; auto. left. repeat split; auto. exists k. auto.
    + repeat split; auto. right. exists k. repeat split; auto;
        try (intros; lia); simpl; try rewrite Nat.sub_0_r; reflexivity.
Qed.

(* --- integrate *)
Notation iloop := (integ_loop N o nrm2 lg stp rate jnorm rnd nch).

(* collapses and random numbers are only ever appended / consumed *)
Definition extends (st st' : mstate N) : Prop :=
  (exists l, cols N st' = l ++ cols N st) /\ ndraw N st <= ndraw N st' /\
  seg N st <= seg N st' /\ (exists l, reqlog N st' = l ++ reqlog N st).

Lemma extends_refl st : extends st st.
Proof. repeat split; auto; try (exists []; reflexivity). Qed.

Lemma extends_trans a b c : extends a b -> extends b c -> extends a c.
Proof.
  intros ((l1 & A1) & A2 & A3 & (m1 & A4)) ((l2 & B1) & B2 & B3 & (m2 & B4)).
  repeat split; try lia.
  - exists (l2 ++ l1). rewrite B1, A1, app_assoc. reflexivity.
  - exists (m2 ++ m1). rewrite B4, A4, app_assoc. reflexivity.
Qed.

Lemma do_collapse_extends st tc s : extends st (docol st tc s).
Proof.
  destruct (do_collapse_spec st tc s) as (A & B & C & [(D & E & k & F & G)|(k & D & E & F & G)]).
  - repeat split.
    + exists []. rewrite D. reflexivity.
    + rewrite G. destruct (Nat.eqb nch 1); lia.
    + lia.
    + exists []. rewrite C. reflexivity.
  - repeat split.
    + exists [(tc, k)]. rewrite D. reflexivity.
    + rewrite F. destruct (Nat.eqb nch 1); lia.
    + lia.
    + exists []. rewrite C. reflexivity.
Qed.

(* result of integrate: collapses, random numbers, segments and the request
   log only grow; on normal return the time reached is not before the
   requested one *)
Lemma ext_step (st : mstate N) (c' : TT) l :
  extends st (mkSt N (seg N st) c' (target N st) (ndraw N st) (cols N st) (sets N st)
                   (l ++ reqlog N st)).
Proof.
  unfold extends; simpl. split; [exists []; reflexivity|]. split; [lia|]. split; [lia|].
  exists l; reflexivity.
Qed.

Lemma integ_loop_spec :
  forall fuel st t t_old no,
    match iloop fuel st t t_old no with
    | Done _ st' tr => extends st st' /\ leb N t tr = true
    | Raised _ st' => extends st st'
    | OutOfFuel _ st' => extends st st'
    end.
Proof.
  induction fuel as [|f IH]; intros st t t_old no; simpl.
  - apply extends_refl.
  - destruct (ltb N t_old t) eqn:Hlt.
    + set (t_step := stp (seg N st) (cur N st) t).
      set (st1 := mkSt N (seg N st) t_step (target N st) (ndraw N st) (cols N st) (sets N st)
                       (t :: reqlog N st)).
      assert (E1 : extends st st1) by (apply (ext_step st t_step [t])).
      destruct (leb N (nrm2 (seg N st) t_step) (target N st)) eqn:Hle.
      * destruct (find_collapse N o nrm2 lg stp (seg N st) t_step t_old t_step no
                                (nrm2 (seg N st) t_step) (target N st)) as [[[tc s]|] rq] eqn:Hf.
        -- cbv beta iota. set (st2 := mkSt N (seg N st) s (target N st) (ndraw N st) (cols N st)
                            (sets N st) (rq ++ t :: reqlog N st)).
           assert (E2 : extends st1 st2) by (apply (ext_step st1 s rq)).
           pose proof (do_collapse_extends st2 tc s) as E3.
           assert (E4 : extends st (docol st2 tc s)).
           { eapply extends_trans; [exact E1|]. eapply extends_trans; [exact E2|exact E3]. }
           specialize (IH (docol st2 tc s) t tc (one N)).
           destruct (iloop f (docol st2 tc s) t tc (one N)) as [st' tr|st'|st']; cbv beta iota in *.
           ++ destruct IH as (A & B). split; [eapply extends_trans; eauto|exact B].
           ++ eapply extends_trans; eauto.
           ++ eapply extends_trans; eauto.
        -- cbv beta iota. eapply extends_trans; [exact E1|]. apply (ext_step st1 (cur N st1) rq).
      * specialize (IH st1 t t_step (nrm2 (seg N st) t_step)).
        destruct (iloop f st1 t t_step (nrm2 (seg N st) t_step)) as [st' tr|st'|st']; cbv beta iota in *.
        -- destruct IH as (A & B). split; [eapply extends_trans; eauto|exact B].
        -- eapply extends_trans; eauto.
        -- eapply extends_trans; eauto.
    + split; [apply extends_refl|apply nlt_le; exact Hlt].
Qed.

(* no set_state during integrate => every step ended above the threshold:
   stated on the loop with an explicit "last norm" *)
Lemma integ_loop_nojump :
  forall fuel st t t_old no st' tr,
    iloop fuel st t t_old no = Done N st' tr ->
    seg N st' = seg N st ->
    cols N st' = cols N st /\ ndraw N st' = ndraw N st /\ target N st' = target N st /\
    ((tr = t_old /\ cur N st' = cur N st) \/
     (tr = cur N st' /\ leb N (nrm2 (seg N st) tr) (target N st) = false)).
Proof.
  induction fuel as [|f IH]; intros st t t_old no st' tr; simpl.
  - discriminate.
  - destruct (ltb N t_old t) eqn:Hlt.
    + set (t_step := stp (seg N st) (cur N st) t).
      set (st1 := mkSt N (seg N st) t_step (target N st) (ndraw N st) (cols N st) (sets N st)
                       (t :: reqlog N st)).
      destruct (leb N (nrm2 (seg N st) t_step) (target N st)) eqn:Hle.
      * destruct (find_collapse N o nrm2 lg stp (seg N st) t_step t_old t_step no
                                (nrm2 (seg N st) t_step) (target N st)) as [[[tc s]|] rq] eqn:Hf.
        -- cbv beta iota. set (st2 := mkSt N (seg N st) s (target N st) (ndraw N st) (cols N st)
                            (sets N st) (rq ++ t :: reqlog N st)).
           intros E Hs. exfalso.
           pose proof (integ_loop_spec f (docol st2 tc s) t tc (one N)) as Hx.
           rewrite E in Hx.
           assert (Hseg : seg N (docol st2 tc s) <= seg N st').
           { destruct Hx as (A & _); destruct A as (_ & _ & A & _); exact A. }
           destruct (do_collapse_spec st2 tc s) as (A & _). simpl in A. lia.
        -- cbv beta iota. discriminate.
      * intros E Hs. specialize (IH st1 t t_step (nrm2 (seg N st) t_step) st' tr E Hs).
        simpl in IH. destruct IH as (A & B & C & D). repeat split; auto.
        right. destruct D as [(D1 & D2)|(D1 & D2)].
        -- subst tr. split; [symmetry; exact D2|exact Hle].
        -- split; auto.
    + intros E Hs. inversion E; subst. repeat split; auto.
Qed.

(* the no-jump trajectory (target_norm = 0, squared norm never <= 0): no
   collapse search is ever started, no random number is consumed, the state
   stays on the first ODE segment *)
Lemma integ_loop_target0 :
  (forall sg t, leb N (nrm2 sg t) (zero N) = false) ->
  forall fuel st t t_old no,
    target N st = zero N ->
    match iloop fuel st t t_old no with
    | Done _ st' _ | OutOfFuel _ st' =>
        seg N st' = seg N st /\ cols N st' = cols N st /\ ndraw N st' = ndraw N st /\
        target N st' = zero N /\ sets N st' = sets N st
    | Raised _ _ => False
    end.
Proof.
  intros Hpos. induction fuel as [|f IH]; intros st t t_old no Ht; simpl.
  - repeat split; auto.
  - destruct (ltb N t_old t) eqn:Hlt.
    + rewrite Ht, Hpos.
      set (st1 := mkSt N (seg N st) (stp (seg N st) (cur N st) t) (zero N) (ndraw N st)
                       (cols N st) (sets N st) (t :: reqlog N st)).
      specialize (IH st1 t (stp (seg N st) (cur N st) t)
                     (nrm2 (seg N st) (stp (seg N st) (cur N st) t)) eq_refl).
      destruct (iloop f st1 t (stp (seg N st) (cur N st) t)
                      (nrm2 (seg N st) (stp (seg N st) (cur N st) t))); simpl in *; auto.
    + repeat split; auto.
Qed.

End Generic.
