From Coq Require Import List ZArith QArith Qcanon Bool Arith Lia Field.
Import ListNotations.
From QV Require Import Model.C15 Proofs.C15 Model.C15_st Proofs.C15_st Model.C15_nm.
Local Open Scope Qc_scope.

Fixpoint wsumN (f : ntraj -> Qc) (ws : list Qc) (ts : list ntraj) : Qc :=
  match ws, ts with
  | w :: ws', t :: ts' => w * f t + wsumN f ws' ts'
  | _, _ => 0
  end.

Lemma wsumN_nil_r f ws : wsumN f ws [] = 0.
Proof. destruct ws; reflexivity. Qed.

Lemma wsumN_app f ws1 ts1 ws2 ts2 : length ws1 = length ts1 ->
  wsumN f (ws1 ++ ws2) (ts1 ++ ts2) = wsumN f ws1 ts1 + wsumN f ws2 ts2.
Proof.
  revert ts1. induction ws1 as [|w ws1 IH]; intros [|t ts1] H; simpl in *; try lia.
  - ring.
  - rewrite IH by lia. ring.
Qed.

Lemma wsumN_snoc f ws ts w t : length ws = length ts ->
  wsumN f (ws ++ [w]) (ts ++ [t]) = wsumN f ws ts + w * f t.
Proof. intros H. rewrite wsumN_app by assumption. simpl. ring. Qed.

Lemma wsumN_scale f c ws ts : wsumN f (map (fun w => w * c) ws) ts = c * wsumN f ws ts.
Proof.
  revert ts. induction ws as [|w ws IH]; intros [|t ts]; simpl; try ring.
  rewrite IH. ring.
Qed.

(* the statistics of one trajectory: martingale weight times value, times the
   square, the trace, its square *)
Definition gx (k : nat) (t : ntraj) : Qc := nth k (n_trx t) 0 * nth k (n_x t) 0.
Definition gx2 (k : nat) (t : ntraj) : Qc := nth k (n_trx t) 0 * (nth k (n_x t) 0 * nth k (n_x t) 0).
Definition gt (k : nat) (t : ntraj) : Qc := nth k (n_tr t) 0.
Definition gt2 (k : nat) (t : ntraj) : Qc := nth k (n_tr t) 0 * nth k (n_tr t) 0.

Definition meanN (f : ntraj -> Qc) (o : nobj) : Qc :=
  wsumN f (q_wdet o) (q_gdet o) + wsumN f (q_wrel o) (q_grel o) / QcN (q_num o).

Lemma vmul_nth a b k : length a = length b -> nth k (vmul a b) 0 = nth k a 0 * nth k b 0.
Proof. intros H. unfold vmul. apply map2_nth; [assumption|ring]. Qed.

Lemma vmul_length a b : length a = length b -> length (vmul a b) = length a.
Proof. apply map2_length. Qed.

Definition nshaped (n nt : nat) (t : ntraj) : Prop :=
  length (n_x t) = n /\ length (n_trx t) = n /\ length (n_tr t) = nt.

Definition nsum_ok (n : nat) (s : option nsum) ws ts : Prop :=
  match s with
  | None => ts = []
  | Some s => ts <> [] /\ length (ne1 s) = n /\ length (ne2 s) = n /\
              (forall k, nth k (ne1 s) 0 = wsumN (gx k) ws ts) /\
              (forall k, nth k (ne2 s) 0 = wsumN (gx2 k) ws ts)
  end.

Definition tr_ok (nt : nat) (o : nobj) : Prop :=
  match q_tr o with
  | None => q_grel o = [] /\ q_gdet o = []
  | Some x =>
      (q_grel o <> [] \/ q_gdet o <> []) /\
      length (t1d x) = nt /\ length (t1r x) = nt /\ length (t2d x) = nt /\ length (t2r x) = nt /\
      (forall k, nth k (t1d x) 0 = wsumN (gt k) (q_wdet o) (q_gdet o)) /\
      (forall k, nth k (t1r x) 0 = wsumN (gt k) (q_wrel o) (q_grel o)) /\
      (forall k, nth k (t2d x) 0 = wsumN (gt2 k) (q_wdet o) (q_gdet o)) /\
      (forall k, nth k (t2r x) 0 = wsumN (gt2 k) (q_wrel o) (q_grel o))
  end.

Record NI (n nt : nat) (o : nobj) : Prop := {
  ni_lr : length (q_wrel o) = q_num o;
  ni_lg : length (q_grel o) = q_num o;
  ni_ld : length (q_wdet o) = length (q_gdet o);
  ni_sr : Forall (nshaped n nt) (q_grel o);
  ni_sd : Forall (nshaped n nt) (q_gdet o);
  ni_rel : nsum_ok n (q_rel o) (q_wrel o) (q_grel o);
  ni_det : nsum_ok n (q_det o) (q_wdet o) (q_gdet o);
  ni_tr : tr_ok nt o;
  (* kept runs: runs_trace lists the traces of the sampled trajectories, in order *)
  ni_nt : q_ntrajs o = if q_keep o then q_num o else 0%nat;
  ni_rt : q_runs_trace o = if q_keep o then map n_tr (q_grel o) else [];
  (* a stored average_trace / std_trace is what _compute_avg_trace gives now *)
  ni_cache : forall c, q_cache o = Some c -> ncompute o = Some c }.

Lemma NI_new n nt k : NI n nt (nnew k).
Proof.
  constructor; simpl; auto; try discriminate; try (destruct k; reflexivity).
  unfold tr_ok. simpl. auto.
Qed.

Lemma nsum_ok_reduce n nt s ws ts t w :
  length ws = length ts -> nshaped n nt t -> nsum_ok n s ws ts ->
  nsum_ok n (Some (nsum_reduce (nsum_or_init s t) t w)) (ws ++ [w]) (ts ++ [t]).
Proof.
  intros Hl (X1 & X2 & _) Hs.
  assert (H0 : length (ne1 (nsum_or_init s t)) = n /\ length (ne2 (nsum_or_init s t)) = n /\
               (forall k, nth k (ne1 (nsum_or_init s t)) 0 = wsumN (gx k) ws ts) /\
               (forall k, nth k (ne2 (nsum_or_init s t)) 0 = wsumN (gx2 k) ws ts)).
  { destruct s as [s|]; simpl in *.
    - destruct Hs as (_ & A & B & C & D). auto.
    - subst ts. rewrite !vzeros_length. repeat split; auto; intros k;
        rewrite vzeros_nth, wsumN_nil_r; reflexivity. }
  destruct H0 as (A & B & C & D). simpl.
  assert (L1 : length (vmul (vscale w (n_trx t)) (n_x t)) = n)
    by (rewrite vmul_length; rewrite vscale_length; lia).
  assert (L2 : length (vmul (vscale w (n_trx t)) (vsq (n_x t))) = n)
    by (rewrite vmul_length; rewrite vscale_length, ?vsq_length; lia).
  split; [apply app_nonnil|].
  split; [rewrite vadd_length; lia|]. split; [rewrite vadd_length; lia|].
  split; intros k; rewrite vadd_nth by lia.
  - rewrite vmul_nth by (rewrite vscale_length; lia).
    rewrite vscale_nth, C, wsumN_snoc by assumption. unfold gx. ring.
  - rewrite vmul_nth by (rewrite vscale_length, vsq_length; lia).
    rewrite vscale_nth, vsq_nth, D, wsumN_snoc by assumption. unfold gx2. ring.
Qed.

(* the four trace sums before the new trace is added *)
Lemma first_trace_ok nt o t : tr_ok nt o -> length (n_tr t) = nt ->
  let x := first_trace o t in
  length (t1d x) = nt /\ length (t1r x) = nt /\ length (t2d x) = nt /\ length (t2r x) = nt /\
  (forall k, nth k (t1d x) 0 = wsumN (gt k) (q_wdet o) (q_gdet o)) /\
  (forall k, nth k (t1r x) 0 = wsumN (gt k) (q_wrel o) (q_grel o)) /\
  (forall k, nth k (t2d x) 0 = wsumN (gt2 k) (q_wdet o) (q_gdet o)) /\
  (forall k, nth k (t2r x) 0 = wsumN (gt2 k) (q_wrel o) (q_grel o)).
Proof.
  intros H L. unfold first_trace, tr_ok in *. destruct (q_tr o) as [x|]; simpl.
  - tauto.
  - destruct H as [-> ->]. rewrite !vzeros_length.
    repeat split; auto; intros k; rewrite vzeros_nth, wsumN_nil_r; reflexivity.
Qed.

Lemma NI_add n nt o t w : NI n nt o -> nshaped n nt t -> NI n nt (nadd o t w).
Proof.
  intros HI Ht. pose proof Ht as (X1 & X2 & X3).
  destruct (first_trace_ok nt o t (ni_tr n nt o HI) X3) as (L1 & L2 & L3 & L4 & A & B & C & D).
  assert (Lw : length (q_wrel o) = length (q_grel o))
    by (rewrite (ni_lr n nt o HI), (ni_lg n nt o HI); reflexivity).
  constructor; simpl; try apply HI; try discriminate.
  - rewrite app_length, (ni_lr n nt o HI). simpl. lia.
  - rewrite app_length, (ni_lg n nt o HI). simpl. lia.
  - apply Forall_app. split; [apply HI|auto].
  - apply (nsum_ok_reduce n nt); auto. apply HI.
  - unfold tr_ok. simpl.
    split; [left; apply app_nonnil|].
    split; [assumption|]. split; [rewrite vadd_length; rewrite ?vscale_length; lia|].
    split; [assumption|]. split; [rewrite vadd_length; rewrite ?vscale_length, ?vsq_length; lia|].
    split; [assumption|]. split.
    + intros k. rewrite vadd_nth by (rewrite vscale_length; lia).
      rewrite vscale_nth, B, wsumN_snoc by assumption. reflexivity.
    + split; [assumption|]. intros k. rewrite vadd_nth by (rewrite vscale_length, vsq_length; lia).
      rewrite vscale_nth, vsq_nth, D, wsumN_snoc by assumption. reflexivity.
  - rewrite (ni_nt n nt o HI). destruct (q_keep o); reflexivity.
  - rewrite (ni_rt n nt o HI). destruct (q_keep o); [rewrite map_app|]; reflexivity.
Qed.

Lemma NI_add_det n nt o t w : NI n nt o -> nshaped n nt t -> NI n nt (nadd_det o t w).
Proof.
  intros HI Ht. pose proof Ht as (X1 & X2 & X3).
  destruct (first_trace_ok nt o t (ni_tr n nt o HI) X3) as (L1 & L2 & L3 & L4 & A & B & C & D).
  pose proof (ni_ld n nt o HI) as Lw.
  constructor; simpl; try apply HI; try discriminate.
  - rewrite !app_length, Lw. reflexivity.
  - apply Forall_app. split; [apply HI|auto].
  - apply (nsum_ok_reduce n nt); auto. apply HI.
  - unfold tr_ok. simpl.
    split; [right; apply app_nonnil|].
    split; [rewrite vadd_length; rewrite ?vscale_length; lia|]. split; [assumption|].
    split; [rewrite vadd_length; rewrite ?vscale_length, ?vsq_length; lia|]. split; [assumption|].
    split.
    + intros k. rewrite vadd_nth by (rewrite vscale_length; lia).
      rewrite vscale_nth, A, wsumN_snoc by assumption. reflexivity.
    + split; [assumption|]. split; [|assumption].
      intros k. rewrite vadd_nth by (rewrite vscale_length, vsq_length; lia).
      rewrite vscale_nth, vsq_nth, C, wsumN_snoc by assumption. reflexivity.
Qed.

(* ---- reported values *)
Lemma mix_pointwise n (dv rv : option vec) N (D R : nat -> Qc) v :
  (forall x, dv = Some x -> length x = n /\ forall k, nth k x 0 = D k) ->
  (forall x, rv = Some x -> length x = n /\ forall k, nth k x 0 = R k) ->
  (dv = None -> forall k, D k = 0) -> (rv = None -> forall k, R k = 0) ->
  mix dv rv N = Some v -> length v = n /\ forall k, nth k v 0 = D k + R k / QcN N.
Proof.
  intros Hd Hr Hd0 Hr0 Hm. destruct dv as [a|], rv as [b|]; simpl in Hm; try discriminate;
    injection Hm as <-.
  - destruct (Hd a eq_refl) as [L1 N1]. destruct (Hr b eq_refl) as [L2 N2].
    split; [rewrite vadd_length; rewrite ?vdivn_length; lia|].
    intros k. rewrite vadd_nth by (rewrite vdivn_length; lia). rewrite vdivn_nth, N1, N2. reflexivity.
  - destruct (Hd a eq_refl) as [L1 N1]. split; [assumption|].
    intros k. rewrite N1, (Hr0 eq_refl k), Qcdiv_0_l. ring.
  - destruct (Hr b eq_refl) as [L2 N2]. split; [rewrite vdivn_length; assumption|].
    intros k. rewrite vdivn_nth, N2, (Hd0 eq_refl k). ring.
Qed.

Lemma nsum_slots n s ws ts : nsum_ok n s ws ts ->
  (forall x, option_map ne1 s = Some x -> length x = n /\ forall k, nth k x 0 = wsumN (gx k) ws ts) /\
  (forall x, option_map ne2 s = Some x -> length x = n /\ forall k, nth k x 0 = wsumN (gx2 k) ws ts) /\
  (s = None -> forall f, wsumN f ws ts = 0).
Proof.
  intros H. destruct s as [s|]; simpl in *.
  - destruct H as (_ & A & B & C & D). split; [intros x E; injection E as <-; auto|].
    split; [intros x E; injection E as <-; auto|discriminate].
  - subst ts. split; [discriminate|split; [discriminate|]]. intros _ f. apply wsumN_nil_r.
Qed.

Lemma naverage_spec n nt o a : NI n nt o -> naverage o = Some a ->
  length a = n /\ forall k, nth k a 0 = meanN (gx k) o.
Proof.
  intros HI H. unfold naverage in H.
  destruct (nsum_slots n _ _ _ (ni_det n nt o HI)) as (D1 & _ & D0).
  destruct (nsum_slots n _ _ _ (ni_rel n nt o HI)) as (R1 & _ & R0).
  apply (mix_pointwise n _ _ _ (fun k => wsumN (gx k) (q_wdet o) (q_gdet o))
                       (fun k => wsumN (gx k) (q_wrel o) (q_grel o)) a D1 R1); auto.
  - intros E k. apply D0. destruct (q_det o); [discriminate|reflexivity].
  - intros E k. apply R0. destruct (q_rel o); [discriminate|reflexivity].
Qed.

Lemma naverage2_spec n nt o a : NI n nt o -> naverage2 o = Some a ->
  length a = n /\ forall k, nth k a 0 = meanN (gx2 k) o.
Proof.
  intros HI H. unfold naverage2 in H.
  destruct (nsum_slots n _ _ _ (ni_det n nt o HI)) as (_ & D1 & D0).
  destruct (nsum_slots n _ _ _ (ni_rel n nt o HI)) as (_ & R1 & R0).
  apply (mix_pointwise n _ _ _ (fun k => wsumN (gx2 k) (q_wdet o) (q_gdet o))
                       (fun k => wsumN (gx2 k) (q_wrel o) (q_grel o)) a D1 R1); auto.
  - intros E k. apply D0. destruct (q_det o); [discriminate|reflexivity].
  - intros E k. apply R0. destruct (q_rel o); [discriminate|reflexivity].
Qed.

Lemma nvariance_spec n nt o v : NI n nt o -> nvariance o = Some v ->
  length v = n /\
  forall k, nth k v 0 = Qcabs (meanN (gx2 k) o - Qcabs (meanN (gx k) o * meanN (gx k) o)).
Proof.
  intros HI H. unfold nvariance in H.
  destruct (naverage o) as [a|] eqn:Ea; [|discriminate].
  destruct (naverage2 o) as [a2|] eqn:Ea2; [|discriminate]. injection H as <-.
  destruct (naverage_spec n nt o a HI Ea) as [L1 N1].
  destruct (naverage2_spec n nt o a2 HI Ea2) as [L2 N2].
  split; [rewrite map2_length; lia|]. intros k.
  rewrite (map2_nth (fun x2 x => Qcabs (x2 - Qcabs (x * x))) a2 a 0 0 0 k) by (try lia; apply var0).
  rewrite N1, N2. reflexivity.
Qed.

Lemma tvar0 : Qcabs (0 - Qcabs 0 * Qcabs 0) = 0.
Proof. rewrite Qcabs_0. replace (0 - 0 * 0) with 0 by ring. apply Qcabs_0. Qed.

(* _compute_avg_trace *)
Lemma ncompute_spec n nt o c : NI n nt o -> ncompute o = Some c ->
  length (fst c) = nt /\ length (snd c) = nt /\
  (forall k, nth k (fst c) 0 = meanN (gt k) o) /\
  (forall k, nth k (snd c) 0 =
             Qcabs (meanN (gt2 k) o - Qcabs (meanN (gt k) o) * Qcabs (meanN (gt k) o))).
Proof.
  intros HI H. unfold ncompute in H. pose proof (ni_tr n nt o HI) as T. unfold tr_ok in T.
  destruct (q_tr o) as [x|]; [|discriminate].
  destruct T as (_ & L1 & L2 & L3 & L4 & A & B & C & D).
  assert (G : exists a a2, length a = nt /\ length a2 = nt /\
            (forall k, nth k a 0 = meanN (gt k) o) /\ (forall k, nth k a2 0 = meanN (gt2 k) o) /\
            c = (a, map2 (fun a2 a => Qcabs (a2 - Qcabs a * Qcabs a)) a2 a)).
  { destruct (0 <? q_num o)%nat eqn:Z.
    - exists (vadd (t1d x) (vdivn (t1r x) (q_num o))), (vadd (t2d x) (vdivn (t2r x) (q_num o))).
      injection H as <-.
      split; [rewrite vadd_length; rewrite ?vdivn_length; lia|].
      split; [rewrite vadd_length; rewrite ?vdivn_length; lia|].
      split; [|split; [|reflexivity]]; intros k; unfold meanN;
        rewrite vadd_nth by (rewrite vdivn_length; lia); rewrite vdivn_nth.
      + rewrite A, B. reflexivity.
      + rewrite C, D. reflexivity.
    - exists (t1d x), (t2d x). injection H as <-.
      apply Nat.ltb_ge in Z. assert (q_num o = 0)%nat by lia.
      assert (G0 : q_grel o = []).
      { pose proof (ni_lg n nt o HI). destruct (q_grel o); [reflexivity|simpl in *; lia]. }
      split; [assumption|]. split; [assumption|].
      split; [|split; [|reflexivity]]; intros k; unfold meanN; rewrite G0, wsumN_nil_r, Qcdiv_0_l.
      + rewrite A. ring.
      + rewrite C. ring. }
  destruct G as (a & a2 & La & La2 & Na & Na2 & ->). simpl.
  split; [assumption|]. split; [rewrite map2_length; lia|]. split; [assumption|].
  intros k.
  rewrite (map2_nth (fun a2 a => Qcabs (a2 - Qcabs a * Qcabs a)) a2 a 0 0 0 k) by (try lia; apply tvar0).
  rewrite Na, Na2. reflexivity.
Qed.

(* every read of average_trace / std_trace *)
Lemma nread_trace_spec n nt o o' c : NI n nt o -> nread_trace o = Some (o', c) ->
  ncompute o = Some c.
Proof.
  intros HI H. unfold nread_trace in H. destruct (q_cache o) as [c0|] eqn:Ec.
  - injection H as _ <-. apply (ni_cache n nt o HI). assumption.
  - destruct (ncompute o) as [c1|]; [|discriminate]. injection H as _ <-. reflexivity.
Qed.

Lemma NI_with_cache n nt o c : NI n nt o -> (forall c', c = Some c' -> ncompute o = Some c') ->
  NI n nt (with_ncache o c).
Proof. intros HI H. constructor; simpl; try apply HI. exact H. Qed.

Lemma NI_read n nt o o' c : NI n nt o -> nread_trace o = Some (o', c) -> NI n nt o'.
Proof.
  intros HI H. unfold nread_trace in H. destruct (q_cache o) as [c0|] eqn:Ec.
  - injection H as <- _. assumption.
  - destruct (ncompute o) as [c1|] eqn:E1; [|discriminate]. injection H as <- _.
    apply NI_with_cache; [assumption|]. intros c' E. injection E as <-. assumption.
Qed.

(* ---- merge *)
Lemma nsum_ok_merge n sa wa ta sb wb tb c1 c2 :
  length wa = length ta -> length wb = length tb ->
  nsum_ok n sa wa ta -> nsum_ok n sb wb tb ->
  nsum_ok n (nsum_merge sa c1 sb c2)
          (map (fun w => w * c1) wa ++ map (fun w => w * c2) wb) (ta ++ tb).
Proof.
  intros Ha Hb Sa Sb.
  assert (Hla : length (map (fun w => w * c1) wa) = length ta) by (rewrite map_length; assumption).
  destruct sa as [sa|], sb as [sb|]; simpl in *.
  - destruct Sa as (A0 & A1 & A2 & A3 & A4). destruct Sb as (B0 & B1 & B2 & B3 & B4).
    split; [destruct ta; [congruence|discriminate]|].
    split; [rewrite vadd_length; rewrite !vscale_length; lia|].
    split; [rewrite vadd_length; rewrite !vscale_length; lia|].
    split; intros k; rewrite vadd_nth by (rewrite !vscale_length; lia);
      rewrite !vscale_nth, wsumN_app, !wsumN_scale by assumption.
    + rewrite A3, B3. reflexivity.
    + rewrite A4, B4. reflexivity.
  - destruct Sa as (A0 & A1 & A2 & A3 & A4). subst tb.
    destruct wb; [|discriminate]. simpl. rewrite !app_nil_r.
    split; [assumption|]. rewrite !vscale_length. split; [assumption|]. split; [assumption|].
    split; intros k; rewrite vscale_nth, wsumN_scale; [rewrite A3|rewrite A4]; reflexivity.
  - destruct Sb as (B0 & B1 & B2 & B3 & B4). subst ta.
    destruct wa; [|discriminate]. simpl.
    split; [assumption|]. rewrite !vscale_length. split; [assumption|]. split; [assumption|].
    split; intros k; rewrite vscale_nth, wsumN_scale; [rewrite B3|rewrite B4]; reflexivity.
  - subst ta tb. reflexivity.
Qed.

Lemma tmix_spec nt f c1 a wa ta c2 b wb tb :
  length wa = length ta -> length a = nt -> length b = nt ->
  (forall k, nth k a 0 = wsumN (f k) wa ta) -> (forall k, nth k b 0 = wsumN (f k) wb tb) ->
  length (tmix c1 a c2 b) = nt /\
  forall k, nth k (tmix c1 a c2 b) 0 =
            wsumN (f k) (map (fun w => w * c1) wa ++ map (fun w => w * c2) wb) (ta ++ tb).
Proof.
  intros Hl La Lb Na Nb. unfold tmix.
  split; [rewrite vadd_length; rewrite !vscale_length; lia|].
  intros k. rewrite vadd_nth by (rewrite !vscale_length; lia).
  rewrite !vscale_nth, wsumN_app, !wsumN_scale, Na, Nb by (rewrite map_length; assumption).
  reflexivity.
Qed.

Definition p_usedN (a b : nobj) (p : option Qc) : Qc :=
  match p with Some p => p | None => QcN (q_num a) / QcN (q_num a + q_num b) end.

Lemma NI_merge n nt a b p : NI n nt a -> NI n nt b ->
  is_some (q_tr a) = true -> is_some (q_tr b) = true ->
  (0 < q_num a)%nat -> (0 < q_num b)%nat -> NI n nt (nmerge_obj a b p).
Proof.
  intros Ia Ib Ta Tb Hna Hnb.
  assert (Za : (0 <? q_num a)%nat = true) by (apply Nat.ltb_lt; assumption).
  assert (Zb : (0 <? q_num b)%nat = true) by (apply Nat.ltb_lt; assumption). unfold nmerge_obj. apply NI_with_cache; [|intros c' E; exact E].
  pose proof (ni_tr n nt a Ia) as TA. pose proof (ni_tr n nt b Ib) as TB. unfold tr_ok in TA, TB.
  destruct (q_tr a) as [x|] eqn:Ea; [|discriminate]. destruct (q_tr b) as [y|] eqn:Eb; [|discriminate].
  destruct TA as (A0 & LA1 & LA2 & LA3 & LA4 & A1 & A2 & A3 & A4).
  destruct TB as (B0 & LB1 & LB2 & LB3 & LB4 & B1 & B2 & B3 & B4).
  assert (Lra : length (q_wrel a) = length (q_grel a))
    by (rewrite (ni_lr n nt a Ia), (ni_lg n nt a Ia); reflexivity).
  assert (Lrb : length (q_wrel b) = length (q_grel b))
    by (rewrite (ni_lr n nt b Ib), (ni_lg n nt b Ib); reflexivity).
  constructor; simpl; try discriminate.
  - rewrite app_length, !map_length, (ni_lr n nt a Ia), (ni_lr n nt b Ib). reflexivity.
  - rewrite app_length, (ni_lg n nt a Ia), (ni_lg n nt b Ib). reflexivity.
  - rewrite !app_length, !map_length, (ni_ld n nt a Ia), (ni_ld n nt b Ib). reflexivity.
  - apply Forall_app. split; [apply Ia|apply Ib].
  - apply Forall_app. split; [apply Ia|apply Ib].
  - rewrite !map_scale_ext. apply nsum_ok_merge; auto; [apply Ia|apply Ib].
  - apply nsum_ok_merge; [apply Ia|apply Ib|apply Ia|apply Ib].
  - unfold tr_ok. simpl. rewrite !map_scale_ext.
    fold (p_usedN a b p).
    destruct (tmix_spec nt gt (p_usedN a b p) (t1d x) (q_wdet a) (q_gdet a) (1 - p_usedN a b p) (t1d y)
                (q_wdet b) (q_gdet b) (ni_ld n nt a Ia) LA1 LB1 A1 B1) as [M1 N1].
    destruct (tmix_spec nt gt2 (p_usedN a b p) (t2d x) (q_wdet a) (q_gdet a) (1 - p_usedN a b p) (t2d y)
                (q_wdet b) (q_gdet b) (ni_ld n nt a Ia) LA3 LB3 A3 B3) as [M3 N3].
    destruct (tmix_spec nt gt (p_usedN a b p / (QcN (q_num a) / QcN (q_num a + q_num b)))
                (t1r x) (q_wrel a) (q_grel a)
                ((1 - p_usedN a b p) / (1 - QcN (q_num a) / QcN (q_num a + q_num b)))
                (t1r y) (q_wrel b) (q_grel b) Lra LA2 LB2 A2 B2) as [M2 N2].
    destruct (tmix_spec nt gt2 (p_usedN a b p / (QcN (q_num a) / QcN (q_num a + q_num b)))
                (t2r x) (q_wrel a) (q_grel a)
                ((1 - p_usedN a b p) / (1 - QcN (q_num a) / QcN (q_num a + q_num b)))
                (t2r y) (q_wrel b) (q_grel b) Lra LA4 LB4 A4 B4) as [M4 N4].
    split.
    + destruct A0 as [A0|A0]; [left|right]; intros E; apply app_eq_nil in E; destruct E; contradiction.
    + repeat split; assumption.
  - rewrite (ni_nt n nt a Ia), (ni_nt n nt b Ib).
    destruct (q_keep a), (q_keep b); rewrite ?Za, ?Zb; reflexivity.
  - rewrite (ni_rt n nt a Ia), (ni_rt n nt b Ib), (ni_nt n nt a Ia), (ni_nt n nt b Ib).
    pose proof (ni_lg n nt a Ia) as La. pose proof (ni_lg n nt b Ib) as Lb.
    destruct (q_keep a), (q_keep b); rewrite ?Za, ?Zb; simpl; try reflexivity.
    + destruct (q_grel a) as [|ta ra]; [simpl in La; lia|].
      destruct (q_grel b) as [|tb rb]; [simpl in Lb; lia|]. simpl. rewrite map_app. reflexivity.
    + rewrite andb_false_r. reflexivity.
Qed.

(* ---- histories *)
Definition nop_shaped (n nt : nat) (op : nop) : Prop :=
  match op with
  | NAdd _ t _ => nshaped n nt t
  | NAddDet _ t _ => nshaped n nt t
  | _ => True
  end.

Lemma tr_some n nt o : NI n nt o -> (0 < q_num o)%nat -> is_some (q_tr o) = true.
Proof.
  intros HI H. pose proof (ni_tr n nt o HI) as T. unfold tr_ok in T.
  destruct (q_tr o); [reflexivity|]. destruct T as [G _].
  pose proof (ni_lg n nt o HI). rewrite G in *. simpl in *. lia.
Qed.

Lemma nstep_NI n nt W op : Forall (NI n nt) W -> nop_shaped n nt op -> Forall (NI n nt) (fst (nstep W op)).
Proof.
  intros HW Hop. destruct op as [k|i t w|i t w|i j p|i]; simpl in *.
  - apply Forall_app. split; [assumption|]. constructor; [apply NI_new|constructor].
  - destruct (nth_error W i) as [x|] eqn:E; simpl; [|assumption].
    apply Forall_set_nth; [assumption|]. apply NI_add; [|assumption]. eapply Forall_nth_error; eauto.
  - destruct (nth_error W i) as [x|] eqn:E; simpl; [|assumption].
    apply Forall_set_nth; [assumption|]. apply NI_add_det; [|assumption]. eapply Forall_nth_error; eauto.
  - destruct (nth_error W i) as [a|] eqn:Ea; simpl; [|assumption].
    destruct (nth_error W j) as [b|] eqn:Eb; simpl; [|assumption].
    destruct (negb (Bool.eqb (is_some (q_tr a)) (is_some (q_tr b)))); simpl; [assumption|].
    destruct ((q_num a =? 0)%nat || (q_num b =? 0)%nat) eqn:Z; simpl; [assumption|].
    apply orb_false_iff in Z. destruct Z as [Za Zb].
    apply Nat.eqb_neq in Za. apply Nat.eqb_neq in Zb.
    assert (Ia : NI n nt a) by (eapply Forall_nth_error; eauto).
    assert (Ib : NI n nt b) by (eapply Forall_nth_error; eauto).
    apply Forall_app. split; [assumption|]. constructor; [|constructor].
    apply NI_merge; auto; try lia; eapply tr_some; eauto; lia.
  - destruct (nth_error W i) as [x|] eqn:E; simpl; [|assumption].
    destruct (nread_trace x) as [[x' c]|] eqn:R; simpl; [|assumption].
    apply Forall_set_nth; [assumption|]. eapply NI_read; eauto. eapply Forall_nth_error; eauto.
Qed.

Lemma nrun_NI n nt ops : forall W, Forall (NI n nt) W -> Forall (nop_shaped n nt) ops ->
  Forall (NI n nt) (nrun W ops).
Proof.
  induction ops as [|op ops IH]; intros W HW Hops; simpl; [assumption|].
  inversion Hops; subst. apply IH; [apply nstep_NI|]; assumption.
Qed.

Lemma nreach n nt ops i x : Forall (nop_shaped n nt) ops -> nth_error (nrun [] ops) i = Some x -> NI n nt x.
Proof.
  intros Hops E. eapply Forall_nth_error; [apply nrun_NI; [constructor|eassumption]|exact E].
Qed.

(* the theorems on any object reached *)
Lemma nreached_expect n nt ops i x : Forall (nop_shaped n nt) ops -> nth_error (nrun [] ops) i = Some x ->
  (forall a, naverage x = Some a -> length a = n /\ forall k, nth k a 0 = meanN (gx k) x) /\
  (forall v, nvariance x = Some v -> length v = n /\
     forall k, nth k v 0 = Qcabs (meanN (gx2 k) x - Qcabs (meanN (gx k) x * meanN (gx k) x))).
Proof.
  intros Hops E. pose proof (nreach n nt ops i x Hops E) as HI.
  split; [intros a; apply (naverage_spec n nt x a HI)|intros v; apply (nvariance_spec n nt x v HI)].
Qed.

Lemma nreached_trace n nt ops i x : Forall (nop_shaped n nt) ops -> nth_error (nrun [] ops) i = Some x ->
  (forall x' c, nread_trace x = Some (x', c) ->
     length (fst c) = nt /\ length (snd c) = nt /\
     (forall k, nth k (fst c) 0 = meanN (gt k) x) /\
     (forall k, nth k (snd c) 0 =
                Qcabs (meanN (gt2 k) x - Qcabs (meanN (gt k) x) * Qcabs (meanN (gt k) x)))) /\
  (nread_trace x = None <-> q_grel x = [] /\ q_gdet x = []).
Proof.
  intros Hops E. pose proof (nreach n nt ops i x Hops E) as HI. split.
  - intros x' c R. apply (ncompute_spec n nt x c HI). eapply nread_trace_spec; eauto.
  - pose proof (ni_tr n nt x HI) as T. pose proof (ni_cache n nt x HI) as C.
    unfold nread_trace, ncompute, tr_ok in *. destruct (q_tr x) as [y|].
    + destruct T as [T _]. split.
      * destruct (q_cache x); discriminate.
      * intros [G1 G2]. destruct T; contradiction.
    + split; [intros _; exact T|]. intros _. destruct (q_cache x) as [c|]; [|reflexivity].
      specialize (C c eq_refl). discriminate.
Qed.

(* runs_trace is aligned with the sampled trajectories *)
Lemma nreached_runs_trace n nt ops i x : Forall (nop_shaped n nt) ops -> nth_error (nrun [] ops) i = Some x ->
  q_runs_trace x = (if q_keep x then map n_tr (q_grel x) else []) /\
  q_ntrajs x = (if q_keep x then q_num x else 0%nat) /\
  (q_keep x = true -> length (q_runs_trace x) = q_num x).
Proof.
  intros Hops E. pose proof (nreach n nt ops i x Hops E) as HI.
  split; [apply (ni_rt n nt x HI)|]. split; [apply (ni_nt n nt x HI)|].
  intros K. rewrite (ni_rt n nt x HI), K, map_length. apply (ni_lg n nt x HI).
Qed.

(* merge is the mixture for every statistic, with the martingale weight inside f *)
Lemma nmerge_mean f n nt a b p : NI n nt a -> NI n nt b -> (0 < q_num a)%nat -> (0 < q_num b)%nat ->
  meanN f (nmerge_obj a b p) = p_usedN a b p * meanN f a + (1 - p_usedN a b p) * meanN f b.
Proof.
  intros Ia Ib Ha Hb. unfold meanN, nmerge_obj. simpl.
  fold (p_usedN a b p). set (pp := p_usedN a b p).
  rewrite !map_scale_ext.
  rewrite wsumN_app by (rewrite map_length; apply (ni_ld n nt a Ia)).
  rewrite wsumN_app by (rewrite map_length, (ni_lr n nt a Ia), (ni_lg n nt a Ia); reflexivity).
  rewrite !wsumN_scale. rewrite QcN_add.
  pose proof (QcN_nonzero _ Ha) as NA. pose proof (QcN_nonzero _ Hb) as NB.
  assert (NAB : QcN (q_num a) + QcN (q_num b) <> 0).
  { rewrite <- QcN_add. apply QcN_nonzero. lia. }
  set (A := QcN (q_num a)) in *. set (B := QcN (q_num b)) in *.
  assert (E1 : 1 - A / (A + B) = B / (A + B)) by (field; assumption).
  rewrite E1. field. repeat split; assumption.
Qed.

(* trace-weighted states: reducing the scaled trajectory with weight w is
   reducing the states with weight w * trace, component by component *)
Lemma nm_scale_sat trs trlast t k v : s_states t = Some v -> length trs = length v ->
  sat k (nm_scale trs trlast t) = nth k trs 0 * sat k t.
Proof.
  intros Hv L. unfold sat, nm_scale. simpl. rewrite Hv. simpl. apply vmul_nth. assumption.
Qed.

Lemma nm_scale_fat trs trlast t k : fat k (nm_scale trs trlast t) = trlast * fat k t.
Proof.
  unfold fat, nm_scale. simpl. destruct (s_final t) as [v|]; simpl; [apply vscale_nth|ring].
Qed.
