(* C07 - the loop kernels of _brtensor.pyx (generated, Gen/C07_kernels.v)
   against the matrix route (generated Sexpr terms) and the documented
   expression.  Tier A, every dimension. *)
From mathcomp Require Import all_ssreflect all_algebra.
From mathcomp Require Import mxtens.
From mathcomp Require Import ring.
From QV Require Import Base.MxHerm Model.C07 Gen.C07_terms Proofs.C07.
From QV Require Import Model.C07_kernels Gen.C07_kernels.
Set Implicit Arguments. Unset Strict Implicit. Unset Printing Implicit Defensive.
Import GRing.Theory.
Local Open Scope ring_scope.

(* turn sums and matrix entries into variables, then `ring` (entries that are
   convertible but not syntactically equal would otherwise be distinct atoms) *)
Ltac gen_atoms :=
  repeat match goal with
  | |- context [@BigOp.bigop ?a ?b ?c ?d ?e] =>
      let x := fresh "s" in set x := (@BigOp.bigop a b c d e); clearbody x
  end;
  repeat match goal with
  | |- context [@fun_of_matrix ?T ?m ?n ?M ?i ?j] =>
      let x := fresh "x" in set x := (@fun_of_matrix T m n M i j); clearbody x;
      simpl in x
  end; rewrite /=.

Section Kernels.
Variable R : fieldType.
Variable conj : {rmorphism R -> R}.
Variable n : nat.
Variable h : R.
Variable G : zmodType.
Variable near : G -> bool.
Variable w : 'I_n -> G.      (* eigenvalues; skew[a,b] = w[a] - w[b] *)

Local Notation skew_of := (skew_of w).

Lemma skew_ac (a b d : 'I_n) : skew_of a b - skew_of a d = skew_of d b.
Proof. by rewrite /C07_kernels.skew_of opprB addrC addrA subrK. Qed.

Lemma skew_bd (a b c : 'I_n) : skew_of a b - skew_of c b = skew_of a c.
Proof. by rewrite /C07_kernels.skew_of opprB addrA subrK. Qed.

Lemma sumAS (At S : 'M[R]_n) d b :
  \sum_j had At (h *: S) d j * At j b = h * \sum_k At d k * At k b * S d k.
Proof.
rewrite mulr_sumr; apply: eq_bigr=> k _; rewrite !mxE.
by move: (At d k) (At k b) (S d k)=> x y s; ring.
Qed.

Lemma sumAST (At S : 'M[R]_n) a c :
  \sum_j At a j * had At (h *: S)^T j c = h * \sum_k At a k * At k c * S c k.
Proof.
rewrite mulr_sumr; apply: eq_bigr=> k _; rewrite !mxE.
by move: (At a k) (At k c) (S c k)=> x y s; ring.
Qed.

Lemma term_dense_eq_data (A S : 'M[R]_n) :
  gen_br_term_dense h near A S skew_of
  = had (den conj (gen_br_term_data h (OMx A) (OMx S)))
        (gen_br_term_data_mask R near skew_of).
Proof.
apply/matrixP=> I J; rewrite !mxE.
case: (mxtens_indexP I)=> a b; case: (mxtens_indexP J)=> c d.
rewrite !mxtens_indexK /= /gen_br_term_dense_elem.
case Hn: (near _); last by rewrite mulr0.
rewrite mulr1 /gen_br_term_data /= sumAS sumAST.
rewrite /gen_br_term_dense_ac_term /gen_br_term_dense_bd_term.
case: (altP (b =P d))=> [Ebd|Nbd]; case: (altP (a =P c))=> [Eac|Nac].
- move: Hn; rewrite Ebd Eac=> Hn.
  have -> : near (skew_of d d) by rewrite -(skew_ac c d d).
  have -> : near (skew_of c c) by rewrite -(skew_bd c d c).
  by rewrite !mxE; gen_atoms; ring.
- move: Hn; rewrite Ebd=> Hn.
  have -> : near (skew_of a c) by rewrite -(skew_bd a d c).
  by rewrite !mxE; gen_atoms; ring.
- move: Hn; rewrite Eac=> Hn.
  have -> : near (skew_of d b) by rewrite -(skew_ac c b d).
  by rewrite !mxE; gen_atoms; ring.
- by rewrite !mxE; gen_atoms; ring.
Qed.

(* no cut-off (cutoff = +inf: every test `fabs(x) < cutoff` succeeds) *)
Lemma had_mask_all (L : 'M[R]_(n * n)) (sk : 'I_n -> 'I_n -> G) :
  (forall x, near x) -> had L (gen_br_term_data_mask R near sk) = L.
Proof. by move=> Hall; apply/matrixP=> I J; rewrite !mxE /= Hall mulr1. Qed.

Lemma term_sparse_elem_eq_dense (At S : 'M[R]_n) sk a b c d :
  gen_br_term_sparse_elem h near At S sk a b c d
  = gen_br_term_dense_elem h near At S sk a b c d.
Proof. by []. Qed.

Hypothesis near_sym : forall x, near (- x) = near x.

Lemma skew_flip (a b c d : 'I_n) :
  skew_of b a - skew_of d c = - (skew_of a b - skew_of c d).
Proof. by rewrite /C07_kernels.skew_of 3!opprB addrC. Qed.

Lemma sum_tr2 (A B S : 'M[R]_n) (c a d : 'I_n) :
  \sum_k B^T c k * A^T k a * S d k = \sum_k A a k * B k c * S d k.
Proof. by apply: eq_bigr=> k _; rewrite !mxE; gen_atoms; ring. Qed.

(* the dense kernel, read at the COLUMN-STACKED indices (X_ab sits at
   mxtens_index (b, a)), is the documented R_abcd with the secular mask *)
Lemma term_dense_R_abcd (A S : 'M[R]_n) (a b c d : 'I_n) :
  gen_br_term_dense h near A S skew_of (mxtens_index (b, a)) (mxtens_index (d, c))
  = if near (skew_of a b - skew_of c d) then R_abcd h A A S a b c d else 0.
Proof.
rewrite !mxE !mxtens_indexK /= /gen_br_term_dense_elem skew_flip near_sym.
case Hn: (near _)=> //; rewrite /R_abcd.
rewrite /gen_br_term_dense_ac_term /gen_br_term_dense_bd_term !sum_tr2.
case: (altP (b =P d))=> [Ebd|Nbd]; case: (altP (a =P c))=> [Eac|Nac].
- move: Hn; rewrite Ebd Eac=> Hn.
  have -> : near (skew_of c c) by rewrite -(skew_ac d c c) subrr -(subrr (skew_of c d)).
  have -> : near (skew_of d d) by rewrite -(skew_ac c d d) subrr -(subrr (skew_of c d)).
  by rewrite !mxE; gen_atoms; ring.
- move: Hn; rewrite Ebd=> Hn.
  have -> : near (skew_of c a) by rewrite -(skew_bd c d a) -near_sym opprB.
  by rewrite !mxE; gen_atoms; ring.
- move: Hn; rewrite Eac=> Hn.
  have -> : near (skew_of b d) by rewrite -(skew_ac c d b) -near_sym opprB.
  by rewrite !mxE; gen_atoms; ring.
- by rewrite !mxE; gen_atoms; ring.
Qed.

(* ---- cross terms ---- *)
Lemma sumAS2 (At Bt S : 'M[R]_n) d b :
  \sum_j had At (h *: S) d j * Bt j b = h * \sum_k At d k * Bt k b * S d k.
Proof.
rewrite mulr_sumr; apply: eq_bigr=> k _; rewrite !mxE.
by gen_atoms; ring.
Qed.

Lemma sumAST2 (At Bt S : 'M[R]_n) a c :
  \sum_j At a j * had Bt (h *: S)^T j c = h * \sum_k At a k * Bt k c * S c k.
Proof.
rewrite mulr_sumr; apply: eq_bigr=> k _; rewrite !mxE.
by gen_atoms; ring.
Qed.

Lemma cterm_dense_eq_data (A B S : 'M[R]_n) :
  gen_br_cterm_dense h near A B S skew_of
  = had (den conj (gen_br_cterm_data h (OMx A) (OMx B) (OMx S)))
        (gen_br_cterm_data_mask R near skew_of).
Proof.
apply/matrixP=> I J; rewrite !mxE.
case: (mxtens_indexP I)=> a b; case: (mxtens_indexP J)=> c d.
rewrite !mxtens_indexK /= /gen_br_cterm_dense_elem.
case Hn: (near _); last by rewrite mulr0.
rewrite mulr1 /gen_br_cterm_data /= sumAS2 sumAST2.
rewrite /gen_br_cterm_dense_ac_term /gen_br_cterm_dense_bd_term.
case: (altP (b =P d))=> [Ebd|Nbd]; case: (altP (a =P c))=> [Eac|Nac].
- move: Hn; rewrite Ebd Eac=> Hn.
  have -> : near (skew_of d d) by rewrite -(skew_ac c d d).
  have -> : near (skew_of c c) by rewrite -(skew_bd c d c).
  by rewrite !mxE; gen_atoms; ring.
- move: Hn; rewrite Ebd=> Hn.
  have -> : near (skew_of a c) by rewrite -(skew_bd a d c).
  by rewrite !mxE; gen_atoms; ring.
- move: Hn; rewrite Eac=> Hn.
  have -> : near (skew_of d b) by rewrite -(skew_ac c b d).
  by rewrite !mxE; gen_atoms; ring.
- by rewrite !mxE; gen_atoms; ring.
Qed.

Lemma cterm_sparse_elem_eq_dense (At Bt S : 'M[R]_n) sk a b c d :
  gen_br_cterm_sparse_elem h near At Bt S sk a b c d
  = gen_br_cterm_dense_elem h near At Bt S sk a b c d.
Proof.
rewrite /gen_br_cterm_sparse_elem /gen_br_cterm_dense_elem.
have -> : gen_br_cterm_sparse_ac_term near At Bt S sk
          = gen_br_cterm_dense_ac_term near At Bt S sk by [].
have -> : gen_br_cterm_sparse_bd_term near At Bt S sk
          = gen_br_cterm_dense_bd_term near At Bt S sk by [].
case: (near _)=> //.
move: (gen_br_cterm_dense_ac_term _ _ _ _ _ d b)
      (gen_br_cterm_dense_bd_term _ _ _ _ _ a c)=> t1 t2.
by case: (a == c); case: (b == d); gen_atoms; ring.
Qed.

Lemma cterm_dense_R_abcd (A B S : 'M[R]_n) (a b c d : 'I_n) :
  gen_br_cterm_dense h near A B S skew_of (mxtens_index (b, a)) (mxtens_index (d, c))
  = if near (skew_of a b - skew_of c d) then R_abcd h A B S a b c d else 0.
Proof.
rewrite !mxE !mxtens_indexK /= /gen_br_cterm_dense_elem skew_flip near_sym.
case Hn: (near _)=> //; rewrite /R_abcd.
rewrite /gen_br_cterm_dense_ac_term /gen_br_cterm_dense_bd_term !sum_tr2.
case: (altP (b =P d))=> [Ebd|Nbd]; case: (altP (a =P c))=> [Eac|Nac].
- move: Hn; rewrite Ebd Eac=> Hn.
  have -> : near (skew_of c c) by rewrite -(skew_ac d c c) subrr -(subrr (skew_of c d)).
  have -> : near (skew_of d d) by rewrite -(skew_ac c d d) subrr -(subrr (skew_of c d)).
  by rewrite !mxE; gen_atoms; ring.
- move: Hn; rewrite Ebd=> Hn.
  have -> : near (skew_of c a) by rewrite -(skew_bd c d a) -near_sym opprB.
  by rewrite !mxE; gen_atoms; ring.
- move: Hn; rewrite Eac=> Hn.
  have -> : near (skew_of b d) by rewrite -(skew_ac c d b) -near_sym opprB.
  by rewrite !mxE; gen_atoms; ring.
- by rewrite !mxE; gen_atoms; ring.
Qed.

(* the matrix route of the cross term acts as the documented expression *)
Lemma act_br_cterm_data (A B S : Oexpr R n) X :
  act conj (gen_br_cterm_data h A B S) X
  = cross_rhs h (oden conj A) (oden conj B) (oden conj S) X.
Proof.
rewrite /gen_br_cterm_data /cross_rhs /= scale1r trmx1 mulmx1 mul1mx.
rewrite !trmx_mul !had_tr !trmxK.
by rewrite addrC addrA [X in X - _]addrAC addrAC.
Qed.

Lemma tr_cross_rhs (A B S X : 'M[R]_n) : \tr (cross_rhs h A B S X) = 0.
Proof.
rewrite /cross_rhs /=; set AS := had A (h *: S); set BST := had B (h *: S)^T.
rewrite !linearB /= linearD /=.
have -> : \tr (BST *m X *m A) = \tr (A *m BST *m X).
  by rewrite mxtrace_mulC mulmxA.
have -> : \tr (X *m (AS *m B)) = \tr (B *m X *m AS).
  by rewrite (mxtrace_mulC X) -(mulmxA AS) (mxtrace_mulC AS).
by rewrite addrAC addrK subrr.
Qed.

(* the cross term of (A, A) is the ordinary term *)
Lemma cross_rhs_diag (A S X : 'M[R]_n) : cross_rhs h A A S X = br_rhs h A S X.
Proof. by []. Qed.
End Kernels.

(* ---- eigenbasis change of operators and tensors (_EigenBasisTransform) ---- *)
Section Basis.
Variable R : fieldType.
Variable conj : {rmorphism R -> R}.
Hypothesis conjK : involutive conj.
Variable n : nat.
Local Notation dag := (dag conj).

Lemma conv_cvec (V X : 'M[R]_n) :
  gen_S_converter_inverse conj V *m cvec X = cvec (V *m X *m dag V).
Proof. by rewrite /gen_S_converter_inverse /kronT -vec_sandwich. Qed.

Lemma dag_conv_cvec (V X : 'M[R]_n) :
  dag (gen_S_converter_inverse conj V) *m cvec X = cvec (dag V *m X *m V).
Proof.
rewrite /gen_S_converter_inverse /kronT dag_tens dag_tr (cj_dag conjK).
by rewrite -vec_sandwich.
Qed.

(* from_eigbasis of a tensor: X |-> V . L(V^dag X V) . V^dag *)
Lemma from_eigbasis_super_action (V : 'M[R]_n) (L : 'M[R]_(n * n)) X :
  gen_from_eigbasis_super conj V L *m cvec X
  = cvec (gen_from_eigbasis_oper conj V
            (unvec (L *m cvec (gen_to_eigbasis_oper conj V X)))).
Proof.
rewrite /gen_from_eigbasis_super /gen_from_eigbasis_oper /gen_to_eigbasis_oper /=.
by rewrite -!mulmxA dag_conv_cvec -(unvecK (L *m _)) conv_cvec !mulmxA.
Qed.

(* to_eigbasis of a tensor: X |-> V^dag . L(V X V^dag) . V *)
Lemma to_eigbasis_super_action (V : 'M[R]_n) (L : 'M[R]_(n * n)) X :
  gen_to_eigbasis_super conj V L *m cvec X
  = cvec (gen_to_eigbasis_oper conj V
            (unvec (L *m cvec (gen_from_eigbasis_oper conj V X)))).
Proof.
rewrite /gen_to_eigbasis_super /gen_from_eigbasis_oper /gen_to_eigbasis_oper /=.
by rewrite -!mulmxA conv_cvec -(unvecK (L *m _)) dag_conv_cvec !mulmxA.
Qed.

(* for unitary eigenvectors the two are mutually inverse *)
Lemma conv_unitary (V : 'M[R]_n) : is_unitary conj V ->
  dag (gen_S_converter_inverse conj V) *m gen_S_converter_inverse conj V = 1%:M
  /\ gen_S_converter_inverse conj V *m dag (gen_S_converter_inverse conj V) = 1%:M.
Proof.
move=> HV; have HV' := unitaryC HV.
have H1 : forall X : 'M[R]_n, dag V *m (V *m X *m dag V) *m V = X.
  by move=> X; rewrite !mulmxA HV' mul1mx -mulmxA HV' mulmx1.
have H2 : forall X : 'M[R]_n, V *m (dag V *m X *m V) *m dag V = X.
  by move=> X; rewrite !mulmxA HV mul1mx -mulmxA HV mulmx1.
split; apply: mx_ext_cV=> v; rewrite -(unvecK v) -mulmxA mul1mx.
  by rewrite conv_cvec dag_conv_cvec H1.
by rewrite dag_conv_cvec conv_cvec H2.
Qed.

Lemma to_from_eigbasis_super (V : 'M[R]_n) (L : 'M[R]_(n * n)) :
  is_unitary conj V ->
  gen_to_eigbasis_super conj V (gen_from_eigbasis_super conj V L) = L /\
  gen_from_eigbasis_super conj V (gen_to_eigbasis_super conj V L) = L.
Proof.
move=> HV; have [H1 H2] := conv_unitary HV.
rewrite /gen_to_eigbasis_super /gen_from_eigbasis_super /=; split.
  by rewrite !mulmxA H1 mul1mx -mulmxA H1 mulmx1.
by rewrite !mulmxA H2 mul1mx -!mulmxA H2 mulmx1.
Qed.
End Basis.
