(* C05 - the superoperator / tensor constructions on QobjEvo evaluate to the
   same constructions on the operands' values (corollaries of the tree theorem). *)
From Coq Require Import List ZArith Bool Ring Lia.
Import ListNotations.
From QV Require Import Model.C05 Proofs.C05.

Section Lifts.
Variable A : Alg.
Variable T : TimeS A.
Add Ring CRingL : (Cring A).

Definition lin (f : tr A) : Prop := tr_ok A f /\ tr_anti A f = false.

Lemma wfx_sprepost fpre fpost (a b : qx A T) : lin fpre -> lin fpost ->
  wfx A T a -> wfx A T b -> wfx A T (x_sprepost A T fpre fpost a b).
Proof. intros [? ?] [? ?] ? ?. simpl. tauto. Qed.

Lemma wfx_dissipator fpre fpost h (a b : qx A T) : lin fpre -> lin fpost ->
  wfx A T a -> wfx A T b -> wfx A T (x_dissipator A T fpre fpost h a b).
Proof. intros [? ?] [? ?] ? ?. simpl. tauto. Qed.

Lemma wfx_liouvillian0 fpre fpost mi (H : qx A T) : lin fpre -> lin fpost ->
  wfx A T H -> wfx A T (x_liouvillian0 A T fpre fpost mi H).
Proof. intros [? ?] [? ?] ?. simpl. tauto. Qed.

Lemma wfx_fold_add (ds : list (qx A T)) : Forall (wfx A T) ds -> forall d0, wfx A T d0 ->
  wfx A T (fold_left XAdd ds d0).
Proof.
  intros Hds. induction Hds as [|d ds Hd Hds IH]; intros d0 H0; simpl; auto.
  apply IH. simpl. auto.
Qed.

Lemma wfx_sum (ds : list (qx A T)) L : Forall (wfx A T) ds -> wfx A T L ->
  wfx A T (x_sum A T ds L).
Proof.
  intros Hds HL. destruct Hds as [|d ds Hd Hds]; simpl; auto.
  split; auto. apply wfx_fold_add; simpl; auto.
Qed.

Lemma wfx_liouvillian fpre fpost mi h (H : qx A T) cs : lin fpre -> lin fpost ->
  wfx A T H -> Forall (wfx A T) cs -> wfx A T (x_liouvillian A T fpre fpost mi h H cs).
Proof.
  intros Hp Hq HH Hcs. unfold x_liouvillian. apply wfx_sum.
  - induction Hcs; simpl map; constructor; auto. apply wfx_dissipator; auto.
  - apply wfx_liouvillian0; auto.
Qed.

Lemma sem_fold_diss fpre fpost h (r : list (qx A T)) t : forall d0 v0,
  semo A T None d0 t = v0 ->
  semo A T None
    (fold_left XAdd (map (fun c => x_dissipator A T fpre fpost h c c) r) d0) t
  = fold_left (fun acc d => madd A acc (diss_val A fpre fpost h d d))
              (map (fun c => sem A T c t) r) v0.
Proof.
  induction r as [|c r IH]; intros d0 v0 H0; simpl; auto.
  apply IH. simpl. rewrite H0. reflexivity.
Qed.

Lemma sem_dissipator fpre fpost h (a b : qx A T) t :
  sem A T (x_dissipator A T fpre fpost h a b) t
  = diss_val A fpre fpost h (sem A T a t) (sem A T b t).
Proof. reflexivity. Qed.

Lemma sem_liouvillian fpre fpost mi h (H : qx A T) cs t :
  sem A T (x_liouvillian A T fpre fpost mi h H cs) t
  = lio_val A fpre fpost mi h (sem A T H t) (map (fun c => sem A T c t) cs).
Proof.
  unfold x_liouvillian, lio_val. destruct cs as [|c r]; [reflexivity|].
  simpl map. unfold x_sum. unfold sem at 1. simpl semo. f_equal.
  apply sem_fold_diss. reflexivity.
Qed.

(* a / z is a * (1/z): with zi the inverse of z, z times the result is the operand *)
Lemma division_value (x : qx A T) z zi t : wfx A T x -> cmul A zi z = c1 A ->
  mscale A z (V A T (build A T (XMulNum x zi)) t) = sem A T x t.
Proof.
  intros Hx Hz. rewrite (pointwise A T (XMulNum x zi) t Hx). unfold sem. simpl.
  rewrite <- mscale_mul. replace (cmul A z zi) with (c1 A) by (rewrite <- Hz; ring).
  apply mscale_1.
Qed.

End Lifts.
