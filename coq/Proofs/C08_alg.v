(* C08 - algebra of the channel representations over an arbitrary commutative
   ring with an involutive conjugation (MathComp).  Matrices of maps are kept
   as 4-index tensors; Proofs/C08.v proves that the flat matrices of the
   implementation have exactly these entries:
     supermatrix  S[(b*m+a), (j*n+i)]      <->  S b a j i
     Choi matrix  J[(i*m+a), (j*m+b)]      <->  J i a j b
   (m = output dimension, n = input dimension, column stacking). *)
From mathcomp Require Import all_ssreflect all_algebra.
From mathcomp Require Import mxtens.
Set Implicit Arguments.
Unset Strict Implicit.
Unset Printing Implicit Defensive.
Import GRing.Theory.
Local Open Scope ring_scope.

Section Channel.
Variable R : comRingType.
Variable conj : {rmorphism R -> R}.
Hypothesis conjK : involutive conj.

Definition adj p q (A : 'M[R]_(p, q)) : 'M[R]_(q, p) := (map_mx conj A)^T.

Lemma adjE p q (A : 'M[R]_(p, q)) i j : adj A i j = conj (A j i).
Proof. by rewrite /adj !mxE. Qed.

Lemma adj_delta p q (i : 'I_p) (j : 'I_q) : adj (delta_mx i j) = delta_mx j i.
Proof.
apply/matrixP=> x y; rewrite adjE !mxE andbC.
by case: (_ && _); rewrite ?rmorph1 ?rmorph0.
Qed.

Variables m n : nat.          (* m = out, n = in *)

Definition T4s := 'I_m -> 'I_m -> 'I_n -> 'I_n -> R.     (* b a j i *)
Definition T4c := 'I_n -> 'I_m -> 'I_n -> 'I_m -> R.     (* i a j b *)

(* vec(Y) = S vec(X) with column stacking *)
Definition apply_super (S : T4s) (X : 'M[R]_n) : 'M[R]_m :=
  \matrix_(a, b) \sum_i \sum_j S b a j i * X i j.

(* the reshuffle of _super_tofrom_choi, as proved in Proofs/C08.v *)
Definition choi_of_super (S : T4s) : T4c := fun i a j b => S b a j i.
Definition super_of_choi (J : T4c) : T4s := fun b a j i => J i a j b.

(* action of a Choi matrix: L(X) = Tr_in [(X^T (x) 1) J] *)
Definition apply_choi (J : T4c) (X : 'M[R]_n) : 'M[R]_m :=
  \matrix_(a, b) \sum_i \sum_j J i a j b * X i j.

Lemma sum_delta (F : 'I_n -> 'I_n -> R) (i j : 'I_n) :
  \sum_i' \sum_j' F i' j' * (delta_mx i j : 'M[R]_n) i' j' = F i j.
Proof.
rewrite (bigD1 i) //= (bigD1 j) //= mxE !eqxx mulr1.
rewrite big1 ?addr0; last first.
  by move=> j' /negbTE nj; rewrite mxE eqxx nj mulr0.
rewrite big1 ?addr0 // => i' /negbTE ni.
by apply: big1 => j' _; rewrite mxE ni mulr0.
Qed.

(* the reshuffled supermatrix is the Choi matrix J = sum_ij E_ij (x) L(E_ij):
   its ((i,a),(j,b)) entry is the (a,b) entry of L(E_ij) *)
Lemma choi_of_super_is_choi (S : T4s) i a j b :
  choi_of_super S i a j b = apply_super S (delta_mx i j) a b.
Proof. by rewrite mxE sum_delta. Qed.

Lemma apply_choi_of_super (S : T4s) X : apply_choi (choi_of_super S) X = apply_super S X.
Proof. by []. Qed.

Lemma apply_super_of_choi (J : T4c) X : apply_super (super_of_choi J) X = apply_choi J X.
Proof. by []. Qed.

Lemma choi_entries_of_action (J : T4c) i a j b : J i a j b = apply_choi J (delta_mx i j) a b.
Proof. by rewrite mxE sum_delta. Qed.

(* two Choi tensors with the same action are equal: the representation is
   faithful, so a predicate of the map is a predicate of J *)
Lemma apply_choi_inj (J1 J2 : T4c) :
  (forall X, apply_choi J1 X = apply_choi J2 X) -> forall i a j b, J1 i a j b = J2 i a j b.
Proof. by move=> H i a j b; rewrite !choi_entries_of_action H. Qed.

(* ----------------------------------------------------- operator sums *)
Variable r : nat.
Definition apply_pair (L Rr : 'I_r -> 'M[R]_(m, n)) (X : 'M[R]_n) : 'M[R]_m :=
  \sum_k L k *m X *m adj (Rr k).

(* the tensordot of kraus_to_choi (L = R), as proved in Proofs/C08.v *)
Definition pair_choi (L Rr : 'I_r -> 'M[R]_(m, n)) : T4c :=
  fun i a j b => \sum_k L k a i * conj (Rr k b j).

Lemma apply_pair_entry L Rr X a b :
  apply_pair L Rr X a b = \sum_k \sum_i \sum_j L k a i * X i j * conj (Rr k b j).
Proof.
rewrite /apply_pair summxE; apply: eq_bigr => k _.
rewrite mxE (exchange_big) /=.
under eq_bigr => j _.
  rewrite mxE adjE big_distrl /=.
  over.
rewrite exchange_big /=.
by apply: eq_bigr => i _; apply: eq_bigr => j _.
Qed.

Lemma apply_pair_choi L Rr X : apply_choi (pair_choi L Rr) X = apply_pair L Rr X.
Proof.
apply/matrixP=> a b; rewrite apply_pair_entry mxE.
under eq_bigr => i _.
  under eq_bigr => j _.
    rewrite /pair_choi big_distrl /=.
    over.
  rewrite exchange_big /=.
  over.
rewrite exchange_big /=.
apply: eq_bigr => k _; apply: eq_bigr => i _; apply: eq_bigr => j _.
by rewrite mulrAC.
Qed.

Lemma pair_choi_is_choi L Rr i a j b :
  pair_choi L Rr i a j b = apply_pair L Rr (delta_mx i j) a b.
Proof. by rewrite -apply_pair_choi -choi_entries_of_action. Qed.

(* decomposition oracles: J = sum_k s_k^2 u_k v_k^dag with real s_k gives
   operators whose sum is the map (Kraus when u = v, generalized Kraus /
   Stinespring pair otherwise) *)
Lemma pair_of_decomposition (J : T4c) (s : 'I_r -> R) (u v : 'I_r -> 'I_n -> 'I_m -> R) :
  (forall k, conj (s k) = s k) ->
  (forall i a j b, J i a j b = \sum_k s k * s k * (u k i a * conj (v k j b))) ->
  forall i a j b,
    pair_choi (fun k => \matrix_(a, i) (s k * u k i a)) (fun k => \matrix_(b, j) (s k * v k j b))
      i a j b = J i a j b.
Proof.
move=> Hs HJ i a j b; rewrite HJ /pair_choi; apply: eq_bigr => k _.
by rewrite !mxE rmorphM Hs mulrACA.
Qed.

(* ------------------------------------------------- Stinespring blocks *)
(* A = sum_k tensor(L_k, basis(r, k)) : rows (a, k), columns i *)
Definition stine_block (L : 'I_r -> 'M[R]_(m, n)) : 'M[R]_(m * r, n) :=
  \matrix_(p, i) L (mxtens_unindex p).2 (mxtens_unindex p).1 i.

Definition ptrace_last (M : 'M[R]_(m * r)) : 'M[R]_m :=
  \matrix_(a, b) \sum_k M (mxtens_index (a, k)) (mxtens_index (b, k)).

Lemma stinespring_action L Rr X :
  ptrace_last (stine_block L *m X *m adj (stine_block Rr)) = apply_pair L Rr X.
Proof.
apply/matrixP=> a b; rewrite apply_pair_entry mxE.
apply: eq_bigr => k _.
rewrite mxE exchange_big /=.
under eq_bigr => j _.
  rewrite mxE adjE !mxE !mxtens_indexK /= big_distrl /=.
  over.
rewrite exchange_big /= [RHS]exchange_big /=.
apply: eq_bigr => i _; apply: eq_bigr => j _.
by rewrite !mxE mxtens_indexK.
Qed.

(* --------------------------------------------------------- predicates *)
Lemma tr_delta (i j : 'I_n) : \tr (delta_mx i j : 'M[R]_n) = (i == j)%:R.
Proof.
rewrite /mxtrace (bigD1 i) //= mxE eqxx /= big1 ?addr0 //.
by move=> k /negbTE nk; rewrite mxE nk.
Qed.

(* trace preservation <-> partial trace over the output factor = identity *)
Lemma tp_iff (J : T4c) :
  (forall i j, \sum_a J i a j a = (i == j)%:R) <->
  (forall X, \tr (apply_choi J X) = \tr X).
Proof.
split=> [H X|H i j].
- rewrite /mxtrace.
  under eq_bigr => a _ do rewrite mxE.
  rewrite exchange_big /=.
  apply: eq_bigr => i _.
  rewrite exchange_big /=.
  under eq_bigr => j _ do rewrite -big_distrl /= H.
  rewrite (bigD1 i) //= eqxx mul1r big1 ?addr0 // => j /negbTE nj.
  by rewrite eq_sym nj mul0r.
- have := H (delta_mx i j).
  rewrite tr_delta => <-.
  rewrite /mxtrace; apply: eq_bigr => a _.
  by rewrite -choi_entries_of_action.
Qed.

(* Hermiticity preservation <-> J Hermitian *)
Lemma hp_iff (J : T4c) :
  (forall i a j b, J j b i a = conj (J i a j b)) <->
  (forall X, apply_choi J (adj X) = adj (apply_choi J X)).
Proof.
split=> [H X|H i a j b].
- apply/matrixP=> a b; rewrite adjE !mxE rmorph_sum exchange_big /=.
  apply: eq_bigr => i _; rewrite rmorph_sum; apply: eq_bigr => j _.
  by rewrite rmorphM adjE -H.
- have := H (delta_mx j i); rewrite adj_delta => /matrixP /(_ a b).
  rewrite adjE -!choi_entries_of_action => ->.
  by rewrite conjK.
Qed.

End Channel.

(* ------------------------------------------------------------ Pauli / chi *)
Section Pauli.
Variable R : comRingType.
Variable conj : {rmorphism R -> R}.
Variable ii : R.
Hypothesis ii2 : ii * ii = -1.
Hypothesis conj_ii : conj ii = - ii.

(* _SINGLE_QUBIT_PAULI_BASIS, entries by index *)
Definition sigma (k : 'I_4) (x y : 'I_2) : R :=
  match val k, val x, val y with
  | 0%N, 0%N, 0%N => 1 | 0%N, 1%N, 1%N => 1
  | 1%N, 0%N, 1%N => 1 | 1%N, 1%N, 0%N => 1
  | 2%N, 0%N, 1%N => - ii | 2%N, 1%N, 0%N => ii
  | 3%N, 0%N, 0%N => 1 | 3%N, 1%N, 1%N => -1
  | _, _, _ => 0
  end.

Lemma sum_I2 (F : 'I_2 -> R) : \sum_x F x = F ord0 + F (lift ord0 ord0).
Proof. by rewrite big_ord_recl big_ord_recl big_ord0 addr0. Qed.

Lemma sum_I4 (F : 'I_4 -> R) :
  \sum_k F k = F ord0 + (F (lift ord0 ord0) + (F (lift ord0 (lift ord0 ord0))
               + F (lift ord0 (lift ord0 (lift ord0 ord0))))).
Proof. by rewrite !big_ord_recl big_ord0 addr0. Qed.

Lemma I2_cases (P : 'I_2 -> Prop) : P ord0 -> P (lift ord0 ord0) -> forall x, P x.
Proof.
move=> H0 H1 [[|[|x]] Hx] //.
- by rewrite (_ : Ordinal Hx = ord0) //; apply: val_inj.
- by rewrite (_ : Ordinal Hx = lift ord0 ord0) //; apply: val_inj.
Qed.

Lemma I4_cases (P : 'I_4 -> Prop) :
  P ord0 -> P (lift ord0 ord0) -> P (lift ord0 (lift ord0 ord0)) ->
  P (lift ord0 (lift ord0 (lift ord0 ord0))) -> forall x, P x.
Proof.
move=> H0 H1 H2 H3 [[|[|[|[|x]]]] Hx] //.
- by rewrite (_ : Ordinal Hx = ord0) //; apply: val_inj.
- by rewrite (_ : Ordinal Hx = lift ord0 ord0) //; apply: val_inj.
- by rewrite (_ : Ordinal Hx = lift ord0 (lift ord0 ord0)) //; apply: val_inj.
- by rewrite (_ : Ordinal Hx = lift ord0 (lift ord0 (lift ord0 ord0))) //; apply: val_inj.
Qed.

Local Notation simp := (mulr0, mul0r, mulr1, mul1r, addr0, add0r, rmorph0, rmorph1, rmorphN,
             conj_ii, mulrN, mulNr, opprK, ii2, subrr, addNr, oppr0).

(* 1-qubit table: tr(sigma_k^dag sigma_l) = 2 delta_kl *)
Lemma sigma_orth (k l : 'I_4) :
  \sum_x \sum_y conj (sigma k x y) * sigma l x y = (if k == l then 2%:R else 0).
Proof.
elim/I4_cases: k; elim/I4_cases: l; rewrite !sum_I2 /sigma /= ?simp //=;
  by rewrite ?simp // -?natrD.
Qed.

(* 1-qubit table: sum_k sigma_k[x,y] conj sigma_k[x',y'] = 2 delta_xx' delta_yy' *)
Lemma sigma_complete (x y x' y' : 'I_2) :
  \sum_k sigma k x y * conj (sigma k x' y') = (if (x == x') && (y == y') then 2%:R else 0).
Proof.
elim/I2_cases: x; elim/I2_cases: y; elim/I2_cases: x'; elim/I2_cases: y';
  rewrite sum_I4 /sigma /= ?simp //=; by rewrite ?simp // -?natrD.
Qed.

(* n-qubit strings: indices are functions qubit -> digit, so that the
   Kronecker product is a product over qubits *)
Variable nq : nat.
Definition pstr (k : {ffun 'I_nq -> 'I_4}) (x y : {ffun 'I_nq -> 'I_2}) : R :=
  \prod_q sigma (k q) (x q) (y q).

(* (B^dag B)[k,l] = tr(P_k^dag P_l) = 2^nq delta_kl *)
Lemma pauli_orthogonal (k l : {ffun 'I_nq -> 'I_4}) :
  \sum_x \sum_y conj (pstr k x y) * pstr l x y = (if k == l then (2 ^ nq)%:R else 0).
Proof.
transitivity (\prod_q \sum_x \sum_y conj (sigma (k q) x y) * sigma (l q) x y).
  rewrite bigA_distr_bigA /=; apply: eq_bigr => x _.
  rewrite bigA_distr_bigA /=; apply: eq_bigr => y _.
  by rewrite /pstr rmorph_prod -big_split.
under eq_bigr => q _ do rewrite sigma_orth.
case: eqP => [->|ne].
  under eq_bigr => q _ do rewrite eqxx.
  by rewrite prodr_const card_ord natrX.
have [q nq'] : exists q, k q != l q.
  apply/existsP; rewrite -negb_forall; apply/negP => /forallP H.
  by apply: ne; apply/ffunP => q; apply/eqP.
by rewrite (bigD1 q) //= (negbTE nq') mul0r.
Qed.

(* (B B^dag)[(x,y),(x',y')] = sum_k P_k[x,y] conj P_k[x',y'] = 2^nq delta delta *)
Lemma pauli_complete (x y x' y' : {ffun 'I_nq -> 'I_2}) :
  \sum_k pstr k x y * conj (pstr k x' y')
  = (if (x == x') && (y == y') then (2 ^ nq)%:R else 0).
Proof.
transitivity (\prod_q \sum_k sigma k (x q) (y q) * conj (sigma k (x' q) (y' q))).
  rewrite bigA_distr_bigA /=; apply: eq_bigr => k _.
  by rewrite /pstr rmorph_prod -big_split.
under eq_bigr => q _ do rewrite sigma_complete.
case: ifP => [/andP [/eqP -> /eqP ->]|ne].
  under eq_bigr => q _ do rewrite !eqxx /=.
  by rewrite prodr_const card_ord natrX.
have [q nq'] : exists q, ~~ ((x q == x' q) && (y q == y' q)).
  apply/existsP; rewrite -negb_forall; apply/negP => /forallP H.
  move/negP: ne; apply; apply/andP; split; apply/eqP/ffunP => q;
    by case/andP: (H q) => /eqP ? /eqP ?.
by rewrite (bigD1 q) //= (negbTE nq') mul0r.
Qed.

(* chi = B^dag J B and back: with B[(x,y), k] = b k x y (any basis that is
   orthogonal and complete with constant c), B (B^dag J B) B^dag = c^2 J and
   B^dag (B chi B^dag) B = c^2 chi.  For the Pauli strings c = 2^nq, and
   _chi_to_choi divides by shape[0] = 4^nq = c^2. *)
Section BasisChange.
Variables (IK IX : finType) (b : IK -> IX -> R) (c : R).
Hypothesis orth : forall k l, \sum_x conj (b k x) * b l x = (if k == l then c else 0).
Hypothesis compl : forall x x', \sum_k b k x * conj (b k x') = (if x == x' then c else 0).

Definition to_chi_t (J : IX -> IX -> R) : IK -> IK -> R :=
  fun k l => \sum_x \sum_x' conj (b k x) * J x x' * b l x'.
Definition of_chi_t (C : IK -> IK -> R) : IX -> IX -> R :=
  fun x x' => \sum_k \sum_l b k x * C k l * conj (b l x').

Lemma chi_roundtrip_choi J x x' : of_chi_t (to_chi_t J) x x' = c * c * J x x'.
Proof.
rewrite /of_chi_t /to_chi_t.
transitivity (\sum_y \sum_y' (\sum_k b k x * conj (b k y)) * J y y'
                              * (\sum_l b l y' * conj (b l x'))).
  under eq_bigr => k _.
    under eq_bigr => l _.
      rewrite big_distrr big_distrl /=.
      under eq_bigr => y _.
        rewrite big_distrr big_distrl /=.
        over.
      over.
    rewrite exchange_big /=.
    over.
  rewrite exchange_big /=.
  apply: eq_bigr => y _.
  under eq_bigr => k _ do rewrite exchange_big /=.
  rewrite exchange_big /=.
  apply: eq_bigr => y' _.
  rewrite big_distrl big_distrl /=; apply: eq_bigr => k _.
  rewrite big_distrr /=; apply: eq_bigr => l _.
  by rewrite !mulrA.
under eq_bigr => y _ do under eq_bigr => y' _ do rewrite !compl.
rewrite (bigD1 x) //= (bigD1 x') //= !eqxx.
rewrite big1 ?addr0; last by move=> y' /negbTE ny; rewrite ny mulr0.
rewrite big1 ?addr0; last first.
  by move=> y /negbTE ny; apply: big1 => y' _; rewrite eq_sym ny !mul0r.
by rewrite mulrAC.
Qed.

Lemma chi_roundtrip_chi C k l : to_chi_t (of_chi_t C) k l = c * c * C k l.
Proof.
rewrite /of_chi_t /to_chi_t.
transitivity (\sum_k' \sum_l' (\sum_x conj (b k x) * b k' x) * C k' l'
                              * (\sum_x' conj (b l' x') * b l x')).
  under eq_bigr => x _.
    under eq_bigr => x' _.
      rewrite big_distrr big_distrl /=.
      under eq_bigr => k' _.
        rewrite big_distrr big_distrl /=.
        over.
      over.
    rewrite exchange_big /=.
    over.
  rewrite exchange_big /=.
  apply: eq_bigr => k' _.
  under eq_bigr => x _ do rewrite exchange_big /=.
  rewrite exchange_big /=.
  apply: eq_bigr => l' _.
  rewrite big_distrl big_distrl /=; apply: eq_bigr => x _.
  rewrite big_distrr /=; apply: eq_bigr => x' _.
  by rewrite !mulrA.
under eq_bigr => k' _ do under eq_bigr => l' _ do rewrite !orth.
rewrite (bigD1 k) //= (bigD1 l) //= !eqxx.
rewrite big1 ?addr0; last by move=> l' /negbTE nl; rewrite nl mulr0.
rewrite big1 ?addr0; last first.
  by move=> k' /negbTE nk; apply: big1 => l' _; rewrite eq_sym nk !mul0r.
by rewrite mulrAC.
Qed.
End BasisChange.

(* the basis change specialised to the n-qubit Pauli strings: there and back
   multiplies by (2^nq)^2 = 4^nq = shape[0], the factor _chi_to_choi divides by *)
Definition pb (k : {ffun 'I_nq -> 'I_4})
    (xy : {ffun 'I_nq -> 'I_2} * {ffun 'I_nq -> 'I_2}) : R := pstr k xy.1 xy.2.

Lemma pb_orth k l : \sum_xy conj (pb k xy) * pb l xy = (if k == l then (2 ^ nq)%:R else 0).
Proof. by rewrite -pauli_orthogonal pair_big. Qed.

Lemma pb_compl xy xy' :
  \sum_k pb k xy * conj (pb k xy') = (if xy == xy' then (2 ^ nq)%:R else 0).
Proof. by case: xy xy' => [x y] [x' y']; rewrite /pb /= pauli_complete xpair_eqE. Qed.

Lemma pauli_chi_to_choi_to_chi J xy xy' :
  of_chi_t pb (to_chi_t pb J) xy xy' = (2 ^ nq)%:R * (2 ^ nq)%:R * J xy xy'.
Proof. exact: (chi_roundtrip_choi pb_compl). Qed.

Lemma pauli_choi_to_chi_to_choi C k l :
  to_chi_t pb (of_chi_t pb C) k l = (2 ^ nq)%:R * (2 ^ nq)%:R * C k l.
Proof. exact: (chi_roundtrip_chi pb_orth). Qed.

End Pauli.
