(* C01 - expect_data on a ket (inner(state, op @ state, True)) agrees with
   expect_csr for every ket, the 1x1 one included. *)
From Coq Require Import List ZArith Bool Arith Lia ZifyBool.
Import ListNotations.
From QV Require Import Model.C01 Proofs.C01 Proofs.C01_pred Proofs.C01_add Proofs.C01_dia
                       Proofs.C01_matmul Proofs.C01_inner.

Section ExpData.
Variable C : Type.
Variables (c0 c1 : C) (cadd cmul : C -> C -> C) (cconj : C -> C).
Variable is0 : C -> bool.
Variable tidy : C -> C.
Hypothesis Hadd0r : forall x, cadd x c0 = x.
Hypothesis Hadd0l : forall x, cadd c0 x = x.
Hypothesis Haddc : forall x y, cadd x y = cadd y x.
Hypothesis Hadda : forall x y z, cadd x (cadd y z) = cadd (cadd x y) z.
Hypothesis Hmul0r : forall x, cmul x c0 = c0.
Hypothesis Hmul0l : forall x, cmul c0 x = c0.
Hypothesis Hmul1l : forall x, cmul c1 x = x.
Hypothesis Hconj0 : cconj c0 = c0.
Hypothesis His0 : forall x, is0 x = true <-> x = c0.
Hypothesis Htidy : forall x, tidy x = x.      (* exact payloads: nothing is below the threshold *)

Notation den_csr := (den_csr C c0).
Notation dsum := (diag_sum C c0 cadd).

Lemma emit_keys : forall scale (M : crow C) k,
  In k (map fst (flat_map (fun p : nat * C =>
       let v := tidy (snd p) in if is0 v then [] else [(fst p, cmul scale v)]) M)) ->
  In k (map fst M).
Proof.
  intros scale. induction M as [|p t IH]; intros k H; simpl in *; [exact H|].
  rewrite map_app in H. apply in_app_or in H. destruct H as [H|H].
  - destruct (is0 (tidy (snd p))); simpl in H; [contradiction|]. destruct H as [H|[]]. left. exact H.
  - right. apply IH. exact H.
Qed.

Lemma emit_nodup : forall scale (M : crow C), NoDup (map fst M) ->
  NoDup (map fst (flat_map (fun p : nat * C =>
       let v := tidy (snd p) in if is0 v then [] else [(fst p, cmul scale v)]) M)).
Proof.
  intros scale. induction M as [|p t IH]; intros H; simpl; [constructor|].
  inversion H as [|x l Hnotin Hnd Heq]; subst. rewrite map_app.
  destruct (is0 (tidy (snd p))); simpl; [apply IH; exact Hnd|].
  constructor; [|apply IH; exact Hnd]. intro Hin. apply emit_keys in Hin. exact (Hnotin Hin).
Qed.

Lemma mm_terms_keys : forall (rows_r : list (crow C)) nc (ra : crow C) k,
  (forall row, In row rows_r -> forall p, In p row -> fst p < nc) ->
  In k (map fst (mm_terms C cmul rows_r ra)) -> k < nc.
Proof.
  intros rows_r nc ra k H. unfold mm_terms. induction ra as [|pa t IH]; simpl; [intros []|].
  rewrite map_app. intros Hin. apply in_app_or in Hin. destruct Hin as [Hin|Hin]; [|apply IH; exact Hin].
  rewrite map_map in Hin. simpl in Hin. apply in_map_iff in Hin. destruct Hin as [pb [<- Hpb]].
  destruct (nth_in_or_default (fst pa) rows_r []) as [Hr|E].
  - apply (H _ Hr). exact Hpb.
  - rewrite E in Hpb. contradiction.
Qed.

Lemma matmul_csr_wf : forall (l r out : csr C) scale,
  wf_csr C l -> wf_csr C r ->
  matmul_csr C cadd cmul is0 tidy l r scale = Some out ->
  wf_csr C out /\ s_nr C out = s_nr C l /\ s_nc C out = s_nc C r.
Proof.
  intros l r out scale [Ll Wl] [Lr Wr] H. unfold matmul_csr in H.
  destruct (negb (s_nc C l =? s_nr C r)); [discriminate|]. injection H as H. subst out.
  split; [|split; reflexivity]. split; simpl.
  - rewrite map_length. exact Ll.
  - intros row Hin. apply in_map_iff in Hin. destruct Hin as [ra [<- Hra]].
    unfold mm_emit.
    assert (Nsc : NoDup (map fst (scatter_all C cadd (mm_terms C cmul (s_rows C r) ra)))).
    { unfold scatter_all. apply scatter_fold_nodup. constructor. }
    split.
    + apply emit_nodup. rewrite map_rev. apply NoDup_rev. exact Nsc.
    + intros p Hp.
      assert (Hk : In (fst p) (map fst (rev (scatter_all C cadd (mm_terms C cmul (s_rows C r) ra)))))
        by (apply (emit_keys scale); apply in_map; exact Hp).
      rewrite map_rev in Hk. apply in_rev in Hk. unfold scatter_all in Hk.
      apply scatter_fold_keys in Hk. destruct Hk as [[]|Hk].
      apply (mm_terms_keys (s_rows C r) (s_nc C r) ra); [|exact Hk].
      intros row' Hr. destruct (Wr row' Hr) as [_ Hb]. exact Hb.
Qed.

Theorem expect_via_inner_sum : forall (op st : csr C) v,
  wf_csr C op -> wf_csr C st -> s_nc C st = 1 ->
  expect_via_inner C c0 c1 cadd cmul cconj is0 tidy op st = Some v ->
  s_nr C op = s_nr C st /\ s_nc C op = s_nr C st /\
  v = dsum (fun i => cmul (cconj (den_csr st i 0))
                      (dsum (fun j => cmul (den_csr op i j) (den_csr st j 0)) 0 (s_nr C st)))
           0 (s_nr C st).
Proof.
  intros op st v Wop Wst Hnc H. unfold expect_via_inner in H.
  destruct (matmul_csr C cadd cmul is0 tidy op st c1) as [pv|] eqn:M; [|discriminate].
  destruct (matmul_csr_wf op st pv c1 Wop Wst M) as [Wpv [Rpv Cpv]].
  assert (Hsh : s_nc C op = s_nr C st).
  { unfold matmul_csr in M. destruct (negb (s_nc C op =? s_nr C st)) eqn:G; [discriminate|]. lia. }
  assert (Hg : s_nr C st = s_nr C op).
  { unfold inner_csr in H. rewrite Hnc, Cpv, Hnc, Rpv in H.
    destruct (s_nr C st * 1 =? s_nr C op) eqn:G; [lia|].
    rewrite orb_true_r in H. simpl in H. discriminate. }
  split; [lia|]. split; [exact Hsh|].
  assert (Dpv : forall i, i < s_nr C st ->
            den_csr pv i 0 = dsum (fun j => cmul (den_csr op i j) (den_csr st j 0)) 0 (s_nr C st)).
  { intros i Hi.
    rewrite (matmul_csr_den C c0 cadd cmul is0 tidy Hadd0r Hadd0l Haddc Hadda Hmul0r Hmul0l His0
               (Htidy c0) op st pv c1 i 0 Wop Wst M) by lia.
    rewrite Hmul1l, Htidy, Hsh. reflexivity. }
  destruct (Nat.eq_dec (s_nr C st) 1) as [E1|E1].
  - rewrite (inner_csr_scalar C c0 cadd cmul cconj Hmul0r Hmul0l Hconj0 st pv true v Wst Wpv)
      by (try assumption; lia).
    rewrite E1. simpl. rewrite Hadd0r. rewrite (Dpv 0) by lia. rewrite E1. simpl.
    rewrite Hadd0r. reflexivity.
  - rewrite (inner_csr_ket C c0 cadd cmul cconj Hadd0r Hadd0l Hadda Hmul0r Hmul0l Hconj0
               st pv true v Wst Wpv E1 Hnc H).
    apply (diag_sum_ext C c0 cadd). intros i Hi. rewrite (Dpv i) by lia. reflexivity.
Qed.
End ExpData.
