(* C11 - proofs about the propagator memo model (Model/C11.v). *)
From Coq Require Import List ZArith Bool Arith Lia Sorting.Sorted.
Require Import ZifyBool.
Import ListNotations.
From QV Require Import Model.C11.
Open Scope Z_scope.

Notation SS := (StronglySorted Z.lt).

(* ------------------------------------------------------------ list lemmas *)
Lemma remove_at_0 {X} (x : X) r : remove_at 0 (x :: r) = r.
Proof. reflexivity. Qed.
Lemma remove_at_S {X} k (x : X) r : remove_at (S k) (x :: r) = x :: remove_at k r.
Proof. reflexivity. Qed.
Lemma remove_at_nil {X} k : remove_at k (@nil X) = [].
Proof. unfold remove_at. destruct k; reflexivity. Qed.

Lemma remove_at_In {X} k (l : list X) y : In y (remove_at k l) -> In y l.
Proof.
  revert k. induction l as [|x r IH]; intros k H.
  - rewrite remove_at_nil in H. exact H.
  - destruct k as [|k].
    + rewrite remove_at_0 in H. right. exact H.
    + rewrite remove_at_S in H. destruct H as [H|H]; [left; exact H|right; eauto].
Qed.

Lemma remove_at_length {X} k (l : list X) :
  (k < length l)%nat -> length (remove_at k l) = pred (length l).
Proof.
  revert k. induction l as [|x r IH]; intros k H; simpl in H; [lia|].
  destruct k as [|k]; [reflexivity|].
  rewrite remove_at_S. simpl. rewrite IH by lia. destruct r; simpl in *; lia.
Qed.

Lemma SS_inv x r : SS (x :: r) -> SS r /\ Forall (Z.lt x) r.
Proof. intros H. inversion H; subst. split; assumption. Qed.

Lemma SS_remove k l : SS l -> SS (remove_at k l).
Proof.
  revert k. induction l as [|x r IH]; intros k H.
  - rewrite remove_at_nil. constructor.
  - destruct (SS_inv _ _ H) as [Hr Hx]. destruct k as [|k].
    + rewrite remove_at_0. exact Hr.
    + rewrite remove_at_S. constructor; [apply IH; exact Hr|].
      apply Forall_forall. intros y Hy. apply remove_at_In in Hy.
      rewrite Forall_forall in Hx. auto.
Qed.

Lemma SS_nth l : SS l -> forall i j, (i < j < length l)%nat -> nth i l 0 < nth j l 0.
Proof.
  induction l as [|x r IH]; intros H i j Hij; simpl in Hij; [lia|].
  destruct (SS_inv _ _ H) as [Hr Hx].
  destruct j as [|j]; [lia|]. destruct i as [|i]; simpl.
  - rewrite Forall_forall in Hx. apply Hx. apply nth_In. lia.
  - apply IH; [exact Hr|lia].
Qed.

Lemma lsearch_le l t : (lsearch l t <= length l)%nat.
Proof. induction l as [|x r IH]; simpl; [lia|]. destruct (x <? t); lia. Qed.

Lemma lsearch_nth_lt l t i : (i < lsearch l t)%nat -> nth i l 0 < t.
Proof.
  revert i. induction l as [|x r IH]; intros i H; simpl in H; [lia|].
  destruct (x <? t) eqn:E; [|lia].
  destruct i as [|i]; simpl; [lia|]. apply IH. lia.
Qed.

Lemma lsearch_nth_ge l t : SS l ->
  forall i, (lsearch l t <= i < length l)%nat -> t <= nth i l 0.
Proof.
  induction l as [|x r IH]; intros H i Hi; simpl in Hi; [lia|].
  destruct (SS_inv _ _ H) as [Hr Hx].
  destruct (x <? t) eqn:E.
  - destruct i as [|i]; [lia|]. simpl. apply IH; [exact Hr|lia].
  - destruct i as [|i]; simpl; [lia|].
    rewrite Forall_forall in Hx. assert (x < nth i r 0) by (apply Hx, nth_In; lia). lia.
Qed.

Lemma bsearch_lsearch l t : SS l -> forall fuel lo hi,
  (hi - lo < fuel)%nat -> (lo <= lsearch l t <= hi)%nat -> (hi <= length l)%nat ->
  bsearch fuel l t lo hi = lsearch l t.
Proof.
  intros HS. induction fuel as [|f IH]; intros lo hi Hf Hb Hl; [lia|].
  simpl. destruct (Nat.ltb lo hi) eqn:E.
  - apply Nat.ltb_lt in E.
    assert (Hd : (Nat.div2 (hi - lo) < hi - lo)%nat) by (apply Nat.lt_div2; lia).
    set (mid := (lo + Nat.div2 (hi - lo))%nat) in *.
    destruct (nth mid l 0 <? t) eqn:E2.
    + assert (mid < lsearch l t)%nat.
      { destruct (Nat.lt_ge_cases mid (lsearch l t)) as [C|C]; [exact C|].
        pose proof (lsearch_nth_ge l t HS mid). lia. }
      apply IH; lia.
    + assert (lsearch l t <= mid)%nat.
      { destruct (Nat.lt_ge_cases mid (lsearch l t)) as [C|C]; [|exact C].
        pose proof (lsearch_nth_lt l t mid C). lia. }
      apply IH; lia.
  - apply Nat.ltb_ge in E. lia.
Qed.

Lemma searchsorted_lsearch l t : SS l -> searchsorted l t = lsearch l t.
Proof.
  intros H. unfold searchsorted. apply bsearch_lsearch; [exact H|lia| |lia].
  pose proof (lsearch_le l t). lia.
Qed.

Lemma lsearch_In l t : SS l -> In t l ->
  (lsearch l t < length l)%nat /\ nth (lsearch l t) l 0 = t.
Proof.
  induction l as [|x r IH]; intros H Hin; [inversion Hin|].
  destruct (SS_inv _ _ H) as [Hr Hx]. simpl.
  destruct (x <? t) eqn:E.
  - destruct Hin as [Hin|Hin]; [lia|]. destruct (IH Hr Hin) as [A B].
    split; [lia|exact B].
  - destruct Hin as [Hin|Hin]; [split; [lia|exact Hin]|].
    rewrite Forall_forall in Hx. specialize (Hx _ Hin). lia.
Qed.

Lemma lsearch_remove l t k : SS l -> (k < length l)%nat ->
  Z.of_nat (lsearch (remove_at k l) t) =
  if nth k l 0 <? t then Z.of_nat (lsearch l t) - 1 else Z.of_nat (lsearch l t).
Proof.
  revert k. induction l as [|x r IH]; intros k H Hk; simpl in Hk; [lia|].
  destruct (SS_inv _ _ H) as [Hr Hx]. destruct k as [|k].
  - rewrite remove_at_0. simpl. destruct (x <? t) eqn:E; [lia|].
    destruct r as [|y r']; [reflexivity|]. simpl.
    inversion Hx; subst. destruct (y <? t) eqn:E2; lia.
  - rewrite remove_at_S. simpl nth. simpl lsearch.
    destruct (x <? t) eqn:E.
    + specialize (IH k Hr ltac:(lia)).
      destruct (nth k r 0 <? t) eqn:E2; [|lia].
      assert (1 <= lsearch r t)%nat.
      { destruct r as [|y r']; [simpl in Hk; lia|]. simpl.
        destruct (y <? t) eqn:E3; [lia|].
        destruct k as [|k]; [simpl in E2; lia|].
        pose proof (SS_nth _ Hr 0%nat (S k) ltac:(simpl in *; lia)) as P.
        simpl in P. simpl in E2. lia. }
      lia.
    + rewrite Forall_forall in Hx.
      assert (x < nth k r 0) by (apply Hx, nth_In; lia).
      destruct (nth k r 0 <? t) eqn:E2; lia.
Qed.

Lemma SS_insert l t : SS l -> ~ In t l ->
  SS (firstn (lsearch l t) l ++ t :: skipn (lsearch l t) l).
Proof.
  induction l as [|x r IH]; intros H Hn; simpl.
  - constructor; constructor.
  - destruct (SS_inv _ _ H) as [Hr Hx].
    destruct (x <? t) eqn:E; simpl.
    + constructor; [apply IH; [exact Hr|intro; apply Hn; right; assumption]|].
      apply Forall_forall. intros y Hy. rewrite Forall_forall in Hx.
      apply in_app_or in Hy. destruct Hy as [Hy|[Hy|Hy]].
      * apply Hx. rewrite <- (firstn_skipn (lsearch r t) r). apply in_or_app. left. exact Hy.
      * lia.
      * apply Hx. rewrite <- (firstn_skipn (lsearch r t) r). apply in_or_app. right. exact Hy.
    + assert (t < x) by (assert (x <> t) by (intro; apply Hn; left; assumption); lia).
      constructor; [exact H|]. constructor; [assumption|].
      apply Forall_forall. intros y Hy. rewrite Forall_forall in Hx. specialize (Hx _ Hy). lia.
Qed.

Lemma Forall2_nth {X Y} (R : X -> Y -> Prop) l1 l2 dx dy :
  Forall2 R l1 l2 -> forall n, (n < length l1)%nat -> R (nth n l1 dx) (nth n l2 dy).
Proof.
  induction 1 as [|x y r1 r2 Hxy Hr IH]; intros n Hn; simpl in Hn; [lia|].
  destruct n as [|n]; simpl; [exact Hxy|apply IH; lia].
Qed.

Lemma Forall2_len {X Y} (R : X -> Y -> Prop) l1 l2 :
  Forall2 R l1 l2 -> length l1 = length l2.
Proof. induction 1; simpl; congruence. Qed.

Lemma Forall2_firstn {X Y} (R : X -> Y -> Prop) l1 l2 n :
  Forall2 R l1 l2 -> Forall2 R (firstn n l1) (firstn n l2).
Proof.
  intros H. revert n. induction H; intros n; destruct n; simpl; constructor; auto.
Qed.
Lemma Forall2_skipn {X Y} (R : X -> Y -> Prop) l1 l2 n :
  Forall2 R l1 l2 -> Forall2 R (skipn n l1) (skipn n l2).
Proof.
  intros H. revert n. induction H; intros n; destruct n; simpl; try constructor; auto.
Qed.
Lemma Forall2_remove {X Y} (R : X -> Y -> Prop) l1 l2 k :
  Forall2 R l1 l2 -> Forall2 R (remove_at k l1) (remove_at k l2).
Proof.
  intros H. unfold remove_at. apply Forall2_app;
    [apply Forall2_firstn|apply Forall2_skipn]; exact H.
Qed.
Lemma Forall2_insert {X Y} (R : X -> Y -> Prop) l1 l2 n x y :
  Forall2 R l1 l2 -> R x y ->
  Forall2 R (firstn n l1 ++ x :: skipn n l1) (firstn n l2 ++ y :: skipn n l2).
Proof.
  intros H Hxy. apply Forall2_app; [apply Forall2_firstn; exact H|].
  constructor; [exact Hxy|apply Forall2_skipn; exact H].
Qed.

Lemma py_pos_nat n len : py_pos (Z.of_nat n) len = n.
Proof. unfold py_pos. destruct (Z.of_nat n <? 0) eqn:E; lia. Qed.

Lemma insert_at_nat {X} n (x : X) l :
  insert_at (Z.of_nat n) x l = firstn n l ++ x :: skipn n l.
Proof. unfold insert_at. rewrite py_pos_nat. reflexivity. Qed.

Lemma insert_length {X} n (x : X) l :
  length (firstn n l ++ x :: skipn n l) = S (length l).
Proof.
  rewrite app_length. simpl. rewrite firstn_length, skipn_length. lia.
Qed.

Lemma div2_ge1 n : (2 <= n)%nat -> (1 <= Nat.div2 n)%nat.
Proof. destruct n as [|[|m]]; simpl; lia. Qed.

Definition fwd (p : Z * Z) : Prop := fst p <= snd p.

(* -------------------------------------------------------------- main part *)
Section PropagatorProofs.
  Variables (G A : Type) (A_eqb : A -> A -> bool) (mul : G -> G -> G)
            (one : G) (inv : G -> G) (U : A -> Z -> Z -> G) (cte : bool)
            (tol : Z) (memo : nat).
  (* operators form a group; U is the evolution of a closed linear system *)
  Hypothesis A_eqb_true : forall x y, A_eqb x y = true -> x = y.
  Hypothesis mul_assoc : forall x y z, mul x (mul y z) = mul (mul x y) z.
  Hypothesis mul_1_l : forall x, mul one x = x.
  Hypothesis mul_1_r : forall x, mul x one = x.
  Hypothesis mul_inv_l : forall x, mul (inv x) x = one.
  Hypothesis U_comp : forall a t s r, mul (U a t s) (U a s r) = U a t r.
  (* a constant system is time-translation invariant and has no arguments *)
  Hypothesis cte_shift : cte = true -> forall a t s, U a t s = U a (t - s) 0.
  Hypothesis cte_args : cte = true -> forall a b t s, U a t s = U b t s.
  Hypothesis tol_nonneg : 0 <= tol.
  Hypothesis memo_ge : (3 <= memo)%nat.

  (* the code as it is: old_rule = false *)
  Notation pst := (pst G A).
  Notation compute := (compute G A mul one inv U false).
  Notation insert := (insert G A memo).
  Notation evict := (evict G memo).
  Notation lookup := (lookup G A mul one inv U tol memo false).
  Notation apply_args := (apply_args G A A_eqb one cte).
  Notation call := (call G A A_eqb mul one inv U cte tol memo false).
  Notation run := (run G A A_eqb mul one inv U cte tol memo false).

  Lemma U_id a t : U a t t = one.
  Proof.
    pose proof (U_comp a t t t) as H.
    assert (H0 : mul (inv (U a t t)) (mul (U a t t) (U a t t)) = mul (inv (U a t t)) (U a t t))
      by (rewrite H; reflexivity).
    rewrite mul_assoc, mul_inv_l, mul_1_l in H0. exact H0.
  Qed.

  Lemma inv_U a t s : inv (U a t s) = U a s t.
  Proof.
    rewrite <- (mul_1_r (inv (U a t s))). rewrite <- (U_id a t).
    rewrite <- (U_comp a t s t). rewrite mul_assoc, mul_inv_l, mul_1_l. reflexivity.
  Qed.

  Definition R (a : A) (t : Z) (u : G) : Prop := u = U a t 0.

  Record Inv (s : pst) : Prop := mk_Inv {
    I_sorted : SS (times s);
    I_props : Forall2 (R (sargs s)) (times s) (props s);
    I_len : (1 <= length (times s) <= memo)%nat;
    I_live : lU s = U (sargs s) (lt s) 0;
    I_args : forall x, pargs s = Some x -> sargs s = x;
    I_fwd : Forall fwd (steps s)
  }.

  Lemma init_Inv a0 : Inv (init G A one a0 None).
  Proof.
    constructor; simpl.
    - constructor; constructor.
    - constructor; [unfold R; rewrite U_id; reflexivity|constructor].
    - lia.
    - rewrite U_id; reflexivity.
    - intros x H. discriminate.
    - constructor.
  Qed.

  Lemma compute_spec s t : Inv s ->
    forall u s', compute s t (lsearch (times s) t) = (u, s') ->
    u = U (sargs s) t 0 /\ times s' = times s /\ props s' = props s /\
    pargs s' = pargs s /\ sargs s' = sargs s /\
    lU s' = U (sargs s) (lt s') 0 /\ Forall fwd (steps s').
  Proof.
    intros HI u s' H. destruct HI as [Hs Hp Hl Hlive Ha Hf].
    pose proof (lsearch_le (times s) t) as Hle.
    set (idx := lsearch (times s) t) in *.
    unfold Model.C11.compute in H.
    destruct ((nth_prev (times s) idx 0 <=? lt s) && (lt s <=? t)) eqn:E1.
    - unfold step in H. injection H as Hu Hs'. subst s'. simpl.
      assert (Hu' : u = U (sargs s) t 0) by (rewrite <- Hu, Hlive, U_comp; reflexivity).
      repeat split; try reflexivity; try assumption.
      + rewrite Hu. exact Hu'.
      + constructor; [unfold fwd; simpl; lia|exact Hf].
    - destruct (Nat.ltb 0 idx) eqn:E2.
      + apply Nat.ltb_lt in E2.
        unfold step, start in H. simpl in H. injection H as Hu Hs'. subst s'. simpl.
        assert (Hn : (idx - 1 < length (times s))%nat) by lia.
        pose proof (Forall2_nth _ _ _ 0 one Hp _ Hn) as Hr. unfold R in Hr.
        assert (Hu' : u = U (sargs s) t 0) by (rewrite <- Hu, Hr, U_comp; reflexivity).
        repeat split; try reflexivity; try assumption.
        * rewrite Hu. exact Hu'.
        * constructor; [|exact Hf]. unfold fwd; simpl.
          pose proof (lsearch_nth_lt (times s) t (idx - 1)%nat ltac:(fold idx; lia)). lia.
      + apply Nat.ltb_ge in E2.
        assert (Hi0 : idx = 0%nat) by lia. rewrite Hi0 in H.
        unfold step, start in H. simpl in H. injection H as Hu Hs'. subst s'. simpl.
        assert (Hn : (0 < length (times s))%nat) by lia.
        pose proof (Forall2_nth _ _ _ 0 one Hp _ Hn) as Hr. unfold R in Hr.
        assert (Hu' : u = U (sargs s) t 0).
        { rewrite <- Hu, Hr, mul_1_r, inv_U, U_comp. reflexivity. }
        repeat split; try reflexivity; try assumption.
        * rewrite Hu. exact Hu'.
        * constructor; [|exact Hf]. unfold fwd; simpl.
          pose proof (lsearch_nth_ge (times s) t Hs 0%nat ltac:(fold idx; lia)). lia.
  Qed.

  Lemma evict_stop fuel ts (ps : list G) t i :
    (length ts < memo)%nat -> evict fuel ts ps t i = (ts, ps, i).
  Proof.
    intros H. destruct fuel; cbn [Model.C11.evict]; [reflexivity|].
    apply Nat.leb_gt in H. rewrite H. reflexivity.
  Qed.

  Lemma evict_spec ts ps t a :
    SS ts -> Forall2 (R a) ts ps -> (1 <= length ts <= memo)%nat ->
    exists ts' ps',
      evict (S (length ts)) ts ps t (Z.of_nat (lsearch ts t))
        = (ts', ps', Z.of_nat (lsearch ts' t)) /\
      SS ts' /\ Forall2 (R a) ts' ps' /\ (1 <= length ts' < memo)%nat /\
      (forall x, In x ts' -> In x ts).
  Proof.
    intros Hs Hp Hl. cbn [Model.C11.evict].
    destruct (Nat.leb memo (length ts)) eqn:E.
    - apply Nat.leb_le in E.
      pose proof (div2_ge1 memo ltac:(lia)) as Hd1.
      pose proof (Nat.lt_div2 memo ltac:(lia)) as Hd2.
      set (rm := Nat.div2 memo) in *.
      exists (remove_at rm ts), (remove_at rm ps).
      assert (Hlen : length (remove_at rm ts) = pred (length ts)) by (apply remove_at_length; lia).
      split.
      { rewrite evict_stop by lia.
        rewrite (lsearch_remove ts t rm Hs ltac:(lia)). reflexivity. }
      split; [apply SS_remove; exact Hs|].
      split; [apply Forall2_remove; exact Hp|].
      split; [lia|].
      intros x Hx; eapply remove_at_In; exact Hx.
    - apply Nat.leb_gt in E. exists ts, ps.
      split; [reflexivity|]. split; [exact Hs|]. split; [exact Hp|].
      split; [lia|]. auto.
  Qed.

  Lemma lookup_spec s t : Inv s ->
    forall u s', lookup s t = (u, s') ->
    Inv s' /\ sargs s' = sargs s /\ pargs s' = pargs s /\
    exists t', Z.abs (t - t') <= tol /\ u = U (sargs s) t' 0.
  Proof.
    intros HI u s' H. pose proof HI as [Hs Hp Hl Hlive Ha Hf].
    unfold Model.C11.lookup in H. rewrite (searchsorted_lsearch _ t Hs) in H.
    pose proof (lsearch_le (times s) t) as Hle.
    set (idx := lsearch (times s) t) in *. unfold within in H.
    destruct (Nat.ltb idx (length (times s)) && (Z.abs (t - nth idx (times s) 0) <=? tol)) eqn:E1.
    { injection H as Hu Hs'. subst s'. split; [exact HI|]. split; [reflexivity|]. split; [reflexivity|].
      exists (nth idx (times s) 0). split; [lia|].
      rewrite <- Hu. apply (Forall2_nth _ _ _ 0 one Hp). apply Nat.ltb_lt. lia. }
    destruct (Nat.ltb 0 idx && (Z.abs (t - nth (idx - 1) (times s) 0) <=? tol)) eqn:E2.
    { injection H as Hu Hs'. subst s'. split; [exact HI|]. split; [reflexivity|]. split; [reflexivity|].
      exists (nth (idx - 1) (times s) 0). split; [lia|].
      rewrite <- Hu. apply (Forall2_nth _ _ _ 0 one Hp).
      assert (0 < idx)%nat by (apply Nat.ltb_lt; lia). lia. }
    (* miss *)
    assert (Hnotin : ~ In t (times s)).
    { intros Hin. destruct (lsearch_In _ _ Hs Hin) as [B C]. fold idx in B, C.
      rewrite C in E1. assert (Nat.ltb idx (length (times s)) = true) by (apply Nat.ltb_lt; exact B).
      lia. }
    destruct (compute s t idx) as [u1 s1] eqn:EC.
    destruct (compute_spec s t HI u1 s1 EC) as (Hu1 & Ht1 & Hp1 & Hpa1 & Hsa1 & Hl1 & Hf1).
    injection H as Hu Hs'. subst u1.
    unfold Model.C11.insert in Hs'. rewrite Ht1, Hp1 in Hs'.
    destruct (evict_spec (times s) (props s) t (sargs s) Hs Hp Hl)
      as (ts' & ps' & Hev & Hs2 & Hp2 & Hl2 & Hin2).
    fold idx in Hev. rewrite Hev in Hs'. subst s'.
    rewrite !insert_at_nat. split; [|split; [exact Hsa1|split; [exact Hpa1|]]].
    - constructor; simpl.
      + apply SS_insert; [exact Hs2|]. intros Hin. apply Hnotin. apply Hin2. exact Hin.
      + rewrite Hsa1. apply Forall2_insert; [exact Hp2|]. unfold R. exact Hu1.
      + rewrite insert_length. lia.
      + rewrite Hsa1. exact Hl1.
      + rewrite Hpa1, Hsa1. exact Ha.
      + exact Hf1.
    - exists t. split; [lia|exact Hu1].
  Qed.

  (* ---------------------------------------------------------- __call__ *)
  Definition Ueq (a b : A) : Prop := forall t r, U a t r = U b t r.

  Lemma reset_Inv s x : Inv s -> Inv (reset G A one s x).
  Proof.
    intros HI. constructor; simpl.
    - constructor; constructor.
    - constructor; [unfold R; rewrite U_id; reflexivity|constructor].
    - lia.
    - rewrite U_id; reflexivity.
    - intros y H. injection H as H. exact H.
    - apply (I_fwd _ HI).
  Qed.

  Lemma apply_args_spec s a cur : Inv s -> Ueq (sargs s) cur ->
    Inv (apply_args s a) /\ Ueq (sargs (apply_args s a)) (cur_args A cur a).
  Proof.
    intros HI HU. unfold Model.C11.apply_args. destruct a as [x|]; simpl; [|split; assumption].
    destruct (Bool.bool_dec cte true) as [EC|EC]; [|apply Bool.not_true_is_false in EC]; rewrite EC; simpl.
    - split; [exact HI|]. intros t r. apply cte_args. exact EC.
    - destruct (opt_is A A_eqb (pargs s) x) eqn:EO; simpl.
      + split; [exact HI|]. unfold opt_is in EO. destruct (pargs s) as [y|] eqn:EP; [|discriminate].
        apply A_eqb_true in EO. subst y. rewrite (I_args _ HI x EP). intros t r. reflexivity.
      + split; [apply reset_Inv; exact HI|]. simpl. intros t r. reflexivity.
  Qed.

  Lemma call_spec s t ts a cur : Inv s -> Ueq (sargs s) cur ->
    forall u s', call s t ts a = (u, s') ->
    Inv s' /\ Ueq (sargs s') (cur_args A cur a) /\
    exists t' ts', Z.abs (t - t') <= tol /\ Z.abs (ts - ts') <= tol /\
                   u = U (cur_args A cur a) t' ts'.
  Proof.
    intros HI HU u s' H. unfold Model.C11.call in H.
    destruct (apply_args_spec s a cur HI HU) as [HI0 HU0].
    set (s0 := apply_args s a) in *. set (c := cur_args A cur a) in *.
    destruct (ts =? 0) eqn:E0.
    - destruct (lookup_spec s0 t HI0 u s' H) as (HI' & Hsa & _ & t' & Ht' & Hu).
      split; [exact HI'|]. split; [rewrite Hsa; exact HU0|].
      exists t', 0. split; [exact Ht'|]. split; [lia|]. rewrite Hu. apply HU0.
    - assert (H1 : exists s1, (if t =? ts then snd (lookup s0 0) else s0) = s1 /\
                              Inv s1 /\ sargs s1 = sargs s0).
      { destruct (t =? ts); [|exists s0; auto].
        destruct (lookup s0 0) as [u0 s1] eqn:EL. simpl.
        destruct (lookup_spec s0 0 HI0 u0 s1 EL) as (A1 & A2 & _).
        exists s1. auto. }
      destruct H1 as (s1 & Hs1 & HI1 & Hsa1). rewrite Hs1 in H. clear Hs1.
      destruct (Bool.bool_dec cte true) as [EC|EC]; [|apply Bool.not_true_is_false in EC]; rewrite EC in H.
      + destruct (lookup_spec s1 (t - ts) HI1 u s' H) as (HI' & Hsa & _ & d & Hd & Hu).
        split; [exact HI'|]. split; [rewrite Hsa, Hsa1; exact HU0|].
        exists (ts + d), ts. split; [lia|]. split; [lia|].
        rewrite (cte_shift EC c (ts + d) ts). replace (ts + d - ts) with d by lia.
        rewrite Hu, Hsa1. apply HU0.
      + destruct (lookup s1 ts) as [us s2] eqn:EL1.
        destruct (lookup s2 t) as [ut s3] eqn:EL2.
        injection H as Hu Hs'. subst s'.
        destruct (lookup_spec s1 ts HI1 us s2 EL1) as (HI2 & Hsa2 & _ & ts' & Hts' & Hus).
        destruct (lookup_spec s2 t HI2 ut s3 EL2) as (HI3 & Hsa3 & _ & t' & Ht' & Hut).
        split; [exact HI3|]. split; [rewrite Hsa3, Hsa2, Hsa1; exact HU0|].
        exists t', ts'. split; [exact Ht'|]. split; [exact Hts'|].
        rewrite <- Hu, Hut, Hus, Hsa2, inv_U, U_comp, Hsa1. apply HU0.
  Qed.

  (* specification of a whole history: answer k is the exact evolution, under
     the arguments in force at query k, between times within `tol` of the
     requested ones *)
  Fixpoint answers_ok (cur : A) (qs : list (Z * Z * option A)) (us : list G) : Prop :=
    match qs, us with
    | [], [] => True
    | (t, ts, a) :: qr, u :: ur =>
        let c := cur_args A cur a in
        (exists t' ts', Z.abs (t - t') <= tol /\ Z.abs (ts - ts') <= tol /\ u = U c t' ts')
        /\ answers_ok c qr ur
    | _, _ => False
    end.

  Definition final_args (cur : A) (qs : list (Z * Z * option A)) : A :=
    fold_left (fun c q => cur_args A c (snd q)) qs cur.

  Lemma run_spec qs : forall s cur, Inv s -> Ueq (sargs s) cur ->
    forall us s', run s qs = (us, s') ->
    Inv s' /\ Ueq (sargs s') (final_args cur qs) /\ answers_ok cur qs us.
  Proof.
    induction qs as [|[[t ts] a] qr IH]; intros s cur HI HU us s' H; simpl in H.
    - injection H as <- <-. split; [exact HI|]. split; [exact HU|exact I].
    - destruct (call s t ts a) as [u s1] eqn:EC.
      destruct (run s1 qr) as [ur s2] eqn:ER. injection H as <- <-.
      destruct (call_spec s t ts a cur HI HU u s1 EC) as (HI1 & HU1 & Hans).
      destruct (IH s1 (cur_args A cur a) HI1 HU1 ur s2 ER) as (HI2 & HU2 & Hrest).
      split; [exact HI2|]. split; [exact HU2|]. simpl. split; [exact Hans|exact Hrest].
  Qed.
End PropagatorProofs.

(* ------------------------------------------------- closed-form statements *)
Record Evolution {G A : Type} (A_eqb : A -> A -> bool) (mul : G -> G -> G)
    (one : G) (inv : G -> G) (U : A -> Z -> Z -> G) (cte : bool) : Prop := {
  ev_eqb : forall x y, A_eqb x y = true -> x = y;
  ev_assoc : forall x y z, mul x (mul y z) = mul (mul x y) z;
  ev_1l : forall x, mul one x = x;
  ev_1r : forall x, mul x one = x;
  ev_invl : forall x, mul (inv x) x = one;
  ev_comp : forall a t s r, mul (U a t s) (U a s r) = U a t r;
  ev_shift : cte = true -> forall a t s, U a t s = U a (t - s) 0;
  ev_args : cte = true -> forall a b t s, U a t s = U b t s
}.

Fixpoint answers_exact {G A : Type} (U : A -> Z -> Z -> G) (cur : A)
    (qs : list (Z * Z * option A)) (us : list G) : Prop :=
  match qs, us with
  | [], [] => True
  | (t, ts, a) :: qr, u :: ur =>
      let c := cur_args A cur a in u = U c t ts /\ answers_exact U c qr ur
  | _, _ => False
  end.

Lemma answers_ok_exact {G A} (U : A -> Z -> Z -> G) qs :
  forall cur us, answers_ok G A U 0 cur qs us -> answers_exact U cur qs us.
Proof.
  induction qs as [|[[t ts] a] qr IH]; intros cur us H; destruct us as [|u ur]; simpl in *; auto.
  destruct H as [(t' & ts' & H1 & H2 & H3) Hr].
  assert (t' = t) by lia. assert (ts' = ts) by lia. subst t' ts'.
  split; [exact H3|apply IH; exact Hr].
Qed.

Section Closed.
  Variables (G A : Type) (A_eqb : A -> A -> bool) (mul : G -> G -> G)
            (one : G) (inv : G -> G) (U : A -> Z -> Z -> G) (cte : bool)
            (tol : Z) (memo : nat).
  Hypothesis E : Evolution A_eqb mul one inv U cte.
  Hypothesis Htol : 0 <= tol.
  Hypothesis Hmemo : (3 <= memo)%nat.

  Notation run := (run G A A_eqb mul one inv U cte tol memo false).
  Notation call := (call G A A_eqb mul one inv U cte tol memo false).
  Notation init := (init G A one).

  Lemma history_spec a0 qs :
    forall us s', run (init a0 None) qs = (us, s') ->
    Inv G A U memo s' /\ Ueq G A U (sargs s') (final_args A a0 qs) /\
    answers_ok G A U tol a0 qs us.
  Proof.
    intros us s' H. destruct E.
    eapply run_spec with (s := init a0 None); try eassumption.
    - eapply init_Inv; eassumption.
    - intros t r. reflexivity.
  Qed.

  Lemma query_spec s cur t ts a : Inv G A U memo s -> Ueq G A U (sargs s) cur ->
    forall u s', call s t ts a = (u, s') ->
    Inv G A U memo s' /\ Ueq G A U (sargs s') (cur_args A cur a) /\
    exists t' ts', Z.abs (t - t') <= tol /\ Z.abs (ts - ts') <= tol /\
                   u = U (cur_args A cur a) t' ts'.
  Proof. intros. destruct E. eapply call_spec; eassumption. Qed.
End Closed.

Section ClosedExact.
  Variables (G A : Type) (A_eqb : A -> A -> bool) (mul : G -> G -> G)
            (one : G) (inv : G -> G) (U : A -> Z -> Z -> G) (cte : bool)
            (memo : nat).
  Hypothesis E : Evolution A_eqb mul one inv U cte.
  Hypothesis Hmemo : (3 <= memo)%nat.
  Notation run := (run G A A_eqb mul one inv U cte 0 memo false).
  Notation call := (call G A A_eqb mul one inv U cte 0 memo false).
  Notation init := (init G A one).

  Lemma query_exact s cur t ts a : Inv G A U memo s -> Ueq G A U (sargs s) cur ->
    forall u s', call s t ts a = (u, s') ->
    Inv G A U memo s' /\ Ueq G A U (sargs s') (cur_args A cur a) /\
    u = U (cur_args A cur a) t ts.
  Proof.
    intros HI HU u s' H.
    destruct (query_spec G A A_eqb mul one inv U cte 0 memo E ltac:(lia) Hmemo
                s cur t ts a HI HU u s' H) as (A1 & A2 & t' & ts' & B1 & B2 & B3).
    assert (t' = t) by lia. assert (ts' = ts) by lia. subst. auto.
  Qed.

  (* composition over adjacent intervals, after any history *)
  Lemma composition a0 qs t2 t1 t0 :
    let s := snd (run (init a0 None) qs) in
    let '(u21, s1) := call s t2 t1 None in
    let '(u10, s2) := call s1 t1 t0 None in
    let '(u20, _) := call s2 t2 t0 None in
    mul u21 u10 = u20.
  Proof.
    destruct (run (init a0 None) qs) as [us s] eqn:ER. simpl.
    destruct (history_spec G A A_eqb mul one inv U cte 0 memo E ltac:(lia) Hmemo a0 qs us s ER)
      as (HI & HU & _).
    destruct (call s t2 t1 None) as [u21 s1] eqn:E1.
    destruct (call s1 t1 t0 None) as [u10 s2] eqn:E2.
    destruct (call s2 t2 t0 None) as [u20 s3] eqn:E3.
    destruct (query_exact s _ t2 t1 None HI HU _ _ E1) as (HI1 & HU1 & R1).
    destruct (query_exact s1 _ t1 t0 None HI1 HU1 _ _ E2) as (HI2 & HU2 & R2).
    destruct (query_exact s2 _ t2 t0 None HI2 HU2 _ _ E3) as (HI3 & HU3 & R3).
    simpl in R1, R2, R3. rewrite R1, R2, R3. apply (ev_comp _ _ _ _ _ _ E).
  Qed.

  (* the answer after any history is the answer of a fresh object *)
  Lemma fresh_equiv a0 qs t ts a :
    let s := snd (run (init a0 None) qs) in
    fst (call s t ts a)
    = fst (call (init (cur_args A (final_args A a0 qs) a) None) t ts None).
  Proof.
    destruct (run (init a0 None) qs) as [us s] eqn:ER. simpl.
    destruct (history_spec G A A_eqb mul one inv U cte 0 memo E ltac:(lia) Hmemo a0 qs us s ER)
      as (HI & HU & _).
    destruct (call s t ts a) as [u s1] eqn:E1.
    set (c := cur_args A (final_args A a0 qs) a).
    destruct (call (init c None) t ts None) as [u' s1'] eqn:E2. simpl.
    destruct (query_exact s _ t ts a HI HU _ _ E1) as (_ & _ & R1).
    assert (HI0 : Inv G A U memo (init c None)) by (destruct E; eapply init_Inv; eassumption).
    destruct (query_exact (init c None) c t ts None HI0 ltac:(intros x y; reflexivity) _ _ E2)
      as (_ & _ & R2).
    simpl in R2. rewrite R1, R2. reflexivity.
  Qed.
End ClosedExact.

(* ---------------------------------------------- the executable instance *)
Lemma h3_eq (a b c a' b' c' : Z) : a = a' -> b = b' -> c = c' -> (a, b, c) = (a', b', c').
Proof. intros; subst; reflexivity. Qed.

Lemma H3_evolution cte : Evolution Z.eqb hmul hone hinv (hU cte) cte.
Proof.
  constructor.
  - intros x y H. apply Z.eqb_eq. exact H.
  - intros [[a1 b1] c1] [[a2 b2] c2] [[a3 b3] c3]. simpl. apply h3_eq; ring.
  - intros [[a b] c]. simpl. apply h3_eq; ring.
  - intros [[a b] c]. simpl. apply h3_eq; ring.
  - intros [[a b] c]. simpl. apply h3_eq; ring.
  - intros k t s r. destruct cte; cbv beta iota zeta delta [hU hflow hmul hinv]; apply h3_eq; ring.
  - intros -> k t s. cbv beta iota zeta delta [hU hflow hmul hinv]. apply h3_eq; ring.
  - intros -> k k' t s. reflexivity.
Qed.

(* answers of the executable instance (args k = 1, tol = 0, memoize = 10);
   old_rule = true is the backward branch as it was before commit 3b5adfb *)
Definition h3_run (old_rule cte : bool) (qs : list (Z * Z * option Z)) : list H3 :=
  fst (run H3 Z Z.eqb hmul hone hinv (hU cte) cte 0 10 old_rule (init H3 Z hone 1 None) qs).
