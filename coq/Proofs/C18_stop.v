(* C18 - stopping rule of the power method: if the loop ends by its own
   criterion, the returned (symmetrised, trace-normalised) state has a small
   residual.  The vector norm is abstract (any absolutely homogeneous,
   subadditive function invariant under x -> vec((unvec x)^dag), e.g. the
   max-norm `_data.norm.max` computes). *)
From mathcomp Require Import all_ssreflect all_algebra.
From mathcomp Require Import mxtens.
From QV Require Import Base.MxHerm Model.C18 Proofs.C18.

Set Implicit Arguments.
Unset Strict Implicit.
Unset Printing Implicit Defensive.
Import Order.TTheory GRing.Theory Num.Theory.
Local Open Scope ring_scope.

Section Stop.
Variable R : fieldType.
Variable conj : {rmorphism R -> R}.
Hypothesis conjK : involutive conj.
Variable K : numFieldType.
Variable n : nat.
Variable absr : R -> K.
Variable nrm : 'cV[R]_(n * n) -> K.
Hypothesis nrmZ : forall a x, nrm (a *: x) = absr a * nrm x.
Hypothesis nrmD : forall x y, nrm (x + y) <= nrm x + nrm y.
Hypothesis nrm_dag : forall x, nrm (cvec (dag conj (unvec x))) = nrm x.
Hypothesis absr_ge0 : forall a, 0 <= absr a.

Variables (L0 : 'M[R]_(n * n)) (eps : R).
(* A += power_eps; L = A.data *)
Let L := L0 + eps%:M.
Hypothesis Lhp : hp conj L.
Variable y : 'cV[R]_(n * n).
Variable tol : K.
Let Y := unvec y.
Let S := Y + dag conj Y.
Let rho := power_normalise conj Y.

Lemma power_residual_shifted :
  nrm (L *m y) <= tol ->
  nrm (L *m cvec rho) <= absr (\tr S)^-1 * (tol + tol).
Proof.
move=> Hy.
have E : L *m cvec rho = (\tr S)^-1 *: (L *m y + cvec (dag conj (unvec (L *m y)))).
  rewrite /rho /power_normalise /normalise -/S cvecZ -scalemxAr /S cvecD mulmxDr.
  by rewrite /Y unvecK (Lhp (unvec y)) unvecK.
rewrite E nrmZ; apply: ler_wpmul2l; first exact: absr_ge0.
apply: le_trans (nrmD _ _) _; rewrite nrm_dag; exact: ler_add.
Qed.

(* ... and with respect to the generator the user passed (before the shift) *)
Lemma power_residual :
  nrm (L *m y) <= tol ->
  nrm (L0 *m cvec rho) <= absr (\tr S)^-1 * (tol + tol) + absr (- eps) * nrm (cvec rho).
Proof.
move=> Hy.
have -> : L0 *m cvec rho = L *m cvec rho + (- eps) *: cvec rho.
  by rewrite /L mulmxDl mul_scalar_mx scaleNr addrK.
apply: le_trans (nrmD _ _) _; rewrite nrmZ ler_add2r.
exact: power_residual_shifted.
Qed.

End Stop.
(* a concrete instance of the norm hypotheses: rat, n = 1, |x_00| *)
Definition ex_nrm (x : 'cV[rat]_(1 * 1)) : rat := `|x 0 0|.
Lemma ex_norm_hyps :
  [/\ forall a x, ex_nrm (a *: x) = `|a| * ex_nrm x,
      forall x y, ex_nrm (x + y) <= ex_nrm x + ex_nrm y,
      forall x, ex_nrm (cvec (dag [rmorphism of idfun] (unvec x))) = ex_nrm x
    & forall a : rat, 0 <= `|a| ].
Proof.
split.
- by move=> a x; rewrite /ex_nrm mxE normrM.
- by move=> x y; rewrite /ex_nrm mxE ler_norm_add.
- move=> x; rewrite /ex_nrm !mxE /=.
  by congr (`| x _ _ |); apply: val_inj.
- by move=> a.
Qed.
