(* C11 - proofs about the lsoda window model. *)
From Coq Require Import List ZArith Bool Arith Lia.
Require Import ZifyBool.
Import ListNotations.
From QV Require Import Model.C11_lsoda.
Open Scope Z_scope.

(* a freshly reset integrator stands at its own front; nothing is poisoned *)
Definition LInv (s : lst) : Prop :=
  l_poison s = false /\
  (l_fresh s = true -> l_t s = l_front s).

Lemma l_new_inv : LInv l_new. Proof. split; reflexivity. Qed.
Lemma l_set_inv s t : LInv (l_set_state s t). Proof. split; reflexivity. Qed.

(* a call whose target differs from the current time, or on a non-fresh
   integrator, does not poison *)
Lemma l_run_ok s tout o : l_poison s = false ->
  (l_fresh s = true -> tout <> l_t s) ->
  let '(s1, r, c) := l_run s tout o in
  l_poison s1 = false /\ l_fresh s1 = false /\ r = false /\
  l_back s1 = l_back s /\ l_front s1 = l_front s.
Proof.
  intros Hp Hf. unfold l_run. rewrite Hp.
  destruct (l_fresh s) eqn:Ef; simpl.
  - specialize (Hf eq_refl). destruct (tout =? l_t s) eqn:E; [lia|].
    destruct o as [[tc hu] hc]. simpl. auto.
  - destruct (tout <=? l_tcur s); [simpl; auto|]. destruct o as [[tc hu] hc]. simpl. auto.
Qed.

(* the probe target of _one_step lies beyond the front *)
Definition probe_ok (s : lst) (o : lop) : Prop :=
  match o with
  | LSet _ => True
  | LMc t _ p _ _ => l_front s < t -> l_front s < p
  end.

Lemma l_do_inv s o : LInv s -> probe_ok s o -> LInv (fst (fst (l_do true s o))).
Proof.
  intros [Hp Hf] Hpr. destruct o as [t|t fd p o1 o2]; simpl; [apply l_set_inv|].
  unfold l_mcstep. destruct (negb (l_set s)); [split; assumption|].
  destruct (l_t s =? t) eqn:Et; [split; assumption|].
  destruct ((l_back s <=? t) && (t <=? l_front s)) eqn:Ew.
  - unfold l_backstep. destruct (t =? l_t s) eqn:E1; [lia|].
    destruct (fd <=? t).
    + pose proof (l_run_ok s t o1 Hp ltac:(intros _; lia)) as H.
      destruct (l_run s t o1) as [[s1 r] c]. simpl. destruct H as (A & B & _).
      split; [exact A|]. rewrite B. discriminate.
    + simpl. destruct (t =? l_back s) eqn:E2; simpl; [apply l_set_inv|].
      pose proof (l_run_ok (l_set_state s (l_back s)) t o1 eq_refl ltac:(simpl; intros _; lia)) as H.
      destruct (l_run (l_set_state s (l_back s)) t o1) as [[s1 r] c]. simpl.
      destruct H as (A & B & _). split; [exact A|]. rewrite B. discriminate.
  - destruct (l_front s <? t) eqn:Ef; [|split; assumption].
    unfold l_one_step. rewrite Ef. simpl in Hpr. specialize (Hpr ltac:(lia)).
    destruct (l_front s <=? l_t s) eqn:E3; simpl.
    + pose proof (l_run_ok (with_bf s (l_t s) (l_front s)) p o1 Hp
                    ltac:(simpl; intros Hfr; specialize (Hf Hfr); lia)) as H.
      destruct (l_run (with_bf s (l_t s) (l_front s)) p o1) as [[s1 r1] c1].
      destruct H as (A & B & C & _). subst r1.
      pose proof (l_run_ok (with_bf s1 (l_back s1) (l_tcur s1)) (Z.min (l_tcur s1) t) o2 A
                    ltac:(simpl; rewrite B; discriminate)) as H2.
      simpl in *. destruct (l_run (with_bf s1 (l_back s1) (l_tcur s1)) (Z.min (l_tcur s1) t) o2)
        as [[s3 r3] c3]. simpl. destruct H2 as (A2 & B2 & _).
      split; [exact A2|]. rewrite B2. discriminate.
    + pose proof (l_run_ok s (l_front s) o1 Hp ltac:(intros _; lia)) as H.
      destruct (l_run s (l_front s) o1) as [[s1 r] c]. simpl. destruct H as (A & B & _).
      split; [exact A|]. rewrite B. discriminate.
Qed.

Fixpoint probes_ok (s : lst) (ops : list lop) : Prop :=
  match ops with
  | [] => True
  | o :: r => probe_ok s o /\ probes_ok (fst (fst (l_do true s o))) r
  end.

Lemma l_final_inv ops : forall s, LInv s -> probes_ok s ops -> LInv (l_final true s ops).
Proof.
  induction ops as [|o r IH]; intros s HI HP; simpl; [exact HI|].
  destruct HP as [P1 P2]. apply IH; [apply l_do_inv; assumption|exact P2].
Qed.
