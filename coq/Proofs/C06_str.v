(* C06 - proofs about the token-level model of parse() (Model/C06_str.v) *)
From Coq Require Import List Bool Arith Lia.
Import ListNotations.
From QV Require Import Model.C06_str.

Lemma ctype_eqb_refl c : ctype_eqb c c = true.
Proof. destruct c; reflexivity. Qed.

Lemma ctype_eqb_eq a b : ctype_eqb a b = true -> a = b.
Proof. destruct a, b; cbn; congruence. Qed.

Lemma find_app {A} (f : A -> bool) (l l' : list A) :
  find f (l ++ l') = match find f l with Some x => Some x | None => find f l' end.
Proof. induction l as [|a l IH]; cbn; auto. destruct (f a); auto. Qed.

(* ------------------------------------------------------------- extraction *)
(* a token with its literal put back (pattern class forgotten) *)
Definition resolve (consts : list nat) (t : tok) : tok :=
  match t with
  | TLit _ txt => TLit 0 txt
  | TTemp k => match nth_error consts k with Some txt => TLit 0 txt | None => TTemp k end
  | _ => t
  end.

Definition wf (consts : list nat) (toks : list tok) : Prop :=
  forall k, In (TTemp k) toks -> k < length consts.

Lemma resolve_ext consts e t :
  (forall k, t = TTemp k -> k < length consts) ->
  resolve (consts ++ e) t = resolve consts t.
Proof.
  intros H. destruct t as [c txt|x|s|k]; cbn; auto.
  rewrite nth_error_app1 by (apply H; reflexivity). reflexivity.
Qed.

Lemma map_resolve_ext consts e toks :
  wf consts toks -> map (resolve (consts ++ e)) toks = map (resolve consts) toks.
Proof.
  intros H. apply map_ext_in. intros t Ht. apply resolve_ext.
  intros k ->. apply H. exact Ht.
Qed.

Lemma pass_spec c : forall toks consts,
  wf consts toks ->
  exists ext, snd (pass c toks consts) = consts ++ ext /\
    map (resolve (snd (pass c toks consts))) (fst (pass c toks consts))
      = map (resolve consts) toks /\
    wf (snd (pass c toks consts)) (fst (pass c toks consts)).
Proof.
  induction toks as [|t r IH]; intros consts Hwf.
  - exists []. cbn. rewrite app_nil_r. repeat split. intros k [].
  - assert (Hr : wf consts r) by (intros k Hk; apply Hwf; right; exact Hk).
    destruct t as [c' txt|x|s|k].
    + cbn [pass]. destruct (Nat.eqb c' c) eqn:Ec.
      * assert (Hr' : wf (consts ++ [txt]) r).
        { intros k Hk. rewrite app_length. cbn. specialize (Hr k Hk). lia. }
        destruct (IH (consts ++ [txt]) Hr') as (ext & E1 & E2 & E3).
        destruct (pass c r (consts ++ [txt])) as [r' cs] eqn:Ep. cbn [fst snd] in *.
        exists ([txt] ++ ext). rewrite app_assoc. split; [exact E1|]. split.
        -- cbn [map]. f_equal.
           ++ cbn [resolve]. rewrite E1, <- app_assoc, nth_error_app2 by lia.
              rewrite Nat.sub_diag. reflexivity.
           ++ rewrite E2. apply map_resolve_ext. exact Hr.
        -- intros k [Hk|Hk].
           ++ rewrite E1, !app_length. injection Hk as <-. cbn. lia.
           ++ apply E3. exact Hk.
      * destruct (IH consts Hr) as (ext & E1 & E2 & E3).
        destruct (pass c r consts) as [r' cs] eqn:Ep. cbn [fst snd] in *.
        exists ext. split; [exact E1|]. split.
        -- cbn [map]. f_equal. exact E2.
        -- intros k [Hk|Hk]; [discriminate|apply E3; exact Hk].
    + cbn [pass]. destruct (IH consts Hr) as (ext & E1 & E2 & E3).
      destruct (pass c r consts) as [r' cs] eqn:Ep. cbn [fst snd] in *.
      exists ext. split; [exact E1|]. split.
      * cbn [map]. f_equal. exact E2.
      * intros k [Hk|Hk]; [discriminate|apply E3; exact Hk].
    + cbn [pass]. destruct (IH consts Hr) as (ext & E1 & E2 & E3).
      destruct (pass c r consts) as [r' cs] eqn:Ep. cbn [fst snd] in *.
      exists ext. split; [exact E1|]. split.
      * cbn [map]. f_equal. exact E2.
      * intros k [Hk|Hk]; [discriminate|apply E3; exact Hk].
    + cbn [pass]. destruct (IH consts Hr) as (ext & E1 & E2 & E3).
      destruct (pass c r consts) as [r' cs] eqn:Ep. cbn [fst snd] in *.
      exists ext. split; [exact E1|]. split.
      * cbn [map]. f_equal.
        -- rewrite E1. apply resolve_ext. intros k' Hk'. inversion Hk'; subst.
           apply Hwf. left. reflexivity.
        -- exact E2.
      * intros k' [Hk|Hk].
        -- rewrite E1, app_length. injection Hk as <-.
           assert (k < length consts) by (apply Hwf; left; reflexivity). lia.
        -- apply E3. exact Hk.
Qed.

Lemma extract_spec toks :
  wf [] toks ->
  map (resolve (snd (extract toks))) (fst (extract toks)) = map (resolve []) toks /\
  wf (snd (extract toks)) (fst (extract toks)).
Proof.
  intros H0. unfold extract.
  destruct (pass_spec 0 toks [] H0) as (_ & _ & A2 & A3).
  destruct (pass 0 toks []) as [t0 c0]. cbn [fst snd] in *.
  destruct (pass_spec 1 t0 c0 A3) as (_ & _ & B2 & B3).
  destruct (pass 1 t0 c0) as [t1 c1]. cbn [fst snd] in *.
  destruct (pass_spec 2 t1 c1 B3) as (_ & _ & C2 & C3).
  destruct (pass 2 t1 c1) as [t2 c2]. cbn [fst snd] in *.
  destruct (pass_spec 3 t2 c2 C3) as (_ & _ & D2 & D3).
  split; [|exact D3].
  rewrite D2, C2, B2, A2. reflexivity.
Qed.

(* ------------------------------------------------------------------ words *)
Section Words.
  Variables ai af : bool.
  Variable argty : nat -> option ctype.
  Variable litty : nat -> ctype.
  Variable consts : list nat.

  Let D (t : tok) : den := denote_orig argty (resolve consts t).
  Let stepf := step ai af argty litty consts.

  Definition inv (st : pstate) : Prop :=
    (forall ct n x, In (ct, n, x) (p_vars st) -> find_key ct n (p_vars st) = Some (ct, n, x)) /\
    (forall ct n x, In (ct, n, x) (p_vars st) -> n < p_cnt st ct).

  Lemma find_key_none st ct :
    inv st -> find_key ct (p_cnt st ct) (p_vars st) = None.
  Proof.
    intros (_ & Hb). unfold find_key.
    destruct (find _ (p_vars st)) as [[[ct' n'] x']|] eqn:E; auto.
    apply find_some in E. destruct E as (Hin & Hk). cbn in Hk.
    apply andb_true_iff in Hk. destruct Hk as (H1 & H2).
    apply ctype_eqb_eq in H1. apply Nat.eqb_eq in H2. subst.
    specialize (Hb _ _ _ Hin). lia.
  Qed.

  (* denotation of an emitted word does not change when variables /
     ordered_constants grow afterwards *)
  Lemma denote_new_stable vars ord e1 e2 o d :
    denote_new vars ord o = d -> d <> DBad ->
    denote_new (vars ++ e1) (ord ++ e2) o = d.
  Proof.
    intros H Hd. destruct o as [s|x|ct n|ct n|c txt]; cbn in *; auto.
    - unfold find_key in *. rewrite find_app.
      destruct (find _ vars) as [[[a b] x]|]; auto. congruence.
    - destruct (nth_error ord n) as [[ct' txt]|] eqn:E; [|congruence].
      rewrite nth_error_app1 by (apply nth_error_Some; congruence).
      rewrite E. exact H.
  Qed.

  Lemma step_spec st t :
    inv st -> (forall k, t = TTemp k -> k < length consts) ->
    exists o e1 e2,
      p_out (stepf st t) = o :: p_out st /\
      p_vars (stepf st t) = p_vars st ++ e1 /\
      p_ord (stepf st t) = p_ord st ++ e2 /\
      inv (stepf st t) /\
      denote_new (p_vars (stepf st t)) (p_ord (stepf st t)) o = D t /\ D t <> DBad.
  Proof.
    intros Hinv Hwf. pose proof Hinv as (Ha & Hb).
    destruct t as [c txt|x|s|k]; unfold stepf, D; cbn [step resolve denote_orig].
    - exists (OLit c txt), [], []. cbn. rewrite !app_nil_r. repeat split; auto. discriminate.
    - destruct (argty x) as [ty|] eqn:Ex.
      + destruct (find_name x (p_vars st)) as [[[ct n] x']|] eqn:Ef.
        * unfold find_name in Ef. apply find_some in Ef. destruct Ef as (Hin & Hx).
          cbn in Hx. apply Nat.eqb_eq in Hx. subst x'.
          exists (OArg ct n), [], []. cbn [p_out p_vars p_ord p_cnt].
          rewrite !app_nil_r. repeat split; auto.
          -- cbn. rewrite (Ha _ _ _ Hin). reflexivity.
          -- discriminate.
        * set (ct := fix_type ai af ty). set (n := p_cnt st ct).
          exists (OArg ct n), [(ct, n, x)], []. cbn [p_out p_vars p_ord p_cnt].
          rewrite app_nil_r.
          assert (Hnew : find_key ct n (p_vars st ++ [(ct, n, x)]) = Some (ct, n, x)).
          { unfold find_key. rewrite find_app.
            fold (find_key ct n (p_vars st)). unfold n. rewrite (find_key_none st ct Hinv).
            cbn. rewrite ctype_eqb_refl, Nat.eqb_refl. reflexivity. }
          repeat split; auto.
          -- intros ct1 n1 x1 Hin. cbn [p_vars p_cnt] in *.
             apply in_app_or in Hin. destruct Hin as [Hin|[Hin|[]]].
             ++ unfold find_key. rewrite find_app.
                fold (find_key ct1 n1 (p_vars st)). rewrite (Ha _ _ _ Hin). reflexivity.
             ++ inversion Hin; subst. exact Hnew.
          -- intros ct1 n1 x1 Hin. cbn [p_vars p_cnt] in *.
             apply in_app_or in Hin. unfold bump.
             destruct Hin as [Hin|[Hin|[]]].
             ++ specialize (Hb _ _ _ Hin). destruct (ctype_eqb ct1 ct); lia.
             ++ inversion Hin; subst. rewrite ctype_eqb_refl. unfold n. lia.
          -- cbn. rewrite Hnew. reflexivity.
          -- discriminate.
      + exists (OName x), [], []. cbn. rewrite !app_nil_r. repeat split; auto. discriminate.
    - exists (OSyn s), [], []. cbn. rewrite !app_nil_r. repeat split; auto. discriminate.
    - assert (Hk : k < length consts) by (apply Hwf; reflexivity).
      destruct (nth_error consts k) as [txt|] eqn:En.
      2:{ apply nth_error_None in En. lia. }
      set (ct := fix_type ai af (litty txt)).
      exists (OCte ct (length (p_ord st))), [], [(ct, txt)].
      cbn [p_out p_vars p_ord p_cnt]. rewrite app_nil_r. repeat split; auto.
      + cbn. rewrite nth_error_app2 by lia. rewrite Nat.sub_diag. cbn.
        rewrite ctype_eqb_refl. reflexivity.
      + discriminate.
  Qed.

  Lemma run_spec : forall toks st,
    inv st -> wf consts toks ->
    exists new e1 e2,
      p_out (fold_left stepf toks st) = rev new ++ p_out st /\
      p_vars (fold_left stepf toks st) = p_vars st ++ e1 /\
      p_ord (fold_left stepf toks st) = p_ord st ++ e2 /\
      map (denote_new (p_vars (fold_left stepf toks st)) (p_ord (fold_left stepf toks st))) new
        = map D toks.
  Proof.
    induction toks as [|t r IH]; intros st Hinv Hwf.
    - exists [], [], []. cbn. rewrite !app_nil_r. auto.
    - assert (Ht : forall k, t = TTemp k -> k < length consts).
      { intros k ->. apply Hwf. left. reflexivity. }
      assert (Hr : wf consts r) by (intros k Hk; apply Hwf; right; exact Hk).
      destruct (step_spec st t Hinv Ht) as (o & a1 & a2 & S1 & S2 & S3 & S4 & S5 & S6).
      destruct (IH (stepf st t) S4 Hr) as (new & b1 & b2 & R1 & R2 & R3 & R4).
      cbn [fold_left].
      exists (o :: new), (a1 ++ b1), (a2 ++ b2).
      assert (V : p_vars (fold_left stepf r (stepf st t)) = (p_vars st ++ a1) ++ b1)
        by (rewrite R2, S2; reflexivity).
      assert (O : p_ord (fold_left stepf r (stepf st t)) = (p_ord st ++ a2) ++ b2)
        by (rewrite R3, S3; reflexivity).
      split; [rewrite R1, S1; cbn [rev]; rewrite <- app_assoc; reflexivity|].
      split; [rewrite V, app_assoc; reflexivity|].
      split; [rewrite O, app_assoc; reflexivity|].
      cbn [map]. f_equal.
      + rewrite V, O. apply denote_new_stable; auto.
        rewrite <- S2, <- S3. exact S5.
      + exact R4.
  Qed.
End Words.

Lemma inv_init : inv init_state.
Proof. split; intros ct n x []. Qed.

Definition no_temp (toks : list tok) : Prop := forall k, ~ In (TTemp k) toks.

Lemma denote_resolve_nil argty t :
  (forall k, t <> TTemp k) -> denote_orig argty (resolve [] t) = denote_orig argty t.
Proof. intros H. destruct t; cbn; auto. exfalso. eapply H. reflexivity. Qed.

(* parse(): the rewritten word list, read with the constants and variables
   it returns, denotes word for word what the original denotes *)
Lemma parse_sound ai af argty litty toks :
  no_temp toks ->
  let '(out, vars, ord) := parse ai af argty litty toks in
  map (denote_new vars ord) out = map (denote_orig argty) toks.
Proof.
  intros Hnt. unfold parse.
  assert (H0 : wf [] toks) by (intros k Hk; exfalso; exact (Hnt k Hk)).
  destruct (extract_spec toks H0) as (E1 & E2).
  destruct (extract toks) as [toks' consts]. cbn [fst snd] in *.
  unfold run_words.
  destruct (run_spec ai af argty litty consts toks' init_state inv_init E2)
    as (new & e1 & e2 & R1 & R2 & R3 & R4).
  set (stf := fold_left (step ai af argty litty consts) toks' init_state) in *.
  cbn [p_out init_state] in R1. rewrite app_nil_r in R1.
  rewrite R1, rev_involutive, R4.
  rewrite <- (map_map (resolve consts) (denote_orig argty)), E1, map_map.
  apply map_ext_in. intros t Ht. apply denote_resolve_nil.
  intros k ->. exact (Hnt k Ht).
Qed.
