(* C05 - proofs over Model/C05.v.  Every lemma holds for an arbitrary [Alg]
   (commutative ring with involution + module algebra) and an arbitrary type
   of times; the Gaussian-integer 2x2 instance is built at the end. *)
From Coq Require Import List ZArith Bool Ring Lia.
Import ListNotations.
From QV Require Import Model.C05.

Section Proofs.
Variable A : Alg.
Variable T : TimeS A.

Add Ring CRing : (Cring A).

Notation "x +m y" := (madd A x y) (at level 50, left associativity).
Notation "x @m y" := (mmul A x y) (at level 40, left associativity).
Notation "z *s x" := (mscale A z x) (at level 45, right associativity).
Notation elemT := (@elem A T).
Notation qevoT := (list (@elem A T)).

(* ------------------------------------------------------------ module facts *)
Lemma madd_0_r a : a +m m0 A = a.
Proof. rewrite madd_comm. apply madd_0_l. Qed.

Lemma madd_swap a b c : a +m (b +m c) = b +m (a +m c).
Proof. rewrite <- !madd_assoc. rewrite (madd_comm A a b). reflexivity. Qed.

Lemma mscale_comm z w a : z *s w *s a = w *s z *s a.
Proof. rewrite <- !mscale_mul. f_equal. ring. Qed.

Lemma madd_opp a : a +m (copp A (c1 A)) *s a = m0 A.
Proof.
  rewrite <- (mscale_1 A a) at 1. rewrite <- mscale_add_l.
  replace (cadd A (c1 A) (copp A (c1 A))) with (c0 A) by ring.
  apply mscale_0.
Qed.

Lemma madd_idem_0 x : x = x +m x -> x = m0 A.
Proof.
  intros H.
  assert (E : x +m (copp A (c1 A)) *s x = (x +m x) +m (copp A (c1 A)) *s x)
    by (rewrite <- H; reflexivity).
  rewrite madd_assoc, !madd_opp, madd_0_r in E. symmetry. exact E.
Qed.

Lemma mmul_0_l x : m0 A @m x = m0 A.
Proof. rewrite <- (mscale_0 A x) at 1. rewrite mmul_scale_l. apply mscale_0. Qed.

Lemma mmul_0_r x : x @m m0 A = m0 A.
Proof. rewrite <- (mscale_0 A x) at 1. rewrite mmul_scale_r. apply mscale_0. Qed.

Lemma mtr_0 : mtr A (m0 A) = c0 A.
Proof. rewrite <- (mscale_0 A (m0 A)). rewrite mtr_scale. ring. Qed.

Lemma cconj_0 : cconj A (c0 A) = c0 A.
Proof.
  pose proof (cconj_add A (c0 A) (c0 A)) as H.
  replace (cadd A (c0 A) (c0 A)) with (c0 A) in H by ring.
  set (x := cconj A (c0 A)) in *.
  assert (E : csub A x x = csub A (cadd A x x) x) by (rewrite <- H; reflexivity).
  replace (csub A x x) with (c0 A) in E by ring.
  replace (csub A (cadd A x x) x) with x in E by ring. symmetry. exact E.
Qed.

Lemma cconj_m1 : cconj A (copp A (c1 A)) = copp A (c1 A).
Proof.
  pose proof (cconj_add A (copp A (c1 A)) (c1 A)) as H.
  replace (cadd A (copp A (c1 A)) (c1 A)) with (c0 A) in H by ring.
  rewrite cconj_0, cconj_1 in H.
  set (x := cconj A (copp A (c1 A))) in *.
  replace x with (csub A (cadd A x (c1 A)) (c1 A)) by ring.
  rewrite <- H. ring.
Qed.

(* ------------------------------------------------------------ cj_of *)
Lemma cj_of_inv b z : cj_of A b (cj_of A b z) = z.
Proof. destruct b; simpl; [apply cconj_inv | reflexivity]. Qed.

Lemma cj_of_xorb a b z : cj_of A (xorb a b) z = cj_of A b (cj_of A a z).
Proof. destruct a, b; simpl; try reflexivity. symmetry. apply cconj_inv. Qed.

Lemma cj_of_real b z : cconj A z = z -> cj_of A b z = z.
Proof. destruct b; simpl; auto. Qed.

(* ------------------------------------------------------------ esum *)
Lemma esum_app l1 l2 : esum A (l1 ++ l2) = esum A l1 +m esum A l2.
Proof.
  induction l1 as [|a l1 IH]; simpl.
  - symmetry. apply madd_0_l.
  - rewrite IH. symmetry. apply madd_assoc.
Qed.

Lemma fold_left_esum (g : elemT -> M A) r a :
  fold_left (fun o x => o +m g x) r a = a +m esum A (map g r).
Proof.
  revert a. induction r as [|x r IH]; intros a; simpl.
  - symmetry. apply madd_0_r.
  - rewrite IH. apply madd_assoc.
Qed.

Lemma fold_left_madd_esum r a : fold_left (madd A) r a = a +m esum A r.
Proof.
  revert a. induction r as [|x r IH]; intros a; simpl.
  - symmetry. apply madd_0_r.
  - rewrite IH. apply madd_assoc.
Qed.

Lemma esum_scale z l : z *s esum A l = esum A (map (mscale A z) l).
Proof.
  induction l as [|a l IH]; simpl.
  - rewrite <- (mscale_0 A (m0 A)) at 1. rewrite <- mscale_mul.
    replace (cmul A z (c0 A)) with (c0 A) by ring. apply mscale_0.
  - rewrite mscale_add_r, IH. reflexivity.
Qed.

Lemma esum_mmul_l l x : esum A l @m x = esum A (map (fun a => a @m x) l).
Proof.
  induction l as [|a l IH]; simpl.
  - apply mmul_0_l.
  - rewrite mmul_add_l, IH. reflexivity.
Qed.

Lemma esum_mmul_r l x : x @m esum A l = esum A (map (fun a => x @m a) l).
Proof.
  induction l as [|a l IH]; simpl.
  - apply mmul_0_r.
  - rewrite mmul_add_r, IH. reflexivity.
Qed.

(* the value of a QobjEvo: the sum of the values of its terms *)
Definition V (es : qevoT) (t : T) : M A := esum A (map (fun e => value A T e t) es).

Lemma V_app a b t : V (a ++ b) t = V a t +m V b t.
Proof. unfold V. rewrite map_app. apply esum_app. Qed.

Lemma V_cons e a t : V (e :: a) t = value A T e t +m V a t.
Proof. reflexivity. Qed.

(* ------------------------------------------------------------ sampled coefficients *)
Notation interT := (@inter A T).
Notation coefT := (@coef A T).

Lemma nth_c_map2 (r1 r2 : list (C A)) k : length r1 = length r2 ->
  nth_c A (map2 (cadd A) r1 r2) k = cadd A (nth_c A r1 k) (nth_c A r2 k).
Proof.
  unfold nth_c. revert r2 k.
  induction r1 as [|x r1 IH]; intros [|y r2] k H; simpl in H; try discriminate.
  - destruct k; simpl; ring.
  - destruct k; simpl; [reflexivity|]. apply IH. congruence.
Qed.

Lemma all2_eq (g1 g2 : list T) :
  Forall (tsep A T) g1 -> Forall (tsep A T) g2 -> all2 A T (tclose A T) g1 g2 = true -> g1 = g2.
Proof.
  revert g2. induction g1 as [|x g1 IH]; intros [|y g2] H1 H2 H; simpl in H; try discriminate.
  - reflexivity.
  - apply andb_true_iff in H. destruct H as [Hxy Hr].
    inversion H1; inversion H2; subst.
    f_equal; [apply (tclose_sep A T); assumption|apply IH; assumption].
Qed.

(* rows of two rectangular polys over grids of equal length *)
Definition rect (n : nat) (p : list (list (C A))) : Prop := Forall (fun row => length row = n) p.

Lemma last_map2 n (p1 p2 : list (list (C A))) : rect n p1 -> rect n p2 -> length p1 = length p2 ->
  forall k, nth_c A (last (map2 (map2 (cadd A)) p1 p2) []) k
            = cadd A (nth_c A (last p1 []) k) (nth_c A (last p2 []) k).
Proof.
  revert p2. induction p1 as [|r1 p1 IH]; intros [|r2 p2] R1 R2 HL k; simpl in HL; try discriminate.
  - unfold nth_c. destruct k; simpl; ring.
  - inversion R1 as [|? ? E1 R1']; inversion R2 as [|? ? E2 R2']; subst.
    destruct p1 as [|r1' p1], p2 as [|r2' p2]; simpl in HL; try discriminate.
    + simpl. apply nth_c_map2. congruence.
    + change (last (map2 (map2 (cadd A)) (r1 :: r1' :: p1) (r2 :: r2' :: p2)) [])
        with (last (map2 (map2 (cadd A)) (r1' :: p1) (r2' :: p2)) []).
      change (last (r1 :: r1' :: p1) []) with (last (r1' :: p1) []).
      change (last (r2 :: r2' :: p2) []) with (last (r2' :: p2) []).
      apply IH; auto.
Qed.

Lemma horner_map2 n (p1 p2 : list (list (C A))) f k :
  rect n p1 -> rect n p2 -> length p1 = length p2 ->
  forall o1 o2,
  fold_left (fun out row => cadd A (cmul A out f) (nth_c A row k))
            (map2 (map2 (cadd A)) p1 p2) (cadd A o1 o2)
  = cadd A (fold_left (fun out row => cadd A (cmul A out f) (nth_c A row k)) p1 o1)
           (fold_left (fun out row => cadd A (cmul A out f) (nth_c A row k)) p2 o2).
Proof.
  revert p2. induction p1 as [|r1 p1 IH]; intros [|r2 p2] R1 R2 HL o1 o2; simpl in HL;
    try discriminate.
  - reflexivity.
  - inversion R1 as [|? ? E1 R1']; inversion R2 as [|? ? E2 R2']; subst. simpl.
    rewrite nth_c_map2 by congruence.
    rewrite <- IH by (auto; congruence). f_equal. ring.
Qed.

Lemma rows_eval_fold (rows : list (list (C A))) f k :
  rows_eval A rows f k
  = fold_left (fun out row => cadd A (cmul A out f) (nth_c A row k)) rows (c0 A).
Proof.
  unfold rows_eval. destruct rows as [|r [|r' p]]; try reflexivity. simpl. ring.
Qed.

(* a fused coefficient on a common grid is the pointwise sum *)
Lemma ieval_fuse (l r : interT) t :
  inter_ok A T l -> inter_ok A T r -> igrid l = igrid r -> length (ipoly l) = length (ipoly r) ->
  ieval A T (fuse A T l r) t = cadd A (ieval A T l t) (ieval A T r t).
Proof.
  intros [Rl _] [Rr _] Hg HL. unfold ieval, fuse. simpl. rewrite <- Hg in *.
  destruct (igrid l) as [|t0 g] eqn:Eg; [ring|].
  fold (rect (length (t0 :: g)) (ipoly l)) in Rl. fold (rect (length (t0 :: g)) (ipoly r)) in Rr.
  destruct (tleb A T t t0); [apply (last_map2 _ _ _ Rl Rr HL)|].
  destruct (tleb A T (last (t0 :: g) t0) t); [apply (last_map2 _ _ _ Rl Rr HL)|].
  rewrite !rows_eval_fold.
  replace (c0 A) with (cadd A (c0 A) (c0 A)) at 1 by ring.
  apply (horner_map2 (length (t0 :: g))); auto.
Qed.

Lemma fuse_ok (l r : interT) :
  inter_ok A T l -> inter_ok A T r -> igrid l = igrid r -> inter_ok A T (fuse A T l r).
Proof.
  intros [Rl Sl] [Rr _] Hg. split; [|exact Sl]. unfold fuse. simpl. rewrite <- Hg in Rr.
  revert Rl Rr. generalize (ipoly r). induction (ipoly l) as [|r1 p1 IH]; intros [|r2 p2] Rl Rr;
    simpl; try constructor.
  - inversion Rl; inversion Rr; subst.
    clear - H1 H5. revert r2 H5 H1. generalize (length (igrid l)).
    induction r1 as [|x r1 IHr]; intros n [|y r2] E2 E1; simpl in *; try congruence.
    destruct n; [discriminate|]. f_equal. apply (IHr n); congruence.
  - inversion Rl; inversion Rr; subst. apply IH; assumption.
Qed.

Lemma guard_grid (l r : interT) : inter_ok A T l -> inter_ok A T r ->
  fuse_guard_with A T (tclose A T) l r = true ->
  igrid l = igrid r /\ length (ipoly l) = length (ipoly r).
Proof.
  intros [_ Sl] [_ Sr] H. unfold fuse_guard_with in H. apply andb_true_iff in H.
  destruct H as [Hg Ho]. split; [apply all2_eq; assumption|apply Nat.eqb_eq; exact Ho].
Qed.

(* Coefficient.__add__ is pointwise whichever branch add_inter takes *)
Lemma coef_add_eval (a b : coefT) t : coef_ok A T a -> coef_ok A T b ->
  ceval A T (coef_add A T a b) t = cadd A (ceval A T a t) (ceval A T b t).
Proof.
  intros Ha Hb. unfold coef_add, coef_add_with.
  destruct a; try reflexivity. destruct b; try reflexivity.
  destruct (fuse_guard_with A T (tclose A T) i i0) eqn:G; [|reflexivity].
  simpl in Ha, Hb. destruct (guard_grid _ _ Ha Hb G) as [Hg HL].
  simpl. apply ieval_fuse; assumption.
Qed.

Lemma coef_add_ok (a b : coefT) : coef_ok A T a -> coef_ok A T b -> coef_ok A T (coef_add A T a b).
Proof.
  intros Ha Hb. unfold coef_add, coef_add_with.
  destruct a; try (simpl; auto; fail). destruct b; try (simpl; auto; fail).
  destruct (fuse_guard_with A T (tclose A T) i i0) eqn:G; [|simpl; auto].
  simpl in Ha, Hb. destruct (guard_grid _ _ Ha Hb G) as [Hg HL].
  simpl. apply fuse_ok; assumption.
Qed.

(* ------------------------------------------------------------ transform stacks *)
Lemma apply_trs_app trs f q :
  apply_trs A (trs ++ [f]) q = tr_sem A f (apply_trs A trs q).
Proof. unfold apply_trs. rewrite fold_left_app. reflexivity. Qed.

Lemma xor_anti_app trs f : xor_anti A (trs ++ [f]) = xorb (xor_anti A trs) (tr_anti A f).
Proof. unfold xor_anti. rewrite fold_left_app. reflexivity. Qed.

Lemma apply_trs_scale trs : Forall (tr_ok A) trs ->
  forall z q, apply_trs A trs (z *s q) = cj_of A (xor_anti A trs) z *s apply_trs A trs q.
Proof.
  induction trs as [|x trs IH] using rev_ind; intros Hok z q.
  - reflexivity.
  - apply Forall_app in Hok. destruct Hok as [Hl Hx].
    inversion Hx as [|? ? [_ Hhom] _]; subst.
    rewrite !apply_trs_app, xor_anti_app, IH by exact Hl.
    rewrite Hhom. rewrite cj_of_xorb. reflexivity.
Qed.

Lemma apply_trs_add trs : Forall (tr_ok A) trs ->
  forall a b, apply_trs A trs (a +m b) = apply_trs A trs a +m apply_trs A trs b.
Proof.
  induction trs as [|x trs IH] using rev_ind; intros Hok a b.
  - reflexivity.
  - apply Forall_app in Hok. destruct Hok as [Hl Hx].
    inversion Hx as [|? ? [Hadd _] _]; subst.
    rewrite !apply_trs_app, IH by exact Hl. apply Hadd.
Qed.

Lemma tr_ok_0 f : tr_ok A f -> tr_sem A f (m0 A) = m0 A.
Proof.
  intros [Hadd _]. apply madd_idem_0.
  rewrite <- Hadd. rewrite madd_0_l. reflexivity.
Qed.

(* the maps QobjEvo itself stacks are of the kind their flag says *)
Lemma tr_ok_trans : tr_ok A TTrans.
Proof. split; simpl; intros; [apply mtrans_add | apply mtrans_scale]. Qed.
Lemma tr_ok_conj : tr_ok A TConj.
Proof. split; simpl; intros; [apply mconj_add | apply mconj_scale]. Qed.
Lemma tr_ok_dag : tr_ok A TDag.
Proof. split; simpl; intros; [apply mdag_add | apply mdag_scale]. Qed.
Lemma tr_ok_to : tr_ok A TTo.
Proof. split; simpl; intros; reflexivity. Qed.
Lemma tr_ok_lmul q : tr_ok A (TLmul q).
Proof. split; simpl; intros; [apply mmul_add_r | apply mmul_scale_r]. Qed.
Lemma tr_ok_rmul q : tr_ok A (TRmul q).
Proof. split; simpl; intros; [apply mmul_add_l | apply mmul_scale_l]. Qed.

(* ------------------------------------------------------------ elements *)
Lemma value_mmul_state e t s :
  coeff A T e t *s (qobj A T e t @m s) = value A T e t @m s.
Proof. unfold value. symmetry. apply mmul_scale_l. Qed.

(* what a product term stands for *)
Lemma prod_value l r trs cj t : wf A T (Prod l r trs cj) ->
  value A T (Prod l r trs cj) t = apply_trs A trs (value A T l t @m value A T r t).
Proof.
  simpl. intros (_ & _ & Hok & Hcj). unfold value at 1. simpl.
  unfold value. rewrite mmul_scale_l, mmul_scale_r, <- mscale_mul.
  rewrite apply_trs_scale by exact Hok. rewrite Hcj. reflexivity.
Qed.

Lemma xor_anti_nil_conj trs : xor_anti A trs = true -> trs <> [].
Proof. intros H E. subst. discriminate. Qed.

(* --- element * number *)
Lemma wf_scale e : forall z, wf A T e -> wf A T (scale A T z e).
Proof.
  induction e as [q|q c|f a|f a trs w|l IHl r IHr trs cj]; intros z; simpl; auto.
  intros (Hl & Hr & Hok & Hcj). auto.
Qed.

Lemma scale_value e : forall z t, wf A T e ->
  value A T (scale A T z e) t = z *s value A T e t.
Proof.
  induction e as [q|q c|f a|f a trs w|l IHl r IHr trs cj]; intros z t Hwf.
  - unfold value. simpl. apply mscale_comm.
  - unfold value. simpl. apply mscale_comm.
  - unfold value. simpl. rewrite mscale_1. reflexivity.
  - unfold value. simpl. rewrite <- mscale_mul. f_equal. ring.
  - assert (Hwf' : wf A T (Prod l (scale A T (cj_of A cj z) r) trs cj)).
    { simpl in *. destruct Hwf as (Hl & Hr & Hok & Hcj). auto using wf_scale. }
    change (scale A T z (Prod l r trs cj))
      with (Prod l (scale A T (cj_of A cj z) r) trs cj).
    rewrite (prod_value _ _ _ _ _ Hwf'), (prod_value _ _ _ _ _ Hwf).
    simpl in Hwf. destruct Hwf as (Hl & Hr & Hok & Hcj).
    rewrite IHr by exact Hr. rewrite mmul_scale_r.
    rewrite apply_trs_scale by exact Hok. rewrite <- Hcj, cj_of_inv. reflexivity.
Qed.

(* --- left @ right *)
Lemma prod_nil_value (a b : elemT) t :
  value A T (Prod a b [] false) t = value A T a t @m value A T b t.
Proof.
  unfold value. simpl. rewrite mmul_scale_l, mmul_scale_r, <- mscale_mul. reflexivity.
Qed.

Lemma matmul_value (a b : elemT) t :
  value A T (matmul A T a b) t = value A T a t @m value A T b t.
Proof.
  destruct a, b; try apply prod_nil_value; unfold value; simpl;
    rewrite ?mmul_scale_l, ?mmul_scale_r, ?mscale_1, <- ?mscale_mul; reflexivity.
Qed.

Lemma wf_matmul (a b : elemT) : wf A T a -> wf A T b -> wf A T (matmul A T a b).
Proof.
  intros Ha Hb. destruct a, b; simpl; auto; repeat split; auto.
Qed.

(* --- linear_map *)
Lemma linear_map_value f anti (e : elemT) t :
  tr_ok A f -> tr_anti A f = anti ->
  value A T (linear_map A T f anti e) t = tr_sem A f (value A T e t).
Proof.
  intros [Hadd Hhom] Hanti. subst anti.
  destruct e as [q|q c|g a|g a trs z|l r trs cj]; unfold value; simpl.
  - rewrite !mscale_1. reflexivity.
  - rewrite Hhom. destruct (tr_anti A f); reflexivity.
  - rewrite !mscale_1. reflexivity.
  - rewrite apply_trs_app, Hhom. reflexivity.
  - rewrite apply_trs_app, Hhom, cj_of_xorb. reflexivity.
Qed.

Lemma wf_linear_map f anti (e : elemT) :
  tr_ok A f -> tr_anti A f = anti -> wf A T e -> wf A T (linear_map A T f anti e).
Proof.
  intros Hf Hanti. subst anti.
  destruct e as [q|q c|g a|g a trs z|l r trs cj]; simpl; intros Hw.
  - exact I.
  - destruct (tr_anti A f); simpl; exact Hw.
  - constructor; auto.
  - apply Forall_app. split; auto.
  - destruct Hw as (Hl & Hr & Hok & Hcj). repeat split; auto.
    + apply Forall_app. split; auto.
    + rewrite xor_anti_app, Hcj. reflexivity.
Qed.

Lemma mdt_value (e : elemT) : forall t s out, wf A T e ->
  mdt A T e t s out = Some (acc_out A out (value A T e t @m s)).
Proof.
  induction e as [q|q c|f a|f a trs w|l IHl r IHr trs cj]; intros t s out Hwf;
    try (cbn [mdt]; rewrite value_mmul_state; reflexivity).
  destruct trs as [|x trs].
  - simpl in Hwf. destruct Hwf as (Hl & Hr & Hok & Hcj). unfold xor_anti in Hcj. simpl in Hcj.
    subst cj. simpl. rewrite (IHr t s None Hr). simpl.
    rewrite (IHl t _ out Hl). rewrite prod_nil_value, mmul_assoc. reflexivity.
  - cbn [mdt]. rewrite value_mmul_state. reflexivity.
Qed.

(* ------------------------------------------------------------ QobjEvo level *)
Lemma qe__call_V (es : qevoT) t : qe__call A T es t = V es t.
Proof.
  destruct es as [|e r]; [reflexivity|].
  unfold qe__call. rewrite fold_left_esum. reflexivity.
Qed.

Lemma const_qobj_value (e : elemT) t : is_const A T e = true -> qobj A T e t = value A T e t.
Proof.
  destruct e; simpl; try discriminate. intros _. unfold value. simpl.
  symmetry. apply mscale_1.
Qed.

Lemma qe_call_V (es : qevoT) t : qe_call A T es t = V es t.
Proof.
  unfold qe_call. destruct (forallb (is_const A T) es) eqn:Hc; [|apply qe__call_V].
  destruct es as [|e r]; [reflexivity|].
  simpl in Hc. apply andb_true_iff in Hc. destruct Hc as [He Hr].
  rewrite fold_left_esum, V_cons, (const_qobj_value e t He). f_equal.
  unfold V. f_equal. apply map_ext_in. intros x Hx.
  apply const_qobj_value. rewrite forallb_forall in Hr. auto.
Qed.

Lemma V_iadd_qobj a q t : V (qe_iadd_qobj A T a q) t = V a t +m q.
Proof.
  unfold qe_iadd_qobj. rewrite V_app. f_equal. unfold V, value. simpl.
  rewrite mscale_1. apply madd_0_r.
Qed.

Lemma V_iadd_num a z t : V (qe_iadd_num A T a z) t = V a t +m z *s mI A.
Proof.
  unfold qe_iadd_num. rewrite V_app. f_equal. unfold V, value. simpl.
  rewrite mscale_1. apply madd_0_r.
Qed.

Lemma V_map_scaled (g : elemT -> elemT) (k : elemT -> C A) a t :
  (forall e, In e a -> value A T (g e) t = k e *s value A T e t) ->
  forall z, (forall e, In e a -> k e = z) -> V (map g a) t = z *s V a t.
Proof.
  intros Hg z Hk. unfold V. rewrite esum_scale, !map_map. f_equal.
  apply map_ext_in. intros e He. rewrite Hg, Hk by exact He. reflexivity.
Qed.

Lemma V_scale a z t : Forall (wf A T) a ->
  V (map (scale A T z) a) t = z *s V a t.
Proof.
  intros Hwf. rewrite Forall_forall in Hwf.
  apply (V_map_scaled _ (fun _ => z)); auto.
  intros e He. apply scale_value. auto.
Qed.

Lemma V_imul_coef a c t : V (qe_imul_coef A T a c) t = ceval A T c t *s V a t.
Proof.
  unfold qe_imul_coef, V. rewrite esum_scale, !map_map. f_equal.
  apply map_ext. intros e. rewrite matmul_value. unfold value at 2. simpl.
  rewrite mmul_scale_r, mmul_1_r. reflexivity.
Qed.

Lemma V_imatmul_qobj a q t : V (qe_imatmul_qobj A T a q) t = V a t @m q.
Proof.
  unfold qe_imatmul_qobj, V. rewrite esum_mmul_l, !map_map. f_equal.
  apply map_ext. intros e. rewrite matmul_value. unfold value at 2. simpl.
  rewrite mscale_1. reflexivity.
Qed.

Lemma V_rmatmul_qobj q a t : V (qe_rmatmul_qobj A T q a) t = q @m V a t.
Proof.
  unfold qe_rmatmul_qobj, V. rewrite esum_mmul_r, !map_map. f_equal.
  apply map_ext. intros e. rewrite matmul_value. unfold value at 1. simpl.
  rewrite mscale_1. reflexivity.
Qed.

Lemma V_imatmul a b t : V (qe_imatmul A T a b) t = V a t @m V b t.
Proof.
  unfold qe_imatmul. induction a as [|l a IH]; simpl.
  - symmetry. apply mmul_0_l.
  - rewrite V_app, IH, V_cons, mmul_add_l. f_equal.
    unfold V. rewrite esum_mmul_r, !map_map. f_equal.
    apply map_ext. intros r. apply matmul_value.
Qed.

Lemma V_linear_map f anti a t : tr_ok A f -> tr_anti A f = anti ->
  V (qe_linear_map A T f anti a) t = tr_sem A f (V a t).
Proof.
  intros Hf Hanti. unfold qe_linear_map. induction a as [|e a IH].
  - simpl. symmetry. apply tr_ok_0. exact Hf.
  - simpl map. rewrite !V_cons, IH, linear_map_value by assumption.
    destruct Hf as [Hadd _]. symmetry. apply Hadd.
Qed.

(* --- compress *)
Lemma Forall_wf_map (g : elemT -> elemT) a :
  (forall e, wf A T e -> wf A T (g e)) -> Forall (wf A T) a -> Forall (wf A T) (map g a).
Proof.
  intros Hg Ha. induction Ha; simpl; constructor; auto.
Qed.

Lemma Forall_wf_filter p (a : qevoT) : Forall (wf A T) a -> Forall (wf A T) (filter p a).
Proof.
  intros Ha. induction Ha; simpl; auto. destruct (p x); auto.
Qed.

Lemma part2 v a b c : v +m (a +m (b +m c)) = a +m ((v +m b) +m c).
Proof. rewrite madd_swap. f_equal. symmetry. apply madd_assoc. Qed.

Lemma part3 v a b c : v +m (a +m (b +m c)) = a +m (b +m (v +m c)).
Proof. rewrite madd_swap. f_equal. apply madd_swap. Qed.

Lemma V_partition (es : qevoT) t :
  V es t = V (filter (is_const A T) es) t +m
           (V (filter (is_evo A T) es) t +m V (filter (is_other A T) es) t).
Proof.
  induction es as [|e es IH].
  - simpl. unfold V. simpl. rewrite !madd_0_l. reflexivity.
  - rewrite V_cons, IH.
    destruct e; unfold is_other; simpl; rewrite ?V_cons.
    + apply eq_sym, madd_assoc.
    + apply part2.
    + apply part3.
    + apply part3.
    + apply part3.
Qed.

Definition Vacc (acc : list (M A * coef A T)) (t : T) : M A :=
  esum A (map (fun p => ceval A T (snd p) t *s fst p) acc).

Definition acc_ok (acc : list (M A * coef A T)) : Prop :=
  Forall (fun p => coef_ok A T (snd p)) acc.

Lemma merge_ins_ok q c acc : coef_ok A T c -> acc_ok acc -> acc_ok (merge_ins A T q c acc).
Proof.
  intros Hc Ha. induction Ha as [|[q' c'] acc Hp Ha IH]; simpl.
  - repeat constructor. exact Hc.
  - destruct (meqb A q q'); constructor; simpl in *; auto using coef_add_ok.
Qed.

Lemma merge_ins_V q c acc t : coef_ok A T c -> acc_ok acc ->
  Vacc (merge_ins A T q c acc) t = Vacc acc t +m ceval A T c t *s q.
Proof.
  intros Hc Ha. induction Ha as [|[q' c'] acc Hp Ha IH]; simpl.
  - unfold Vacc. simpl. rewrite madd_0_l, madd_0_r. reflexivity.
  - destruct (meqb A q q') eqn:E.
    + apply meqb_sound in E. subst q'. unfold Vacc. simpl. simpl in Hp.
      rewrite coef_add_eval by assumption.
      rewrite mscale_add_l. rewrite !madd_assoc. f_equal. apply madd_comm.
    + unfold Vacc in *. simpl. rewrite IH. symmetry. apply madd_assoc.
Qed.

Notation merge_step := (fun acc e => match e with Evo q c => merge_ins A T q c acc | _ => acc end).

Lemma merge_fold_ok (es : qevoT) : Forall (wf A T) es -> forall acc, acc_ok acc ->
  acc_ok (fold_left merge_step es acc).
Proof.
  intros Hes. induction Hes as [|e es He Hes IH]; intros acc Ha; simpl; auto.
  apply IH. destruct e; auto. apply merge_ins_ok; auto.
Qed.

Lemma merge_fold_V (es : qevoT) : Forall (wf A T) es -> forall acc t, acc_ok acc ->
  Vacc (fold_left merge_step es acc) t = Vacc acc t +m V (filter (is_evo A T) es) t.
Proof.
  intros Hes. induction Hes as [|e es He Hes IH]; intros acc t Ha; simpl.
  - unfold V. simpl. symmetry. apply madd_0_r.
  - destruct e; simpl; rewrite IH; try reflexivity; try assumption.
    + rewrite merge_ins_V, V_cons by assumption. unfold value. simpl. apply madd_assoc.
    + apply merge_ins_ok; assumption.
Qed.

Lemma V_merge_evo (es : qevoT) t : Forall (wf A T) es ->
  V (merge_evo A T es) t = V (filter (is_evo A T) es) t.
Proof.
  intros Hes. unfold merge_evo.
  transitivity (Vacc (fold_left merge_step es []) t).
  - unfold V, Vacc. rewrite map_map. reflexivity.
  - rewrite merge_fold_V by (auto; constructor). unfold Vacc. simpl. apply madd_0_l.
Qed.

Lemma V_const_sum (l : qevoT) t : forallb (is_const A T) l = true ->
  V [Const (sum_qobj A (map (fun e => match e with Const q => q | _ => m0 A end) l))] t = V l t.
Proof.
  intros Hc. unfold V at 1. simpl. unfold value. simpl. rewrite mscale_1, madd_0_r.
  assert (E : map (fun e : elemT => match e with Const q => q | _ => m0 A end) l
              = map (fun e => value A T e t) l).
  { apply map_ext_in. intros e He. rewrite forallb_forall in Hc. specialize (Hc e He).
    destruct e; try discriminate. unfold value. simpl. symmetry. apply mscale_1. }
  rewrite E. unfold V. destruct (map (fun e => value A T e t) l) as [|q r]; [reflexivity|].
  simpl. apply fold_left_madd_esum.
Qed.

Lemma forallb_filter_self {X} (p : X -> bool) l : forallb p (filter p l) = true.
Proof.
  induction l as [|x l IH]; simpl; auto. destruct (p x) eqn:E; simpl; auto.
  rewrite E. exact IH.
Qed.

Lemma filter_idem {X} (p : X -> bool) l : filter p (filter p l) = filter p l.
Proof.
  induction l as [|x l IH]; simpl; auto. destruct (p x) eqn:E; simpl; rewrite ?E; congruence.
Qed.

Lemma V_compress (es : qevoT) t : Forall (wf A T) es -> V (compress A T es) t = V es t.
Proof.
  intros Hes. unfold compress.
  rewrite !V_app, V_merge_evo, filter_idem by (apply Forall_wf_filter; exact Hes).
  rewrite (V_partition es t). f_equal.
  pose proof (forallb_filter_self (is_const A T) es) as Hc.
  destruct (filter (is_const A T) es) as [|a [|b l]]; try reflexivity.
  apply V_const_sum. exact Hc.
Qed.

(* --- matmul_data / expect_data *)
Lemma qe_matmul_data_V (es : qevoT) t s : Forall (wf A T) es ->
  qe_matmul_data A T es t s = Some (V es t @m s).
Proof.
  unfold qe_matmul_data. intros Hwf.
  assert (G : forall o, fold_left
     (fun o e => match o with None => None | Some out => mdt A T e t s (Some out) end)
     es (Some o) = Some (o +m V es t @m s)).
  { induction es as [|e es IH]; intros o.
    - simpl. unfold V. simpl. rewrite mmul_0_l, madd_0_r. reflexivity.
    - inversion Hwf as [|? ? He Hes]; subst.
      simpl. rewrite (mdt_value e t s (Some o) He). simpl.
      rewrite (IH Hes). rewrite V_cons, mmul_add_l, madd_assoc. reflexivity. }
  rewrite G. rewrite madd_0_l. reflexivity.
Qed.

Lemma qe_expect_V (es : qevoT) t s : qe_expect A T es t s = mtr A (V es t @m s).
Proof.
  unfold qe_expect.
  assert (G : forall o, fold_left
     (fun o e => cadd A o (cmul A (coeff A T e t) (mtr A (qobj A T e t @m s)))) es o
     = cadd A o (mtr A (V es t @m s))).
  { induction es as [|e es IH]; intros o; simpl.
    - unfold V. simpl. rewrite mmul_0_l, mtr_0. ring.
    - rewrite IH, V_cons, mmul_add_l, mtr_add. rewrite <- value_mmul_state, mtr_scale. ring. }
  rewrite G. ring.
Qed.

(* ------------------------------------------------------------ trees *)
Lemma wf_compress (es : qevoT) : Forall (wf A T) es -> Forall (wf A T) (compress A T es).
Proof.
  intros H. unfold compress. repeat (apply Forall_app; split).
  - destruct (filter (is_const A T) es) as [|a [|b l]] eqn:E.
    + constructor.
    + rewrite <- E. apply Forall_wf_filter. exact H.
    + constructor; [exact I|constructor].
  - unfold merge_evo.
    assert (Ha : acc_ok (fold_left merge_step (filter (is_evo A T) es) [])).
    { apply merge_fold_ok; [apply Forall_wf_filter; exact H|constructor]. }
    induction Ha as [|p acc Hp Ha IH]; simpl; constructor; auto.
  - apply Forall_wf_filter. exact H.
Qed.

Lemma wf_imatmul (a b : qevoT) : Forall (wf A T) a -> Forall (wf A T) b ->
  Forall (wf A T) (qe_imatmul A T a b).
Proof.
  intros Ha Hb. unfold qe_imatmul. induction Ha as [|l a Hl Ha IH]; simpl.
  - constructor.
  - apply Forall_app. split; [|exact IH].
    apply Forall_wf_map; [|exact Hb]. intros e He. apply wf_matmul; assumption.
Qed.

Lemma creplace_ok n (c : coefT) : coef_ok A T c -> coef_ok A T (creplace A T n c).
Proof. induction c; simpl; tauto. Qed.

Lemma wf_ereplace n (e : elemT) : wf A T e -> wf A T (ereplace A T n e).
Proof.
  induction e as [q|q c|f a|f a trs w|l IHl r IHr trs cj]; simpl; auto using creplace_ok.
  intros (Hl & Hr & Hok & Hcj). auto.
Qed.

Section Trees.
Variable sc : C A -> elemT -> elemT.
Hypothesis sc_wf : forall z e, wf A T e -> wf A T (sc z e).

Lemma wf_build (x : qx A T) : wfx A T x -> Forall (wf A T) (build_with A T sc x).
Proof.
  induction x; simpl; intros Hx.
  - apply wf_compress. repeat constructor.
  - apply wf_compress. constructor; [exact Hx|constructor].
  - apply wf_compress. repeat constructor.
  - apply wf_compress. apply Forall_forall. intros e He. apply in_map_iff in He.
    destruct He as ([q [c|]] & Hp & Hin); subst e; unfold read_item; simpl; [|exact I].
    rewrite Forall_forall in Hx. apply (Hx _ Hin).
  - destruct Hx as [H1 H2]. apply Forall_app. split; auto.
  - destruct Hx as [H1 H2]. apply Forall_app. split; auto. apply Forall_wf_map; auto.
  - apply Forall_app. split; auto. repeat constructor.
  - apply Forall_app. split; auto. repeat constructor.
  - apply Forall_wf_map; auto.
  - destruct Hx as [Hc Hx]. apply Forall_wf_map; auto.
    intros e He. apply wf_matmul; simpl; auto.
  - destruct Hx as [H1 H2]. apply wf_imatmul; auto.
  - apply Forall_wf_map; auto. intros e He. apply wf_matmul; simpl; auto.
  - apply Forall_wf_map; auto. intros e He. apply wf_matmul; simpl; auto.
  - apply Forall_wf_map; auto.
  - apply Forall_wf_map; auto. intros e He. apply wf_linear_map; auto. apply tr_ok_trans.
  - apply Forall_wf_map; auto. intros e He. apply wf_linear_map; auto. apply tr_ok_conj.
  - apply Forall_wf_map; auto. intros e He. apply wf_linear_map; auto. apply tr_ok_dag.
  - destruct Hx as (H1 & H2 & H3). apply Forall_wf_map; auto.
    intros e He. apply wf_linear_map; auto.
  - apply wf_compress. auto.
  - apply wf_compress. auto.
  - apply wf_compress. apply Forall_wf_map; auto. intros e He. apply wf_ereplace. exact He.
  - apply Forall_wf_map; auto. intros e He. apply wf_ereplace. exact He.
  - auto.
Qed.
End Trees.

Lemma wf_build_cur x : wfx A T x -> Forall (wf A T) (build A T x).
Proof. apply wf_build. intros z e. apply wf_scale. Qed.

Lemma V_single (e : elemT) t : V [e] t = value A T e t.
Proof. unfold V. simpl. apply madd_0_r. Qed.

(* ------------------------------------------------------------ replace_arguments *)
Notation ArgsT := (tArgs A T).
Notation ReplT := (tRepl A T).
Notation crep := (crep A T).
Notation rep := (rep A T).

Lemma ceval_creplace m (c : coefT) t : ceval A T (creplace A T m c) t = ceval_ov A T m c t.
Proof. induction c; simpl; congruence. Qed.

Lemma cev_crep ov (c : coefT) t : cev A T ov c t = ceval A T (crep ov c) t.
Proof. destruct ov; simpl; [symmetry; apply ceval_creplace|reflexivity]. Qed.

Lemma crep_ok ov (c : coefT) : coef_ok A T c -> coef_ok A T (crep ov c).
Proof. destruct ov; simpl; auto using creplace_ok. Qed.

Lemma wf_rep ov (es : qevoT) : Forall (wf A T) es -> Forall (wf A T) (rep ov es).
Proof. destruct ov; simpl; auto. apply Forall_wf_map. intros e. apply wf_ereplace. Qed.

Lemma creplace_creplace m n (c : coefT) :
  creplace A T m (creplace A T n c) = creplace A T (rcomb A T n m) c.
Proof. induction c; simpl; try congruence. rewrite amerge_assoc. reflexivity. Qed.

Lemma ereplace_ereplace m n (e : elemT) :
  ereplace A T m (ereplace A T n e) = ereplace A T (rcomb A T n m) e.
Proof.
  induction e as [q|q c|f a|f a trs w|l IHl r IHr trs cj]; simpl;
    rewrite ?amerge_assoc, ?creplace_creplace; congruence.
Qed.

Lemma ereplace_scale m (e : elemT) : forall z,
  ereplace A T m (scale A T z e) = scale A T z (ereplace A T m e).
Proof.
  induction e as [q|q c|f a|f a trs w|l IHl r IHr trs cj]; intros z; simpl; try reflexivity.
  rewrite IHr. reflexivity.
Qed.

Lemma ereplace_matmul m (a b : elemT) :
  ereplace A T m (matmul A T a b) = matmul A T (ereplace A T m a) (ereplace A T m b).
Proof. destruct a, b; reflexivity. Qed.

Lemma ereplace_linear_map m f anti (e : elemT) :
  ereplace A T m (linear_map A T f anti e) = linear_map A T f anti (ereplace A T m e).
Proof. destruct e; simpl; try reflexivity. destruct anti; reflexivity. Qed.

Lemma creplace_coef_add m (a b : coefT) :
  creplace A T m (coef_add A T a b) = coef_add A T (creplace A T m a) (creplace A T m b).
Proof.
  unfold coef_add, coef_add_with. destruct a; try reflexivity. destruct b; try reflexivity.
  simpl. destruct (fuse_guard_with A T (tclose A T) i i0); reflexivity.
Qed.

Lemma filter_map_inv {X} (p : X -> bool) (g : X -> X) l :
  (forall x, p (g x) = p x) -> filter p (map g l) = map g (filter p l).
Proof.
  intros H. induction l as [|x l IH]; simpl; auto. rewrite H. destruct (p x); simpl; congruence.
Qed.

Definition prep m (p : M A * coefT) : M A * coefT := (fst p, creplace A T m (snd p)).

Lemma merge_ins_rep m q c acc :
  merge_ins A T q (creplace A T m c) (map (prep m) acc) = map (prep m) (merge_ins A T q c acc).
Proof.
  induction acc as [|[q' c'] acc IH]; simpl; [reflexivity|].
  destruct (meqb A q q'); simpl.
  - unfold prep at 2. simpl. rewrite creplace_coef_add. reflexivity.
  - rewrite IH. reflexivity.
Qed.

Lemma merge_fold_rep m (es : qevoT) : forall acc,
  fold_left merge_step (map (ereplace A T m) es) (map (prep m) acc)
  = map (prep m) (fold_left merge_step es acc).
Proof.
  induction es as [|e es IH]; intros acc; simpl; [reflexivity|].
  destruct e; simpl; try apply IH. rewrite merge_ins_rep. apply IH.
Qed.

Lemma merge_evo_rep m (es : qevoT) :
  merge_evo A T (map (ereplace A T m) es) = map (ereplace A T m) (merge_evo A T es).
Proof.
  unfold merge_evo. change (@nil (M A * coefT)) with (map (prep m) []) at 1.
  rewrite merge_fold_rep, !map_map. apply map_ext. intros [q c]. reflexivity.
Qed.

Lemma map_er_const m (l : qevoT) : forallb (is_const A T) l = true -> map (ereplace A T m) l = l.
Proof.
  induction l as [|e l IH]; simpl; auto. intros H. apply andb_true_iff in H. destruct H as [He Hl].
  rewrite IH by exact Hl. destruct e; try discriminate. reflexivity.
Qed.

Lemma compress_rep m (es : qevoT) :
  map (ereplace A T m) (compress A T es) = compress A T (map (ereplace A T m) es).
Proof.
  unfold compress. rewrite !map_app.
  rewrite !(filter_map_inv _ (ereplace A T m)) by (intros x; destruct x; reflexivity).
  rewrite merge_evo_rep.
  pose proof (forallb_filter_self (is_const A T) es) as Hc.
  rewrite (map_er_const m (filter (is_const A T) es) Hc).
  f_equal. destruct (filter (is_const A T) es) as [|a [|b l]]; try reflexivity.
  apply (map_er_const m [a] Hc).
Qed.

Lemma rep_compress ov (es : qevoT) : rep ov (compress A T es) = compress A T (rep ov es).
Proof. destruct ov; [apply compress_rep|reflexivity]. Qed.

Lemma rep_app ov (a b : qevoT) : rep ov (a ++ b) = rep ov a ++ rep ov b.
Proof. destruct ov; [apply map_app|reflexivity]. Qed.

Lemma rep_map_scale ov z (es : qevoT) :
  rep ov (map (scale A T z) es) = map (scale A T z) (rep ov es).
Proof.
  destruct ov; [|reflexivity]. unfold rep. rewrite !map_map. apply map_ext. intros e.
  apply ereplace_scale.
Qed.

Lemma rep_imul_coef ov (es : qevoT) c :
  rep ov (qe_imul_coef A T es c) = qe_imul_coef A T (rep ov es) (crep ov c).
Proof.
  destruct ov; [|reflexivity]. unfold qe_imul_coef, rep, crep. rewrite !map_map. apply map_ext.
  intros e. rewrite ereplace_matmul. reflexivity.
Qed.

Lemma rep_imatmul_qobj ov (es : qevoT) q :
  rep ov (qe_imatmul_qobj A T es q) = qe_imatmul_qobj A T (rep ov es) q.
Proof.
  destruct ov; [|reflexivity]. unfold qe_imatmul_qobj, rep. rewrite !map_map. apply map_ext.
  intros e. rewrite ereplace_matmul. reflexivity.
Qed.

Lemma rep_rmatmul_qobj ov q (es : qevoT) :
  rep ov (qe_rmatmul_qobj A T q es) = qe_rmatmul_qobj A T q (rep ov es).
Proof.
  destruct ov; [|reflexivity]. unfold qe_rmatmul_qobj, rep. rewrite !map_map. apply map_ext.
  intros e. rewrite ereplace_matmul. reflexivity.
Qed.

Lemma rep_imatmul ov (a b : qevoT) :
  rep ov (qe_imatmul A T a b) = qe_imatmul A T (rep ov a) (rep ov b).
Proof.
  destruct ov; [|reflexivity]. unfold qe_imatmul, rep.
  induction a as [|l a IH]; cbn [flat_map map]; [reflexivity|].
  rewrite map_app, IH. f_equal. rewrite !map_map. apply map_ext. intros r.
  apply ereplace_matmul.
Qed.

Lemma rep_linear_map ov f anti (es : qevoT) :
  rep ov (qe_linear_map A T f anti es) = qe_linear_map A T f anti (rep ov es).
Proof.
  destruct ov; [|reflexivity]. unfold qe_linear_map, rep. rewrite !map_map. apply map_ext.
  intros e. apply ereplace_linear_map.
Qed.

Lemma rep_rep ov n (es : qevoT) :
  rep ov (map (ereplace A T n) es)
  = rep (Some (match ov with None => n | Some m => rcomb A T n m end)) es.
Proof.
  destruct ov; [|reflexivity]. unfold rep. rewrite map_map. apply map_ext. intros e.
  apply ereplace_ereplace.
Qed.

Lemma V_items ov items t :
  V (rep ov (map (read_item A T) items)) t = esum A (map (item_value A T ov t) items).
Proof.
  assert (E : rep ov (map (read_item A T) items)
              = map (fun p => match snd p with None => Const (fst p)
                                          | Some c => Evo (fst p) (crep ov c) end) items).
  { destruct ov; simpl; rewrite ?map_map; apply map_ext; intros [q [c|]]; reflexivity. }
  rewrite E. unfold V. rewrite map_map. f_equal. apply map_ext.
  intros [q [c|]]; unfold value, item_value; simpl.
  - rewrite cev_crep. reflexivity.
  - apply mscale_1.
Qed.

Ltac wfr :=
  repeat first [ assumption
               | apply wf_rep
               | apply wf_build_cur
               | apply Forall_wf_map; [intros ? ?; apply wf_ereplace; assumption|] ].

(* the tree theorem, under any overriding argument dictionary *)
Lemma pointwise_ov (x : qx A T) : forall ov t, wfx A T x ->
  V (rep ov (build A T x)) t = semo A T ov x t.
Proof.
  induction x; intros ov t Hx; simpl in Hx; unfold build in *; simpl build_with; simpl semo.
  - rewrite rep_compress, V_compress by (apply wf_rep; repeat constructor).
    destruct ov; simpl; rewrite V_single; unfold value; simpl; apply mscale_1.
  - rewrite rep_compress, V_compress by (apply wf_rep; constructor; [exact Hx|constructor]).
    rewrite cev_crep. destruct ov; simpl; rewrite V_single; reflexivity.
  - rewrite rep_compress, V_compress by (apply wf_rep; repeat constructor).
    destruct ov; simpl; rewrite V_single; unfold value; simpl; apply mscale_1.
  - rewrite rep_compress, V_compress; [apply V_items|].
    apply wf_rep. apply Forall_forall. intros e He. apply in_map_iff in He.
    destruct He as ([q [c|]] & Hp & Hin); subst e; unfold read_item; simpl; [|exact I].
    rewrite Forall_forall in Hx. apply (Hx _ Hin).
  - destruct Hx as [H1 H2]. unfold qe_iadd.
    rewrite rep_app, V_app, IHx1, IHx2 by assumption. reflexivity.
  - destruct Hx as [H1 H2]. unfold qe_iadd.
    rewrite rep_app, rep_map_scale, V_app, V_scale, IHx1, IHx2 by wfr. reflexivity.
  - unfold qe_iadd_qobj. rewrite rep_app, V_app, IHx by assumption. f_equal.
    destruct ov; simpl; rewrite V_single; unfold value; simpl; apply mscale_1.
  - unfold qe_iadd_num. rewrite rep_app, V_app, IHx by assumption. f_equal.
    destruct ov; simpl; rewrite V_single; unfold value; simpl; apply mscale_1.
  - rewrite rep_map_scale, V_scale, IHx by wfr. reflexivity.
  - destruct Hx as [Hc Hx]. rewrite rep_imul_coef, V_imul_coef, IHx, cev_crep by assumption.
    reflexivity.
  - destruct Hx as [H1 H2]. rewrite rep_imatmul, V_imatmul, IHx1, IHx2 by assumption. reflexivity.
  - rewrite rep_imatmul_qobj, V_imatmul_qobj, IHx by assumption. reflexivity.
  - rewrite rep_rmatmul_qobj, V_rmatmul_qobj, IHx by assumption. reflexivity.
  - rewrite rep_map_scale, V_scale, IHx by wfr. reflexivity.
  - unfold qe_trans. rewrite rep_linear_map, V_linear_map, IHx by (auto using tr_ok_trans).
    reflexivity.
  - unfold qe_conj. rewrite rep_linear_map, V_linear_map, IHx by (auto using tr_ok_conj).
    reflexivity.
  - unfold qe_dag. rewrite rep_linear_map, V_linear_map, IHx by (auto using tr_ok_dag).
    reflexivity.
  - destruct Hx as (H1 & H2 & H3). rewrite rep_linear_map, V_linear_map, IHx by assumption.
    reflexivity.
  - rewrite rep_compress, V_compress by wfr. auto.
  - rewrite rep_compress, V_compress by wfr. auto.
  - rewrite rep_compress, V_compress by wfr. rewrite rep_rep. apply IHx. exact Hx.
  - rewrite rep_rep. apply IHx. exact Hx.
  - apply IHx. exact Hx.
Qed.

(* a history of replacements is one replacement by the combined dictionary *)
Definition hist_ov (hist : list ReplT) : option ReplT :=
  match hist with [] => None | n :: r => Some (fold_left (rcomb A T) r n) end.

Lemma arguments_fold (hist : list ReplT) : forall n (es : qevoT),
  fold_left (fun es m => qe_arguments A T m es) hist (qe_arguments A T n es)
  = qe_arguments A T (fold_left (rcomb A T) hist n) es.
Proof.
  induction hist as [|m hist IH]; intros n es; simpl; [reflexivity|].
  unfold qe_arguments at 2 3. rewrite map_map.
  rewrite (map_ext _ _ (fun e => ereplace_ereplace m n e)).
  apply (IH (rcomb A T n m) es).
Qed.

Lemma arguments_history (hist : list ReplT) (es : qevoT) :
  fold_left (fun es m => qe_arguments A T m es) hist es = rep (hist_ov hist) es.
Proof. destruct hist as [|n r]; [reflexivity|]. simpl. apply arguments_fold. Qed.

Lemma amerge_fold (hist : list ReplT) : forall n (a : ArgsT),
  fold_left (amerge A T) hist (amerge A T a n) = amerge A T a (fold_left (rcomb A T) hist n).
Proof.
  induction hist as [|m hist IH]; intros n a; simpl; [reflexivity|].
  rewrite amerge_assoc. apply IH.
Qed.

Lemma pointwise (x : qx A T) t : wfx A T x -> V (build A T x) t = sem A T x t.
Proof. intros Hx. apply (pointwise_ov x None t Hx). Qed.

(* every product term any tree builds keeps  conj flag = xor of the anti flags,
   so a set flag implies a non-empty stack (matmul_data_t's shortcut is legal) *)
Lemma wf_prod_flag l r trs cj : wf A T (Prod l r trs cj) -> cj = true -> trs <> [].
Proof.
  simpl. intros (_ & _ & _ & Hcj) Ht. subst cj. apply xor_anti_nil_conj. exact Ht.
Qed.

(* --- _FuncElement memo *)
Definition memo_ok (f : T -> M A) (prev : option (T * M A)) : Prop :=
  match prev with Some (t', q) => q = f t' | None => True end.

Lemma func_memo teqb f prev t :
  (forall a b, teqb a b = true -> a = b) -> memo_ok f prev ->
  fst (func_qobj A T teqb f prev t) = f t /\ memo_ok f (snd (func_qobj A T teqb f prev t)).
Proof.
  intros Heq Hok. unfold func_qobj. destruct prev as [[t' q]|]; simpl.
  - destruct (teqb t t') eqn:E; simpl.
    + apply Heq in E. subst t'. simpl in Hok. split; auto.
    + split; reflexivity.
  - split; reflexivity.
Qed.

End Proofs.

(* ====================================================================== *)
(* The execution instance satisfies every law: [Alg] is inhabited by 2x2
   matrices over the Gaussian integers. *)
Ltac g2_destruct :=
  repeat match goal with
         | x : M2 |- _ => destruct x as [[[? ?] [? ?]] [[? ?] [? ?]]]
         | x : GI |- _ => destruct x as [? ?]
         end.
Ltac g2 :=
  intros; g2_destruct;
  cbv [add2 mul2 scale2 trans2 conj2 dag2 tr2 mk2 e11 e12 e21 e22 z2 i2
       gadd gmul gsub gopp gconj g0 g1 fst snd];
  repeat (f_equal; try ring).

Lemma GI_ring : ring_theory g0 g1 gadd gmul gsub gopp (@eq GI).
Proof.
  constructor; g2.
Qed.

Lemma geqb_eq x y : geqb x y = true -> x = y.
Proof.
  destruct x, y. unfold geqb. simpl. intros H. apply andb_true_iff in H.
  destruct H as [H1 H2]. apply Z.eqb_eq in H1. apply Z.eqb_eq in H2. subst. reflexivity.
Qed.

Lemma eqb2_eq x y : eqb2 x y = true -> x = y.
Proof.
  destruct x as [[a b] [c d]], y as [[a' b'] [c' d']]. unfold eqb2.
  cbv [e11 e12 e21 e22 fst snd]. intros H.
  apply andb_true_iff in H. destruct H as [H H4].
  apply andb_true_iff in H. destruct H as [H H3].
  apply andb_true_iff in H. destruct H as [H1 H2].
  apply geqb_eq in H1. apply geqb_eq in H2. apply geqb_eq in H3. apply geqb_eq in H4.
  subst. reflexivity.
Qed.

Definition G2 : Alg.
Proof.
  refine {| C := GI; c0 := g0; c1 := g1; cadd := gadd; cmul := gmul; csub := gsub; copp := gopp;
            Cring := GI_ring; cconj := gconj;
            M := M2; m0 := z2; mI := i2; madd := add2; mmul := mul2; mscale := scale2;
            mtrans := trans2; mconj := conj2; mdag := dag2; mtr := tr2; meqb := eqb2;
            meqb_sound := eqb2_eq |}; abstract g2.
Defined.

(* ====================================================================== *)
(* Integer times for the execution instance: rtol = 1e-15 exactly, times are
   separated when |t| < 1e15, args dictionaries have the single key "w". *)
Lemma zclose_new_sep a b : zsep a -> zsep b -> zclose_new a b = true -> a = b.
Proof.
  unfold zsep, zclose_new, ten15. intros Ha Hb H. apply Z.leb_le in H. lia.
Qed.

Lemma dfilt_app ps (n m : dict) : dfilt ps (n ++ m) = dfilt ps n ++ dfilt ps m.
Proof. unfold dfilt. apply filter_app. Qed.

Lemma dmerge_assoc (a : dstate) (m n : dict) : dmerge (dmerge a m) n = dmerge a (dcomb m n).
Proof.
  destruct a as [ps a]. unfold dmerge, dcomb. simpl. rewrite dfilt_app, app_assoc. reflexivity.
Qed.

Definition ZT : TimeS G2 :=
  @Build_TimeS G2 Z Z.leb zclose_new zdiff zsep zclose_new_sep dstate dict dmerge dcomb
               dmerge_assoc.

(* ---- what a function leaf sees after any history of replacements *)
Lemma lookup_app k (a b : dict) :
  lookup k (a ++ b) = match lookup k a with Some v => Some v | None => lookup k b end.
Proof.
  induction a as [|[k' v] a IH]; simpl; [reflexivity|]. destruct (Z.eqb k k'); auto.
Qed.

Lemma lookup_dfilt ps k (n : dict) :
  lookup k (dfilt ps n) = if allowed ps k then lookup k n else None.
Proof.
  induction n as [|[k' v] n IH]; simpl; [destruct (allowed ps k); reflexivity|].
  destruct (allowed ps k') eqn:Ek'; simpl.
  - destruct (Z.eqb k k') eqn:E; [apply Z.eqb_eq in E; subst; rewrite Ek'; reflexivity|exact IH].
  - destruct (Z.eqb k k') eqn:E; [|exact IH].
    apply Z.eqb_eq in E. subst. rewrite IH, Ek'. reflexivity.
Qed.

Lemma history_state (ps : option (list Z)) (hist : list dict) : forall (st : dstate) k,
  fst st = ps ->
  lookup k (snd (fold_left dmerge hist st))
  = match (if allowed ps k then hist_last k hist else None) with
    | Some v => Some v
    | None => lookup k (snd st)
    end.
Proof.
  induction hist as [|n hist IH]; intros st k Hps; simpl.
  - destruct (allowed ps k); reflexivity.
  - rewrite (IH (dmerge st n) k) by (unfold dmerge; simpl; exact Hps).
    unfold dmerge. simpl. rewrite lookup_app, lookup_dfilt, Hps.
    destruct (allowed ps k); [|reflexivity].
    destruct (hist_last k hist); [reflexivity|]. destruct (lookup k n); reflexivity.
Qed.

(* the repaired guard does not depend on the unit of time *)
Lemma zclose_new_scale_free k a b : (0 < k)%Z -> zclose_new (k * a) (k * b) = zclose_new a b.
Proof.
  intros Hk. unfold zclose_new.
  rewrite <- Z.mul_sub_distr_l, !Z.abs_mul, (Z.abs_eq k) by lia.
  rewrite <- Z.mul_assoc.
  destruct (Z.leb_spec (Z.abs (a - b) * ten15) (Z.abs b)) as [H|H].
  - apply Z.leb_le. apply Z.mul_le_mono_nonneg_l; lia.
  - apply Z.leb_gt. apply Z.mul_lt_mono_pos_l; lia.
Qed.

(* ====================================================================== *)
(* Witnesses on the instance. *)
Definition gi (a b : Z) : GI := (a, b).
Definition wB : M2 := mk2 (gi 1 0) (gi 0 2) (gi 3 0) (gi 4 0).       (* [[1, 2i], [3, 4]] *)
(* f(t, w=1) = w * [[t, 1], [i t, 2]]; the name w is coded 0 *)
Definition wnone : dstate := dinit (Some [0%Z]) [].
Definition wf_fun (a : dstate) (t : Z) : M2 :=
  scale2 (gi (getd a 0 1) 0) (mk2 (gi t 0) (gi 1 0) (gi 0 t) (gi 2 0)).
Definition wg_fun (a : dstate) (t : Z) : M2 :=
  scale2 (gi (getd a 0 1) 0) (mk2 (gi 1 0) (gi t 0) (gi 0 0) (gi (2 + t) 0)).
Definition wi : GI := gi 0 1.
Definition wS : M2 := mk2 (gi 1 0) (gi 0 0) (gi 2 0) (gi 0 1).

(* the term of (QobjEvo(f) @ B).dag() *)
Definition w_elem : @elem G2 ZT :=
  linear_map G2 ZT (@TDag G2) true (matmul G2 ZT (@Func G2 ZT wf_fun wnone) (@Const G2 ZT wB)).
(* (QobjEvo(f) @ B).dag() * 1j *)
Definition w_tree : qx G2 ZT :=
  @XMulNum G2 ZT (XDag (@XMatmulQ G2 ZT (@XFunc G2 ZT wf_fun wnone) wB)) wi.
(* QobjEvo(g) @ (QobjEvo(f) @ B).dag() *)
Definition w_tree2 : qx G2 ZT :=
  XMatmul (@XFunc G2 ZT wg_fun wnone) (XDag (@XMatmulQ G2 ZT (@XFunc G2 ZT wf_fun wnone) wB)).
(* (QobjEvo(g, args={w: 2}) @ QobjEvo(f)).dag() re-evaluated with w = 3, then w = 5 *)
Definition w_tree3 : qx G2 ZT :=
  @XArgs G2 ZT (@XArgs G2 ZT (XDag (XMatmul (@XFunc G2 ZT wg_fun (dinit (Some [0%Z]) [(0%Z, 2%Z)]))
                                              (@XFunc G2 ZT wf_fun wnone))) [(0%Z, 3%Z)]) [(0%Z, 5%Z)].

Lemma w_elem_wf : wf G2 ZT w_elem.
Proof.
  unfold w_elem. apply wf_linear_map; [apply tr_ok_dag|reflexivity|].
  apply wf_matmul; exact I.
Qed.

(* the former rules on the former witnesses (documentation of the defects
   repaired by commits 7dc9384 and c657c42) *)
Lemma w_elem_old_rule :
  value G2 ZT (old_scale G2 ZT wi w_elem) 2%Z <> mscale G2 wi (value G2 ZT w_elem 2%Z) /\
  value G2 ZT (scale G2 ZT wi w_elem) 2%Z = mscale G2 wi (value G2 ZT w_elem 2%Z).
Proof. split; [vm_compute; discriminate|vm_compute; reflexivity]. Qed.

Lemma w_tree_wfx : wfx G2 ZT w_tree.
Proof. exact I. Qed.

Lemma w_tree_old_rule :
  qe_call G2 ZT (old_build G2 ZT w_tree) 2%Z <> sem G2 ZT w_tree 2%Z /\
  qe_call G2 ZT (build G2 ZT w_tree) 2%Z = sem G2 ZT w_tree 2%Z.
Proof. split; [vm_compute; discriminate|vm_compute; reflexivity]. Qed.

Lemma w_tree2_wfx : wfx G2 ZT w_tree2.
Proof. split; exact I. Qed.

Lemma w_tree2_old_rule :
  old_qe_matmul_data G2 ZT (build G2 ZT w_tree2) 2%Z wS = None /\
  qe_matmul_data G2 ZT (build G2 ZT w_tree2) 2%Z wS = Some (mul2 (sem G2 ZT w_tree2 2%Z) wS).
Proof. split; vm_compute; reflexivity. Qed.

Lemma w_tree3_wfx : wfx G2 ZT w_tree3.
Proof. split; exact I. Qed.

Lemma w_tree3_depends_on_args :
  sem G2 ZT w_tree3 2%Z <> sem G2 ZT (@XArgs G2 ZT w_tree3 [(0%Z, 7%Z)]) 2%Z.
Proof. vm_compute. discriminate. Qed.

(* sampled coefficients on nearly equal grids.  Ticks of 2^-53 s: the grids
   arange(5) * 2^-33 s and the same stretched by 1 + 2^-20; the absolute
   tolerance 1e-15 s of the guard before commit f4e3df4 is 2^53 / 1e15 ticks. *)
Definition w_an : Z := 9007199254740992%Z.
Definition w_l : @inter G2 ZT :=
  @Build_inter G2 ZT [0; 1048576; 2097152; 3145728; 4194304]%Z
               [[gi 0 0; gi 3 0; gi (-2) 0; gi 1 0; gi 3 0]].
Definition w_r : @inter G2 ZT :=
  @Build_inter G2 ZT [0; 1048577; 2097154; 3145731; 4194308]%Z
               [[gi 1 0; gi (-3) 0; gi 2 0; gi 2 0; gi (-1) 0]].

Lemma w_inter_ok : inter_ok G2 ZT w_l /\ inter_ok G2 ZT w_r.
Proof.
  split; (split; [repeat constructor|]);
    repeat (constructor; [unfold tsep, ZT, zsep, ten15; simpl; lia|]); constructor.
Qed.

Lemma w_old_guard_not_pointwise :
  fuse_guard_with G2 ZT (zclose_old w_an ten15) w_l w_r = true /\
  ceval G2 ZT (coef_add_with G2 ZT (zclose_old w_an ten15) (CInter w_l) (CInter w_r)) 2097153%Z
  <> gadd (ieval G2 ZT w_l 2097153%Z) (ieval G2 ZT w_r 2097153%Z).
Proof. split; [vm_compute; reflexivity|vm_compute; discriminate]. Qed.

Lemma w_new_guard_rejects :
  fuse_guard_with G2 ZT (tclose G2 ZT) w_l w_r = false /\
  ckind_of G2 ZT (coef_add G2 ZT (CInter w_l) (CInter w_r)) = CKSum.
Proof. split; vm_compute; reflexivity. Qed.

Lemma w_fuse_same_grid :
  ckind_of G2 ZT (coef_add G2 ZT (CInter w_l) (CInter w_l)) = CKInter.
Proof. vm_compute. reflexivity. Qed.
