(* C01 - kron_csr computes the Kronecker product on denotations. *)
From Coq Require Import List ZArith Bool Arith Lia ZifyBool.
Import ListNotations.
From QV Require Import Model.C01 Proofs.C01.

Lemma nth_flat_map_block : forall (A B : Type) (g : A -> list B) (n : nat) (l : list A) i k da d,
  (forall a, length (g a) = n) -> i < length l -> k < n ->
  nth (i * n + k) (flat_map g l) d = nth k (g (nth i l da)) d.
Proof.
  intros A B g n. induction l as [|a t IH]; intros i k da d Hg Hi Hk; simpl in Hi; [lia|].
  simpl flat_map. destruct i as [|i].
  - simpl. rewrite app_nth1 by (rewrite Hg; exact Hk). reflexivity.
  - rewrite app_nth2 by (rewrite Hg; simpl; lia).
    rewrite Hg. replace (S i * n + k - n) with (i * n + k) by (simpl; lia).
    simpl nth. apply IH; [exact Hg|lia|exact Hk].
Qed.

Section Kron.
Variable C : Type.
Variable c0 : C.
Variable cmul : C -> C -> C.
Hypothesis Hmul0l : forall x, cmul c0 x = c0.
Hypothesis Hmul0r : forall x, cmul x c0 = c0.

Notation row_get := (row_get C c0).
Notation den_csr := (den_csr C c0).

Let block (ncr : nat) (pa : nat * C) (rb : crow C) : crow C :=
  map (fun pb => (fst pa * ncr + fst pb, cmul (snd pa) (snd pb))) rb.

Lemma block_find_same : forall ncr pa (rb : crow C) jb,
  find (fun q : nat * C => fst q =? fst pa * ncr + jb) (block ncr pa rb) =
  option_map (fun pb : nat * C => (fst pa * ncr + jb, cmul (snd pa) (snd pb)))
             (find (fun pb => fst pb =? jb) rb).
Proof.
  intros ncr pa. induction rb as [|pb t IH]; intros jb; simpl; [reflexivity|].
  assert (E : (fst pa * ncr + fst pb =? fst pa * ncr + jb) = (fst pb =? jb)) by lia.
  rewrite E. destruct (fst pb =? jb) eqn:F; [|apply IH].
  simpl. f_equal. f_equal. lia.
Qed.

Lemma block_find_other : forall ncr pa (rb : crow C) ja jb,
  fst pa <> ja -> jb < ncr -> (forall pb, In pb rb -> fst pb < ncr) ->
  find (fun q : nat * C => fst q =? ja * ncr + jb) (block ncr pa rb) = None.
Proof.
  intros ncr pa. induction rb as [|pb t IH]; intros ja jb Hne Hj Hb; simpl; [reflexivity|].
  assert (Hpb : fst pb < ncr) by (apply Hb; left; reflexivity).
  assert (E : (fst pa * ncr + fst pb =? ja * ncr + jb) = false) by nia.
  rewrite E. apply IH; [exact Hne|exact Hj|]. intros q Hq. apply Hb. right. exact Hq.
Qed.

Lemma kron_row_none : forall ncr (ra rb : crow C) ja jb,
  ~ In ja (map fst ra) -> jb < ncr -> (forall pb, In pb rb -> fst pb < ncr) ->
  find (fun q : nat * C => fst q =? ja * ncr + jb) (flat_map (fun pa => block ncr pa rb) ra) = None.
Proof.
  intros ncr. induction ra as [|pa t IH]; intros rb ja jb Hn Hj Hb; simpl; [reflexivity|].
  rewrite find_app. rewrite block_find_other; [|intro E; apply Hn; simpl; left; exact E|exact Hj|exact Hb].
  apply IH; [intro H; apply Hn; simpl; right; exact H|exact Hj|exact Hb].
Qed.

Lemma kron_row_get : forall ncr (ra rb : crow C) ja jb,
  NoDup (map fst ra) -> jb < ncr -> (forall pb, In pb rb -> fst pb < ncr) ->
  row_get (ja * ncr + jb) (flat_map (fun pa => block ncr pa rb) ra) =
  cmul (row_get ja ra) (row_get jb rb).
Proof.
  intros ncr. unfold C01.row_get.
  induction ra as [|pa t IH]; intros rb ja jb Hnd Hj Hb; simpl; [symmetry; apply Hmul0l|].
  inversion Hnd as [|x l Hnotin Hnd' Heq]; subst.
  rewrite find_app. destruct (fst pa =? ja) eqn:E.
  - apply Nat.eqb_eq in E. subst ja. rewrite block_find_same.
    destruct (find (fun pb : nat * C => fst pb =? jb) rb) as [pb|]; simpl; [reflexivity|].
    rewrite (kron_row_none ncr t rb (fst pa) jb Hnotin Hj Hb). symmetry. apply Hmul0r.
  - rewrite block_find_other; [|lia|exact Hj|exact Hb].
    apply IH; assumption.
Qed.

Theorem kron_csr_den : forall (l r : csr C) ia ib ja jb,
  wf_csr C l -> wf_csr C r ->
  ia < s_nr C l -> ib < s_nr C r -> ja < s_nc C l -> jb < s_nc C r ->
  den_csr (kron_csr C cmul l r) (ia * s_nr C r + ib) (ja * s_nc C r + jb) =
  cmul (den_csr l ia ja) (den_csr r ib jb).
Proof.
  intros l r ia ib ja jb [Ll Wl] [Lr Wr] Hia Hib Hja Hjb.
  assert (Ia : In (nth ia (s_rows C l) []) (s_rows C l)) by (apply nth_In; lia).
  assert (Ib : In (nth ib (s_rows C r) []) (s_rows C r)) by (apply nth_In; lia).
  destruct (Wl _ Ia) as [Na _]. destruct (Wr _ Ib) as [_ Bb].
  assert (Hlen : ib < length (s_rows C r)) by lia.
  unfold C01.den_csr at 1. simpl.
  assert (E1 : (ia * s_nr C r + ib <? s_nr C l * s_nr C r)
               && (ja * s_nc C r + jb <? s_nc C l * s_nc C r) = true) by nia.
  rewrite E1. unfold crow in *.
  match goal with
  | |- context [@nth ?T (ia * s_nr C r + ib) (@flat_map ?A ?B ?g ?ll) ?d] =>
      rewrite (nth_flat_map_block A B g (s_nr C r) ll ia ib [] d);
        [|intros a; rewrite map_length; exact Lr|lia|exact Hib]
  end.
  set (ra := nth ia (s_rows C l) []).
  set (F := fun rb : list (nat * C) => flat_map (fun pa : nat * C =>
              map (fun pb : nat * C => (fst pa * s_nc C r + fst pb, cmul (snd pa) (snd pb))) rb) ra).
  change (nth ib (map _ (s_rows C r)) []) with (nth ib (map F (s_rows C r)) []).
  rewrite nth_indep with (d' := F []) by (rewrite map_length; exact Hlen).
  rewrite map_nth. unfold F.
  change (flat_map _ ra) with (flat_map (fun pa => block (s_nc C r) pa (nth ib (s_rows C r) [])) ra).
  rewrite kron_row_get by assumption.
  unfold C01.den_csr.
  assert (E2 : (ia <? s_nr C l) && (ja <? s_nc C l) = true) by lia.
  assert (E3 : (ib <? s_nr C r) && (jb <? s_nc C r) = true) by lia.
  rewrite E2, E3. reflexivity.
Qed.
End Kron.
