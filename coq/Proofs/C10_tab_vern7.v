(* C10 - computed facts about the Verner 7(6) tableau of
   qutip/solver/integrator/verner7efficient.py (exact dyadic arithmetic on
   the doubles read from the source). *)
From Coq Require Import List ZArith QArith Bool.
Import ListNotations.
From QV Require Import Gen.C10_tab_vern7 Model.C10_trees Model.C10 Proofs.C10_trees.

Definition v7_a := dmat vern7_a.   Definition v7_b := dvec vern7_b.
Definition v7_c := dvec vern7_c.   Definition v7_e := dvec vern7_e.
Definition v7_bi := dmat vern7_bi. Definition v7_bh := vsub v7_b v7_e.
Definition v7_tb := dy_tableau vern7_a vern7_b vern7_c vern7_bi.

Lemma vern7_dyadic :
  all_dyadic_m vern7_a && all_dyadic_v vern7_b && all_dyadic_v vern7_c &&
  all_dyadic_v vern7_e && all_dyadic_m vern7_bi = true.
Proof. vm_cast_no_check (eq_refl true). Qed.

Lemma vern7_struct :
  Nat.eqb vern7_order 7 && shapes_ok v7_a v7_b v7_c && strictly_lower v7_a &&
  rowsum_ok 44 v7_a v7_c && Nat.eqb (length v7_e) (length v7_b) &&
  Nat.eqb (length v7_bi) (length v7_c) &&
  forallb (fun r => Nat.eqb (length r) 7) v7_bi = true.
Proof. vm_cast_no_check (eq_refl true). Qed.

(* b: all trees up to order 7; b - e: up to order 6; dense output: up to
   order 6 (error ~ dt^7, as the docstring of _interpolate_step says) *)
Lemma vern7_full : full_check v7_a 40 30 v7_b v7_bh v7_bi 7 7 6 6 = true.
Proof. vm_cast_no_check (eq_refl true). Qed.

Lemma vern7_taylor : taylor_close 40 done 7 (stab_poly v7_tb done) = true.
Proof. vm_cast_no_check (eq_refl true). Qed.
Lemma vern7_taylor_sharp : taylor_close 40 done 8 (stab_poly v7_tb done) = false.
Proof. vm_cast_no_check (eq_refl false). Qed.

Lemma vern7_theta1 : theta1_ok 36 v7_tb = true.
Proof. vm_cast_no_check (eq_refl true). Qed.

(* dense output of the linear problem at theta = 1/2, 1/4, 3/4: Taylor
   coefficients of exp(theta x) through x^6 *)
Lemma vern7_dense_taylor :
  forallb (fun tau => taylor_close 30 tau 6 (dense_poly v7_tb done tau))
          [(1, 1); (1, 2); (3, 2); (1, 0)]%Z = true.
Proof. vm_cast_no_check (eq_refl true). Qed.
