(* C01 - proofs about the repaired predicates and tidy-up kernels
   (tidyup_dense, tidyup_csr, isdiag_csr, isequal_dia). *)
From Coq Require Import List ZArith Bool Arith Lia ZifyBool.
Import ListNotations.
From QV Require Import Model.C01 Proofs.C01.

Section Pred.
Variable C : Type.
Variable c0 : C.
Variable is0 : C -> bool.
Variable ceqb : C -> C -> bool.
Variable tidy : C -> C.
Hypothesis His0 : forall x, is0 x = true <-> x = c0.
Hypothesis Hceq : forall a b, ceqb a b = true <-> a = b.
Hypothesis Htidy0 : tidy c0 = c0.

Notation den_dense := (den_dense C c0).
Notation den_csr := (den_csr C c0).
Notation den_dia := (den_dia C c0).

(* ---------------------------------------------------------------- tidyup *)
Theorem tidyup_dense_ok : forall (d : dense C) inplace i j,
  den_dense (fst (tidyup_dense C tidy d inplace)) i j = tidy (den_dense d i j) /\
  (inplace = false -> snd (tidyup_dense C tidy d inplace) = d) /\
  (inplace = true -> snd (tidyup_dense C tidy d inplace) = fst (tidyup_dense C tidy d inplace)).
Proof.
  intros d inplace i j. unfold tidyup_dense. destruct inplace; simpl.
  - split; [apply map_dense_den; exact Htidy0|]. split; [discriminate|reflexivity].
  - split; [apply map_dense_den; exact Htidy0|]. split; [reflexivity|discriminate].
Qed.

Let TG := fun p : nat * C => let v := tidy (snd p) in if is0 v then [] else [(fst p, v)].

Lemma tidy_row_none : forall (row : crow C) j, ~ In j (map fst row) ->
  find (fun p => fst p =? j) (flat_map TG row) = None.
Proof.
  induction row as [|p t IH]; intros j Hn; simpl; [reflexivity|].
  rewrite find_app.
  assert (Hp : fst p <> j) by (intro E; apply Hn; simpl; left; exact E).
  assert (E1 : find (fun q => fst q =? j) (TG p) = None).
  { unfold TG. simpl. destruct (is0 (tidy (snd p))); simpl; [reflexivity|].
    destruct (fst p =? j) eqn:E; [apply Nat.eqb_eq in E; contradiction|reflexivity]. }
  rewrite E1. apply IH. intro H. apply Hn. simpl. right. exact H.
Qed.

Lemma tidy_row_get : forall (row : crow C) j, NoDup (map fst row) ->
  row_get C c0 j (flat_map TG row) = tidy (row_get C c0 j row).
Proof.
  unfold row_get. induction row as [|p t IH]; intros j Hnd; simpl; [symmetry; exact Htidy0|].
  inversion Hnd as [|x l Hnotin Hnd' Heq]; subst.
  rewrite find_app. destruct (fst p =? j) eqn:E.
  - apply Nat.eqb_eq in E. subst j. unfold TG at 1. simpl.
    destruct (is0 (tidy (snd p))) eqn:Z; simpl.
    + rewrite (tidy_row_none t (fst p) Hnotin). symmetry. apply His0. exact Z.
    + rewrite Nat.eqb_refl. reflexivity.
  - assert (E1 : find (fun q => fst q =? j) (TG p) = None).
    { unfold TG. simpl. destruct (is0 (tidy (snd p))); simpl; [reflexivity|]. rewrite E. reflexivity. }
    rewrite E1. apply IH. exact Hnd'.
Qed.

Lemma tidy_rows_get : forall (rows : list (crow C)) i j,
  (forall row, In row rows -> NoDup (map fst row)) ->
  row_get C c0 j (nth i (map (fun row => flat_map TG row) rows) []) =
  tidy (row_get C c0 j (nth i rows [])).
Proof.
  induction rows as [|r t IH]; intros i j H.
  - destruct i; simpl; unfold row_get; simpl; symmetry; exact Htidy0.
  - destruct i as [|i]; simpl.
    + apply tidy_row_get. apply H. left. reflexivity.
    + apply IH. intros row Hin. apply H. right. exact Hin.
Qed.

Theorem tidyup_csr_ok : forall (m : csr C) inplace i j, wf_csr C m ->
  den_csr (fst (tidyup_csr C is0 tidy m inplace)) i j = tidy (den_csr m i j) /\
  (inplace = false -> snd (tidyup_csr C is0 tidy m inplace) = m).
Proof.
  intros m inplace i j [Hlen Hrows].
  assert (D : den_csr {| s_nr := s_nr C m; s_nc := s_nc C m;
                         s_rows := map (fun row => flat_map TG row) (s_rows C m) |} i j
              = tidy (den_csr m i j)).
  { unfold C01.den_csr. simpl.
    destruct ((i <? s_nr C m) && (j <? s_nc C m)) eqn:E; [|symmetry; exact Htidy0].
    apply tidy_rows_get. intros row Hin. destruct (Hrows row Hin) as [Hnd _]. exact Hnd. }
  unfold tidyup_csr. destruct inplace; simpl; (split; [exact D|]); [discriminate|reflexivity].
Qed.

(* --------------------------------------------------------------- isdiag *)
Lemma find_in_nodup : forall (row : crow C) p, NoDup (map fst row) -> In p row ->
  find (fun q => fst q =? fst p) row = Some p.
Proof.
  induction row as [|a t IH]; intros p Hnd Hin; [contradiction|].
  inversion Hnd as [|x l Hnotin Hnd' Heq]; subst. simpl.
  destruct Hin as [->|Hin]; [rewrite Nat.eqb_refl; reflexivity|].
  destruct (fst a =? fst p) eqn:E.
  - apply Nat.eqb_eq in E. exfalso. apply Hnotin. rewrite E. apply in_map. exact Hin.
  - apply IH; assumption.
Qed.

Lemma isdiag_rows_spec : forall (rows : list (crow C)) r,
  isdiag_rows C is0 r rows = true <->
  forall k p, k < length rows -> In p (nth k rows []) -> fst p <> r + k -> snd p = c0.
Proof.
  induction rows as [|row t IH]; intros r; simpl.
  - split; [intros _ k p Hk; lia|reflexivity].
  - rewrite andb_true_iff, forallb_forall, IH. split.
    + intros [H1 H2] k p Hk Hin Hne. destruct k as [|k].
      * specialize (H1 p Hin). apply orb_prop in H1. destruct H1 as [H1|H1].
        -- apply Nat.eqb_eq in H1. lia.
        -- apply His0. exact H1.
      * apply (H2 k p); [lia|exact Hin|lia].
    + intros H. split.
      * intros p Hin. destruct (fst p =? r) eqn:E; [reflexivity|]. simpl.
        apply His0. apply (H 0 p); [lia|exact Hin|].
        apply Nat.eqb_neq in E. lia.
      * intros k p Hk Hin Hne. apply (H (S k) p); [lia|exact Hin|lia].
Qed.

Theorem isdiag_csr_iff : forall (m : csr C), wf_csr C m ->
  (isdiag_csr C is0 m = true <-> forall i j, i <> j -> den_csr m i j = c0).
Proof.
  intros m [Hlen Hrows]. unfold isdiag_csr. rewrite isdiag_rows_spec. split.
  - intros H i j Hne. unfold C01.den_csr.
    destruct ((i <? s_nr C m) && (j <? s_nc C m)) eqn:E; [|reflexivity].
    unfold row_get.
    destruct (find (fun p => fst p =? j) (nth i (s_rows C m) [])) as [p|] eqn:F; [|reflexivity].
    apply find_some in F. destruct F as [Hin Hj]. apply Nat.eqb_eq in Hj.
    apply (H i p); [lia|exact Hin|lia].
  - intros H k p Hk Hin Hne.
    assert (Hrow : In (nth k (s_rows C m) []) (s_rows C m)) by (apply nth_In; exact Hk).
    destruct (Hrows _ Hrow) as [Hnd Hb].
    specialize (H k (fst p)).
    unfold C01.den_csr in H.
    assert (E : (k <? s_nr C m) && (fst p <? s_nc C m) = true).
    { specialize (Hb p Hin). lia. }
    rewrite E in H. unfold row_get in H. rewrite (find_in_nodup _ p Hnd Hin) in H.
    apply H. lia.
Qed.

(* -------------------------------------------------------------- isequal *)
Definition slot (A : list (Z * list C)) (off : Z) (k : nat) : C :=
  match find (fun d => (fst d =? off)%Z) A with Some d => nth k (snd d) c0 | None => c0 end.

Fixpoint zsorted (A : list (Z * list C)) : Prop :=
  match A with
  | [] => True
  | d :: t => (forall e, In e t -> (fst d < fst e)%Z) /\ zsorted t
  end.
Definition rows_len (n : nat) (A : list (Z * list C)) : Prop :=
  forall d, In d A -> length (snd d) = n.

Lemma slot_cons_eq : forall o d t k, slot ((o, d) :: t) o k = nth k d c0.
Proof. intros. unfold slot. simpl. rewrite Z.eqb_refl. reflexivity. Qed.

Lemma slot_cons_ne : forall o d t off k, off <> o -> slot ((o, d) :: t) off k = slot t off k.
Proof.
  intros. unfold slot. simpl. destruct (o =? off)%Z eqn:E; [|reflexivity].
  apply Z.eqb_eq in E. congruence.
Qed.

Lemma slot_absent : forall A off k, (forall e, In e A -> fst e <> off) -> slot A off k = c0.
Proof.
  intros A off k H. unfold slot.
  destruct (find (fun d => (fst d =? off)%Z) A) as [d|] eqn:F; [|reflexivity].
  apply find_some in F. destruct F as [Hin E]. apply Z.eqb_eq in E.
  exfalso. exact (H d Hin E).
Qed.

Lemma all0_spec : forall n (l : list C), length l = n ->
  (all0 C is0 l = true <-> forall k, k < n -> nth k l c0 = c0).
Proof.
  intros n l Hl. unfold all0. rewrite forallb_forall. split.
  - intros H k Hk. apply His0. apply H. apply nth_In. lia.
  - intros H x Hin. apply His0. destruct (In_nth l x c0 Hin) as [k [Hk E]].
    rewrite <- E. apply H. lia.
Qed.

Lemma rows_eq_spec : forall (da db : list C) n, length da = n -> length db = n ->
  (forallb (fun p => ceqb (fst p) (snd p)) (combine da db) = true <->
   forall k, k < n -> nth k da c0 = nth k db c0).
Proof.
  induction da as [|x da IH]; intros db n Ha Hb; simpl in *.
  - split; [intros _ k Hk; lia|reflexivity].
  - destruct db as [|y db]; simpl in *; [lia|].
    destruct n as [|n]; [lia|].
    rewrite andb_true_iff. rewrite (IH db n) by lia. rewrite Hceq. split.
    + intros [E H] k Hk. destruct k as [|k]; [exact E|]. apply H. lia.
    + intros H. split; [apply (H 0); lia|]. intros k Hk. apply (H (S k)). lia.
Qed.

Lemma rest0_spec : forall n A, zsorted A -> rows_len n A ->
  (rest0 C is0 A = true <-> forall off k, k < n -> slot A off k = c0).
Proof.
  intros n. induction A as [|[o d] t IH]; intros Hs Hl; simpl.
  - split; [intros _ off k _; reflexivity|reflexivity].
  - destruct Hs as [Hlt Hs].
    assert (Hlt' : rows_len n t) by (intros e He; apply Hl; right; exact He).
    assert (Hd : length d = n) by (apply (Hl (o, d)); left; reflexivity).
    rewrite andb_true_iff. rewrite (all0_spec n d Hd). rewrite (IH Hs Hlt'). split.
    + intros [H1 H2] off k Hk. destruct (Z.eq_dec off o) as [->|Hne].
      * rewrite slot_cons_eq. apply H1. exact Hk.
      * rewrite slot_cons_ne by exact Hne. apply H2. exact Hk.
    + intros H. split.
      * intros k Hk. rewrite <- (slot_cons_eq o d t k). apply H. exact Hk.
      * intros off k Hk. destruct (Z.eq_dec off o) as [->|Hne].
        -- apply slot_absent. intros e He. specialize (Hlt e He). simpl in Hlt. lia.
        -- rewrite <- (slot_cons_ne o d t off k Hne). apply H. exact Hk.
Qed.

Lemma walk_spec : forall n fuel A B,
  length A + length B <= fuel -> zsorted A -> zsorted B -> rows_len n A -> rows_len n B ->
  (isequal_dia_walk C is0 ceqb fuel A B = true <->
   forall off k, k < n -> slot A off k = slot B off k).
Proof.
  intros n. induction fuel as [|f IH]; intros A B Hf SA SB LA LB.
  - destruct A; destruct B; simpl in Hf; try lia. simpl.
    split; [intros _ off k _; reflexivity|reflexivity].
  - destruct A as [|[oa da] ta].
    { simpl. rewrite (rest0_spec n B SB LB). split.
      - intros H off k Hk. rewrite H by exact Hk. reflexivity.
      - intros H off k Hk. symmetry. apply (H off k Hk). }
    destruct B as [|[ob db] tb].
    { simpl isequal_dia_walk. rewrite andb_true_r.
      rewrite (rest0_spec n ((oa, da) :: ta) SA LA). split.
      - intros H off k Hk. rewrite H by exact Hk. reflexivity.
      - intros H off k Hk. apply (H off k Hk). }
    pose proof SA as SA0. pose proof SB as SB0.
    destruct SA as [HA SA]. destruct SB as [HB SB].
    assert (LA' : rows_len n ta) by (intros e He; apply LA; right; exact He).
    assert (LB' : rows_len n tb) by (intros e He; apply LB; right; exact He).
    assert (Hda : length da = n) by (apply (LA (oa, da)); left; reflexivity).
    assert (Hdb : length db = n) by (apply (LB (ob, db)); left; reflexivity).
    simpl in Hf. simpl isequal_dia_walk.
    destruct (Z.eqb_spec oa ob) as [Eo|Eo].
    + subst ob.
      assert (R : (if forallb (fun p => ceqb (fst p) (snd p)) (combine da db)
                   then isequal_dia_walk C is0 ceqb f ta tb else false) = true <->
                  (forallb (fun p => ceqb (fst p) (snd p)) (combine da db) = true /\
                   isequal_dia_walk C is0 ceqb f ta tb = true)).
      { destruct (forallb _ (combine da db)); split; intros H; try discriminate;
          try (destruct H; discriminate); [split; [reflexivity|exact H]|destruct H; assumption]. }
      rewrite R. rewrite (rows_eq_spec da db n Hda Hdb).
      rewrite (IH ta tb) by (try assumption; lia). split.
      * intros [H1 H2] off k Hk. destruct (Z.eq_dec off oa) as [->|Hne].
        -- rewrite !slot_cons_eq. apply H1. exact Hk.
        -- rewrite !slot_cons_ne by exact Hne. apply H2. exact Hk.
      * intros H. split.
        -- intros k Hk. rewrite <- (slot_cons_eq oa da ta k), <- (slot_cons_eq oa db tb k).
           apply H. exact Hk.
        -- intros off k Hk. destruct (Z.eq_dec off oa) as [->|Hne].
           ++ rewrite !slot_absent; [reflexivity| |].
              ** intros e He. specialize (HB e He). simpl in HB. lia.
              ** intros e He. specialize (HA e He). simpl in HA. lia.
           ++ rewrite <- (slot_cons_ne oa da ta off k Hne), <- (slot_cons_ne oa db tb off k Hne).
              apply H. exact Hk.
    + destruct (Z.leb_spec oa ob) as [Hle|Hgt].
      * (* oa < ob : the diagonal of A must be zero *)
        assert (Hlt : (oa < ob)%Z) by lia.
        assert (R : (if all0 C is0 da then isequal_dia_walk C is0 ceqb f ta ((ob, db) :: tb)
                     else false) = true <->
                    (all0 C is0 da = true /\
                     isequal_dia_walk C is0 ceqb f ta ((ob, db) :: tb) = true)).
        { destruct (all0 C is0 da); split; intros H; try discriminate;
            try (destruct H; discriminate); [split; [reflexivity|exact H]|destruct H; assumption]. }
        rewrite R. rewrite (all0_spec n da Hda).
        rewrite (IH ta ((ob, db) :: tb)) by (try assumption; simpl; lia).
        assert (Babs : forall k, slot ((ob, db) :: tb) oa k = c0).
        { intros k. apply slot_absent. intros e [<-|He]; simpl; [lia|].
          specialize (HB e He). simpl in HB. lia. }
        split.
        -- intros [H1 H2] off k Hk. destruct (Z.eq_dec off oa) as [->|Hne].
           ++ rewrite slot_cons_eq, Babs. apply H1. exact Hk.
           ++ rewrite slot_cons_ne by exact Hne. apply H2. exact Hk.
        -- intros H. split.
           ++ intros k Hk. rewrite <- (slot_cons_eq oa da ta k). rewrite (H oa k Hk). apply Babs.
           ++ intros off k Hk. destruct (Z.eq_dec off oa) as [->|Hne].
              ** rewrite Babs. apply slot_absent. intros e He. specialize (HA e He). simpl in HA. lia.
              ** rewrite <- (slot_cons_ne oa da ta off k Hne). apply H. exact Hk.
      * (* ob < oa : the diagonal of B must be zero *)
        assert (R : (if all0 C is0 db then isequal_dia_walk C is0 ceqb f ((oa, da) :: ta) tb
                     else false) = true <->
                    (all0 C is0 db = true /\
                     isequal_dia_walk C is0 ceqb f ((oa, da) :: ta) tb = true)).
        { destruct (all0 C is0 db); split; intros H; try discriminate;
            try (destruct H; discriminate); [split; [reflexivity|exact H]|destruct H; assumption]. }
        rewrite R. rewrite (all0_spec n db Hdb).
        rewrite (IH ((oa, da) :: ta) tb) by (try assumption; simpl; lia).
        assert (Aabs : forall k, slot ((oa, da) :: ta) ob k = c0).
        { intros k. apply slot_absent. intros e [<-|He]; simpl; [lia|].
          specialize (HA e He). simpl in HA. lia. }
        split.
        -- intros [H1 H2] off k Hk. destruct (Z.eq_dec off ob) as [->|Hne].
           ++ rewrite slot_cons_eq, Aabs. symmetry. apply H1. exact Hk.
           ++ rewrite (slot_cons_ne ob db tb off k Hne). apply H2. exact Hk.
        -- intros H. split.
           ++ intros k Hk. rewrite <- (slot_cons_eq ob db tb k). rewrite <- (H ob k Hk). apply Aabs.
           ++ intros off k Hk. destruct (Z.eq_dec off ob) as [->|Hne].
              ** rewrite Aabs. symmetry. apply slot_absent.
                 intros e He. specialize (HB e He). simpl in HB. lia.
              ** rewrite <- (slot_cons_ne ob db tb off k Hne). apply H. exact Hk.
Qed.

(* with sorted (hence distinct) offsets the last and the first stored
   diagonal of an offset coincide: Dia.to_array = slot *)
Lemma find_rev_sorted : forall A off, zsorted A ->
  find (fun d : Z * list C => (fst d =? off)%Z) (rev A) = find (fun d => (fst d =? off)%Z) A.
Proof.
  induction A as [|d t IH]; intros off Hs0; simpl; [reflexivity|].
  destruct Hs0 as [Hlt Hs].
  rewrite find_app. rewrite (IH off Hs). simpl.
  destruct (fst d =? off)%Z eqn:E.
  - apply Z.eqb_eq in E.
    assert (N : find (fun e : Z * list C => (fst e =? off)%Z) t = None).
    { destruct (find (fun e : Z * list C => (fst e =? off)%Z) t) as [e|] eqn:F; [|reflexivity].
      apply find_some in F. destruct F as [Hin E2]. apply Z.eqb_eq in E2.
      specialize (Hlt e Hin). lia. }
    rewrite N. reflexivity.
  - destruct (find (fun e : Z * list C => (fst e =? off)%Z) t); reflexivity.
Qed.

(* clean_dia leaves zeros in the slots of a diagonal that lie outside *)
Definition cleaned (a : dia C) : Prop :=
  forall d k, In d (a_diags C a) -> k < a_nc C a ->
    ~ (0 <= Z.of_nat k - fst d < Z.of_nat (a_nr C a))%Z -> nth k (snd d) c0 = c0.

Lemma den_dia_slot : forall (a : dia C) i j, zsorted (a_diags C a) ->
  i < a_nr C a -> j < a_nc C a ->
  den_dia a i j = slot (a_diags C a) (Z.of_nat j - Z.of_nat i) j.
Proof.
  intros a i j Hs Hi Hj. unfold C01.den_dia, slot.
  assert (E : (i <? a_nr C a) && (j <? a_nc C a) = true) by lia.
  rewrite E. rewrite (find_rev_sorted _ _ Hs). reflexivity.
Qed.

Lemma slot_outside : forall (a : dia C) off k, cleaned a -> k < a_nc C a ->
  ~ (0 <= Z.of_nat k - off < Z.of_nat (a_nr C a))%Z -> slot (a_diags C a) off k = c0.
Proof.
  intros a off k Hc Hk Hout. unfold slot.
  destruct (find (fun d => (fst d =? off)%Z) (a_diags C a)) as [d|] eqn:F; [|reflexivity].
  apply find_some in F. destruct F as [Hin E]. apply Z.eqb_eq in E.
  apply (Hc d k Hin Hk). rewrite E. exact Hout.
Qed.

Theorem isequal_dia_iff : forall (a b : dia C),
  a_nr C a = a_nr C b -> a_nc C a = a_nc C b ->
  zsorted (a_diags C a) -> zsorted (a_diags C b) ->
  rows_len (a_nc C a) (a_diags C a) -> rows_len (a_nc C a) (a_diags C b) ->
  cleaned a -> cleaned b ->
  (isequal_dia C is0 ceqb a b = true <-> forall i j, den_dia a i j = den_dia b i j).
Proof.
  intros a b Er Ec SA SB LA LB CA CB. unfold isequal_dia.
  assert (G : negb ((a_nr C a =? a_nr C b) && (a_nc C a =? a_nc C b)) = false) by lia.
  rewrite G.
  rewrite (walk_spec (a_nc C a) _ _ _ (le_n _) SA SB LA LB). split.
  - intros H i j.
    destruct (Nat.ltb_spec i (a_nr C a)) as [Hi|Hi]; [destruct (Nat.ltb_spec j (a_nc C a)) as [Hj|Hj]|].
    + rewrite (den_dia_slot a i j SA Hi Hj).
      rewrite (den_dia_slot b i j SB) by lia. apply H. exact Hj.
    + unfold C01.den_dia.
      assert (E1 : (i <? a_nr C a) && (j <? a_nc C a) = false) by lia.
      assert (E2 : (i <? a_nr C b) && (j <? a_nc C b) = false) by lia.
      rewrite E1, E2. reflexivity.
    + unfold C01.den_dia.
      assert (E1 : (i <? a_nr C a) && (j <? a_nc C a) = false) by lia.
      assert (E2 : (i <? a_nr C b) && (j <? a_nc C b) = false) by lia.
      rewrite E1, E2. reflexivity.
  - intros H off k Hk.
    destruct (Z_le_dec 0 (Z.of_nat k - off)) as [H0|H0];
      [destruct (Z_lt_dec (Z.of_nat k - off) (Z.of_nat (a_nr C a))) as [H1|H1]|].
    + set (i := Z.to_nat (Z.of_nat k - off)).
      assert (Hi : i < a_nr C a) by (unfold i; lia).
      assert (Eoff : off = (Z.of_nat k - Z.of_nat i)%Z) by (unfold i; lia).
      rewrite Eoff.
      rewrite <- (den_dia_slot a i k SA Hi Hk).
      rewrite <- (den_dia_slot b i k SB) by lia. apply H.
    + rewrite (slot_outside a off k CA Hk) by lia.
      rewrite (slot_outside b off k CB) by lia. reflexivity.
    + rewrite (slot_outside a off k CA Hk) by lia.
      rewrite (slot_outside b off k CB) by lia. reflexivity.
Qed.

Theorem isequal_dia_shape_guard : forall (a b : dia C),
  (a_nr C a <> a_nr C b \/ a_nc C a <> a_nc C b) -> isequal_dia C is0 ceqb a b = false.
Proof.
  intros a b H. unfold isequal_dia.
  assert (G : negb ((a_nr C a =? a_nr C b) && (a_nc C a =? a_nc C b)) = true) by lia.
  rewrite G. reflexivity.
Qed.
End Pred.
