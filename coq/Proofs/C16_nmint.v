(* C16 - nm_mcsolve: proofs about the composition NmMCIntegrator +
   InfluenceMartingale (Model/C16_nmint.v). *)
From Coq Require Import List Bool Arith ZArith QArith Qabs Lia Lqa Permutation.
Import ListNotations.
From QV Require Import Model.C16 Model.C16_nm Model.C16_nmint Proofs.C16 Proofs.C16_q Proofs.C16_nm.
Local Open Scope nat_scope.

Section NmIntGeneric.
Variable N : Num.
Notation TT := (T N).
Variable eqb : TT -> TT -> bool.
Variable o : opts N.
Variable nrm2 : nat -> TT -> TT.
Variable lg : TT -> TT.
Variable stp : nat -> TT -> TT -> TT.
Variable rate : nat -> TT -> TT -> nat -> TT.
Variable jnorm : nat -> TT -> TT -> nat -> TT.
Variable rnd : nat -> TT.
Variable nch : nat.
Variable a_parameter : TT.
Variable integ : TT -> TT -> TT.
Variable expo : TT -> TT.
Variable mrate : TT -> nat -> TT.
Variable mshift : TT -> TT.

Notation ndc := (nm_do_collapse N o rate jnorm rnd nch mrate mshift).
Notation nloop := (nm_integ_loop N o nrm2 lg stp rate jnorm rnd nch mrate mshift).
Notation gf := (gfactor N mrate mshift).

(* the MCIntegrator part of the override is the base method *)
Lemma ndc_ns x tc s : ns N (ndc x tc s) = do_collapse N o rate jnorm rnd nch (ns N x) tc s.
Proof.
  unfold nm_do_collapse.
  destruct (Nat.ltb _ _); [|reflexivity].
  destruct (cols N (do_collapse N o rate jnorm rnd nch (ns N x) tc s)) as [|[ct ck] r]; [reflexivity|].
  destruct (m_add_collapse N mrate mshift (nm N x) ct ck); reflexivity.
Qed.

Definition to_ires (r : nmst N * option TT * nat) : ires N :=
  match r with
  | (x, Some tr, 0) => Done N (ns N x) tr
  | (x, _, 1) => Raised N (ns N x)
  | (x, _, _) => OutOfFuel N (ns N x)
  end.

(* integrate of the subclass is integrate of MCIntegrator on the MCIntegrator
   part of the state: every theorem of Props/C16.v applies to nm_mcsolve
   trajectories *)
Lemma nloop_is_integ_loop : forall fuel x t t_old no,
  to_ires (nloop fuel x t t_old no)
  = integ_loop N o nrm2 lg stp rate jnorm rnd nch fuel (ns N x) t t_old no.
Proof.
  induction fuel as [|f IH]; intros x t t_old no; cbn [nm_integ_loop integ_loop]; [reflexivity|].
  destruct (ltb N t_old t); [|reflexivity].
  destruct (leb N _ _).
  - destruct (find_collapse N o nrm2 lg stp _ _ _ _ _ _ _) as [[[tc s]|] rq].
    + rewrite IH. rewrite ndc_ns. reflexivity.
    + reflexivity.
  - rewrite IH. reflexivity.
Qed.

(* the martingale's record follows the trajectory's collapse list *)
Variable PM : mart N -> Prop.
Hypothesis PM_started : forall m, PM m -> t_prev N m <> None.
Hypothesis PM_collapse : forall m tc k m', PM m -> m_add_collapse N mrate mshift m tc k = Some m' -> PM m'.

Definition synced (x : nmst N) : Prop :=
  PM (nm N x) /\ disc N (nm N x) = map gf (rev (cols N (ns N x))) /\ nraised N x = false.

Lemma ndc_synced x tc s : synced x -> synced (ndc x tc s).
Proof.
  intros (Hp & Hd & Hr). unfold nm_do_collapse.
  destruct (do_collapse_spec N o rate jnorm rnd nch (ns N x) tc s)
    as (_ & _ & _ & [(Hc & _)|(k & Hc & _)]).
  - rewrite Hc, Nat.ltb_irrefl. split; [exact Hp|]. split; [|exact Hr]. cbn [ns nm]. rewrite Hc. exact Hd.
  - rewrite Hc. cbn [length]. assert (E : Nat.ltb (length (cols N (ns N x))) (S (length (cols N (ns N x)))) = true)
      by (apply Nat.ltb_lt; lia). rewrite E.
    destruct (m_add_collapse N mrate mshift (nm N x) tc k) as [m'|] eqn:Ea.
    + split; [eapply PM_collapse; eassumption|]. split; [|exact Hr]. cbn [ns nm]. rewrite Hc.
      cbn [rev]. rewrite map_app. cbn [map]. rewrite <- Hd.
      unfold m_add_collapse in Ea. destruct (t_prev N (nm N x)); [|discriminate].
      inversion Ea; subst. reflexivity.
    + exfalso. unfold m_add_collapse in Ea. pose proof (PM_started _ Hp) as Hs.
      destruct (t_prev N (nm N x)); [discriminate|congruence].
Qed.

Lemma nloop_synced : forall fuel x t t_old no,
  synced x -> synced (fst (fst (nloop fuel x t t_old no))).
Proof.
  induction fuel as [|f IH]; intros x t t_old no Hs; cbn [nm_integ_loop]; [exact Hs|].
  destruct (ltb N t_old t); [|exact Hs].
  destruct Hs as (Hp & Hd & Hr).
  destruct (leb N _ _).
  - destruct (find_collapse N o nrm2 lg stp _ _ _ _ _ _ _) as [[[tc s]|] rq].
    + apply IH. apply ndc_synced. split; [exact Hp|]. split; [exact Hd|exact Hr].
    + split; [exact Hp|]. split; [exact Hd|exact Hr].
  - apply IH. split; [exact Hp|]. split; [exact Hd|exact Hr].
Qed.

Lemma nrun_synced : forall fuel ts x rets,
  synced x ->
  synced (fst (fst (nm_run_from N o nrm2 lg stp rate jnorm rnd nch mrate mshift fuel x ts rets))).
Proof.
  induction ts as [|t r IH]; intros x rets Hs; cbn [nm_run_from]; [exact Hs|].
  unfold nm_integrate.
  pose proof (nloop_synced fuel x t (cur N (ns N x)) (nrm2 (seg N (ns N x)) (cur N (ns N x))) Hs) as H.
  destruct (nloop fuel x t (cur N (ns N x)) (nrm2 (seg N (ns N x)) (cur N (ns N x)))) as [[x' [tr|]] st].
  - apply IH. exact H.
  - exact H.
Qed.

End NmIntGeneric.

(* with `started` as the property carried along *)
Definition started (N : Num) (m : mart N) : Prop := t_prev N m <> None.

Lemma started_collapse N mrate mshift (m : mart N) tc k m' :
  started N m -> m_add_collapse N mrate mshift m tc k = Some m' -> started N m'.
Proof.
  unfold started, m_add_collapse. intros H. destruct (t_prev N m) eqn:E; [|discriminate].
  intros Ea; inversion Ea; subst. cbn [t_prev]. discriminate.
Qed.

Lemma nrun_record N o nrm2 lg stp rate jnorm rnd nch mrate mshift fuel ts x rets :
  synced N mrate mshift (started N) x ->
  synced N mrate mshift (started N)
         (fst (fst (nm_run_from N o nrm2 lg stp rate jnorm rnd nch mrate mshift fuel x ts rets))).
Proof.
  apply nrun_synced.
  - intros m H; exact H.
  - intros m tc k m'. apply started_collapse.
Qed.

Lemma set_state_synced N eqb rnd a integ expo mrate mshift m t0 no_jump floor :
  synced N mrate mshift (started N) (nm_set_state N eqb rnd a integ expo m t0 no_jump floor).
Proof.
  unfold synced, started, nm_set_state, init_state. cbn [nm ns nraised m_initialize t_prev disc].
  split; [discriminate|]. split; [|reflexivity]. destruct no_jump; reflexivity.
Qed.


(* ------------------------------------------------ the recorded trace, over Q *)
Local Open Scope Q_scope.
Section NmTraceQ.
Variable o : opts QN.
Variable nrm2 : nat -> Q -> Q.
Variable lg : Q -> Q.
Variable stp : nat -> Q -> Q -> Q.
Variable rate : nat -> Q -> Q -> nat -> Q.
Variable jnorm : nat -> Q -> Q -> nat -> Q.
Variable rnd : nat -> Q.
Variable nch : nat.
Variable a : Q.
Variable integ : Q -> Q -> Q.
Variable expo : Q -> Q.
Variable mrate : Q -> nat -> Q.
Variable mshift : Q -> Q.
Hypothesis Hint_add : forall x y z, integ x y + integ y z == integ x z.
Hypothesis Hint_prop : forall x x' y y', x == x' -> y == y' -> integ x y == integ x' y'.
Hypothesis Hexp_add : forall u v, expo (u + v) == expo u * expo v.
Hypothesis Hexp_prop : forall u v, u == v -> expo u == expo v.
Hypothesis Hexp0 : expo 0 == 1.

Notation E := (cont QN Qeq_bool a integ expo).

Lemma read_trace_outs : forall ts m,
  snd (read_trace QN Qeq_bool a integ expo m ts)
  = m_outs a integ expo mrate mshift m (map (OValue QN) ts).
Proof.
  induction ts as [|t r IH]; intros m; cbn [read_trace map m_outs]; [reflexivity|].
  destruct (m_value QN Qeq_bool a integ expo m t) as [[m' v]|].
  - specialize (IH m'). destruct (read_trace QN Qeq_bool a integ expo m' r). simpl in *. rewrite IH. reflexivity.
  - specialize (IH m). destruct (read_trace QN Qeq_bool a integ expo m r). simpl in *. rewrite IH. reflexivity.
Qed.

Lemma read_trace_disc : forall ts m,
  disc QN (fst (read_trace QN Qeq_bool a integ expo m ts)) = disc QN m.
Proof.
  induction ts as [|t r IH]; intros m; cbn [read_trace]; [reflexivity|].
  destruct (m_value QN Qeq_bool a integ expo m t) as [[m' v]|] eqn:Ev.
  - specialize (IH m'). destruct (read_trace QN Qeq_bool a integ expo m' r). simpl in *. rewrite IH.
    unfold m_value in Ev. destruct (t_prev QN m); [|discriminate]. inversion Ev; subst. reflexivity.
  - specialize (IH m). destruct (read_trace QN Qeq_bool a integ expo m r). simpl in *. exact IH.
Qed.

Lemma spec_values t0 cols : forall ts,
  spec_outs a integ expo mrate mshift t0 cols (map (OValue QN) ts)
  = map (fun t => prodf (filter (before t) (map (factor_of mrate mshift) cols)) * E t0 t) ts.
Proof. induction ts as [|t r IH]; cbn [map spec_outs]; [reflexivity|]. rewrite IH. reflexivity. Qed.

Lemma plain_values : forall ts : list Q, plain (map (OValue QN) ts).
Proof. induction ts; simpl; auto. Qed.

(* One trajectory of NonMarkovianMCSolver.run.  m0 is the martingale object as
   run leaves it (initialize(tlist[0], cache=tlist)) - any object whose cache
   was computed from t0.  The trace stored with the trajectory is, at every
   output time t,
     prod_{(tc, k) in the trajectory's own collapse list, tc < t}
          rate_k(tc) / (rate_k(tc) + shift(tc))   *   continuous(t0 -> t),
   the collapse list being the one of the MCIntegrator trajectory. *)
Theorem nm_trace_spec fuel m0 t0 ts no_jump floor :
  cache_ok a integ expo t0 (cache QN m0) ->
  let '(x, rets, status, tr) :=
    nm_one_traj QN Qeq_bool o nrm2 lg stp rate jnorm rnd nch a integ expo mrate mshift
                fuel m0 t0 ts no_jump floor in
  nraised QN x = false /\
  disc QN (nm QN x) = map (factor_of mrate mshift) (rev (cols QN (ns QN x))) /\
  Forall2 oeq tr
    (map (fun t => prodf (filter (before t) (map (factor_of mrate mshift) (rev (cols QN (ns QN x)))))
                   * E t0 t) (t0 :: ts)).
Proof.
  intros Hc. unfold nm_one_traj.
  set (x0 := nm_set_state QN Qeq_bool rnd a integ expo m0 t0 no_jump floor).
  assert (Hi0 : inv a integ expo t0 (nm QN x0) /\ disc QN (nm QN x0) = []).
  { unfold x0, nm_set_state. cbn [nm].
    apply (init_inv a integ expo Hint_add Hint_prop Hexp_add Hexp_prop Hexp0 m0 t0 (Keep QN)).
    intros _. exact Hc. }
  assert (Hs0 : synced QN mrate mshift (inv a integ expo t0) x0).
  { destruct Hi0 as (Hi & Hd). split; [exact Hi|]. split; [|reflexivity].
    rewrite Hd. unfold x0, nm_set_state. cbn [ns]. unfold init_state.
    destruct no_jump; reflexivity. }
  assert (PMs : forall m, inv a integ expo t0 m -> t_prev QN m <> None).
  { intros m ((tp & Htp & _) & _). congruence. }
  assert (PMc : forall m tc k m', inv a integ expo t0 m ->
                m_add_collapse QN mrate mshift m tc k = Some m' -> inv a integ expo t0 m').
  { intros m tc k m' Hi Ea. destruct (collapse_spec a integ expo mrate mshift t0 m tc k Hi) as (m2 & E2 & Hi2 & _).
    rewrite Ea in E2. inversion E2; subst. exact Hi2. }
  pose proof (nrun_synced QN o nrm2 lg stp rate jnorm rnd nch mrate mshift (inv a integ expo t0)
                          PMs PMc fuel ts x0 [] Hs0) as Hs.
  destruct (nm_run_from QN o nrm2 lg stp rate jnorm rnd nch mrate mshift fuel x0 ts []) as [[x rets] status].
  simpl in Hs. destruct Hs as [Hi [Hd Hr]]. change (T QN) with Q in *.
  pose proof (read_trace_outs (t0 :: ts) (nm QN x)) as Ho.
  pose proof (read_trace_disc (t0 :: ts) (nm QN x)) as Hdd.
  destruct (read_trace QN Qeq_bool a integ expo (nm QN x) (t0 :: ts)) as [m' tr].
  cbn [snd] in Ho. cbn [fst] in Hdd.
  cbv beta iota zeta. cbn [nraised ns nm]. split; [exact Hr|]. split.
  - (* read_trace does not touch the record *)
    rewrite Hdd. exact Hd.
  - rewrite Ho, <- spec_values.
    apply (history_spec a integ expo mrate mshift Hint_add Hint_prop Hexp_add Hexp_prop Hexp0 t0
                        (map (OValue QN) (t0 :: ts)) (nm QN x) (rev (cols QN (ns QN x)))
                        (plain_values (t0 :: ts)) Hi).
    exact Hd.
Qed.
End NmTraceQ.
