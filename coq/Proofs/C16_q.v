(* C16 - proofs in exact rational arithmetic (instance QN of Model/C16.v):
   the secant search only ever asks the ODE integrator for times inside the
   current bracket, the channel rule, the improved-sampling threshold map and
   the weights. *)
From Coq Require Import List Bool Arith ZArith QArith Qabs Lia Lqa Qfield Permutation.
Import ListNotations.
From QV Require Import Model.C16 Proofs.C16.
Local Open Scope Q_scope.

Lemma Qltb_true a b : Qltb a b = true <-> a < b.
Proof.
  unfold Qltb. rewrite negb_true_iff. split.
  - intros H. apply Qnot_le_lt. intros C. apply Qle_bool_iff in C. congruence.
  - intros H. destruct (Qle_bool b a) eqn:E; auto. apply Qle_bool_iff in E. lra.
Qed.
Lemma Qltb_false a b : Qltb a b = false <-> b <= a.
Proof.
  unfold Qltb. rewrite negb_false_iff. apply Qle_bool_iff.
Qed.
Lemma QN_lt_le : forall a b, ltb QN a b = true -> leb QN a b = true.
Proof. simpl. intros a b H. apply Qltb_true in H. apply Qle_bool_iff. lra. Qed.
Lemma QN_nlt_le : forall a b, ltb QN a b = false -> leb QN b a = true.
Proof. simpl. intros a b H. apply Qltb_false in H. apply Qle_bool_iff. exact H. Qed.

(* ------------------------------------------------ requests stay in range *)
Section QRange.
Variable o : opts QN.
Variable nrm2 : nat -> Q -> Q.
Variable lg : Q -> Q.
Variable stp : nat -> Q -> Q -> Q.
Hypothesis Hstp : forall sg c g, stp sg c g = g.
(* the only facts used about the logarithm: positive and monotone above 1 *)
Hypothesis Hlg : forall x y, 1 < x -> x <= y -> 0 < lg x /\ lg x <= lg y.
Hypothesis Hpos : forall sg t, 0 < nrm2 sg t.
Hypothesis Htt : 0 < norm_t_tol QN o.
Hypothesis Hnt : 0 < norm_tol QN o.

Lemma ratio_facts no n tg :
  0 < n -> n <= tg -> tg < no -> 1 < no / tg /\ no / tg <= no / n.
Proof.
  intros Hn Hle Hlt. assert (Htg : 0 < tg) by lra. assert (Hno : 0 < no) by lra. split.
  - apply Qlt_shift_div_l; [exact Htg|lra].
  - apply Qle_shift_div_l; [exact Hn|].
    assert (E : no / tg * n == (no * n) / tg) by (field; lra).
    rewrite E. apply Qle_shift_div_r; [exact Htg|].
    apply Qmult_le_l; [exact Hno|exact Hle].
Qed.

Lemma guess_in_bracket tp tf no n tg :
  0 < n -> n <= tg -> tg < no ->
  Qle_bool tf (tp + norm_t_tol QN o) = false ->
  let g := clamp_guess QN o tp (secant QN lg tp tf no n tg) in
  tp < g /\ g <= tf.
Proof.
  intros Hn Hle Hlt Hw0.
  assert (Hw : norm_t_tol QN o <= tf - tp).
  { assert (tp + norm_t_tol QN o < tf); [|lra].
    apply Qnot_le_lt. intros C. apply Qle_bool_iff in C. congruence. }
  destruct (ratio_facts no n tg Hn Hle Hlt) as (R1 & R2).
  destruct (Hlg _ _ R1 R2) as (L1 & L2).
  set (l1 := lg (no / tg)) in *. set (l2 := lg (no / n)) in *.
  assert (Hd : 0 < tf - tp) by lra.
  assert (D1 : 0 < (tf - tp) * l1 / l2).
  { apply Qlt_shift_div_l; [lra|]. rewrite Qmult_0_l. apply Qmult_lt_0_compat; lra. }
  assert (D2 : (tf - tp) * l1 / l2 <= tf - tp).
  { apply Qle_shift_div_r; [lra|]. apply Qmult_le_l; [exact Hd|exact L2]. }
  unfold clamp_guess, secant. simpl. fold l1 l2.
  destruct (Qltb (tp + (tf - tp) * l1 / l2 - tp) (norm_t_tol QN o)) eqn:E; lra.
Qed.

Definition in_br (tp tf r : Q) : Prop := tp < r /\ r <= tf.

Lemma fct_range :
  forall fuel tries sg reqs cur tp tf no n tg,
    tp <= tf -> 0 < n -> n <= tg -> tg < no -> (cur = tp \/ cur = tf) ->
    match fct_loop QN o nrm2 lg stp fuel tries sg reqs cur tp tf no n tg with
    | Broke _ g s _ rq =>
        (forall r, In r rq -> In r reqs \/ in_br tp tf r) /\
        tp <= g <= tf /\ tp <= s <= tf
    | LoopEnd _ _ rq => forall r, In r rq -> In r reqs \/ in_br tp tf r
    end.
Proof.
  induction fuel as [|f IH]; intros tries sg reqs cur tp tf no n tg Hb Hn Hle Hlt Hc;
    cbn [fct_loop].
  - intros r Hr; left; exact Hr.
  - destruct (leb QN tf (add QN tp (norm_t_tol QN o))) eqn:Hw.
    + split; [intros r Hr; left; exact Hr|]. destruct Hc; subst; lra.
    + pose proof (guess_in_bracket tp tf no n tg Hn Hle Hlt Hw) as G.
      set (g := clamp_guess QN o tp (secant QN lg tp tf no n tg)) in *.
      cbv zeta in G. destruct G as (G1 & G2).
      rewrite (Hstp sg cur g).
      destruct (ltb QN (absv QN (sub QN tg (nrm2 sg g))) (mul QN (norm_tol QN o) tg)) eqn:Hn2.
      * split; [|lra].
        intros r [Hr|Hr]; [right; subst; split; lra|left; exact Hr].
      * destruct (ltb QN (nrm2 sg g) tg) eqn:Hl.
        -- assert (Hl' : nrm2 sg g < tg) by (apply Qltb_true; exact Hl).
           specialize (IH (S tries) sg (g :: reqs) g tp g no (nrm2 sg g) tg).
           assert (A1 : tp <= g) by lra. assert (A3 : nrm2 sg g <= tg) by lra.
           specialize (IH A1 (Hpos sg g) A3 Hlt (or_intror eq_refl)).
           destruct (fct_loop QN o nrm2 lg stp f (S tries) sg (g :: reqs) g tp g no (nrm2 sg g) tg)
             as [g' s' tr rq|tr rq].
           ++ destruct IH as (I1 & I2 & I3). split; [|lra].
              intros r Hr. destruct (I1 r Hr) as [[E|Hin]|(B1 & B2)].
              ** right; subst; split; lra.
              ** left; exact Hin.
              ** right; split; lra.
           ++ intros r Hr. destruct (IH r Hr) as [[E|Hin]|(B1 & B2)].
              ** right; subst; split; lra.
              ** left; exact Hin.
              ** right; split; lra.
        -- assert (Hl' : tg <= nrm2 sg g) by (apply Qltb_false; exact Hl).
           assert (Hgt : tg < nrm2 sg g).
           { simpl in Hn2. apply Qltb_false in Hn2.
             assert (Hab : Qabs (tg - nrm2 sg g) == - (tg - nrm2 sg g)) by (apply Qabs_neg; lra).
             rewrite Hab in Hn2.
             assert (0 < norm_tol QN o * tg) by (apply Qmult_lt_0_compat; lra). lra. }
           specialize (IH (S tries) sg (g :: reqs) g g tf (nrm2 sg g) n tg G2 Hn Hle Hgt
                          (or_introl eq_refl)).
           destruct (fct_loop QN o nrm2 lg stp f (S tries) sg (g :: reqs) g g tf (nrm2 sg g) n tg)
             as [g' s' tr rq|tr rq].
           ++ destruct IH as (I1 & I2 & I3). split; [|lra].
              intros r Hr. destruct (I1 r Hr) as [[E|Hin]|(B1 & B2)].
              ** right; subst; split; lra.
              ** left; exact Hin.
              ** right; split; lra.
           ++ intros r Hr. destruct (IH r Hr) as [[E|Hin]|(B1 & B2)].
              ** right; subst; split; lra.
              ** left; exact Hin.
              ** right; split; lra.
Qed.
End QRange.

(* -------------------------------------------------------- channel rule *)
(* partial sums in the order NumPy's cumsum adds them *)
Fixpoint csum (l : list Q) (k : nat) {struct k} : Q :=
  match k with
  | O => 0
  | S k' => match l with [] => 0 | x :: r => x + csum r k' end
  end.

Definition nonneg (l : list Q) : Prop := forall x, In x l -> 0 <= x.

Lemma cumsum_from_nth : forall l acc k, (k < length l)%nat ->
  nth k (cumsum_from QN acc l) 0 == acc + csum l (S k).
Proof.
  induction l as [|x r IH]; intros acc k Hk; cbn [length] in Hk; [lia|].
  change (cumsum_from QN acc (x :: r)) with ((acc + x) :: cumsum_from QN (acc + x) r).
  change (csum (x :: r) (S k)) with (x + csum r k).
  destruct k as [|k].
  - cbn [nth csum]. lra.
  - cbn [nth]. rewrite IH by lia. lra.
Qed.

Lemma cumsum_nth : forall l k, (k < length l)%nat ->
  nth k (cumsum QN l) 0 == csum l (S k).
Proof.
  intros [|x r] k Hk; cbn [length] in Hk; [lia|].
  change (cumsum QN (x :: r)) with (x :: cumsum_from QN x r).
  change (csum (x :: r) (S k)) with (x + csum r k).
  destruct k as [|k].
  - cbn [nth csum]. lra.
  - cbn [nth]. rewrite cumsum_from_nth by lia. lra.
Qed.

Lemma cumsum_from_length : forall l acc, length (cumsum_from QN acc l) = length l.
Proof. induction l; intros; simpl; auto. Qed.
Lemma cumsum_length : forall l, length (cumsum QN l) = length l.
Proof. intros [|x r]; simpl; auto. rewrite cumsum_from_length. reflexivity. Qed.

Lemma csum_step : forall l k, (k < length l)%nat -> csum l (S k) == csum l k + nth k l 0.
Proof.
  induction l as [|x r IH]; intros k Hk; cbn [length] in Hk; [lia|].
  change (csum (x :: r) (S k)) with (x + csum r k).
  destruct k as [|k].
  - cbn [csum nth]. lra.
  - change (csum (x :: r) (S k)) with (x + csum r k). cbn [nth].
    rewrite IH by lia. lra.
Qed.

Lemma csum_nonneg_step : forall l k, nonneg l -> csum l k <= csum l (S k).
Proof.
  induction l as [|x r IH]; intros k Hnn.
  - destruct k; cbn [csum]; lra.
  - assert (Hr : nonneg r) by (intros y Hy; apply Hnn; right; exact Hy).
    assert (Hx : 0 <= x) by (apply Hnn; left; reflexivity).
    change (csum (x :: r) (S k)) with (x + csum r k).
    destruct k as [|k].
    + cbn [csum]. lra.
    + change (csum (x :: r) (S k)) with (x + csum r k).
      pose proof (IH k Hr). lra.
Qed.

Lemma csum_mono : forall l, nonneg l -> forall i j, (i <= j)%nat -> csum l i <= csum l j.
Proof.
  intros l Hnn i j Hij. induction Hij as [|j Hij IH]; [lra|].
  pose proof (csum_nonneg_step l j Hnn). lra.
Qed.

(* prefix_lt on a list whose entries are described by a monotone function *)
Lemma prefix_lt_mono :
  forall (l : list Q) v k,
    (forall i j, (i <= j < length l)%nat -> nth i l 0 <= nth j l 0) ->
    (k <= length l)%nat ->
    (prefix_lt QN l v = k <->
     (forall i, (i < k)%nat -> nth i l 0 < v) /\ ((k < length l)%nat -> v <= nth k l 0)).
Proof.
  intros l v k Hm Hk.
  destruct (prefix_lt_spec QN l v 0) as (A & B & C). change (T QN) with Q in *. split.
  - intros E; subst k. split.
    + intros i Hi. apply Qltb_true. apply (B i Hi).
    + intros Hlt. apply Qltb_false. apply (C Hlt).
  - intros (P1 & P2).
    destruct (Nat.lt_trichotomy (prefix_lt QN l v) k) as [Hlt|[E|Hgt]]; [|exact E|].
    + exfalso. assert (Hl : (prefix_lt QN l v < length l)%nat) by lia.
      specialize (C Hl). apply Qltb_false in C. specialize (P1 _ Hlt). lra.
    + exfalso. assert (Hl : (k < length l)%nat) by lia.
      specialize (P2 Hl). specialize (B k Hgt). apply Qltb_true in B. lra.
Qed.

Lemma cumsum_sorted l : nonneg l ->
  forall i j, (i <= j < length (cumsum QN l))%nat ->
              nth i (cumsum QN l) 0 <= nth j (cumsum QN l) 0.
Proof.
  intros Hnn i j Hij. rewrite cumsum_length in Hij.
  rewrite !cumsum_nth by lia. apply csum_mono; [exact Hnn|lia].
Qed.

Lemma last_nth (l : list Q) d : last l d = nth (length l - 1) l d.
Proof.
  induction l as [|x r IH]; simpl; auto.
  destruct r as [|y r']; simpl in *; auto. rewrite IH. rewrite Nat.sub_0_r. reflexivity.
Qed.

Lemma last_cumsum (probs : list Q) :
  (0 < length probs)%nat -> last (cumsum QN probs) 0 == csum probs (length probs).
Proof.
  intros H. rewrite last_nth, cumsum_length.
  assert (X : (length probs - 1 < length probs)%nat) by lia.
  pose proof (cumsum_nth probs _ X) as Y. rewrite Y.
  replace (S (length probs - 1)) with (length probs) by lia. reflexivity.
Qed.

(* The rule: with v = total * u, channel k is chosen iff
   cum_{k-1} < v <= cum_k  (no lower condition for k = 0). *)
Lemma which_rule :
  forall probs u k, nonneg probs -> (k < length probs)%nat ->
    let total := csum probs (length probs) in
    (which_of QN probs u = k <->
     (forall i, (i < k)%nat -> csum probs (S i) < total * u) /\ total * u <= csum probs (S k)).
Proof.
  intros probs u k Hnn Hk total. unfold which_of.
  assert (Hlen : length (cumsum QN probs) = length probs) by apply cumsum_length.
  assert (Hlast : last (cumsum QN probs) 0 == total) by (apply last_cumsum; lia).
  change (zero QN) with 0. change (mul QN) with Qmult. change (T QN) with Q in *.
  rewrite (prefix_lt_mono (cumsum QN probs) _ k (cumsum_sorted probs Hnn)) by lia.
  assert (Hn : forall i, (i < length probs)%nat -> nth i (cumsum QN probs) 0 == csum probs (S i)).
  { intros i Hi. exact (cumsum_nth probs i Hi). }
  split; intros (P1 & P2); split.
  - intros i Hi. specialize (P1 i Hi). rewrite (Hn i ltac:(lia)) in P1.
    rewrite Hlast in P1. exact P1.
  - assert (Hk' : (k < length (cumsum QN probs))%nat) by (rewrite cumsum_length; exact Hk).
    specialize (P2 Hk').
    rewrite (Hn k Hk) in P2. rewrite Hlast in P2. exact P2.
  - intros i Hi. rewrite (Hn i ltac:(lia)). rewrite Hlast. apply P1; exact Hi.
  - intros _. rewrite (Hn k Hk). rewrite Hlast. exact P2.
Qed.

(* a channel is always found when u < 1, and a channel with zero rate is
   never chosen when u > 0 *)
Lemma which_in_range :
  forall probs u, nonneg probs -> 0 < csum probs (length probs) -> 0 <= u < 1 ->
    (which_of QN probs u < length probs)%nat.
Proof.
  intros probs u Hnn Htot Hu. unfold which_of.
  assert (Hp : (0 < length probs)%nat).
  { destruct probs; cbn [length csum] in *; [lra|lia]. }
  assert (Hlast : last (cumsum QN probs) 0 == csum probs (length probs)) by (apply last_cumsum; lia).
  assert (Hn1 : nth (length probs - 1) (cumsum QN probs) 0 == csum probs (length probs)).
  { assert (X : (length probs - 1 < length probs)%nat) by lia.
    pose proof (cumsum_nth probs _ X) as Y. rewrite Y.
    replace (S (length probs - 1)) with (length probs) by lia. reflexivity. }
  destruct (prefix_lt_spec QN (cumsum QN probs)
              (mul QN (last (cumsum QN probs) (zero QN)) u) (zero QN)) as (A & B & _).
  set (p := prefix_lt QN _ _) in *.
  rewrite cumsum_length in A.
  change (T QN) with Q in *. change (zero QN) with 0 in *. change (mul QN) with Qmult in *.
  destruct (Nat.eq_dec p (length probs)) as [E|NE]; [|lia].
  exfalso.
  assert (Hi : (length probs - 1 < p)%nat) by lia.
  specialize (B _ Hi). apply Qltb_true in B.
  rewrite Hn1, Hlast in B.
  assert (csum probs (length probs) * u <= csum probs (length probs) * 1).
  { apply Qmult_le_l; lra. }
  lra.
Qed.

Lemma which_rate_positive :
  forall probs u k, nonneg probs -> (k < length probs)%nat ->
    0 < csum probs (length probs) * u ->
    which_of QN probs u = k -> 0 < nth k probs 0.
Proof.
  intros probs u k Hnn Hk Hv E.
  apply (which_rule probs u k Hnn Hk) in E. destruct E as (P1 & P2).
  pose proof (csum_step probs k Hk) as S1. rewrite S1 in P2.
  destruct k as [|k].
  - cbn [csum] in P2. lra.
  - specialize (P1 k ltac:(lia)). lra.
Qed.

(* ------------------------------------------------- improved sampling *)
(* the threshold map u -> u (1 - p0) + p0 of set_state: it maps [0,1) onto
   [p0,1), is strictly increasing, and the preimage of [a,b) has length
   (b - a)/(1 - p0): uniform thresholds conditioned on >= p0 *)
Lemma floor_map_range p0 u :
  0 <= p0 < 1 -> 0 <= u < 1 -> p0 <= u * (1 - p0) + p0 < 1.
Proof. intros Hp Hu. split; nra. Qed.

Lemma floor_map_inverse p0 x :
  0 <= p0 < 1 -> p0 <= x < 1 ->
  let u := (x - p0) / (1 - p0) in 0 <= u < 1 /\ u * (1 - p0) + p0 == x.
Proof.
  intros Hp Hx u. unfold u. split; [split|].
  - apply Qle_shift_div_l; lra.
  - apply Qlt_shift_div_r; lra.
  - field. lra.
Qed.

Lemma floor_map_measure p0 a b u :
  0 <= p0 < 1 ->
  (a <= u * (1 - p0) + p0 < b <-> (a - p0) / (1 - p0) <= u < (b - p0) / (1 - p0)).
Proof.
  intros Hp. assert (H1 : 0 < 1 - p0) by lra. split; intros (A & B); split.
  - apply Qle_shift_div_r; lra.
  - apply Qlt_shift_div_l; lra.
  - assert ((a - p0) / (1 - p0) * (1 - p0) <= u * (1 - p0)) by (apply Qmult_le_r; lra).
    assert ((a - p0) / (1 - p0) * (1 - p0) == a - p0) by (field; lra). lra.
  - assert (u * (1 - p0) < (b - p0) / (1 - p0) * (1 - p0)) by (apply Qmult_lt_r; lra).
    assert ((b - p0) / (1 - p0) * (1 - p0) == b - p0) by (field; lra). lra.
Qed.

(* weighted sums of a finite family of outcomes (probability, value) *)
Fixpoint wsum (l : list (Q * Q)) : Q :=
  match l with [] => 0 | (p, x) :: r => p * x + wsum r end.
Fixpoint psum (l : list (Q * Q)) : Q :=
  match l with [] => 0 | (p, _) :: r => p + psum r end.

Lemma wsum_scale c l : wsum (map (fun px => (c * fst px, snd px)) l) == c * wsum l.
Proof. induction l as [|[p x] r IH]; simpl; [lra|]. rewrite IH. lra. Qed.

(* Unbiasedness.  Outcomes with at least one jump have probabilities P_i with
   sum 1 - p0; improved sampling draws them with the conditional
   probabilities P_i / (1 - p0) and gives each the relative weight (1 - p0)
   (traj_weight), the no-jump trajectory enters once with absolute weight p0:
   the expectation of the estimator is the plain expectation. *)
Lemma improved_sampling_unbiased p0 x0 (jumps : list (Q * Q)) :
  0 <= p0 < 1 ->
  p0 * x0 + wsum (map (fun px => (fst px / (1 - p0), (1 - p0) * snd px)) jumps)
  == p0 * x0 + wsum jumps.
Proof.
  intros Hp. apply Qplus_inj_l.
  induction jumps as [|[p x] r IH]; simpl; [lra|]. rewrite IH. field. lra.
Qed.

(* the conditional probabilities are a distribution *)
Lemma conditional_total p0 (jumps : list (Q * Q)) :
  0 <= p0 < 1 -> psum jumps == 1 - p0 ->
  psum (map (fun px => (fst px / (1 - p0), snd px)) jumps) == 1.
Proof.
  intros Hp Hs.
  assert (E : psum (map (fun px => (fst px / (1 - p0), snd px)) jumps) == psum jumps / (1 - p0)).
  { clear Hs. induction jumps as [|[p x] r IH]; simpl; [field; lra|]. rewrite IH. field. lra. }
  rewrite E, Hs. field. lra.
Qed.

(* the weight rule of MCSolver._run_one_traj *)
Lemma traj_weight_spec (o : opts QN) floor :
  (traj_weight QN o floor = None <-> 1 - norm_tol QN o <= floor) /\
  (forall w, traj_weight QN o floor = Some w -> w == 1 - floor /\ floor < 1 - norm_tol QN o).
Proof.
  unfold traj_weight. simpl.
  destruct (Qle_bool (1 - norm_tol QN o) floor) eqn:E.
  - apply Qle_bool_iff in E. split; [tauto|]. intros w H; discriminate.
  - assert (~ 1 - norm_tol QN o <= floor).
    { intros C. apply Qle_bool_iff in C. congruence. }
    split; [split; [discriminate|tauto]|]. intros w H'. inversion H'. split; lra.
Qed.

(* total weight of an improved-sampling run with N sampled trajectories:
   p0 + (1/N) * sum of N relative weights (1 - p0) = 1 *)
Lemma improved_weights_total p0 (n : nat) :
  (0 < n)%nat ->
  p0 + (inject_Z (Z.of_nat n) * (1 - p0)) / inject_Z (Z.of_nat n) == 1.
Proof.
  intros Hn. field. intros C.
  assert (0 < inject_Z (Z.of_nat n)).
  { rewrite <- (Zlt_Qlt 0). lia. }
  lra.
Qed.

(* ------------------------------------------------- stagnation witness *)
(* A strictly decreasing squared norm 1 - t/2 on the step [0,1], threshold
   97/100 (crossing at t = 3/50), norm_t_tol = 1/10: the first guess is
   clamped to t_prev + norm_t_tol = 1/10, which becomes t_final; from then on
   the bracket [0, 1/10] has width exactly norm_t_tol (not < norm_t_tol) and
   every new guess is clamped to 1/10 again. *)
Definition stag_o (n : nat) : opts QN := mkOpts QN n (1#10) (1#100) (1#1000).
Definition stag_nrm2 : nat -> Q -> Q := fun _ t => 1 - (1#2) * t.
Definition stag_lg : Q -> Q := fun x => x - 1.
Definition stag_stp : nat -> Q -> Q -> Q := fun _ _ g => g.
Definition stag_tg : Q := 97#100.

(* the crossing is bracketed, within norm_t_tol after t_prev, and the norm
   is strictly decreasing: nothing is wrong with the input *)
Lemma stag_input_is_fine :
  (forall (s : nat) t u, t < u -> stag_nrm2 s u < stag_nrm2 s t) /\
  stag_nrm2 0%nat (3#50) == stag_tg /\ (3#50) - 0 < (1#10) /\
  stag_nrm2 0%nat 1 <= stag_tg /\ stag_tg < stag_nrm2 0%nat 0 /\
  (forall x y, 1 < x -> x <= y -> 0 < stag_lg x /\ stag_lg x <= stag_lg y).
Proof.
  unfold stag_nrm2, stag_tg, stag_lg. repeat split; try (intros; lra); try reflexivity.
Qed.

(* the input on which the search used to stagnate is accepted at the second
   try, with the bracket [0, 1/10] *)
Lemma stag_accepted :
  fct_loop QN (stag_o 5) stag_nrm2 stag_lg stag_stp 5 0 0 [] 1 0 1 1 (1#2) stag_tg
  = Broke QN (1#10) (1#10) 2%nat [1#10].
Proof. vm_compute. reflexivity. Qed.

(* ------------------------------------- progress of the search (any input) *)
(* Every iteration that
   does not end the loop strictly shrinks the bracket, and the time it asks
   for lies strictly inside the bracket: no request is ever repeated. *)
Section QProgress.
Variable o : opts QN.
Variable nrm2 : nat -> Q -> Q.
Variable lg : Q -> Q.
Variable stp : nat -> Q -> Q -> Q.
Hypothesis Hstp : forall sg c g, stp sg c g = g.
Hypothesis Hlgs : forall x y, 1 < x -> x < y -> 0 < lg x /\ lg x < lg y.
Hypothesis Hpos : forall sg t, 0 < nrm2 sg t.
Hypothesis Htt : 0 < norm_t_tol QN o.
Hypothesis Hnt : 0 < norm_tol QN o.

Lemma ratio_facts_strict no n tg :
  0 < n -> n < tg -> tg < no -> 1 < no / tg /\ no / tg < no / n.
Proof.
  intros Hn Hle Hlt. assert (Htg : 0 < tg) by lra. assert (Hno : 0 < no) by lra. split.
  - apply Qlt_shift_div_l; [exact Htg|lra].
  - apply Qlt_shift_div_l; [exact Hn|].
    assert (E : no / tg * n == (no * n) / tg) by (field; lra).
    rewrite E. apply Qlt_shift_div_r; [exact Htg|].
    apply Qmult_lt_l; [exact Hno|exact Hle].
Qed.

Lemma guess_strictly_inside tp tf no n tg :
  0 < n -> n < tg -> tg < no ->
  Qle_bool tf (tp + norm_t_tol QN o) = false ->
  let g := clamp_guess QN o tp (secant QN lg tp tf no n tg) in
  tp < g /\ g < tf.
Proof.
  intros Hn Hle Hlt Hw.
  assert (Hw' : tp + norm_t_tol QN o < tf).
  { apply Qnot_le_lt. intros C. apply Qle_bool_iff in C. congruence. }
  destruct (ratio_facts_strict no n tg Hn Hle Hlt) as (R1 & R2).
  destruct (Hlgs _ _ R1 R2) as (L1 & L2).
  set (l1 := lg (no / tg)) in *. set (l2 := lg (no / n)) in *.
  assert (Hd : 0 < tf - tp) by lra.
  assert (D1 : 0 < (tf - tp) * l1 / l2).
  { apply Qlt_shift_div_l; [lra|]. rewrite Qmult_0_l. apply Qmult_lt_0_compat; lra. }
  assert (D2 : (tf - tp) * l1 / l2 < tf - tp).
  { apply Qlt_shift_div_r; [lra|]. apply Qmult_lt_l; [exact Hd|exact L2]. }
  unfold clamp_guess, secant. simpl. fold l1 l2.
  destruct (Qltb (tp + (tf - tp) * l1 / l2 - tp) (norm_t_tol QN o)) eqn:E; lra.
Qed.

Definition strictly_in (tp tf r : Q) : Prop := tp < r /\ r < tf.

Lemma fct_w_progress :
  forall fuel tries sg reqs cur tp tf no n tg,
    tp <= tf -> 0 < n -> n < tg -> tg < no ->
    let res := fct_loop QN o nrm2 lg stp fuel tries sg reqs cur tp tf no n tg in
    exists new,
      (match res with Broke _ _ _ _ rq => rq | LoopEnd _ _ rq => rq end) = new ++ reqs /\
      NoDup new /\ (forall r, In r new -> strictly_in tp tf r).
Proof.
  induction fuel as [|f IH]; intros tries sg reqs cur tp tf no n tg Hb Hn Hle Hlt;
    cbn [fct_loop]; cbv zeta.
  - exists []. split; [reflexivity|]. split; [constructor|intros r []].
  - destruct (leb QN tf (add QN tp (norm_t_tol QN o))) eqn:Hw.
    + exists []. split; [reflexivity|]. split; [constructor|intros r []].
    + pose proof (guess_strictly_inside tp tf no n tg Hn Hle Hlt Hw) as G.
      set (g := clamp_guess QN o tp (secant QN lg tp tf no n tg)) in *.
      cbv zeta in G. destruct G as (G1 & G2).
      rewrite (Hstp sg cur g).
      destruct (ltb QN (absv QN (sub QN tg (nrm2 sg g))) (mul QN (norm_tol QN o) tg)) eqn:Hn2.
      * exists [g]. split; [reflexivity|]. split.
        -- constructor; [intros []|constructor].
        -- intros r [<-|[]]. split; assumption.
      * destruct (ltb QN (nrm2 sg g) tg) eqn:Hl.
        -- assert (Hl' : nrm2 sg g < tg) by (apply Qltb_true; exact Hl).
           assert (A1 : tp <= g) by lra.
           destruct (IH (S tries) sg (g :: reqs) g tp g no (nrm2 sg g) tg A1 (Hpos sg g) Hl' Hlt)
             as (new & E & ND & HI).
           exists (new ++ [g]). split; [|split].
           ++ rewrite E. rewrite <- app_assoc. reflexivity.
           ++ apply (Permutation.Permutation_NoDup (l := g :: new)).
              ** apply Permutation.Permutation_cons_append.
              ** constructor; [|exact ND]. intros Hin. destruct (HI g Hin) as (_ & C). lra.
           ++ intros r Hr. apply in_app_or in Hr. destruct Hr as [Hr|[<-|[]]].
              ** destruct (HI r Hr) as (B1 & B2). split; lra.
              ** split; assumption.
        -- assert (Hl' : tg <= nrm2 sg g) by (apply Qltb_false; exact Hl).
           assert (Hgt : tg < nrm2 sg g).
           { simpl in Hn2. apply Qltb_false in Hn2.
             assert (Hab : Qabs (tg - nrm2 sg g) == - (tg - nrm2 sg g)) by (apply Qabs_neg; lra).
             rewrite Hab in Hn2.
             assert (0 < norm_tol QN o * tg) by (apply Qmult_lt_0_compat; lra). lra. }
           assert (A1 : g <= tf) by lra.
           destruct (IH (S tries) sg (g :: reqs) g g tf (nrm2 sg g) n tg A1 Hn Hle Hgt)
             as (new & E & ND & HI).
           exists (new ++ [g]). split; [|split].
           ++ rewrite E. rewrite <- app_assoc. reflexivity.
           ++ apply (Permutation.Permutation_NoDup (l := g :: new)).
              ** apply Permutation.Permutation_cons_append.
              ** constructor; [|exact ND]. intros Hin. destruct (HI g Hin) as (C & _). lra.
           ++ intros r Hr. apply in_app_or in Hr. destruct Hr as [Hr|[<-|[]]].
              ** destruct (HI r Hr) as (B1 & B2). split; lra.
              ** split; assumption.
Qed.
End QProgress.
