(* C17 - the term cache of StochasticOpenSystem (Model/C17_sys.v, part 3):
   after set_state every term an integration step reads was computed from the
   state just set, whatever the object did before. *)
From Coq Require Import List Bool Arith Lia.
Import ListNotations.
From QV Require Import Model.C17_sys.

(* every cached term that is marked valid was computed from state k, and the
   `_a` that went into a valid L0a too *)
Definition fresh (k : nat) (c : cache) : Prop :=
  cur c = k /\
  (a_set c = true -> a_from c = k) /\ (b_set c = true -> b_from c = k) /\
  (Lb_set c = true -> Lb_from c = k /\ b_set c = true) /\
  (La_set c = true -> La_from c = k) /\
  (L0b_set c = true -> L0b_from c = k) /\ (LLb_set c = true -> LLb_from c = k) /\
  (L0a_set c = true -> L0a_from c = k /\ L0a_a_from c = k).

Lemma fresh_set_state : forall c k, fresh k (c_set_state c k).
Proof. intros c k. unfold fresh, c_set_state; simpl. repeat split; discriminate. Qed.

Ltac crush :=
  unfold fresh in *; simpl in *;
  intuition (subst; auto; try discriminate; try congruence).

Lemma fresh_compute_a : forall k c, fresh k c -> fresh k (compute_a c) /\ a_set (compute_a c) = true.
Proof. intros k c H. unfold compute_a. destruct (a_set c) eqn:E; cbv iota; [split; auto|]. split; [crush|reflexivity]. Qed.

Lemma fresh_compute_b : forall k c, fresh k c -> fresh k (compute_b c) /\ b_set (compute_b c) = true.
Proof. intros k c H. unfold compute_b. destruct (b_set c) eqn:E; cbv iota; [split; auto|]. split; [crush|reflexivity]. Qed.

Lemma compute_b_keeps_a : forall c, a_set (compute_b c) = a_set c /\ a_from (compute_b c) = a_from c.
Proof. intros c. unfold compute_b. destruct (b_set c); auto. Qed.

Lemma fresh_compute_Lb : forall k c, fresh k c -> fresh k (compute_Lb c).
Proof.
  intros k c H. unfold compute_Lb. destruct (Lb_set c) eqn:E; [exact H|].
  destruct (fresh_compute_b k c H) as [Hb Hbs]. revert Hb Hbs.
  generalize (compute_b c). intros c' Hb Hbs. crush.
Qed.

Lemma compute_Lb_keeps_a : forall c, a_set (compute_Lb c) = a_set c /\ a_from (compute_Lb c) = a_from c.
Proof.
  intros c. unfold compute_Lb. destruct (Lb_set c); [auto|]. simpl. apply compute_b_keeps_a.
Qed.

Lemma fresh_compute_La : forall k c, fresh k c -> fresh k (compute_La c).
Proof.
  intros k c H. unfold compute_La. destruct (La_set c) eqn:E; [exact H|].
  destruct (fresh_compute_b k c H) as [Hb Hbs]. revert Hb Hbs.
  generalize (compute_b c). intros c' Hb Hbs. crush.
Qed.

Lemma fresh_compute_L0b : forall k c, fresh k c -> fresh k (compute_L0b c).
Proof.
  intros k c H. unfold compute_L0b. destruct (L0b_set c) eqn:E; [exact H|].
  pose proof (fresh_compute_Lb k c H) as H1.
  destruct (fresh_compute_a k _ H1) as [H2 _]. revert H2.
  generalize (compute_a (compute_Lb c)). intros c' H2. crush.
Qed.

Lemma fresh_compute_LLb : forall k c, fresh k c -> fresh k (compute_LLb c).
Proof.
  intros k c H. unfold compute_LLb. destruct (LLb_set c) eqn:E; [exact H|].
  pose proof (fresh_compute_Lb k c H) as H1. revert H1.
  generalize (compute_Lb c). intros c' H1. crush.
Qed.

Lemma fresh_compute_L0a : forall k c, fresh k c -> fresh k (compute_L0a c).
Proof.
  intros k c H. unfold compute_L0a. destruct (L0a_set c) eqn:E; [exact H|].
  destruct (fresh_compute_a k c H) as [H1 H2]. revert H1 H2.
  generalize (compute_a c). intros c' H1 H2. crush.
Qed.

(* which accessors leave `_a` valid once it is *)
Lemma get_keeps_a_set : forall c tm, a_set c = true -> a_set (fst (c_get c tm)) = true.
Proof.
  intros c tm Ha. destruct tm; simpl.
  - unfold compute_a. now rewrite Ha.
  - now rewrite (proj1 (compute_b_keeps_a c)).
  - now rewrite (proj1 (compute_Lb_keeps_a c)).
  - unfold compute_La. destruct (La_set c); [exact Ha|]. simpl.
    now rewrite (proj1 (compute_b_keeps_a c)).
  - unfold compute_L0b. destruct (L0b_set c); [exact Ha|]. simpl.
    unfold compute_a. destruct (a_set (compute_Lb c)) eqn:E2; cbv iota; [exact E2|reflexivity].
  - unfold compute_LLb. destruct (LLb_set c); [exact Ha|]. simpl.
    now rewrite (proj1 (compute_Lb_keeps_a c)).
  - unfold compute_L0a. destruct (L0a_set c); [exact Ha|]. simpl.
    unfold compute_a. now rewrite Ha.
  - now rewrite (proj1 (compute_b_keeps_a c)).
Qed.

(* a program reads L0a only after a() in the same step *)
Fixpoint a_before_L0a (seen_a : bool) (tms : list term) : bool :=
  match tms with
  | [] => true
  | Ta :: r => a_before_L0a true r
  | TL0a :: r => seen_a && a_before_L0a seen_a r
  | _ :: r => a_before_L0a seen_a r
  end.

Lemma get_fresh : forall k c tm, fresh k c -> (tm = TL0a -> a_set c = true) ->
  fresh k (fst (c_get c tm)) /\ snd (c_get c tm) = (k, k).
Proof.
  intros k c tm H Hl. destruct tm; simpl.
  - destruct (fresh_compute_a k c H) as [H1 H2]. split; [exact H1|].
    destruct H1 as (_ & Ha & _). now rewrite (Ha H2).
  - destruct (fresh_compute_b k c H) as [H1 H2]. split; [exact H1|].
    destruct H1 as (_ & _ & Hb & _). now rewrite (Hb H2).
  - pose proof (fresh_compute_Lb k c H) as H1. split; [exact H1|].
    assert (E : Lb_set (compute_Lb c) = true) by (unfold compute_Lb; destruct (Lb_set c) eqn:E; [exact E|reflexivity]).
    destruct H1 as (_ & _ & _ & HL & _). now rewrite (proj1 (HL E)).
  - pose proof (fresh_compute_La k c H) as H1. split; [exact H1|].
    assert (E : La_set (compute_La c) = true) by (unfold compute_La; destruct (La_set c) eqn:E; [exact E|reflexivity]).
    destruct H1 as (_ & _ & _ & _ & HL & _). now rewrite (HL E).
  - pose proof (fresh_compute_L0b k c H) as H1. split; [exact H1|].
    assert (E : L0b_set (compute_L0b c) = true) by (unfold compute_L0b; destruct (L0b_set c) eqn:E; [exact E|reflexivity]).
    destruct H1 as (_ & _ & _ & _ & _ & HL & _). now rewrite (HL E).
  - pose proof (fresh_compute_LLb k c H) as H1. split; [exact H1|].
    assert (E : LLb_set (compute_LLb c) = true) by (unfold compute_LLb; destruct (LLb_set c) eqn:E; [exact E|reflexivity]).
    destruct H1 as (_ & _ & _ & _ & _ & _ & HL & _). now rewrite (HL E).
  - pose proof (fresh_compute_L0a k c H) as H1. split; [exact H1|].
    assert (E : L0a_set (compute_L0a c) = true) by (unfold compute_L0a; destruct (L0a_set c) eqn:E; [exact E|reflexivity]).
    destruct H1 as (_ & _ & _ & _ & _ & _ & _ & HL). destruct (HL E) as [A B]. now rewrite A, B.
  - destruct (fresh_compute_b k c H) as [H1 H2]. split; [exact H1|].
    destruct H1 as (_ & _ & Hb & _). now rewrite (Hb H2).
Qed.

Lemma run_gets_fresh : forall k tms c seen,
  fresh k c -> (seen = true -> a_set c = true) -> a_before_L0a seen tms = true ->
  snd (c_run c (map Get tms)) = map (fun _ => Some (k, k)) tms.
Proof.
  intros k tms. induction tms as [|tm r IH]; intros c seen H Hs Hp; [reflexivity|].
  cbn [map c_run].
  assert (Hl : tm = TL0a -> a_set c = true).
  { intros ->. simpl in Hp. apply andb_prop in Hp. apply Hs, Hp. }
  destruct (get_fresh k c tm H Hl) as [H1 H2].
  destruct (c_get c tm) as [c1 v] eqn:E. cbn [fst snd] in H1, H2. subst v.
  assert (Hnext : exists seen', a_before_L0a seen' r = true /\ (seen' = true -> a_set c1 = true)).
  { assert (Hk : a_set c = true -> a_set c1 = true).
    { intros Ha. pose proof (get_keeps_a_set c tm Ha) as G. now rewrite E in G. }
    destruct tm; simpl in Hp;
      try (exists seen; split; [exact Hp|intros X; apply Hk, Hs, X]).
    - exists true. split; [exact Hp|]. intros _.
      assert (G : a_set (fst (c_get c Ta)) = true) by (simpl; apply fresh_compute_a with (k := k); exact H).
      now rewrite E in G.
    - apply andb_prop in Hp. exists seen. split; [apply Hp|intros X; apply Hk, Hs, X]. }
  destruct Hnext as (seen' & Hp' & Hs').
  specialize (IH c1 seen' H1 Hs' Hp').
  destruct (c_run c1 (map Get r)) as [c2 out]. cbn [snd] in *. now rewrite IH.
Qed.

(* the statement used in Props: after set_state k - on ANY cache, i.e. after
   any history - a program that calls a() before L0a() reads only terms
   computed from state k *)
Lemma step_reads_current_state : forall (c : cache) k tms,
  a_before_L0a false tms = true ->
  snd (c_run c (SetState k :: map Get tms)) = None :: map (fun _ => Some (k, k)) tms.
Proof.
  intros c k tms Hp. cbn [c_run].
  pose proof (run_gets_fresh k tms (c_set_state c k) false (fresh_set_state c k)
                (fun X => False_ind _ (Bool.diff_false_true X)) Hp) as H.
  destruct (c_run (c_set_state c k) (map Get tms)) as [c2 out]. cbn [snd] in *. now rewrite H.
Qed.

(* any accessor order *)
Lemma run_gets_fresh_any : forall k tms c,
  fresh k c -> snd (c_run c (map Get tms)) = map (fun _ => Some (k, k)) tms.
Proof.
  intros k tms. induction tms as [|tm r IH]; intros c H; [reflexivity|].
  cbn [map c_run].
  assert (G : fresh k (fst (c_get c tm)) /\ snd (c_get c tm) = (k, k)).
  { destruct tm; try (apply get_fresh; [exact H|discriminate]).
    simpl. pose proof (fresh_compute_L0a k c H) as H1. split; [exact H1|].
    assert (E : L0a_set (compute_L0a c) = true)
      by (unfold compute_L0a; destruct (L0a_set c) eqn:E; [exact E|reflexivity]).
    destruct H1 as (_ & _ & _ & _ & _ & _ & _ & HL). destruct (HL E) as [A B]. now rewrite A, B. }
  destruct G as [H1 H2]. destruct (c_get c tm) as [c1 v]. cbn [fst snd] in H1, H2. subst v.
  specialize (IH c1 H1). destruct (c_run c1 (map Get r)) as [c2 out]. cbn [snd] in *. now rewrite IH.
Qed.

Lemma any_step_reads_current_state : forall (c : cache) k tms,
  snd (c_run c (SetState k :: map Get tms)) = None :: map (fun _ => Some (k, k)) tms.
Proof.
  intros c k tms. cbn [c_run].
  pose proof (run_gets_fresh_any k tms (c_set_state c k) (fresh_set_state c k)) as H.
  destruct (c_run (c_set_state c k) (map Get tms)) as [c2 out]. cbn [snd] in *. now rewrite H.
Qed.
