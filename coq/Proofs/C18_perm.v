(* C18 - permutations (_permute_wbm, _permute_rcm, _reverse_rcm) over the
   executable model: reverse o permute = id, solutions are transported, and
   the end-to-end statement for _steadystate_direct with every option. *)
From mathcomp Require Import all_ssreflect all_algebra.
From mathcomp Require Import mxtens.
From QV Require Import Base.MxHerm Model.C18 Proofs.C18 Proofs.C18_bridge.

Set Implicit Arguments.
Unset Strict Implicit.
Unset Printing Implicit Defensive.
Import GRing.Theory.

Section SeqPerm.
Variable N : nat.
Implicit Types (p : seq nat) (k : nat).
Definition is_perm (p : seq nat) : Prop := perm_eq p (iota 0 N).

Lemma is_perm_uniq p : is_perm p -> uniq p.
Proof. by move=> H; rewrite (perm_uniq H) iota_uniq. Qed.
Lemma is_perm_size p : is_perm p -> size p = N.
Proof. by move=> H; rewrite (perm_size H) size_iota. Qed.
Lemma is_perm_mem p k : is_perm p -> (k \in p) = (k < N).
Proof. by move=> H; rewrite (perm_mem H) mem_iota add0n. Qed.

Lemma index_inj_in p : {in p &, injective (index^~ p)}.
Proof.
move=> a b ain bin E.
by rewrite -(nth_index 0 ain) -(nth_index 0 bin) E.
Qed.

Lemma argsort_uniq p : is_perm p -> uniq (argsort p).
Proof.
move=> H; rewrite /argsort /mkseq map_inj_in_uniq ?iota_uniq //.
move=> a b; rewrite !mem_iota !add0n (is_perm_size H) /= => aN bN.
by apply: index_inj_in; rewrite is_perm_mem.
Qed.

Lemma argsort_size p : size (argsort p) = size p.
Proof. by rewrite size_mkseq. Qed.

(* argsort p is the inverse permutation: position of k in argsort p is p[k] *)
Lemma index_argsort p k : is_perm p -> k < N -> index k (argsort p) = nth 0 p k.
Proof.
move=> H kN.
have sz := is_perm_size H.
have jN : nth 0 p k < N by rewrite -(is_perm_mem _ H) mem_nth // sz.
have E : nth 0 (argsort p) (nth 0 p k) = k.
  by rewrite nth_mkseq ?sz // index_uniq ?sz // is_perm_uniq.
by rewrite -[X in index X _]E index_uniq ?argsort_size ?sz // argsort_uniq.
Qed.

Lemma argsort_perm p : is_perm p -> is_perm (argsort p).
Proof.
move=> H; have sz := is_perm_size H.
apply: uniq_perm; rewrite ?argsort_uniq ?iota_uniq //.
have sub : {subset argsort p <= iota 0 N}.
  move=> i /mapP[k]; rewrite !mem_iota !add0n sz /= => kN ->.
  by rewrite -sz index_mem is_perm_mem.
have le : size (iota 0 N) <= size (argsort p) by rewrite size_iota argsort_size sz.
by have [_ E] := uniq_min_size (argsort_uniq H) sub le.
Qed.

Lemma nth_argsort p k : is_perm p -> k < N -> nth 0 (argsort p) k = index k p.
Proof. by move=> H kN; rewrite nth_mkseq // is_perm_size. Qed.

Lemma argsortK p : is_perm p -> argsort (argsort p) = p.
Proof.
move=> H; have sz := is_perm_size H.
apply: (@eq_from_nth _ 0); first by rewrite !argsort_size.
move=> k; rewrite !argsort_size sz => kN.
by rewrite (nth_argsort (argsort_perm H)) // index_argsort.
Qed.

Section Vec.
Variable T : Type.
Implicit Types (x : fvec T).

(* _reverse_rcm undoes the row permutation of _permute_rcm, on every vector *)
Lemma reverse_permute p x k : is_perm p -> k < N ->
  reverse_rcm (perm_rows p x) p k = x k.
Proof.
move=> H kN; rewrite /reverse_rcm /perm_rows index_argsort //.
by rewrite index_uniq ?is_perm_size ?is_perm_uniq.
Qed.

Lemma permute_reverse p x k : is_perm p -> k < N ->
  perm_rows p (reverse_rcm x p) k = x k.
Proof.
move=> H kN; rewrite /reverse_rcm /perm_rows.
have iN : index k p < N by rewrite -(is_perm_size H) index_mem is_perm_mem.
by rewrite index_argsort // nth_index // is_perm_mem.
Qed.
End Vec.
End SeqPerm.

Section Transport.
Variable R : fieldType.
Local Open Scope ring_scope.
Variable N : nat.
Local Notation mulv := (@fmulv R 0 +%R *%R N).
Implicit Types (L : fmx R) (x b : fvec R) (p : seq nat).

Lemma mulvE L x i : mulv L x i = \sum_(0 <= k < N) L i k * x k.
Proof. by rewrite /fmulv fsumE big_mkord. Qed.

Lemma mulv_ext L x y i : (forall k, (k < N)%N -> x k = y k) -> mulv L x i = mulv L y i.
Proof.
move=> E; rewrite !mulvE.
by apply: eq_big_nat => k /andP[_ kN]; rewrite E.
Qed.

(* full (row and column) permutation is equivariant *)
Lemma perm_full_mulv p L x i : is_perm N p ->
  mulv (perm_full p p L) (perm_rows p x) i = perm_rows p (mulv L x) i.
Proof.
move=> H; rewrite /perm_rows /perm_full !mulvE.
have sz := is_perm_size H.
rewrite [in LHS]/index_iota subn0 (perm_big p) /=; last by rewrite perm_sym.
rewrite (big_nth 0%N) sz.
apply: eq_big_nat => k /andP[_ kN].
by rewrite index_uniq ?sz ?(is_perm_uniq H).
Qed.

(* every index below N is hit by index^~ p *)
Lemma index_onto p m : is_perm N p -> (m < N)%N ->
  exists2 i, (i < N)%N & index i p = m.
Proof.
move=> H mN; exists (nth 0%N p m).
  by rewrite -(is_perm_mem _ H) mem_nth // (is_perm_size H).
by rewrite index_uniq ?(is_perm_size H) ?(is_perm_uniq H).
Qed.

Definition solves L x b : Prop := forall i, (i < N)%N -> mulv L x i = b i.

(* _permute_rcm + solve + _reverse_rcm *)
Lemma rcm_transport r L b x' :
  is_perm N r ->
  let '(L', b', perm) := permute_rcm r L b in
  solves L' x' b' -> solves L (reverse_rcm x' perm) b.
Proof.
move=> Hr /=; set perm := argsort r.
have Hp : is_perm N perm by apply: argsort_perm.
move=> S m mN; have [i iN <-] := index_onto Hp mN.
have := S i iN.
rewrite (@mulv_ext _ x' (perm_rows perm (reverse_rcm x' perm))); last first.
  by move=> k kN; rewrite (permute_reverse _ Hp).
by rewrite perm_full_mulv.
Qed.

(* _permute_wbm: rows only, the solution is unchanged *)
Lemma wbm_transport m L b x :
  is_perm N m ->
  let '(L', b') := permute_wbm m L b in
  solves L' x b' -> solves L x b.
Proof.
move=> Hm /=; set perm := argsort m.
have Hp : is_perm N perm by apply: argsort_perm.
move=> S k kN; have [i iN <-] := index_onto Hp kN.
by have := S i iN; rewrite /perm_rows_mx /perm_rows /fmulv.
Qed.

End Transport.

(* ------------------------------------------------------------------------ *)
(* End to end: _steadystate_direct with every permutation option, solver as
   oracle (x' is ANY vector satisfying the system it was handed).            *)
Section DirectEndToEnd.
Variable R : fieldType.
Variable conj : {rmorphism R -> R}.
Hypothesis conjK : involutive conj.
Local Open Scope ring_scope.
Variable n' : nat.
Local Notation n := n'.+1.
Local Notation NN := (n * n)%N.

Definition opt_perm (o : option (seq nat)) : Prop :=
  match o with Some p => is_perm NN p | None => True end.

Lemma solves_bridge (Lf : fmx R) (xf bf : fvec R) :
  solves NN Lf xf bf ->
  mx_of_fn NN NN Lf *m col_of_fn NN xf = col_of_fn NN bf.
Proof.
move=> S; apply/colP => i; rewrite !mxE -(S i) // mulvE big_mkord.
by apply: eq_bigr => k _; rewrite !mxE.
Qed.

Lemma direct_system_transport (w : R) (Lf : fmx R) wbm rcm (x' : fvec R) :
  opt_perm wbm -> opt_perm rcm ->
  let '(L3, b3, perm) := direct_system 0 1 +%R *%R n w Lf wbm rcm in
  solves NN L3 x' b3 ->
  solves NN (direct_L 0 1 +%R *%R n w Lf)
         (match perm with Some p => reverse_rcm x' p | None => x' end)
         (direct_b 0 w).
Proof.
rewrite /direct_system.
case: wbm => [m|] Hm; case: rcm => [r|] Hr /=.
- move=> S; have := @rcm_transport R NN r _ _ x' Hr; rewrite /permute_rcm => /(_ _ _ S) S2.
  by have := @wbm_transport R NN m _ _ _ Hm; rewrite /permute_wbm; apply.
- by move=> S; have := @wbm_transport R NN m _ _ _ Hm; rewrite /permute_wbm; apply.
- by move=> S; have := @rcm_transport R NN r _ _ x' Hr; rewrite /permute_rcm; apply.
- by [].
Qed.

Lemma direct_end_to_end (w : R) (Lf : fmx R) wbm rcm (x' : fvec R) :
  opt_perm wbm -> opt_perm rcm -> w != 0 ->
  tp (mx_of_fn NN NN Lf) ->
  let '(L3, b3, perm) := direct_system 0 1 +%R *%R n w Lf wbm rcm in
  solves NN L3 x' b3 ->
  let x := col_of_fn NN (match perm with Some p => reverse_rcm x' p | None => x' end) in
  \tr (unvec x) = 1 /\ mx_of_fn NN NN Lf *m x = 0.
Proof.
move=> Hm Hr w0 Ltp.
have := @direct_system_transport w Lf wbm rcm x' Hm Hr.
case: (direct_system _ _ _ _ _ _ _ _ _) => [[L3 b3] perm] T S.
have := solves_bridge (T S); rewrite direct_L_bridge direct_b_bridge.
exact: direct_sound.
Qed.

Lemma direct_end_to_end_rho (w : R) (Lf : fmx R) wbm rcm (x' : fvec R) :
  opt_perm wbm -> opt_perm rcm -> w != 0 -> (2%:R : R) != 0 ->
  tp (mx_of_fn NN NN Lf) -> hp conj (mx_of_fn NN NN Lf) ->
  let '(L3, b3, perm) := direct_system 0 1 +%R *%R n w Lf wbm rcm in
  solves NN L3 x' b3 ->
  let rho := 2%:R^-1 *: mx_of_fn n n (direct_post2 +%R conj n x' perm) in
  [/\ dag conj rho = rho, \tr rho = 1 & mx_of_fn NN NN Lf *m cvec rho = 0].
Proof.
move=> Hm Hr w0 two Ltp Lhp.
have := @direct_system_transport w Lf wbm rcm x' Hm Hr.
case: (direct_system _ _ _ _ _ _ _ _ _) => [[L3 b3] perm] T S.
have := solves_bridge (T S); rewrite direct_L_bridge direct_b_bridge => Hx.
have := direct_result conjK Ltp w0 Lhp two Hx.
by rewrite /direct_post2 herm2_bridge unstack_bridge.
Qed.

End DirectEndToEnd.
