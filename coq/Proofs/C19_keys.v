(* Proofs for C19, part 5: the (row, col) keys of the operators collected by
   _GatherHEOMRHS are pairwise different (NoDup form). *)
From Coq Require Import List ZArith Bool Arith Lia.
Import ListNotations.
From QV Require Import Model.C19 Proofs.C19 Proofs.C19_enum Proofs.C19_gen.

Lemma NoDup_flat_map_disj {A B} (f : A -> list B) (xs : list A) :
  NoDup xs -> (forall x, In x xs -> NoDup (f x)) ->
  (forall x y b, In x xs -> In y xs -> x <> y -> In b (f x) -> ~ In b (f y)) ->
  NoDup (flat_map f xs).
Proof.
  induction 1 as [|a xs Ha ND IH]; intros Hf Hd; simpl; [constructor|].
  apply NoDup_app_disj.
  - apply Hf. now left.
  - apply IH.
    + intros x Hx. apply Hf. now right.
    + intros x y b Hx Hy. apply Hd; now right.
  - intros b Hb Hb2. apply in_flat_map in Hb2. destruct Hb2 as (y & Hy & Hby).
    apply (Hd a y b); try assumption; [now left|now right|].
    intros ->. contradiction.
Qed.

Lemma NoDup_map_of {A B K} (g : A -> B) (f : A -> K) (l : list A) :
  NoDup (map g l) ->
  (forall a b, In a l -> In b l -> f a = f b -> g a = g b) ->
  NoDup (map f l).
Proof.
  induction l as [|a l IH]; simpl; intros ND Hinj; [constructor|].
  inversion ND as [|x xs Hx ND']; subst. constructor.
  - intros Hin. apply in_map_iff in Hin. destruct Hin as (b & E & Hb).
    apply Hx. rewrite (Hinj a b); [now apply in_map|now left|now right|now symmetry].
  - apply IH; [assumption|]. intros x y Hx' Hy'. apply Hinj; now right.
Qed.

(* tags of the operators added for one label *)
Definition label_tags (dims : list nat) (D : nat) (n : label) : list btag :=
  TGradN n ::
  flat_map (fun k =>
    (match ados_next dims D n k with Some _ => [TNext n k] | None => [] end) ++
    (match ados_prev n k with Some _ => [TPrev n k] | None => [] end))
    (seq 0 (length dims)).

Lemma map_snd_rhs_ops_gen dims D (L labels : list label) :
  map snd (flat_map (rhs_ops_label dims D L) labels) = flat_map (label_tags dims D) labels.
Proof.
  induction labels as [|n l IH]; [reflexivity|].
  cbn [flat_map]. rewrite map_app. f_equal; [|exact IH].
  unfold rhs_ops_label, label_tags. cbn [map snd]. f_equal.
  generalize (seq 0 (length dims)) as ks. induction ks as [|k ks IHk]; [reflexivity|].
  cbn [flat_map]. rewrite map_app. f_equal; [|exact IHk].
  destruct (ados_next dims D n k); destruct (ados_prev n k); reflexivity.
Qed.

Lemma map_snd_rhs_ops dims D labels :
  map snd (rhs_ops dims D labels) = flat_map (label_tags dims D) labels.
Proof. apply map_snd_rhs_ops_gen. Qed.

Lemma label_tags_row dims D n t : In t (label_tags dims D n) -> tag_row t = n.
Proof.
  unfold label_tags. intros [<-|H]; [reflexivity|].
  apply in_flat_map in H. destruct H as (k & _ & H). apply in_app_iff in H.
  destruct H as [H|H].
  - destruct (ados_next dims D n k); [destruct H as [<-|[]]; reflexivity|destruct H].
  - destruct (ados_prev n k); [destruct H as [<-|[]]; reflexivity|destruct H].
Qed.

Lemma label_tags_NoDup dims D n : NoDup (label_tags dims D n).
Proof.
  unfold label_tags. constructor.
  - intros H. apply in_flat_map in H. destruct H as (k & _ & H). apply in_app_iff in H.
    destruct H as [H|H].
    + destruct (ados_next dims D n k); [destruct H as [H|[]]; discriminate|destruct H].
    + destruct (ados_prev n k); [destruct H as [H|[]]; discriminate|destruct H].
  - apply NoDup_flat_map_disj.
    + apply seq_NoDup.
    + intros k _. destruct (ados_next dims D n k); destruct (ados_prev n k); simpl;
        repeat constructor; simpl; try tauto. intros [H|[]]. discriminate.
    + intros k k' b _ _ Hne Hb Hb'.
      apply in_app_iff in Hb. apply in_app_iff in Hb'.
      destruct Hb as [Hb|Hb]; destruct Hb' as [Hb'|Hb'];
        repeat match goal with
        | H : In _ (match ?x with Some _ => _ | None => _ end) |- _ =>
            destruct x; [destruct H as [H|[]]|destruct H]
        end; congruence.
Qed.

Lemma tags_NoDup dims D labels :
  NoDup labels -> NoDup (map snd (rhs_ops dims D labels)).
Proof.
  intros ND. rewrite map_snd_rhs_ops. apply NoDup_flat_map_disj.
  - assumption.
  - intros n _. apply label_tags_NoDup.
  - intros n n' t _ _ Hne Ht Ht'. apply label_tags_row in Ht. apply label_tags_row in Ht'.
    congruence.
Qed.

(* the keys handed to the sort / to _from_csr_blocks are pairwise different *)
Lemma keys_NoDup dims D :
  NoDup (map blk_key (rhs_ops dims D (enum_spec dims D))).
Proof.
  apply (NoDup_map_of snd).
  - apply tags_NoDup. apply enum_spec_NoDup.
  - intros a b Ha Hb E.
    destruct (blocks_lookup_total dims D a Ha) as (r & c & K & _).
    eapply blocks_no_overlap; try eassumption. now rewrite <- E.
Qed.
