(* C17 - the order-1.5 update language of Model/C17_o15.v: for every
   well-formed program (statement lists that mention only the loop variables
   bound where they stand) the step is determined by dw_i, dz_i for
   i < num_ops. *)
From Coq Require Import List ZArith Bool Arith Lia.
Import ListNotations.
From QV Require Import Model.C17_sde Model.C17_o15 Proofs.C17_sde.

Section Determined15.
  Context {K V : Type} (A : alg K V) (third : K) (Sy : sys15 K V).
  Variables (state : V) (dt : K) (dw1 dz1 dw2 dz2 : nat -> K).
  Hypothesis agree : forall i, i < n15 Sy -> dw1 i = dw2 i /\ dz1 i = dz2 i.

  (* the loop variables listed in `allowed` hold indices below num_ops *)
  Definition bounded (allowed : list ix) (e : env) : Prop :=
    forall v, ix_in allowed v = true -> look e v < n15 Sy.

  Lemma eval_cx_agree : forall allowed e c,
    bounded allowed e -> cx_ok allowed c = true ->
    eval_cx A third dt dw1 dz1 e c = eval_cx A third dt dw2 dz2 e c.
  Proof.
    intros allowed e c Hb. induction c as [| v | v | | | | a IHa b IHb | a IHa b IHb];
      simpl; intros Hok; try reflexivity.
    - apply (agree _ (Hb v Hok)).
    - apply (agree _ (Hb v Hok)).
    - apply andb_prop in Hok. destruct Hok as [Ha Hb']. now rewrite IHa, IHb.
    - apply andb_prop in Hok. destruct Hok as [Ha Hb']. now rewrite IHa, IHb.
  Qed.

  Lemma run_stmts_agree : forall allowed e l out,
    bounded allowed e -> stmts_ok allowed l = true ->
    run_stmts A third Sy state dt dw1 dz1 e l out
    = run_stmts A third Sy state dt dw2 dz2 e l out.
  Proof.
    intros allowed e l out Hb Hok. unfold run_stmts.
    apply fold_left_ext_in. intros s o Hs.
    unfold stmts_ok in Hok. rewrite forallb_forall in Hok.
    specialize (Hok s Hs). apply andb_prop in Hok. destruct Hok as [_ Hc].
    now rewrite (eval_cx_agree allowed e (snd s) Hb Hc).
  Qed.

  Lemma bounded_nil : forall e, bounded [] e.
  Proof. intros e v H. discriminate. Qed.

  Lemma bounded_i : forall i, i < n15 Sy -> bounded [I0] (i, 0, 0).
  Proof. intros i Hi v H. destruct v; simpl in *; try discriminate. exact Hi. Qed.

  Lemma bounded_ij : forall i j, i < n15 Sy -> j < n15 Sy -> bounded [I0; I1] (i, j, 0).
  Proof. intros i j Hi Hj v H. destruct v; simpl in *; try discriminate; assumption. Qed.

  Lemma bounded_ijk : forall i j k, i < n15 Sy -> j < n15 Sy -> k < n15 Sy ->
    bounded [I0; I1; I2] (i, j, k).
  Proof. intros i j k Hi Hj Hk v H. destruct v; simpl in *; assumption. Qed.

  Lemma step15_determined : forall (p : prog) (zero : V),
    prog_ok p = true ->
    step15 A third Sy state dt dw1 dz1 p zero = step15 A third Sy state dt dw2 dz2 p zero.
  Proof.
    intros p zero Hok. unfold prog_ok in Hok.
    apply andb_prop in Hok. destruct Hok as [Hok H3].
    apply andb_prop in Hok. destruct Hok as [Hok H2].
    apply andb_prop in Hok. destruct Hok as [H0 H1].
    unfold step15.
    rewrite (run_stmts_agree [] (0, 0, 0) (p_pre p) zero (bounded_nil _) H0).
    apply fold_left_ext_in. intros i out Hi. apply in_seq in Hi.
    rewrite (run_stmts_agree [I0] (i, 0, 0) (p_i p) out (bounded_i i ltac:(lia)) H1).
    apply fold_left_ext_in. intros j out' Hj. apply in_seq in Hj.
    rewrite (run_stmts_agree [I0; I1] (i, j, 0) (p_ij p) out'
               (bounded_ij i j ltac:(lia) ltac:(lia)) H2).
    apply fold_left_ext_in. intros k out'' Hk. apply in_seq in Hk.
    apply (run_stmts_agree [I0; I1; I2] (i, j, k) (p_ijk p) out'').
    - apply bounded_ijk; lia.
    - exact H3.
  Qed.
End Determined15.
