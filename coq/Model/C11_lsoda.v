(* C11 - model of the dense-output window bookkeeping of
   IntegratorScipylsoda (qutip/solver/integrator/scipy_integrator.py):
   set_state, mcstep, _one_step, _backstep with the fields _front, _back and
   the time of the wrapped scipy `ode` object.

   SciPy's lsoda is an oracle described by its documented contract:
   `ode.integrate(tout)` (itask 1) returns the solution at exactly tout; for
   tout beyond the internal time tcur it takes internal steps (the oracle
   supplies the new tcur, the size hu of the last step and the size hcur of
   the next one: rwork[12], rwork[10], rwork[11]); for tout <= tcur it
   interpolates, which needs tcur - hu <= tout; and it must not be called
   with tout equal to the current time on a freshly reset integrator (the
   call returns, but the integrator is left unusable: the next call reports
   "illegal input").  Two float expressions of the source are inputs of a
   call: fd = fl(_front - rwork[11]) and the first target p of _one_step.
   Times are an ordered type (Z, exact scaling of the doubles of a case).
   `fixed = true` is the source as it is (since commit 9575753: no integrate
   call when the restart of _backstep already stands at the requested time);
   `fixed = false` is _backstep as it was before that commit, kept to
   document the former defect and to recognise a regression.
   No proofs in this file. *)
From Coq Require Import List ZArith Bool Arith.
Import ListNotations.
Open Scope Z_scope.

Record lst := mk_lst {
  l_set : bool;       (* _is_set *)
  l_back : Z;         (* _back[0] *)
  l_front : Z;        (* _front *)
  l_t : Z;            (* _ode_solver.t *)
  l_tcur : Z;         (* lsoda internal time, rwork[12] *)
  l_hu : Z;           (* last step size, rwork[10] *)
  l_hcur : Z;         (* next step size, rwork[11] *)
  l_fresh : bool;     (* reset, no call made yet *)
  l_poison : bool     (* left unusable by a call with tout = t when fresh *)
}.

Definition l_new : lst := mk_lst false 0 0 0 0 0 0 true false.

(* set_state(t, state0) *)
Definition l_set_state (s : lst) (t : Z) : lst := mk_lst true t t t t 0 0 true false.

Definition otriple := (Z * Z * Z)%type.      (* tcur, hu, hcur after a stepping call *)

(* ode.integrate(tout): new state, raised?, contract respected? *)
Definition l_run (s : lst) (tout : Z) (o : otriple) : lst * bool * bool :=
  if l_poison s then (s, true, true)
  else if l_fresh s && (tout =? l_t s) then
    (mk_lst (l_set s) (l_back s) (l_front s) tout (l_tcur s) (l_hu s) (l_hcur s) false true,
     false, false)
  else if negb (l_fresh s) && (tout <=? l_tcur s) then
    (mk_lst (l_set s) (l_back s) (l_front s) tout (l_tcur s) (l_hu s) (l_hcur s) false false,
     false, l_tcur s - l_hu s <=? tout)
  else
    let '(tc, hu, hc) := o in
    (mk_lst (l_set s) (l_back s) (l_front s) tout tc hu hc false false, false, tout <=? tc).

Section Lsoda.
  Variable fixed : bool.

  Definition with_bf (s : lst) (b f : Z) : lst :=
    mk_lst (l_set s) b f (l_t s) (l_tcur s) (l_hu s) (l_hcur s) (l_fresh s) (l_poison s).

  (* _one_step(t); p = min(_front + safe_delta, t) *)
  Definition l_one_step (s : lst) (t p : Z) (o1 o2 : otriple) : lst * bool * bool :=
    if (l_front s <? t) && (l_front s <=? l_t s) then
      let s0 := with_bf s (l_t s) (l_front s) in
      let '(s1, r1, c1) := l_run s0 p o1 in
      if r1 then (s1, true, c1)
      else
        let s2 := with_bf s1 (l_back s1) (l_tcur s1) in
        let '(s3, r3, c3) := l_run s2 (Z.min (l_front s2) t) o2 in
        (s3, r3, c1 && c3)
    else if l_front s <? t then l_run s (l_front s) o1
    else (s, false, true).

  (* _backstep(t); fd = fl(_front - rwork[11]) *)
  Definition l_backstep (s : lst) (t fd : Z) (o1 : otriple) : lst * bool * bool :=
    if t =? l_t s then (s, false, true)
    else if fd <=? t then l_run s t o1
    else
      let s1 := l_set_state s (l_back s) in
      if fixed && (t =? l_t s1) then (s1, false, true) else l_run s1 t o1.

  (* mcstep(t) *)
  Definition l_mcstep (s : lst) (t fd p : Z) (o1 o2 : otriple) : lst * bool * bool :=
    if negb (l_set s) then (s, true, true)
    else if l_t s =? t then (s, false, true)
    else if (l_back s <=? t) && (t <=? l_front s) then l_backstep s t fd o1
    else if l_front s <? t then l_one_step s t p o1 o2
    else (s, true, true).

  Inductive lop := LSet (t : Z) | LMc (t fd p : Z) (o1 o2 : otriple).

  Definition l_do (s : lst) (o : lop) : lst * bool * bool :=
    match o with
    | LSet t => (l_set_state s t, false, true)
    | LMc t fd p o1 o2 => l_mcstep s t fd p o1 o2
    end.

  (* observed after a call: raised, then _is_set, _back, _front, ode.t *)
  Fixpoint l_trace (s : lst) (ops : list lop) : list (bool * (bool * Z * Z * Z)) :=
    match ops with
    | [] => []
    | o :: r =>
        let '(s1, raised, _) := l_do s o in
        (raised, (l_set s1, l_back s1, l_front s1, l_t s1)) :: l_trace s1 r
    end.

  Fixpoint l_final (s : lst) (ops : list lop) : lst :=
    match ops with [] => s | o :: r => l_final (fst (fst (l_do s o))) r end.

  (* every lsoda call of the history respected the contract *)
  Fixpoint l_contract (s : lst) (ops : list lop) : bool :=
    match ops with
    | [] => true
    | o :: r => snd (l_do s o) && l_contract (fst (fst (l_do s o))) r
    end.
End Lsoda.
