(* C11 - model of the validity-range bookkeeping of IntegratorKrylov
   (qutip/solver/integrator/krylov.py): _prepare, set_state, integrate and the
   `_max_step` value with its two non-finite markers (-inf: "not computed",
   +inf: "happy breakdown, valid for ever").

   The numerics are an oracle: for a state x, `ldim x` is the size of the
   tridiagonal matrix returned by _lanczos_algorithm, `bnd x` the value of
   _compute_max_step, `ev x dt` the state _compute_psi(dt) of the Krylov set
   built from x.  Times are an ordered ring (Z: the harness uses dyadic
   times and bounds scaled exactly).  Ghost fields record which state a
   finite bound was computed from, how often _compute_max_step ran, and every
   use of _compute_psi(dt) together with the bound in force.
   No proofs in this file. *)
From Coq Require Import List ZArith Bool Arith.
Import ListNotations.
Open Scope Z_scope.

Inductive bound := NegInf | PosInf | Fin (v : Z).

Definition finite (b : bound) : bool :=
  match b with Fin _ => true | _ => false end.

(* t > t0 + b  in IEEE arithmetic with infinities *)
Definition beyond (t t0 : Z) (b : bound) : bool :=
  match b with NegInf => true | PosInf => false | Fin v => t0 + v <? t end.

(* dt is inside the validity range given by b *)
Definition within (dt : Z) (b : bound) : Prop :=
  match b with NegInf => False | PosInf => True | Fin v => dt <= v end.

Inductive res (St : Type) := ROk (t : Z) (x : St) | RRaise | RGarbage.
Arguments ROk {St}. Arguments RRaise {St}. Arguments RGarbage {St}.

Section Krylov.
  Variable St : Type.
  Variable kdim : nat.           (* options['krylov_dim'] (after _prepare) *)
  Variable N : nat.              (* system.shape[0] *)
  Variable ldim : St -> nat.     (* oracle: krylov_tridiag.shape[0] *)
  Variable bnd : St -> Z.        (* oracle: _compute_max_step *)
  Variable ev : St -> Z -> St.   (* oracle: _compute_psi *)
  Variable always : bool.        (* options['always_compute_step'] *)
  Variable nsteps : nat.         (* options['nsteps'] *)

  Record kst := mk_kst {
    k_t0 : Z;                    (* _t_0 *)
    k_cur : option St;           (* the state _krylov_state was built from *)
    k_max : bound;               (* _max_step *)
    k_isset : bool;              (* _is_set *)
    k_src : option St;           (* ghost: state a finite _max_step came from *)
    k_computes : nat;            (* ghost: calls of _compute_max_step *)
    k_uses : list (Z * bound)    (* ghost: _compute_psi(dt) with the bound in
                                    force, newest first *)
  }.

  (* happy-breakdown tests: _prepare uses `<`, set_state uses `<=` *)
  Definition brk_prepare (x : St) : bool :=
    Nat.ltb (ldim x) kdim || Nat.eqb (ldim x) N.
  Definition brk_set (x : St) : bool :=
    Nat.leb (ldim x) kdim || Nat.eqb (ldim x) N.

  (* _prepare; `rand` is the random ket drawn there *)
  Definition prepare (rand : St) : kst :=
    if always then mk_kst 0 None NegInf false None 0 []
    else if brk_prepare rand then mk_kst 0 None PosInf false None 0 []
    else mk_kst 0 None (Fin (bnd rand)) false (Some rand) 1 [].

  (* set_state(t, state0) *)
  Definition set_state (s : kst) (t : Z) (x : St) : kst :=
    if brk_set x then
      mk_kst t (Some x) PosInf true None (k_computes s) (k_uses s)
    else if negb (finite (k_max s)) || always then
      mk_kst t (Some x) (Fin (bnd x)) true (Some x) (S (k_computes s)) (k_uses s)
    else
      mk_kst t (Some x) (k_max s) true (k_src s) (k_computes s) (k_uses s).

  Definition log_use (s : kst) (dt : Z) : kst :=
    mk_kst (k_t0 s) (k_cur s) (k_max s) (k_isset s) (k_src s) (k_computes s)
           ((dt, k_max s) :: k_uses s).

  (* the `while t > self._t_0 + self._max_step` loop of integrate; `step` is
     the loop counter, fuel bounds the number of iterations (at most nsteps) *)
  Fixpoint hops (fuel : nat) (s : kst) (x : St) (t : Z) (step : nat)
    : kst * option St * bool (* raised *) :=
    if beyond t (k_t0 s) (k_max s) then
      match fuel with
      | O => (s, Some x, true)
      | S f =>
          if Nat.leb nsteps (S step) then (s, Some x, true)
          else
            match k_max s with
            | Fin v =>
                let x' := ev x v in
                hops f (set_state (log_use s v) (k_t0 s + v) x') x' t (S step)
            | _ => (s, None, false)          (* -inf: NaN state, see integrate *)
            end
      end
    else (s, Some x, false).

  (* integrate(t) *)
  Definition integrate (s : kst) (t : Z) : kst * res St :=
    match k_cur s with
    | None => (s, RRaise)                    (* AttributeError: no _t_0 yet *)
    | Some x =>
        match hops nsteps s x t 0 with
        | (s1, _, true) => (s1, RRaise)      (* IntegratorException: nsteps *)
        | (s1, None, false) => (s1, RGarbage)
        | (s1, Some x1, false) =>
            let dt := t - k_t0 s1 in
            (log_use s1 dt, ROk t (ev x1 dt))
        end
    end.

  Inductive kop := KSet (t : Z) (x : St) | KInt (t : Z).

  Definition do_kop (s : kst) (o : kop) : kst * res St :=
    match o with
    | KSet t x => (set_state s t x, ROk t x)
    | KInt t => integrate s t
    end.

  Fixpoint krun (s : kst) (ops : list kop) : kst :=
    match ops with
    | [] => s
    | o :: r => krun (fst (do_kop s o)) r
    end.

  Fixpoint kresults (s : kst) (ops : list kop) : list (res St) :=
    match ops with
    | [] => []
    | o :: r => snd (do_kop s o) :: kresults (fst (do_kop s o)) r
    end.
End Krylov.

Arguments KSet {St}. Arguments KInt {St}.
Arguments k_t0 {St}. Arguments k_cur {St}. Arguments k_max {St}.
Arguments k_isset {St}. Arguments k_src {St}. Arguments k_computes {St}.
Arguments k_uses {St}.

(* Executable instance for the trace correspondence: a state is the list of
   oracle answers the implementation gave for it and for its successors along
   the hops: (ldim, bnd) of this state, then of the state after the first
   hop, ... *)
Definition ost := list (nat * Z).
Definition o_ldim (x : ost) : nat := match x with (l, _) :: _ => l | [] => O end.
Definition o_bnd (x : ost) : Z := match x with (_, b) :: _ => b | [] => 1 end.
Definition o_ev (x : ost) (_ : Z) : ost := tl x.

(* what the harness observes after every call:
   raised/garbage code, _t_0, _max_step, _is_set, number of
   _compute_max_step calls so far *)
Definition kview (r : kst ost * res ost) : Z * Z * bound * bool * nat :=
  let s := fst r in
  ((match snd r with ROk _ _ => 0 | RRaise => 1 | RGarbage => 2 end),
   k_t0 s, k_max s, k_isset s, k_computes s).

Fixpoint ktrace (kdim N : nat) (always : bool) (nsteps : nat)
    (s : kst ost) (ops : list (kop ost)) : list (Z * Z * bound * bool * nat) :=
  match ops with
  | [] => []
  | o :: r =>
      let x := do_kop ost kdim N o_ldim o_bnd o_ev always nsteps s o in
      kview x :: ktrace kdim N always nsteps (fst x) r
  end.
