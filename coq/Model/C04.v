(* C04 - library calls do not modify the objects handed to them.

   Model (tier B): a heap of cells, a mini imperative IR for the
   aliasing-relevant part of a Python function body, its executable semantics
   with *effect summaries* for callees, and a checker `params_preserved`.

   Heap.  A location is a natural number; a cell maps field names to
   locations (`hp st l f`).  One cell stands for one Python object together
   with the containers it owns exclusively (a QobjEvo with its `elements`
   list and feedback dicts, a Qobj with its data buffer, a dict, a list);
   the field "[]" stands for "an item of this container".  `nx st` is the
   allocation pointer.

   IR (generated from the qutip source by tools/tx_c04_alias.py; three-address
   form, every operand is a variable):
     x := y | x := y.f | x := (y or z) | x := call{summary}(args)
     x.f := y          attribute / item store (writes the cell of x)
     s1 ; s2 | if * then s1 else s2 | while * do s | return
   Branch and loop conditions are not interpreted: an oracle decides, so
   every path through the body is covered.

   Effect summary of a callee (source: SUMMARIES table of the translator,
   each entry confirmed on real objects by tools/c04.py):
     mut : list (k, W)     the callee may overwrite the fields W of the cell
                           of argument k (W containing "*": every field)
                           ("mutates self" is k = 0, "mutates arg k")
     ret : RNew F          returns a new object; its fields in F hold new
                           objects, the other fields hold anything (this is
                           "stores arg k uncopied": the content is chosen by
                           the oracle and may be any existing object)
           RArg k          returns (an alias of) argument k
           ROld            returns some existing object (oracle)

   exec is total: it takes fuel and, when the fuel runs out, stops with the
   state reached so far (status Aborted).  A theorem for all fuel therefore
   also speaks about every prefix of an execution (an exception raised at
   any point).  *)
From Coq Require Import List String Bool Arith NArith.
Import ListNotations.
Open Scope string_scope.

Definition var := string.
Definition field := string.
Definition loc := nat.

Inductive ret :=
| RNew (F : list field)
| RArg (k : nat)
| ROld.

Inductive expr :=
| EVar (x : var)
| ELoad (x : var) (f : field)
| EChoice (x y : var)
| ECall (mut : list (nat * list field)) (r : ret) (args : list var).

Inductive stmt :=
| SSkip
| SAssign (x : var) (e : expr)
| SStore (x : var) (f : field) (y : var)
| SSeq (a b : stmt)
| SIf (a b : stmt)
| SLoop (b : stmt)
| SReturn.

Definition ENew := ECall [] (RNew []) [].
Definition EOld := ECall [] ROld [].

Fixpoint seqs (l : list stmt) : stmt :=
  match l with
  | [] => SSkip
  | [s] => s
  | s :: t => SSeq s (seqs t)
  end.

(* ------------------------------------------------------------------ state *)
Record state := mkst {
  hp : loc -> field -> loc;
  nx : nat;
  env : var -> loc;
  cnt : nat;                 (* number of oracle questions asked so far *)
  dirty : list loc           (* log of written cells (used only to find witnesses) *)
}.

Record oracle := mkorc {
  oloc : nat -> field -> loc;     (* contents written by callees / returned old objects *)
  obit : nat -> bool              (* branch and loop decisions *)
}.

Inductive status := Normal | Returned | Aborted.

Definition memf (f : field) (l : list field) : bool := existsb (String.eqb f) l.

Definition tick (st : state) : state :=
  mkst (hp st) (nx st) (env st) (S (cnt st)) (dirty st).

Definition set_env (st : state) (x : var) (v : loc) : state :=
  mkst (hp st) (nx st) (fun y => if String.eqb y x then v else env st y)
       (cnt st) (dirty st).

(* x.f := v *)
Definition upd (st : state) (l : loc) (f : field) (v : loc) : state :=
  mkst (fun l' f' => if Nat.eqb l' l && String.eqb f' f then v else hp st l' f')
       (nx st) (env st) (cnt st) (l :: dirty st).

(* a callee overwrites the fields W of the cell l ("*" in W: all fields) *)
Definition inW (f : field) (W : list field) : bool := memf "*" W || memf f W.

Definition havoc (st : state) (l : loc) (W : list field)
           (g : field -> loc) : state :=
  mkst (fun l' f' => if Nat.eqb l' l && inW f' W then g f'
                     else hp st l' f')
       (nx st) (env st) (S (cnt st)) (l :: dirty st).

(* allocation of a new cell: fields in F point to new objects (modelled by
   the cell itself), the others hold what the oracle says *)
Definition alloc (st : state) (F : list field) (g : field -> loc)
  : loc * state :=
  let l := nx st in
  (l, mkst (fun l' f' => if Nat.eqb l' l then (if memf f' F then l else g f')
                         else hp st l' f')
           (S l) (env st) (S (cnt st)) (dirty st)).

Fixpoint do_mut (O : oracle) (mut : list (nat * list field))
         (args : list var) (st : state) : state :=
  match mut with
  | [] => st
  | (k, W) :: m =>
      do_mut O m args
             (havoc st (env st (nth k args "")) W (oloc O (cnt st)))
  end.

Definition eval (O : oracle) (e : expr) (st : state) : loc * state :=
  match e with
  | EVar x => (env st x, st)
  | ELoad x f => (hp st (env st x) f, st)
  | EChoice x y => ((if obit O (cnt st) then env st x else env st y), tick st)
  | ECall mut r args =>
      let st1 := do_mut O mut args st in
      match r with
      | RNew F => alloc st1 F (oloc O (cnt st1))
      | RArg k => (env st1 (nth k args ""), st1)
      | ROld => (oloc O (cnt st1) "", tick st1)
      end
  end.

Fixpoint exec (O : oracle) (fuel : nat) (s : stmt) (st : state)
  : state * status :=
  match fuel with
  | 0 => (st, Aborted)
  | S n =>
      match s with
      | SSkip => (st, Normal)
      | SReturn => (st, Returned)
      | SAssign x e => let (v, st1) := eval O e st in (set_env st1 x v, Normal)
      | SStore x f y => (upd st (env st x) f (env st y), Normal)
      | SSeq a b =>
          let (st1, r) := exec O n a st in
          match r with Normal => exec O n b st1 | _ => (st1, r) end
      | SIf a b =>
          if obit O (cnt st) then exec O n a (tick st)
          else exec O n b (tick st)
      | SLoop b =>
          if obit O (cnt st) then
            let (st1, r) := exec O n b (tick st) in
            match r with Normal => exec O n (SLoop b) st1 | _ => (st1, r) end
          else (tick st, Normal)
      end
  end.

(* --------------------------------------------------------------- checker *)
(* abstract environment: x bound to F means "x certainly points to an object
   created during this call (or to an owned parameter), and its fields in F
   certainly hold such objects too"; x unbound means "x may point to
   anything, in particular to an object of the caller". *)
Definition aenv := list (var * list field).

Fixpoint alookup (s : aenv) (x : var) : option (list field) :=
  match s with
  | [] => None
  | (y, F) :: t => if String.eqb x y then Some F else alookup t x
  end.

Definition remove_key (x : var) (s : aenv) : aenv :=
  filter (fun p => negb (String.eqb x (fst p))) s.

Definition aset (s : aenv) (x : var) (a : option (list field)) : aenv :=
  match a with
  | Some F => (x, F) :: remove_key x s
  | None => remove_key x s
  end.

Definition inter (a b : list field) : list field :=
  filter (fun f => memf f b) a.

Definition forget_all (W : list field) (s : aenv) : aenv :=
  map (fun p => (fst p, filter (fun f => negb (inW f W)) (snd p))) s.

Definition drop_field_all (f : field) (s : aenv) : aenv :=
  map (fun p => (fst p, filter (fun g => negb (String.eqb g f)) (snd p))) s.

Definition ajoin_val (a b : option (list field)) : option (list field) :=
  match a, b with
  | Some x, Some y => Some (inter x y)
  | _, _ => None
  end.

Fixpoint ajoin (s1 s2 : aenv) : aenv :=
  match s1 with
  | [] => []
  | (x, F1) :: t =>
      match alookup s2 x with
      | Some F2 => (x, inter F1 F2) :: ajoin t s2
      | None => ajoin t s2
      end
  end.

Definition subset (a b : list field) : bool := forallb (fun f => memf f b) a.

(* aleq s1 s2: s2 claims no more than s1 *)
Definition aleq (s1 s2 : aenv) : bool :=
  forallb (fun p => match alookup s1 (fst p) with
                    | Some F1 => subset (snd p) F1
                    | None => false
                    end) s2.

Fixpoint amut (mut : list (nat * list field)) (args : list var) (s : aenv)
  : option aenv :=
  match mut with
  | [] => Some s
  | (k, W) :: m =>
      match alookup s (nth k args "") with
      | Some _ => amut m args (forget_all W s)
      | None => None                  (* a callee would write a caller's object *)
      end
  end.

Definition aexpr (e : expr) (s : aenv) : option (aenv * option (list field)) :=
  match e with
  | EVar x => Some (s, alookup s x)
  | ELoad x f =>
      Some (s, match alookup s x with
               | Some F => if memf f F then Some [] else None
               | None => None
               end)
  | EChoice x y => Some (s, ajoin_val (alookup s x) (alookup s y))
  | ECall mut r args =>
      match amut mut args s with
      | None => None
      | Some s1 =>
          Some (s1, match r with
                    | RNew F => Some F
                    | RArg k => alookup s1 (nth k args "")
                    | ROld => None
                    end)
      end
  end.

Fixpoint iter_n {A} (n : nat) (f : A -> A) (a : A) : A :=
  match n with 0 => a | S k => iter_n k f (f a) end.

Definition LOOP_ITERS := 6.

(* the statement never completes normally (it ends in return / raise on
   every path) *)
Fixpoint always_returns (s : stmt) : bool :=
  match s with
  | SReturn => true
  | SSeq a b => always_returns a || always_returns b
  | SIf a b => always_returns a && always_returns b
  | _ => false
  end.

Fixpoint astmt (s : stmt) (a : aenv) : option aenv :=
  match s with
  | SSkip => Some a
  | SReturn => Some a
  | SAssign x e =>
      match aexpr e a with
      | Some (a1, v) => Some (aset a1 x v)
      | None => None
      end
  | SStore x f y =>
      match alookup a x with
      | None => None                  (* store into a caller's object *)
      | Some F =>
          match alookup a y with
          | Some _ => Some (aset a x (Some (f :: F)))
          | None => Some (drop_field_all f a)
          end
      end
  | SSeq s1 s2 =>
      match astmt s1 a with
      | Some a1 => astmt s2 a1
      | None => None
      end
  | SIf s1 s2 =>
      match astmt s1 a, astmt s2 a with
      | Some a1, Some a2 =>
          Some (if always_returns s1 then a2
                else if always_returns s2 then a1 else ajoin a1 a2)
      | _, _ => None
      end
  | SLoop b =>
      let step := fun c => match astmt b c with
                           | Some c' => ajoin c c'
                           | None => c
                           end in
      let inv := iter_n LOOP_ITERS step a in
      match astmt b inv with
      | Some c' => if aleq c' inv then Some inv else None
      | None => None
      end
  end.

(* a function: parameters, the subset it is allowed to modify ("owned": the
   object under construction in __init__, self of a documented in-place
   operation, an object whose ownership is handed over), each with the
   fields that hold containers owned together with it (the `elements` list
   of a QobjEvo), and its body *)
Record func := mkfunc {
  f_params : list var;
  f_owned : list (var * list field);
  f_body : stmt
}.

Definition init_aenv (owned : list (var * list field)) : aenv := owned.

Definition params_preserved (fn : func) : bool :=
  match astmt (f_body fn) (init_aenv (f_owned fn)) with
  | Some _ => true
  | None => false
  end.

(* ------------------------------------------------- concrete test harness *)
(* Standard initial state used for witnesses and for the correspondence
   runs: parameter number i lives at location i*R+1 in a region of R cells
   [i*R, i*R+R) closed under field access; owned parameters live above N0. *)
Definition R := 4.

Definition h0 : loc -> field -> loc :=
  fun l f => (l / R) * R + ((l mod R) * 3 + String.length f + 1) mod R.

Fixpoint index_of (x : var) (l : list var) (k : nat) : option nat :=
  match l with
  | [] => None
  | y :: t => if String.eqb x y then Some k else index_of x t (S k)
  end.

Definition N0 (fn : func) : nat := R * S (List.length (f_params fn)).

Definition env0 (fn : func) : var -> loc :=
  fun x =>
    match index_of x (map fst (f_owned fn)) 0 with
    | Some k => N0 fn + R * k + 1
    | None =>
        match index_of x (f_params fn) 0 with
        | Some k => R * S k + 1
        | None => 0
        end
    end.

Definition st0 (fn : func) : state :=
  mkst h0 (N0 fn + R * List.length (f_owned fn)) (env0 fn) 0 [].

(* pseudo-random decisions from a seed *)
Definition lcg_bit (seed c : nat) : bool :=
  let s := N.of_nat seed in
  let k := N.of_nat c in
  N.odd ((((s * 7919 + k * 104729 + s * k * 31 + k * k * 17) / 8) mod 1024
          / (1 + s mod 3))%N).

(* callees write the (new) location n0 into the fields they overwrite; an
   "existing object" returned by a callee is the first parameter's cell *)
Definition orc_seed (n0 seed : nat) : oracle :=
  mkorc (fun _ f => if String.eqb f "" then R + 1 else n0) (lcg_bit seed).

Definition run_fn (fn : func) (seed fuel : nat) : state * status :=
  exec (orc_seed (N0 fn) seed) fuel (f_body fn) (st0 fn).

(* first written caller cell whose content really differs *)
Definition changed_probe (fn : func) (fields : list field) (st : state)
  : option (loc * field) :=
  let olds := filter (fun l => Nat.ltb l (N0 fn)) (dirty st) in
  let cand := flat_map (fun l => map (fun f => (l, f)) fields) olds in
  find (fun p => negb (Nat.eqb (hp st (fst p) (snd p)) (h0 (fst p) (snd p))))
       cand.

Fixpoint find_seed (fn : func) (fields : list field) (fuel : nat)
         (seed n : nat) : option (nat * (loc * field)) :=
  match n with
  | 0 => None
  | S k =>
      match changed_probe fn fields (fst (run_fn fn seed fuel)) with
      | Some p => Some (seed, p)
      | None => find_seed fn fields fuel (S seed) k
      end
  end.

(* which parameters (by index) had a cell of their region written *)
Definition written_params (fn : func) (st : state) : list nat :=
  let olds := filter (fun l => Nat.ltb l (N0 fn)) (dirty st) in
  nodup Nat.eq_dec (map (fun l => l / R - 1) olds).

(* entry condition of the standard test state, decided by computation *)
Definition st0_entry_b (fn : func) : bool :=
  forallb (fun p =>
     let l := env0 fn (fst p) in
     Nat.leb (N0 fn) l && Nat.ltb l (nx (st0 fn)) &&
     forallb (fun f => Nat.leb (N0 fn) (h0 l f) && Nat.ltb (h0 l f) (nx (st0 fn)))
             (snd p)) (f_owned fn).

(* ------------------------------------------------------ sample programs *)
(* `rhs = H if c else L(H); rhs += D`  - the shape of MESolver.__init__ *)
Definition aug (x y : var) : stmt :=
  SIf (SAssign x (ECall [(0, ["*"])] (RArg 0) [x; y]))
      (SAssign x (ECall [] (RNew []) [x; y])).

Definition prog_alias_aug : func :=
  mkfunc ["H"; "D"] []
    (seqs [ SAssign "L" (ECall [] (RNew []) ["H"]);
            SAssign "rhs" (EChoice "H" "L");
            aug "rhs" "D" ]).

(* `rhs = H if c else L(H); rhs = rhs + D` *)
Definition prog_copy_add : func :=
  mkfunc ["H"; "D"] []
    (seqs [ SAssign "L" (ECall [] (RNew []) ["H"]);
            SAssign "rhs" (EChoice "H" "L");
            SAssign "rhs" (ECall [] (RNew []) ["rhs"; "D"]) ]).

(* `new = C(stats=self.stats); new.stats[k] = v` - the shape of merge *)
Definition prog_shared_dict : func :=
  mkfunc ["self"; "other"] []
    (seqs [ SAssign "s" (ELoad "self" "stats");
            SAssign "new" ENew;
            SStore "new" "stats" "s";
            SAssign "d" (ELoad "new" "stats");
            SAssign "v" ENew;
            SStore "d" "[]" "v" ]).

Definition prog_copied_dict : func :=
  mkfunc ["self"; "other"] []
    (seqs [ SAssign "s0" (ELoad "self" "stats");
            SAssign "s" (ECall [] (RNew []) ["s0"]);
            SAssign "new" ENew;
            SStore "new" "stats" "s";
            SAssign "d" (ELoad "new" "stats");
            SAssign "v" ENew;
            SStore "d" "[]" "v" ]).

(* a constructor: self is owned; copies its argument, then updates the copy
   in a loop *)
Definition prog_ctor_loop : func :=
  mkfunc ["self"; "rhs"; "ops"] [("self", [])]
    (seqs [ SAssign "c" (ECall [] (RNew ["elements"]) ["rhs"]);
            SStore "self" "rhs" "c";
            SLoop (seqs [ SAssign "op" (ELoad "ops" "[]");
                          SAssign "r" (ELoad "self" "rhs");
                          SAssign "r" (ECall [(0, ["elements"])] (RArg 0) ["r"; "op"]) ]) ]).

(* ----------------------------------------------------------- diagnostics *)
(* where does the checker reject?  (used for reports only, nothing is proved
   about it; it mirrors astmt) *)
Inductive diag := DOk (a : aenv) | DRej (what : string) (x : var) (f : field).

Fixpoint amut_diag (mut : list (nat * list field)) (args : list var) (s : aenv)
  : option var :=
  match mut with
  | [] => None
  | (k, W) :: m =>
      match alookup s (nth k args "") with
      | Some _ => amut_diag m args (forget_all W s)
      | None => Some (nth k args "")
      end
  end.

Fixpoint adiag (s : stmt) (a : aenv) : diag :=
  match s with
  | SSkip => DOk a
  | SReturn => DOk a
  | SAssign x e =>
      match aexpr e a with
      | Some (a1, v) => DOk (aset a1 x v)
      | None =>
          match e with
          | ECall mut _ args =>
              match amut_diag mut args a with
              | Some y => DRej "callee-mutates" y ""
              | None => DRej "?" x ""
              end
          | _ => DRej "?" x ""
          end
      end
  | SStore x f y =>
      match alookup a x with
      | None => DRej "store-into" x f
      | Some F =>
          match alookup a y with
          | Some _ => DOk (aset a x (Some (f :: F)))
          | None => DOk (drop_field_all f a)
          end
      end
  | SSeq s1 s2 =>
      match adiag s1 a with
      | DOk a1 => adiag s2 a1
      | r => r
      end
  | SIf s1 s2 =>
      match adiag s1 a, adiag s2 a with
      | DOk a1, DOk a2 => DOk (if always_returns s1 then a2
                               else if always_returns s2 then a1 else ajoin a1 a2)
      | DOk _, r => r
      | r, _ => r
      end
  | SLoop b =>
      let step := fun c => match astmt b c with
                           | Some c' => ajoin c c'
                           | None => c
                           end in
      let inv := iter_n LOOP_ITERS step a in
      match adiag b inv with
      | DOk c' => if aleq c' inv then DOk inv else DRej "loop-not-stable" "" ""
      | r => r
      end
  end.

Definition why_rejected (fn : func) : option (string * var * field) :=
  match adiag (f_body fn) (init_aenv (f_owned fn)) with
  | DOk _ => None
  | DRej w x f => Some (w, x, f)
  end.
