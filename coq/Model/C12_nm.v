(* Model of the trajectory-level run code of the Monte-Carlo solvers and of
   MultiTrajResult.steady_state:

     qutip/solver/mcsolve.py     MCSolver._run_one_traj  (both branches: the
                                 "dark state" branch that fills the result
                                 with zero states, and the normal branch that
                                 attaches the integrator's collapse record and
                                 rescales the weight)
     qutip/solver/nm_mcsolve.py  NonMarkovianMCSolver._run_one_traj
                                 (result.trace = [martingale.value(t) for t in tlist])
     qutip/solver/multitrajresult.py  MultiTrajResult.steady_state

   built on the Result / run-skeleton model of Model/C12.v.  The martingale
   value, the collapse record of the integrator and the zero state are
   oracles (Section variables).  No proofs in this file. *)
From Coq Require Import List ZArith Bool Arith.
Import ListNotations.
From QV Require Import Model.C12.

Section McTraj.
  Variables T S V N D W C M : Type.     (* W weights, C collapse entries, M trace values *)
  Variable expectQ : Z -> S -> V.
  Variable expectE : Z -> T -> S -> V.
  Variable callF : Z -> T -> S -> V.
  Variable rho : S -> S.
  Variable conv : S -> T -> S.
  Variable IS : Type.
  Variable restore : D -> S.
  Variable set_state : T -> D -> IS.
  Variable integrate : IS -> T -> IS * (T * D * option N).
  Variable zero_like : S -> S.                 (* qzero_like *)
  Variable collapses : D -> list T -> list C.  (* self._integrator.collapses after the run *)
  Variable wzero : W.                          (* 0. *)
  Variable wscale : W -> bool -> W.            (* weight * (1 - jump_prob_floor); the flag says
                                                  whether a floor was passed *)
  Variable wone : W.                           (* the weight 1 of MultiTrajSolver._run_one_traj *)
  Variable mart : list C -> T -> M.            (* self._martingale.value(t) given the jumps so far *)

  Record trajres := {
    tr_result : result T S V N;
    tr_collapse : list C;
    tr_weight : W;
    tr_trace : option (list M) }.      (* None: the attribute does not exist (mcsolve) *)

  (* MultiTrajSolver._run_one_traj: the state handed over is already the
     prepared data (prepare is the identity here) *)
  Definition base_run (o : opts) (e : eops) (d0 : D) (tlist : list T)
    : outcome (result T S V N) :=
    (* _initialize_run_one_traj: result = Result(e_ops, options) first, then
       self._integrator.set_state(tlist[0], ...) *)
    match new_result T S V N CResult o e [] with
    | Raise x => Raise x
    | Ok r0 =>
        match tlist with
        | [] => Raise IndexError
        | t0 :: rest =>
            let i := set_state t0 d0 in
            let r1 := add T S V N expectQ expectE callF rho conv r0 t0 (restore d0) None in
            Ok (adds T S V N expectQ expectE callF rho conv r1
                  (map (out_point T S N D restore) (integ_run T N D IS integrate i rest)))
        end
    end.

  (* MCSolver._run_one_traj *)
  Definition mc_run_one_traj (dark : bool) (floor_given : bool) (o : opts) (e : eops)
             (d0 : D) (tlist : list T) : outcome trajres :=
    if dark then
      (* jump_prob_floor >= 1 - norm_tol:
           zero = qzero_like(self._restore_state(state)); result = Result(e_ops, options)
           result.collapse = []; for t in tlist: result.add(t, zero); return seed, result, 0. *)
      match new_result T S V N CResult o e [] with
      | Raise x => Raise x
      | Ok r0 =>
          let z := zero_like (restore d0) in
          Ok {| tr_result := adds T S V N expectQ expectE callF rho conv r0
                               (map (fun t => (t, z, None)) tlist);
                tr_collapse := []; tr_weight := wzero; tr_trace := None |}
      end
    else
      match base_run o e d0 tlist with
      | Raise x => Raise x
      | Ok r => Ok {| tr_result := r; tr_collapse := collapses d0 tlist;
                      tr_weight := wscale wone floor_given; tr_trace := None |}
      end.

  (* NonMarkovianMCSolver._run_one_traj:
       seed, result, weight = super()._run_one_traj(...)
       result.trace = [self._martingale.value(t) for t in tlist]
     The martingale's jump record is cleared by the integrator's set_state and
     filled by its collapses; the dark-state branch never touches the
     integrator, so there the martingale still holds the record `prev` left
     by whatever ran before. *)
  Definition nm_run_one_traj (prev : list C) (dark : bool) (floor_given : bool) (o : opts)
             (e : eops) (d0 : D) (tlist : list T) : outcome trajres :=
    match mc_run_one_traj dark floor_given o e d0 tlist with
    | Raise x => Raise x
    | Ok tr => Ok {| tr_result := tr_result tr; tr_collapse := tr_collapse tr;
                     tr_weight := tr_weight tr;
                     tr_trace := Some (map (mart (if dark then prev else tr_collapse tr)) tlist) |}
    end.
End McTraj.

(* ---------------------------------------------------------- steady_state
   MultiTrajResult.steady_state(N):
     N = int(N) or len(self.times)
     N = len(self.times) if N > len(self.times) else N
     states = self.average_states
     if states is not None: return sum(states[-N:]) / N   else: return None
   States are integers here (the code only adds them); the division is kept
   symbolic: the value is (sum, N). *)
Inductive ssres := SSNone | SSValue (sum : Z) (n : Z) | SSZeroDiv.

(* Python slice l[-n:] *)
Definition slice_last (l : list Z) (n : Z) : list Z :=
  if (n =? 0)%Z then l
  else if (0 <? n)%Z then skipn (length l - Z.to_nat n) l
  else skipn (Z.to_nat (- n)) l.

Definition steady_state (nt : nat) (states : option (list Z)) (N : Z) : ssres :=
  let n1 := if (N =? 0)%Z then Z.of_nat nt else N in
  let n2 := if (Z.of_nat nt <? n1)%Z then Z.of_nat nt else n1 in
  match states with
  | None => SSNone
  | Some l => if (n2 =? 0)%Z then SSZeroDiv
              else SSValue (fold_right Z.add 0%Z (slice_last l n2)) n2
  end.

(* ------------------------------------------------------ executable instance *)
Definition x_obs_traj (r : outcome (trajres Z Z xval Z Z Z Z)) :=
  match r with
  | Raise x => Raise x
  | Ok tr => Ok (x_observe (tr_result _ _ _ _ _ _ _ tr), tr_collapse _ _ _ _ _ _ _ tr,
                 tr_weight _ _ _ _ _ _ _ tr, tr_trace _ _ _ _ _ _ _ tr)
  end.

(* restore d = 2d; zero_like s = -s-1; the collapse record is scripted; a
   passed floor adds 100 to the weight; martingale value = 1000 * (number of
   recorded collapses) + t *)
Definition x_nm_run (nm : bool) (dark floor_given : bool) (o : opts) (e : eops) (d0 : Z)
           (tlist : list Z) (outs : list (Z * Z * option Z)) (cols prev : list Z) :=
  x_obs_traj
    (if nm then
       nm_run_one_traj Z Z xval Z Z Z Z Z XQ XE XC x_rho x_conv (list (Z * Z * option Z))
         (fun d => (2 * d)%Z) (fun _ _ => outs) x_integrate
         (fun s => (- s - 1)%Z) (fun _ _ => cols) 0%Z
         (fun w fl => if fl then (w + 100)%Z else w) 1%Z
         (fun cs t => (1000 * Z.of_nat (length cs) + t)%Z)
         prev dark floor_given o e d0 tlist
     else
       mc_run_one_traj Z Z xval Z Z Z Z Z XQ XE XC x_rho x_conv (list (Z * Z * option Z))
         (fun d => (2 * d)%Z) (fun _ _ => outs) x_integrate
         (fun s => (- s - 1)%Z) (fun _ _ => cols) 0%Z
         (fun w fl => if fl then (w + 100)%Z else w) 1%Z
         dark floor_given o e d0 tlist).
