(* C11 - model of the bookkeeping of Explicit_RungeKutta
   (qutip/solver/integrator/explicit_rk.pyx): set_initial_value (work
   buffers self.k, window reset) and integrate(t, step) (dense-output window
   _t_prev <= _t <= _t_front, status codes).

   The numerics are an oracle: every accepted step of _step_in_err moves the
   front of the window to a time supplied by the oracle stream `fronts`
   (strictly later than the old front); states are represented by the time
   they stand for (ghost field r_ytag) and by their shape.  Times are an
   ordered type (Z: the harness scales the dyadic doubles of a case to
   integers exactly).  No proofs in this file. *)
From Coq Require Import List ZArith Bool Arith.
Import ListNotations.
Open Scope Z_scope.

Definition shape := (Z * Z)%type.
Definition shape_eqb (a b : shape) : bool := (fst a =? fst b) && (snd a =? snd b).

(* Status enum of explicit_rk.pxd *)
Definition AT_FRONT := 2.
Definition INTERPOLATED := 1.
Definition NORMAL := 0.
Definition TOO_MUCH_WORK := -1.
Definition OUTSIDE_RANGE := -3.
Definition NOT_INITIATED := -4.

Record rk := mk_rk {
  r_init : bool;        (* _y_prev is not None *)
  r_t : Z;              (* _t *)
  r_prev : Z;           (* _t_prev *)
  r_front : Z;          (* _t_front *)
  r_shape : shape;      (* shape of _y *)
  r_k : list shape;     (* shapes of the stage buffers self.k *)
  r_status : Z;         (* _status *)
  r_ytag : Z            (* ghost: the time the state _y stands for *)
}.

(* Explicit_RungeKutta.__init__ : k = [], _y_prev = None *)
Definition rk_new : rk := mk_rk false 0 0 0 (0, 0) [] NORMAL 0.

Section RK.
  Variable nstage : nat.          (* rk_extra_step *)
  Variable adaptive : bool.       (* error coefficients given, first_step = 0 *)
  Variable dense : bool.          (* the tableau has dense-output coefficients
                                     (`bi is not None`; true for vern7/vern9):
                                     denseout_order is initialised *)
  Variable interp_opt : bool.     (* the constructor argument `interpolate` *)
  Variable old_rule : bool.       (* false: the source as it is; true:
                                     set_initial_value as it was before commit
                                     abf9216 (self.k only appended to), kept
                                     to document the former defect and to
                                     recognise a regression *)

  (* _init_coeff: self.interpolate = bi is not None and self.interpolate *)
  Definition interpolate : bool := dense && interp_opt.

  (* the stage buffers the step functions write into are k[0..nstage) *)
  Definition buffers_ok (k : list shape) (shp : shape) : bool :=
    Nat.leb nstage (length k) && forallb (fun x => shape_eqb x shp) (firstn nstage k).

  (* set_initial_value(y0, t): returns the new state and whether it raised
     (matmul_data into a buffer of another shape, in _estimate_first_step) *)
  Definition set_initial_value (s : rk) (shp : shape) (t : Z) : rk * bool :=
    let k' := (if old_rule then r_k s else []) ++ repeat shp nstage in
    let s' := mk_rk true t t t shp k' (r_status s) t in
    (s', adaptive && negb (buffers_ok k' shp)).

  Definition set_status (s : rk) (c : Z) : rk :=
    mk_rk (r_init s) (r_t s) (r_prev s) (r_front s) (r_shape s) (r_k s) c (r_ytag s).
  Definition set_t (s : rk) (t : Z) : rk :=
    mk_rk (r_init s) t (r_prev s) (r_front s) (r_shape s) (r_k s) (r_status s) t.
  (* _t := t; _y := _interpolate_step(t): the dense-output order is
     initialised whenever the tableau has dense-output coefficients (since
     commit f48d557 also with interpolate=False); a tableau without them
     (rk4, euler: not reachable from the solvers) leaves every b_factor at 0
     and the "interpolated" state is _y_prev *)
  Definition set_t_interp (s : rk) (t : Z) : rk :=
    mk_rk (r_init s) t (r_prev s) (r_front s) (r_shape s) (r_k s) (r_status s)
          (if dense then t else r_prev s).
  Definition set_prev (s : rk) (p : Z) : rk :=
    mk_rk (r_init s) (r_t s) p (r_front s) (r_shape s) (r_k s) (r_status s) (r_ytag s).
  Definition set_front (s : rk) (f : Z) : rk :=
    mk_rk (r_init s) (r_t s) (r_prev s) f (r_shape s) (r_k s) (r_status s) (r_ytag s).

  (* the `while self._t_front < t` loop; one oracle value per accepted step;
     an exhausted oracle stands for the work budget running out *)
  Fixpoint loop (s : rk) (t : Z) (step : bool) (fronts : list Z) : rk * bool :=
    if r_front s <? t then
      match fronts with
      | [] => (set_status s TOO_MUCH_WORK, false)
      | f :: rest =>
          let s1 := set_prev s (r_front s) in
          if negb (buffers_ok (r_k s1) (r_shape s1)) then (s1, true)
          else
            let s2 := set_front s1 f in
            if step then (s2, false) else loop s2 t step rest
      end
    else (s, false).

  (* integrate(t, step) *)
  Definition integrate (s : rk) (t : Z) (step : bool) (fronts : list Z) : rk * bool :=
    if negb (r_init s) then (set_status s NOT_INITIATED, false)
    else
      let s0 := set_status s NORMAL in
      if t =? r_t s0 then (s0, false)
      else if t <? r_prev s0 then (set_status s0 OUTSIDE_RANGE, false)
      else
        let s1 := if interpolate && (t <? r_front s0) then set_t s0 t else s0 in
        let t' := if step && (r_t s1 <? r_front s1) && (r_front s1 <? t)
                  then r_front s1 else t in
        let '(s2, raised) := loop s1 t' step fronts in
        if raised then (s2, true)
        else if r_status s2 <? 0 then (s2, false)
        else if t' <? r_front s2 then (set_status (set_t_interp s2 t') INTERPOLATED, false)
        else (set_status (set_t s2 (r_front s2)) AT_FRONT, false).

  (* operations of a history *)
  Inductive op :=
  | OSet (shp : shape) (t : Z)
  | OInt (t : Z) (step : bool) (fronts : list Z).

  Definition do_op (s : rk) (o : op) : rk * bool :=
    match o with
    | OSet shp t => set_initial_value s shp t
    | OInt t step fronts => integrate s t step fronts
    end.

  (* what Python can see after a call: raised?, status, t, t_prev, t_front *)
  Definition view (r : rk * bool) : bool * Z * Z * Z * Z :=
    (snd r, r_status (fst r), r_t (fst r), r_prev (fst r), r_front (fst r)).

  (* _status is not touched by set_initial_value (it is stale until the next
     integrate): it is not part of what a caller observes after a set *)
  Definition view_op (o : op) (r : rk * bool) : bool * Z * Z * Z * Z :=
    match o with
    | OSet _ _ => view (set_status (fst r) NORMAL, snd r)
    | OInt _ _ _ => view r
    end.

  Fixpoint trace (s : rk) (ops : list op) : list (bool * Z * Z * Z * Z) :=
    match ops with
    | [] => []
    | o :: r => let x := do_op s o in view_op o x :: trace (fst x) r
    end.
End RK.
