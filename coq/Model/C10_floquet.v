(* C10 - time bookkeeping of qutip.solver.floquet.fsesolve
   (qutip/solver/floquet.py, after a3f3594):

       f_coeff = floquet_basis.to_floquet_basis(psi0, tlist[0])
       for t in tlist:
           state_t = floquet_basis.from_floquet_basis(f_coeff, t)
           result.add(t, state_t)

   The Floquet basis itself (modes and quasi-energies from the one-period
   propagator) is numerics and enters as two oracle functions
     to_fb psi t   = coefficients of psi in the Floquet states at time t
     from_fb f t   = state with coefficients f at time t
   Like every other solver (Solver.run, FMESolver.run) the initial state is
   the state at tlist[0].
   No proofs in this file. *)
From Coq Require Import List ZArith.
Import ListNotations.

Section FSE.
Variables S F T : Type.
Variable to_fb : S -> T -> F.
Variable from_fb : F -> T -> S.

(* the code as it is.  An empty time list makes tlist[0] raise IndexError:
   None *)
Definition fsesolve (psi0 : S) (tlist : list T) : option (list S) :=
  match tlist with
  | [] => None
  | t0 :: _ => let f := to_fb psi0 t0 in Some (map (from_fb f) tlist)
  end.

(* the rule before a3f3594: to_floquet_basis(psi0) with the default t = 0 *)
Variable tzero : T.
Definition old_fsesolve (psi0 : S) (tlist : list T) : list S :=
  let f := to_fb psi0 tzero in map (from_fb f) tlist.
End FSE.

(* a concrete Floquet-like instance used for non-vacuity and for the
   correspondence harness: one quasi-energy, phases written additively
   (state = phase angle, coefficient = phase at time 0) *)
Definition toy_to (v t : Z) : Z := (v - t)%Z.
Definition toy_from (f t : Z) : Z := (f + t)%Z.
Definition toy_fsesolve (v : Z) (ts : list Z) : option (list Z) :=
  fsesolve Z Z Z toy_to toy_from v ts.
Definition toy_old_fsesolve (v : Z) (ts : list Z) : list Z :=
  old_fsesolve Z Z Z toy_to toy_from 0%Z v ts.
