(* C10 - time bookkeeping of qutip.solver.floquet.fsesolve
   (qutip/solver/floquet.py):

       f_coeff = floquet_basis.to_floquet_basis(psi0)        # default t = 0
       for t in tlist:
           state_t = floquet_basis.from_floquet_basis(f_coeff, t)
           result.add(t, state_t)

   The Floquet basis itself (modes and quasi-energies from the one-period
   propagator) is numerics and enters as two oracle functions
     to_fb psi t   = coefficients of psi in the Floquet states at time t
     from_fb f t   = state with coefficients f at time t
   Every other solver (Solver.run, FMESolver.run: to_floquet_basis(state0,
   tlist[0])) takes the initial state as the state at tlist[0].
   No proofs in this file. *)
From Coq Require Import List ZArith.
Import ListNotations.

Section FSE.
Variables S F T : Type.
Variable tzero : T.                    (* the default argument t=0 *)
Variable to_fb : S -> T -> F.
Variable from_fb : F -> T -> S.

(* the code as it is *)
Definition fsesolve (psi0 : S) (tlist : list T) : list S :=
  let f := to_fb psi0 tzero in map (from_fb f) tlist.

(* the one-token repair: to_floquet_basis(psi0, tlist[0]) *)
Definition fsesolve_at_t0 (psi0 : S) (tlist : list T) : list S :=
  match tlist with
  | [] => []
  | t0 :: _ => let f := to_fb psi0 t0 in map (from_fb f) tlist
  end.
End FSE.

(* a concrete Floquet-like instance used for the witness and for the
   correspondence harness: one quasi-energy, phases written additively
   (state = phase angle, coefficient = phase at time 0) *)
Definition toy_to (v t : Z) : Z := (v - t)%Z.
Definition toy_from (f t : Z) : Z := (f + t)%Z.
Definition toy_fsesolve (v : Z) (ts : list Z) : list Z := fsesolve Z Z Z 0%Z toy_to toy_from v ts.
Definition toy_fsesolve_at_t0 (v : Z) (ts : list Z) : list Z := fsesolve_at_t0 Z Z Z toy_to toy_from v ts.
