(* Model of the index arithmetic behind qutip's tensor-structure operations.

   Sources mirrored (line by line where it matters):
     qutip/core/data/ptrace.pyx   _parse_inputs, _populate_tensor_table, _in,
                                  _i2_k_t, ptrace_csr, ptrace_csr_dense,
                                  ptrace_dia (same index loop, other traversal),
                                  ptrace_dense (NumPy: by its documented meaning)
     qutip/core/data/permute.pyx  _Indexer.__init__ (validation, cumprod),
                                  _Indexer.single (with the early break),
                                  _Indexer.all, dimensions_csr (path selection,
                                  columns / rowonly / full / sparse-with-sentinel),
                                  dimensions_dense + indices_dense (argsort)
     qutip/core/dimensions.py     Compound.step, SuperSpace.step,
                                  Dimensions._get_tensor_shape/_get_tensor_perm
     qutip/core/tensor.py         expand_operator (new_order), tensor_swap
                                  (flat index map), _tensor_contract_single
                                  (contract_at), _tensor_contract_dense relabel
     qutip/core/superoperator.py  _to_super_of_tensor/_to_tensor_of_super
                                  permutation lists

   Indices and dimensions are nat; matrix payloads live in a carrier C
   (Section variable; instantiated with Gaussian integers Z*Z for execution).
   A sparse matrix is the list of its stored entries (row, col, value) in
   storage order; `den` is its meaning (duplicates add up, as
   csr.from_coo_pointers and the Dense `+=` do).  No proofs in this file. *)
From Coq Require Import List Arith Bool ZArith.
Import ListNotations.

(* ------------------------------------------------------------------ *)
(* mixed radix, most significant digit first (last factor is fastest) *)

Definition prod (l : list nat) : nat := fold_right Nat.mul 1 l.

Fixpoint digits (dims : list nat) (n : nat) : list nat :=
  match dims with
  | [] => []
  | _ :: t => n / prod t :: digits t (n mod prod t)
  end.

Fixpoint undigits (dims ds : list nat) : nat :=
  match dims, ds with
  | _ :: t, x :: xs => x * prod t + undigits t xs
  | _, _ => 0
  end.

(* `_in(val, vec)` *)
Definition memb (x : nat) (l : list nat) : bool := existsb (Nat.eqb x) l.

(* ------------------------------------------------------------------ *)
(* ptrace.pyx *)

(* one row of `tensor_table` (np.zeros initialised: unset columns stay 0) *)
Record trow := mkrow { f_tensor : nat; f_keep : nat; f_trace : nat }.

(* `_populate_tensor_table`: `for ii in range(num_dims - 1, -1, -1)`.
   The loop runs from the last factor to the first, so the rows of the
   factors after ii (the recursive call) are produced before row ii.
   Returns rows 'ii..' and (factor_tensor, factor_keep, factor_trace). *)
Fixpoint populate_from (ii : nat) (dims sel : list nat)
  : list trow * (nat * nat * nat) :=
  match dims with
  | [] => ([], (1, 1, 1))
  | d :: t =>
      let '(rows, (ft, fk, ftr)) := populate_from (S ii) t sel in
      if memb ii sel
      then (mkrow ft fk 0 :: rows, (ft * d, fk * d, ftr))
      else (mkrow ft 0 ftr :: rows, (ft * d, fk, ftr * d))
  end.

Definition tensor_table (dims sel : list nat) : list trow :=
  fst (populate_from 0 dims sel).
(* the return value `factor_keep` = size of the output *)
Definition keep_size (dims sel : list nat) : nat :=
  snd (fst (snd (populate_from 0 dims sel))).
Definition trace_size (dims sel : list nat) : nat :=
  snd (snd (populate_from 0 dims sel)).

(* `_i2_k_t(N, tensor_table, out)` *)
Fixpoint i2_k_t_loop (rows : list trow) (n k t : nat) : nat * nat :=
  match rows with
  | [] => (k, t)
  | r :: rest =>
      let t1 := f_tensor r in
      let t2 := n / t1 in
      i2_k_t_loop rest (n mod t1) (k + f_keep r * t2) (t + f_trace r * t2)
  end.
Definition i2_k_t (n : nat) (rows : list trow) : nat * nat :=
  i2_k_t_loop rows n 0 0.

(* `_parse_inputs` errors, canonicalised *)
Inductive perr := EValue | EIndex.

(* insertion sort = `sel.sort()` *)
Fixpoint insert_sorted (x : nat) (l : list nat) : list nat :=
  match l with
  | [] => [x]
  | y :: t => if x <=? y then x :: l else y :: insert_sorted x t
  end.
Definition sort_nat (l : list nat) : list nat := fold_right insert_sorted [] l.

(* the final loop over the sorted selection *)
Fixpoint check_sel (ndims : nat) (prev : option nat) (sel : list nat) : option perr :=
  match sel with
  | [] => None
  | s :: t =>
      if ndims <=? s then Some EIndex
      else match prev with
           | Some p => if s =? p then Some EValue else check_sel ndims (Some s) t
           | None => check_sel ndims (Some s) t
           end
  end.

Definition parse_inputs (dims sel : list nat) (nrows ncols : nat)
  : perr + list nat :=
  let sel' := sort_nat sel in
  if negb (nrows =? ncols) then inl EValue
  else if negb (nrows =? prod dims) then inl EValue
  else if existsb (fun d => d <? 1) dims then inl EValue
  else match check_sel (length dims) None sel' with
       | Some e => inl e
       | None => inr sel'
       end.

Section Payload.
  Variable C : Type.
  Variable c0 : C.
  Variable cadd : C -> C -> C.

  Definition entry : Type := (nat * nat * C)%type.

  (* meaning of a list of stored entries *)
  Fixpoint den (E : list entry) (r c : nat) : C :=
    match E with
    | [] => c0
    | (i, j, v) :: t =>
        if (i =? r) && (j =? c) then cadd v (den t r c) else den t r c
    end.

  Definition to_dense (nr nc : nat) (E : list entry) : list (list C) :=
    map (fun r => map (fun c => den E r c) (seq 0 nc)) (seq 0 nr).

  (* the double loop of ptrace_csr / ptrace_csr_dense / ptrace_dia:
     for each stored entry, `_i2_k_t` of the column and of the row; keep it
     when the traced parts agree *)
  Fixpoint ptrace_loop (tab : list trow) (E : list entry) : list entry :=
    match E with
    | [] => []
    | (row, col, v) :: t =>
        let pos_c := i2_k_t col tab in
        let pos_r := i2_k_t row tab in
        if snd pos_c =? snd pos_r
        then (fst pos_r, fst pos_c, v) :: ptrace_loop tab t
        else ptrace_loop tab t
    end.

  (* ptrace_csr / ptrace_csr_dense / ptrace_dia as a whole:
     error, or (size, entries) *)
  Definition ptrace_sparse (dims sel : list nat) (nrows ncols : nat)
             (E : list entry) : perr + (nat * list entry) :=
    match parse_inputs dims sel nrows ncols with
    | inl e => inl e
    | inr sel' =>
        if length sel' =? length dims then inr (nrows, E)
        else inr (keep_size dims sel', ptrace_loop (tensor_table dims sel') E)
    end.

  (* ---- the specification: view the matrix as a tensor with one row and
     one column index per factor, sum over the traced ones ---- *)
  Definition mask_of (ndims : nat) (sel : list nat) : list bool :=
    map (fun i => memb i sel) (seq 0 ndims).

  Fixpoint select {A} (mask : list bool) (l : list A) : list A :=
    match mask, l with
    | true :: m, x :: t => x :: select m t
    | false :: m, _ :: t => select m t
    | _, _ => []
    end.

  (* inverse of the pair (select mask, select (negb mask)) *)
  Fixpoint weave {A} (mask : list bool) (xs ys : list A) : list A :=
    match mask with
    | [] => []
    | true :: m => match xs with x :: xs' => x :: weave m xs' ys | [] => [] end
    | false :: m => match ys with y :: ys' => y :: weave m xs ys' | [] => [] end
    end.

  Definition kept_dims (dims : list nat) (mask : list bool) := select mask dims.
  Definition traced_dims (dims : list nat) (mask : list bool) :=
    select (map negb mask) dims.

  (* flat index whose kept digits are those of r and traced digits those of tau *)
  Definition merge (dims : list nat) (mask : list bool) (r tau : nat) : nat :=
    undigits dims (weave mask (digits (kept_dims dims mask) r)
                              (digits (traced_dims dims mask) tau)).

  Fixpoint sum_upto (n : nat) (f : nat -> C) : C :=
    match n with
    | O => c0
    | S k => cadd (sum_upto k f) (f k)
    end.

  Definition ptrace_spec (dims : list nat) (mask : list bool)
             (M : nat -> nat -> C) (r c : nat) : C :=
    sum_upto (prod (traced_dims dims mask))
             (fun tau => M (merge dims mask r tau) (merge dims mask c tau)).

  (* ptrace_dense (NumPy reshape/transpose/trace) by its documented meaning *)
  Definition ptrace_dense_spec (dims sel : list nat) (nrows ncols : nat)
             (E : list entry) : perr + (nat * list (list C)) :=
    match parse_inputs dims sel nrows ncols with
    | inl e => inl e
    | inr sel' =>
        let mask := mask_of (length dims) sel' in
        let K := prod (kept_dims dims mask) in
        inr (K, map (fun r => map (fun c => ptrace_spec dims mask (den E) r c)
                                  (seq 0 K)) (seq 0 K))
    end.
End Payload.

Arguments select {A} _ _.
Arguments weave {A} _ _ _.

(* ------------------------------------------------------------------ *)
(* permute.pyx *)

Definition gather (order : list nat) (l : list nat) : list nat :=
  map (fun o => nth o l 0) order.

Fixpoint suffix_prods (l : list nat) : list nat :=
  match l with
  | [] => []
  | _ :: t => prod t :: suffix_prods t
  end.

Fixpoint set_nth (l : list nat) (k x : nat) : list nat :=
  match l, k with
  | [], _ => []
  | _ :: t, O => x :: t
  | y :: t, S k' => y :: set_nth t k' x
  end.

Inductive ierr := IWrongLength | IBadElement | IDuplicate | IZeroDim | INotSquare | INotBra.

(* validation loop of `_Indexer.__init__` (tmp = seen flags) *)
Fixpoint check_order (ndims : nat) (dims : list nat) (seen : list nat)
         (order : list nat) : option ierr :=
  match order with
  | [] => None
  | o :: t =>
      if ndims <=? o then Some IBadElement
      else if memb o seen then Some IDuplicate
      else if nth o dims 0 =? 0 then Some IZeroDim
      else check_order ndims dims (o :: seen) t
  end.

(* `cumprod[order[i]] = prod new_dimensions[i+1:]`, written for i = n-1
   first and i = 0 last (fold_right applies the last pair first) *)
Definition cumprod_build (order newdims : list nat) : list nat :=
  fold_right (fun op acc => set_nth acc (fst op) (snd op))
             (repeat 0 (length order))
             (combine order (suffix_prods newdims)).

Record indexer := mkidx { ix_dims : list nat; ix_new : list nat;
                          ix_cumprod : list nat; ix_size : nat }.

Definition indexer_init (dims order : list nat) : ierr + indexer :=
  if negb (length order =? length dims) then inl IWrongLength
  else match check_order (length dims) dims [] order with
       | Some e => inl e
       | None =>
           let nd := gather order dims in
           inr (mkidx dims nd (cumprod_build order nd) (prod nd))
       end.

(* `_Indexer.single`: least significant factor first, early break *)
Fixpoint single_loop (rdc : list (nat * nat)) (idx out : nat) : nat :=
  match rdc with
  | [] => out
  | (dim, cp) :: rest =>
      let out' := out + cp * (idx mod dim) in
      let idx' := idx / dim in
      if idx' =? 0 then out' else single_loop rest idx' out'
  end.
Definition single (ix : indexer) (idx : nat) : nat :=
  single_loop (rev (combine (ix_dims ix) (ix_cumprod ix))) idx 0.
Definition all_idx (ix : indexer) : list nat := map (single ix) (seq 0 (ix_size ix)).

Section PermPayload.
  Variable C : Type.
  Variable c0 : C.
  Variable cadd : C -> C -> C.
  Notation entry := (entry C).

  (* _dimensions_csr_columns: only columns are mapped (bra) *)
  Definition perm_columns (ix : indexer) (E : list entry) : list entry :=
    map (fun e => match e with (r, c, v) => (r, single ix c, v) end) E.
  (* _indices_csr_rowonly with rows = index.all() (ket) *)
  Definition perm_rowonly (rows : list nat) (E : list entry) : list entry :=
    map (fun e => match e with (r, c, v) => (nth r rows 0, c, v) end) E.
  (* _indices_csr_full with rows = cols = index.all() *)
  Definition perm_full (rows cols : list nat) (E : list entry) : list entry :=
    map (fun e => match e with (r, c, v) => (nth r rows 0, nth c cols 0, v) end) E.

  (* _dimensions_csr_sparse: idx_lookup with a sentinel (None) for rows that
     have no stored entry; filled lazily when met as a column *)
  Definition has_row (E : list entry) (r : nat) : bool :=
    existsb (fun e => match e with (i, _, _) => i =? r end) E.
  Definition lookup_init (ix : indexer) (nrows : nat) (E : list entry)
    : list (option nat) :=
    map (fun r => if has_row E r then Some (single ix r) else None) (seq 0 nrows).
  Fixpoint set_nth_o (l : list (option nat)) (k : nat) (x : option nat) :=
    match l, k with
    | [], _ => []
    | _ :: t, O => x :: t
    | y :: t, S k' => y :: set_nth_o t k' x
    end.
  Fixpoint perm_sparse_loop (ix : indexer) (lk : list (option nat))
           (E : list entry) : list entry :=
    match E with
    | [] => []
    | (r, c, v) :: t =>
        let r' := match nth r lk None with Some x => x | None => 0 end in
        match nth c lk None with
        | Some c' => (r', c', v) :: perm_sparse_loop ix lk t
        | None => let c' := single ix c in
                  (r', c', v) :: perm_sparse_loop ix (set_nth_o lk c (Some c')) t
        end
    end.

  Inductive path := PCopy | PColumns | PRowOnly | PFull | PSparse.

  (* dimensions_csr: path selection and result *)
  Definition dimensions_csr (dims order : list nat) (nrows ncols : nat)
             (E : list entry) : ierr + (path * list entry) :=
    match indexer_init dims order with
    | inl e => inl e
    | inr ix =>
        let nnz := length E in
        if ((nrows =? 1) && (ncols =? 1)) || (nnz =? 0) then inr (PCopy, E)
        else if nrows =? 1 then inr (PColumns, perm_columns ix E)
        else if ncols =? 1 then inr (PRowOnly, perm_rowonly (all_idx ix) E)
        else if negb (nrows =? ncols) then inl INotSquare
        else if nrows <=? 2 * nnz       (* row_density >= 0.5 *)
             then inr (PFull, perm_full (all_idx ix) (all_idx ix) E)
             else inr (PSparse, perm_sparse_loop ix (lookup_init ix nrows E) E)
    end.

  (* indices_dense: `array[np.argsort(perm), :]`; argsort of a permutation is
     the position of each value *)
  Fixpoint index_of (x : nat) (l : list nat) : nat :=
    match l with
    | [] => 0
    | y :: t => if x =? y then 0 else S (index_of x t)
    end.
  Definition argsort_perm (p : list nat) : list nat :=
    map (fun v => index_of v p) (seq 0 (length p)).

  Definition dimensions_dense (dims order : list nat) (nrows ncols : nat)
             (M : list (list C)) : ierr + list (list C) :=
    match indexer_init dims order with
    | inl e => inl e
    | inr ix =>
        let p := all_idx ix in
        let ia := argsort_perm p in
        let rows := if nrows =? 1 then seq 0 nrows else ia in
        let cols := if ncols =? 1 then seq 0 ncols else ia in
        inr (map (fun r => map (fun c => nth c (nth r M []) c0) cols) rows)
    end.
End PermPayload.

(* ------------------------------------------------------------------ *)
(* dimensions.py: steps and the tensor permutation *)

(* Compound.step for a flat list of simple spaces *)
Definition steps (dims : list nat) : list nat := suffix_prods dims.
(* SuperSpace.step: stepl + [shape[0] * N for N in stepr] *)
Definition steps_super (l r : list nat) : list nat :=
  steps l ++ map (fun s => prod l * s) (steps r).

(* _tensor_order(steps, flat) = np.lexsort((flat == 1, -steps)):
   a stable sort of the positions by decreasing step; among equal steps the
   spaces that are not 1-dimensional first; otherwise original order.
   An item is (step, is_one, position). *)
Definition titem : Type := (nat * bool * nat)%type.
Definition t_step (x : titem) : nat := fst (fst x).
Definition t_one (x : titem) : bool := snd (fst x).
Definition t_pos (x : titem) : nat := snd x.

(* x may stand before y: its key is not strictly after y's *)
Definition t_le (x y : titem) : bool :=
  (t_step y <? t_step x)
  || ((t_step x =? t_step y) && (negb (t_one x) || t_one y)).

(* stable insertion sort: items are inserted from the last to the first, each
   one in front of the items it may stand before *)
Fixpoint t_insert (x : titem) (l : list titem) : list titem :=
  match l with
  | [] => [x]
  | y :: t => if t_le x y then x :: l else y :: t_insert x t
  end.
Definition t_sort (l : list titem) : list titem := fold_right t_insert [] l.

Definition t_items (st fl : list nat) : list titem :=
  map (fun p => (fst (fst p), snd (fst p) =? 1, snd p))
      (combine (combine st fl) (seq 0 (length st))).
Definition tensor_order (st fl : list nat) : list nat :=
  map t_pos (t_sort (t_items st fl)).

(* position of each value of a permutation = np.argsort of distinct keys *)
Fixpoint pos_of (x : nat) (l : list nat) : nat :=
  match l with
  | [] => 0
  | y :: t => if x =? y then 0 else S (pos_of x t)
  end.
Definition inverse_perm (p : list nat) : list nat :=
  map (fun v => pos_of v p) (seq 0 (length p)).

(* _get_tensor_shape / _get_tensor_perm for step lists stl (to), str (from)
   and flat dims fl, fr *)
Definition get_tensor_shape (stl str fl fr : list nat) : list nat :=
  gather (tensor_order stl fl) fl ++ gather (tensor_order str fr) fr.
Definition get_tensor_perm (stl str fl fr : list nat) : list nat :=
  let ol := tensor_order stl fl in
  inverse_perm (ol ++ map (fun x => x + length ol) (tensor_order str fr)).

(* ------------------------------------------------------------------ *)
(* tensor.py *)

(* expand_operator: new_order.
     new_order = [0] * N
     for i, t in enumerate(targets): new_order[t] = i
     rest_pos = [q for q in range(N) if q not in targets]
     rest_qubits = list(range(len(targets), N))
     for i, ind in enumerate(rest_pos): new_order[ind] = rest_qubits[i]   *)
Fixpoint assign_pairs (no : list nat) (pv : list (nat * nat)) : list nat :=
  match pv with
  | [] => no
  | (p, v) :: t => assign_pairs (set_nth no p v) t
  end.
Definition rest_pos (N : nat) (targets : list nat) : list nat :=
  filter (fun q => negb (memb q targets)) (seq 0 N).
Definition expand_new_order (N : nat) (targets : list nat) : list nat :=
  let no := assign_pairs (repeat 0 N) (combine targets (seq 0 (length targets))) in
  assign_pairs no (combine (rest_pos N targets)
                           (seq (length targets) (N - length targets))).

(* expand_operator's final step,
     structure = [dims[t] for t in targets] + [dims[i] for i in rest_pos]
     data = _data.permute.dimensions(out.data, structure, new_order)
   with the result labelled [dims, dims]: `structure` *)
Definition expand_pre_dims (dims targets : list nat) : list nat :=
  gather targets dims ++ gather (rest_pos (length dims) targets) dims.

(* tensor_swap: where the flat (row-major over the whole reshaped array)
   entry f of the input lands in the output.
     data.reshape(tensor_shape).transpose(perm).reshape(new 2-D shape)
   np.transpose(perm): output axis a is input axis perm[a]. *)
Definition swap_list (l : list nat) (i j : nat) : list nat :=
  set_nth (set_nth l i (nth j l 0)) j (nth i l 0).
Definition apply_swaps (l : list nat) (pairs : list (nat * nat)) : list nat :=
  fold_left (fun acc p => swap_list acc (fst p) (snd p)) pairs l.

Definition tensor_swap_index (stl str fl fr : list nat)
           (pairs : list (nat * nat)) (f : nat) : nat :=
  let tp := get_tensor_perm stl str fl fr in
  let tshape := get_tensor_shape stl str fl fr in
  let tpairs := map (fun p => (nth (fst p) tp 0, nth (snd p) tp 0)) pairs in
  let perm := apply_swaps (seq 0 (length tshape)) tpairs in
  undigits (gather perm tshape) (gather perm (digits tshape f)).

(* what it should be for kets, bras and operators, whose memory order is the
   order of flatten(dims): swap the named digits *)
Definition tensor_swap_spec (fl fr : list nat)
           (pairs : list (nat * nat)) (f : nat) : nat :=
  let d := fl ++ fr in
  let perm := apply_swaps (seq 0 (length d)) pairs in
  undigits (gather perm d) (gather perm (digits d f)).

(* _tensor_contract_single:
     contract_at = min(i, j) if abs(i - j) == 1 else 0
   and where NumPy puts the axis produced by the two index arrays in
   `arr[..., idxs, ..., idxs, ...]`: in place when they are adjacent (in
   either order), first otherwise *)
Definition absdiff (a b : nat) : nat := if a <=? b then b - a else a - b.
Definition contract_at_code (i j : nat) : nat :=
  if absdiff i j =? 1 then Nat.min i j else 0.
Definition numpy_adv_axis (i j : nat) : nat :=
  if (j =? i + 1) || (i =? j + 1) then Nat.min i j else 0.

(* _tensor_contract_dense: relabelling of the remaining axes *)
Fixpoint index_of_nat (x : nat) (l : list nat) : nat :=
  match l with
  | [] => 0
  | y :: t => if x =? y then 0 else S (index_of_nat x t)
  end.
Fixpoint remove_first (x : nat) (l : list nat) : list nat :=
  match l with
  | [] => []
  | y :: t => if x =? y then t else y :: remove_first x t
  end.
Fixpoint contract_relabel (axis : list nat) (pairs : list (nat * nat))
  : list (nat * nat) :=
  match pairs with
  | [] => []
  | (a, b) :: t =>
      (index_of_nat a axis, index_of_nat b axis)
        :: contract_relabel (remove_first b (remove_first a axis)) t
  end.

(* ------------------------------------------------------------------ *)
(* superoperator.py: reshuffle permutation lists (flattened) *)

(* _to_super_of_tensor on a Compound of SuperSpaces whose operator spaces
   have ns = [N_1; N_2; ...] factors *)
Fixpoint sot_lists (shift : nat) (ns : list nat) : list nat * list nat :=
  match ns with
  | [] => ([], [])
  | n :: t =>
      let '(a, b) := sot_lists (shift + 2 * n) t in
      (map (fun i => shift + i) (seq 0 n) ++ a,
       map (fun i => shift + n + i) (seq 0 n) ++ b)
  end.
Definition super_of_tensor_order (ns : list nat) : list nat :=
  let '(a, b) := sot_lists 0 ns in a ++ b.

(* _to_tensor_of_super on a SuperSpace over a Compound with `step` factors:
   sum([[[i], [i+step]] for i in range(step)], []) *)
Definition tensor_of_super_order (step : nat) : list nat :=
  flat_map (fun i => [i; i + step]) (seq 0 step).

(* ------------------------------------------------------------------ *)
(* Gaussian integers: the payload used when the model is executed *)
Definition G : Type := (Z * Z)%type.
Definition g0 : G := (0%Z, 0%Z).
Definition gadd (a b : G) : G := ((fst a + fst b)%Z, (snd a + snd b)%Z).

(* ------------------------------------------------------------------ *)
(* finite enumerations used by the bounded theorems *)
Fixpoint lists_over (alphabet : list nat) (len : nat) : list (list nat) :=
  match len with
  | O => [[]]
  | S k => flat_map (fun l => map (fun a => a :: l) alphabet) (lists_over alphabet k)
  end.
Definition lists_upto (alphabet : list nat) (lo hi : nat) : list (list nat) :=
  flat_map (lists_over alphabet) (seq lo (hi + 1 - lo)).
Fixpoint nodupb (l : list nat) : bool :=
  match l with [] => true | x :: t => negb (memb x t) && nodupb t end.
Definition list_eqb (a b : list nat) : bool :=
  (length a =? length b) && forallb (fun p => fst p =? snd p) (combine a b).

(* expand_operator's new_order is right for (N, targets) *)
Definition expand_ok (N : nat) (targets : list nat) : bool :=
  let no := expand_new_order N targets in
  (length no =? N) && nodupb no && forallb (fun o => o <? N) no
  && forallb (fun i => nth (nth i targets 0) no 0 =? i) (seq 0 (length targets))
  && list_eqb (gather (rest_pos N targets) no) (seq (length targets) (N - length targets)).

(* ------------------------------------------------------------------ *)
(* Kronecker products of square factors (what `tensor` builds with
   _data.kron), as functions of the flat indices; right nested, the last
   factor is the fastest *)
Section Kron.
  Variable C : Type.
  Variables c0 c1 : C.
  Variables cadd cmul : C -> C -> C.
  Definition mat : Type := nat -> nat -> C.

  Fixpoint kron_list (As : list mat) (dims : list nat) : mat :=
    match As, dims with
    | A :: As', _ :: t =>
        fun i j => cmul (A (i / prod t) (j / prod t))
                        (kron_list As' t (i mod prod t) (j mod prod t))
    | _, _ => fun _ _ => c1
    end.

  Definition mtrace (A : mat) (d : nat) : C := sum_upto C c0 cadd d (fun x => A x x).

  (* product of the traces of a list of factors *)
  Fixpoint tr_list (Bs : list mat) (ds : list nat) : C :=
    match Bs, ds with
    | B :: Bs', d :: t => cmul (mtrace B d) (tr_list Bs' t)
    | _, _ => c1
    end.

  Definition mat_of_list (M : list (list C)) : mat :=
    fun i j => nth j (nth i M []) c0.
End Kron.

Definition g1 : G := (1%Z, 0%Z).
Definition gmul (a b : G) : G :=
  ((fst a * fst b - snd a * snd b)%Z, (fst a * snd b + snd a * fst b)%Z).

(* ------------------------------------------------------------------ *)
(* _to_tensor_of_super, branch for a Compound of superoperator spaces (the
   private function only: reshuffle() never sends a Compound there).  For a
   factor over N subsystems:
     idxs = range(0, N * 2, 2)
     perm_idxs += [[i + shift] for i in idxs]
     perm_idxs += [[i + shift + 1] for i in idxs]          shift += N * 2 *)
Fixpoint tos_compound_order (shift : nat) (ns : list nat) : list nat :=
  match ns with
  | [] => []
  | n :: t =>
      map (fun i => shift + 2 * i) (seq 0 n) ++ map (fun i => shift + 2 * i + 1) (seq 0 n)
      ++ tos_compound_order (shift + 2 * n) t
  end.

Fixpoint interleave (L R : list nat) : list nat :=
  match L, R with
  | x :: l, y :: r => x :: y :: interleave l r
  | _, _ => []
  end.

(* ------------------------------------------------------------------ *)
(* partial_transpose.py *)

(* np.choose(mask, [A, B]): B where the mask is set, A elsewhere *)
Fixpoint choose (mask : list bool) (A B : list nat) : list nat :=
  match mask, A, B with
  | m :: ms, a :: As, b :: Bs => (if m then b else a) :: choose ms As Bs
  | _, _, _ => []
  end.

(* _partial_transpose_sparse: where the stored entry (m, n) is written.
   state_index_number = digits, state_number_index = undigits. *)
Definition pt_sparse_index (dims : list nat) (mask : list bool) (m n : nat) : nat * nat :=
  let A := digits dims m in
  let B := digits dims n in
  (undigits dims (choose mask A B), undigits dims (choose mask B A)).

(* _partial_transpose_dense:
     pt_dims = arange(2 nsys).reshape(2, nsys).T        pt_dims[k] = [k, nsys + k]
     pt_idx = [pt_dims[k, mask[k]] ...] ++ [pt_dims[k, 1 - mask[k]] ...]
     data.reshape(flatten(dims)).transpose(pt_idx).reshape(shape) *)
Definition pt_idx (mask : list bool) : list nat :=
  let n := length mask in
  map (fun k => if nth k mask false then n + k else k) (seq 0 n) ++
  map (fun k => if nth k mask false then k else n + k) (seq 0 n).
Definition pt_dense_index (dims : list nat) (mask : list bool) (f : nat) : nat :=
  let sh := dims ++ dims in
  undigits (gather (pt_idx mask) sh) (gather (pt_idx mask) (digits sh f)).

Section PTPayload.
  Variable C : Type.
  Definition pt_entries_sparse (dims : list nat) (mask : list bool) (E : list (entry C))
    : list (entry C) :=
    map (fun e => match e with
                  | (i, j, v) => (fst (pt_sparse_index dims mask i j),
                                  snd (pt_sparse_index dims mask i j), v)
                  end) E.
  Definition pt_entries_dense (dims : list nat) (mask : list bool) (E : list (entry C))
    : list (entry C) :=
    let N := prod dims in
    map (fun e => match e with
                  | (i, j, v) => let g := pt_dense_index dims mask (i * N + j) in
                                 (g / N, g mod N, v)
                  end) E.
End PTPayload.

(* ------------------------------------------------------------------ *)
(* subsystem_apply.py: _one_subsystem_apply with an operator channel.
     n_blks = prod(dims[:idx]); blk_sz = shape[0] // n_blks
     every (blk_r, blk_c) block is split by _block_split into d x d sub-blocks
     (d = channel.shape[0], sub-block size blk_sz // d) and _top_apply_U sets
       out[a][b] = sum_{c, e} U[a, c] * conj(U[b, e]) * block[c][e]
   Written as a function of the flat indices: (block, sub-block, offset). *)
Definition sa_blk_sz (dims : list nat) (idx : nat) : nat := prod dims / prod (firstn idx dims).
Definition sa_sub (dims : list nat) (idx : nat) : nat := sa_blk_sz dims idx / nth idx dims 1.
Definition sa_split (dims : list nat) (idx i : nat) : nat * nat * nat :=
  let bs := sa_blk_sz dims idx in
  let sub := sa_sub dims idx in
  (i / bs, (i mod bs) / sub, (i mod bs) mod sub).
Definition sa_join (dims : list nat) (idx b a l : nat) : nat :=
  b * sa_blk_sz dims idx + a * sa_sub dims idx + l.

Definition gconj (a : G) : G := (fst a, (- snd a)%Z).
Definition mget (M : list (list G)) (i j : nat) : G := nth j (nth i M []) g0.
Definition one_subsystem_apply_U (dims : list nat) (idx : nat) (U rho : list (list G))
  : list (list G) :=
  let N := prod dims in
  let d := nth idx dims 1 in
  map (fun i => map (fun j =>
      let '(bi, a, li) := sa_split dims idx i in
      let '(bj, b, lj) := sa_split dims idx j in
      sum_upto G g0 gadd d (fun c => sum_upto G g0 gadd d (fun e =>
        gmul (gmul (mget U a c) (gconj (mget U b e)))
             (mget rho (sa_join dims idx bi c li) (sa_join dims idx bj e lj)))))
    (seq 0 N)) (seq 0 N).

(* ------------------------------------------------------------------ *)
(* tensor(): `out = args[0].data; for arg in args[1:]: out = _data.kron(out, arg.data)`
   and the kron kernels (kron.pyx), rectangular factors allowed *)
Section Kron2.
  Variable C : Type.
  Variables c0 c1 : C.
  Variables cadd cmul : C -> C -> C.
  Notation mat := (mat C).

  (* meaning of _data.kron(A, B) for a right factor with nrB rows, ncB columns *)
  Definition kron2 (A B : mat) (nrB ncB : nat) : mat :=
    fun i j => cmul (A (i / nrB) (j / ncB)) (B (i mod nrB) (j mod ncB)).

  (* the loop of tensor() *)
  Fixpoint kron_left (acc : mat) (As : list mat) (rd cd : list nat) : mat :=
    match As, rd, cd with
    | A :: As', r :: rd', c :: cd' => kron_left (kron2 acc A r c) As' rd' cd'
    | _, _, _ => acc
    end.
  Definition tensor_data (As : list mat) (rd cd : list nat) : mat :=
    match As, rd, cd with
    | A :: As', _ :: rd', _ :: cd' => kron_left A As' rd' cd'
    | _, _, _ => fun _ _ => c1
    end.

  (* right-nested Kronecker product with separate row and column dims *)
  Fixpoint kron_rc (As : list mat) (rd cd : list nat) : mat :=
    match As, rd, cd with
    | A :: As', _ :: rt, _ :: ct =>
        fun i j => cmul (A (i / prod rt) (j / prod ct))
                        (kron_rc As' rt ct (i mod prod rt) (j mod prod ct))
    | _, _, _ => fun _ _ => c1
    end.

  (* kron_csr: every stored entry of the left factor with every stored entry
     of the right one:
       col = left.col * ncols_r + right.col,  row_out = row_l * nrows_r + row_r,
       data = left.data * right.data
     (storage order differs from the kernel's, the entries are the same) *)
  Definition kron_csr_entries (nrr ncr : nat) (EL ER : list (entry C)) : list (entry C) :=
    flat_map (fun el =>
      map (fun er => (fst (fst el) * nrr + fst (fst er),
                      snd (fst el) * ncr + snd (fst er),
                      cmul (snd el) (snd er))) ER) EL.
End Kron2.
