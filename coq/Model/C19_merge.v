(* C19 - model part for the merge/split intertwiner: the column of the HEOM
   generator that reads from one ADO, the label map of merging the first two
   exponents, its multinomial weights, and coefficient extraction. *)
From Coq Require Import List ZArith Bool Arith Lia.
Import ListNotations.
From QV Require Import Model.C19.

(* (a+b)! / (a! b!) by the symmetric Pascal rule *)
Fixpoint mw (a : nat) : nat -> nat :=
  match a with
  | 0 => fun _ => 1
  | S a' => fix mwb (b : nat) : nat :=
              match b with 0 => 1 | S b' => mw a' (S b') + mwb b' end
  end.

(* ADO (a, b, r...) of the un-merged hierarchy feeds ADO (a+b, r...) of the
   merged one with weight (a+b)!/(a! b!) *)
Definition merge_label (n : label) : label :=
  match n with a :: b :: r => (a + b) :: r | _ => n end.
Definition merge_weight (n : label) : nat :=
  match n with a :: b :: _ => mw a b | _ => 1 end.

Definition trow (t : btag) : label :=
  match t with TGradN n | TNext n _ | TPrev n _ => n end.

(* all operators of HEOMSolver._rhs whose block column is the ADO n':
   the diagonal block, the `next` operator of every row prev(n', k) and the
   `prev` operator of every row next(n', k) *)
Definition col_tags (dims : list nat) (D : nat) (n' : label) : list btag :=
  TGradN n' ::
  flat_map (fun k =>
    (match ados_prev n' k with Some m => [TNext m k] | None => [] end) ++
    (match ados_next dims D n' k with Some m => [TPrev m k] | None => [] end))
    (seq 0 (length dims)).

Definition sbasis_eqb (a b : sbasis) : bool :=
  match a, b with
  | BId, BId => true
  | BPre k, BPre k' | BPost k, BPost k' | BPreD k, BPreD k' | BPostD k, BPostD k' => k =? k'
  | _, _ => false
  end.

(* cached operators of the un-merged list -> those of the merged list:
   exponents 0 and 1 share one coupling operator and become exponent 0 *)
Definition cmap (b : sbasis) : sbasis :=
  match b with
  | BId => BId
  | BPre k => BPre (Nat.pred k) | BPost k => BPost (Nat.pred k)
  | BPreD k => BPreD (Nat.pred k) | BPostD k => BPostD (Nat.pred k)
  end.

Section ColSum.
Variable C : Type.
Variables (c0 c1 : C) (cadd cmul : C -> C -> C) (cneg : C -> C) (ci : C) (cconj : C -> C).

Definition coef_at (f : sbasis -> sbasis) (op : sop C) (b : sbasis) : C :=
  fold_right (fun (p : C * sbasis) acc =>
                if sbasis_eqb (f (snd p)) b then cadd (fst p) acc else acc) c0 op.

Definition opt_sop (o : option (sop C)) : sop C :=
  match o with Some s => s | None => [] end.

(* z^T (W G) e_{n'} restricted to one cached operator b: sum over the column *)
Definition col_sum (f : sbasis -> sbasis) (rowmap : label -> label) (wt : label -> nat)
           (exps : list (bexp C)) (odd : bool) (tags : list btag)
           (z : label -> C) (b : sbasis) : C :=
  fold_right (fun t acc =>
    cadd (cmul (cmul (z (rowmap (trow t))) (natC C c0 c1 cadd (wt (trow t))))
               (coef_at f (opt_sop (block_op C c0 c1 cadd cmul cneg ci cconj exps odd t)) b))
         acc) c0 tags.
End ColSum.

(* executable instance for the harness *)
Definition g_col_entries (exps : list gexp) (D : nat) (odd : bool) (n' : label)
  : list (label * sop G) :=
  map (fun t => (trow t, opt_sop G (block_op G g0 g1 gadd gmul gneg gi gconj exps odd t)))
      (col_tags (heom_dims G exps D) D n').
