(* C16 - nm_mcsolve: executable model of
     qutip/solver/nm_mcsolve.py  InfluenceMartingale.reset / initialize /
     add_collapse / value / _compute_continuous_martingale.
   Generic in the number type (Model.C16.Num) plus an equality test; run on
   IEEE doubles (PrimFloat) for the correspondence with the real class, on
   exact rationals for the theorems.  Oracles (function arguments):
     integ t1 t2   scipy.integrate.quad(rate_shift, t1, t2)[0]
     expo  x       np.exp
     rate  t i     nm_solver.rate(t, i)        (unshifted rate of channel i)
     shift t       nm_solver.rate_shift(t) *)
From Coq Require Import List Bool Arith ZArith QArith Qabs Floats.
Import ListNotations.
From QV Require Import Model.C16.
Local Open Scope nat_scope.

Section Martingale.
Variable N : Num.
Notation TT := (T N).
Variable eqb : TT -> TT -> bool.          (* Python `==` / dict key equality *)
Variable a_parameter : TT.
Variable integ : TT -> TT -> TT.
Variable expo : TT -> TT.
Variable rate : TT -> nat -> TT.
Variable shift : TT -> TT.

Record mart := mkMart {
  t_prev : option TT;             (* self._t_prev *)
  cm_prev : TT;                   (* self._continuous_martingale_at_t_prev *)
  cache : list (TT * TT);         (* self._precomputed_continuous_martingale,
                                     latest insertion first *)
  disc : list (TT * TT) }.        (* self._discrete_martingale, in order *)

(* reset(): _continuous_martingale_at_t_prev and _discrete_martingale become
   None; they are never read before initialize sets them *)
Definition m_reset (m : mart) : mart := mkMart None (one N) [] [].

(* _compute_continuous_martingale(t1, t2) *)
Definition cont (t1 t2 : TT) : TT :=
  if eqb t1 t2 then one N else expo (mul N a_parameter (integ t1 t2)).

Inductive cache_arg := Clear | Keep | Times (ts : list TT).

(* the loop of initialize over the list of times:
     mu_c1 = mu_c0 * cont(t0, t1); dict[t1] = mu_c1; t0, mu_c0 = t1, mu_c1 *)
Fixpoint precompute (t0 mu0 : TT) (ts : list TT) (acc : list (TT * TT)) : list (TT * TT) :=
  match ts with
  | [] => acc
  | t1 :: r => let mu1 := mul N mu0 (cont t0 t1) in precompute t1 mu1 r ((t1, mu1) :: acc)
  end.

Definition m_initialize (m : mart) (t0 : TT) (c : cache_arg) : mart :=
  match c with
  | Clear => mkMart (Some t0) (one N) [] []
  | Keep => mkMart (Some t0) (one N) (cache m) []
  | Times ts => mkMart (Some t0) (one N) (precompute t0 (one N) ts []) []
  end.

(* add_collapse: None = RuntimeError("The `start` method must called first.") *)
Definition m_add_collapse (m : mart) (tc : TT) (k : nat) : option mart :=
  match t_prev m with
  | None => None
  | Some _ =>
      let r := rate tc k in
      let factor := div N r (add N r (shift tc)) in
      Some (mkMart (t_prev m) (cm_prev m) (cache m) (disc m ++ [(tc, factor)]))
  end.

Fixpoint lookup_c (c : list (TT * TT)) (t : TT) : option TT :=
  match c with
  | [] => None
  | (k, v) :: r => if eqb k t then Some v else lookup_c r t
  end.

(* mu_d = 1; for time, factor in ...: if t > time: mu_d *= factor *)
Fixpoint disc_prod (acc : TT) (d : list (TT * TT)) (t : TT) : TT :=
  match d with
  | [] => acc
  | (time, factor) :: r =>
      disc_prod (if ltb N time t then mul N acc factor else acc) r t
  end.

Definition m_value (m : mart) (t : TT) : option (mart * TT) :=
  match t_prev m with
  | None => None
  | Some tp =>
      let mu_c := match lookup_c (cache m) t with
                  | Some v => v
                  | None => mul N (cm_prev m) (cont tp t)
                  end in
      let mu_d := disc_prod (one N) (disc m) t in
      Some (mkMart (Some t) mu_c (cache m) (disc m), mul N mu_d mu_c)
  end.

(* a history of calls on one InfluenceMartingale object *)
Inductive mop :=
| OReset
| OInit (t0 : TT) (c : cache_arg)
| OCollapse (tc : TT) (k : nat)
| OValue (t : TT).

(* outputs: Some v for value(), None for a call that raised *)
Fixpoint m_run (m : mart) (ops : list mop) (out : list (option TT)) : mart * list (option TT) :=
  match ops with
  | [] => (m, rev out)
  | OReset :: r => m_run (m_reset m) r out
  | OInit t0 c :: r => m_run (m_initialize m t0 c) r out
  | OCollapse tc k :: r =>
      match m_add_collapse m tc k with
      | Some m' => m_run m' r out
      | None => m_run m r (None :: out)
      end
  | OValue t :: r =>
      match m_value m t with
      | Some (m', v) => m_run m' r (Some v :: out)
      | None => m_run m r (None :: out)
      end
  end.

Definition m_new : mart := mkMart None (one N) [] [].

End Martingale.

(* ------------------------------------------------------------ instances *)
Definition f_mart_run (a : float) (t_integ : list (fkey * float)) (t_exp : list (fkey * float))
           (t_rate : list (fkey * float)) (t_shift : list (fkey * float))
           (ops : list (mop FN)) :=
  let '(m, out) :=
    m_run FN PrimFloat.eqb a
          (fun t1 t2 => lookup t_integ (0, t1, t2, 0))
          (fun x => lookup t_exp (0, x, 0%float, 0))
          (fun t i => lookup t_rate (0, t, 0%float, i))
          (fun t => lookup t_shift (0, t, 0%float, 0))
          (m_new FN) ops [] in
  (out, t_prev FN m, cm_prev FN m, rev (cache FN m), disc FN m).
