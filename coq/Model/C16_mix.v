(* C16 - mixed initial states: executable model of
     qutip/solver/multitraj.py  _InitialConditions.__init__ /
     _minimum_roundoff_ensemble / get_state_index / get_state_and_weight
   and of the weights MCSolver gives to the trajectories of a mixed ensemble
   (plain and improved sampling).  Weights are exact rationals, trajectory
   numbers natural numbers. *)
From Coq Require Import List Bool Arith ZArith QArith Qround Lia.
Import ListNotations.
Local Open Scope nat_scope.

(* an entry of `under_consideration`: (state index, weight, current number) ;
   its sort key is ratio = number / (weight * ntraj_total) *)
Record entry := mkE { e_idx : nat; e_w : Q; e_n : nat }.

Definition Qnat (n : nat) : Q := inject_Z (Z.of_nat n).
Definition ratio (ntot : nat) (e : entry) : Q := (Qnat (e_n e) / (e_w e * Qnat ntot))%Q.
Definition Qlt_bool (x y : Q) : bool := negb (Qle_bool y x).

(* bisect.insort(l, e, key=ratio): after every element whose key is <= key(e) *)
Fixpoint insort (ntot : nat) (e : entry) (l : list entry) : list entry :=
  match l with
  | [] => [e]
  | x :: r => if Qlt_bool (ratio ntot e) (ratio ntot x) then e :: x :: r
              else x :: insort ntot e r
  end.

(* int(np.ceil(weight * ntraj_total)) *)
Definition guess_of (ntot : nat) (w : Q) : nat := Z.to_nat (Qceiling (w * Qnat ntot)).

(* first loop: over the states with weight > 0, in order *)
Fixpoint first_pass (ntot : nat) (l : list (nat * Q)) (one : list nat) (uc : list entry)
         (total : nat) : list nat * list entry * nat :=
  match l with
  | [] => (one, uc, total)
  | (i, w) :: r =>
      let g := guess_of ntot w in
      if Nat.eqb g 1 then first_pass ntot r (one ++ [i]) uc (total + g)
      else first_pass ntot r one (insort ntot (mkE i w g) uc) (total + g)
  end.

(* while current_total > ntraj_total: pop the entry with the largest ratio,
   take one trajectory away from it *)
Fixpoint reduce (fuel ntot : nat) (one : list nat) (uc : list entry) (total : nat)
  : option (list nat * list entry) :=
  if Nat.leb total ntot then Some (one, uc)
  else match fuel with
       | O => None
       | S f =>
         match rev uc with
         | [] => None                            (* IndexError: pop from empty list *)
         | e :: rest_rev =>
             let uc' := rev rest_rev in
             let g := e_n e - 1 in
             if Nat.eqb g 1 then reduce f ntot (one ++ [e_idx e]) uc' (total - 1)
             else reduce f ntot one (insort ntot (mkE (e_idx e) (e_w e) g) uc') (total - 1)
         end
       end.

Fixpoint find_uc (i : nat) (uc : list entry) : option nat :=
  match uc with
  | [] => None
  | e :: r => match find_uc i r with          (* a later assignment wins *)
              | Some g => Some g
              | None => if Nat.eqb (e_idx e) i then Some (e_n e) else None
              end
  end.

(* ntraj = [0]*len; for i in one: ntraj[i] = 1; for (i,_,c,_) in uc: ntraj[i] = c *)
Definition count_of (one : list nat) (uc : list entry) (i : nat) : nat :=
  match find_uc i uc with
  | Some g => g
  | None => if existsb (Nat.eqb i) one then 1 else 0
  end.

Inductive mres := Counts (l : list nat) | ValueErr | IndexErr.

Fixpoint positive (i : nat) (ws : list Q) : list (nat * Q) :=
  match ws with
  | [] => []
  | w :: r => if Qlt_bool 0 w then (i, w) :: positive (S i) r else positive (S i) r
  end.

Definition minimum_roundoff (ws : list Q) (ntot : nat) : mres :=
  let f := positive 0 ws in
  if Nat.ltb ntot (length f) then ValueErr
  else
    let '(one, uc, total) := first_pass ntot f [] [] 0 in
    match reduce total ntot one uc total with
    | Some (one', uc') => Counts (map (count_of one' uc') (seq 0 (length ws)))
    | None => IndexErr
    end.

(* _InitialConditions.__init__ : ntraj given as a number or as a list *)
Definition init_conditions (ws : list Q) (ntraj : nat + list nat) : mres :=
  let r := match ntraj with
           | inl n => minimum_roundoff ws n
           | inr l => Counts l
           end in
  match r with
  | Counts l =>
      if negb (Nat.eqb (length l) (length ws)) then ValueErr
      else if forallb (fun n => Nat.ltb 0 n) l then Counts l else ValueErr
  | e => e
  end.

(* get_state_index(id) = bisect.bisect(cumsum(ntraj), id): the number of
   partial sums <= id; None = IndexError *)
Fixpoint state_index_from (acc : nat) (counts : list nat) (id : nat) : nat :=
  match counts with
  | [] => 0
  | n :: r => let acc' := acc + n in
              if Nat.leb acc' id then S (state_index_from acc' r id) else 0
  end.
Definition state_index (counts : list nat) (id : nat) : option nat :=
  let k := state_index_from 0 counts id in
  if Nat.ltb k (length counts) then Some k else None.

(* get_state_and_weight: correction = weight / (ntraj_i / ntraj_total) *)
Definition correction (ws : list Q) (counts : list nat) (i : nat) : Q :=
  (nth i ws 0 / (Qnat (nth i counts O) / Qnat (fold_right plus O counts)))%Q.

(* what observe compares *)
Definition mix_observe (ws : list Q) (ntraj : nat + list nat) (ids : list nat) :=
  match init_conditions ws ntraj with
  | Counts l => (0, l, map (state_index l) ids)
  | ValueErr => (1, [], [])
  | IndexErr => (2, [], [])
  end.
