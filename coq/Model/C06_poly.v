(* C06 - the piecewise polynomial an InterCoefficient stands for, written as
   a SPECIFICATION (powers of t - t_k, cell found by a linear scan),
   independent of the Horner loop and of the index computation of _call
   (Model/C06.v).  Proofs/C06_poly.v shows that the code computes it. *)
From Coq Require Import List ZArith Bool.
Import ListNotations.
From QV Require Import Model.C06.
Open Scope Z_scope.

Section PolyModel.
  Context {T : Type}.
  Variable N : num T.
  Fixpoint npow (x : T) (n : nat) : T :=
    match n with O => n1 N | S m => nmul N x (npow x m) end.
  (* sum_i col[i] * f^(len-1-i): the piece as a polynomial in f = t - t_k,
     highest power first (the PPoly convention) *)
  Fixpoint peval (col : list (cplx (T:=T))) (f : T) : cplx (T:=T) :=
    match col with
    | [] => c0 N
    | a :: r => cadd N (cscale N a (npow f (length r))) (peval r f)
    end.
End PolyModel.

Section PolySpec.
  Context {T : Type}.
  Variable N : num T.

  (* index of the cell [g_k, g_{k+1}) containing t (for g_0 < t < g_last) *)
  Fixpoint find_cell (g : list T) (t : T) (k : Z) : Z :=
    match g with
    | _ :: ((b :: _) as r) => if nltb N t b then k else find_cell r t (k + 1)
    | _ => k
    end.

  (* value of the coefficient given by (poly, tl) at t, as documented:
     constant outside the grid, the polynomial piece inside *)
  Definition spec_eval (poly : list (list (cplx (T:=T)))) (tl : list T) (t : T)
    : res (cplx (T:=T)) :=
    let n := zlen tl in
    let lastrow := last poly [] in
    match zget tl 0, zget tl (n - 1) with
    | Val tfirst, Val tlast =>
        if nleb N t tfirst then zget lastrow 0
        else if nleb N tlast t then zget lastrow (n - 1)
        else
          let k := find_cell tl t 0 in
          Val (peval N (column N poly k) (nsub N t (zn tl k (n0 N))))
    | _, _ => IndexError
    end.

  Definition spec_observe_poly (poly : list (list (cplx (T:=T)))) (tl ts : list T) :=
    map (spec_eval poly tl) ts.
  Definition spec_observe (ord : Z) (c : list (cplx (T:=T))) (tl ts : list T) :=
    let o := init01 N ord c tl in map (spec_eval (i_poly o) tl) ts.
End PolySpec.
