(* C13, mixed initial ensembles: multitraj.py MultiTrajSolver._run_mixed maps
   _run_one_traj_mixed over range(len(seeds)); task `id` takes seeds[id] and
   the member state ics.get_state_index(id) (modelled in Model/C16_mix.v). *)
From Coq Require Import List ZArith Bool Arith.
Import ListNotations.
From QV Require Import Model.C13 Model.C16_mix.

(* run(mixed state, ntraj = counts, seeds = ent) with the results reaching
   result.add in `order`: the reported seeds and, beside each, the member
   state its trajectory started from *)
Definition mixed_observe (ent : Z) (counts : list nat) (order : list nat) :=
  let n := fold_right plus 0 counts in
  let seeds := fst (spawn (fresh ent) n) in
  let r := reduce_all (option nat) true seeds (fun j => state_index counts j) order in
  (map sid (r_seeds (option nat) r), r_coll (option nat) r).
