(* C11 - object-identity (aliasing) model of what Propagator stores
   (qutip/solver/propagator.py _compute / _insert over Solver.start /
   Solver.step of solver_base.py).  Model/C11.v treats memo entries as
   values; here they are OBJECTS in a heap, the integrator owns a working
   buffer that it updates in place (scipy lsoda, vern7/vern9 on Dense data do),
   and Solver.step(t, copy=...) hands out either a copy of that buffer or the
   buffer itself.  No proofs in this file. *)
From Coq Require Import List ZArith Bool Arith.
Import ListNotations.

Section Alias.
  Variable V : Type.                 (* matrices *)
  Variable dflt : V.
  Variable copy : bool.              (* the `copy` argument Propagator passes to
                                        Solver.step: True in the source *)

  Record ast := mk_ast {
    a_heap : list (nat * V);         (* object id -> content, newest first *)
    a_buf : nat;                     (* id of the integrator's state buffer *)
    a_memo : list nat;               (* ids of the objects in self.props *)
    a_next : nat                     (* next unused id *)
  }.

  Fixpoint hget (h : list (nat * V)) (id : nat) : V :=
    match h with
    | [] => dflt
    | (i, v) :: r => if Nat.eqb id i then v else hget r id
    end.

  Definition alloc (s : ast) (v : V) : ast * nat :=
    (mk_ast ((a_next s, v) :: a_heap s) (a_buf s) (a_memo s) (S (a_next s)), a_next s).

  Inductive aop :=
  | AStart (src : option nat) (v0 : V)   (* solver.start(props[src]) / start(identity):
                                            set_state copies into a new buffer *)
  | AStep (f : V -> V) (ins : bool)      (* U = solver.step(t, copy=copy): the buffer
                                            is advanced IN PLACE; ins: U goes into props *)
  | ANew (v : V) (ins : bool)            (* a product / inverse: always a new object *)
  | AEvict (i : nat).                    (* del self.props[i] *)

  Definition a_do (s : ast) (o : aop) : ast :=
    match o with
    | AStart src v0 =>
        let v := match src with
                 | Some i => hget (a_heap s) (nth i (a_memo s) 0)
                 | None => v0
                 end in
        let '(s1, id) := alloc s v in
        mk_ast (a_heap s1) id (a_memo s1) (a_next s1)
    | AStep f ins =>
        let v := f (hget (a_heap s) (a_buf s)) in
        let s1 := mk_ast ((a_buf s, v) :: a_heap s) (a_buf s) (a_memo s) (a_next s) in
        let '(s2, id) := if copy then alloc s1 v else (s1, a_buf s1) in
        if ins then mk_ast (a_heap s2) (a_buf s2) (id :: a_memo s2) (a_next s2) else s2
    | ANew v ins =>
        let '(s1, id) := alloc s v in
        if ins then mk_ast (a_heap s1) (a_buf s1) (id :: a_memo s1) (a_next s1) else s1
    | AEvict i =>
        mk_ast (a_heap s) (a_buf s) (firstn i (a_memo s) ++ skipn (S i) (a_memo s)) (a_next s)
    end.

  Fixpoint a_run (s : ast) (ops : list aop) : ast :=
    match ops with [] => s | o :: r => a_run (a_do s o) r end.

  (* Propagator.__init__: props = [identity], solver.start(identity, 0) *)
  Definition a_init (one : V) : ast :=
    mk_ast [(1, one); (0, one)] 1 [0] 2.

  (* contents of the memo *)
  Definition a_values (s : ast) : list V := map (hget (a_heap s)) (a_memo s).
  (* which memo entries are the integrator's buffer *)
  Definition a_shared (s : ast) : list bool := map (Nat.eqb (a_buf s)) (a_memo s).
End Alias.

Arguments AStart {V}. Arguments AStep {V}. Arguments ANew {V}. Arguments AEvict {V}.
Arguments a_heap {V}. Arguments a_buf {V}. Arguments a_memo {V}. Arguments a_next {V}.
