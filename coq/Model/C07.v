(* C07 - superoperator constructors implement the operator identities they
   stand for.  Tier A model (MathComp): column stacking, a deep embedding of
   the operand / superoperator terms that qutip/core/superoperator.py and
   qutip/core/_brtensor.pyx::_br_term_data build out of the data-layer
   primitives, their matrix denotation `den` (what `.full()` is) and their
   action `act` on an operator (the operator expression they stand for).

   The terms themselves are NOT written here: tools/tx_c07_superop.py reads
   them out of the current source into coq/Gen/C07_terms.v.

   Conventions of the data layer that are modelled (and checked against the
   implementation on every run by tools/c07.py):
     _data.kron(b, a)            = b (x) a              (numpy.kron)
     _data.kron_transpose(b, a)  = b^T (x) a            (data/kron.pyx)
     _data.add(l, r, scale)      = l + scale * r
     _data.multiply(a, b)        = entrywise product
     column_stack(X)[r + rows*c] = X[r, c]              (data/reshape.pyx)   *)
From mathcomp Require Import all_ssreflect all_algebra.
From mathcomp Require Import mxtens.
From QV Require Import Base.MxHerm.
Set Implicit Arguments. Unset Strict Implicit. Unset Printing Implicit Defensive.
Import GRing.Theory.
Local Open Scope ring_scope.

Section Stack.
Variable R : fieldType.

(* data/reshape.pyx column_stack_* : out[r + m*c] = X[r, c]; with
   mxtens_index (c, r) = c*m + r. *)
Definition cvec m n (X : 'M[R]_(m,n)) : 'cV[R]_(n * m) :=
  \col_k X (mxtens_unindex k).2 (mxtens_unindex k).1.

(* data/reshape.pyx column_unstack_*(v, rows) : X[r, c] = v[r + rows*c] *)
Definition unvec m n (v : 'cV[R]_(n * m)) : 'M[R]_(m,n) :=
  \matrix_(r, c) v (mxtens_index (c, r)) 0.

(* _data.multiply : entrywise (Hadamard) product *)
Definition had m n (A B : 'M[R]_(m,n)) : 'M[R]_(m,n) :=
  \matrix_(r, c) (A r c * B r c).
End Stack.

Section Terms.
Variable R : fieldType.
Variable conj : {rmorphism R -> R}.
Variable n : nat.

(* operand terms: n x n data objects *)
Inductive Oexpr : Type :=
| OMx of 'M[R]_n            (* an input operator *)
| OId                       (* _data.identity_like(x) / _data.identity[cls](n) *)
| OAdj of Oexpr             (* x.adjoint() / Qobj.dag() *)
| OConj of Oexpr            (* x.conj() *)
| OTr of Oexpr              (* _data.transpose(x) *)
| OMul of Oexpr & Oexpr     (* _data.matmul(a, b) / oper * oper *)
| OHad of Oexpr & Oexpr     (* _data.multiply(a, b) *)
| OScale of R & Oexpr.      (* _data.mul(x, z) on an operand *)

Fixpoint oden (o : Oexpr) : 'M[R]_n :=
  match o with
  | OMx A => A
  | OId => 1%:M
  | OAdj a => dag conj (oden a)
  | OConj a => cj conj (oden a)
  | OTr a => (oden a)^T
  | OMul a b => oden a *m oden b
  | OHad a b => had (oden a) (oden b)
  | OScale z a => z *: oden a
  end.

(* superoperator terms: (n*n) x (n*n) data objects *)
Inductive Sexpr : Type :=
| SKron of Oexpr & Oexpr        (* _data.kron(b, a) *)
| SKronT of Oexpr & Oexpr       (* _data.kron_transpose(b, a) *)
| SAdd of Sexpr & Sexpr & R     (* _data.add(l, r, scale); l + r; l += r *)
| SSub of Sexpr & Sexpr         (* _data.sub(l, r); l - r *)
| SScale of R & Sexpr           (* _data.mul(x, z); z * super; super * z *)
| SMul of Sexpr & Sexpr         (* super * super, super @ super *)
| SZero.                        (* the integer 0 that sum() starts from *)

(* what .full() of the constructed object is *)
Fixpoint den (e : Sexpr) : 'M[R]_(n * n) :=
  match e with
  | SKron b a => oden b *t oden a
  | SKronT b a => (oden b)^T *t oden a
  | SAdd l r z => den l + z *: den r
  | SSub l r => den l - den r
  | SScale z s => z *: den s
  | SMul l r => den l *m den r
  | SZero => 0
  end.

(* the operator expression the term stands for *)
Fixpoint act (e : Sexpr) (X : 'M[R]_n) : 'M[R]_n :=
  match e with
  | SKron b a => oden a *m X *m (oden b)^T
  | SKronT b a => oden a *m X *m oden b
  | SAdd l r z => act l X + z *: act r X
  | SSub l r => act l X - act r X
  | SScale z s => z *: act s X
  | SMul l r => act l (act r X)
  | SZero => 0
  end.
End Terms.
Arguments OId {R n}.
Arguments SZero {R n}.

(* ---- the operator expressions the property names (specifications) ---- *)
Section Specs.
Variable R : fieldType.
Variable conj : {rmorphism R -> R}.
Variable n : nat.
Variable i : R.          (* the imaginary unit: 1j *)
Variable h : R.          (* the literal 0.5 *)
Variable expi : R -> R.  (* chi |-> np.exp(1j * chi) *)
Local Notation dag := (dag conj).

(* D[a,b] X = e * a X b^dag - 1/2 a^dag b X - 1/2 X a^dag b *)
Definition dissip (a b : 'M[R]_n) (e : R) (X : 'M[R]_n) : 'M[R]_n :=
  e *: (a *m X *m dag b) - h *: (dag a *m b *m X) - h *: (X *m (dag a *m b)).

(* -i [H, X] + sum_k D[c_k] X with counting-field phase exp(i chi_k) *)
Definition lindblad_rhs (H : 'M[R]_n) (cs : seq ('M[R]_n * R)) (X : 'M[R]_n) : 'M[R]_n :=
  - i *: (H *m X - X *m H) + \sum_(p <- cs) dissip p.1 p.1 (expi p.2) X.

(* Bloch-Redfield term of a coupling operator A (eigenbasis of H) with
   spectrum matrix S[a,b] = S(w_a - w_b), no secular cut-off, as in the
   documentation of bloch_redfield_tensor:
     1/2 [ (A o S^T) X A + A X (A o S) - A (A o S^T) X - X (A o S) A ]  *)
Definition br_rhs (A S : 'M[R]_n) (X : 'M[R]_n) : 'M[R]_n :=
  let AS := had A (h *: S) in
  let AST := had A (h *: S)^T in
  AST *m X *m A + A *m X *m AS - A *m AST *m X - X *m (AS *m A).
End Specs.
