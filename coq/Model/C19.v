(* C19 - model of the label bookkeeping and block assembly of the HEOM solver.

   Sources mirrored here (line by line where the code is index arithmetic):
     qutip/core/states.py            state_number_enumerate (excitations given)
     qutip/solver/heom/bofin_solvers.py
                                     HierarchyADOs.__init__/idx/next/prev,
                                     HEOMSolver._grad_n/_grad_prev_*/_grad_next_*,
                                     HEOMSolver._rhs, _GatherHEOMRHS.add_op/gather,
                                     HEOMResult._post_init/_store_state/
                                     _store_final_state/final_ado_state
     qutip/core/data/csr.pyx         _from_csr_blocks
     qutip/core/environment.py       CFExponent.coefficient/_can_combine/_combine,
                                     ExponentialBosonicEnvironment.combine
     qutip/solver/heom/bofin_baths.py BathExponent._can_combine/_combine

   Numbers: labels, dims, depths are nat (Python ints that stay >= 0 on every
   reachable state); coefficients live in a carrier C given by section
   variables (instantiated at Gaussian integers Z*Z for execution, at an
   arbitrary commutative ring in Proofs/C19.v). *)
From Coq Require Import List ZArith Bool Arith Lia.
Import ListNotations.

Definition label := list nat.

Definition lsum (l : list nat) : nat := fold_right Nat.add 0 l.   (* sum(label) *)

Fixpoint label_eqb (a b : label) : bool :=
  match a, b with
  | [], [] => true
  | x :: a', y :: b' => (x =? y) && label_eqb a' b'
  | _, _ => false
  end.

(* ------------------------------------------------------------------------
   state_number_enumerate(dims, excitations)   [excitations is not None]

     state = (0,)*len(dims); nexc = 0
     while True:
         yield state
         idx = len(dims) - 1
         state = state[:idx] + (state[idx]+1,)
         nexc += 1
         while nexc > excitations or state[idx] >= dims[idx]:
             idx -= 1
             if idx < 0: return
             nexc -= state[idx+1] - 1
             state = state[:idx] + (state[idx]+1, 0) + state[idx+2:]
   (since fix 1d30075 an empty dims yields () once and returns before the loop)
   ------------------------------------------------------------------------ *)

(* state[:i] + (state[i]+1, 0) + state[i+2:] *)
Definition carry_upd (st : label) (i : nat) : label :=
  firstn i st ++ [nth i st 0 + 1; 0] ++ skipn (i + 2) st.

(* state[:idx] + (state[idx]+1,) *)
Definition bump_last (st : label) (idx : nat) : label :=
  firstn idx st ++ [nth idx st 0 + 1].

(* the inner while loop, entered with the current idx; None = `return` *)
Fixpoint carry (dims : list nat) (exc : nat) (idx : nat) (st : label) (nexc : nat)
  : option (label * nat) :=
  if (exc <? nexc) || (nth idx dims 0 <=? nth idx st 0) then
    match idx with
    | O => None
    | S i => carry dims exc i (carry_upd st i) (nexc - (nth (S i) st 0 - 1))
    end
  else Some (st, nexc).

(* from one `yield` to the next *)
Definition sne_step (dims : list nat) (exc : nat) (st : label) (nexc : nat)
  : option (label * nat) :=
  let idx := length dims - 1 in
  carry dims exc idx (bump_last st idx) (nexc + 1).

Fixpoint sne_run (fuel : nat) (dims : list nat) (exc : nat) (st : label) (nexc : nat)
  : list label :=
  match fuel with
  | O => []
  | S f => st :: match sne_step dims exc st nexc with
                 | None => []
                 | Some (st', n') => sne_run f dims exc st' n'
                 end
  end.

Definition sne_fuel (dims : list nat) : nat := fold_right Nat.mul 1 (map S dims).

(* list(state_number_enumerate(dims, exc))   (after fix 1d30075):
     state = (0,)*len(dims); nexc = 0
     if not dims: yield state; return
     while True: ...
   None would stand for an exception; the current code raises none *)
Definition sne (dims : list nat) (exc : nat) : option (list label) :=
  match dims with
  | [] => Some [[]]
  | _ => Some (sne_run (sne_fuel dims) dims exc (repeat 0 (length dims)) 0)
  end.

(* the same function before fix 1d30075 (kept to state what the fix repaired):
   with dims = [] the generator yielded () and then evaluated state[-1] on the
   empty tuple: IndexError, so list(...) raised *)
Definition sne_before_fix (dims : list nat) (exc : nat) : option (list label) :=
  match dims with
  | [] => None
  | _ => Some (sne_run (sne_fuel dims) dims exc (repeat 0 (length dims)) 0)
  end.

(* ------------------------------------------------------------------------
   HierarchyADOs
   ------------------------------------------------------------------------ *)

(* self.dims = [exp.dim or (max_depth + 1) for exp in exponents]
   (dim None and dim 0 are both falsy) *)
Definition ados_dim (max_depth : nat) (dim : option nat) : nat :=
  match dim with
  | Some (S d) => S d
  | _ => max_depth + 1
  end.

Definition ados_dims (max_depth : nat) (edims : list (option nat)) : list nat :=
  map (ados_dim max_depth) edims.

(* self._label_idx = {s: i for i, s in enumerate(self.labels)}; idx = __getitem__
   (a later duplicate would overwrite an earlier one); None = KeyError *)
Fixpoint idx_of (labels : list label) (l : label) : option nat :=
  match labels with
  | [] => None
  | h :: t => match idx_of t l with
              | Some i => Some (S i)
              | None => if label_eqb h l then Some 0 else None
              end
  end.

(* label[:k] + (x,) + label[k+1:] *)
Definition set_at (l : label) (k : nat) (x : nat) : label :=
  firstn k l ++ [x] ++ skipn (k + 1) l.

Definition ados_next (dims : list nat) (max_depth : nat) (l : label) (k : nat)
  : option label :=
  if nth k dims 0 - 1 <=? nth k l 0 then None
  else if max_depth <=? lsum l then None
  else Some (set_at l k (nth k l 0 + 1)).

Definition ados_prev (l : label) (k : nat) : option label :=
  if nth k l 0 <=? 0 then None
  else Some (set_at l k (nth k l 0 - 1)).

(* ------------------------------------------------------------------------
   HEOMSolver._rhs + _GatherHEOMRHS.add_op : which blocks are created
   ------------------------------------------------------------------------ *)
Inductive btag :=
| TGradN (n : label)
| TNext (n : label) (k : nat)
| TPrev (n : label) (k : nat).

(* (f_idx(row_he), f_idx(col_he), op) ; None = KeyError in f_idx *)
Definition blk := (option nat * option nat * btag)%type.

Definition rhs_ops_label (dims : list nat) (max_depth : nat) (labels : list label)
           (n : label) : list blk :=
  (idx_of labels n, idx_of labels n, TGradN n) ::
  flat_map (fun k =>
    (match ados_next dims max_depth n k with
     | Some m => [(idx_of labels n, idx_of labels m, TNext n k)]
     | None => []
     end) ++
    (match ados_prev n k with
     | Some m => [(idx_of labels n, idx_of labels m, TPrev n k)]
     | None => []
     end)) (seq 0 (length dims)).

Definition rhs_ops (dims : list nat) (max_depth : nat) (labels : list label) : list blk :=
  flat_map (rhs_ops_label dims max_depth labels) labels.

(* keys after successful lookups *)
Definition blk_key (b : blk) : option (nat * nat) :=
  match b with
  | (Some r, Some c, _) => Some (r, c)
  | _ => None
  end.

(* self._ops.sort(): insertion sort on (row, col); the third component is
   never compared when the keys are pairwise different *)
Definition key_ltb (a b : nat * nat) : bool :=
  (fst a <? fst b) || ((fst a =? fst b) && (snd a <? snd b)).

Fixpoint ins_key {T} (x : nat * nat * T) (l : list (nat * nat * T)) :=
  match l with
  | [] => [x]
  | y :: t => if key_ltb (fst x) (fst y) then x :: y :: t else y :: ins_key x t
  end.

Definition sort_ops {T} (l : list (nat * nat * T)) := fold_right ins_key [] l.

(* ------------------------------------------------------------------------
   Coefficient part (section over the carrier)
   ------------------------------------------------------------------------ *)
Inductive etype := TR | TI | TRI | TPlus | TMinus.

Definition etype_eqb (a b : etype) : bool :=
  match a, b with
  | TR, TR | TI, TI | TRI, TRI | TPlus, TPlus | TMinus, TMinus => true
  | _, _ => false
  end.

Definition fermionic (t : etype) : bool :=
  match t with TPlus | TMinus => true | _ => false end.

(* cached super-operators of exponent k *)
Inductive sbasis :=
| BId
| BPre (k : nat) | BPost (k : nat)          (* spre(Q_k), spost(Q_k) *)
| BPreD (k : nat) | BPostD (k : nat).       (* spre(Q_k^dag), spost(Q_k^dag) *)

Section Coef.
Variable C : Type.
Variables (c0 c1 : C) (cadd cmul : C -> C -> C) (cneg : C -> C).
Variable ci : C.                 (* 1j *)
Variable cconj : C -> C.         (* np.conj *)
Variable ceqb : C -> C -> bool.  (* np.isclose on exactly representable values *)

Record bexp := {
  e_type : etype;
  e_dim : option nat;
  e_q : nat;              (* identity of the coupling operator Q (by value) *)
  e_ck : C;
  e_vk : C;
  e_ck2 : option C;
  e_off : option Z }.     (* sigma_bar_k_offset *)

Fixpoint natC (n : nat) : C :=
  match n with O => c0 | S m => cadd c1 (natC m) end.

Definition csub (a b : C) := cadd a (cneg b).

(* a block operator as a linear combination of cached super-operators *)
Definition sop := list (C * sbasis).

(* (-1) ** m for m >= 0 *)
Definition sgn (m : nat) : C := if Nat.even m then c1 else cneg c1.

(* _grad_n: vk_sum = sum(he_n[i]*vk[i] ...); op = mul(sId, -vk_sum) *)
Definition vk_sum (exps : list bexp) (n : label) : C :=
  fold_left cadd (map (fun p => cmul (natC (fst p)) (e_vk (snd p))) (combine n exps)) c0.

Definition grad_n (exps : list bexp) (n : label) : sop :=
  [(cneg (vk_sum exps n), BId)].

(* mul(_s_pre_minus_post_Q[k], c) / mul(_s_pre_plus_post_Q[k], c) *)
Definition pmp (k : nat) (c : C) : sop := [(c, BPre k); (cneg c, BPost k)].
Definition ppp (k : nat) (c : C) : sop := [(c, BPre k); (c, BPost k)].
Definition pmpD (k : nat) (c : C) : sop := [(c, BPreD k); (cneg c, BPostD k)].
Definition pppD (k : nat) (c : C) : sop := [(c, BPreD k); (c, BPostD k)].

Definition dflt : bexp :=
  {| e_type := TR; e_dim := None; e_q := 0; e_ck := c0; e_vk := c0;
     e_ck2 := None; e_off := None |}.

Definition nthe (exps : list bexp) (k : nat) : bexp := nth k exps dflt.

(* _grad_prev_bosonic; None = ValueError("Unsupported type") *)
Definition grad_prev_bosonic (exps : list bexp) (n : label) (k : nat) : option sop :=
  let e := nthe exps k in
  let nk := natC (nth k n 0) in
  match e_type e with
  | TR => Some (pmp k (cmul (cmul (cneg ci) nk) (e_ck e)))
  | TI => Some (ppp k (cmul (cmul (cmul (cneg ci) nk) ci) (e_ck e)))
  | TRI =>
      match e_ck2 e with
      | Some c2 =>
          Some (pmp k (cmul (cmul nk (cneg ci)) (e_ck e)) ++ ppp k (cmul nk c2))
      | None => None
      end
  | _ => None
  end.

(* he_fermionic_n = [i * int(exp.fermionic) ...]; sum(...) and sum(...[:k]) *)
Definition ferm_n (exps : list bexp) (n : label) : list nat :=
  map (fun p => if fermionic (e_type (snd p)) then fst p else 0) (combine n exps).

(* the exponent of sign1: n_excite + 1 - odd_parity  (Python bool arithmetic) *)
Definition sign1_exp (exps : list bexp) (n : label) (odd : bool) : nat :=
  lsum (ferm_n exps n) + 1 - (if odd then 1 else 0).

Definition sign2_exp (exps : list bexp) (n : label) (k : nat) (odd : bool) : nat :=
  lsum (firstn k (ferm_n exps n)) + (if odd then 1 else 0).

(* k + sigma_bar_k_offset[k]; None when the offset is missing or the index
   leaves the list (IndexError / TypeError in Python; negative indices are
   not used by well-formed baths) *)
Definition sigma_bar (exps : list bexp) (k : nat) : option nat :=
  match e_off (nthe exps k) with
  | Some o => let j := (Z.of_nat k + o)%Z in
              if (0 <=? j)%Z && (j <? Z.of_nat (length exps))%Z
              then Some (Z.to_nat j) else None
  | None => None
  end.

Definition grad_prev_fermionic (exps : list bexp) (n : label) (k : nat) (odd : bool)
  : option sop :=
  let e := nthe exps k in
  let s1 := sgn (sign1_exp exps n odd) in
  let s2 := sgn (sign2_exp exps n k odd) in
  match sigma_bar exps k with
  | None => None
  | Some kb =>
      let a := cmul (cmul (cneg ci) s2) (e_ck e) in
      let b := cmul (cmul (cmul (cneg ci) s2) s1) (cconj (e_ck (nthe exps kb))) in
      match e_type e with
      | TPlus => Some [(a, BPreD k); (cneg b, BPostD k)]
      | TMinus => Some [(a, BPre k); (cneg b, BPost k)]
      | _ => None
      end
  end.

Definition grad_prev (exps : list bexp) (n : label) (k : nat) (odd : bool) : option sop :=
  if fermionic (e_type (nthe exps k)) then grad_prev_fermionic exps n k odd
  else grad_prev_bosonic exps n k.

Definition grad_next_bosonic (k : nat) : sop := pmp k (cneg ci).

Definition grad_next_fermionic (exps : list bexp) (n : label) (k : nat) (odd : bool)
  : option sop :=
  let e := nthe exps k in
  let minus := negb (Nat.even (sign1_exp exps n odd)) in     (* sign1 == -1 *)
  let c := cmul (cneg ci) (sgn (sign2_exp exps n k odd)) in
  match e_type e with
  | TPlus => Some (if minus then pmp k c else ppp k c)
  | TMinus => Some (if minus then pmpD k c else pppD k c)
  | _ => None
  end.

Definition grad_next (exps : list bexp) (n : label) (k : nat) (odd : bool) : option sop :=
  if fermionic (e_type (nthe exps k)) then grad_next_fermionic exps n k odd
  else Some (grad_next_bosonic k).

Definition block_op (exps : list bexp) (odd : bool) (t : btag) : option sop :=
  match t with
  | TGradN n => Some (grad_n exps n)
  | TNext n k => grad_next exps n k odd
  | TPrev n k => grad_prev exps n k odd
  end.

(* the whole of HEOMSolver._rhs up to the call of _from_csr_blocks:
   None = an exception (IndexError of the enumeration, KeyError of idx,
   ValueError of an unsupported exponent type) *)
Fixpoint all_some {A} (l : list (option A)) : option (list A) :=
  match l with
  | [] => Some []
  | None :: _ => None
  | Some x :: t => match all_some t with Some r => Some (x :: r) | None => None end
  end.

Definition heom_dims (exps : list bexp) (max_depth : nat) : list nat :=
  ados_dims max_depth (map e_dim exps).

Definition heom_blocks (exps : list bexp) (max_depth : nat) (odd : bool)
  : option (list (nat * nat * sop)) :=
  let dims := heom_dims exps max_depth in
  match sne dims max_depth with
  | None => None
  | Some labels =>
      match all_some (map (fun b : blk =>
               match blk_key b, block_op exps odd (snd b) with
               | Some key, Some op => Some (key, op)
               | _, _ => None
               end) (rhs_ops dims max_depth labels)) with
      | None => None
      | Some l => Some (sort_ops l)
      end
  end.

(* ------------------------------------------------------------------------
   CFExponent.coefficient / _can_combine / _combine, BathExponent overrides,
   ExponentialBosonicEnvironment.combine
   ------------------------------------------------------------------------ *)
Definition coefficient (e : bexp) : C :=
  let base := match e_type e with
              | TI => cadd c0 (cmul ci (e_ck e))
              | _ => cadd c0 (e_ck e)
              end in
  match e_type e, e_ck2 e with
  | TRI, Some c2 => cadd base (cmul ci c2)
  | _, _ => base
  end.

Definition can_combine (e o : bexp) : bool :=
  negb (fermionic (e_type e) || fermionic (e_type o))
  && ceqb (e_vk e) (e_vk o)
  && (e_q e =? e_q o).

Definition ck2_or0 (e : bexp) : C := match e_ck2 e with Some c => c | None => c0 end.

Definition combine2 (e o : bexp) : bexp :=
  if etype_eqb (e_type e) (e_type o) && negb (etype_eqb (e_type e) TRI) then
    {| e_type := e_type e; e_dim := None; e_q := e_q e;
       e_ck := cadd (e_ck e) (e_ck o); e_vk := e_vk e; e_ck2 := None; e_off := None |}
  else
    let re x r := match e_type x with TRI | TR => cadd r (e_ck x) | _ => r end in
    let im x r := let r1 := match e_type x with TI => cadd r (e_ck x) | _ => r end in
                  match e_type x with TRI => cadd r1 (ck2_or0 x) | _ => r1 end in
    {| e_type := TRI; e_dim := None; e_q := e_q e;
       e_ck := re o (re e c0); e_vk := e_vk e;
       e_ck2 := Some (im o (im e c0)); e_off := None |}.

(* for other_exp in remaining[:]: if new._can_combine(other): new = new._combine(other);
   remaining.remove(other) *)
Fixpoint absorb (new : bexp) (rem : list bexp) : bexp * list bexp :=
  match rem with
  | [] => (new, [])
  | o :: t => if can_combine new o then absorb (combine2 new o) t
              else let r := absorb new t in (fst r, o :: snd r)
  end.

Fixpoint combine_all (fuel : nat) (l : list bexp) : list bexp :=
  match fuel, l with
  | S f, e :: t => let r := absorb e t in fst r :: combine_all f (snd r)
  | _, _ => []
  end.

Definition combine_exps (l : list bexp) : list bexp := combine_all (length l) l.

End Coef.

(* ------------------------------------------------------------------------
   csr._from_csr_blocks (values in V)
   ------------------------------------------------------------------------ *)
Section Blocks.
Variable V : Type.

Record csr := { ri : list nat; ci_ : list nat; dat : list V }.

Definition slice {A} (l : list A) (a b : nat) : list A := firstn (b - a) (skipn a l).

Definition csr_nnz (bs : nat) (op : csr) : nat := nth bs (ri op) 0.

Definition zeros_csr (shape : nat) : csr :=
  {| ri := repeat 0 (shape + 1); ci_ := []; dat := [] |}.

(* "check ops are ordered by (row, column)" *)
Fixpoint sorted_from (r c : nat) (l : list (nat * nat * csr)) : bool :=
  match l with
  | [] => true
  | (r', c', _) :: t =>
      if (r' <? r) || ((r' =? r) && (c' <=? c)) then false else sorted_from r' c' t
  end.

Definition sorted_ops (l : list (nat * nat * csr)) : bool :=
  match l with
  | [] => true
  | (r, c, _) :: t => sorted_from r c t
  end.

(* while op_idx < n_ops: if block_rows[op_idx] != row_idx: break; op_idx += 1 *)
Fixpoint take_row (R : nat) (l : list (nat * nat * csr))
  : list (nat * nat * csr) * list (nat * nat * csr) :=
  match l with
  | (r, c, op) :: t => if r =? R then let p := take_row R t in ((r, c, op) :: fst p, snd p)
                       else ([], l)
  | [] => ([], [])
  end.

(* one output row: for i in range(prev_op_idx, op_idx): copy row op_row of op *)
Definition out_row (bs : nat) (group : list (nat * nat * csr)) (op_row : nat)
  : list nat * list V :=
  fold_left (fun acc (b : nat * nat * csr) =>
    let '(_, c, op) := b in
    if csr_nnz bs op =? 0 then acc
    else
      let s := nth op_row (ri op) 0 in
      let e := nth (op_row + 1) (ri op) 0 in
      (fst acc ++ map (fun x => x + c * bs) (slice (ci_ op) s e),
       snd acc ++ slice (dat op) s e)) group ([], []).

(* state: (row_index so far, col_index, data); `end` = length col_index *)
Definition out_group (bs : nat) (group : list (nat * nat * csr)) (acc : csr) : csr :=
  fold_left (fun a op_row =>
    let r := out_row bs group op_row in
    let ci' := ci_ a ++ fst r in
    {| ri := ri a ++ [length ci']; ci_ := ci'; dat := dat a ++ snd r |})
    (seq 0 bs) acc.

Fixpoint out_rows (bs : nat) (nrows : nat) (R : nat) (ops : list (nat * nat * csr))
         (acc : csr) : csr :=
  match nrows with
  | O => acc
  | S m => let p := take_row R ops in
           out_rows bs m (S R) (snd p) (out_group bs (fst p) acc)
  end.

(* None = ValueError (not sorted) *)
Definition from_csr_blocks (ops : list (nat * nat * csr)) (n_blocks bs : nat)
  : option csr :=
  match ops with
  | [] => Some (zeros_csr (n_blocks * bs))
  | _ =>
      if negb (sorted_ops ops) then None
      else if fold_left (fun s (b : nat * nat * csr) => s + csr_nnz bs (snd b)) ops 0 =? 0
      then Some (zeros_csr (n_blocks * bs))
      else Some (out_rows bs n_blocks 0 ops {| ri := [0]; ci_ := []; dat := [] |})
  end.

(* dense meaning of a CSR matrix: the entries of row i, as (column, value) *)
Definition csr_row (m : csr) (i : nat) : list (nat * V) :=
  combine (slice (ci_ m) (nth i (ri m) 0) (nth (i + 1) (ri m) 0))
          (slice (dat m) (nth i (ri m) 0) (nth (i + 1) (ri m) 0)).

End Blocks.

(* ------------------------------------------------------------------------
   HEOMResult: which object `final_ado_state` hands back
   ------------------------------------------------------------------------ *)
Section Result.
Variable A : Type.           (* HierarchyADOsState *)
Variable R : Type.           (* Qobj (system state) *)
Variable rho_of : A -> R.    (* ado_state.rho *)

Record hres := {
  h_states : list R;              (* newest first *)
  h_ado_states : list A;          (* newest first *)
  h_final_state : option R;
  h_final_ado : option A }.

Record hopts := { o_store_states : bool; o_store_final : bool; o_store_ados : bool }.

Definition h_init : hres :=
  {| h_states := []; h_ado_states := []; h_final_state := None; h_final_ado := None |}.

(* Result._post_init registers _store_state when store_states, and
   _store_final_state when store_final_state and not store_states;
   Result.add runs the registered processors *)
Definition h_add (o : hopts) (r : hres) (a : A) : hres :=
  let r1 := if o_store_states o then
              {| h_states := rho_of a :: h_states r;
                 h_ado_states := if o_store_ados o then a :: h_ado_states r
                                 else h_ado_states r;
                 h_final_state := h_final_state r; h_final_ado := h_final_ado r |}
            else r in
  if o_store_final o && negb (o_store_states o) then
    {| h_states := h_states r1; h_ado_states := h_ado_states r1;
       h_final_state := Some (rho_of a);
       h_final_ado := if o_store_ados o then Some a else h_final_ado r1 |}
  else r1.

Inductive fas := FAdo (a : A) | FRho (r : R) | FNone.

(* @property final_ado_state   (after fix 676e94e):
     if self._final_ado_state is not None: return self._final_ado_state
     if self.ado_states: return self.ado_states[-1]
     return None *)
Definition final_ado_state (r : hres) : fas :=
  match h_final_ado r with
  | Some a => FAdo a
  | None => match h_ado_states r with
            | a :: _ => FAdo a
            | [] => FNone
            end
  end.

(* the same property as it was before fix 676e94e (kept to state what the fix
   repaired): it handed back self._final_state *)
Definition final_ado_state_before_fix (r : hres) : fas :=
  match h_final_ado r with
  | Some _ => match h_final_state r with Some s => FRho s | None => FNone end
  | None => match h_ado_states r with
            | a :: _ => FAdo a
            | [] => FNone
            end
  end.

Definition h_run (o : hopts) (l : list A) : hres := fold_left (h_add o) l h_init.

End Result.


(* ------------------------------------------------------------------------
   Re-ordering the exponent list (specification-level helpers, executable):
   position j of the re-ordered list is position pi[j] of the original one;
   `ren` renames the exponent index of every cached operator of a block.
   ------------------------------------------------------------------------ *)
Definition permute {A} (d : A) (pi : list nat) (l : list A) : list A :=
  map (fun j => nth j l d) pi.

Definition ren_basis (f : nat -> nat) (b : sbasis) : sbasis :=
  match b with
  | BId => BId
  | BPre k => BPre (f k) | BPost k => BPost (f k)
  | BPreD k => BPreD (f k) | BPostD k => BPostD (f k)
  end.
Definition ren {C} (f : nat -> nat) (op : sop C) : sop C :=
  map (fun p => (fst p, ren_basis f (snd p))) op.

(* ------------------------------------------------------------------------
   Execution instance: Gaussian integers
   ------------------------------------------------------------------------ *)
Definition G := (Z * Z)%type.
Definition g0 : G := (0, 0)%Z.
Definition g1 : G := (1, 0)%Z.
Definition gi : G := (0, 1)%Z.
Definition gadd (a b : G) : G := (fst a + fst b, snd a + snd b)%Z.
Definition gmul (a b : G) : G :=
  (fst a * fst b - snd a * snd b, fst a * snd b + snd a * fst b)%Z.
Definition gneg (a : G) : G := (- fst a, - snd a)%Z.
Definition gconj (a : G) : G := (fst a, - snd a)%Z.
Definition geqb (a b : G) : bool := (fst a =? fst b)%Z && (snd a =? snd b)%Z.

Definition gexp := bexp G.
Definition mkexp (t : etype) (dim : option nat) (q : nat) (ck vk : G)
           (ck2 : option G) (off : option Z) : gexp :=
  {| e_type := t; e_dim := dim; e_q := q; e_ck := ck; e_vk := vk;
     e_ck2 := ck2; e_off := off |}.

Definition g_blocks := heom_blocks G g0 g1 gadd gmul gneg gi gconj.
Definition g_combine := combine_exps G g0 gadd geqb.
Definition g_coefficient := coefficient G g0 gadd gmul gi.

(* observation of a HierarchyADOs instance: labels, and for a list of probe
   labels/positions the results of idx, next, prev *)
Definition ados_observe (edims : list (option nat)) (max_depth : nat)
  : option (list nat * list label *
            list (option nat * list (option label * option label))) :=
  let dims := ados_dims max_depth edims in
  match sne dims max_depth with
  | None => None
  | Some labels =>
      Some (dims, labels,
            map (fun l => (idx_of labels l,
                           map (fun k => (ados_next dims max_depth l k, ados_prev l k))
                               (seq 0 (length dims)))) labels)
  end.
