(* C19 - model part for the fermionic re-ordering theorem: the adjacent
   transposition (k, k+1) of the exponent list with the partner offsets
   (sigma_bar_k_offset) re-computed, and the diagonal sign matrix of the
   induced change of basis.  Executable; used by tools/c19.py. *)
From Coq Require Import List ZArith Bool Arith Lia.
Import ListNotations.
From QV Require Import Model.C19.

Definition tau (k i : nat) : nat := if i =? k then k + 1 else if i =? k + 1 then k else i.
Definition swap_pi (k len : nat) : list nat := map (tau k) (seq 0 len).

Definition tauZ (k : nat) (z : Z) : Z :=
  if (z =? Z.of_nat k)%Z then (Z.of_nat k + 1)%Z
  else if (z =? Z.of_nat k + 1)%Z then Z.of_nat k else z.

Definition set_off {C} (e : bexp C) (o : option Z) : bexp C :=
  {| e_type := e_type C e; e_dim := e_dim C e; e_q := e_q C e; e_ck := e_ck C e;
     e_vk := e_vk C e; e_ck2 := e_ck2 C e; e_off := o |}.

(* position j of the new list holds exponent tau(j) of the old one; its partner
   (old position tau(j) + off) now stands at tau of that position *)
Definition swap_exps {C} (d : bexp C) (k : nat) (exps : list (bexp C)) : list (bexp C) :=
  map (fun j => let e := nth (tau k j) exps d in
                set_off e (match e_off C e with
                           | Some o => Some (tauZ k (Z.of_nat (tau k j) + o) - Z.of_nat j)%Z
                           | None => None
                           end))
      (seq 0 (length exps)).

Definition scale {C} (cmul : C -> C -> C) (x : C) (op : sop C) : sop C :=
  map (fun p => (cmul x (fst p), snd p)) op.

(* s(n) = (-1)^(F_k F_{k+1}) with F the fermionic occupation numbers; true = +1 *)
Definition swap_s_even {C} (exps : list (bexp C)) (k : nat) (n : label) : bool :=
  Nat.even (nth k (ferm_n C exps n) 0 * nth (k + 1) (ferm_n C exps n) 0).
