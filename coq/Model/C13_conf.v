(* C13, configuration propagation: which object holds which value of `args`
   and of the options, and what a trajectory sees after a history of calls.

   Model of
     qutip/solver/solver_base.py  Solver.options (setter), _apply_options
     qutip/solver/multitraj.py    MultiTrajSolver._argument, _initialize_run, step
     qutip/solver/mcsolve.py      _MCRHS.arguments, MCIntegrator.options (property),
                                  MCIntegrator.arguments, reset
     qutip/solver/integrator/integrator.py  Integrator.options (setter), arguments, reset
     qutip/solver/nm_mcsolve.py   NonMarkovianMCSolver._argument, run, start, step;
                                  InfluenceMartingale.initialize(cache=...) / reset

   `args` is a dictionary with two keys (g, h); a call passes a partial
   dictionary (None / {} = (None, None)).  Options: one solver-level value
   (norm_tol, read by MCIntegrator through its reference to the options
   object) and one ODE-level value (atol, copied into the wrapped integrator
   and built into the ODE solver object by _prepare).

   Object identity matters: the Hamiltonian QobjEvo is ONE object (solver.rhs,
   the ODE integrator's `system`), the c_ops / n_ops lists are shared by
   solver, _MCRHS and MCIntegrator: one cell each.  The rate coefficients of
   the non-Markovian solver are separate objects (replace_arguments), and the
   pre-computed continuous martingale is a snapshot. *)
From Coq Require Import List ZArith Bool Arith Lia.
Import ListNotations.

Definition args := (option Z * option Z)%type.
Definition ov (o n : option Z) : option Z := match n with Some v => Some v | None => o end.
Definition upd (o n : args) : args := (ov (fst o) (fst n), ov (snd o) (snd n)).
Definition is_empty (a : args) : bool :=
  match a with (None, None) => true | _ => false end.

Inductive skind := KMC | KNM.

Record flags := {
  f_forward : bool;        (* MCIntegrator.options setter hands the options to the wrapped
                              integrator (true since /repo bdf00f0) *)
  f_rebind : bool;         (* `solver.options = {...}` with solver-level keys only re-binds
                              the integrator to the new options object (true since /repo c83a966) *)
  f_nm_args_first : bool }. (* NonMarkovianMCSolver.run applies args before pre-computing
                              the martingale *)

(* MCIntegrator._options: the solver's current options object, or an older one *)
Inductive mref := Alias | Detached (so : Z).

Record solver := {
  s_kind : skind;
  aH : args; aC : args; aN : args;      (* H (= ODE system), c_ops, n_ops *)
  aR : args; aS : args; aQ : args;      (* nm: _rates, _rate_shift, _sqrt_shifted_rates *)
  cache : option (args * list Z);       (* nm: pre-computed continuous martingale: the args of
                                           rate_shift when it was computed, its times *)
  so : Z; oo : Z;                       (* solver.options: solver-level / ODE-level value *)
  mopt : mref;                          (* MCIntegrator._options *)
  o_opt : Z;                            (* wrapped integrator ._options[ODE key] *)
  o_prep : Z }.                         (* value the ODE solver object was built with *)

Definition construct (k : skind) (a : args) (sv ovl : Z) : solver :=
  let r := match k with KMC => (None, None) | KNM => a end in   (* no rate objects in MCSolver *)
  {| s_kind := k; aH := a; aC := a; aN := a; aR := r; aS := r; aQ := r; cache := None;
     so := sv; oo := ovl; mopt := Alias; o_opt := ovl; o_prep := ovl |}.

Definition with_args (s : solver) (h c n : args) : solver :=
  {| s_kind := s_kind s; aH := h; aC := c; aN := n; aR := aR s; aS := aS s; aQ := aQ s;
     cache := cache s; so := so s; oo := oo s; mopt := mopt s; o_opt := o_opt s;
     o_prep := o_prep s |}.
Definition with_rates (s : solver) (r sh q : args) : solver :=
  {| s_kind := s_kind s; aH := aH s; aC := aC s; aN := aN s; aR := r; aS := sh; aQ := q;
     cache := cache s; so := so s; oo := oo s; mopt := mopt s; o_opt := o_opt s;
     o_prep := o_prep s |}.
Definition with_cache (s : solver) (c : option (args * list Z)) : solver :=
  {| s_kind := s_kind s; aH := aH s; aC := aC s; aN := aN s; aR := aR s; aS := aS s;
     aQ := aQ s; cache := c; so := so s; oo := oo s; mopt := mopt s; o_opt := o_opt s;
     o_prep := o_prep s |}.
Definition with_opts (s : solver) (sv ovl : Z) (m : mref) (oopt oprep : Z) : solver :=
  {| s_kind := s_kind s; aH := aH s; aC := aC s; aN := aN s; aR := aR s; aS := aS s;
     aQ := aQ s; cache := cache s; so := sv; oo := ovl; mopt := m; o_opt := oopt;
     o_prep := oprep |}.

(* _MCRHS.arguments(args): rhs, every c_op, every n_op *)
Definition rhs_arguments (s : solver) (a : args) : solver :=
  with_args s (upd (aH s) a) (upd (aC s) a) (upd (aN s) a).

(* MCIntegrator.arguments(args): if args: wrapped integrator (system.arguments, reset),
   every c_op, every n_op - the same objects once more *)
Definition mci_arguments (s : solver) (a : args) : solver :=
  if is_empty a then s else with_args s (upd (aH s) a) (upd (aC s) a) (upd (aN s) a).

(* MultiTrajSolver._argument *)
Definition base_argument (s : solver) (a : args) : solver :=
  if is_empty a then s else mci_arguments (rhs_arguments s a) a.

(* NonMarkovianMCSolver._argument: the rates are replaced without a guard *)
Definition nm_argument (s : solver) (a : args) : solver :=
  base_argument (with_rates s (upd (aR s) a) (upd (aS s) a) (upd (aQ s) a)) a.

Definition argument (s : solver) (a : args) : solver :=
  match s_kind s with KMC => base_argument s a | KNM => nm_argument s a end.

(* what a trajectory started now would use *)
Record view := {
  v_H : args; v_C : args; v_N : args;
  v_R : args;                          (* discrete martingale: solver.rate *)
  v_shift : args;                      (* continuous martingale: cache if present, else rate_shift *)
  v_times : option (list Z);           (* times of the cache *)
  v_so : Z;                            (* norm_tol ... as MCIntegrator reads them *)
  v_prep : Z }.                        (* tolerance inside the ODE solver object *)

Definition view_of (s : solver) : view :=
  {| v_H := aH s; v_C := aC s; v_N := aN s; v_R := aR s;
     v_shift := match cache s with Some (a, _) => a | None => aS s end;
     v_times := match cache s with Some (_, tl) => Some tl | None => None end;
     v_so := match mopt s with Alias => so s | Detached x => x end;
     v_prep := o_prep s |}.

(* run(state, tlist, args=a): the view is taken when the trajectories run *)
Definition run (f : flags) (s : solver) (a : args) (tl : list Z) : view * solver :=
  match s_kind s with
  | KMC => let s1 := base_argument s a in (view_of s1, s1)     (* _initialize_run *)
  | KNM =>
      if f_nm_args_first f then
        let s1 := nm_argument s a in                            (* self._argument(args) *)
        let s2 := with_cache s1 (Some (aS s1, tl)) in           (* initialize(cache=tlist) *)
        (view_of s2, with_cache s2 None)                        (* super().run; reset() *)
      else
        let s2 := with_cache s (Some (aS s, tl)) in
        let s3 := nm_argument s2 a in                           (* args forwarded to super().run *)
        (view_of s3, with_cache s3 None)
  end.

(* start(state, t0); step(t, args=a) *)
Definition step (s : solver) (a : args) : view * solver :=
  let s0 := match s_kind s with KMC => s | KNM => with_cache s None end in
  let s1 := argument s0 a in
  (view_of s1, s1).

(* _apply_options with an ODE-level key:
   self._integrator.options = self._options; self._integrator.reset(hard=True) *)
Definition apply_ode_key (f : flags) (s : solver) : solver :=
  let oopt := if f_forward f then oo s else o_opt s in
  with_opts s (so s) (oo s) Alias oopt oopt.

(* solver.options[key] = v: the options object is modified in place *)
Definition set_item (f : flags) (s : solver) (ode : bool) (v : Z) : solver :=
  if Z.eqb v (if ode then oo s else so s) then s           (* `if val == self[key]: return` *)
  else if ode then apply_ode_key f (with_opts s (so s) v (mopt s) (o_opt s) (o_prep s))
  else with_opts s v (oo s) (mopt s) (o_opt s) (o_prep s).

(* solver.options = {...}: a new options object is created *)
Definition changed (cur : Z) (v : option Z) : option Z :=   (* _parse_options drops unchanged values *)
  match v with Some x => if Z.eqb x cur then None else Some x | None => None end.

Definition set_dict (f : flags) (s : solver) (sv0 ovl0 : option Z) : solver :=
  let sv := changed (so s) sv0 in
  let ovl := changed (oo s) ovl0 in
  match sv, ovl with
  | None, None => s                                             (* nothing to do *)
  | _, _ =>
      let m := match mopt s with Alias => Detached (so s) | d => d end in
      let s1 := with_opts s (match sv with Some v => v | None => so s end)
                            (match ovl with Some v => v | None => oo s end)
                            m (o_opt s) (o_prep s) in
      match ovl with
      | Some _ => apply_ode_key f s1
      | None =>
          if f_rebind f
          then with_opts s1 (so s1) (oo s1) Alias
                         (if f_forward f then oo s1 else o_opt s1) (o_prep s1)
          else s1
      end
  end.

Inductive ev :=
| ERun (a : args) (tl : list Z)
| EStep (a : args)
| ESetItem (ode : bool) (v : Z)
| ESetDict (sv ovl : option Z).

Definition apply (f : flags) (s : solver) (e : ev) : option view * solver :=
  match e with
  | ERun a tl => let '(v, s') := run f s a tl in (Some v, s')
  | EStep a => let '(v, s') := step s a in (Some v, s')
  | ESetItem ode v => (None, set_item f s ode v)
  | ESetDict sv ovl => (None, set_dict f s sv ovl)
  end.

Definition after (f : flags) (s : solver) (evs : list ev) : solver :=
  fold_left (fun s e => snd (apply f s e)) evs s.

(* the configuration a user has asked for so far *)
Record config := { c_args : args; c_so : Z; c_oo : Z }.
Definition cfg_step (c : config) (e : ev) : config :=
  match e with
  | ERun a _ | EStep a => {| c_args := upd (c_args c) a; c_so := c_so c; c_oo := c_oo c |}
  | ESetItem true v => {| c_args := c_args c; c_so := c_so c; c_oo := v |}
  | ESetItem false v => {| c_args := c_args c; c_so := v; c_oo := c_oo c |}
  | ESetDict sv ovl =>
      {| c_args := c_args c; c_so := match sv with Some v => v | None => c_so c end;
         c_oo := match ovl with Some v => v | None => c_oo c end |}
  end.
Definition cfg_after (c : config) (evs : list ev) : config := fold_left cfg_step evs c.

(* trace compared with the implementation *)
Definition obs_view (v : view) :=
  (v_H v, v_C v, v_N v, v_R v, v_shift v, v_times v, v_so v, v_prep v).
Definition obs_solver (s : solver) :=
  (aH s, aC s, aN s, aR s, aS s, aQ s,
   match mopt s with Alias => so s | Detached x => x end, so s, o_opt s, o_prep s).
Fixpoint trace (f : flags) (s : solver) (evs : list ev) :=
  match evs with
  | [] => []
  | e :: r => let '(v, s') := apply f s e in
              (option_map obs_view v, obs_solver s') :: trace f s' r
  end.
