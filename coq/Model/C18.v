(* Model of qutip/solver/steadystate.py (data flow around the numerical
   kernels) and of the loop / row logic of two neighbours.

   Matrices are index functions nat -> nat -> T, vectors nat -> T, over an
   arbitrary carrier T with the operations passed explicitly.  The very same
   definitions are
     * executed (vm_compute) at Gaussian integers Z*Z by tools/c18.py and
       compared exactly with what the real functions hand to / get back from
       `_data.solve`, `_data.svd`, `Qobj.eigenstates` (scripted fakes), and
     * instantiated at an abstract field with conjugation in Proofs/C18.v,
       where they are shown equal to the MathComp matrix expressions the
       theorems are about (bridge lemmas `*_bridge`).

   Linear solve, SVD, eigen-decomposition, RCM / bipartite matching are NOT
   modelled: they are inputs (`x`, `v`, `r`) of the post-processing functions
   here and Section oracles in the proofs. *)
From mathcomp Require Import all_ssreflect.
From Coq Require Import ZArith.

Set Implicit Arguments.
Unset Strict Implicit.
Unset Printing Implicit Defensive.

Section Exec.
Variable T : Type.
Variables (zero one : T) (add mul : T -> T -> T) (opp cj re : T -> T).

Definition fmx := nat -> nat -> T.
Definition fvec := nat -> T.

Definition fsum (n : nat) (f : nat -> T) : T :=
  foldr (fun i acc => add (f i) acc) zero (iota 0 n).

(* ---- _steadystate_direct: weight row and right-hand side --------------
     weight_vec = column_stack(diag([weight] * n))          index k = col*n+row
     weight_mat = one_element((N,1),(0,0),1) @ weight_vec.transpose()
     L = add(weight_mat, A.data)
     b = one_element((N,1),(0,0),weight)                                    *)
Definition is_diag_idx (n k : nat) : bool := (k %/ n == k %% n).
Definition weight_vec n (w : T) : fvec :=
  fun k => if is_diag_idx n k then w else zero.
Definition one_element (r : nat) (v : T) : fvec :=
  fun i => if i == r then v else zero.
Definition weight_mat n (w : T) : fmx :=
  fun i j => mul (one_element 0 one i) (weight_vec n w j).
Definition direct_L n (w : T) (L : fmx) : fmx :=
  fun i j => add (weight_mat n w i j) (L i j).
Definition direct_b (w : T) : fvec := one_element 0 w.

(* primitives the generated bookkeeping terms (Gen/C18_bookkeeping.v, written
   by tools/tx_c18_bookkeeping.py from the source text) are made of *)
(* _data.diag([w] * n, k)[i, j] *)
Definition fdiag (w : T) (k : nat) : fmx := fun i j => if j == k + i then w else zero.
(* matmul of an (N,1) matrix by a (1,N) matrix *)
Definition fouter (c r : fvec) : fmx := fun i j => mul (c i) (r j).
Definition fadd (A B : fmx) : fmx := fun i j => add (A i j) (B i j).

(* ---- permutations ------------------------------------------------------
   _data.permute.indices(M, rows, cols): out[rows[r], cols[c]] = M[r, c],
   i.e. out[i, j] = M[index i rows, index j cols].
   np.argsort of a permutation is its inverse: argsort p = [index k p | k]. *)
Definition argsort (p : seq nat) : seq nat :=
  mkseq (fun k => index k p) (size p).
Definition perm_rows (p : seq nat) (x : fvec) : fvec := fun k => x (index k p).
Definition perm_rows_mx (p : seq nat) (M : fmx) : fmx :=
  fun i j => M (index i p) j.
Definition perm_full (p q : seq nat) (M : fmx) : fmx :=
  fun i j => M (index i p) (index j q).

(* _permute_rcm(L, b): perm = argsort(rcm order r) *)
Definition permute_rcm (r : seq nat) (L : fmx) (b : fvec) :=
  let perm := argsort r in (perm_full perm perm L, perm_rows perm b, perm).
(* _reverse_rcm(rho, perm) *)
Definition reverse_rcm (x : fvec) (perm : seq nat) : fvec :=
  perm_rows (argsort perm) x.
(* _permute_wbm(L, b): perm = argsort(matching m), rows only *)
Definition permute_wbm (m : seq nat) (L : fmx) (b : fvec) :=
  let perm := argsort m in (perm_rows_mx perm L, perm_rows perm b).

(* what _steadystate_direct passes to _data.solve *)
Definition direct_system n w (L : fmx) (wbm rcm : option (seq nat)) :=
  let L1 := direct_L n w L in
  let b1 := direct_b w in
  let (L2, b2) := match wbm with
                  | Some m => permute_wbm m L1 b1
                  | None => (L1, b1) end in
  match rcm with
  | Some r => let '(L3, b3, perm) := permute_rcm r L2 b2 in (L3, b3, Some perm)
  | None => (L2, b2, None)
  end.

(* ---- post-processing ---------------------------------------------------- *)
(* column_unstack(x, n)[i, j] = x[j*n + i] *)
Definition unstack n (x : fvec) : fmx := fun i j => x (j * n + i).
Definition stack n (M : fmx) : fvec := fun k => M (k %% n) (k %/ n).
Definition adjoint (M : fmx) : fmx := fun i j => cj (M j i).
Definition ftr n (M : fmx) : T := fsum n (fun i => M i i).
(* rho + rho.adjoint(); the code then multiplies by the float 0.5 *)
Definition herm2 (M : fmx) : fmx := fun i j => add (M i j) (adjoint M i j).

(* _steadystate_direct after solve: returns 2*rho_ss *)
Definition direct_post2 n (x : fvec) (perm : option (seq nat)) : fmx :=
  let x1 := match perm with Some p => reverse_rcm x p | None => x end in
  herm2 (unstack n x1).

(* _steadystate_eigen: rho / rho.tr()          -> (numerator, denominator) *)
Definition eigen_post n (v : fvec) := let V := unstack n v in (V, ftr n V).
(* _steadystate_svd: Qobj(rho) (no Hermiticity flag forced); rho / rho.tr() *)
Definition svd_post n (v : fvec) := let V := unstack n v in (V, ftr n V).
(* _steadystate_svd: u, s, vh = svd(L); vec = split_columns(vh.adjoint())[-1]:
   the LAST column of vh^dagger, i.e. the conjugated last row of vh *)
Definition svd_pick (N : nat) (vh : fmx) : fvec := fun k => cj (vh N.-1 k).

(* _steadystate_power: rho + rho.dag(); / tr *)
Definition power_post n (y : fvec) :=
  let S := herm2 (unstack n y) in (S, ftr n S).

(* ---- pseudo_inverse: P = kron(vec(rho), vec(1)^T), Q = I - P, R = Q @ LIQ *)
Definition fmulmx (N : nat) (A B : fmx) : fmx :=
  fun i j => fsum N (fun k => mul (A i k) (B k j)).
Definition fmulv (N : nat) (A : fmx) (x : fvec) : fvec :=
  fun i => fsum N (fun k => mul (A i k) (x k)).
Definition fid : fmx := fun i j => if i == j then one else zero.
Definition pinv_P n (rho : fmx) : fmx :=
  fun i j => mul (stack n rho i) (stack n fid j).
Definition pinv_Q n rho : fmx := fun i j => add (fid i j) (opp (pinv_P n rho i j)).
Definition pinv_R n rho (LIQ : fmx) : fmx := fmulmx (n * n) (pinv_Q n rho) LIQ.

(* pseudo_inverse(use_rcm=True): perm = reverse_cuthill_mckee(L) is used as it
   is (no argsort):  A = permute.indices(L + s, perm, perm),
   Q = permute.indices(Q, perm, perm), LIQ = solve(A, Q), R = Q @ LIQ,
   R = permute.indices(R, argsort(perm), argsort(perm)) *)
Definition pinv_rcm_system (perm : seq nat) (A Q : fmx) :=
  (perm_full perm perm A, perm_full perm perm Q).
Definition pinv_rcm_R (N : nat) (perm : seq nat) (Q' LIQ' : fmx) : fmx :=
  let rev_perm := argsort perm in perm_full rev_perm rev_perm (fmulmx N Q' LIQ').

(* ---- HEOMSolver.steady_state: row 0 of the generator is REPLACED by the
   trace functional of the system block (first n*n entries), b = e_0 *)
Definition heom_row n : fvec :=
  fun j => if (j < n * n) && is_diag_idx n j then one else zero.
Definition heom_L n (L : fmx) : fmx := fun i j => if i == 0 then heom_row n j else L i j.

End Exec.

(* ---- _steadystate_power: the iteration counter --------------------------
     it = 0
     while it < maxiter and norm(L @ y) > tol:  y = solve(L, y); it += 1
     if it >= maxiter and norm(L @ y) > tol: raise Exception('Failed ...')
   conv k = "the residual test passes after k solves". *)
Fixpoint power_loop (fuel maxiter it : nat) (conv : nat -> bool) : nat :=
  match fuel with
  | 0 => it
  | fuel'.+1 => if (it < maxiter) && ~~ conv it
                then power_loop fuel' maxiter it.+1 conv else it
  end.
Definition power_result (maxiter : nat) (conv : nat -> bool) : option nat :=
  let it := power_loop maxiter maxiter 0 conv in
  if (maxiter <= it) && ~~ conv it then None else Some it.

(* ---- _steadystate_eigen (with the dense fallback of 8c089c3):
     val, vec = LdL.eigenstates(eigvals=1, sort="low", sparse=sparse)
     if sparse and abs(val[0]) > 1e-8 * norm.max(LdL): val, vec = ...(sparse=False)
   big = "the sparse solver's lowest eigenvalue fails the smallness test" *)
Definition eigen_calls (sparse big : bool) : seq bool :=
  if sparse then (if big then [:: true; false] else [:: true]) else [:: false].
Definition eigen_pick (V : Type) (sparse big : bool) (v_sparse v_dense : V) : V :=
  if sparse && ~~ big then v_sparse else v_dense.

(* ---- _steadystate_expm (method "propagator"):
     niter = 0
     while niter < max_iter:
         rho_next = normalise(prop(rho))
         if hilbert_dist(rho_next, rho) <= tol: return rho_next
         rho = rho_next; prop = prop @ prop; niter += 1
     raise RuntimeError
   conv k = "the distance test passes in iteration k"; the propagator used in
   iteration k is sq_iter prop k *)
Fixpoint expm_loop (fuel max_iter it : nat) (conv : nat -> bool) : option nat :=
  match fuel with
  | 0 => None
  | fuel'.+1 => if it < max_iter
                then (if conv it then Some it else expm_loop fuel' max_iter it.+1 conv)
                else None
  end.
Definition expm_result (max_iter : nat) (conv : nat -> bool) : option nat :=
  expm_loop max_iter max_iter 0 conv.
Fixpoint sq_iter (T : Type) (mul : T -> T -> T) (p : T) (k : nat) : T :=
  if k is k'.+1 then let q := sq_iter mul p k' in mul q q else p.

(* ---- solve_csr_dense / solve_dia_dense: dispatch on what the scipy routine
   returned (qutip/core/data/solve.py, after `out = solver(M, b, **options)`):
     tuple of length 2  (x, info): iterative solver; info = 0 success,
        info > 0 "tolerance not reached", info < 0 "bad input" -> RuntimeError
     tuple of length > 2: least-squares solver (x, istop, ...): x is used
     anything else: the solution array.
   The payload x is an opaque tag. *)
Inductive sres := SArr (x : Z) | STup (x : Z) (rest : seq Z).
Inductive sout := SRet (x : Z) | SRaiseTol (code : Z) | SRaiseBad (code : Z).
Definition solve_dispatch (r : sres) : sout :=
  match r with
  | SArr x => SRet x
  | STup x [:: c] => if Z.eqb c 0 then SRet x
                     else if Z.ltb 0 c then SRaiseTol c else SRaiseBad c
  | STup x _ => SRet x
  end.

(* ---- execution instance: Gaussian integers ------------------------------- *)
Definition GZ := (Z * Z)%type.
Definition gz0 : GZ := (0%Z, 0%Z).
Definition gz1 : GZ := (1%Z, 0%Z).
Definition gzadd (a b : GZ) : GZ := (a.1 + b.1, a.2 + b.2)%Z.
Definition gzmul (a b : GZ) : GZ := (a.1 * b.1 - a.2 * b.2, a.1 * b.2 + a.2 * b.1)%Z.
Definition gzopp (a : GZ) : GZ := (- a.1, - a.2)%Z.
Definition gzcj (a : GZ) : GZ := (a.1, - a.2)%Z.
Definition gzre (a : GZ) : GZ := (a.1, 0%Z).
Definition gzeqb (a b : GZ) : bool := (Z.eqb a.1 b.1) && (Z.eqb a.2 b.2).

Definition of_rows (M : seq (seq GZ)) : fmx GZ := fun i j => nth gz0 (nth [::] M i) j.
Definition of_list (x : seq GZ) : fvec GZ := fun i => nth gz0 x i.
Definition tab_mx (N M : nat) (A : fmx GZ) : seq (seq GZ) :=
  mkseq (fun i => mkseq (fun j => A i j) M) N.
Definition tab_vec (N : nat) (x : fvec GZ) : seq GZ := mkseq x N.

Definition gz_direct_system n w L wbm rcm :=
  let '(L3, b3, p) := direct_system gz0 gz1 gzadd gzmul n w (of_rows L) wbm rcm in
  (tab_mx (n * n) (n * n) L3, tab_vec (n * n) b3, p).
Definition gz_direct_post2 n x perm :=
  tab_mx n n (direct_post2 gzadd gzcj n (of_list x) perm).
Definition gz_eigen_post n v :=
  let (V, d) := eigen_post gz0 gzadd n (of_list v) in (tab_mx n n V, d).
Definition gz_svd_post n v :=
  let (V, d) := svd_post gz0 gzadd n (of_list v) in (tab_mx n n V, d).
Definition gz_svd_route n vh :=
  let v := svd_pick gzcj (n * n) (of_rows vh) in
  let (V, d) := svd_post gz0 gzadd n v in (tab_mx n n V, d).
Definition gz_mulmx N A B := tab_mx N N (fmulmx gz0 gzadd gzmul N (of_rows A) (of_rows B)).
Definition gz_sq_iter N P k :=
  tab_mx N N (sq_iter (fmulmx gz0 gzadd gzmul N) (of_rows P) k).
Definition gz_power_post n v :=
  let (V, d) := power_post gz0 gzadd gzcj n (of_list v) in (tab_mx n n V, d).
Definition gz_pinv_R n rho LIQ :=
  tab_mx (n * n) (n * n) (pinv_R gz0 gz1 gzadd gzmul gzopp n (of_rows rho) (of_rows LIQ)).
Definition gz_pinv_rcm_R n perm rho LIQ' :=
  let Q' := perm_full perm perm (pinv_Q gz0 gz1 gzadd gzmul gzopp n (of_rows rho)) in
  tab_mx (n * n) (n * n) (pinv_rcm_R gz0 gzadd gzmul (n * n) perm Q' (of_rows LIQ')).
Definition gz_heom_L n N L := tab_mx N N (heom_L gz0 gz1 n (of_rows L)).
Definition gz_mulv N L x := tab_vec N (fmulv gz0 gzadd gzmul N (of_rows L) (of_list x)).
Definition gz_is_zero_vec (x : seq GZ) : bool := all (fun a => gzeqb a gz0) x.
