(* C16 - nm_mcsolve: NmMCIntegrator (qutip/solver/nm_mcsolve.py) = the
   MCIntegrator of Model/C16.v with two overrides,
     set_state    : super().set_state(...); self._martingale.initialize(t, cache='keep')
     _do_collapse : super()._do_collapse(...); if a collapse was appended,
                    self._martingale.add_collapse(time, channel of self.collapses[-1])
   and NonMarkovianMCSolver._run_one_traj, which after the trajectory reads
     result.trace = [self._martingale.value(t) for t in tlist].
   The InfluenceMartingale is the one of Model/C16_nm.v. *)
From Coq Require Import List Bool Arith ZArith QArith Floats.
Import ListNotations.
From QV Require Import Model.C16 Model.C16_nm.
Local Open Scope nat_scope.

Section NmInt.
Variable N : Num.
Notation TT := (T N).
Variable eqb : TT -> TT -> bool.
Variable o : opts N.
(* oracles of MCIntegrator *)
Variable nrm2 : nat -> TT -> TT.
Variable lg : TT -> TT.
Variable stp : nat -> TT -> TT -> TT.
Variable rate : nat -> TT -> TT -> nat -> TT.
Variable jnorm : nat -> TT -> TT -> nat -> TT.
Variable rnd : nat -> TT.
Variable nch : nat.
(* oracles of InfluenceMartingale *)
Variable a_parameter : TT.
Variable integ : TT -> TT -> TT.
Variable expo : TT -> TT.
Variable mrate : TT -> nat -> TT.
Variable mshift : TT -> TT.

Record nmst := mkNm {
  ns : mstate N;          (* the MCIntegrator part *)
  nm : mart N;            (* self._martingale *)
  nraised : bool }.       (* add_collapse raised RuntimeError *)

(* NmMCIntegrator._do_collapse *)
Definition nm_do_collapse (x : nmst) (t_col s : TT) : nmst :=
  let st' := do_collapse N o rate jnorm rnd nch (ns x) t_col s in
  if Nat.ltb (length (cols N (ns x))) (length (cols N st')) then
    match cols N st' with
    | (ct, ck) :: _ =>
        match m_add_collapse N mrate mshift (nm x) ct ck with
        | Some m' => mkNm st' m' (nraised x)
        | None => mkNm st' (nm x) true
        end
    | [] => mkNm st' (nm x) (nraised x)
    end
  else mkNm st' (nm x) (nraised x).

(* MCIntegrator.integrate with self._do_collapse dispatched to the override *)
Fixpoint nm_integ_loop (fuel : nat) (x : nmst) (t t_old norm_old : TT) : nmst * option TT * nat :=
  (* result: state, Some t_ret on normal return, status 0 done / 1 raised / 2 fuel *)
  match fuel with
  | O => (x, None, 2)
  | S f =>
    let st := ns x in
    if ltb N t_old t then
      let t_step := stp (seg N st) (cur N st) t in
      let st1 := mkSt N (seg N st) t_step (target N st) (ndraw N st) (cols N st) (sets N st)
                      (t :: reqlog N st) in
      let norm := nrm2 (seg N st) t_step in
      if leb N norm (target N st) then
        match find_collapse N o nrm2 lg stp (seg N st) t_step t_old t_step norm_old norm (target N st) with
        | (Some (t_col, s), reqs) =>
            let st2 := mkSt N (seg N st1) s (target N st1) (ndraw N st1) (cols N st1) (sets N st1)
                            (reqs ++ reqlog N st1) in
            let x3 := nm_do_collapse (mkNm st2 (nm x) (nraised x)) t_col s in
            nm_integ_loop f x3 t t_col (one N)
        | (None, reqs) =>
            (mkNm (mkSt N (seg N st1) (cur N st1) (target N st1) (ndraw N st1) (cols N st1)
                        (sets N st1) (reqs ++ reqlog N st1)) (nm x) (nraised x), None, 1)
        end
      else nm_integ_loop f (mkNm st1 (nm x) (nraised x)) t t_step norm
    else (x, Some t_old, 0)
  end.

Definition nm_integrate (fuel : nat) (x : nmst) (t : TT) :=
  nm_integ_loop fuel x t (cur N (ns x)) (nrm2 (seg N (ns x)) (cur N (ns x))).

(* NmMCIntegrator.set_state(t, state0, generator, no_jump, jump_prob_floor) *)
Definition nm_set_state (m : mart N) (t0 : TT) (no_jump : bool) (floor : TT) : nmst :=
  mkNm (init_state N rnd t0 no_jump floor)
       (m_initialize N eqb a_parameter integ expo m t0 (Keep N)) false.

Fixpoint nm_run_from (fuel : nat) (x : nmst) (ts : list TT) (rets : list TT)
  : nmst * list TT * nat :=
  match ts with
  | [] => (x, rets, 0)
  | t :: r =>
    match nm_integrate fuel x t with
    | (x', Some tr, _) => nm_run_from fuel x' r (tr :: rets)
    | (x', None, status) => (x', rets, status)
    end
  end.

(* result.trace = [self._martingale.value(t) for t in tlist] *)
Fixpoint read_trace (m : mart N) (ts : list TT) : mart N * list (option TT) :=
  match ts with
  | [] => (m, [])
  | t :: r =>
    match m_value N eqb a_parameter integ expo m t with
    | Some (m', v) => let '(m'', l) := read_trace m' r in (m'', Some v :: l)
    | None => let '(m'', l) := read_trace m r in (m'', None :: l)
    end
  end.

(* one trajectory of NonMarkovianMCSolver.run: the martingale object m comes
   from run's initialize(tlist[0], cache=tlist) *)
Definition nm_one_traj (fuel : nat) (m : mart N) (t0 : TT) (ts : list TT) (no_jump : bool) (floor : TT) :=
  let '(x, rets, status) := nm_run_from fuel (nm_set_state m t0 no_jump floor) ts [] in
  let '(m', tr) := read_trace (nm x) (t0 :: ts) in
  (mkNm (ns x) m' (nraised x), rev rets, status, tr).

(* the factor add_collapse records *)
Definition gfactor (c : TT * nat) : TT * TT :=
  (fst c, div N (mrate (fst c) (snd c)) (add N (mrate (fst c) (snd c)) (mshift (fst c)))).

End NmInt.

(* float instance: MCIntegrator tables as in Model/C16.v, martingale tables as
   in Model/C16_nm.v *)
Definition f_nm_observe (o : opts FN) (tb : ftables) (nch fuel : nat) (t0 : float) (ts : list float)
           (no_jump : bool) (floor : float)
           (a : float) (t_integ t_exp t_mrate t_mshift : list (fkey * float)) :=
  let m0 := m_initialize FN PrimFloat.eqb a
              (fun t1 t2 => lookup t_integ (0, t1, t2, 0)) (fun x => lookup t_exp (0, x, 0%float, 0))
              (m_new FN) t0 (Times FN (t0 :: ts)) in
  let '(x, rets, status, tr) :=
    nm_one_traj FN PrimFloat.eqb o
      (fun sg t => lookup (t_nrm2 tb) (sg, t, 0%float, 0))
      (fun x => lookup (t_lg tb) (0, x, 0%float, 0))
      (fun sg c t => lookup (t_stp tb) (sg, c, t, 0))
      (fun sg tc s k => lookup (t_rate tb) (sg, tc, s, k))
      (fun sg tc s k => lookup (t_jnorm tb) (sg, tc, s, k))
      (fun i => nth i (t_rnd tb) nan)
      nch a
      (fun t1 t2 => lookup t_integ (0, t1, t2, 0)) (fun x => lookup t_exp (0, x, 0%float, 0))
      (fun t i => lookup t_mrate (0, t, 0%float, i)) (fun t => lookup t_mshift (0, t, 0%float, 0))
      fuel m0 t0 ts no_jump floor in
  (status, rets, rev (cols FN (ns FN x)), disc FN (nm FN x), nraised FN x, tr).
