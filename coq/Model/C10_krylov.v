(* C10 - model of the bookkeeping of
   qutip.solver.integrator.krylov.IntegratorKrylov (method="krylov"):
   set_state, integrate (the re-basing loop), _max_step, _t_0.

     set_state(t, state0):
         _t_0 = t;  (tridiag, basis) = lanczos(state0 / |state0|)
         _krylov_state = eigen-set of the tridiagonal matrix (norm put back)
         if happy breakdown:  _max_step = +inf; return
         if not isfinite(_max_step) or always_compute_step:
             _max_step = _compute_max_step(...)
     integrate(t):
         step = 0
         while t > _t_0 + _max_step:
             step += 1
             if step >= nsteps: raise
             new_psi = _compute_psi(_max_step, *_krylov_state)
             set_state(_t_0 + _max_step, new_psi)
         return t, _compute_psi(t - _t_0, *_krylov_state)

   Oracles (numerics): lanczos s = (Krylov data of s, happy breakdown?),
   psi d k = _compute_psi(d, *k), cms k = _compute_max_step.  Times and step
   lengths are integers (any common unit); _max_step is an extended number.
   The ghost field k_log records the times at which the Lanczos basis was
   (re)built, newest first.  No proofs in this file. *)
From Coq Require Import List ZArith Bool.
Import ListNotations.
Local Open Scope Z_scope.

Inductive ext := NegInf | Fin (x : Z) | PosInf.
Definition ext_finite (e : ext) : bool := match e with Fin _ => true | _ => false end.

Section Krylov.
Variables St K : Type.
Variable lanczos : St -> K * bool.
Variable psi : Z -> K -> St.
Variable cms : K -> Z.
Variable always : bool.            (* options["always_compute_step"] *)
Variable nsteps : nat.             (* options["nsteps"] *)

Record kobj := mk_kobj {
  k_t0 : Z;                        (* _t_0 *)
  k_k : option K;                  (* _krylov_state; None before set_state *)
  k_ms : ext;                      (* _max_step *)
  k_log : list Z                   (* ghost *)
}.

(* after _prepare: -inf when always_compute_step, else a trial value *)
Definition k_prepare (ms0 : ext) : kobj := mk_kobj 0 None ms0 [].

Definition k_set_state (t : Z) (s : St) (o : kobj) : kobj :=
  let (k, hb) := lanczos s in
  mk_kobj t (Some k)
          (if hb then PosInf
           else if negb (ext_finite (k_ms o)) || always then Fin (cms k)
           else k_ms o)
          (t :: k_log o).

(* the while loop of integrate; None = exception (too many steps, or the
   meaningless -inf window) *)
Fixpoint k_rebase (fuel : nat) (step : nat) (t : Z) (o : kobj) : option kobj :=
  match k_ms o with
  | PosInf => Some o
  | NegInf => None
  | Fin m =>
    if t >? k_t0 o + m then
      if (nsteps <=? S step)%nat then None
      else match fuel, k_k o with
           | S f, Some k => k_rebase f (S step) t (k_set_state (k_t0 o + m) (psi m k) o)
           | _, _ => None
           end
    else Some o
  end.

Definition k_integrate (t : Z) (o : kobj) : option (kobj * (Z * St)) :=
  match k_rebase nsteps 0 t o with
  | None => None
  | Some o' => match k_k o' with
               | None => None
               | Some k => Some (o', (t, psi (t - k_t0 o') k))
               end
  end.

Inductive kop := KSet (t : Z) (s : St) | KInt (t : Z).

Fixpoint k_run (ops : list kop) (o : kobj) : list (option (Z * St)) * kobj :=
  match ops with
  | [] => ([], o)
  | KSet t s :: r => k_run r (k_set_state t s o)
  | KInt t :: r => match k_integrate t o with
                   | None => ([None], o)
                   | Some (o', out) => let (outs, ofin) := k_run r o' in (Some out :: outs, ofin)
                   end
  end.
End Krylov.

(* ---- executable instance for the correspondence harness ----
   a state is m * i^k (m > 0 an integer; only k mod 4 matters for the value);
   the exact flow over d time units multiplies by i^d; the scripted Lanczos reports a happy breakdown
   when the phase is real (k even); the scripted step length depends on the
   phase. *)
Definition tstate := (Z * Z)%type.
Definition toy_flow (d : Z) (s : tstate) : tstate := (fst s, snd s + d).
Definition toy_lanczos (s : tstate) : tstate * bool := (s, Z.even (snd s)).
Definition toy_psi (d : Z) (k : tstate) : tstate := toy_flow d k.
Definition toy_cms (tbl : list Z) (k : tstate) : Z := nth (Z.to_nat (snd k mod 4)) tbl 1.
Definition toy_k_run (tbl : list Z) (always : bool) (nsteps : nat) (ms0 : ext)
           (ops : list (kop tstate)) :=
  let '(outs, o) := k_run tstate tstate toy_lanczos toy_psi (toy_cms tbl) always nsteps ops
                          (k_prepare tstate ms0) in
  (outs, rev (k_log tstate o), k_ms tstate o).
