(* C05 - execution instance for the tensor / superoperator lifts: 4x4 matrices
   of Gaussian integers, written as 2x2 blocks of the 2x2 matrices of
   Model/C05.v.  An operator on the 2-dimensional space is the matrix with that
   operator in the top-left block; superoperators and operators on the
   tensor-product space use the whole matrix.  The Qobj-level maps that
   superoperator.py / tensor.py hand to QobjEvo.linear_map read the top-left
   block of their argument:
     spre(A)       = kron(identity_like(A), A)
     spost(A)      = kron_transpose(A, identity_like(A)) = kron(A^T, 1)
     tensor(q, A)  = kron(q, A),   tensor(A, q) = kron(A, q).           *)
From Coq Require Import List ZArith Bool.
Import ListNotations.
From QV Require Import Model.C05.

Definition M4 := ((M2 * M2) * (M2 * M2))%type.
Definition blk (a b c d : M2) : M4 := ((a, b), (c, d)).
Definition b11 (m : M4) := fst (fst m).
Definition b12 (m : M4) := snd (fst m).
Definition b21 (m : M4) := fst (snd m).
Definition b22 (m : M4) := snd (snd m).
Definition z4 : M4 := blk z2 z2 z2 z2.
Definition i4 : M4 := blk i2 z2 z2 i2.
Definition add4 (x y : M4) : M4 :=
  blk (add2 (b11 x) (b11 y)) (add2 (b12 x) (b12 y)) (add2 (b21 x) (b21 y)) (add2 (b22 x) (b22 y)).
Definition mul4 (x y : M4) : M4 :=
  blk (add2 (mul2 (b11 x) (b11 y)) (mul2 (b12 x) (b21 y)))
      (add2 (mul2 (b11 x) (b12 y)) (mul2 (b12 x) (b22 y)))
      (add2 (mul2 (b21 x) (b11 y)) (mul2 (b22 x) (b21 y)))
      (add2 (mul2 (b21 x) (b12 y)) (mul2 (b22 x) (b22 y))).
Definition scale4 (z : GI) (x : M4) : M4 :=
  blk (scale2 z (b11 x)) (scale2 z (b12 x)) (scale2 z (b21 x)) (scale2 z (b22 x)).
Definition trans4 (x : M4) : M4 :=
  blk (trans2 (b11 x)) (trans2 (b21 x)) (trans2 (b12 x)) (trans2 (b22 x)).
Definition conj4 (x : M4) : M4 :=
  blk (conj2 (b11 x)) (conj2 (b12 x)) (conj2 (b21 x)) (conj2 (b22 x)).
Definition dag4 (x : M4) : M4 :=
  blk (dag2 (b11 x)) (dag2 (b21 x)) (dag2 (b12 x)) (dag2 (b22 x)).
Definition tr4 (x : M4) : GI := gadd (tr2 (b11 x)) (tr2 (b22 x)).
Definition eqb4 (x y : M4) : bool :=
  (eqb2 (b11 x) (b11 y) && eqb2 (b12 x) (b12 y) && eqb2 (b21 x) (b21 y) && eqb2 (b22 x) (b22 y))%bool.

(* an operator of the small space inside the universe *)
Definition emb (x : M2) : M4 := blk x z2 z2 z2.
(* Kronecker product of two operators of the small space *)
Definition kron2 (x y : M2) : M4 :=
  blk (scale2 (e11 x) y) (scale2 (e12 x) y) (scale2 (e21 x) y) (scale2 (e22 x) y).

Definition spre_f (y : M4) : M4 := kron2 i2 (b11 y).
Definition spost_f (y : M4) : M4 := kron2 (trans2 (b11 y)) i2.
Definition tens_l (y : M4) : M4 := kron2 (b11 y) i2.            (* tensor(., qeye) *)
Definition tens_r (y : M4) : M4 := kron2 i2 (b11 y).            (* tensor(qeye, .) *)
Definition tens_ql (q : M2) (y : M4) : M4 := kron2 q (b11 y).   (* partial(tensor, q) *)
Definition tens_qr (q : M2) (y : M4) : M4 := kron2 (b11 y) q.   (* _reverse_partial_tensor(q) *)

(* row-major list of the 16 entries, each as [re; im] *)
Definition flatg4 (g : GI) : list Z := [fst g; snd g].
Definition row4 (a b : M2) (top : bool) : list Z :=
  if top then flatg4 (e11 a) ++ flatg4 (e12 a) ++ flatg4 (e11 b) ++ flatg4 (e12 b)
  else flatg4 (e21 a) ++ flatg4 (e22 a) ++ flatg4 (e21 b) ++ flatg4 (e22 b).
Definition flat4 (m : M4) : list Z :=
  row4 (b11 m) (b12 m) true ++ row4 (b11 m) (b12 m) false ++
  row4 (b21 m) (b22 m) true ++ row4 (b21 m) (b22 m) false.
