(* C10 - model of qutip.solver.integrator.qutip_integrator.IntegratorDiag
   (method="diag"): _prepare, set_state, integrate, get_state.

     _prepare : _dt = 0.; _expH = None; diag, U = eigs(H0); Uinv = inv(U)
     set_state(t, state0): _t = t; _y = Uinv @ state0
     integrate(t):
         dt = t - self._t
         if dt == 0: return self.get_state()
         elif self._dt != dt:
             self._expH = np.exp(self.diag * dt); self._dt = dt
         self._y *= self._expH; self._t = t
         return self.get_state()
     get_state(): return self._t, U @ self._y

   The numerics are oracles: expd dt = exp(diag*dt) (a vector of phases),
   vmulE = element-wise product, toU = U @ . , fromU = Uinv @ . ; times are
   an abstract type with subtraction and equality test.  What is modelled
   exactly is the bookkeeping: the cached exponential keyed by the step dt.
   The ghost field d_log records every step length for which the exponential
   was (re)computed, newest first.  No proofs in this file. *)
From Coq Require Import List ZArith QArith Bool.
Import ListNotations.

Section Diag.
Variables T Y S E : Type.
Variable tsub : T -> T -> T.
Variable tzero : T.
Variable teqb : T -> T -> bool.
Variable expd : T -> E.
Variable vmulE : Y -> E -> Y.
Variable toU : Y -> S.
Variable fromU : S -> Y.

Record dobj := mk_dobj {
  d_set : option (T * Y);      (* (_t, _y); None before set_state *)
  d_dt : T;                    (* _dt *)
  d_exp : option E;            (* _expH (None after _prepare) *)
  d_log : list T               (* ghost *)
}.

Definition d_prepare : dobj := mk_dobj None tzero None [].

Definition d_set_state (t : T) (s : S) (o : dobj) : dobj :=
  mk_dobj (Some (t, fromU s)) (d_dt o) (d_exp o) (d_log o).

(* None = an exception (not set, or `_y *= None`) *)
Definition d_integrate (t : T) (o : dobj) : option (dobj * (T * S)) :=
  match d_set o with
  | None => None
  | Some (t0, y) =>
    let dt := tsub t t0 in
    if teqb dt tzero then Some (o, (t0, toU y))
    else
      let refresh := negb (teqb (d_dt o) dt) in
      let dtc := if refresh then dt else d_dt o in
      let ex := if refresh then Some (expd dt) else d_exp o in
      let lg := if refresh then dt :: d_log o else d_log o in
      match ex with
      | None => None
      | Some e => let y' := vmulE y e in
                  Some (mk_dobj (Some (t, y')) dtc ex lg, (t, toU y'))
      end
  end.

Inductive dop := DSet (t : T) (s : S) | DInt (t : T).

(* a history on one object: the outputs of the integrate calls (None = raised;
   the history stops there) *)
Fixpoint d_run (ops : list dop) (o : dobj) : list (option (T * S)) * dobj :=
  match ops with
  | [] => ([], o)
  | DSet t s :: r => d_run r (d_set_state t s o)
  | DInt t :: r => match d_integrate t o with
                   | None => ([None], o)
                   | Some (o', out) => let (outs, ofin) := d_run r o' in (Some out :: outs, ofin)
                   end
  end.

(* the reference: the state set last, carried over the elapsed time in one go *)
Fixpoint d_ref (ops : list dop) (cur : option (T * S)) : list (option (T * S)) :=
  match ops with
  | [] => []
  | DSet t s :: r => d_ref r (Some (t, s))
  | DInt t :: r => match cur with
                   | None => [None]
                   | Some (t0, s0) =>
                     Some (t, toU (vmulE (fromU s0) (expd (tsub t t0)))) :: d_ref r cur
                   end
  end.
End Diag.

(* ---- executable instance for the correspondence harness ----
   times are integers, diag = integer exponents k_j, the scripted exponential
   is exp(k*dt) := 2^(k*dt) (exact in binary floating point), U and Uinv are
   integer matrices. *)
Definition qv := list Q.
Definition q_dot (u v : qv) : Q := fold_right (fun p a => Qred (fst p * snd p + a)) 0%Q (combine u v).
Definition q_matvec (m : list qv) (v : qv) : qv := map (fun r => q_dot r v) m.
Definition pow2 (z : Z) : Q := Qred (Qpower 2 z).
Definition toy_expd (diag : list Z) (dt : Z) : qv := map (fun k => pow2 (k * dt)) diag.
Definition toy_vmul (y e : qv) : qv := map (fun p => Qred (fst p * snd p)) (combine y e).
Definition zq (m : list (list Z)) : list qv := map (map inject_Z) m.

Definition toy_d_run (diag : list Z) (u uinv : list (list Z)) (ops : list (dop Z qv)) :=
  let '(outs, o) := d_run Z qv qv qv Z.sub 0%Z Z.eqb (toy_expd diag) toy_vmul
                          (q_matvec (zq u)) (q_matvec (zq uinv)) ops
                          (d_prepare Z qv qv 0%Z) in
  (map (option_map (fun p => (fst p, map (fun q => (Qnum q, Zpos (Qden q))) (snd p)))) outs,
   rev (d_log Z qv qv o)).
