(* C16 - model of IntegratorScipyDop853.set_state / mcstep / get_state
   (qutip/solver/integrator/scipy_integrator.py), the way MCIntegrator uses it.
   SciPy's dop853 is an oracle: `ode.integrate(t)` reports a time r; its
   contract is r = t, except that going forward it may stop one rounding error
   short (flag `near`: 0 < t - r <= 2 ulp, the case mcstep snaps to t).
   `dt` is work[6], dop853's "safe step length" (0 when unknown).  Times are
   integers (the harness scales the doubles of a case exactly). *)
From Coq Require Import List ZArith Bool.
Import ListNotations.
Open Scope Z_scope.

Record dst := mk_dst { d_isset : bool; d_t : Z }.   (* _is_set, _ode_solver.t *)

Definition d_new : dst := mk_dst false 0.

(* set_state(t, state0) *)
Definition d_set_state (s : dst) (t : Z) : dst := mk_dst true t.

(* the time asked of scipy by a forward call: min(ode.t + dt, t) when dt != 0 *)
Definition d_target (s : dst) (t dt : Z) : Z :=
  if dt =? 0 then t else Z.min (d_t s + dt) t.

(* mcstep(t): result = (raised by get_state?, returned time) *)
Definition d_mcstep (s : dst) (t dt r : Z) (near : bool) : dst * (bool * Z) :=
  let s1 :=
    if d_t s =? t then s                                   (* nothing to do *)
    else if d_t s <=? t then
      let t' := d_target s t dt in
      (* ode.integrate(t'); then: if 0 < t' - ode.t <= 2 ulp: ode.t = t' *)
      mk_dst (d_isset s) (if r =? t' then t' else if near then t' else r)
    else
      (* backward: work[6] *= -1; ode.integrate(t); work[6] *= -1 *)
      mk_dst (d_isset s) r in
  (s1, (negb (d_isset s1), d_t s1)).

Inductive dop := DSet (t : Z) | DMc (t dt r : Z) (near : bool).

Definition d_do (s : dst) (o : dop) : dst * (bool * Z) :=
  match o with
  | DSet t => (d_set_state s t, (false, t))
  | DMc t dt r near => d_mcstep s t dt r near
  end.

(* what the harness observes after each call: raised, returned time, _is_set, ode.t *)
Fixpoint d_trace (s : dst) (ops : list dop) : list (bool * Z * (bool * Z)) :=
  match ops with
  | [] => []
  | o :: r => let '(s1, (raised, tout)) := d_do s o in
              (raised, tout, (d_isset s1, d_t s1)) :: d_trace s1 r
  end.

(* scipy's contract for one call *)
Definition d_contract (s : dst) (o : dop) : Prop :=
  match o with
  | DSet _ => True
  | DMc t dt r near =>
      if d_t s =? t then True
      else if d_t s <=? t then r = d_target s t dt \/ near = true
      else r = t
  end.
