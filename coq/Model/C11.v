(* C11 - model of the propagator memo of qutip/solver/propagator.py
   (class Propagator: __init__, _lookup_or_compute, __call__, _compute, _inv,
   _insert) over an abstract evolution groupoid.

   The numerics are an oracle: `U a t s` is the exact evolution operator from
   time s to time t of the system with arguments a, `mul`/`one`/`inv` the
   operator product, identity and inverse.  The solver behind the Propagator
   is modelled by its contract (Solver.start / Solver.step of solver_base.py
   over an exact integrator): start(X, t0) sets the live position to (t0, X);
   step(t) moves the live position (s, X) to (t, U a t s * X) and returns the
   new state.  Everything else (memo lists, searchsorted, tolerance tests,
   branch selection, eviction, argument reset) is modelled line by line.

   No proofs in this file. *)
From Coq Require Import List ZArith Bool Arith.
Import ListNotations.
Open Scope Z_scope.

(* ------------------------------------------------------------------ lists *)
(* del l[n] *)
Definition remove_at {X} (n : nat) (l : list X) : list X :=
  firstn n l ++ skipn (S n) l.

(* Python list.insert(i, x): negative i counts from the end, out-of-range
   positions are clipped *)
Definition py_pos (i : Z) (len : nat) : nat :=
  if i <? 0 then Z.to_nat (Z.max 0 (Z.of_nat len + i)) else Z.to_nat i.
Definition insert_at {X} (i : Z) (x : X) (l : list X) : list X :=
  let n := py_pos i (length l) in firstn n l ++ x :: skipn n l.

(* l[idx-1] for idx >= 0 with Python's wrap-around: l[-1] is the last item *)
Definition nth_prev {X} (l : list X) (idx : nat) (d : X) : X :=
  match idx with O => last l d | S i => nth i l d end.

(* numpy.searchsorted(l, t) (side='left'): the binary search of
   numpy/core/src/npysort/binsearch.cpp for one key *)
Fixpoint bsearch (fuel : nat) (l : list Z) (t : Z) (lo hi : nat) : nat :=
  match fuel with
  | O => lo
  | S f =>
      if Nat.ltb lo hi then
        let mid := (lo + Nat.div2 (hi - lo))%nat in
        if nth mid l 0 <? t then bsearch f l t (S mid) hi
        else bsearch f l t lo mid
      else lo
  end.
Definition searchsorted (l : list Z) (t : Z) : nat :=
  bsearch (S (length l)) l t 0 (length l).

(* the linear meaning on sorted lists: length of the prefix of items < t *)
Fixpoint lsearch (l : list Z) (t : Z) : nat :=
  match l with
  | [] => O
  | x :: r => if x <? t then S (lsearch r t) else O
  end.

Section Propagator.
  Variable G : Type.                (* operators *)
  Variable A : Type.                (* argument sets (`args` dictionaries) *)
  Variable A_eqb : A -> A -> bool.
  Variable mul : G -> G -> G.
  Variable one : G.
  Variable inv : G -> G.
  Variable U : A -> Z -> Z -> G.    (* oracle: exact evolution s -> t *)
  Variable cte : bool.              (* self.cte = solver.rhs.isconstant *)
  Variable tol : Z.                 (* self.tol *)
  Variable memo : nat.              (* self.memoize = max(3, int(memoize)) *)
  Variable old_rule : bool.         (* false: _compute as in the source (since
                                       commit 3b5adfb); true: the backward
                                       branch as it was before that commit,
                                       kept only to document the former
                                       defect and to recognise a regression *)

  Record pst := mk_pst {
    times : list Z;                 (* self.times *)
    props : list G;                 (* self.props *)
    lt : Z;                         (* live integrator time *)
    lU : G;                         (* live integrator state *)
    pargs : option A;               (* self.args *)
    sargs : A;                      (* arguments the solver currently uses *)
    steps : list (Z * Z)            (* log of solver.step calls (from, to),
                                       newest first; ghost, for the
                                       forward-integration theorem and the
                                       trace correspondence *)
  }.

  (* Propagator.__init__ : times=[0], props=[1], solver.start(1, 0) *)
  Definition init (a0 : A) (pa : option A) : pst :=
    mk_pst [0] [one] 0 one pa a0 [].

  (* Solver.start(state0, t0) *)
  Definition start (s : pst) (x : G) (t0 : Z) : pst :=
    mk_pst (times s) (props s) t0 x (pargs s) (sargs s) (steps s).

  (* Solver.step(t) over an exact integrator *)
  Definition step (s : pst) (t : Z) : G * pst :=
    let u := mul (U (sargs s) t (lt s)) (lU s) in
    (u, mk_pst (times s) (props s) t u (pargs s) (sargs s)
               ((lt s, t) :: steps s)).

  (* Propagator._compute(t, idx) *)
  Definition compute (s : pst) (t : Z) (idx : nat) : G * pst :=
    if (nth_prev (times s) idx 0 <=? lt s) && (lt s <=? t) then
      step s t
    else if Nat.ltb 0 idx then
      step (start s (nth (idx - 1) (props s) one) (nth (idx - 1) (times s) 0)) t
    else
      let '(ui, s1) := step (start s one t) (nth idx (times s) 0) in
      if old_rule then (inv ui, s1)
      else
        let u := mul (inv ui) (nth idx (props s) one) in
        (u, start s1 u t).

  (* the `while len(self.times) >= self.memoize` loop of _insert *)
  Fixpoint evict (fuel : nat) (ts : list Z) (ps : list G) (t : Z) (idx : Z)
    : list Z * list G * Z :=
    match fuel with
    | O => (ts, ps, idx)
    | S f =>
        if Nat.leb memo (length ts) then
          let rm := Nat.div2 memo in
          let idx' := if nth rm ts 0 <? t then idx - 1 else idx in
          evict f (remove_at rm ts) (remove_at rm ps) t idx'
        else (ts, ps, idx)
    end.

  (* Propagator._insert(t, U, idx) *)
  Definition insert (s : pst) (t : Z) (u : G) (idx : nat) : pst :=
    let '(ts, ps, i) := evict (S (length (times s))) (times s) (props s) t
                              (Z.of_nat idx) in
    mk_pst (insert_at i t ts) (insert_at i u ps) (lt s) (lU s) (pargs s)
           (sargs s) (steps s).

  Definition within (t x : Z) : bool := Z.abs (t - x) <=? tol.

  (* Propagator._lookup_or_compute(t) *)
  Definition lookup (s : pst) (t : Z) : G * pst :=
    let idx := searchsorted (times s) t in
    if Nat.ltb idx (length (times s)) && within t (nth idx (times s) 0) then
      (nth idx (props s) one, s)
    else if Nat.ltb 0 idx && within t (nth (idx - 1) (times s) 0) then
      (nth (idx - 1) (props s) one, s)
    else
      let '(u, s1) := compute s t idx in (u, insert s1 t u idx).

  Definition opt_is (o : option A) (x : A) : bool :=
    match o with Some y => A_eqb x y | None => false end.

  (* the argument-change branch of __call__ *)
  Definition reset (s : pst) (x : A) : pst :=
    mk_pst [0] [one] 0 one (Some x) x (steps s).

  Definition apply_args (s : pst) (a : option A) : pst :=
    match a with
    | Some x => if negb cte && negb (opt_is (pargs s) x) then reset s x else s
    | None => s
    end.

  (* Propagator.__call__(t, t_start, **args); a = None stands for no / empty
     keyword arguments *)
  Definition call (s : pst) (t tstart : Z) (a : option A) : G * pst :=
    let s0 := apply_args s a in
    if tstart =? 0 then lookup s0 t
    else
      let s1 := if t =? tstart then snd (lookup s0 0) else s0 in
      if cte then lookup s1 (t - tstart)
      else
        let '(us, s2) := lookup s1 tstart in
        let '(ut, s3) := lookup s2 t in
        (mul ut (inv us), s3).

  (* a history of queries *)
  Definition query := (Z * Z * option A)%type.
  Fixpoint run (s : pst) (qs : list query) : list G * pst :=
    match qs with
    | [] => ([], s)
    | (t, ts, a) :: r =>
        let '(u, s1) := call s t ts a in
        let '(us, s2) := run s1 r in (u :: us, s2)
    end.

  (* the arguments in force after a query *)
  Definition cur_args (cur : A) (a : option A) : A :=
    match a with Some x => x | None => cur end.
End Propagator.

Arguments times {G A}. Arguments props {G A}. Arguments lt {G A}.
Arguments lU {G A}. Arguments pargs {G A}. Arguments sargs {G A}.
Arguments steps {G A}.

(* ------------------------------------------------------------------------
   Executable instance: the integer Heisenberg group.  (a, b, c) stands for
   [[1, a, c], [0, 1, b], [0, 0, 1]].  Two flows:
     constant system      G(t) = exp(t N) = (2t, t, t^2),
     time-dependent       G_k(t) = (k t, t^2, t^3)   (k = args['k']),
   U k t s = G_k(t) G_k(s)^-1.  Non-commutative, exact in double precision
   for the integer times used by the correspondence harness. *)
Definition H3 := (Z * Z * Z)%type.
Definition hmul (x y : H3) : H3 :=
  let '(a1, b1, c1) := x in let '(a2, b2, c2) := y in
  (a1 + a2, b1 + b2, c1 + c2 + a1 * b2).
Definition hone : H3 := (0, 0, 0).
Definition hinv (x : H3) : H3 := let '(a, b, c) := x in (- a, - b, a * b - c).
Definition hflow (cte : bool) (k t : Z) : H3 :=
  if cte then (2 * t, t, t * t) else (k * t, t * t, t * t * t).
Definition hU (cte : bool) (k t s : Z) : H3 :=
  hmul (hflow cte k t) (hinv (hflow cte k s)).

(* what the harness observes after every query: the answer, the memo, the
   live integrator position and the solver.step calls made by this query *)
Definition obs := (H3 * list Z * list H3 * (Z * H3) * list (Z * Z))%type.

Fixpoint run_obs (old_rule cte : bool) (tol : Z) (memo : nat)
    (s : pst H3 Z) (qs : list (Z * Z * option Z)) : list obs :=
  match qs with
  | [] => []
  | (t, ts, a) :: r =>
      let n0 := length (steps s) in
      let '(u, s1) := call H3 Z Z.eqb hmul hone hinv (hU cte) cte tol memo
                           old_rule s t ts a in
      (u, times s1, props s1, (lt s1, lU s1),
       rev (firstn (length (steps s1) - n0) (steps s1)))
      :: run_obs old_rule cte tol memo s1 r
  end.

Definition observe (old_rule cte : bool) (tol : Z) (memoize : nat) (k0 : Z)
    (qs : list (Z * Z * option Z)) : list obs :=
  run_obs old_rule cte tol (Nat.max 3 memoize) (init H3 Z hone k0 None) qs.
