(* C20 - further executable models (stdlib): swap(N, M), thermal_dm weights,
   jmat x/y from J+ (see Proofs/C20_ext.v). *)
From Coq Require Import List ZArith QArith Bool Arith Lia.
Import ListNotations.
From QV Require Import Model.C20.

(* ----------------------------------------------- operators.py swap(N, M)
     cols = np.ravel(M * np.arange(N)[None, :] + np.arange(M)[:, None])
     rows = np.arange(N * M + 1);  data = ones:  CSR row r holds a single 1 in
     column cols[r].  The broadcast array has shape (M, N), element [m][n] =
     M*n + m, and ravel is row-major. *)
Definition swap_cols (N M : nat) : list nat :=
  flat_map (fun m => map (fun n => M * n + m)%nat (seq 0 N)) (seq 0 M).
Definition swap_col (N M r : nat) : nat := nth r (swap_cols N M) 0%nat.

(* ------------------------------------------------- states.py thermal_dm
   analytic: diags = (1.0 + n) ** (-1.0) * (n / (1.0 + n)) ** i
   operator: beta = log(1/n + 1); diags = exp(-beta * i) = (n/(1+n))**i;
             diags = diags / sum(diags)
   exact rational arithmetic *)
Fixpoint qpow (a : Q) (k : nat) : Q :=
  match k with O => 1%Q | S j => (a * qpow a j)%Q end.
Definition thermal_analytic (N : nat) (n : Q) : list Q :=
  map (fun i => (/ (1 + n)) * qpow (n / (1 + n)) i)%Q (seq 0 N).
Definition qsum (l : list Q) : Q := fold_right Qplus 0%Q l.
Definition thermal_operator (N : nat) (n : Q) : list Q :=
  let d := map (fun i => qpow (n / (1 + n)) i)%Q (seq 0 N) in
  map (fun x => x / qsum d)%Q d.

(* -------------------------------------------------- operators.py qft(N)
     arr = np.arange(N2); L, M = np.meshgrid(arr, arr)     L[r][c] = c, M[r][c] = r
     data = np.exp(phase * (L * M)) / np.sqrt(N2),  phase = 2 pi i / N2
   exponent table of the root of unity *)
Definition qft_exponent (r c : nat) : nat := (c * r)%nat.

(* closed form of the swap column table (proved equal to swap_col in
   Proofs/C20_ext.v); used to evaluate the model at large sizes *)
Definition swap_col_formula (N M r : Z) : Z := (M * (r mod N) + r / N)%Z.
