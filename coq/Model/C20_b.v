(* C20 - further executable models (stdlib): swap(N, M), thermal_dm weights,
   jmat x/y from J+ (see Proofs/C20_ext.v). *)
From Coq Require Import List ZArith QArith Bool Arith Lia.
Import ListNotations.
From QV Require Import Model.C20.

(* ----------------------------------------------- operators.py swap(N, M)
     cols = np.ravel(M * np.arange(N)[None, :] + np.arange(M)[:, None])
     rows = np.arange(N * M + 1);  data = ones:  CSR row r holds a single 1 in
     column cols[r].  The broadcast array has shape (M, N), element [m][n] =
     M*n + m, and ravel is row-major. *)
Definition swap_cols (N M : nat) : list nat :=
  flat_map (fun m => map (fun n => M * n + m)%nat (seq 0 N)) (seq 0 M).
Definition swap_col (N M r : nat) : nat := nth r (swap_cols N M) 0%nat.

(* ------------------------------------------------- states.py thermal_dm
   analytic: diags = (1.0 + n) ** (-1.0) * (n / (1.0 + n)) ** i
   operator: beta = log(1/n + 1); diags = exp(-beta * i) = (n/(1+n))**i;
             diags = diags / sum(diags)
   exact rational arithmetic *)
Fixpoint qpow (a : Q) (k : nat) : Q :=
  match k with O => 1%Q | S j => (a * qpow a j)%Q end.
Definition thermal_analytic (N : nat) (n : Q) : list Q :=
  map (fun i => (/ (1 + n)) * qpow (n / (1 + n)) i)%Q (seq 0 N).
Definition qsum (l : list Q) : Q := fold_right Qplus 0%Q l.
Definition thermal_operator (N : nat) (n : Q) : list Q :=
  let d := map (fun i => qpow (n / (1 + n)) i)%Q (seq 0 N) in
  map (fun x => x / qsum d)%Q d.

(* -------------------------------------------------- operators.py qft(N)
     arr = np.arange(N2); L, M = np.meshgrid(arr, arr)     L[r][c] = c, M[r][c] = r
     data = np.exp(phase * (L * M)) / np.sqrt(N2),  phase = 2 pi i / N2
   exponent table of the root of unity *)
Definition qft_exponent (r c : nat) : nat := (c * r)%nat.

(* closed form of the swap column table (proved equal to swap_col in
   Proofs/C20_ext.v); used to evaluate the model at large sizes *)
Definition swap_col_formula (N M r : Z) : Z := (M * (r mod N) + r / N)%Z.

(* ------------------------------- energy_restricted.py enr_thermal_dm(dims, E, n)
     diags = [np.prod((n / (n + 1)) ** np.array(state)) for state in idx2state.values()]
     diags /= np.sum(diags)
   exact rationals; 0 ** 0 = 1 as in NumPy (qpow a 0 = 1), so a mode with
   n_k = 0 contributes 1 to states without quanta in it and 0 to the others *)
Fixpoint enr_weight (n : list Q) (st : list Z) : Q :=
  match n, st with
  | nk :: nr, sk :: sr => (qpow (nk / (1 + nk)) (Z.to_nat sk) * enr_weight nr sr)%Q
  | _, _ => 1%Q
  end.
Definition enr_thermal (sts : list (list Z)) (n : list Q) : list Q :=
  let d := map (enr_weight n) sts in map (fun x => x / qsum d)%Q d.

(* definition-level meaning: the product of single-mode thermal states
   (operator method: populations r^i / sum_{i<d} r^i) on the full space *)
Definition partition (d : Z) (nk : Q) : Q :=
  qsum (map (fun i => qpow (nk / (1 + nk)) i) (seq 0 (Z.to_nat d))).
Fixpoint prod_weight (dims : list Z) (n : list Q) (st : list Z) : Q :=
  match dims, n, st with
  | d :: dr, nk :: nr, sk :: sr =>
      ((qpow (nk / (1 + nk)) (Z.to_nat sk) / partition d nk) * prod_weight dr nr sr)%Q
  | _, _, _ => 1%Q
  end.
Fixpoint partition_prod (dims : list Z) (n : list Q) : Q :=
  match dims, n with
  | d :: dr, nk :: nr => (partition d nk * partition_prod dr nr)%Q
  | _, _ => 1%Q
  end.
