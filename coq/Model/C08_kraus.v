(* C08 - extension of the index model: superop_reps.py::_choi_to_kraus, the
   part after the eigen-solver.  The solver's output enters as data: the
   square roots sq_k of the eigenvalues (np.sqrt(val)) and the eigenvectors. *)
From Coq Require Import List ZArith Bool Arith Lia.
Import ListNotations.
From QV Require Import Model.C08.

(* dims = [q.dims[0][1], q.dims[0][0]]; shape = (prod dims[0][1], prod dims[0][0]);
   K_k = unstack_columns(vec_k, shape) * sqrt(val_k): K_k[r, i] = vec_k[i*dO + r] * sq_k;
   eigenvalues below tol are dropped (exact data: the zero ones) *)
Definition choi_to_kraus_from (q : sobj GZ) (sq : list GZ) (vecs : list (list GZ)) : list oper :=
  let '((a, b), (c, d)) := s_dims q in
  let dO := prodl b in let dI := prodl a in
  map (fun k => mkO dO dI b a
         (mbuild dO dI (fun r i => gmul (nth (i * dO + r) (nth k vecs []) g0) (nth k sq g0))))
      (filter (fun k => negb (geqb (nth k sq g0) g0)) (seq 0 (length sq))).
