(* C16 - Monte-Carlo trajectories: executable model of
     qutip/solver/mcsolve.py  MCIntegrator.set_state / integrate /
     _find_collapse_time / _do_collapse, and of the weight rule of
     MCSolver._run_one_traj (improved sampling).
   The model is generic in the number type (record Num): it is run on IEEE
   doubles (PrimFloat, bit-exact with NumPy for + - * / abs < <=) for the
   correspondence with the real MCIntegrator, and on exact rationals (Q) for
   the theorems that need arithmetic.  Everything numerical that the code
   obtains from elsewhere is an oracle (function argument):
     nrm2  seg t        _prob_func of the ODE state of segment seg at time t
     lg    x            np.log
     stp   seg cur t    time reached by integrator.mcstep(t) when the
                        integrator stands at cur
     rate  seg tc s k   n_ops[k].expect_data(tc, state at s).real
     jnorm seg tc s k   _norm_func(c_ops[k].matmul_data(tc, state at s))
     rnd   i            i-th number of the random stream
   A "segment" is the stretch of ODE flow between two set_state calls of the
   wrapped integrator; an ODE state is identified by (segment, time). *)
From Coq Require Import List Bool Arith ZArith QArith Qabs Floats.
Import ListNotations.
Local Open Scope nat_scope.

Record Num := mkNum {
  T : Type;
  add : T -> T -> T; sub : T -> T -> T; mul : T -> T -> T; div : T -> T -> T;
  absv : T -> T;
  ltb : T -> T -> bool; leb : T -> T -> bool;
  zero : T; one : T }.

Section Model.
Variable N : Num.
Notation TT := (T N).

Record opts := mkOpts {
  norm_steps : nat; norm_t_tol : TT; norm_tol : TT; mc_corr_eps : TT }.

Variable o : opts.
Variable nrm2 : nat -> TT -> TT.
Variable lg : TT -> TT.
Variable stp : nat -> TT -> TT -> TT.
Variable rate : nat -> TT -> TT -> nat -> TT.
Variable jnorm : nat -> TT -> TT -> nat -> TT.
Variable rnd : nat -> TT.
Variable nch : nat.          (* len(self._n_ops) *)

(* ------------------------------------------------ _find_collapse_time *)
(* result of the while loop: it ended by `break` (with t_guess, the time of
   the state held in `state`, the value of `tries`, and the mcstep requests
   made, latest first) or because `tries < norm_steps` became false *)
Inductive loopres :=
| Broke (t_guess s_time : TT) (tries : nat) (reqs : list TT)
| LoopEnd (tries : nat) (reqs : list TT).

(* the secant guess, operations in the order of the source expression
     t_prev + ((t_final - t_prev) * log(norm_old/target) / log(norm_old/norm)) *)
Definition secant (t_prev t_final norm_old norm target : TT) : TT :=
  add N t_prev
      (div N (mul N (sub N t_final t_prev) (lg (div N norm_old target)))
             (lg (div N norm_old norm))).

Definition clamp_guess (t_prev g0 : TT) : TT :=
  if ltb N (sub N g0 t_prev) (norm_t_tol o) then add N t_prev (norm_t_tol o) else g0.

(* fuel = norm_steps - tries; cur = time at which the integrator stands *)
Fixpoint fct_loop (fuel tries seg : nat) (reqs : list TT)
         (cur t_prev t_final norm_old norm target : TT) : loopres :=
  match fuel with
  | O => LoopEnd tries reqs
  | S f =>
    let tries := S tries in
    if leb N t_final (add N t_prev (norm_t_tol o)) then
      (* if t_final <= t_prev + norm_t_tol:
           t_guess = t_final; _, state = self._integrator.get_state() *)
      Broke t_final cur tries reqs
    else
      let g := clamp_guess t_prev (secant t_prev t_final norm_old norm target) in
      let s := stp seg cur g in              (* _, state = mcstep(t_guess) *)
      let n2 := nrm2 seg s in
      if ltb N (absv N (sub N target n2)) (mul N (norm_tol o) target) then
        Broke g s tries (g :: reqs)
      else if ltb N n2 target then
        fct_loop f tries seg (g :: reqs) s t_prev g norm_old n2 target
      else
        fct_loop f tries seg (g :: reqs) s g t_final n2 norm target
  end.

(* `while ... else: raise RuntimeError`: the error is raised only when the
   loop ends without `break` *)
Definition find_collapse (seg : nat) (cur t_prev t_final norm_old norm target : TT)
  : option (TT * TT) * list TT :=
  match fct_loop (norm_steps o) 0 seg [] cur t_prev t_final norm_old norm target with
  | Broke g s _ reqs => (Some (g, s), reqs)
  | LoopEnd _ reqs => (None, reqs)
  end.

(* ------------------------------------------------------- _do_collapse *)
(* np.cumsum *)
Fixpoint cumsum_from (acc : TT) (l : list TT) : list TT :=
  match l with
  | [] => []
  | x :: r => let a := add N acc x in a :: cumsum_from a r
  end.
Definition cumsum (l : list TT) : list TT :=
  match l with [] => [] | x :: r => x :: cumsum_from x r end.

(* np.searchsorted(a, v) (side='left') on a sorted array: the number of
   leading elements < v *)
Fixpoint prefix_lt (l : list TT) (v : TT) : nat :=
  match l with
  | [] => 0
  | a :: r => if ltb N a v then S (prefix_lt r v) else 0
  end.

Definition which_of (probs : list TT) (u : TT) : nat :=
  let cum := cumsum probs in
  prefix_lt cum (mul N (last cum (zero N)) u).

Record mstate := mkSt {
  seg : nat;                   (* number of integrator.set_state calls - 1 *)
  cur : TT;                    (* time at which the integrator stands *)
  target : TT;                 (* self.target_norm *)
  ndraw : nat;                 (* random numbers consumed *)
  cols : list (TT * nat);      (* self.collapses, latest first *)
  sets : list (TT * TT * nat); (* set_state calls after the first: (time given,
                                  time of the source state, channel or nch for
                                  the numerical-error branch), latest first *)
  reqlog : list TT }.          (* all mcstep requests, latest first *)

Definition do_collapse (st : mstate) (t_col s : TT) : mstate :=
  let sg := seg st in
  let '(which, nd) :=
    if Nat.eqb nch 1 then (0, ndraw st)
    else (which_of (map (rate sg t_col s) (seq 0 nch)) (rnd (ndraw st)), S (ndraw st)) in
  let new_norm := jnorm sg t_col s which in
  if ltb N new_norm (mc_corr_eps o) then
    (* collapse caused by numerical error: renormalise, keep the threshold *)
    mkSt (S sg) t_col (target st) nd (cols st) ((t_col, s, nch) :: sets st) (reqlog st)
  else
    mkSt (S sg) t_col (rnd nd) (S nd) ((t_col, which) :: cols st)
         ((t_col, s, which) :: sets st) (reqlog st).

(* ---------------------------------------------------------- integrate *)
Inductive ires :=
| Done (st : mstate) (t_ret : TT)     (* returns (t_old, y_old / norm) *)
| Raised (st : mstate)                (* RuntimeError of _find_collapse_time *)
| OutOfFuel (st : mstate).

Fixpoint integ_loop (fuel : nat) (st : mstate) (t t_old norm_old : TT) : ires :=
  match fuel with
  | O => OutOfFuel st
  | S f =>
    if ltb N t_old t then
      let t_step := stp (seg st) (cur st) t in
      let st1 := mkSt (seg st) t_step (target st) (ndraw st) (cols st) (sets st)
                      (t :: reqlog st) in
      let norm := nrm2 (seg st) t_step in
      if leb N norm (target st) then
        match find_collapse (seg st) t_step t_old t_step norm_old norm (target st) with
        | (Some (t_col, s), reqs) =>
            let st2 := mkSt (seg st1) s (target st1) (ndraw st1) (cols st1) (sets st1)
                            (reqs ++ reqlog st1) in
            let st3 := do_collapse st2 t_col s in
            integ_loop f st3 t t_col (one N)
        | (None, reqs) =>
            Raised (mkSt (seg st1) (cur st1) (target st1) (ndraw st1) (cols st1)
                         (sets st1) (reqs ++ reqlog st1))
        end
      else integ_loop f st1 t t_step norm
    else Done st t_old
  end.

Definition integrate (fuel : nat) (st : mstate) (t : TT) : ires :=
  integ_loop fuel st t (cur st) (nrm2 (seg st) (cur st)).

(* set_state(t0, state0, generator, no_jump, jump_prob_floor) *)
Definition init_state (t0 : TT) (no_jump : bool) (floor : TT) : mstate :=
  if no_jump then mkSt 0 t0 (zero N) 0 [] [] []
  else mkSt 0 t0 (add N (mul N (rnd 0) (sub N (one N) floor)) floor) 1 [] [] [].

(* run(tlist): integrate to every later time; the times returned so far are
   collected (latest first) *)
Inductive rres :=
| RDone (st : mstate) (rets : list TT)
| RRaised (st : mstate) (rets : list TT)
| ROutOfFuel (st : mstate) (rets : list TT).

Fixpoint run_from (fuel : nat) (st : mstate) (ts : list TT) (rets : list TT) : rres :=
  match ts with
  | [] => RDone st rets
  | t :: r =>
    match integrate fuel st t with
    | Done st' tr => run_from fuel st' r (tr :: rets)
    | Raised st' => RRaised st' rets
    | OutOfFuel st' => ROutOfFuel st' rets
    end
  end.

Definition run (fuel : nat) (t0 : TT) (ts : list TT) (no_jump : bool) (floor : TT) : rres :=
  run_from fuel (init_state t0 no_jump floor) ts [].

(* ---------------- MCSolver._run_one_traj: weight of a sampled trajectory *)
(* None = the all-zero trajectory returned when the no-jump probability is
   (numerically) one; otherwise the relative weight 1 * (1 - floor) *)
Definition traj_weight (floor : TT) : option TT :=
  if leb N (sub N (one N) (norm_tol o)) floor then None
  else Some (mul N (one N) (sub N (one N) floor)).

End Model.

(* ------------------------------------------------------------ instances *)
Definition Qltb (x y : Q) : bool := negb (Qle_bool y x).
Definition QN : Num :=
  mkNum Q Qplus Qminus Qmult Qdiv Qabs Qltb Qle_bool 0%Q 1%Q.

Definition FN : Num :=
  mkNum float PrimFloat.add PrimFloat.sub PrimFloat.mul PrimFloat.div PrimFloat.abs
        PrimFloat.ltb PrimFloat.leb 0%float 1%float.

(* oracles as finite tables for the executable float instance: the key is
   (segment, time, time, index); a missing entry yields nan, which makes every
   later comparison false and shows up in the trace *)
Definition fkey := (nat * float * float * nat)%type.
Definition key_eqb (a b : fkey) : bool :=
  let '(s1, t1, u1, k1) := a in let '(s2, t2, u2, k2) := b in
  Nat.eqb s1 s2 && PrimFloat.eqb t1 t2 && PrimFloat.eqb u1 u2 && Nat.eqb k1 k2.
Fixpoint lookup (tbl : list (fkey * float)) (k : fkey) : float :=
  match tbl with
  | [] => nan
  | (k', v) :: r => if key_eqb k' k then v else lookup r k
  end.

Record ftables := mkTabs {
  t_nrm2 : list (fkey * float); t_lg : list (fkey * float);
  t_stp : list (fkey * float); t_rate : list (fkey * float);
  t_jnorm : list (fkey * float); t_rnd : list float }.

Definition f_run (o : opts FN) (tb : ftables) (nch fuel : nat) (t0 : float)
           (ts : list float) (no_jump : bool) (floor : float) :=
  run FN o
      (fun sg t => lookup (t_nrm2 tb) (sg, t, 0%float, 0))
      (fun x => lookup (t_lg tb) (0, x, 0%float, 0))
      (fun sg c t => lookup (t_stp tb) (sg, c, t, 0))
      (fun sg tc s k => lookup (t_rate tb) (sg, tc, s, k))
      (fun sg tc s k => lookup (t_jnorm tb) (sg, tc, s, k))
      (fun i => nth i (t_rnd tb) nan)
      nch fuel t0 ts no_jump floor.

(* what the correspondence compares *)
Definition f_observe (o : opts FN) (tb : ftables) (nch fuel : nat) (t0 : float)
           (ts : list float) (no_jump : bool) (floor : float) :=
  let pack (tag : nat) (st : mstate FN) (rets : list float) :=
    (tag, rev rets, rev (cols FN st), rev (sets FN st), rev (reqlog FN st),
     (ndraw FN st, target FN st, cur FN st)) in
  match f_run o tb nch fuel t0 ts no_jump floor with
  | RDone _ st rets => pack 0 st rets
  | RRaised _ st rets => pack 1 st rets
  | ROutOfFuel _ st rets => pack 2 st rets
  end.
