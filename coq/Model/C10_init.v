(* C10 - Explicit_RungeKutta._init_coeff: which tableau shapes are accepted
   (the malformed stream of the correspondence harness).
     rk_step = b.shape[0]; rk_extra_step = c.shape[0]
     ValueError if rk_step > rk_extra_step or a.shape[1] != rk_extra_step
                   or a.shape[0] != rk_extra_step
     ValueError if e is given and e.shape[0] != rk_step
     interpolate = bi is not None and interpolate
     ValueError if bi is given and bi.shape[0] != rk_extra_step
       (whether or not `interpolate` is on: the dense output is also used
        for a target time inside the last step)                              *)
From Coq Require Import Arith Bool.
Definition init_coeff_ok (nb nc na0 na1 : nat) (ne nbi : option nat) (interp : bool) : bool :=
  negb ((nc <? nb) || negb (na1 =? nc) || negb (na0 =? nc))
  && match ne with Some k => k =? nb | None => true end
  && match nbi with Some k => k =? nc | None => true end.
