(* Model of qutip/solver/multitrajresult.py: _TrajectorySum and
   MultiTrajResult / _McBaseResult (expectation-value part), over exact
   rationals (Qc, canonical fractions with Leibniz equality).

   What is modelled, statement by statement:
     _TrajectorySum.__init__ / reduce_expect / merge      (tsum_init etc.)
     MultiTrajResult.__init__ / _post_init                (new_obj)
     _increment_traj, _add_first_traj, _store_trajectory,
     _reduce_expect, _McBaseResult._add_collapse          (inside add / add_det)
     add, add_deterministic                               (add, add_det)
     _create_e_data, average_e_data, std_e_data           (create_e_data, read_avg, read_std)
     runs_weights, deterministic_weights                  (runs_weights, det_weights)
     merge / __add__ (incl. the copied `stats` dictionary) (merge_obj, step)

   The model mirrors the source after the repairs 3ad4eea (caches dropped when
   a trajectory is added), ca7c500 (merge copies stats), b075e21 (deterministic
   trajectories always concatenated), 191187a (options of the merged result
   fixed before it is constructed).  The former rules are kept at the end of
   the file as old_add / old_add_det / old_merge_obj, used only by Examples
   that document the former counterexamples.

   Conventions:
   * the expectation values of one trajectory (list over e_ops of arrays over
     times) are flattened to one vector `vec`; every statement of the code on
     them is elementwise, so the flattening loses nothing but the e_op names.
     At least one e_op is assumed (otherwise the code registers no
     _reduce_expect processor and the average is the empty dict).
   * numpy raises on arrays of different shapes; the model's map2 truncates
     instead, and all theorems are stated for histories whose trajectories
     have one common shape n (any n).
   * std_e_data is sqrt(v) of the vector v computed here (`variance`); the
     square root itself is outside the model.
   * several result objects live in a `world` together with the heap of
     `stats` dictionaries they refer to (merge reads both operands'
     dictionaries and gives the new object a fresh copy).
   * fields g_rel / g_det are ghost history (every trajectory added, in
     order, whether or not keep_runs_results is set); no modelled statement
     reads them - they only serve to state the theorems. *)
From Coq Require Import List ZArith QArith Qcanon Bool Arith Lia.
Import ListNotations.
Local Open Scope Qc_scope.

(* ------------------------------------------------------------- numbers *)
Definition QcN (n : nat) : Qc := Q2Qc (inject_Z (Z.of_nat n)).
Definition Qcabs (x : Qc) : Qc := match x ?= 0 with Lt => - x | _ => x end.

Definition vec := list Qc.

Fixpoint map2 {A B C} (f : A -> B -> C) (l : list A) (m : list B) : list C :=
  match l, m with
  | a :: l', b :: m' => f a b :: map2 f l' m'
  | _, _ => []
  end.

Definition vzeros_like (v : vec) : vec := map (fun _ => 0) v.
Definition vadd (a b : vec) : vec := map2 Qcplus a b.
Definition vscale (w : Qc) (a : vec) : vec := map (Qcmult w) a.
Definition vsq (a : vec) : vec := map (fun x => x * x) a.
Definition vdivn (a : vec) (n : nat) : vec := map (fun x => x / QcN n) a.

(* ------------------------------------------------------- trajectories *)
Record traj := {
  t_seed : Z;          (* identity of the seed the trajectory was run with *)
  t_times : Z;         (* identity of its tlist *)
  t_coll : Z;          (* identity of its list of collapses *)
  t_expect : vec }.    (* flattened expectation values *)

(* --------------------------------------------------------- _TrajectorySum *)
Record tsum := { sum_expect : vec; sum2_expect : vec }.

(* __init__: np.zeros_like(expect) for both running sums *)
Definition tsum_init (t : traj) : tsum :=
  {| sum_expect := vzeros_like (t_expect t); sum2_expect := vzeros_like (t_expect t) |}.

(* reduce_expect: sum_expect[i] = sum_expect[i] + weight * e ;
   sum2_expect[i] = sum2_expect[i] + weight * e**2  (out of place since 427aa48;
   before, `+=` updated the arrays in place).  The model has value semantics:
   every tsum owns its vectors.  That is faithful for both forms because no two
   result objects ever share a sum array: _TrajectorySum.merge builds the
   arrays of the new object with `weight1 * e1 [+ weight2 * e2]` (new arrays)
   on every path, and __init__ allocates with np.zeros_like. *)
Definition tsum_reduce (s : tsum) (t : traj) (w : Qc) : tsum :=
  {| sum_expect := vadd (sum_expect s) (vscale w (t_expect t));
     sum2_expect := vadd (sum2_expect s) (vscale w (vsq (t_expect t))) |}.

Definition tsum_scale (w : Qc) (s : tsum) : tsum :=
  {| sum_expect := vscale w (sum_expect s); sum2_expect := vscale w (sum2_expect s) |}.

(* static merge(sum1, weight1, sum2, weight2) *)
Definition tsum_merge (s1 : option tsum) (w1 : Qc) (s2 : option tsum) (w2 : Qc) : option tsum :=
  match s1, s2 with
  | None, None => None
  | None, Some b => Some (tsum_scale w2 b)          (* swapped call, then `sum2 is None` branch *)
  | Some a, None => Some (tsum_scale w1 a)
  | Some a, Some b =>
      Some {| sum_expect := vadd (vscale w1 (sum_expect a)) (vscale w2 (sum_expect b));
              sum2_expect := vadd (vscale w1 (sum2_expect a)) (vscale w2 (sum2_expect b)) |}
  end.

(* --------------------------------------------------------- MultiTrajResult *)
Record mtr := {
  keep : bool;                   (* options["keep_runs_results"] *)
  proc_store : bool;             (* _store_trajectory is among the processors *)
  stats_ref : nat;               (* which stats dictionary self.stats is *)
  times : option Z;
  num : nat;                     (* num_trajectories *)
  sum_rel : option tsum;
  sum_det : option tsum;
  w_rel : list Qc;               (* _trajectories_weight_info *)
  w_det : list Qc;               (* _deterministic_weight_info *)
  seeds : list Z;
  collapse : list Z;
  trajs : list traj;             (* trajectories *)
  det_trajs : list traj;         (* deterministic_trajectories *)
  runs_e : option (list vec);    (* runs_e_data; None is the empty dict *)
  avg_cache : option vec;        (* _average_e_data; None is the empty dict *)
  std_cache : option vec;        (* _std_e_data (before the square root) *)
  g_rel : list traj;             (* ghost *)
  g_det : list traj }.           (* ghost *)

(* __init__ + _post_init *)
Definition new_obj (k : bool) (sref : nat) : mtr :=
  {| keep := k; proc_store := k; stats_ref := sref; times := None; num := 0;
     sum_rel := None; sum_det := None; w_rel := []; w_det := []; seeds := [];
     collapse := []; trajs := []; det_trajs := [];
     runs_e := if k then Some [] else None;
     avg_cache := None; std_cache := None; g_rel := []; g_det := [] |}.

Definition is_nil {A} (l : list A) : bool := match l with [] => true | _ => false end.

(* `if self.num_trajectories == 0 and not self._deterministic_weight_info` *)
Definition first_times (o : mtr) (t : traj) : option Z :=
  if (num o =? 0)%nat && is_nil (w_det o) then Some (t_times t) else times o.

Definition or_init (s : option tsum) (t : traj) : tsum :=
  match s with Some s => s | None => tsum_init t end.

(* add((seed, trajectory, *weight)) *)
Definition add (o : mtr) (t : traj) (w : option Qc) : mtr :=
  let w := match w with Some w => w | None => 1 end in
  {| keep := keep o; proc_store := proc_store o; stats_ref := stats_ref o;
     times := first_times o t;
     num := S (num o);
     sum_rel := Some (tsum_reduce (or_init (sum_rel o) t) t w);
     sum_det := sum_det o;
     w_rel := w_rel o ++ [w];
     w_det := w_det o;
     seeds := seeds o ++ [t_seed t];
     collapse := collapse o ++ [t_coll t];
     trajs := if proc_store o then trajs o ++ [t] else trajs o;
     det_trajs := det_trajs o;
     runs_e := match runs_e o with Some l => Some (l ++ [t_expect t]) | None => None end;
     avg_cache := None; std_cache := None;    (* _increment_traj drops the cached averages *)
     g_rel := g_rel o ++ [t]; g_det := g_det o |}.

(* add_deterministic(trajectory, weight) *)
Definition add_det (o : mtr) (t : traj) (w : Qc) : mtr :=
  {| keep := keep o; proc_store := proc_store o; stats_ref := stats_ref o;
     times := first_times o t;
     num := num o;
     sum_rel := sum_rel o;
     sum_det := Some (tsum_reduce (or_init (sum_det o) t) t w);
     w_rel := w_rel o;
     w_det := w_det o ++ [w];
     seeds := seeds o;
     collapse := collapse o;
     trajs := trajs o;
     det_trajs := det_trajs o ++ [t];
     runs_e := runs_e o;
     avg_cache := None; std_cache := None;    (* _increment_traj drops the cached averages *)
     g_rel := g_rel o; g_det := g_det o ++ [t] |}.

(* _create_e_data: (average, |avg2 - |avg**2||); None is the TypeError of
   list(0) on an object without any trajectory *)
Definition mix (d r : option vec) (n : nat) : option vec :=
  match d, r with
  | Some d, Some r => Some (vadd d (vdivn r n))
  | Some d, None => Some d
  | None, Some r => Some (vdivn r n)
  | None, None => None
  end.

Definition average (o : mtr) : option vec :=
  mix (option_map sum_expect (sum_det o)) (option_map sum_expect (sum_rel o)) (num o).
Definition average2 (o : mtr) : option vec :=
  mix (option_map sum2_expect (sum_det o)) (option_map sum2_expect (sum_rel o)) (num o).
Definition variance (o : mtr) : option vec :=
  match average o, average2 o with
  | Some a, Some a2 => Some (map2 (fun x2 x => Qcabs (x2 - Qcabs (x * x))) a2 a)
  | _, _ => None
  end.

Definition with_caches (o : mtr) (a v : option vec) : mtr :=
  {| keep := keep o; proc_store := proc_store o; stats_ref := stats_ref o;
     times := times o; num := num o; sum_rel := sum_rel o; sum_det := sum_det o;
     w_rel := w_rel o; w_det := w_det o; seeds := seeds o; collapse := collapse o;
     trajs := trajs o; det_trajs := det_trajs o; runs_e := runs_e o;
     avg_cache := a; std_cache := v; g_rel := g_rel o; g_det := g_det o |}.

Definition create_e_data (o : mtr) : option mtr :=
  match average o, variance o with
  | Some a, Some v => Some (with_caches o (Some a) (Some v))
  | _, _ => None
  end.

(* property average_e_data: `if not self._average_e_data: self._create_e_data()` *)
Definition read_avg (o : mtr) : option (mtr * vec) :=
  match avg_cache o with
  | Some a => Some (o, a)
  | None => match create_e_data o with
            | Some o' => match avg_cache o' with Some a => Some (o', a) | None => None end
            | None => None
            end
  end.

(* property std_e_data *)
Definition read_std (o : mtr) : option (mtr * vec) :=
  match std_cache o with
  | Some v => Some (o, v)
  | None => match create_e_data o with
            | Some o' => match std_cache o' with Some v => Some (o', v) | None => None end
            | None => None
            end
  end.

Definition runs_weights (o : mtr) : list Qc := map (fun w => w / QcN (num o)) (w_rel o).
Definition det_weights (o : mtr) : list Qc := w_det o.

Definition opt_Z_eqb (a b : option Z) : bool :=
  match a, b with
  | Some x, Some y => Z.eqb x y
  | None, None => true
  | _, _ => false
  end.

(* the body of merge after the `times` test, for num a > 0 and num b > 0;
   sref is the new stats dictionary (a copy of self.stats) *)
Definition merge_obj (a b : mtr) (p : option Qc) (sref : nat) : mtr :=
  let n := (num a + num b)%nat in
  let p_equal := QcN (num a) / QcN n in
  let p := match p with Some p => p | None => p_equal end in
  let both := negb (is_nil (trajs a)) && negb (is_nil (trajs b)) in
  (* options = self.options.copy(); keep_runs_results = False unless both kept runs *)
  let k := if both then keep a else false in
  {| keep := k;
     proc_store := k;                      (* processors chosen by the constructor from `options` *)
     stats_ref := sref;                    (* stats=self.stats.copy() *)
     times := times a;
     num := n;
     sum_rel := tsum_merge (sum_rel a) (p / p_equal) (sum_rel b) ((1 - p) / (1 - p_equal));
     sum_det := tsum_merge (sum_det a) p (sum_det b) (1 - p);
     w_rel := map (fun w => w * p / p_equal) (w_rel a)
              ++ map (fun w => w * (1 - p) / (1 - p_equal)) (w_rel b);
     w_det := map (fun w => w * p) (w_det a) ++ map (fun w => w * (1 - p)) (w_det b);
     seeds := seeds a ++ seeds b;
     collapse := collapse a ++ collapse b;
     trajs := if both then trajs a ++ trajs b else [];
     det_trajs := det_trajs a ++ det_trajs b;
     runs_e := match runs_e a, runs_e b with
               | Some ra, Some rb => Some (ra ++ rb)   (* `if self.runs_e_data and other.runs_e_data` *)
               | _, _ => if k then Some [] else None   (* as left by the constructor *)
               end;
     avg_cache := None; std_cache := None;
     g_rel := g_rel a ++ g_rel b; g_det := g_det a ++ g_det b |}.

(* ------------------------------------------------------------ the world *)
Inductive endc := EC_unknown | EC_merged.
Record stat := { run_time : Qc; end_condition : endc }.
Record world := { objs : list mtr; sheap : list stat }.

Inductive op :=
| ONew (keep : bool) (rt : Qc)
| OAdd (i : nat) (t : traj) (w : option Qc)
| OAddDet (i : nat) (t : traj) (w : Qc)
| OMerge (i j : nat) (p : option Qc)
| ORead (i : nat)
| OReadStd (i : nat).

Inductive outcome := Ok | BadIndex | ErrValue | ErrZeroDiv | ErrType.

Fixpoint set_nth {A} (l : list A) (k : nat) (x : A) : list A :=
  match l, k with
  | [], _ => []
  | _ :: t, O => x :: t
  | h :: t, S k' => h :: set_nth t k' x
  end.

Definition upd_stat (h : list stat) (r : nat) (f : stat -> stat) : list stat :=
  match nth_error h r with Some s => set_nth h r (f s) | None => h end.

Definition rt_of (h : list stat) (r : nat) : Qc :=
  match nth_error h r with Some s => run_time s | None => 0 end.

Definition step (W : world) (o : op) : world * outcome :=
  match o with
  | ONew k rt =>
      ({| objs := objs W ++ [new_obj k (length (sheap W))];
          sheap := sheap W ++ [{| run_time := rt; end_condition := EC_unknown |}] |}, Ok)
  | OAdd i t w =>
      match nth_error (objs W) i with
      | Some x => ({| objs := set_nth (objs W) i (add x t w); sheap := sheap W |}, Ok)
      | None => (W, BadIndex)
      end
  | OAddDet i t w =>
      match nth_error (objs W) i with
      | Some x => ({| objs := set_nth (objs W) i (add_det x t w); sheap := sheap W |}, Ok)
      | None => (W, BadIndex)
      end
  | OMerge i j p =>
      match nth_error (objs W) i, nth_error (objs W) j with
      | Some a, Some b =>
          if negb (opt_Z_eqb (times a) (times b)) then (W, ErrValue)
          else if (num a =? 0)%nat || (num b =? 0)%nat then
            (* the copy of stats made for the new object is discarded *)
            (W, ErrZeroDiv)
          else
            (* new.stats is a copy of self.stats;
               new.stats["run time"] += other.stats["run time"];
               new.stats["end_condition"] = "Merged results" *)
            let sref := length (sheap W) in
            let rt := rt_of (sheap W) (stats_ref a) + rt_of (sheap W) (stats_ref b) in
            ({| objs := objs W ++ [merge_obj a b p sref];
                sheap := sheap W ++ [{| run_time := rt; end_condition := EC_merged |}] |}, Ok)
      | _, _ => (W, BadIndex)
      end
  | ORead i =>
      match nth_error (objs W) i with
      | Some x => match read_avg x with
                  | Some (x', _) => ({| objs := set_nth (objs W) i x'; sheap := sheap W |}, Ok)
                  | None => (W, ErrType)
                  end
      | None => (W, BadIndex)
      end
  | OReadStd i =>
      match nth_error (objs W) i with
      | Some x => match read_std x with
                  | Some (x', _) => ({| objs := set_nth (objs W) i x'; sheap := sheap W |}, Ok)
                  | None => (W, ErrType)
                  end
      | None => (W, BadIndex)
      end
  end.

Definition empty_world : world := {| objs := []; sheap := [] |}.

Fixpoint run (W : world) (ops : list op) : world :=
  match ops with
  | [] => W
  | o :: ops' => run (fst (step W o)) ops'
  end.

Fixpoint run_log (W : world) (ops : list op) : world * list outcome :=
  match ops with
  | [] => (W, [])
  | o :: ops' => let (W1, r) := step W o in
                 let (W2, rs) := run_log W1 ops' in (W2, r :: rs)
  end.

(* ----------------------------------------------- printing (harness only) *)
Definition qz (q : Qc) : Z * Z := (Qnum (this q), Zpos (Qden (this q))).
Definition vz (v : vec) := map qz v.
Definition oz {A B} (f : A -> B) (x : option A) : option B := option_map f x.
Definition tsz (s : tsum) := (vz (sum_expect s), vz (sum2_expect s)).

Definition obs_obj (o : mtr) :=
  ((keep o, stats_ref o, times o, num o),
   (oz tsz (sum_rel o), oz tsz (sum_det o)),
   (vz (w_rel o), vz (w_det o), seeds o, collapse o),
   (map t_seed (trajs o), map t_seed (det_trajs o), oz (map vz) (runs_e o)),
   (oz vz (avg_cache o), oz vz (std_cache o)),
   (vz (runs_weights o), oz vz (average o), oz vz (variance o))).

Definition obs_stat (s : stat) := (qz (run_time s), match end_condition s with EC_unknown => 0%Z | EC_merged => 1%Z end).

Definition out_code (r : outcome) : Z :=
  match r with Ok => 0 | BadIndex => 1 | ErrValue => 2 | ErrZeroDiv => 3 | ErrType => 4 end%Z.

Definition observe (ops : list op) :=
  let (W, rs) := run_log empty_world ops in
  (map out_code rs, map obs_obj (objs W), map obs_stat (sheap W)).

Definition mkq (n d : Z) : Qc := Q2Qc (n # Z.to_pos d).
Definition mkt (s tm c : Z) (e : list (Z * Z)) : traj :=
  {| t_seed := s; t_times := tm; t_coll := c; t_expect := map (fun nd => mkq (fst nd) (snd nd)) e |}.

(* ------------------------------------------------- former rules (documentation)
   The code before 3ad4eea / b075e21 / 191187a.  Nothing in the development
   depends on these; Props/C15.v uses them in Examples only. *)
Definition old_add (o : mtr) (t : traj) (w : option Qc) : mtr :=
  with_caches (add o t w) (avg_cache o) (std_cache o).       (* caches survived add *)
Definition old_add_det (o : mtr) (t : traj) (w : Qc) : mtr :=
  with_caches (add_det o t w) (avg_cache o) (std_cache o).

Definition old_merge_obj (a b : mtr) (p : option Qc) : mtr :=
  let m := merge_obj a b p (stats_ref a) in                  (* stats=self.stats, shared *)
  let both := negb (is_nil (trajs a)) && negb (is_nil (trajs b)) in
  {| keep := keep m;
     proc_store := keep a;                                   (* constructed with self.options *)
     stats_ref := stats_ref a; times := times m; num := num m;
     sum_rel := sum_rel m; sum_det := sum_det m; w_rel := w_rel m; w_det := w_det m;
     seeds := seeds m; collapse := collapse m; trajs := trajs m;
     det_trajs := if both then det_trajs a ++ det_trajs b else [];   (* dropped otherwise *)
     runs_e := match runs_e a, runs_e b with
               | Some ra, Some rb => Some (ra ++ rb)
               | _, _ => if both && keep a then Some [] else None
               end;
     avg_cache := None; std_cache := None; g_rel := g_rel m; g_det := g_det m |}.
