(* C11 - model of the call protocol of qutip.solver.solver_base.Solver
   (run / start / step / _argument, the `options` setter, item assignment on
   the options object through _SolverOptions.__setitem__, and
   _apply_options), with the Integrator base-class contract of
   qutip/solver/integrator/integrator.py (constructor, options assignment,
   reset(hard), arguments).

   Option keys are numbers; key 0 is "method".  `skey k` tells the
   solver-level keys (method, store_final_state, normalize_output, ...),
   `supports m k` the integrator_options keys of the integrator class of
   method m, `sdflt` / `dflt m` the defaults.  An options object is kept as a
   list of (key, value) entries, newest first, looked up with fall-back to the
   defaults - extensionally what _SolverOptions holds.  The numerics are an
   oracle: `flow m opts args t t' x` is what integrator m with option values
   `opts` and system arguments `args` makes of state x between t and t'.
   Every call made on the integrator object is logged (ghost field v_log,
   newest first) for the trace correspondence.  No proofs in this file. *)
From Coq Require Import List ZArith Bool Arith.
Import ListNotations.
Open Scope Z_scope.

Definition odict := list (nat * Z).

Fixpoint find (k : nat) (l : odict) : option Z :=
  match l with
  | [] => None
  | (k', v) :: r => if Nat.eqb k k' then Some v else find k r
  end.

Section Solver.
  Variable X : Type.                       (* states *)
  Variable A : Type.                       (* argument sets *)
  Variable skey : nat -> bool.
  Variable sdflt : nat -> Z.
  Variable supports : nat -> nat -> bool.
  Variable dflt : nat -> nat -> Z.
  Variable valid_m : Z -> bool.            (* avail_integrators() has it *)
  Variable nkeys : nat.                    (* keys 0 .. nkeys-1 are logged *)
  Variable flow : nat -> (nat -> Z) -> A -> Z -> Z -> X -> X.

  Definition meth (o : odict) : nat :=
    Z.to_nat (match find 0 o with Some v => v | None => sdflt 0 end).

  (* options[k] *)
  Definition look (o : odict) (k : nat) : Z :=
    match find k o with
    | Some v => v
    | None => if skey k then sdflt k else dflt (meth o) k
    end.

  (* `None` stands for the default *)
  Definition valof (m : nat) (k : nat) (v : option Z) : Z :=
    match v with
    | Some z => z
    | None => if skey k then sdflt k else dflt m k
    end.

  Inductive event :=
  | ECtor (id m : nat) (vals : list Z)
  | EPrepare (id : nat)
  | EOpt (id : nat) (vals : list Z)
  | ESet (id : nat) (t : Z) (x : X)
  | EArgs (id : nat) (a : A)
  | EInt (id : nat) (t : Z).

  Record integ := mk_integ {
    g_id : nat;                (* which constructor call made it *)
    g_m : nat;                 (* its class *)
    g_o : odict;               (* the option values it holds *)
    g_set : bool;              (* _is_set *)
    g_t : Z;
    g_x : option X
  }.

  Record solv := mk_solv {
    v_o : odict;               (* self._options *)
    v_args : A;                (* arguments of self.rhs *)
    v_int : integ;             (* self._integrator *)
    v_nctor : nat;             (* integrator constructor calls so far *)
    v_log : list event
  }.

  (* the option values an integrator of class m sees *)
  Definition ivals (m : nat) (o : odict) : list Z :=
    map (fun k => if supports m k then look o k else 0) (seq 0 nkeys).

  (* integrator option lookup *)
  Definition ilook (g : integ) (k : nat) : Z := look (g_o g) k.

  (* Solver._get_integrator + (if a state was set) set_state of the old (t, state) *)
  Definition rebuild (s : solv) : solv :=
    let id := S (v_nctor s) in
    let m := meth (v_o s) in
    let g := v_int s in
    let g' := mk_integ id m (v_o s) (g_set g) (g_t g) (g_x g) in
    let log1 := ECtor id m (ivals m (v_o s)) :: v_log s in
    let log2 := match g_set g, g_x g with
                | true, Some x => ESet id (g_t g) x :: log1
                | _, _ => log1
                end in
    mk_solv (v_o s) (v_args s) g' id log2.

  (* self._integrator.options = self._options; self._integrator.reset(hard=True) *)
  Definition reset_hard (s : solv) : solv :=
    let g := v_int s in
    let g' := mk_integ (g_id g) (g_m g) (v_o s) (g_set g) (g_t g) (g_x g) in
    let log1 := EPrepare (g_id g) :: EOpt (g_id g) (ivals (g_m g) (v_o s)) :: v_log s in
    let log2 := match g_set g, g_x g with
                | true, Some x => ESet (g_id g) (g_t g) x :: log1
                | _, _ => log1
                end in
    mk_solv (v_o s) (v_args s) g' (v_nctor s) log2.

  (* self._integrator.options = self._options (no reset): the setter built a
     new options object, the integrator is handed the new one *)
  Definition assign_opts (s : solv) : solv :=
    let g := v_int s in
    mk_solv (v_o s) (v_args s)
            (mk_integ (g_id g) (g_m g) (v_o s) (g_set g) (g_t g) (g_x g))
            (v_nctor s) (EOpt (g_id g) (ivals (g_m g) (v_o s)) :: v_log s).

  (* _apply_options(set(keys)) called by the setter *)
  Definition apply_keys (s : solv) (keys : list nat) : solv :=
    match keys with
    | [] => s
    | _ =>
        if existsb (Nat.eqb 0) keys then rebuild s
        else if existsb (supports (g_m (v_int s))) keys then reset_hard s
        else assign_opts s
    end.

  Definition with_o (s : solv) (o : odict) : solv :=
    mk_solv o (v_args s) (v_int s) (v_nctor s) (v_log s).

  (* the two `_parse_options` passes of the setter *)
  Definition new_solver (o : odict) (d : list (nat * option Z)) : odict :=
    flat_map (fun p => let '(k, v) := p in
                if skey k then
                  let z := valof (meth o) k v in
                  if z =? look o k then [] else [(k, z)]
                else []) d.

  Definition new_ode (o : odict) (m' : nat) (d : list (nat * option Z)) : odict :=
    flat_map (fun p => let '(k, v) := p in
                if skey k then []
                else
                  let z := valof m' k v in
                  if Nat.eqb m' (meth o) && (z =? look o k) then [] else [(k, z)]) d.

  Inductive outcome := Ok | Err.

  (* Solver.options = d *)
  Definition set_options (s : solv) (d : list (nat * option Z)) : solv * outcome :=
    let o := v_o s in
    let ns := new_solver o d in
    let mz := match find 0 ns with Some z => z | None => Z.of_nat (meth o) end in
    if negb (valid_m mz) then (s, Err)
    else
      let m' := Z.to_nat mz in
      if existsb (fun p => negb (skey (fst p)) && negb (supports m' (fst p))) d
      then (s, Err)
      else
        let no := new_ode o m' d in
        match ns, no with
        | [], [] => (s, Ok)
        | _, _ =>
            let base := if Nat.eqb m' (meth o) then o
                        else filter (fun p => skey (fst p)) o in
            (apply_keys (with_o s (no ++ ns ++ base)) (map fst d), Ok)
        end.

  (* Solver.options[k] = v : _SolverOptions.__setitem__ then
     _apply_options(k) *)
  Definition set_item (s : solv) (k : nat) (v : option Z) : solv * outcome :=
    let o := v_o s in
    if negb (skey k || supports (meth o) k) then (s, Err)
    else
      let z := valof (meth o) k v in
      if z =? look o k then (s, Ok)
      else
        let o1 := (k, z) :: o in
        if Nat.eqb k 0 then
          if negb (valid_m z) then (with_o s o1, Err)
          else (rebuild (with_o s (filter (fun p => skey (fst p)) o1)), Ok)
        else if supports (g_m (v_int s)) k then (reset_hard (with_o s o1), Ok)
        else (with_o s o1, Ok).

  (* Solver.__init__(rhs, options=d) *)
  Definition init (a0 : A) (d : list (nat * option Z)) : solv * outcome :=
    let ns := new_solver [] d in
    let mz := match find 0 ns with Some z => z | None => sdflt 0 end in
    if negb (valid_m mz) then (mk_solv [] a0 (mk_integ 0 0 [] false 0 None) 0 [], Err)
    else
      let m' := Z.to_nat mz in
      if existsb (fun p => negb (skey (fst p)) && negb (supports m' (fst p))) d
      then (mk_solv [] a0 (mk_integ 0 0 [] false 0 None) 0 [], Err)
      else
        let o := new_ode [] m' d ++ ns in
        (mk_solv o a0 (mk_integ 1 (meth o) o false 0 None) 1
                 [ECtor 1 (meth o) (ivals (meth o) o)], Ok).

  (* Integrator.set_state *)
  Definition i_set (s : solv) (t : Z) (x : X) : solv :=
    let g := v_int s in
    mk_solv (v_o s) (v_args s) (mk_integ (g_id g) (g_m g) (g_o g) true t (Some x))
            (v_nctor s) (ESet (g_id g) t x :: v_log s).

  (* Solver._argument(args): rhs.arguments(args); integrator.arguments(args)
     (which ends with a soft reset) *)
  Definition argument (s : solv) (a : option A) : solv :=
    match a with
    | None => s
    | Some a' =>
        let g := v_int s in
        let log1 := EArgs (g_id g) a' :: v_log s in
        let log2 := match g_set g, g_x g with
                    | true, Some x => ESet (g_id g) (g_t g) x :: log1
                    | _, _ => log1
                    end in
        mk_solv (v_o s) a' g (v_nctor s) log2
    end.

  (* Integrator.integrate(t) *)
  Definition i_integrate (s : solv) (t : Z) : solv * option X :=
    let g := v_int s in
    match g_x g with
    | None => (s, None)
    | Some x =>
        let x' := flow (g_m g) (ilook g) (v_args s) (g_t g) t x in
        (mk_solv (v_o s) (v_args s)
                 (mk_integ (g_id g) (g_m g) (g_o g) (g_set g) t (Some x'))
                 (v_nctor s) (EInt (g_id g) t :: v_log s), Some x')
    end.

  Definition start (s : solv) (x : X) (t0 : Z) : solv := i_set s t0 x.

  (* Solver.step(t, args=a) *)
  Definition step (s : solv) (t : Z) (a : option A) : solv * option X :=
    if negb (g_set (v_int s)) then (s, None)
    else i_integrate (argument s a) t.

  (* Solver.run(x0, [t0] ++ tl, args=a): returns the states *)
  Fixpoint run_times (s : solv) (tl : list Z) : solv * list X :=
    match tl with
    | [] => (s, [])
    | t :: r =>
        match i_integrate s t with
        | (s1, Some x) => let '(s2, xs) := run_times s1 r in (s2, x :: xs)
        | (s1, None) => (s1, [])
        end
    end.

  Definition run (s : solv) (x0 : X) (t0 : Z) (tl : list Z) (a : option A)
    : solv * list X :=
    let '(s1, xs) := run_times (argument (i_set s t0 x0) a) tl in (s1, x0 :: xs).

  Inductive sop :=
  | SOpts (d : list (nat * option Z))
  | SItem (k : nat) (v : option Z)
  | SStart (x : X) (t0 : Z)
  | SStep (t : Z) (a : option A)
  | SRun (x0 : X) (t0 : Z) (tl : list Z) (a : option A).

  (* answer of an operation: error flag and the states handed out *)
  Definition do_sop (s : solv) (o : sop) : solv * (bool * list X) :=
    match o with
    | SOpts d => let '(s1, r) := set_options s d in
                 (s1, (match r with Ok => false | Err => true end, []))
    | SItem k v => let '(s1, r) := set_item s k v in
                   (s1, (match r with Ok => false | Err => true end, []))
    | SStart x t0 => (start s x t0, (false, []))
    | SStep t a => match step s t a with
                   | (s1, Some x) => (s1, (false, [x]))
                   | (s1, None) => (s1, (true, []))
                   end
    | SRun x0 t0 tl a => let '(s1, xs) := run s x0 t0 tl a in (s1, (false, xs))
    end.

  Fixpoint srun (s : solv) (ops : list sop) : solv :=
    match ops with [] => s | o :: r => srun (fst (do_sop s o)) r end.

  Fixpoint sanswers (s : solv) (ops : list sop) : list (bool * list X) :=
    match ops with
    | [] => []
    | o :: r => snd (do_sop s o) :: sanswers (fst (do_sop s o)) r
    end.
End Solver.

Arguments ECtor {X A}. Arguments EPrepare {X A}. Arguments EOpt {X A}.
Arguments ESet {X A}. Arguments EArgs {X A}. Arguments EInt {X A}.
Arguments SOpts {X A}. Arguments SItem {X A}. Arguments SStart {X A}.
Arguments SStep {X A}. Arguments SRun {X A}.
Arguments v_o {X A}. Arguments v_args {X A}. Arguments v_int {X A}.
Arguments v_nctor {X A}. Arguments v_log {X A}.
Arguments g_id {X}. Arguments g_m {X}. Arguments g_o {X}. Arguments g_set {X}.
Arguments g_t {X}. Arguments g_x {X}.

(* ------------------------------------------------------------------------
   Executable instance for the trace correspondence (tools/c11.py, scripted
   integrator classes "fa", "fb", "fc" registered with add_integrator).
   keys: 0 method, 1 store_final_state, 2 normalize_output, 3 atol, 4 rtol,
   5 nsteps, 6 order, 7 first_step.  States and arguments are integers. *)
Definition x_skey (k : nat) : bool := Nat.ltb k 3.
Definition x_sdflt (k : nat) : Z := match k with 2%nat => 1 | _ => 0 end.
Definition x_supports (m k : nat) : bool :=
  match m, k with
  | 1%nat, 3%nat | 1%nat, 4%nat | 1%nat, 5%nat => true
  | 2%nat, 3%nat | 2%nat, 6%nat => true
  | 3%nat, 4%nat | 3%nat, 7%nat => true
  | _, _ => false
  end.
Definition x_dflt (m k : nat) : Z :=
  match k with
  | 3%nat => 8 | 4%nat => 6 | 5%nat => 2500 | 6%nat => 5 | _ => 0
  end.
Definition x_valid (z : Z) : bool := (0 <=? z) && (z <=? 3).
Definition x_flow (m : nat) (f : nat -> Z) (a : Z) (t t' : Z) (x : Z) : Z :=
  (x * 3 + 7 * Z.of_nat m
   + fold_right Z.add 0 (map (fun k => if x_supports m k then Z.of_nat (S k) * f k else 0)
                             (seq 0 8))
   + 11 * a + 13 * t + 17 * t') mod 1000003.

Definition xsolv := solv Z Z.
Definition x_do := do_sop Z Z x_skey x_sdflt x_supports x_dflt x_valid 8 x_flow.
Definition x_init := init Z Z x_skey x_sdflt x_supports x_dflt x_valid 8.

(* per operation: error flag, states handed out, the calls made on the
   integrator object during the operation (oldest first), the option values
   afterwards *)
Fixpoint x_trace (s : xsolv) (ops : list (sop Z Z))
  : list (bool * list Z * list (event Z Z) * list Z) :=
  match ops with
  | [] => []
  | o :: r =>
      let '(s1, (err, xs)) := x_do s o in
      (err, xs,
       rev (firstn (length (v_log s1) - length (v_log s)) (v_log s1)),
       map (fun k => if x_skey k || x_supports (meth x_sdflt (v_o s1)) k
                     then look x_skey x_sdflt x_dflt (v_o s1) k else 0) (seq 0 8))
      :: x_trace s1 r
  end.
