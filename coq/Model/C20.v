(* C20 - standard operators, states, gates and random objects satisfy their
   definitions.  Executable models (stdlib only, exact integers).

   Convention: where the library stores sqrt(r) for an integer radicand r
   (destroy, create, _jplus, enr_destroy) the model stores the radicand r
   itself ("radicand matrices"); the real entry is `sq r` for the abstract
   square-root function of Proofs/C20.v, and the float entry is compared with
   PrimFloat.sqrt r by the harness.  Spin values are doubled (J = 2j). *)
From Coq Require Import List ZArith Bool Arith Lia.
Import ListNotations.
Open Scope Z_scope.

(* ------------------------------------------------------------------ results *)
Inductive err := EDiagCount | ENoShape | EDiagLen | EZeroByZero | ENegLen
               | EBadSpin | EIndex | ELength | EKey.
Inductive res (A : Type) := Ok (a : A) | Err (e : err).
Arguments Ok {A} a.
Arguments Err {A} e.

(* np.arange(a, b) on integers *)
Definition arange (a b : Z) : list Z :=
  map (fun t => a + Z.of_nat t) (seq 0 (Z.to_nat (b - a))).

(* ---------------------------------------------- data/{dia,csr,dense}.diags
   Common front end of the three `diags(diagonals, offsets, shape=None)`:
     diagonals = list(diagonals)
     if diagonals and np.isscalar(diagonals[0]): diagonals = [diagonals]
     if len(diagonals) != len(offsets): raise ValueError
     if len(diagonals) == 0: raise ValueError          (shape is None)
     order = argsort(offsets); equal offsets are summed
     n = abs(offsets_[0]) + len(diagonals_[0])
     every diagonal must have length _diagonal_length(offset, n, n) = n - |offset|
     n == 0: raise ValueError *)
Section Diags.
  Variable T : Type.
  Variable zero : T.
  Variable add : T -> T -> T.

  Inductive diag_arg := Flat (d : list T) | Nested (ds : list (list T)).

  (* `if diagonals and np.isscalar(diagonals[0])`: an EMPTY flat sequence is
     not wrapped, it is read as "no diagonals at all" *)
  Definition wrap (a : diag_arg) : list (list T) :=
    match a with
    | Flat [] => []
    | Flat d => [d]
    | Nested ds => ds
    end.

  Record mat := { dim : nat; dgs : list (Z * list T) }.

  (* first diagonal carrying the smallest offset (stable argsort) *)
  Fixpoint argmin (l : list (Z * list T)) (best : Z * list T) : Z * list T :=
    match l with
    | [] => best
    | x :: r => argmin r (if fst x <? fst best then x else best)
    end.

  Definition diags (a : diag_arg) (offsets : list Z) : res mat :=
    let ds := wrap a in
    if negb (length ds =? length offsets)%nat then Err EDiagCount else
    match combine offsets ds with
    | [] => Err ENoShape
    | x :: r =>
        let m := argmin r x in
        let n := (Z.abs_nat (fst m) + length (snd m))%nat in
        if forallb (fun od => Z.of_nat (length (snd od)) =? Z.of_nat n - Z.abs (fst od))
                   (x :: r)
        then if (n =? 0)%nat then Err EZeroByZero
             else Ok {| dim := n; dgs := x :: r |}
        else Err EDiagLen
    end.

  (* element t of the diagonal with offset k sits at (t, t+k) for k >= 0 and at
     (t-k, t) for k < 0 *)
  Definition dentry (od : Z * list T) (i j : nat) : T :=
    if Z.of_nat j - Z.of_nat i =? fst od
    then nth (if 0 <=? fst od then i else j) (snd od) zero
    else zero.

  Definition entry (m : mat) (i j : nat) : T :=
    fold_right (fun od acc => add (dentry od i j) acc) zero (dgs m).

  Definition full (m : mat) : list (list T) :=
    map (fun i => map (fun j => entry m i j) (seq 0 (dim m))) (seq 0 (dim m)).
End Diags.
Arguments Flat {T} d.
Arguments Nested {T} ds.
Arguments dim {T} m.
Arguments dgs {T} m.

Definition zdiags := diags Z.
Definition zentry := entry Z 0 Z.add.
Definition zfull := full Z 0 Z.add.
(* non-zero entries in row-major order (what the harness compares) *)
Definition znz (m : mat Z) : nat * list (nat * nat * Z) :=
  (dim m,
   flat_map (fun i => flat_map (fun j => let v := zentry m i j in
                                          if v =? 0 then [] else [(i, j, v)])
                               (seq 0 (dim m))) (seq 0 (dim m))).
Definition znz_res (r : res (mat Z)) : option (nat * list (nat * nat * Z)) :=
  match r with Ok m => Some (znz m) | Err _ => None end.

(* -------------------------------------------------- operators.py ladder ops
   destroy: data = sqrt(arange(offset+1, N+offset)); qdiags([data], [1])
   create : same data; qdiags([data], [-1])
   (a list of one diagonal, so that the empty diagonal of N = 1 is kept)
   num    : data = arange(offset, offset+N); qdiags(data, 0)
   (qdiags turns the scalar offset k into [k] and calls _data.diag) *)
Definition destroy_rad (N off : Z) : res (mat Z) :=
  zdiags (Nested [arange (off + 1) (N + off)]) [1].
Definition create_rad (N off : Z) : res (mat Z) :=
  zdiags (Nested [arange (off + 1) (N + off)]) [-1].
Definition num_diag (N off : Z) : res (mat Z) :=
  zdiags (Flat (arange off (off + N))) [0].

(* charge(Nmax, Nmin, frac): diag = frac * arange(Nmin, Nmax+1) (integer frac) *)
Definition charge_diag (Nmax Nmin frac : Z) : res (mat Z) :=
  zdiags (Flat (map (Z.mul frac) (arange Nmin (Nmax + 1)))) [0].
(* out._isunitary = (len(diag) <= 2) and np.all(np.abs(diag) == 1.) *)
Definition charge_isunitary (Nmax Nmin frac : Z) : bool :=
  let d := map (Z.mul frac) (arange Nmin (Nmax + 1)) in
  (length d <=? 2)%nat && forallb (fun x => Z.abs x =? 1) d.

(* tunneling(N, m): diags = [ones(N-m), ones(N-m)]; qdiags(diags, [m, -m]);
   np.ones(negative) raises ValueError *)
Definition ones (k : Z) : list Z := map (fun _ => 1) (seq 0 (Z.to_nat k)).
Definition tunneling_mat (N m : Z) : res (mat Z) :=
  if N - m <? 0 then Err ENegLen
  else zdiags (Nested [ones (N - m); ones (N - m)]) [m; - m].
Definition tunneling_isunitary (N m : Z) : bool := (m * 2 =? N).

(* ------------------------------------------------------- operators.py jmat
   J = 2j (doubled spin).  _jplus:
     m = arange(j, -j-1, -1)            doubled: M_k = J - 2k, k = 0..J
     data = sqrt(j(j+1) - m(m+1))[1:]   4*radicand = J(J+2) - M(M+2)
     diag([data], [1])
   _jz: data = [j-k for k in range(int(2j+1))]   doubled: J - 2k ; diag(data, 0) *)
Definition jm2 (J : Z) : list Z := map (fun k => J - 2 * Z.of_nat k) (seq 0 (Z.to_nat (J + 1))).
Definition jplus_rad4 (J : Z) : list Z := map (fun M => J * (J + 2) - M * (M + 2)) (jm2 J).
Definition jplus_data (J : Z) : list Z := tl (map (fun r => r / 4) (jplus_rad4 J)).
Definition jplus_rad (J : Z) : res (mat Z) :=
  if J <? 0 then Err EBadSpin else zdiags (Nested [jplus_data J]) [1].
(* jmat(j,'-') is _jplus(j).adjoint(): transposed positions, same radicands *)
Definition jz2_diag (J : Z) : res (mat Z) :=
  if J <? 0 then Err EBadSpin else zdiags (Flat (jm2 J)) [0].

(* --------------------------------------------------- operators.py qdiags flags
   Gaussian-integer diagonals (re, im), atol = 1e-12:
     len(offsets) == 1 and offsets[0] != 0 ->
                       isherm    = np.all(np.abs(diagonals) <= atol)
                       isunitary = False
     offsets == [0] -> isherm    = np.all(np.abs(np.imag(diagonals)) <= atol)
                       isunitary = np.all(np.abs(np.abs(diagonals) - 1) <= atol)
     otherwise None, None
   On Gaussian integers  |imag| <= 1e-12  iff im = 0,  |d| <= 1e-12 iff d = 0
   and  ||d| - 1| <= 1e-12  iff re^2 + im^2 = 1. *)
Definition gflat (a : diag_arg (Z * Z)) : list (Z * Z) :=
  match a with Flat d => d | Nested ds => concat ds end.
Definition qdiags_flags (a : diag_arg (Z * Z)) (offsets : list Z)
  : option bool * option bool :=
  match offsets with
  | [o] => if negb (o =? 0)
           then (Some (forallb (fun d => (fst d =? 0) && (snd d =? 0)) (gflat a)), Some false)
           else (Some (forallb (fun d => snd d =? 0) (gflat a)),
                 Some (forallb (fun d => fst d * fst d + snd d * snd d =? 1) (gflat a)))
  | _ => (None, None)
  end.
(* what the flags are supposed to say about a diagonal matrix *)
Definition diag_is_herm (d : list (Z * Z)) : bool := forallb (fun x => snd x =? 0) d.
Definition diag_is_unitary (d : list (Z * Z)) : bool :=
  forallb (fun x => fst x * fst x + snd x * snd x =? 1) d.
Definition diag_is_zero (d : list (Z * Z)) : bool :=
  forallb (fun x => (fst x =? 0) && (snd x =? 0)) d.

(* -------------------------------------------- states.py basis / dims2idx
   location = sum_k (n_k - offset_k) * prod_{l>k} dims_l ; every n_k - offset_k
   must lie in [0, dims_k) (IndexError -> ValueError otherwise) *)
Fixpoint dims2idx (dims ns : list Z) : res Z :=
  match dims, ns with
  | [], [] => Ok 0
  | d :: dr, n :: nr =>
      if (0 <=? n) && (n <? d) then
        match dims2idx dr nr with
        | Ok p => Ok (n * fold_right Z.mul 1 dr + p)
        | Err e => Err e
        end
      else Err EIndex
  | _, _ => Err ELength
  end.
Definition basis_loc (dims ns offs : list Z) : res Z :=
  if negb ((length ns =? length dims) && (length offs =? length ns))%nat then Err ELength
  else dims2idx dims (map (fun p => fst p - snd p) (combine ns offs)).

(* w_state(N): positions of the N kets |0..1..0>, ghz_state(N): |0..0>, |1..1> *)
Definition roll1 (N k : nat) : list Z :=
  map (fun i => if (i =? k)%nat then 1 else 0) (seq 0 N).
Definition w_positions (N : nat) : list (res Z) :=
  map (fun k => dims2idx (repeat 2 N) (roll1 N k)) (seq 0 N).
Definition ghz_positions (N : nat) : list (res Z) :=
  [dims2idx (repeat 2 N) (repeat 0 N); dims2idx (repeat 2 N) (repeat 1 N)].

(* ------------------------------------ states.py state_number_enumerate(dims, E)
     state = (0,)*len(dims); nexc = 0
     if not dims: yield state; return
     while True:
         yield state
         idx = len(dims) - 1
         state = state[:idx] + (state[idx]+1,);  nexc += 1
         while nexc > E or state[idx] >= dims[idx]:
             idx -= 1
             if idx < 0: return
             nexc -= state[idx+1] - 1
             state = state[:idx] + (state[idx]+1, 0) + state[idx+2:]
   The state is kept reversed (last mode first) as a list of (dim, occupation)
   so that the walk of idx from the last mode to the first is structural.
   `bump ps E nexc`: add one excitation to the head mode; while the result is
   not allowed, empty that mode and carry into the next one.  None = return. *)
Fixpoint bump (ps : list (Z * Z)) (E nexc : Z) : option (list (Z * Z) * Z) :=
  match ps with
  | [] => None
  | (d, s) :: rest =>
      let s1 := s + 1 in
      let n1 := nexc + 1 in
      if (E <? n1) || (d <=? s1) then
        (* nexc -= state[idx+1] - 1  is  n1 - s1, then +1 by the inner bump *)
        match bump rest E (n1 - s1) with
        | None => None
        | Some (r, n) => Some ((d, 0) :: r, n)
        end
      else Some ((d, s1) :: rest, n1)
  end.

Definition occ (ps : list (Z * Z)) : list Z := rev (map snd ps).

Fixpoint enum_loop (fuel : nat) (ps : list (Z * Z)) (E nexc : Z) : list (list Z) * bool :=
  match fuel with
  | O => ([], false)                       (* out of fuel: not a complete run *)
  | S f =>
      match bump ps E nexc with
      | None => ([occ ps], true)
      | Some (ps', n') => let (l, ok) := enum_loop f ps' E n' in (occ ps :: l, ok)
      end
  end.

Definition enum_fuel (dims : list Z) : nat :=
  S (Z.to_nat (fold_right (fun d acc => Z.max d 1 * acc) 1 dims)).

(* `if not dims: yield state; return` : no mode at all, the empty state is
   the only one *)
Definition state_number_enumerate (dims : list Z) (E : Z) : res (list (list Z) * bool) :=
  match dims with
  | [] => Ok ([[]], true)
  | _ => Ok (enum_loop (enum_fuel dims) (rev (map (fun d => (d, 0)) dims)) E 0)
  end.

(* ---------------------------- energy_restricted.py enr_state_dictionaries
   idx2state = the enumeration; state2idx = its inverse (first index) *)
Fixpoint list_eqb (a b : list Z) : bool :=
  match a, b with
  | [], [] => true
  | x :: a', y :: b' => (x =? y) && list_eqb a' b'
  | _, _ => false
  end.
Fixpoint index_of (s : list Z) (l : list (list Z)) (k : nat) : option nat :=
  match l with
  | [] => None
  | x :: r => if list_eqb s x then Some k else index_of s r (S k)
  end.
Definition state2idx (sts : list (list Z)) (s : list Z) : option nat := index_of s sts 0%nat.

(* enr_destroy: for n1, state1 in idx2state.items(): for idx, s in enumerate(state1):
     if s > 0: state2 = state1 with s-1 at idx; n2 = state2idx[state2];
               a_ops[idx][n2, n1] = sqrt(s)
   modelled as the list of (n2, n1, radicand) per mode; a missing key is an
   error (KeyError in the implementation) *)
Fixpoint set_nth (k : nat) (v : Z) (l : list Z) : list Z :=
  match l, k with
  | [], _ => []
  | _ :: r, O => v :: r
  | x :: r, S k' => x :: set_nth k' v r
  end.
Definition enr_destroy_mode (sts : list (list Z)) (idx : nat) : list (res (nat * nat * Z)) :=
  concat (map (fun p : nat * list Z =>
    let (n1, st) := p in
    let s := nth idx st 0 in
    if 0 <? s then
      match state2idx sts (set_nth idx (s - 1) st) with
      | Some n2 => [Ok (n2, n1, s)]
      | None => [Err EKey]
      end
    else []) (combine (seq 0 (length sts)) sts)).

(* full-space meaning: <t| a_idx |s> = sqrt(s_idx) if t = s - e_idx, else 0
   (a_idx = 1 (x) .. destroy(d_idx) .. (x) 1); radicand form *)
Definition full_destroy_rad (idx : nat) (t s : list Z) : Z :=
  if list_eqb t (set_nth idx (nth idx s 0 - 1) s) && (0 <? nth idx s 0) then nth idx s 0 else 0.

(* ------------------------- random_objects.py _implicit_tensor_dimensions
   input forms: an int n, a flat list [..], or a list of two lists [[..],[..]]
   (nested deeper forms are outside the model);  returns (N, [dims, dims]) *)
Inductive dimform := DInt (n : Z) | DList (l : list Z) | DNest (l : list (list Z)).
Definition zprod (l : list Z) := fold_right Z.mul 1 l.
(* result dims are returned as a dimform for `dimensions` (the answer is
   [dimensions, dimensions]) *)
Definition implicit_tensor_dimensions (d : dimform) (superoper : bool)
  : res (Z * dimform) :=
  let d1 := match d with DInt n => DList [n] | x => x end in
  let flat := match d1 with DInt n => [n] | DList l => l | DNest l => concat l end in
  if negb (forallb (fun x => 0 <=? x) flat) then Err EIndex else
  let N := zprod flat in
  if superoper then
    match d1 with
    | DList l => match l with
                 | [] => Err EIndex           (* dimensions[0] on an empty list *)
                 | _ => Ok (N, DNest [l; l])
                 end
    | DNest l => match l with
                 | [] => Err EIndex
                 | _ => Ok (Z.sqrt N, d1)     (* int(N**0.5) *)
                 end
    | DInt _ => Err EIndex
    end
  else Ok (N, d1).

(* ------------------------------------------------ Gaussian-integer matrices
   used for the gate tables generated from gates.py (Gen/C20_gates.v) *)
Definition gz := (Z * Z)%type.
Definition gadd (a b : gz) : gz := (fst a + fst b, snd a + snd b).
Definition gmul (a b : gz) : gz :=
  (fst a * fst b - snd a * snd b, fst a * snd b + snd a * fst b).
Definition gconj (a : gz) : gz := (fst a, - snd a).
Definition geqb (a b : gz) : bool := (fst a =? fst b) && (snd a =? snd b).
Definition gmat := list (list gz).
Definition gnth (m : gmat) (i j : nat) : gz := nth j (nth i m []) (0, 0).
Definition gsum (l : list gz) : gz := fold_right gadd (0, 0) l.
Definition gmatmul (n : nat) (a b : gmat) : gmat :=
  map (fun i => map (fun j => gsum (map (fun k => gmul (gnth a i k) (gnth b k j)) (seq 0 n)))
                    (seq 0 n)) (seq 0 n).
Definition gdag (n : nat) (a : gmat) : gmat :=
  map (fun i => map (fun j => gconj (gnth a j i)) (seq 0 n)) (seq 0 n).
Definition gid (n : nat) : gmat :=
  map (fun i => map (fun j => if (i =? j)%nat then (1, 0) else (0, 0)) (seq 0 n)) (seq 0 n).
Definition gmat_eqb (n : nat) (a b : gmat) : bool :=
  forallb (fun i => forallb (fun j => geqb (gnth a i j) (gnth b i j)) (seq 0 n)) (seq 0 n).
Definition gwellformed (n : nat) (a : gmat) : bool :=
  (length a =? n)%nat && forallb (fun r => (length r =? n)%nat) a.

(* the real table is g_mat / g_scale (entries of sqrtnot, sqrtswap are halves) *)
Record gate := { g_name : nat; g_n : nat; g_scale : Z; g_mat : gmat;
                 g_isherm : option bool; g_isunitary : option bool }.
Definition gscaled_id (n : nat) (c : Z) : gmat := map (map (gmul (c, 0))) (gid n).
(* a literal flag must agree with the literal table *)
Definition flag_ok (f : option bool) (truth : bool) : bool :=
  match f with None => true | Some b => Bool.eqb b truth end.
Definition gate_ok (g : gate) : bool :=
  gwellformed (g_n g) (g_mat g)
  && flag_ok (g_isherm g) (gmat_eqb (g_n g) (g_mat g) (gdag (g_n g) (g_mat g)))
  && flag_ok (g_isunitary g)
       (gmat_eqb (g_n g) (gmatmul (g_n g) (g_mat g) (gdag (g_n g) (g_mat g)))
                 (gscaled_id (g_n g) (g_scale g * g_scale g))).

(* ------------------------------------------------ gates.py hadamard_transform
     _hamming_distance(x):  tot = 0;  while x: tot += 1; x &= x - 1;  return tot
     data[j][i] = 2**(-N/2) * (-1) ** _hamming_distance(i & j),  i, j < 2**N
   The model keeps the sign (-1)^.. as an integer; the common factor 2^(-N/2)
   is compared exactly by the harness. *)
Fixpoint hamming_loop (fuel : nat) (x : N) : nat :=
  match fuel with
  | O => O
  | S f => if N.eqb x 0 then O else S (hamming_loop f (N.land x (N.pred x)))
  end.
(* the loop runs at most (number of bits of x) times *)
Definition hamming_distance (x : N) : nat := hamming_loop (N.to_nat (N.size x)) x.
Definition sgn (k : nat) : Z := if Nat.even k then 1 else -1.
Definition hadamard_sign (i j : N) : Z := sgn (hamming_distance (N.land i j)).

(* definition-level meaning: the n-fold tensor power of H1 = [[1,1],[1,-1]],
   last qubit = least significant bit *)
Definition h1 (a b : N) : Z := if N.odd a && N.odd b then -1 else 1.
Fixpoint hpow (n : nat) (i j : N) : Z :=
  match n with
  | O => 1
  | S m => hpow m (N.div2 i) (N.div2 j) * h1 i j
  end.
