(* C07 - Tier B executable model of the element formula of
   qutip/core/_brtensor.pyx::_br_term_dense (Bloch-Redfield term of one
   coupling operator in the eigenbasis of H), over Gaussian integers.

   All values are DOUBLED (the code multiplies by 0.5; the model returns
   2*out so that everything stays in Z[i]); tools/c07.py compares 2*impl
   with the model exactly.  `cutoff = None` stands for +inf. *)
From Coq Require Import List ZArith Bool Lia.
Import ListNotations.
Local Open Scope Z_scope.

Definition G := (Z * Z)%type.                 (* re, im *)
Definition g0 : G := (0, 0).
Definition gadd (x y : G) : G := (fst x + fst y, snd x + snd y).
Definition gsub (x y : G) : G := (fst x - fst y, snd x - snd y).
Definition gmul (x y : G) : G :=
  (fst x * fst y - snd x * snd y, fst x * snd y + snd x * fst y).
Definition gscale (z : Z) (x : G) : G := (z * fst x, z * snd x).
Definition gconj (x : G) : G := (fst x, - snd x).
Definition geqb (x y : G) : bool := (fst x =? fst y) && (snd x =? snd y).

Definition mat (T : Type) := list (list T).
Definition mget {T} (d : T) (M : mat T) (a b : nat) : T := nth b (nth a M []) d.
Definition gget := mget g0.
Definition zget := mget 0.
Definition mk {T} (n m : nat) (f : nat -> nat -> T) : mat T :=
  map (fun a => map (fun b => f a b) (seq 0 m)) (seq 0 n).
Definition gsum (n : nat) (f : nat -> G) : G :=
  fold_left (fun acc k => gadd acc (f k)) (seq 0 n) g0.

Definition within (cut : option Z) (x : Z) : bool :=
  match cut with None => true | Some c => Z.abs x <? c end.

Section Dense.
Variable n : nat.
Variable Ain : mat G.        (* the argument A *)
Variable S : mat Z.          (* spectrum *)
Variable K : mat Z.          (* skew *)
Variable cut : option Z.     (* cutoff *)

(* A = A.transpose()  (first statement of the kernel: the tensor is stored at
   the row-major index a*n+b, i.e. the column-stacked index of the transposed
   problem) *)
Definition A : mat G := mk n n (fun a b => gget Ain b a).

(* for a..: for b..: if fabs(skew[a,b]) < cutoff: for k..:
     ac_term[a,b] += A[a,k]*A[k,b]*spectrum[a,k]
     bd_term[a,b] += A[a,k]*A[k,b]*spectrum[b,k]                        *)
Definition ac_term (a b : nat) : G :=
  if within cut (zget K a b)
  then gsum n (fun k => gscale (zget S a k) (gmul (gget A a k) (gget A k b)))
  else g0.
Definition bd_term (a b : nat) : G :=
  if within cut (zget K a b)
  then gsum n (fun k => gscale (zget S b k) (gmul (gget A a k) (gget A k b)))
  else g0.

(* 2 * out_array[a*nrows + b, c*nrows + d] *)
Definition elem2 (a b c d : nat) : G :=
  if within cut (zget K a b - zget K c d) then
    let e := gscale (zget S c a + zget S d b) (gmul (gget A a c) (gget A d b)) in
    let e := if Nat.eqb a c then gsub e (ac_term d b) else e in
    let e := if Nat.eqb b d then gsub e (bd_term a c) else e in
    e
  else g0.

Definition br_dense2 : mat G :=
  mk (n * n) (n * n) (fun I J =>
    elem2 (I / n)%nat (I mod n)%nat (J / n)%nat (J mod n)%nat).
End Dense.

(* a superoperator matrix applied to the column-stacked operator X
   (vec(X)[r + n*c] = X[r,c]) and unstacked again *)
Definition apply_super (n : nat) (L : mat G) (X : mat G) : mat G :=
  mk n n (fun r c =>
    gsum (n * n) (fun J => gmul (gget L (r + n * c) J)
                               (gget X (J mod n)%nat (J / n)%nat))).

(* 2 * the operator expression of the documentation (no cut-off):
   (A o S^T) X A + A X (A o S) - A (A o S^T) X - X (A o S) A            *)
Definition gmm (n : nat) (P Q : mat G) : mat G :=
  mk n n (fun a b => gsum n (fun k => gmul (gget P a k) (gget Q k b))).
Definition madd (n : nat) (P Q : mat G) := mk n n (fun a b => gadd (gget P a b) (gget Q a b)).
Definition msub (n : nat) (P Q : mat G) := mk n n (fun a b => gsub (gget P a b) (gget Q a b)).
Definition mtr (n : nat) (P : mat G) := mk n n (fun a b => gget P b a).
Definition mdag (n : nat) (P : mat G) := mk n n (fun a b => gconj (gget P b a)).

Definition br_expr2 (n : nat) (A : mat G) (S : mat Z) (X : mat G) : mat G :=
  let AS := mk n n (fun a b => gscale (zget S a b) (gget A a b)) in
  let AST := mk n n (fun a b => gscale (zget S b a) (gget A a b)) in
  msub n (msub n (madd n (gmm n (gmm n AST X) A) (gmm n (gmm n A X) AS))
                 (gmm n (gmm n A AST) X))
         (gmm n X (gmm n AS A)).

Definition meqb (n : nat) (P Q : mat G) : bool :=
  forallb (fun a => forallb (fun b => geqb (gget P a b) (gget Q a b)) (seq 0 n)) (seq 0 n).
Definition is_hermb (n : nat) (P : mat G) : bool := meqb n P (mdag n P).
Definition mtrace (n : nat) (P : mat G) : G := gsum n (fun k => gget P k k).

(* observation used by the correspondence: the whole doubled tensor *)
Definition observe_dense (n : nat) (A : mat G) (S K : mat Z) (cut : option Z) : mat G :=
  br_dense2 n A S K cut.
