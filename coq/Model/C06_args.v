(* C06 - coefficients with arguments, composed: model of
   qutip/core/cy/coefficient.pyx
     Coefficient.__call__(t, _args, **kwargs)            (replace, then _call)
     FunctionCoefficient.replace_arguments               (Model/C06.v fc_replace)
     StrFunctionCoefficient.replace_arguments / _call
     Sum / Mul / Conj / Norm Coefficient  _call and replace_arguments
     InterCoefficient / ConstantCoefficient replace_arguments (return self)
   Executable; no proofs here. *)
From Coq Require Import List ZArith Bool.
Import ListNotations.
From QV Require Import Model.C06.
Open Scope Z_scope.

Section Tree.
  Context {V R : Type}.
  Variables (radd rmul : R -> R -> R) (rconj rnorm : R -> R).
  (* the wrapped Python function / the expression of a string coefficient /
     an argument-free leaf, seen through what they are evaluated with *)
  Variable ffun : nat -> Z -> (nat -> option V) -> R.
  Variable sfun : nat -> Z -> (nat -> option V) -> R.
  Variable xfun : nat -> Z -> R.

  Inductive coeff :=
  | CFunc (id : nat) (o : fcoeff (V:=V))
  | CStr (id : nat) (args : dict V)
  | CFixed (id : nat)                 (* InterCoefficient, ConstantCoefficient *)
  | CSum (a b : coeff)
  | CMul (a b : coeff)
  | CConj (a : coeff)
  | CNorm (a : coeff).

  (* replace_arguments(_args, **kwargs) *)
  Fixpoint creplace (c : coeff) (_args kw : dict V) : coeff :=
    match c with
    | CFunc id o => CFunc id (fst (fc_replace o _args kw))
    | CStr id args =>
        (* if _args: kwargs.update(_args)
           if kwargs: return StrFunctionCoefficient(base, {**args, **kwargs})
           return self *)
        match merge kw _args with
        | [] => c
        | m => CStr id (merge args m)
        end
    | CFixed id => c
    | CSum a b => CSum (creplace a _args kw) (creplace b _args kw)
    | CMul a b => CMul (creplace a _args kw) (creplace b _args kw)
    | CConj a => CConj (creplace a _args kw)
    | CNorm a => CNorm (creplace a _args kw)
    end.

  (* _call(t) *)
  Fixpoint ceval (c : coeff) (t : Z) : R :=
    match c with
    | CFunc id o => ffun id t (lookup (fc_args o))
    | CStr id args => sfun id t (lookup args)
    | CFixed id => xfun id t
    | CSum a b => radd (ceval a t) (ceval b t)
    | CMul a b => rmul (ceval a t) (ceval b t)
    | CConj a => rconj (ceval a t)
    | CNorm a => rnorm (ceval a t)
    end.

  (* __call__(t, _args, **kwargs) *)
  Definition ccall (c : coeff) (t : Z) (_args kw : dict V) : R :=
    match _args, kw with
    | [], [] => ceval c t
    | _, _ => ceval (creplace c _args kw) t
    end.

  (* a history of replace_arguments calls, oldest first *)
  Definition apply_hist (c : coeff) (hist : list (dict V * dict V)) : coeff :=
    fold_left (fun c h => creplace c (fst h) (snd h)) hist c.
End Tree.

(* ---------------------------------------- concrete leaves for the harness *)
(* Gaussian integers *)
Definition gadd (a b : Z * Z) := (fst a + fst b, snd a + snd b).
Definition gmul (a b : Z * Z) := (fst a * fst b - snd a * snd b, fst a * snd b + snd a * fst b).
Definition gconj (a : Z * Z) := (fst a, - snd a).
Definition gnorm (a : Z * Z) := (fst a * fst a + snd a * snd a, 0).

(* leaf i evaluates  (p t + sum wr_k v_k) + i (q t + sum wi_k v_k)  over the
   arguments it can see (a missing argument counts 0: Python default) *)
Definition lin_spec := (Z * Z * list (nat * Z * Z))%type.
Definition lin_eval (s : lin_spec) (t : Z) (l : nat -> option Z) : Z * Z :=
  let '(p, q, ws) := s in
  fold_left (fun acc w =>
               let '(k, wr, wi) := w in
               match l k with
               | Some v => (fst acc + wr * v, snd acc + wi * v)
               | None => acc
               end) ws (p * t, q * t).
Definition lin_leaf (tab : list lin_spec) (id : nat) (t : Z) (l : nat -> option Z) : Z * Z :=
  lin_eval (nth id tab (0, 0, [])) t l.
(* argument-free leaves: a constant, or an order-0 InterCoefficient on the
   grid 0, 1, 2, ... evaluated at an integer time *)
Definition fixed_leaf (tab : list (list (Z * Z))) (id : nat) (t : Z) : Z * Z :=
  let vals := nth id tab [] in
  nth (Z.to_nat (Z.max 0 (Z.min t (Z.of_nat (length vals) - 1)))) vals (0, 0).
