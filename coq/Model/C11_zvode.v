(* C11 - model of the dense-output window bookkeeping of
   IntegratorScipyAdams / IntegratorScipyBDF (qutip/solver/integrator/
   scipy_integrator.py): set_state and mcstep with the fields _back, _front and
   the time of the wrapped scipy `ode` object.

   SciPy's zvode is an oracle described by its documented contract:
   `ode.integrate(t)` (itask 1) returns the solution at exactly t and needs t
   not more than one step behind the internal time tcur (tcur - hu <= t), where
   it interpolates; `ode.integrate(t, step=True)` (qutip's itask 5, tcrit = t)
   takes ONE internal step from tcur to a new internal time f with
   tcur < f <= t and returns there; rwork[12] is tcur.  The new internal time
   is supplied by the oracle argument `f` of mcstep.  Times are an ordered type
   (Z: the harness scales the doubles of a case exactly).  Each call reports
   whether every zvode call it made respected that contract (ghost flag).
   No proofs in this file. *)
From Coq Require Import List ZArith Bool Arith.
Import ListNotations.
Open Scope Z_scope.

Record zst := mk_zst {
  z_isset : bool;     (* _is_set *)
  z_back : Z;         (* _back *)
  z_front : Z;        (* _front *)
  z_t : Z;            (* _ode_solver.t *)
  z_tcur : Z;         (* zvode internal time, rwork[12] *)
  z_hu : Z            (* zvode: size of the last internal step *)
}.

Definition z_new : zst := mk_zst false 0 0 0 0 0.

(* set_state(t, state0): _back = _front = t; ode.set_initial_value resets the
   integrator (istate = 1): internal time t, no step taken yet *)
Definition z_set_state (s : zst) (t : Z) : zst := mk_zst true t t t t 0.

(* result of a call: raised?, returned time, zvode contract respected *)
Definition zres := (bool * Z * bool)%type.

(* ode.integrate(t), itask 1, for a target not beyond tcur: interpolation *)
Definition z_run_back (s : zst) (t : Z) : zst * bool :=
  (mk_zst (z_isset s) (z_back s) (z_front s) t (z_tcur s) (z_hu s),
   (z_tcur s - z_hu s <=? t) && (t <=? z_tcur s)).

(* mcstep(t); f is the internal time zvode reaches if a step is taken *)
Definition z_mcstep (s : zst) (t f : Z) : zst * zres :=
  if negb (z_isset s) then (s, (true, z_t s, true))
  else if z_t s =? t then (s, (false, z_t s, true))
  else if t <? z_back s then (s, (true, z_t s, true))
  else if t <=? z_front s then
    let '(s1, ok) := z_run_back s t in (s1, (false, z_t s1, ok))
  else if z_t s <? z_front s then
    let '(s1, ok) := z_run_back s (z_front s) in (s1, (false, z_t s1, ok))
  else
    let ok := (z_t s =? z_tcur s) && (z_tcur s <? f) && (f <=? t) in
    let s1 := mk_zst true (z_front s) f f f (f - z_tcur s) in
    (s1, (false, f, ok)).

Inductive zop := ZSet (t : Z) | ZMc (t f : Z).

Definition z_do (s : zst) (o : zop) : zst * zres :=
  match o with
  | ZSet t => (z_set_state s t, (false, t, true))
  | ZMc t f => z_mcstep s t f
  end.

(* what the harness observes after a call: raised, returned time, then
   _is_set, _back, _front, ode.t, rwork[12] *)
Fixpoint z_trace (s : zst) (ops : list zop)
  : list (bool * Z * (bool * Z * Z * Z * Z)) :=
  match ops with
  | [] => []
  | o :: r =>
      let '(s1, (raised, tout, _)) := z_do s o in
      (raised, tout, (z_isset s1, z_back s1, z_front s1, z_t s1, z_tcur s1))
      :: z_trace s1 r
  end.

Fixpoint z_run (s : zst) (ops : list zop) : zst :=
  match ops with [] => s | o :: r => z_run (fst (z_do s o)) r end.

(* every zvode call of the history respected the contract *)
Fixpoint z_contract (s : zst) (ops : list zop) : bool :=
  match ops with
  | [] => true
  | o :: r => snd (snd (z_do s o)) && z_contract (fst (z_do s o)) r
  end.

(* the oracle values are admissible: whenever mcstep takes a step, the new
   internal time lies after the old one and not beyond the target *)
Fixpoint z_oracle_ok (s : zst) (ops : list zop) : Prop :=
  match ops with
  | [] => True
  | o :: r =>
      match o with
      | ZSet _ => True
      | ZMc t f => z_isset s = true -> z_front s < t -> z_front s <= z_t s ->
                   z_tcur s < f <= t
      end /\ z_oracle_ok (fst (z_do s o)) r
  end.
