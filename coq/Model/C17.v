(* C17 - noise bookkeeping of the diffusive stochastic solvers.

   Model of
     qutip/solver/sode/_noise.py      Wiener (dW, _extend, __call__), PreSetWiener
     qutip/solver/stochastic.py       StochasticTrajResult.dW / wiener_process /
                                      measurement
     qutip/solver/sode/sode.py        _Explicit_Simple_Integrator.integrate (the
                                      slab bookkeeping: which increments a step
                                      consumes and what is reported as `noise`)

   Conventions.
   * The array `Wiener.noise` of shape (len, N_dw, n_ops) is a list of slabs;
     a slab is a list of N_dw rows of n_ops numbers.
   * The random generator is a stream `g : nat -> Z` of scalars; a call
     `generator.normal(0, sqrt dt, size=(k, N_dw, n_ops))` consumes the next
     k*N_dw*n_ops scalars in C order.  Because `_extend` only appends, the
     number of scalars consumed so far is always len*N_dw*n_ops, which is what
     `slab_of` uses.
   * Times: the caller's t is represented by the exact quotient
     (t - t0)/dt = m/den (m : nat, den : positive); Python's round() is
     round-half-to-even.  Only t >= t0 is modelled (negative indices would
     be Python wrap-around slices).
   * Payloads are integers (Z) here; measurement arithmetic, which divides by
     dt, is over Q (second half of the file). *)
From Coq Require Import List ZArith Bool Arith Lia QArith.
Import ListNotations.
Close Scope Q_scope.
Open Scope nat_scope.

Definition vec := list Z.
Definition slab := list vec.           (* N_dw rows, n_ops columns *)

(* ------------------------------------------------------------ small helpers *)
Fixpoint vadd (a b : vec) : vec :=     (* numpy a + b for equal shapes *)
  match a, b with
  | x :: a', y :: b' => (x + y)%Z :: vadd a' b'
  | _, _ => []
  end.

Definition vzero (n : nat) : vec := repeat 0%Z n.

(* np.sum(rows, axis=0) for rows of length n *)
Definition vsum (n : nat) (rows : list vec) : vec := fold_left vadd rows (vzero n).

Definition row0 (s : slab) : vec := hd [] s.

(* noise[a:b] for 0 <= a *)
Definition slice {A} (l : list A) (a b : nat) : list A := firstn (b - a) (skipn a l).

(* Python round(m/den): half to even *)
Definition pyround (m : nat) (den : positive) : nat :=
  let d := Pos.to_nat den in
  let q := Nat.div m d in
  let r := Nat.modulo m d in
  if 2 * r <? d then q
  else if d <? 2 * r then S q
  else if Nat.even q then q else S q.

(* ------------------------------------------------------------------ Wiener *)
Record wiener := {
  w_rows : nat;                (* shape[0] = N_dw *)
  w_ops : nat;                 (* shape[1] = number of stochastic operators *)
  w_noise : list slab;         (* self.noise *)
  w_last : vec;                (* self.last_W *)
  w_idx : nat }.               (* self.idx_last_0 *)

Definition slab_of (g : nat -> Z) (rows ops : nat) (k : nat) : slab :=
  map (fun r => map (fun i => g (k * (rows * ops) + r * ops + i)) (seq 0 ops)) (seq 0 rows).

(* Wiener.__init__ *)
Definition w_init (rows ops : nat) : wiener :=
  {| w_rows := rows; w_ops := ops; w_noise := []; w_last := vzero ops; w_idx := 0 |}.

(* Wiener._extend(idx): append idx - len new slabs drawn from the generator *)
Definition w_extend (g : nat -> Z) (w : wiener) (idx : nat) : wiener :=
  let len := length (w_noise w) in
  {| w_rows := w_rows w; w_ops := w_ops w;
     w_noise := w_noise w ++ map (slab_of g (w_rows w) (w_ops w)) (seq len (idx - len));
     w_last := w_last w; w_idx := w_idx w |}.

(* Wiener.dW(t, N) with idx0 = round((t-t0)/dt):
     if idx0 + N - 1 >= len: _extend(idx0 + N);  return noise[idx0:idx0+N] *)
Definition w_dW (g : nat -> Z) (w : wiener) (idx0 N : nat) : wiener * list slab :=
  let w1 := if length (w_noise w) + 1 <=? idx0 + N then w_extend g w (idx0 + N) else w in
  (w1, slice (w_noise w1) idx0 (idx0 + N)).

(* the arithmetic of Wiener.__call__ once the array is long enough *)
Definition call_core (w : wiener) (idx : nat) : wiener * vec :=
  let '(i0, l0) := if idx <? w_idx w then (0, vzero (w_ops w)) else (w_idx w, w_last w) in
  let lw := vadd l0 (vsum (w_ops w) (map row0 (slice (w_noise w) i0 idx))) in
  ({| w_rows := w_rows w; w_ops := w_ops w; w_noise := w_noise w;
      w_last := lw; w_idx := idx |}, lw).

(* Wiener.__call__(t): `if idx > len: _extend(idx)`, then
   last_W += sum(noise[idx_last_0:idx, 0, :]) *)
Definition w_call (g : nat -> Z) (w : wiener) (idx : nat) : wiener * vec :=
  let w1 := if length (w_noise w) + 1 <=? idx then w_extend g w idx else w in
  call_core w1 idx.

(* a history of queries made to one Wiener object *)
Inductive query := QdW (m : nat) (den : positive) (N : nat) | QW (m : nat) (den : positive).

Inductive answer := AdW (r : list slab) | AW (v : vec) | AErr.

Definition w_query (g : nat -> Z) (w : wiener) (q : query) : wiener * answer :=
  match q with
  | QdW m den N => let '(w', r) := w_dW g w (pyround m den) N in (w', AdW r)
  | QW m den => let '(w', v) := w_call g w (pyround m den) in (w', AW v)
  end.

Fixpoint w_run (g : nat -> Z) (w : wiener) (qs : list query) : wiener * list answer :=
  match qs with
  | [] => (w, [])
  | q :: r => let '(w1, a) := w_query g w q in
              let '(w2, as_) := w_run g w1 r in (w2, a :: as_)
  end.

(* what the correspondence harness compares: answers, final noise row-0 length *)
Definition w_observe (g : nat -> Z) (rows ops : nat) (qs : list query) :=
  let '(w, ans) := w_run g (w_init rows ops) qs in (ans, length (w_noise w)).

(* the same look-up under the names used by Proofs/C17_fix.v (kept from the
   time when this was the proposed repair; w_call_is_fixed shows they are the
   code's definitions) *)
Definition call_core_fixed (w : wiener) (idx : nat) : wiener * vec :=
  let '(i0, l0) := if idx <? w_idx w then (0, vzero (w_ops w)) else (w_idx w, w_last w) in
  let lw := vadd l0 (vsum (w_ops w) (map row0 (slice (w_noise w) i0 idx))) in
  ({| w_rows := w_rows w; w_ops := w_ops w; w_noise := w_noise w;
      w_last := lw; w_idx := idx |}, lw).

Definition w_call_fixed (g : nat -> Z) (w : wiener) (idx : nat) : wiener * vec :=
  let w1 := if length (w_noise w) + 1 <=? idx then w_extend g w idx else w in
  call_core_fixed w1 idx.

Definition w_query_fixed (g : nat -> Z) (w : wiener) (q : query) : wiener * answer :=
  match q with
  | QdW m den N => let '(w', r) := w_dW g w (pyround m den) N in (w', AdW r)
  | QW m den => let '(w', v) := w_call_fixed g w (pyround m den) in (w', AW v)
  end.

Fixpoint w_run_fixed (g : nat -> Z) (w : wiener) (qs : list query) : wiener :=
  match qs with
  | [] => w
  | q :: r => w_run_fixed g (fst (w_query_fixed g w q)) r
  end.

(* ------------------------------------------------------------ PreSetWiener *)
(* A numeric payload type is a parameter so that the same definitions serve
   for integer increments (Z) and for measurement records (Q). *)
Section Shapes.
  Context {A : Type}.

  (* column k of a list of rows, None when a row is too short *)
  Fixpoint column (rows : list (list A)) (k : nat) : option (list A) :=
    match rows with
    | [] => Some []
    | r :: rs => match nth_error r k, column rs k with
                 | Some x, Some c => Some (x :: c)
                 | _, _ => None
                 end
    end.

  (* numpy .T of a (n, T) array given as n rows; T is passed because the
     shape is not recoverable from an empty list of rows *)
  Fixpoint transpose_aux (rows : list (list A)) (k T : nat) : option (list (list A)) :=
    match T with
    | O => Some []
    | S T' => match column rows k, transpose_aux rows (S k) T' with
              | Some c, Some cs => Some (c :: cs)
              | _, _ => None
              end
    end.
  Definition transpose (rows : list (list A)) (T : nat) := transpose_aux rows 0 T.

  Definition rect (rows : list (list A)) (n T : nat) : bool :=
    (length rows =? n) && forallb (fun r => length r =? T) rows.

  (* np.reshape((n/2, 2, T) -> (n, T), order="C"): concatenate the pairs *)
  Definition unpair (x : list (list (list A))) : list (list A) := concat x.

  (* reshape(-1, 2, T): group consecutive rows in pairs *)
  Fixpoint pairup (rows : list (list A)) : list (list (list A)) :=
    match rows with
    | a :: b :: r => [a; b] :: pairup r
    | _ => []
    end.
End Shapes.

(* The `noise` argument of run_from_experiment / PreSetWiener *)
Inductive noise_arg (A : Type) :=
| Homo (rows : list (list A))            (* shape (n_sc_ops, T) *)
| Hetero (x : list (list (list A))).     (* shape (n_sc_ops/2, 2, T) *)
Arguments Homo {A}. Arguments Hetero {A}.

Record preset (A : Type) := {
  p_noise : list (list (list A));        (* (T, 1, n_sc_ops) *)
  p_scale_dt : bool;                     (* noise *= dt was applied (measurement input) *)
  p_scale_isqrt2 : bool }.               (* noise /= 2**0.5 was applied *)
Arguments p_noise {A}. Arguments p_scale_dt {A}. Arguments p_scale_isqrt2 {A}.

(* PreSetWiener.__init__(noise, tlist, n_sc_ops, heterodyne, is_measurement);
   T = len(tlist) - 1.  None = ValueError("Noise is not of the expected shape").
   The scaling itself (a float multiplication) is recorded as flags and
   applied by `scale_preset` over Q. *)
Definition preset_init {A} (na : noise_arg A) (T n_sc_ops : nat) (heterodyne meas : bool)
  : option (preset A) :=
  let rows :=
    match na, heterodyne with
    | Hetero x, true =>
        if (2 * length x =? n_sc_ops)
           && forallb (fun p => rect p 2 T) x then Some (unpair x) else None
    | Homo r, false => if rect r n_sc_ops T then Some r else None
    | _, _ => None
    end in
  match rows with
  | None => None
  | Some r => match transpose r T with
              | None => None
              | Some cols => Some {| p_noise := map (fun c => [c]) cols;
                                     p_scale_dt := meas;
                                     p_scale_isqrt2 := meas && heterodyne |}
              end
  end.

(* PreSetWiener.dW(t, N): _extend raises *)
Definition p_dW {A} (p : preset A) (idx0 N : nat) : option (list (list (list A))) :=
  if length (p_noise p) + 1 <=? idx0 + N then None
  else Some (slice (p_noise p) idx0 (idx0 + N)).

(* ------------------------------------------- StochasticTrajResult reporting *)
(* self.noise is the list (one entry per tlist interval) of the vectors
   returned by the integrator. *)
Definition res_noiseT {A} (nl : list (list A)) (n : nat) : option (list (list A)) :=
  transpose nl n.                       (* np.array(self.noise).T, shape (n, T) *)

Definition res_dW {A} (nl : list (list A)) (n : nat) (heterodyne : bool) : option (noise_arg A) :=
  match res_noiseT nl n with
  | None => None
  | Some r => Some (if heterodyne then Hetero (pairup r) else Homo r)
  end.

Fixpoint cumsum_from (acc : Z) (l : list Z) : list Z :=
  match l with
  | [] => []
  | x :: r => (acc + x)%Z :: cumsum_from (acc + x)%Z r
  end.

(* W = zeros((n, len(times))); np.cumsum(noise.T, axis=1, out=W[:, 1:]) *)
Definition res_wiener (nl : list vec) (n : nat) (heterodyne : bool) : option (noise_arg Z) :=
  match res_noiseT nl n with
  | None => None
  | Some r => let W := map (fun row => 0%Z :: cumsum_from 0%Z row) r in
              Some (if heterodyne then Hetero (pairup W) else Homo W)
  end.

(* --- measurement (over Q) --- *)
Inductive store := StStart | StMiddle | StEnd.

Fixpoint drop_last {A} (l : list A) : list A :=
  match l with
  | [] => []
  | [_] => []
  | x :: r => x :: drop_last r
  end.

Fixpoint mid (l : list Q) : list Q :=      (* np.convolve(m, [0.5, 0.5], "valid") *)
  match l with
  | x :: ((y :: _) as r) => ((1 # 2) * y + (1 # 2) * x)%Q :: mid r
  | _ => []
  end.

Definition m_expect_sel (st : store) (e : list Q) : list Q :=
  match st with
  | StStart => drop_last e
  | StEnd => tl e
  | StMiddle => mid e
  end.

Fixpoint diffs (t : list Q) : list Q :=     (* np.diff *)
  match t with
  | a :: ((b :: _) as r) => (b - a)%Q :: diffs r
  | _ => []
  end.

Fixpoint map3 {A B C D} (f : A -> B -> C -> D) (a : list A) (b : list B) (c : list C) : list D :=
  match a, b, c with
  | x :: a', y :: b', z :: c' => f x y z :: map3 f a' b' c'
  | _, _, _ => []
  end.

Fixpoint map2 {A B C} (f : A -> B -> C) (a : list A) (b : list B) : list C :=
  match a, b with
  | x :: a', y :: b' => f x y :: map2 f a' b'
  | _, _ => []
  end.

(* m_expect + einsum("i,ij,j->ij", dW_factor, noise.T, 1/diff(times)) *)
Definition res_measurement (st : store) (m_expect : list (list Q)) (factors : list Q)
           (nl : list (list Q)) (times : list Q) (heterodyne : bool)
  : option (noise_arg Q) :=
  match res_noiseT nl (length factors) with
  | None => None
  | Some r =>
      let inv := map Qinv (diffs times) in
      let scaled := map2 (fun f row => map2 (fun x d => (f * x * d)%Q) row inv) factors r in
      let me := map (m_expect_sel st) m_expect in
      let M := map2 (fun a b => map2 Qplus a b) me scaled in
      Some (if heterodyne then Hetero (pairup M) else Homo M)
  end.

(* printable form of a rational: numerator and denominator of the reduced
   fraction *)
Definition qprint (q : Q) : Z * Z := let r := Qred q in (Qnum r, Zpos (Qden r)).
Definition na_print (x : option (noise_arg Q)) :=
  match x with
  | None => None
  | Some (Homo r) => Some (Homo (map (map qprint) r))
  | Some (Hetero r) => Some (Hetero (map (map (map qprint)) r))
  end.

(* noise *= dt for a measurement record (the /2**0.5 stays a flag) *)
Definition scale_preset (dt : Q) (p : preset Q) : preset Q :=
  {| p_noise := if p_scale_dt p then map (map (map (fun x => (x * dt)%Q))) (p_noise p)
                else p_noise p;
     p_scale_dt := p_scale_dt p; p_scale_isqrt2 := p_scale_isqrt2 p |}.

(* --------------------------- integrator bookkeeping (sode.py integrate) *)
(* _Explicit_Simple_Integrator.integrate(t): delta_t/dt = m/den exactly.
     if delta_t < 0.5 dt: skipped, returns zeros(n_ops)
     N, extra = divmod(delta_t, dt); if extra > 0.5 dt: N += 1
   returns the number of steps taken (None = skipped). *)
Definition int_steps (m : nat) (den : positive) : option nat :=
  let d := Pos.to_nat den in
  if 2 * m <? d then None
  else let q := Nat.div m d in
       let r := Nat.modulo m d in
       Some (if d <? 2 * r then S q else q).

(* one run over a tlist on a fresh Wiener: step index advances by N per
   interval; reported noise = sum over the N slabs of row 0 *)
Fixpoint int_run (g : nat -> Z) (w : wiener) (pos : nat) (steps : list nat)
  : wiener * list vec :=
  match steps with
  | [] => (w, [])
  | N :: r => let '(w1, dw) := w_dW g w pos N in
              let '(w2, out) := int_run g w1 (pos + N) r in
              (w2, vsum (w_ops w) (map row0 dw) :: out)
  end.

(* ------------------------------------------- observations for the harness *)
(* PreSetWiener: construction, then a list of dW requests (idx0, N) *)
Definition p_observe (na : noise_arg Z) (T n_sc_ops : nat) (heterodyne meas : bool)
           (reqs : list (nat * nat)) :=
  match preset_init na T n_sc_ops heterodyne meas with
  | None => None
  | Some p => Some (p_noise p, p_scale_dt p, p_scale_isqrt2 p,
                    map (fun '(k, N) => p_dW p k N) reqs)
  end.

(* a whole run of the explicit integrators over a tlist given by the exact
   ratios (t_k - t_{k-1})/dt = m/den; intervals that are skipped contribute
   no steps (they are reported separately by the integrator) *)
Definition steps_of (ratios : list (nat * positive)) : list (option nat) :=
  map (fun '(m, den) => int_steps m den) ratios.

Definition int_observe (g : nat -> Z) (rows ops : nat) (steps : list nat) :=
  snd (int_run g (w_init rows ops) 0 steps).

Definition stream (l : list Z) (k : nat) : Z := nth k l 0%Z.

(* Integrator.run(tlist) for the explicit integrators: targets are the
   tlist entries after the first, in units of dt/den relative to t0; the
   integrator's own time is pos*dt.  A target behind the integrator's time
   raises ValueError and ends the run. *)
Inductive plan_item := PStep (N : nat) | PSkip | PErr.

Fixpoint int_plan (den : positive) (pos : nat) (targets : list nat) : list plan_item :=
  match targets with
  | [] => []
  | M :: r =>
      let d := Pos.to_nat den in
      if M <? pos * d then [PErr]
      else match int_steps (M - pos * d) den with
           | None => PSkip :: int_plan den pos r
           | Some N => PStep N :: int_plan den (pos + N) r
           end
  end.

Definition plan_steps (p : list plan_item) : list nat :=
  flat_map (fun it => match it with PStep N => [N] | _ => [] end) p.

Definition run_observe (g : nat -> Z) (rows ops : nat) (den : positive) (targets : list nat) :=
  let p := int_plan den 0 targets in
  (p, int_observe g rows ops (plan_steps p)).

(* ----------------------------------- which time each internal step sees *)
(* SIntegrator.integrate: the explicit / implicit integrators hand
   (self.t, N) to <stepper>.run, whose step i is taken at t + i*dt, and then
   do self.t += dt*N; RouchonSODE.integrate calls _step(self.t, ...) and does
   self.t += dt after every sub-step.  In units of dt, starting from
   integrator time pos: one integrate() of N sub-steps sees the times
   pos, pos+1, ..., pos+N-1 and leaves the integrator at pos+N. *)
Fixpoint step_times (pos : nat) (steps : list nat) : list (list nat) :=
  match steps with
  | [] => []
  | N :: r => seq pos N :: step_times (pos + N) r
  end.

Definition times_observe (den : positive) (targets : list nat) :=
  step_times 0 (plan_steps (int_plan den 0 targets)).
