(* Model of qutip/core/dimensions.py (Space / Field / Compound / SuperSpace /
   Dimensions with their metaclass constructors) and of the dimension
   bookkeeping of the arithmetic methods of qutip/core/qobj.py.
   Value semantics: the flyweight caches (_stored_dims) only intern equal
   values, so they do not appear. *)
From Coq Require Import List ZArith NArith Bool Arith Lia.
Import ListNotations.

Inductive rep := RSuper | RChoi | RChi | RMixed.

Definition rep_eqb (a b : rep) : bool :=
  match a, b with
  | RSuper, RSuper | RChoi, RChoi | RChi, RChi | RMixed, RMixed => true
  | _, _ => false
  end.

Definition orep_eqb (a b : option rep) : bool :=
  match a, b with
  | None, None => true
  | Some x, Some y => rep_eqb x y
  | _, _ => false
  end.

Inductive space :=
| Field                                   (* Field() *)
| Simple (n : N)                          (* Space(n) *)
| Compound (l : list space)               (* Compound of spaces, stored flattened *)
| Super (from_ to_ : space) (r : rep).    (* SuperSpace(Dimensions(from_, to_), rep) *)

Record dims := { d_from : space; d_to : space }.

(* nested dims lists as the user writes them *)
Inductive nl := NI (n : N) | NL (l : list nl).

Inductive err := ValueError | TypeError | NotImplementedError | IndexError | OutOfFuel.
Inductive res (A : Type) := Ok (a : A) | Err (e : err).
Arguments Ok {A} a. Arguments Err {A} e.

Definition bind {A B} (x : res A) (f : A -> res B) : res B :=
  match x with Ok a => f a | Err e => Err e end.

Fixpoint mapM {A B} (f : A -> res B) (l : list A) : res (list B) :=
  match l with
  | [] => Ok []
  | x :: t => bind (f x) (fun y => bind (mapM f t) (fun ys => Ok (y :: ys)))
  end.

(* ---------------------------------------------------------- attributes *)
Local Open Scope N_scope.
Fixpoint size (s : space) : N :=
  match s with
  | Field => 1
  | Simple n => n
  | Compound l => fold_right (fun x acc => size x * acc) 1 l
  | Super f t _ => size t * size f          (* oper.shape[0] * oper.shape[1] *)
  end.

Fixpoint issuper (s : space) : bool :=
  match s with
  | Field | Simple _ => false
  | Compound l => forallb issuper l
  | Super _ _ _ => true
  end.

Fixpoint superrep (s : space) : option rep :=
  match s with
  | Field | Simple _ => None
  | Compound l => match l with [] => None | x :: _ => superrep x end
  | Super _ _ r => Some r
  end.

(* as_list: Space.as_list / Compound.as_list / SuperSpace.as_list *)
Fixpoint as_list (s : space) : list nl :=
  match s with
  | Field => [NI 1]
  | Simple n => [NI n]
  | Compound l => flat_map as_list l
  | Super f t _ => [NL (as_list t); NL (as_list f)]
  end.
Definition dims_as_list (d : dims) : list nl := [NL (as_list (d_to d)); NL (as_list (d_from d))].

Fixpoint flat (s : space) : list N :=
  match s with
  | Field => [1]
  | Simple n => [n]
  | Compound l => flat_map flat l
  | Super f t _ => flat t ++ flat f
  end.

(* Compound.step iterates the factors right to left *)
Fixpoint step (s : space) : list N :=
  match s with
  | Field | Simple _ => [1]
  | Compound l =>
      fst (fold_right (fun x acc =>
             let '(steps, st) := acc in
             (map (fun N => st * N) (step x) ++ steps, st * size x)) ([], 1) l)
  | Super f t _ => step t ++ map (fun N => size t * N) (step f)
  end.

(* ------------------------------------------------------------ equality *)
(* Space.__eq__, Field.__eq__, Compound.__eq__ (tuple comparison),
   SuperSpace.__eq__ between two spaces *)
Fixpoint space_eqb (a b : space) : bool :=
  match a, b with
  | Field, Field => true
  | Simple n, Simple m => N.eqb n m
  | Compound l, Compound k =>
      (fix go (l k : list space) : bool :=
         match l, k with
         | [], [] => true
         | x :: l', y :: k' => space_eqb x y && go l' k'
         | _, _ => false
         end) l k
  | Super f t r, Super f' t' r' => space_eqb t t' && space_eqb f f' && rep_eqb r r'
  | _, _ => false
  end.

Definition dims_eqb (a b : dims) : bool :=
  space_eqb (d_to a) (d_to b) && space_eqb (d_from a) (d_from b).

(* what Python hashes: __hash__ is hash(<key>) for these keys *)
Inductive hkey := KInt (n : N) | KRep (r : rep) | KTuple (l : list hkey).
Fixpoint space_key (s : space) : hkey :=
  match s with
  | Field => KInt 0
  | Simple n => KInt n
  | Compound l => KTuple (map space_key l)
  | Super f t r => KTuple [KTuple [space_key t; space_key f]; KRep r]
  end.
Definition dims_key (d : dims) : hkey := KTuple [space_key (d_to d); space_key (d_from d)].

(* ---------------------------------------------------- Dimensions.__init__ *)
Inductive qtype := TScalar | TKet | TBra | TOper | TOperKet | TOperBra | TSuper.

Definition dims_shape (d : dims) : N * N := (size (d_to d), size (d_from d)).

(* raises NotImplementedError for a rectangular mix of space and superspace *)
Definition dims_check (d : dims) : res dims :=
  let f := d_from d in let t := d_to d in
  if (size f =? 1) || (size t =? 1) || space_eqb f t then Ok d
  else if eqb (issuper f) (issuper t) then Ok d else Err NotImplementedError.

Definition dims_type (d : dims) : qtype :=
  let f := d_from d in let t := d_to d in
  if (size f =? 1) && (size t =? 1) then TScalar
  else if size f =? 1 then (if issuper t then TOperKet else TKet)
  else if size t =? 1 then (if issuper f then TOperBra else TBra)
  else if issuper f then TSuper else TOper.

Definition dims_issquare (d : dims) : bool :=
  ((size (d_from d) =? 1) && (size (d_to d) =? 1)) ||
  (negb (size (d_from d) =? 1) && negb (size (d_to d) =? 1) && space_eqb (d_from d) (d_to d)).

Definition dims_superrep (d : dims) : option rep :=
  let f := d_from d in let t := d_to d in
  if (size f =? 1) && (size t =? 1) then None
  else if size f =? 1 then superrep t
  else if size t =? 1 then superrep f
  else if space_eqb f t then superrep f
  else if orep_eqb (superrep f) (superrep t) then superrep f else Some RMixed.

Definition mk_dims (f t : space) : res dims := dims_check {| d_from := f; d_to := t |}.

(* ------------------------------------------------- MetaSpace.__call__ *)
Section Ctor.
Variable tidy : bool.          (* settings.core['auto_tidyup_dims'] *)

(* Space(n) *)
Definition mk_int (n : N) : res space :=
  if n =? 0 then Err ValueError else if n =? 1 then Ok Field else Ok (Simple n).

(* Compound.__init__ after the metaclass: flatten, check super / superrep *)
Definition flatten_compound (args : list space) : list space :=
  flat_map (fun s => match s with Compound l => l | _ => [s] end) args.

Definition mk_compound (args : list space) : res space :=
  if tidy && forallb (fun s => size s =? 1) args then Ok Field
  else
    let l := flatten_compound args in
    if (length args <=? 1)%nat then Err ValueError
    else if negb (forallb issuper l) && existsb issuper l then Err TypeError
    else match l with
         | [] => Err ValueError
         | x :: _ =>
             if forallb (fun s => orep_eqb (superrep x) (superrep s)) l
             then Ok (Compound l) else Err TypeError
         end.

(* Space(Dimensions, rep=...) *)
Definition mk_super (d : dims) (r : option rep) : space :=
  if tidy && (size (d_from d) =? 1) && (size (d_to d) =? 1) then Field
  else Super (d_from d) (d_to d) (match r with Some x => x | None => RSuper end).

Definition is_int (x : nl) : bool := match x with NI _ => true | NL _ => false end.

(* pairs (l[0], l[1]), (l[2], l[3]) ... *)
Fixpoint pairs {A} (l : list A) : list (A * A) :=
  match l with
  | a :: b :: t => (a, b) :: pairs t
  | _ => []
  end.

(* MetaSpace.from_list and Space(x) for x an int or a list, by fuel on the
   nesting depth *)
Fixpoint from_list (fuel : nat) (l : list nl) (r : option rep) : res space :=
  match fuel with
  | O => Err OutOfFuel
  | S fuel' =>
      let space_of (x : nl) : res space :=
        match x with NI n => mk_int n | NL k => from_list fuel' k r end in
      let finish (spaces : list space) : res space :=
        match spaces with
        | [] => Err ValueError
        | [s] => Ok s
        | _ => mk_compound spaces
        end in
      match l with
      | [] => Err ValueError
      | _ =>
          let nlists := length (filter (fun x => negb (is_int x)) l) in
          if negb ((nlists =? 0)%nat || (nlists =? length l)%nat) then Err ValueError
          else if (nlists =? 0)%nat then bind (mapM space_of l) finish
          else match l with
               | [NL inner] => bind (mapM space_of inner) finish
               | _ =>
                   if Nat.even (length l) then
                     bind (mapM (fun p : nl * nl =>
                                   let '(a, b) := p in
                                   bind (space_of b) (fun f =>
                                   bind (space_of a) (fun t =>
                                   bind (mk_dims f t) (fun d => Ok (mk_super d r)))))
                                (pairs l)) finish
                   else Err ValueError
               end
      end
  end.

Definition space_of_nl (fuel : nat) (x : nl) (r : option rep) : res space :=
  match x with NI n => mk_int n | NL k => from_list fuel k r end.

(* Dimensions(list, rep=...) : MetaDims.__call__ *)
Definition dims_of_list (fuel : nat) (l : list nl) (r : option rep) : res dims :=
  match l with
  | [a; b] =>
      bind (space_of_nl fuel b r) (fun f =>
      bind (space_of_nl fuel a r) (fun t => mk_dims f t))
  | _ => Err NotImplementedError
  end.

End Ctor.

Fixpoint nl_depth (x : nl) : nat :=
  match x with
  | NI _ => 0%nat
  | NL l => S (fold_right (fun y acc => Nat.max (nl_depth y) acc) 0%nat l)
  end.

(* --------------------------------------------- operations on Dimensions *)
(* Dimensions.__matmul__ *)
Definition dims_matmul (a b : dims) : res dims :=
  if negb (space_eqb (d_from a) (d_to b)) then Err TypeError
  else mk_dims (d_from b) (d_to a).

(* Dimensions(self._dims[0], self._dims[1]) used by dag() / trans():
   positional (from_, to_) = (old to_, old from_) *)
Definition dims_swap (d : dims) : res dims := mk_dims (d_to d) (d_from d).

Fixpoint replace_superrep_space (s : space) (r : rep) : space :=
  match s with
  | Field | Simple _ => s
  | Compound l => Compound (map (fun x => replace_superrep_space x r) l)
  | Super f t _ => Super f t r
  end.

(* ------------------------------------------ Qobj arithmetic: dims rules *)
(* second operand of a binary method *)
Inductive operand := OQobj (d : dims) | OZero | ONumber | OOther.

Inductive outcome := ODims (d : dims) | ONumberResult | ORaise (e : err).

(* _require_equal_type + __add__/__sub__ *)
Definition qobj_add (self : dims) (other : operand) : outcome :=
  match other with
  | OQobj d => if dims_eqb self d then ODims self else ORaise ValueError
  | OZero => ODims self
  | ONumber => if dims_issquare self then ODims self else ORaise TypeError
  | OOther => ORaise TypeError
  end.

(* Qobj.__matmul__ : scalar result is returned as a number *)
Definition qobj_matmul (self other : dims) : outcome :=
  match dims_matmul self other with
  | Err e => ORaise e
  | Ok d => match dims_type d with TScalar => ONumberResult | _ => ODims d end
  end.

Definition qobj_same (self : dims) : outcome := ODims self.      (* mul, neg, conj, copy *)
Definition qobj_swap (self : dims) : outcome :=                  (* dag, trans *)
  match dims_swap self with Ok d => ODims d | Err e => ORaise e end.

(* Qobj.__pow__ guard *)
Definition qobj_pow (self : dims) : outcome :=
  match dims_type self with
  | TOper | TSuper =>
      if space_eqb (d_from self) (d_to self) then ODims self else ORaise TypeError
  | _ => ORaise TypeError
  end.

(* Qobj.inv : the raw matrix must be square; labels are exchanged
   (`dims=[self._dims[1], self._dims[0]]`) *)
Definition qobj_inv (self : dims) : outcome :=
  if fst (dims_shape self) =? snd (dims_shape self) then
    match dims_swap self with Ok d => ODims d | Err e => ORaise e end
  else ORaise TypeError.

(* Qobj.proj *)
Definition qobj_proj (self : dims) : outcome :=
  match dims_type self with
  | TKet | TScalar => ODims {| d_from := d_to self; d_to := d_to self |}   (* isket is true of scalars *)
  | TBra => ODims {| d_from := d_from self; d_to := d_from self |}
  | _ => ORaise TypeError
  end.

(* Qobj.overlap: bras, kets and operators; the Hilbert-space labels of the
   operator each operand stands for (|psi><psi| for a vector) must agree *)
Definition state_spaces (d : dims) : option (space * space) :=
  match dims_type d with
  | TKet => Some (d_to d, d_to d)
  | TBra => Some (d_from d, d_from d)
  | TOper => Some (d_to d, d_from d)
  | _ => None
  end.
Definition qobj_overlap (a b : dims) : outcome :=
  match state_spaces a, state_spaces b with
  | Some (r1, c1), Some (r2, c2) =>
      if space_eqb r1 r2 && space_eqb c1 c2 then ONumberResult else ORaise TypeError
  | _, _ => ORaise TypeError
  end.

(* Qobj.matrix_element(bra, ket): bra may be given as a ket *)
Definition vec_space (d : dims) : option space :=
  match dims_type d with TKet => Some (d_to d) | TBra => Some (d_from d) | _ => None end.
Definition qobj_matrix_element (op bra ket : dims) : outcome :=
  match dims_type op with
  | TOper =>
      match vec_space bra, vec_space ket with
      | Some b, Some k =>
          if space_eqb b (d_to op) && space_eqb k (d_from op) then ONumberResult
          else ORaise TypeError
      | _, _ => ORaise TypeError
      end
  | _ => ORaise TypeError
  end.

(* Qobj.__call__: oper on ket is @; super on oper / ket goes through
   operator_to_vector (Qobj(dims=[op.dims, [1]], superrep='super')), @, and
   vector_to_operator (Qobj(dims=op.dims[0])) *)
Definition qobj_call (tidy : bool) (fuel : nat) (self other : dims) : outcome :=
  match dims_type self, dims_type other with
  | TOper, TKet => qobj_matmul self other
  | TSuper, TOper | TSuper, TKet =>
      let od := match dims_type other with
                | TKet => {| d_from := d_to other; d_to := d_to other |}
                | _ => other end in
      match dims_of_list tidy fuel [NL (dims_as_list od); NL [NI 1]] (Some RSuper) with
      | Err e => ORaise e
      | Ok v =>
          match qobj_matmul self v with
          | ODims w =>
              match dims_type w with
              | TOperKet =>
                  if orep_eqb (dims_superrep w) (Some RSuper) then
                    match dims_of_list tidy fuel (as_list (d_to w)) None with
                    | Ok d => ODims d
                    | Err e => ORaise e
                    end
                  else ORaise TypeError
              | _ => ORaise TypeError
              end
          | ONumberResult => ORaise TypeError
          | ORaise e => ORaise e
          end
      end
  | _, _ => ORaise TypeError
  end.

(* shape of the data a method computes, from the operands' data shapes *)
Definition shape_matmul (a b : N * N) : N * N := (fst a, snd b).
Definition shape_swap (a : N * N) : N * N := (snd a, fst a).

(* what the harness observes of a Dimensions *)
Definition observe_dims (d : dims) :=
  (dims_as_list d, dims_type d, dims_shape d, dims_superrep d, dims_issquare d,
   (flat (d_to d), flat (d_from d)), (step (d_to d), step (d_from d))).
