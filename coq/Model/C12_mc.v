(* Model of the collapse-record API of qutip/solver/multitrajresult.py
   (_McBaseResult._add_collapse / col_times / col_which, McResult.photocurrent
   / runs_photocurrent) and of the part of numpy.histogram they rely on
   (explicit, monotone bin edges, optional weights).

   Times are integers in the model (the code only compares them and
   subtracts bin edges); weights are integers (numerators: the code divides
   each trajectory weight by num_trajectories, and each bin by its width;
   both divisions are kept symbolic: an entry is (numerator, width)).
   No proofs in this file. *)
From Coq Require Import List ZArith Bool Arith.
Import ListNotations.
From QV Require Import Model.C12.
Local Open Scope Z_scope.

Definition collapse := (Z * nat)%type.          (* (time, index of the c_op) *)

(* _McBaseResult.col_times / col_which:
     for col_ in self.collapse:
         col = the transposed record (zip of its unpacked tuples);
         col = [] if len(col) == 0 else col[0] (resp. col[1]) *)
Definition col_times (cs : list (list collapse)) : list (list Z) := map (map fst) cs.
Definition col_which (cs : list (list collapse)) : list (list nat) := map (map snd) cs.

(* ---------------------------------------------------------- numpy.histogram
   np.histogram(a, bins=edges, weights=w) with an explicit edge array:
     if np.any(edges[:-1] > edges[1:]): raise ValueError
     cum_n[i] = sum of the weights of the samples  < edges[i]   (i < last)
     cum_n[last] = sum of the weights of the samples <= edges[last]
     (searchsorted 'left' on all edges but the last, 'right' on the last)
     n = np.diff(cum_n)
   A sample is (value, weight); weight 1 when no weights are given. *)
Definition wsum (p : Z -> bool) (a : list (Z * Z)) : Z :=
  fold_right (fun tw acc => if p (fst tw) then snd tw + acc else acc) 0 a.

Fixpoint monotone (e : list Z) : bool :=
  match e with
  | x :: ((y :: _) as r) => (x <=? y) && monotone r
  | _ => true
  end.

Fixpoint cum (a : list (Z * Z)) (e : list Z) : list Z :=
  match e with
  | [] => []
  | [x] => [wsum (fun u => u <=? x) a]
  | x :: r => wsum (fun u => u <? x) a :: cum a r
  end.

Fixpoint diffs (l : list Z) : list Z :=
  match l with
  | x :: ((y :: _) as r) => (y - x) :: diffs r
  | _ => []
  end.

Inductive herror := HValueError | HIndexError.
Inductive hres (A : Type) := HOk (a : A) | HRaise (e : herror).
Arguments HOk {A} a.
Arguments HRaise {A} e.

Definition histogram (a : list (Z * Z)) (e : list Z) : hres (list Z) :=
  if monotone e then HOk (diffs (cum a e)) else HRaise HValueError.

(* np.diff(tlist) *)
Definition widths (e : list Z) : list Z := diffs e.

(* ------------------------------------------------------------- McResult *)
Record mcres := {
  mc_nc : nat;                              (* num_c_ops *)
  mc_times : list Z;                        (* times (= tlist) *)
  mc_collapse : list (list collapse);       (* collapse *)
  mc_weights : list Z;                      (* _trajectories_weight_info *)
  mc_ntraj : nat;                           (* num_trajectories *)
  mc_ndet : nat }.                          (* len(deterministic_trajectories) *)

Definition mc_new (nc : nat) (times : list Z) : mcres :=
  {| mc_nc := nc; mc_times := times; mc_collapse := []; mc_weights := [];
     mc_ntraj := 0; mc_ndet := 0 |}.

(* MultiTrajResult.add((seed, trajectory, weight)): weight recorded,
   _increment_traj counts it, _add_collapse (rel is not None) appends the
   trajectory's record *)
Definition mc_add (r : mcres) (rec : list collapse) (w : Z) : mcres :=
  {| mc_nc := mc_nc r; mc_times := mc_times r;
     mc_collapse := mc_collapse r ++ [rec]; mc_weights := mc_weights r ++ [w];
     mc_ntraj := S (mc_ntraj r); mc_ndet := mc_ndet r |}.

(* MultiTrajResult.add_deterministic: _add_collapse does nothing (abs) *)
Definition mc_add_det (r : mcres) (rec : list collapse) (w : Z) : mcres :=
  {| mc_nc := mc_nc r; mc_times := mc_times r;
     mc_collapse := mc_collapse r; mc_weights := mc_weights r;
     mc_ntraj := mc_ntraj r; mc_ndet := S (mc_ndet r) |}.

Inductive mc_event := EvAdd (rec : list collapse) (w : Z) | EvDet (rec : list collapse) (w : Z).
Definition mc_step (r : mcres) (ev : mc_event) : mcres :=
  match ev with EvAdd rec w => mc_add r rec w | EvDet rec w => mc_add_det r rec w end.
Definition mc_run (nc : nat) (times : list Z) (evs : list mc_event) : mcres :=
  fold_left mc_step evs (mc_new nc times).

(* the samples of channel c in one record, each with weight w:
     for t, which in collapses: collapse_times[which].append(t) *)
Definition channel_events (c : nat) (w : Z) (rec : list collapse) : list (Z * Z) :=
  map (fun tc => (fst tc, w)) (filter (fun tc => Nat.eqb (snd tc) c) rec).

Definition bad_which (nc : nat) (rec : list collapse) : bool :=
  existsb (fun tc => Nat.leb nc (snd tc)) rec.     (* collapse_times[which]: IndexError *)

Fixpoint hsequence {A} (l : list (hres A)) : hres (list A) :=
  match l with
  | [] => HOk []
  | HRaise e :: _ => HRaise e
  | HOk x :: t => match hsequence t with HOk r => HOk (x :: r) | HRaise e => HRaise e end
  end.

(* McResult.runs_photocurrent: per trajectory, per channel, the histogram
   (numerators; the code divides entry k by widths[k]) *)
Definition run_hist (nc : nat) (times : list Z) (rec : list collapse) : hres (list (list Z)) :=
  if bad_which nc rec then HRaise HIndexError
  else hsequence (map (fun c => histogram (channel_events c 1 rec) times) (seq 0 nc)).

Definition runs_photocurrent (r : mcres) : hres (list (list (list Z))) :=
  hsequence (map (run_hist (mc_nc r) (mc_times r)) (mc_collapse r)).

(* McResult.photocurrent: all trajectories pooled per channel, sample weight
   = runs_weights (numerator w; the code divides by num_trajectories and by
   the bin width); zip(self.collapse, self.runs_weights) *)
Definition pooled_events (c : nat) (r : mcres) : list (Z * Z) :=
  flat_map (fun cw => channel_events c (snd cw) (fst cw))
           (combine (mc_collapse r) (mc_weights r)).

Definition photocurrent (r : mcres) : hres (list (list Z)) :=
  if existsb (bad_which (mc_nc r))
             (map fst (combine (mc_collapse r) (mc_weights r)))
  then HRaise HIndexError
  else hsequence (map (fun c => histogram (pooled_events c r) (mc_times r))
                      (seq 0 (mc_nc r))).

Definition mc_observe (r : mcres) :=
  (col_times (mc_collapse r), col_which (mc_collapse r),
   (runs_photocurrent r, photocurrent r, widths (mc_times r)),
   (mc_weights r, mc_ntraj r)).
