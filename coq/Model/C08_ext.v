(* C08 - extension of the index model: Qobj.dag on super-type objects and
   Qobj.dual_chan (qobj.py), as they are after the guard `if not self.iscp`. *)
From Coq Require Import List ZArith Bool Arith Lia.
Import ListNotations.
From QV Require Import Model.C08.

(* qobj.py::Qobj.dag (flag still unknown): adjoint data, dims swapped
   (Dimensions(self._dims[0], self._dims[1]) is (from, to)), tag kept *)
Definition sdag (q : sobj GZ) : sobj GZ :=
  let '((a, b), (c, d)) := s_dims q in
  mkS (madj (s_rows q) (s_cols q) (s_data q)) ((c, d), (a, b)) (s_rep q).

(* qobj.py::Qobj.dual_chan: to_choi(to_super(self).dag()) *)
Definition dual_chan (x : qobj) : res (sobj GZ) :=
  rbind (to_super x) (fun S => to_choi (QSuper (sdag S))).
