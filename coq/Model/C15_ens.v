(* Model of qutip/solver/multitraj.py: _InitialConditions._minimum_roundoff_ensemble
   over exact rationals Q (the code uses floats; the correspondence feeds
   dyadic weights so that weight * ntraj_total, its ceiling and the order of
   the ratios are computed exactly).

     filtered_states          filtered
     guess / insort loop      init  (fold over the filtered states)
     while current_total > ntraj_total: pop, decrement, re-insert     loop
     final arrangement in a list of ntraj                             assemble

   bisect.insort(list, x, key=itemgetter(3)) is insort_right: x goes after
   every element whose ratio is <= its own; on the (always sorted) list a
   linear scan finds the same position as the binary search. *)
From Coq Require Import List ZArith QArith Qround Bool Arith Lia.
Import ListNotations.

Record cand := { c_idx : nat; c_w : Q; c_n : Z; c_ratio : Q }.

Fixpoint insort (c : cand) (l : list cand) : list cand :=
  match l with
  | [] => [c]
  | h :: t => if Qle_bool (c_ratio h) (c_ratio c) then h :: insort c t else c :: l
  end.

(* state: (one_traj_states, under_consideration) *)
Definition est := (list nat * list cand)%type.

(* `if guess == 1: one_traj_states.append(index) else: insort(...)` *)
Definition place (N : Z) (idx : nat) (w : Q) (g : Z) (st : est) : est :=
  if (g =? 1)%Z then (fst st ++ [idx], snd st)
  else (fst st,
        insort {| c_idx := idx; c_w := w; c_n := g;
                  c_ratio := inject_Z g / (w * inject_Z N) |} (snd st)).

Definition filtered (ws : list Q) : list (nat * Q) :=
  filter (fun iw => negb (Qle_bool (snd iw) 0)) (combine (seq 0 (length ws)) ws).

Definition guess (N : Z) (w : Q) : Z := Qceiling (w * inject_Z N).

Definition init_step (N : Z) (acc : Z * est) (iw : nat * Q) : Z * est :=
  let g := guess N (snd iw) in (fst acc + g, place N (fst iw) (snd iw) g (snd acc))%Z.

Definition init (N : Z) (fs : list (nat * Q)) : Z * est :=
  fold_left (init_step N) fs (0%Z, ([], [])).

(* list.pop() *)
Fixpoint unsnoc {A} (l : list A) : option (list A * A) :=
  match l with
  | [] => None
  | h :: t => match unsnoc t with
              | Some (r, x) => Some (h :: r, x)
              | None => Some ([], h)
              end
  end.

Inductive lres := Done (st : est) | PopEmpty | OutOfFuel.

Fixpoint loop (fuel : nat) (N tot : Z) (st : est) : lres :=
  if (tot >? N)%Z then
    match fuel with
    | O => OutOfFuel
    | S f =>
        match unsnoc (snd st) with
        | None => PopEmpty                         (* IndexError: pop from empty list *)
        | Some (rest, c) =>
            loop f N (tot - 1) (place N (c_idx c) (c_w c) (c_n c - 1) (fst st, rest))
        end
    end
  else Done st.

Fixpoint set_nthZ (l : list Z) (k : nat) (x : Z) : list Z :=
  match l, k with
  | [], _ => []
  | _ :: t, O => x :: t
  | h :: t, S k' => h :: set_nthZ t k' x
  end.

Definition assemble (len : nat) (st : est) : list Z :=
  fold_left (fun l c => set_nthZ l (c_idx c) (c_n c)) (snd st)
            (fold_left (fun l i => set_nthZ l i 1%Z) (fst st) (repeat 0%Z len)).

Inductive eres := EOk (ntraj : list Z) | EValueError | EIndexError | EFuel.

Definition min_roundoff (ws : list Q) (N : Z) : eres :=
  let fs := filtered ws in
  if (Z.of_nat (length fs) >? N)%Z then EValueError
  else
    let ts := init N fs in
    match loop (Z.to_nat (fst ts - N)) N (fst ts) (snd ts) with
    | Done st => EOk (assemble (length ws) st)
    | PopEmpty => EIndexError
    | OutOfFuel => EFuel
    end.

(* harness *)
Definition ens_code (r : eres) : Z * list Z :=
  match r with EOk l => (0, l) | EValueError => (2, []) | EIndexError => (5, []) | EFuel => (7, []) end%Z.
Definition ens_observe (ws : list (Z * Z)) (N : Z) :=
  ens_code (min_roundoff (map (fun nd => fst nd # Z.to_pos (snd nd)) ws) N).
