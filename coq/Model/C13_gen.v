(* C13: which random-generator OBJECT a trajectory uses.

   multitraj.py  MultiTrajSolver._read_seed (list branch: an element that is a
                 SeedSequence or has a `random` attribute is kept, anything else
                 becomes SeedSequence(element)),
                 _get_generator (options["bitgenerator"]: Generator(bit_gen(seed)),
                 else default_rng(seed); default_rng(g) IS g for a Generator g),
                 _initialize_run_one_traj.

   A SeedSequence always yields a NEW generator object; a Generator object put
   into the seed list is used itself: it is shared by every trajectory it is
   listed for (and with the caller), it is advanced in place when the map runs
   the tasks in this process (serial_map), and copied - not advanced - when
   the tasks are sent to worker processes (pickled at submission). *)
From Coq Require Import List ZArith Bool Arith Lia.
Import ListNotations.
From QV Require Import Model.C13.

Inductive gitem := GSeq (s : sseq) | GInt (n : Z) | GObj (r : nat).   (* r: generator object number *)

(* what _read_seed keeps for a list element *)
Inductive rseed := RS (s : sseq) | RG (r : nat).
Definition read_item (i : gitem) : rseed :=
  match i with GSeq s => RS s | GInt n => RS (fresh n) | GObj r => RG r end.
Definition read_list (l : list gitem) (ntraj : nat) : option (list rseed) :=
  if ntraj <=? length l then Some (map read_item (firstn ntraj l)) else None.

(* the generator object a trajectory draws from: a new one (bit generator
   class b, None = default_rng's; seeded by the sequence), or object r *)
Inductive gobj := Fresh (b : option nat) (sd : seedid) | Shared (r : nat).

(* _get_generator(seed); None = TypeError (bit_gen(Generator)) *)
Definition get_generator (bitgen : option nat) (x : rseed) : option gobj :=
  match x, bitgen with
  | RS s, b => Some (Fresh b (sid s))
  | RG r, None => Some (Shared r)
  | RG r, Some _ => None
  end.

Fixpoint set_nth_nat (l : list nat) (k : nat) (x : nat) : list nat :=
  match l, k with
  | [], _ => []
  | _ :: t, O => x :: t
  | h :: t, S k' => h :: set_nth_nat t k' x
  end.

Section Run.
Variable bitgen : option nat.
Variable draws : nat -> nat.       (* oracle: number of values task j takes from its generator *)

(* the tasks run one after the other in this process (serial_map): positions
   of the generator objects (number of values already handed out) are updated
   in place.  Result: for each task the object it used and the position it
   started from; None = the map raised *)
Fixpoint run_serial (heap : list nat) (j : nat) (xs : list rseed) : option (list (gobj * nat)) :=
  match xs with
  | [] => Some []
  | x :: r =>
      match get_generator bitgen x with
      | None => None
      | Some (Fresh b sd) =>
          option_map (cons (Fresh b sd, 0)) (run_serial heap (S j) r)
      | Some (Shared k) =>
          let p := nth k heap 0 in
          option_map (cons (Shared k, p)) (run_serial (set_nth_nat heap k (p + draws j)) (S j) r)
      end
  end.

(* every task receives a copy of its seed made when it is submitted (worker
   processes): the objects of this process are never advanced *)
Fixpoint run_forked (heap : list nat) (xs : list rseed) : option (list (gobj * nat)) :=
  match xs with
  | [] => Some []
  | x :: r =>
      match get_generator bitgen x with
      | None => None
      | Some (Fresh b sd) => option_map (cons (Fresh b sd, 0)) (run_forked heap r)
      | Some (Shared k) => option_map (cons (Shared k, nth k heap 0)) (run_forked heap r)
      end
  end.
End Run.

Definition is_obj (x : rseed) : bool := match x with RG _ => true | RS _ => false end.

(* trace compared with the implementation *)
Definition obs_gobj (x : gobj * nat) :=
  match x with
  | (Fresh b sd, p) => (0, match b with Some k => S k | None => 0 end, fst sd, snd sd, p)
  | (Shared r, p) => (1, r, 0%Z, [], p)
  end.
Definition gen_observe (bitgen : option nat) (dr : list nat) (heap : list nat) (l : list gitem)
    (ntraj : nat) (forked : bool) :=
  match read_list l ntraj with
  | None => None
  | Some xs =>
      Some (option_map (map obs_gobj)
              (if forked then run_forked bitgen heap xs
               else run_serial bitgen (fun j => nth j dr 0) heap 0 xs))
  end.
