(* C06 - coefficients reproduce the data / function they were built from.
   Executable model (no proofs here) of

     qutip/core/cy/coefficient.pyx
       InterCoefficient.__init__  (orders 0 and 1), _prepare, _binary_search,
                        _call, restore / copy / __reduce__ (dt is carried)
       coefficient_function_parameters
       FunctionCoefficient.__init__ / __call__ / replace_arguments / copy

   The numeric carrier is a record [num T] of the operations the code uses on
   C doubles.  Two instances are defined at the end of the file:
     * [NQ]  : T = Qc, exact rational arithmetic (every finite double is a
               dyadic rational, so every float grid is a Qc grid), and
     * [NF]  : T = PrimFloat.float, IEEE binary64 evaluated bit-exactly by
               vm_compute - this is the code as it runs.
   Theorems (Proofs/C06.v) are proved for every carrier satisfying explicitly
   listed laws (order laws only for the index logic, field laws for the
   order-1 arithmetic); the binary-search theorem needs no law at all and so
   holds for the float instance as well. *)
From Coq Require Import List ZArith Bool QArith Qcanon Qround Floats.
Import ListNotations.

Open Scope Z_scope.

(* ------------------------------------------------------------------ carrier *)
Record num (T : Type) := {
  n0 : T;                       (* 0.0 *)
  n1 : T;                       (* 1.0 *)
  nm1 : T;                      (* -1.0 : the `append=-1` of np.diff *)
  nadd : T -> T -> T;
  nsub : T -> T -> T;
  nmul : T -> T -> T;
  ndiv : T -> T -> T;
  nabs : T -> T;
  nltb : T -> T -> bool;        (* a <  b *)
  nleb : T -> T -> bool;        (* a <= b *)
  nnz : T -> bool;              (* C truth value of a double: `if self.dt:` *)
  ntrunc : T -> Z;              (* the cast <size_t>(double) *)
  natol : T;                    (* atol of the uniform-grid test: 0 *)
  nrtol : T                     (* rtol of the uniform-grid test: 1e-8 *)
}.
Arguments n0 {T}. Arguments n1 {T}. Arguments nm1 {T}. Arguments nadd {T}.
Arguments nsub {T}. Arguments nmul {T}. Arguments ndiv {T}. Arguments nabs {T}.
Arguments nltb {T}. Arguments nleb {T}. Arguments nnz {T}. Arguments ntrunc {T}.
Arguments natol {T}. Arguments nrtol {T}.

(* result of an evaluation: a value, or the IndexError Cython raises on an
   out-of-bounds memoryview access (boundscheck is on in _call) *)
Inductive res (V : Type) : Type :=
| Val : V -> res V
| IndexError : res V.
Arguments Val {V}. Arguments IndexError {V}.

(* list access with a machine index *)
Definition zn {A} (l : list A) (i : Z) (d : A) : A := nth (Z.to_nat i) l d.
Definition zlen {A} (l : list A) : Z := Z.of_nat (length l).
Definition zget {A} (l : list A) (i : Z) : res A :=
  if (0 <=? i) && (i <? zlen l) then
    match nth_error l (Z.to_nat i) with Some v => Val v | None => IndexError end
  else IndexError.

Definition two64 : Z := 18446744073709551616.

Section Inter.
  Context {T : Type}.
  Variable N : num T.

  (* double complex as a pair; `out *= factor` (factor a double) and
     `out += slice[i]` act componentwise on finite values *)
  Definition cplx : Type := (T * T)%type.
  Definition c0 : cplx := (n0 N, n0 N).
  Definition cadd (a b : cplx) : cplx := (nadd N (fst a) (fst b), nadd N (snd a) (snd b)).
  Definition csub (a b : cplx) : cplx := (nsub N (fst a) (fst b), nsub N (snd a) (snd b)).
  Definition cscale (a : cplx) (f : T) : cplx := (nmul N (fst a) f, nmul N (snd a) f).
  (* numpy complex128 / (real promoted to complex): Smith's formula with a
     zero imaginary divisor is  (ar * (1/b), ai * (1/b)) *)
  Definition cdivr (a : cplx) (b : T) : cplx :=
    let scl := ndiv N (n1 N) b in (nmul N (fst a) scl, nmul N (snd a) scl).

  (* ---------------------------------------------------------- _binary_search
       low = 0; high = tlist.shape[0]; count = 0
       while low+1 != high and count < 64:
           middle = (low + high)//2          (size_t arithmetic)
           if x < tlist[middle]: high = middle
           else:                 low = middle
           count += 1
       return low                                                        *)
  Fixpoint bs_loop (g : list T) (x : T) (fuel : nat) (low high : Z) : Z * Z * nat :=
    match fuel with
    | O => (low, high, O)
    | S f =>
        if ((low + 1) mod two64) =? high then (low, high, fuel)
        else
          let middle := ((low + high) mod two64) / 2 in
          if nltb N x (zn g middle (n0 N))
          then bs_loop g x f low middle
          else bs_loop g x f middle high
    end.

  Definition binary_search (g : list T) (x : T) : Z :=
    fst (fst (bs_loop g x 64 0 (zlen g))).

  (* ------------------------------------------------------------- np.diff *)
  Fixpoint diffs (l : list T) : list T :=
    match l with
    | a :: ((b :: _) as tl) => nsub N b a :: diffs tl
    | _ => []
    end.
  Fixpoint cdiffs (l : list cplx) : list cplx :=
    match l with
    | a :: ((b :: _) as tl) => csub b a :: cdiffs tl
    | _ => []
    end.

  (* np.allclose(a, bs, rtol=1e-8, atol=0) for finite values:
     all(|a - b| <= atol + rtol*|b|)  (since fix b254917; the tolerances are
     fields of [num]: see NQ / NF and old_NQ / old_NF) *)
  Definition isclose (a b : T) : bool :=
    nleb N (nabs N (nsub N a b)) (nadd N (natol N) (nmul N (nrtol N) (nabs N b))).
  Definition allclose (a : T) (bs : list T) : bool := forallb (isclose a) bs.

  (* ------------------------------------------------------------ the object *)
  Record inter := { i_tlist : list T; i_poly : list (list cplx); i_dt : T }.

  Definition order (o : inter) : Z := zlen (i_poly o) - 1.

  (* _prepare(np_tlist, np_poly, dt=None) *)
  Definition prepare (tl : list T) (poly : list (list cplx)) (dt : option T) : inter :=
    {| i_tlist := tl; i_poly := poly;
       i_dt := match dt with
               | Some d => d
               | None => match diffs tl with
                         | d0 :: _ => if allclose d0 (diffs tl) then d0 else n0 N
                         | [] => n0 N
                         end
               end |}.

  (* __init__ for order = min(order, len(tlist)-1) in {0, 1};
     order >= 2 goes through scipy (an oracle here: see [prepare] used with
     an arbitrary poly, which is also from_PPoly / restore) *)
  Definition zip_with {A B C} (f : A -> B -> C) :=
    fix zw (l : list A) (m : list B) : list C :=
      match l, m with a :: l', b :: m' => f a b :: zw l' m' | _, _ => [] end.

  Definition init01 (ord : Z) (c : list cplx) (tl : list T) : inter :=
    let ord' := Z.min ord (zlen tl - 1) in
    if ord' <=? 0 then prepare tl [c] None
    else
      let slopes := zip_with cdivr (cdiffs (c ++ [(nm1 N, n0 N)])) (diffs (tl ++ [nm1 N])) in
      prepare tl [slopes; c] None.

  (* __init__ converts with np.array(..., dtype=...), which always copies:
     the arrays kept in np_arrays never share memory with the caller's
     buffers (observed by the harness with np.shares_memory) - this is what
     makes a list-based functional model of the object adequate *)
  Definition init_shares_inputs : bool := false.

  (* restore / copy / pickle: _prepare with the stored dt *)
  Definition copy (o : inter) : inter := prepare (i_tlist o) (i_poly o) (Some (i_dt o)).

  (* ----------------------------------------------------------------- _call *)
  Definition column (poly : list (list cplx)) (idx : Z) : list cplx :=
    map (fun row => zn row idx c0) poly.

  (* out = 0; for i in range(order+1): out *= factor; out += slice[i] *)
  Definition horner (col : list cplx) (factor : T) : cplx :=
    fold_left (fun out s => cadd (cscale out factor) s) col c0.

  Definition last_row (o : inter) : list cplx := last (i_poly o) [].

  (* [idxf] is the interval index the code computes; it is a parameter so
     that theorems can be stated for an arbitrary index guess *)
  Definition call_with (idxf : inter -> T -> Z) (o : inter) (t : T) : res cplx :=
    let tl := i_tlist o in
    let n := zlen tl in
    match zget tl 0, zget tl (n - 1) with
    | Val tfirst, Val tlast =>
        if nleb N t tfirst then zget (last_row o) 0
        else if nleb N tlast t then zget (last_row o) (n - 1)
        else
          let idx := idxf o t in
          if order o =? 0 then zget (zn (i_poly o) 0 []) idx
          else
            match zget tl idx with
            | Val ti =>
                let factor := nsub N t ti in
                Val (horner (column (i_poly o) idx) factor)
            | IndexError => IndexError
            end
    | _, _ => IndexError
    end.

  (*  if self.dt:
          idx = <size_t>((t - self.tlist[0]) / self.dt)
          if (idx >= <size_t>(self.tlist.shape[0] - 1)
                  or t < self.tlist[idx] or t >= self.tlist[idx + 1]):
              idx = self._binary_search(t)
      else:
          idx = self._binary_search(t)
      (since fix 4ce1843: the quotient is only a guess)                    *)
  Definition real_idx (o : inter) (t : T) : Z :=
    let tl := i_tlist o in
    if nnz N (i_dt o) then
      (* a size_t: whatever the cast produced, it is in [0, 2^64) *)
      let idx := (ntrunc N (ndiv N (nsub N t (zn tl 0 (n0 N))) (i_dt o))) mod two64 in
      if (zlen tl - 1 <=? idx)
         || nltb N t (zn tl idx (n0 N))
         || nleb N (zn tl (idx + 1) (n0 N)) t
      then binary_search tl t
      else idx
    else binary_search tl t.

  Definition call (o : inter) (t : T) : res cplx := call_with real_idx o t.

  (* the rule before fix 4ce1843 (quotient used unchecked); kept only for the
     two witness Examples of Props/C06.v *)
  Definition old_real_idx (o : inter) (t : T) : Z :=
    if nnz N (i_dt o)
    then ntrunc N (ndiv N (nsub N t (zn (i_tlist o) 0 (n0 N))) (i_dt o))
    else binary_search (i_tlist o) t.
  Definition old_call (o : inter) (t : T) : res cplx := call_with old_real_idx o t.

  (* what the correspondence harness observes of a freshly built object *)
  Definition observe (ord : Z) (c : list cplx) (tl : list T) (ts : list T)
    : bool * list (res cplx) :=
    let o := init01 ord c tl in
    (nnz N (i_dt o), map (call o) ts).
  Definition observe_copy (ord : Z) (c : list cplx) (tl : list T) (ts : list T)
    : bool * list (res cplx) :=
    let o := copy (init01 ord c tl) in
    (nnz N (i_dt o), map (call o) ts).
  (* from_PPoly / restore with a given piecewise polynomial *)
  Definition observe_poly (poly : list (list cplx)) (tl : list T) (ts : list T)
    : bool * list (res cplx) :=
    let o := prepare tl poly None in
    (nnz N (i_dt o), map (call o) ts).
End Inter.

(* --------------------------------------------------------------- instances *)
(* exact rationals *)
Definition qc (a : Z) (b : positive) : Qc := Q2Qc (a # b).
Definition Qcltb (a b : Qc) : bool :=
  match Qccompare a b with Lt => true | _ => false end.
Definition Qcleb (a b : Qc) : bool :=
  match Qccompare a b with Gt => false | _ => true end.
Definition Qcabs (a : Qc) : Qc := if Qcltb a (Q2Qc 0) then Qcopp a else a.
Definition NQ : num Qc := {|
  n0 := Q2Qc 0; n1 := Q2Qc 1; nm1 := qc (-1) 1;
  nadd := Qcplus; nsub := Qcminus; nmul := Qcmult; ndiv := Qcdiv; nabs := Qcabs;
  nltb := Qcltb; nleb := Qcleb;
  nnz := fun d => negb (Qc_eq_bool d (Q2Qc 0));
  ntrunc := fun q => Qfloor (this q);
  natol := Q2Qc 0; nrtol := qc 1 100000000 |}.

(* printable form of a Qc result *)
Definition qout (q : Qc) : Z * Z := (Qnum (this q), Zpos (Qden (this q))).
Definition cqout (c : Qc * Qc) := (qout (fst c), qout (snd c)).
Definition rqout (r : res (Qc * Qc)) : res ((Z * Z) * (Z * Z)) :=
  match r with Val c => Val (cqout c) | IndexError => IndexError end.
Definition obsq (x : bool * list (res (Qc * Qc))) := (fst x, map rqout (snd x)).

(* IEEE doubles.  <size_t>(double) for a finite non-negative double below
   2^64 is truncation; other arguments are undefined behaviour in C and are
   mapped to 2^64-1 (never a valid index) *)
Definition ftrunc (x : float) : Z :=
  match Prim2SF x with
  | S754_zero _ => 0
  | S754_finite false m e =>
      let v := if 0 <=? e then Z.pos m * 2 ^ e else Z.pos m / 2 ^ (- e) in
      if v <? two64 then v else two64 - 1
  | _ => two64 - 1
  end.
Definition NF : num float := {|
  n0 := 0%float; n1 := 1%float; nm1 := (-1)%float;
  nadd := PrimFloat.add; nsub := PrimFloat.sub; nmul := PrimFloat.mul;
  ndiv := PrimFloat.div; nabs := PrimFloat.abs;
  nltb := PrimFloat.ltb; nleb := PrimFloat.leb;
  nnz := fun d => negb (PrimFloat.eqb d 0%float);
  ntrunc := ftrunc;
  natol := 0%float;
  nrtol := 0x1.5798ee2308c3ap-27%float |}.   (* 1e-8 *)

(* printable form of a float: (sign, mantissa, exponent), exact *)
Definition fout (x : float) : Z * Z * Z :=
  match Prim2SF x with
  | S754_zero s => ((if s then 1 else 0), 0, 0)
  | S754_finite s m e => ((if s then 1 else 0), Z.pos m, e)
  | S754_infinity s => ((if s then 1 else 0), -1, 0)
  | S754_nan => (0, -2, 0)
  end.
Definition cfout (c : float * float) := (fout (fst c), fout (snd c)).
Definition rfout (r : res (float * float)) :=
  match r with Val c => Val (cfout c) | IndexError => IndexError end.
Definition obsf (x : bool * list (res (float * float))) := (fst x, map rfout (snd x)).

(* ------------------------------------------------ FunctionCoefficient model *)
(* parameter names are numbers; the names "t" and "args" are 0 and 1 *)
Inductive style := SPythonic | SDict | SAuto.
(* signature of the wrapped function: parameter names in order, and whether
   one of them is **kw *)
Record fsig := { f_params : list nat; f_has_kw : bool }.

Definition nat_list_eqb (a b : list nat) : bool :=
  (length a =? length b)%nat && forallb (fun p => Nat.eqb (fst p) (snd p)) (combine a b).

(* coefficient_function_parameters(func, style) with `style` already resolved
   from qutip.settings when None *)
Definition cfp (s : fsig) (st : style) : bool * option (list nat) :=
  let st' := match st with
             | SAuto => if nat_list_eqb (f_params s) [0%nat; 1%nat] && negb (f_has_kw s)
                        then SDict else SPythonic
             | _ => st
             end in
  let pythonic := match st' with SPythonic => true | _ => false end in
  let params := match st' with
                | SDict => None
                | _ => if f_has_kw s then None else Some (tl (f_params s))
                end in
  (pythonic, params).

(* Python dicts as association lists, most recent binding first; only
   lookups are observable *)
Definition dict (V : Type) := list (nat * V).
Fixpoint lookup {V} (d : dict V) (k : nat) : option V :=
  match d with
  | [] => None
  | (k', v) :: r => if Nat.eqb k k' then Some v else lookup r k
  end.
Definition memb (k : nat) (l : list nat) : bool := existsb (Nat.eqb k) l.
(* {k: d[k] for k in params & d.keys()} *)
Definition restrict {V} (params : option (list nat)) (d : dict V) : dict V :=
  match params with
  | None => d
  | Some ps => filter (fun kv => memb (fst kv) ps) d
  end.
(* {**a, **b} and a.update(b): b wins *)
Definition merge {V} (a b : dict V) : dict V := b ++ a.

Section FuncCoeff.
  Context {V R : Type}.
  (* the wrapped Python function, seen through what it is called with:
     time and the argument lookup *)
  Variable func : Z -> (nat -> option V) -> R.

  Record fcoeff := { fc_args : dict V; fc_pythonic : bool; fc_params : option (list nat) }.

  Definition fc_init (s : fsig) (st : style) (args : dict V) : fcoeff :=
    let '(py, ps) := cfp s st in
    {| fc_args := restrict ps args; fc_pythonic := py; fc_params := ps |}.

  (* replace_arguments(_args, **kwargs): returns (new object, is_same_object) *)
  Definition fc_replace (o : fcoeff) (_args kwargs : dict V) : fcoeff * bool :=
    let kw := merge kwargs _args in
    let kw' := restrict (fc_params o) kw in
    match kw' with
    | [] => (o, true)
    | _ => ({| fc_args := merge (fc_args o) kw'; fc_pythonic := fc_pythonic o;
               fc_params := fc_params o |}, false)
    end.

  Definition fc_eval (o : fcoeff) (t : Z) : R := func t (lookup (fc_args o)).

  (* __call__(t, _args, **kwargs) *)
  Definition fc_call (o : fcoeff) (t : Z) (_args kwargs : dict V) : R :=
    match _args, kwargs with
    | [], [] => fc_eval o t
    | _, _ => fc_eval (fst (fc_replace o _args kwargs)) t
    end.
End FuncCoeff.

(* the tolerances before fix b254917 (np.allclose defaults atol = 1e-8,
   rtol = 1e-5); kept only for the witness Examples of Props/C06.v *)
Definition old_NQ : num Qc := {|
  n0 := n0 NQ; n1 := n1 NQ; nm1 := nm1 NQ;
  nadd := nadd NQ; nsub := nsub NQ; nmul := nmul NQ; ndiv := ndiv NQ; nabs := nabs NQ;
  nltb := nltb NQ; nleb := nleb NQ; nnz := nnz NQ; ntrunc := ntrunc NQ;
  natol := qc 1 100000000; nrtol := qc 1 100000 |}.
Definition old_NF : num float := {|
  n0 := n0 NF; n1 := n1 NF; nm1 := nm1 NF;
  nadd := nadd NF; nsub := nsub NF; nmul := nmul NF; ndiv := ndiv NF; nabs := nabs NF;
  nltb := nltb NF; nleb := nleb NF; nnz := nnz NF; ntrunc := ntrunc NF;
  natol := 0x1.5798ee2308c3ap-27%float;      (* 1e-8 *)
  nrtol := 0x1.4f8b588e368f1p-17%float |}.   (* 1e-5 *)
