(* C07 - the sparse Bloch-Redfield kernel as a whole tensor: the generated
   loop-skipping model (Gen/C07_sparse.v) decides which (c,d) are visited for
   each (a,b); the generated element formula (Gen/C07_kernels.v) gives the
   stored value; entries never pushed are zero (csr.from_coo_pointers). *)
From mathcomp Require Import all_ssreflect all_algebra.
From mathcomp Require Import mxtens.
From QV Require Import Base.MxHerm Model.C07 Model.C07_kernels Gen.C07_kernels.
From QV Require Import Gen.C07_sparse.
Set Implicit Arguments. Unset Strict Implicit. Unset Printing Implicit Defensive.
Import GRing.Theory Num.Theory.
Local Open Scope ring_scope.

Section SparseTensor.
Variable R : fieldType.           (* matrix entries *)
Variable F : realDomainType.      (* eigenvalues, cut-off *)
Variable n : nat.
Variable h : R.
Variable cutoff : F.
Variable w : nat -> F.            (* eigenvalues by index *)

Definition skw (x y : nat) : F := w x - w y.
Definition near_cut (x : F) : bool := `|x| < cutoff.
Definition skew_ord (a b : 'I_n) : F := skw a b.

Definition br_term_sparse_tensor (A S : 'M[R]_n) : 'M[R]_(n * n) :=
  let A_mat := A^T in
  \matrix_(I, J)
    (let a := (mxtens_unindex I).1 in let b := (mxtens_unindex I).2 in
     let c := (mxtens_unindex J).1 in let d := (mxtens_unindex J).2 in
     if ((c : nat), (d : nat)) \in gen_sparse_kept cutoff n skw a b
     then gen_br_term_sparse_elem h near_cut A_mat S skew_ord a b c d else 0).

Definition br_cterm_sparse_tensor (A B S : 'M[R]_n) : 'M[R]_(n * n) :=
  let A_mat := B^T in let B_mat := A^T in
  \matrix_(I, J)
    (let a := (mxtens_unindex I).1 in let b := (mxtens_unindex I).2 in
     let c := (mxtens_unindex J).1 in let d := (mxtens_unindex J).2 in
     if ((c : nat), (d : nat)) \in gen_sparse_kept cutoff n skw a b
     then gen_br_cterm_sparse_elem h near_cut A_mat B_mat S skew_ord a b c d else 0).
End SparseTensor.
