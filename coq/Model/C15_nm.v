(* Model of NmmcResult (qutip/solver/multitrajresult.py): the trace-weighted
   running sums of expectation values and the sums of the trace itself.

     NmmcResult._post_init / _add_first_traj            nnew, first_trace
     _reduce_expect (weight * np.array(trace))          nsum_reduce
     _add_trace (cache dropped, four trace sums, runs_trace of the
       sampled trajectories only - repair 8bf0b8f)            inside nadd / nadd_det
     _compute_avg_trace, average_trace, std_trace, trace       ncompute, nread_trace, ntrace
     merge (base merge + trace sums + eager _compute_avg_trace) nmerge_obj, nstep
     _create_e_data (inherited)                          naverage, nvariance

   Conventions: as in Model/C15.v the expectation arrays of a trajectory are
   flattened to one vector n_x; n_trx is the martingale weight (trace) aligned
   with it - trace[j] for the component of any e_op at time j - and n_tr the
   trace itself (one value per time).  np.abs(trace) ** 2 is trace * trace
   (the trace is real).  Values under square roots (std_trace, std_expect) are
   modelled before the root.  The trace-weighted state sums
   (reduce_states(trajectory, w, trace), reduce_final_state(trajectory,
   w * trace[-1])) are modelled in Model/C15_st.v through nm_scale: they are
   the plain reductions of the trajectory whose states are multiplied by the
   trace of their time.  The stats dictionary, seeds and collapses behave as
   in the base class (Model/C15.v). *)
From Coq Require Import List ZArith QArith Qcanon Bool Arith Lia.
Import ListNotations.
From QV Require Import Model.C15 Model.C15_st.
Local Open Scope Qc_scope.

Definition vmul (a b : vec) : vec := map2 Qcmult a b.

Record ntraj := { n_id : Z; n_x : vec; n_trx : vec; n_tr : vec }.

(* the _TrajectorySum of one weight class *)
Record nsum := { ne1 : vec; ne2 : vec }.

(* reduce_expect(trajectory, w * trace): sum += (w trace) x ; sum2 += (w trace) x**2 *)
Definition nsum_reduce (s : nsum) (t : ntraj) (w : Qc) : nsum :=
  {| ne1 := vadd (ne1 s) (vmul (vscale w (n_trx t)) (n_x t));
     ne2 := vadd (ne2 s) (vmul (vscale w (n_trx t)) (vsq (n_x t))) |}.

Definition nsum_or_init (s : option nsum) (t : ntraj) : nsum :=
  match s with Some s => s | None => {| ne1 := vzeros_like (n_x t); ne2 := vzeros_like (n_x t) |} end.

Definition nsum_merge (s1 : option nsum) (w1 : Qc) (s2 : option nsum) (w2 : Qc) : option nsum :=
  match s1, s2 with
  | None, None => None
  | None, Some b => Some {| ne1 := vscale w2 (ne1 b); ne2 := vscale w2 (ne2 b) |}
  | Some a, None => Some {| ne1 := vscale w1 (ne1 a); ne2 := vscale w1 (ne2 a) |}
  | Some a, Some b =>
      Some {| ne1 := vadd (vscale w1 (ne1 a)) (vscale w2 (ne1 b));
              ne2 := vadd (vscale w1 (ne2 a)) (vscale w2 (ne2 b)) |}
  end.

(* _sum_trace_det, _sum_trace_rel, _sum2_trace_det, _sum2_trace_rel *)
Record tsums := { t1d : vec; t1r : vec; t2d : vec; t2r : vec }.

Record nobj := {
  q_keep : bool;                 (* options["keep_runs_results"] *)
  q_ntrajs : nat;                (* len(trajectories) *)
  q_num : nat;
  q_rel : option nsum; q_det : option nsum;
  q_tr : option tsums;           (* None until _add_first_traj *)
  q_wrel : list Qc; q_wdet : list Qc;
  q_runs_trace : list vec;
  q_cache : option (vec * vec);  (* _average_trace, _std_trace (before the root) *)
  q_grel : list ntraj; q_gdet : list ntraj }.   (* ghost *)

Definition nnew (k : bool) : nobj :=
  {| q_keep := k; q_ntrajs := 0; q_num := 0; q_rel := None; q_det := None; q_tr := None;
     q_wrel := []; q_wdet := []; q_runs_trace := []; q_cache := None; q_grel := []; q_gdet := [] |}.

(* _add_first_traj: np.zeros_like(trajectory.trace) four times *)
Definition first_trace (o : nobj) (t : ntraj) : tsums :=
  match q_tr o with
  | Some x => x
  | None => let z := vzeros_like (n_tr t) in {| t1d := z; t1r := z; t2d := z; t2r := z |}
  end.

Definition nadd (o : nobj) (t : ntraj) (w : Qc) : nobj :=
  let x := first_trace o t in
  {| q_keep := q_keep o;
     q_ntrajs := if q_keep o then S (q_ntrajs o) else q_ntrajs o;
     q_num := S (q_num o);
     q_rel := Some (nsum_reduce (nsum_or_init (q_rel o) t) t w); q_det := q_det o;
     q_tr := Some {| t1d := t1d x; t1r := vadd (t1r x) (vscale w (n_tr t));
                     t2d := t2d x; t2r := vadd (t2r x) (vscale w (vsq (n_tr t))) |};
     q_wrel := q_wrel o ++ [w]; q_wdet := q_wdet o;
     q_runs_trace := if q_keep o then q_runs_trace o ++ [n_tr t] else q_runs_trace o;
     q_cache := None;
     q_grel := q_grel o ++ [t]; q_gdet := q_gdet o |}.

Definition nadd_det (o : nobj) (t : ntraj) (w : Qc) : nobj :=
  let x := first_trace o t in
  {| q_keep := q_keep o; q_ntrajs := q_ntrajs o; q_num := q_num o;
     q_rel := q_rel o; q_det := Some (nsum_reduce (nsum_or_init (q_det o) t) t w);
     q_tr := Some {| t1d := vadd (t1d x) (vscale w (n_tr t)); t1r := t1r x;
                     t2d := vadd (t2d x) (vscale w (vsq (n_tr t))); t2r := t2r x |};
     q_wrel := q_wrel o; q_wdet := q_wdet o ++ [w];
     (* _add_trace (since 8bf0b8f): `if keep_runs_results and abs is None`, so
        runs_trace lists the sampled trajectories only *)
     q_runs_trace := q_runs_trace o;
     q_cache := None;
     q_grel := q_grel o; q_gdet := q_gdet o ++ [t] |}.

(* _compute_avg_trace: (avg, |avg2 - |avg|^2|); None is the TypeError on an
   object without trajectory *)
Definition ncompute (o : nobj) : option (vec * vec) :=
  match q_tr o with
  | None => None
  | Some x =>
      let avg := if (0 <? q_num o)%nat then vadd (t1d x) (vdivn (t1r x) (q_num o)) else t1d x in
      let avg2 := if (0 <? q_num o)%nat then vadd (t2d x) (vdivn (t2r x) (q_num o)) else t2d x in
      Some (avg, map2 (fun a2 a => Qcabs (a2 - Qcabs a * Qcabs a)) avg2 avg)
  end.

Definition with_ncache (o : nobj) (c : option (vec * vec)) : nobj :=
  {| q_keep := q_keep o; q_ntrajs := q_ntrajs o; q_num := q_num o; q_rel := q_rel o;
     q_det := q_det o; q_tr := q_tr o; q_wrel := q_wrel o; q_wdet := q_wdet o;
     q_runs_trace := q_runs_trace o; q_cache := c; q_grel := q_grel o; q_gdet := q_gdet o |}.

(* properties average_trace / std_trace *)
Definition nread_trace (o : nobj) : option (nobj * (vec * vec)) :=
  match q_cache o with
  | Some c => Some (o, c)
  | None => match ncompute o with
            | Some c => Some (with_ncache o (Some c), c)
            | None => None
            end
  end.

(* inherited _create_e_data on the trace-weighted sums *)
Definition naverage (o : nobj) : option vec :=
  mix (option_map ne1 (q_det o)) (option_map ne1 (q_rel o)) (q_num o).
Definition naverage2 (o : nobj) : option vec :=
  mix (option_map ne2 (q_det o)) (option_map ne2 (q_rel o)) (q_num o).
Definition nvariance (o : nobj) : option vec :=
  match naverage o, naverage2 o with
  | Some a, Some a2 => Some (map2 (fun x2 x => Qcabs (x2 - Qcabs (x * x))) a2 a)
  | _, _ => None
  end.

Definition tmix (w1 : Qc) (a : vec) (w2 : Qc) (b : vec) : vec := vadd (vscale w1 a) (vscale w2 b).

(* merge, after the times test, q_num a > 0 and q_num b > 0 (both have trace sums) *)
Definition nmerge_obj (a b : nobj) (p : option Qc) : nobj :=
  let n := (q_num a + q_num b)%nat in
  let p_equal := QcN (q_num a) / QcN n in
  let p := match p with Some p => p | None => p_equal end in
  let both := (0 <? q_ntrajs a)%nat && (0 <? q_ntrajs b)%nat in
  let c1 := p / p_equal in
  let c2 := (1 - p) / (1 - p_equal) in
  let tr := match q_tr a, q_tr b with
            | Some x, Some y =>
                Some {| t1d := tmix p (t1d x) (1 - p) (t1d y); t1r := tmix c1 (t1r x) c2 (t1r y);
                        t2d := tmix p (t2d x) (1 - p) (t2d y); t2r := tmix c1 (t2r x) c2 (t2r y) |}
            | _, _ => None
            end in
  let o := {| q_keep := if both then q_keep a else false;
              q_ntrajs := if both then (q_ntrajs a + q_ntrajs b)%nat else 0%nat;
              q_num := n;
              q_rel := nsum_merge (q_rel a) c1 (q_rel b) c2;
              q_det := nsum_merge (q_det a) p (q_det b) (1 - p);
              q_tr := tr;
              q_wrel := map (fun w => w * p / p_equal) (q_wrel a)
                        ++ map (fun w => w * (1 - p) / (1 - p_equal)) (q_wrel b);
              q_wdet := map (fun w => w * p) (q_wdet a) ++ map (fun w => w * (1 - p)) (q_wdet b);
              (* `if self.runs_trace and other.runs_trace` *)
              q_runs_trace := if negb (is_nil (q_runs_trace a)) && negb (is_nil (q_runs_trace b))
                              then q_runs_trace a ++ q_runs_trace b else [];
              q_cache := None;
              q_grel := q_grel a ++ q_grel b; q_gdet := q_gdet a ++ q_gdet b |} in
  with_ncache o (ncompute o).                  (* new._compute_avg_trace() *)

Inductive nop :=
| NNew (k : bool)
| NAdd (i : nat) (t : ntraj) (w : Qc)
| NAddDet (i : nat) (t : ntraj) (w : Qc)
| NMerge (i j : nat) (p : option Qc)
| NReadTrace (i : nat).

Definition nstep (W : list nobj) (op : nop) : list nobj * outcome :=
  match op with
  | NNew k => (W ++ [nnew k], Ok)
  | NAdd i t w =>
      match nth_error W i with
      | Some x => (set_nth W i (nadd x t w), Ok)
      | None => (W, BadIndex)
      end
  | NAddDet i t w =>
      match nth_error W i with
      | Some x => (set_nth W i (nadd_det x t w), Ok)
      | None => (W, BadIndex)
      end
  | NMerge i j p =>
      match nth_error W i, nth_error W j with
      | Some a, Some b =>
          if negb (Bool.eqb (is_some (q_tr a)) (is_some (q_tr b))) then (W, ErrValue)
          else if (q_num a =? 0)%nat || (q_num b =? 0)%nat then (W, ErrZeroDiv)
          else (W ++ [nmerge_obj a b p], Ok)
      | _, _ => (W, BadIndex)
      end
  | NReadTrace i =>
      match nth_error W i with
      | Some x => match nread_trace x with
                  | Some (x', _) => (set_nth W i x', Ok)
                  | None => (W, ErrType)
                  end
      | None => (W, BadIndex)
      end
  end.

Fixpoint nrun (W : list nobj) (ops : list nop) : list nobj :=
  match ops with [] => W | o :: ops' => nrun (fst (nstep W o)) ops' end.

Fixpoint nrun_log (W : list nobj) (ops : list nop) : list nobj * list outcome :=
  match ops with
  | [] => (W, [])
  | o :: ops' => let (W1, r) := nstep W o in
                 let (W2, rs) := nrun_log W1 ops' in (W2, r :: rs)
  end.

(* former rule (before 8bf0b8f), documentation only: _add_trace appended the
   trace of deterministic trajectories to runs_trace too *)
Definition old_nadd_det (o : nobj) (t : ntraj) (w : Qc) : nobj :=
  let o' := nadd_det o t w in
  {| q_keep := q_keep o'; q_ntrajs := q_ntrajs o'; q_num := q_num o'; q_rel := q_rel o';
     q_det := q_det o'; q_tr := q_tr o'; q_wrel := q_wrel o'; q_wdet := q_wdet o';
     q_runs_trace := if q_keep o then q_runs_trace o ++ [n_tr t] else q_runs_trace o;
     q_cache := q_cache o'; q_grel := q_grel o'; q_gdet := q_gdet o' |}.

(* trace-weighted states: the trajectory NmmcResult effectively reduces *)
Definition nm_scale (trs : vec) (trlast : Qc) (t : straj) : straj :=
  {| s_id := s_id t; s_states := option_map (vmul trs) (s_states t);
     s_final := option_map (vscale trlast) (s_final t) |}.

(* ----------------------------------------------------------- harness only *)
Definition nsz (s : nsum) := (vz (ne1 s), vz (ne2 s)).
Definition tsz4 (x : tsums) := (vz (t1d x), vz (t1r x), vz (t2d x), vz (t2r x)).
Definition pz (c : vec * vec) := (vz (fst c), vz (snd c)).
Definition nobs_obj (o : nobj) :=
  ((q_keep o, q_num o),
   (oz nsz (q_rel o), oz nsz (q_det o)),
   oz tsz4 (q_tr o),
   (vz (q_wrel o), vz (q_wdet o), map vz (q_runs_trace o)),
   (oz pz (q_cache o), oz pz (ncompute o), oz vz (naverage o), oz vz (nvariance o))).
Definition nobserve (ops : list nop) :=
  let (W, rs) := nrun_log [] ops in (map out_code rs, map nobs_obj W).
Definition mknt (id : Z) (x trx tr : list (Z * Z)) : ntraj :=
  {| n_id := id; n_x := mkv x; n_trx := mkv trx; n_tr := mkv tr |}.
