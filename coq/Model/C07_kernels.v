(* C07 - specifications for the Bloch-Redfield loop kernels and the eigenbasis
   change (Tier A).  The kernels themselves are generated from the source into
   Gen/C07_kernels.v by tools/tx_c07_kernels.py. *)
From mathcomp Require Import all_ssreflect all_algebra.
From mathcomp Require Import mxtens.
From QV Require Import Base.MxHerm Model.C07.
Set Implicit Arguments. Unset Strict Implicit. Unset Printing Implicit Defensive.
Import GRing.Theory.
Local Open Scope ring_scope.

(* _data.kron_transpose(b, a) = b^T (x) a *)
Definition kronT (R : fieldType) m (b a : 'M[R]_m) : 'M[R]_(m * m) := b^T *t a.

(* skew[a,b] = w[a] - w[b] for eigenvalues w (values in an abelian group) *)
Definition skew_of n (G : zmodType) (w : 'I_n -> G) (a b : 'I_n) : G := w a - w b.

Section KernelSpecs.
Variable R : fieldType.
Variable n : nat.
Variable h : R.          (* the literal 0.5 *)

(* documented Bloch-Redfield cross term of the pair (alpha = A, beta = B),
   spectrum matrix S[a,b] = S(w_a - w_b), no secular cut-off:
     sum_cd R_abcd X_cd  with
     R_abcd = -1/2 { d_bd sum_n A_an B_nc S_cn - B_ac A_db S_ca
                   + d_ac sum_n A_dn B_nb S_dn - B_ac A_db S_db }
   i.e. 1/2 [ (B o S^T) X A + B X (A o S) - A (B o S^T) X - X (A o S) B ]   *)
Definition cross_rhs (A B S X : 'M[R]_n) : 'M[R]_n :=
  let AS := had A (h *: S) in
  let BST := had B (h *: S)^T in
  BST *m X *m A + B *m X *m AS - A *m BST *m X - X *m (AS *m B).

(* R_abcd of the documentation, entry by entry *)
Definition R_abcd (A B S : 'M[R]_n) (a b c d : 'I_n) : R :=
  - h * ( (b == d)%:R * (\sum_k A a k * B k c * S c k) - B a c * A d b * S c a
        + (a == c)%:R * (\sum_k A d k * B k b * S d k) - B a c * A d b * S d b ).

(* the secular mask as the code applies it: keep[a*n+b, c*n+d] *)
Definition sec_mask (G : zmodType) (near : G -> bool) (skew : 'I_n -> 'I_n -> G)
  (L : 'M[R]_(n * n)) : 'M[R]_(n * n) :=
  \matrix_(I, J)
    (if near (skew (mxtens_unindex I).1 (mxtens_unindex I).2
              - skew (mxtens_unindex J).1 (mxtens_unindex J).2)
     then L I J else 0).
End KernelSpecs.
