(* C10 - rooted trees, elementary weights and the order conditions of a
   Runge-Kutta tableau, evaluated exactly on dyadic rationals.

   The tableaux of qutip (Gen/C10_tableaux.v) are IEEE doubles, i.e. dyadic
   rationals m / 2^e.  `dy` carries such numbers with integer mantissa and
   exponent; sums and products are exact and never need a gcd.

   tree     : plane rooted trees (Node [children]); every rooted tree has at
              least one plane representative and the elementary weight does
              not depend on the order of the children, so quantifying over
              all values of this type covers all rooted trees.
   Phi a t  : vector of elementary weights Phi_i(t), i over the stages,
              Phi_i([t1..tm]) = prod_k sum_j a_ij Phi_j(t_k)
   gamma t  : density, gamma([t1..tm]) = order * prod gamma(t_k)
   order condition for weights w (w = b, or a column of the dense-output
   matrix bi):   sum_i w_i Phi_i(t) = target / gamma(t).
   No proofs in this file. *)
From Coq Require Import List ZArith QArith Bool.
Import ListNotations.
Local Open Scope Z_scope.

(* ---------------------------------------------------------------- dyadics *)
Definition dy := (Z * Z)%type.          (* (m, e) stands for m / 2^e, e >= 0 *)

Definition dadd (x y : dy) : dy :=
  let (m1, e1) := x in let (m2, e2) := y in
  if e1 <=? e2 then (Z.shiftl m1 (e2 - e1) + m2, e2)
  else (m1 + Z.shiftl m2 (e1 - e2), e1).
Definition dmul (x y : dy) : dy :=
  let (m1, e1) := x in let (m2, e2) := y in (m1 * m2, e1 + e2).
Definition dzero : dy := (0, 0).
Definition done : dy := (1, 0).
Definition dopp (x : dy) : dy := (- fst x, snd x).
Definition dofZ (z : Z) : dy := (z, 0).

(* meaning *)
Definition dy2Q (x : dy) : Q := inject_Z (fst x) / inject_Z (2 ^ snd x).

(* a rational whose denominator is a power of two, as a dyadic *)
Definition q2dy (q : Q) : dy := (Qnum q, Z.log2 (Zpos (Qden q))).
Definition q_is_dyadic (q : Q) : bool := Zpos (Qden q) =? 2 ^ Z.log2 (Zpos (Qden q)).

(* | x * g - tgt | <= 2^-k   for integers g > 0, tgt *)
Definition dclose (k : Z) (x : dy) (g tgt : Z) : bool :=
  let (m, e) := x in Z.abs (m * g - tgt * 2 ^ e) * 2 ^ k <=? 2 ^ e.
(* | x - y | <= 2^-k *)
Definition dclose2 (k : Z) (x y : dy) : bool :=
  let (m, e) := dadd x (dopp y) in Z.abs m * 2 ^ k <=? 2 ^ e.

(* ---------------------------------------------------------------- vectors *)
Definition vec := list dy.
Fixpoint vmul (u v : vec) : vec :=
  match u, v with
  | x :: u', y :: v' => dmul x y :: vmul u' v'
  | _, _ => []
  end.
Fixpoint ddot (u v : vec) : dy :=
  match u, v with
  | x :: u', y :: v' => dadd (dmul x y) (ddot u' v')
  | _, _ => dzero
  end.
Definition matvec (a : list vec) (v : vec) : vec := map (fun row => ddot row v) a.
Definition ones (n : nat) : vec := repeat done n.

(* ------------------------------------------------------------------ trees *)
Inductive tree := Node : list tree -> tree.

Fixpoint order (t : tree) : nat :=
  match t with Node ts => S (fold_right (fun t n => (order t + n)%nat) 0%nat ts) end.
Definition forder (f : list tree) : nat := fold_right (fun t n => (order t + n)%nat) 0%nat f.

Fixpoint gamma (t : tree) : Z :=
  match t with Node ts => Z.of_nat (order t) * fold_right (fun t g => gamma t * g) 1 ts end.

Section Weights.
Variable a : list vec.           (* the matrix a of the tableau, all rows *)
Let s := length a.

Fixpoint Phi (t : tree) : vec :=
  match t with Node ts => fold_right (fun t acc => vmul (matvec a (Phi t)) acc) (ones s) ts end.
Definition phiF (f : list tree) : vec :=
  fold_right (fun t acc => vmul (matvec a (Phi t)) acc) (ones s) f.

(* ---- memoised enumeration of all plane forests/trees by order ----
   Fs = [F_0; ...; F_{m-1}],  F_j = all (f, phiF f) with forder f = j
   Ts = [T_1; ...; T_m],      T_k = all (Node f, a . phiF f), f in F_{k-1} *)
Definition fent := (list tree * vec)%type.
Definition tent := (tree * vec)%type.

Definition mk_tent (e : fent) : tent := (Node (fst e), matvec a (snd e)).

Definition cross (T : list tent) (F : list fent) : list fent :=
  flat_map (fun tu => map (fun fp => (fst tu :: fst fp, vmul (snd tu) (snd fp))) F) T.

Definition next_F (Fs : list (list fent)) (Ts : list (list tent)) : list fent :=
  let m := length Fs in
  flat_map (fun k => cross (nth (k - 1) Ts []) (nth (m - k) Fs [])) (seq 1 m).

Fixpoint tabs (m : nat) : list (list fent) * list (list tent) :=
  match m with
  | O => ([], [])
  | S O => ([[([], ones s)]], [[mk_tent ([], ones s)]])
  | S m' => let (Fs, Ts) := tabs m' in
            let F := next_F Fs Ts in
            (Fs ++ [F], Ts ++ [map mk_tent F])
  end.

(* all forests of order < m with their weights; Node f has order forder f + 1 *)
Definition all_forests (m : nat) : list fent := concat (fst (tabs m)).

(* the order condition of one tree for weights w: sum_i w_i Phi_i = tgt/gamma *)
Definition cond_ok (k : Z) (w : vec) (tgt : Z) (e : fent) : bool :=
  dclose k (ddot w (snd e)) (gamma (Node (fst e))) tgt.

(* all trees of order <= p satisfy the quadrature condition for b *)
Definition order_check (k : Z) (b : vec) (p : nat) : bool :=
  forallb (cond_ok k b 1) (all_forests p).

(* dense output: out(theta) = y + dt sum_i (sum_j bi[i][j] theta^(j+1)) k_i.
   Order conditions coefficient by coefficient in theta:
   sum_i bi[i][j] Phi_i(t) = [j+1 = order t] / gamma(t) *)
Definition column (j : nat) (m : list vec) : vec := map (fun r => nth j r dzero) m.
Definition dense_check (k : Z) (bi : list vec) (q p : nat) : bool :=
  forallb (fun e => forallb (fun j =>
      cond_ok k (column j bi) (if Nat.eqb (S j) (S (forder (fst e))) then 1 else 0) e) (seq 0 q))
    (all_forests p).
End Weights.

(* ---- conversions of a generated tableau ---- *)
Definition dvec (v : list Q) : vec := map q2dy v.
Definition dmat (m : list (list Q)) : list vec := map dvec m.
Definition all_dyadic_v (v : list Q) := forallb q_is_dyadic v.
Definition all_dyadic_m (m : list (list Q)) := forallb all_dyadic_v m.

(* ---- structural facts about a tableau (exact arithmetic) ---- *)
Definition dsum (v : vec) : dy := fold_right dadd dzero v.
(* a_ij = 0 for j >= i : the kernel only reads a[i, :i] *)
Definition strictly_lower (a : list vec) : bool :=
  forallb (fun i => forallb (fun x => Z.eqb (fst x) 0) (skipn i (nth i a [])))
          (seq 0 (length a)).
Definition rowsum_ok (k : Z) (a : list vec) (c : vec) : bool :=
  forallb (fun i => dclose2 k (dsum (nth i a [])) (nth i c dzero)) (seq 0 (length a)).
Definition shapes_ok (a : list vec) (b c : vec) : bool :=
  (length b <=? length c)%nat && (length a =? length c)%nat &&
  forallb (fun r => (length r =? length c)%nat) a.

(* ---- embedded method and the one-pass check ---- *)
Fixpoint vsub (u v : vec) : vec :=
  match u, v with
  | x :: u', y :: v' => dadd x (dopp y) :: vsub u' v'
  | _, _ => []
  end.
(* target of the dense-output condition of column j for a tree of order n *)
Definition dense_target (j n : nat) : Z := if Nat.eqb (S j) n then 1 else 0.
(* One pass over all trees of order <= p:
     b   satisfies the order conditions up to order p        (within 2^-k)
     bh  (the embedded weights b - e) up to order pe
     the q columns of bi up to order pd                       (within 2^-kd) *)
Definition full_check (a : list vec) (k kd : Z) (b bh : vec) (bi : list vec)
           (q p pe pd : nat) : bool :=
  forallb (fun e =>
     let n := S (forder (fst e)) in
     cond_ok k b 1 e
     && ((pe <? n)%nat || cond_ok k bh 1 e)
     && ((pd <? n)%nat ||
         forallb (fun j => cond_ok kd (column j bi) (dense_target j n) e) (seq 0 q)))
    (all_forests a p).
