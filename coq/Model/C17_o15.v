(* C17 - the order-1.5 strong Taylor update (qutip/solver/sode/_sode.pyx
   Taylor15.step, and the explicit part of Taylor15_imp.step before its
   linear solve) as an algebraic function of (state, dw, dz).

   The update is a sum of `iadd_dense(out, system.<term>(indices), coeff)`
   statements inside the loop skeleton
       <statements without index>
       for i in range(num_ops):
           <statements in i>
           for j in range(i+1, num_ops):
               <statements in i, j>
               for k in range(j+1, num_ops):
                   <statements in i, j, k>
   The four statement lists are NOT written here: tools/tx_c17_o15.py reads
   them from the current source (Python ast on the de-cythonised method
   body, fails closed on anything else) and writes them to
   Gen/C17_taylor15.v as values of type `prog`.  This file gives the language
   and its meaning over an arbitrary scalar type, state type and system.

   dz is the second stochastic integral, dz_i = 0.5 (dW[0,i] + dW[1,i]/sqrt 3) dt,
   computed by the stepper from the two rows of the increment slab; it is an
   input here (sqrt 3 and 1/3 are not dyadic, so unlike the order <= 1
   schemes this formula has no exact floating-point correspondence; the tie is
   the translator). *)
From Coq Require Import List ZArith Bool Arith.
Import ListNotations.
From QV Require Import Model.C17_sde.

Inductive ix := I0 | I1 | I2.                 (* the loop variables i, j, k *)

(* coefficient expressions *)
Inductive cx :=
| Xdt | Xdw (v : ix) | Xdz (v : ix)
| Xone                                        (* 1 *)
| Xhalf                                       (* 0.5 *)
| Xthird                                      (* (1/3.) *)
| Xmul (a b : cx) | Xsub (a b : cx).

(* system terms *)
Inductive tm15 :=
| Sa | SL0a | Sstate
| Sb (v : ix) | SLa (v : ix) | SL0b (v : ix)
| SLb (v w : ix) | SLLb (u v w : ix).

Definition stmt := (tm15 * cx)%type.

Record prog := {
  p_pre : list stmt;        (* no index *)
  p_i : list stmt;          (* inside `for i` *)
  p_ij : list stmt;         (* inside `for j in range(i+1, n)` *)
  p_ijk : list stmt }.      (* inside `for k in range(j+1, n)` *)

(* the terms of the Ito-Taylor expansion offered by a system object *)
Record sys15 (K V : Type) := {
  n15 : nat;
  t_a : V -> V; t_L0a : V -> V;
  t_b : nat -> V -> V; t_La : nat -> V -> V; t_L0b : nat -> V -> V;
  t_Lb : nat -> nat -> V -> V; t_LLb : nat -> nat -> nat -> V -> V }.
Arguments n15 {K V}. Arguments t_a {K V}. Arguments t_L0a {K V}. Arguments t_b {K V}.
Arguments t_La {K V}. Arguments t_L0b {K V}. Arguments t_Lb {K V}. Arguments t_LLb {K V}.

Section Eval.
  Context {K V : Type} (A : alg K V) (third : K) (Sy : sys15 K V).
  Variables (state : V) (dt : K) (dw dz : nat -> K).

  Definition env := (nat * nat * nat)%type.
  Definition look (e : env) (v : ix) : nat :=
    match v with I0 => fst (fst e) | I1 => snd (fst e) | I2 => snd e end.

  Fixpoint eval_cx (e : env) (c : cx) : K :=
    match c with
    | Xdt => dt
    | Xdw v => dw (look e v)
    | Xdz v => dz (look e v)
    | Xone => k1 A
    | Xhalf => half A
    | Xthird => third
    | Xmul a b => kmul A (eval_cx e a) (eval_cx e b)
    | Xsub a b => ksub A (eval_cx e a) (eval_cx e b)
    end.

  Definition eval_tm (e : env) (t : tm15) : V :=
    match t with
    | Sa => t_a Sy state
    | SL0a => t_L0a Sy state
    | Sstate => state
    | Sb v => t_b Sy (look e v) state
    | SLa v => t_La Sy (look e v) state
    | SL0b v => t_L0b Sy (look e v) state
    | SLb v w => t_Lb Sy (look e v) (look e w) state
    | SLLb u v w => t_LLb Sy (look e u) (look e v) (look e w) state
    end.

  (* a list of iadd_dense(out, term, coeff) statements *)
  Definition run_stmts (e : env) (l : list stmt) (out : V) : V :=
    fold_left (fun o s => axpy A o (eval_tm e (fst s)) (eval_cx e (snd s))) l out.

  (* `imul_dense(out, 0.)` then the statements: out starts from zero *)
  Definition step15 (p : prog) (zero : V) : V :=
    let n := n15 Sy in
    let out := run_stmts (0, 0, 0) (p_pre p) zero in
    fold_left (fun out i =>
      let out := run_stmts (i, 0, 0) (p_i p) out in
      fold_left (fun out j =>
        let out := run_stmts (i, j, 0) (p_ij p) out in
        fold_left (fun out k => run_stmts (i, j, k) (p_ijk p) out)
                  (seq (S j) (n - S j)) out)
        (seq (S i) (n - S i)) out)
      (seq 0 n) out.
End Eval.

(* well-formedness: a statement list only mentions the loop variables that
   are bound where it stands *)
Definition ix_in (allowed : list ix) (v : ix) : bool :=
  existsb (fun a => match a, v with I0, I0 | I1, I1 | I2, I2 => true | _, _ => false end) allowed.

Fixpoint cx_ok (allowed : list ix) (c : cx) : bool :=
  match c with
  | Xdw v | Xdz v => ix_in allowed v
  | Xmul a b | Xsub a b => cx_ok allowed a && cx_ok allowed b
  | _ => true
  end.

Definition tm_ok (allowed : list ix) (t : tm15) : bool :=
  match t with
  | Sb v | SLa v | SL0b v => ix_in allowed v
  | SLb v w => ix_in allowed v && ix_in allowed w
  | SLLb u v w => ix_in allowed u && ix_in allowed v && ix_in allowed w
  | _ => true
  end.

Definition stmts_ok (allowed : list ix) (l : list stmt) : bool :=
  forallb (fun s => tm_ok allowed (fst s) && cx_ok allowed (snd s)) l.

Definition prog_ok (p : prog) : bool :=
  stmts_ok [] (p_pre p) && stmts_ok [I0] (p_i p) && stmts_ok [I0; I1] (p_ij p)
  && stmts_ok [I0; I1; I2] (p_ijk p).
