(* C17 - extension: the closed-system terms, Rouchon's step and the term
   cache of the open system.

   Model of
     qutip/solver/sode/ssystem.pyx  StochasticClosedSystem (drift, diffusion,
                                    expect)                     [part 1]
     qutip/solver/sode/rouchon.py   RouchonSODE._make_operators / _step
                                                                [part 2]
     qutip/solver/sode/ssystem.pyx  StochasticOpenSystem.set_state and the
                                    compute-on-demand cache of a, bi, Libj,
                                    Lia, L0bi, LiLjbk, L0a (the flags
                                    _a_set ... _L0a_set)        [part 3]     *)
From Coq Require Import List ZArith Bool Arith QArith.
Import ListNotations.
From QV Require Import Model.C17_sde.
Close Scope Q_scope.
Open Scope nat_scope.

(* ================================================================ part 1+2
   An operator algebra: what the closed system and Rouchon's step use of the
   data layer.  `V` holds square matrices and column vectors alike (as the
   data layer does); `mip x y` is the number x^dag y for two kets and
   tr(x^dag y) in general.                                                   *)
Record malg (K V : Type) := {
  q0 : K; q1 : K; qadd : K -> K -> K; qmul : K -> K -> K; qsub : K -> K -> K;
  qopp : K -> K; qhalf : K; qeighth : K; qi : K; qinv : K -> K;
  oadd : V -> V -> V; oscale : K -> V -> V; omul : V -> V -> V; odag : V -> V;
  otr : V -> K; oone : V }.
Arguments q0 {K V}. Arguments q1 {K V}. Arguments qadd {K V}. Arguments qmul {K V}.
Arguments qsub {K V}. Arguments qopp {K V}. Arguments qhalf {K V}. Arguments qeighth {K V}.
Arguments qi {K V}. Arguments qinv {K V}. Arguments oadd {K V}. Arguments oscale {K V}.
Arguments omul {K V}. Arguments odag {K V}. Arguments otr {K V}. Arguments oone {K V}.

Section Systems.
  Context {K V : Type} (B : malg K V).
  Notation "x +o y" := (oadd B x y) (at level 50, left associativity).
  Notation "x *o y" := (omul B x y) (at level 40, left associativity).
  Notation "c .o x" := (oscale B c x) (at level 45, right associativity).
  Notation "x +q y" := (qadd B x y) (at level 50, left associativity).
  Notation "x *q y" := (qmul B x y) (at level 40, left associativity).
  Notation "x -q y" := (qsub B x y) (at level 50, left associativity).

  Definition osum (z : V) (l : list V) : V := fold_left (oadd B) l z.

  (* ---- StochasticClosedSystem ---- *)
  (* expect_data(t, psi) of an operator M on a ket: psi^dag M psi *)
  Definition kexpect (M psi : V) : K := otr B (odag B psi *o (M *o psi)).

  (* __init__: L = -1j*H, then L += -0.5 * c^dag c for every c *)
  Definition closed_L (H : V) (cs : list V) : V :=
    fold_left (fun L c => L +o qopp B (qhalf B) .o (odag B c *o c)) cs (qopp B (qi B) .o H).

  (* drift: out = L psi; per operator: e = <c + c^dag>;
       out += -0.125 e e psi;  out += 0.5 e (c psi) *)
  Definition closed_drift (H : V) (cs : list V) (psi : V) : V :=
    fold_left (fun out c =>
      let e := kexpect (c +o odag B c) psi in
      let out := out +o (qopp B (qeighth B) *q e *q e) .o psi in
      out +o (qhalf B *q e) .o (c *o psi)) cs (closed_L H cs *o psi).

  (* diffusion: c psi - 0.5 e psi *)
  Definition closed_diff (c psi : V) : V :=
    (c *o psi) +o (qopp B (qhalf B) *q kexpect (c +o odag B c) psi) .o psi.

  (* ---- RouchonSODE ---- *)
  (* _make_operators: M = -1j H - 0.5 sum_{c_ops} c^dag c - 0.5 sum_{sc_ops} c^dag c
     (python sum() starts from 0, here the empty sum is 0 .o 1) *)
  Definition dagmul_sum (cs : list V) : V :=
    osum (q0 B .o oone B) (map (fun c => odag B c *o c) cs).

  Definition rouchon_M0 (H : V) (sc_ops c_ops : list V) : V :=
    ((qopp B (qi B) .o H) +o qopp B (qhalf B) .o dagmul_sum c_ops)
    +o qopp B (qhalf B) .o dagmul_sum sc_ops.

  (* _step, the operator M_dy:
       dy_i = expect(c_i + c_i^dag) dt + dW_i
       M = 1 + M0 dt + sum_i [ c_i dy_i + c_i c_i (dy_i^2 - dt)/2
                               + sum_{j<i} (c_j c_i) dy_i dy_j ]              *)
  Definition rouchon_Mdy (M0 : V) (sc_ops : list V) (dt : K) (dy : nat -> K) : V :=
    let n := length sc_ops in
    let c := fun i => nth i sc_ops (q0 B .o oone B) in
    fold_left (fun M i =>
      let M := M +o dy i .o c i in
      let M := M +o ((dy i *q dy i -q dt) *q qhalf B) .o (c i *o c i) in
      fold_left (fun M j => M +o (dy i *q dy j) .o (c j *o c i)) (seq 0 i) M)
      (seq 0 n) (oone B +o dt .o M0).

  (* density-matrix branch: out = M rho M^dag + sum_{c_ops} c rho c^dag dt *)
  Definition rouchon_N (M : V) (c_ops : list V) (dt : K) (rho : V) : V :=
    fold_left (fun out c => out +o dt .o ((c *o rho) *o odag B c)) c_ops
              ((M *o rho) *o odag B M).

  Definition rouchon_dy_dm (sc_ops : list V) (dt : K) (dW : nat -> K) (rho : V) : nat -> K :=
    fun i => let c := nth i sc_ops (q0 B .o oone B) in
             otr B ((c +o odag B c) *o rho) *q dt +q dW i.

  Definition rouchon_dy_ket (sc_ops : list V) (dt : K) (dW : nat -> K) (psi : V) : nat -> K :=
    fun i => let c := nth i sc_ops (q0 B .o oone B) in
             kexpect (c +o odag B c) psi *q dt +q dW i.

  (* the step before the final division, and the step (out / trace(out)) *)
  Definition rouchon_unnorm (H : V) (sc_ops c_ops : list V) (dt : K) (dW : nat -> K) (rho : V) : V :=
    let M := rouchon_Mdy (rouchon_M0 H sc_ops c_ops) sc_ops dt
                         (rouchon_dy_dm sc_ops dt dW rho) in
    rouchon_N M c_ops dt rho.

  Definition rouchon_step (H : V) (sc_ops c_ops : list V) (dt : K) (dW : nat -> K) (rho : V) : V :=
    let out := rouchon_unnorm H sc_ops c_ops dt dW rho in
    qinv B (otr B out) .o out.

  (* wave-function branch before the division by the l2 norm: M psi *)
  Definition rouchon_ket_unnorm (H : V) (sc_ops : list V) (dt : K) (dW : nat -> K) (psi : V) : V :=
    rouchon_Mdy (rouchon_M0 H sc_ops []) sc_ops dt (rouchon_dy_ket sc_ops dt dW psi) *o psi.
End Systems.

(* the closed system as a `sys` for the generic Euler / Platen steps of
   Model/C17_sde.v (SSESolver offers euler, platen, explicit1.5, rouchon) *)
Definition closed_sys {K V} (B : malg K V) (re : K -> K) (H : V) (sc_ops : list V) : sys K V :=
  {| nops := length sc_ops;
     drift := closed_drift B H sc_ops;
     diff := fun i psi => closed_diff B (nth i sc_ops (oscale B (q0 B) (oone B))) psi;
     Lbij := fun _ _ psi => oscale B (q0 B) psi;      (* not used by euler / platen *)
     expect_re := fun i psi =>
       let c := nth i sc_ops (oscale B (q0 B) (oone B)) in
       re (kexpect B (oadd B c (odag B c)) psi) |}.

(* ---- executable instance: Gaussian rationals, list matrices ---- *)
Definition cinv (z : C) : C :=
  let d := (fst z * fst z + snd z * snd z)%Q in
  cred ((fst z / d)%Q, (- snd z / d)%Q).

Definition mident (n : nat) : mat :=
  map (fun i => map (fun j => if Nat.eqb i j then c1 else c0) (seq 0 n)) (seq 0 n).

Definition cmalg (n : nat) : malg C mat :=
  {| q0 := c0; q1 := c1; qadd := cadd; qmul := cmul; qsub := csub; qopp := copp;
     qhalf := cofq (1 # 2); qeighth := cofq (1 # 8); qi := ci; qinv := cinv;
     oadd := madd; oscale := mscale; omul := mmul; odag := mdag; otr := mtr;
     oone := mident n |}.

(* SSESolver, schemes euler / platen, N steps *)
Definition sse_run (sch : scheme) (meas : bool) (H : mat) (sc_ops : list mat)
           (psi : mat) (dt sdt : Q) (dWs : list (list Q)) : mat :=
  let S := closed_sys (cmalg (length H)) cre H sc_ops in
  let dWf := map (fun l => fun i => cofq (nth i l 0%Q)) dWs in
  let cdt := cofq dt in
  let step :=
    match sch with
    | SPlaten => fun st dW =>
        platen_step calg S meas st cdt (cofq sdt) (cofq ((1 # 4) / sdt)) dW
    | _ => fun st dW => euler_step calg S meas st cdt dW
    end in
  run_steps step psi dWf.

(* one Rouchon step of SMESolver, before the final division: (out, trace out) *)
Definition rouchon_obs (H : mat) (sc_ops c_ops : list mat) (rho : mat) (dt : Q) (dW : list Q) :=
  let out := rouchon_unnorm (cmalg (length H)) H sc_ops c_ops (cofq dt)
                            (fun i => cofq (nth i dW 0%Q)) rho in
  (mprint out, cprint (cred (mtr out))).

(* ==================================================================== part 3
   The term cache of StochasticOpenSystem.  States and times are abstract
   (compared by an index: the harness numbers the (t, state) pairs it sets);
   what is modelled is WHICH (t, state) each returned term was computed from.
   A cached term carries the index of the set_state call it was computed
   after; L0a additionally carries the index its input `_a` came from.      *)
Inductive term := Ta | Tb | TLb | TLa | TL0b | TLLb | TL0a | Texpect.

Record cache := {
  cur : nat;                    (* index of the last set_state *)
  a_set : bool; a_from : nat;
  b_set : bool; b_from : nat;
  Lb_set : bool; Lb_from : nat;
  La_set : bool; La_from : nat;
  L0b_set : bool; L0b_from : nat;
  LLb_set : bool; LLb_from : nat;
  L0a_set : bool; L0a_from : nat; L0a_a_from : nat }.

Definition cache0 : cache :=
  {| cur := 0; a_set := false; a_from := 0; b_set := false; b_from := 0;
     Lb_set := false; Lb_from := 0; La_set := false; La_from := 0;
     L0b_set := false; L0b_from := 0; LLb_set := false; LLb_from := 0;
     L0a_set := false; L0a_from := 0; L0a_a_from := 0 |}.

(* set_state(t, state): every flag is cleared *)
Definition c_set_state (c : cache) (k : nat) : cache :=
  {| cur := k; a_set := false; a_from := a_from c; b_set := false; b_from := b_from c;
     Lb_set := false; Lb_from := Lb_from c; La_set := false; La_from := La_from c;
     L0b_set := false; L0b_from := L0b_from c; LLb_set := false; LLb_from := LLb_from c;
     L0a_set := false; L0a_from := L0a_from c; L0a_a_from := L0a_a_from c |}.

Definition compute_a (c : cache) : cache :=
  if a_set c then c else
  {| cur := cur c; a_set := true; a_from := cur c; b_set := b_set c; b_from := b_from c;
     Lb_set := Lb_set c; Lb_from := Lb_from c; La_set := La_set c; La_from := La_from c;
     L0b_set := L0b_set c; L0b_from := L0b_from c; LLb_set := LLb_set c; LLb_from := LLb_from c;
     L0a_set := L0a_set c; L0a_from := L0a_from c; L0a_a_from := L0a_a_from c |}.

Definition compute_b (c : cache) : cache :=
  if b_set c then c else
  {| cur := cur c; a_set := a_set c; a_from := a_from c; b_set := true; b_from := cur c;
     Lb_set := Lb_set c; Lb_from := Lb_from c; La_set := La_set c; La_from := La_from c;
     L0b_set := L0b_set c; L0b_from := L0b_from c; LLb_set := LLb_set c; LLb_from := LLb_from c;
     L0a_set := L0a_set c; L0a_from := L0a_from c; L0a_a_from := L0a_a_from c |}.

(* _compute_Lb: `if not self._b_set: self._compute_b()` first *)
Definition compute_Lb (c0 : cache) : cache :=
  if Lb_set c0 then c0 else
  let c := compute_b c0 in
  {| cur := cur c; a_set := a_set c; a_from := a_from c; b_set := b_set c; b_from := b_from c;
     Lb_set := true; Lb_from := cur c; La_set := La_set c; La_from := La_from c;
     L0b_set := L0b_set c; L0b_from := L0b_from c; LLb_set := LLb_set c; LLb_from := LLb_from c;
     L0a_set := L0a_set c; L0a_from := L0a_from c; L0a_a_from := L0a_a_from c |}.

Definition compute_La (c0 : cache) : cache :=
  if La_set c0 then c0 else
  let c := compute_b c0 in
  {| cur := cur c; a_set := a_set c; a_from := a_from c; b_set := b_set c; b_from := b_from c;
     Lb_set := Lb_set c; Lb_from := Lb_from c; La_set := true; La_from := cur c;
     L0b_set := L0b_set c; L0b_from := L0b_from c; LLb_set := LLb_set c; LLb_from := LLb_from c;
     L0a_set := L0a_set c; L0a_from := L0a_from c; L0a_a_from := L0a_a_from c |}.

(* _compute_L0b: needs Lb and a *)
Definition compute_L0b (c0 : cache) : cache :=
  if L0b_set c0 then c0 else
  let c := compute_a (compute_Lb c0) in
  {| cur := cur c; a_set := a_set c; a_from := a_from c; b_set := b_set c; b_from := b_from c;
     Lb_set := Lb_set c; Lb_from := Lb_from c; La_set := La_set c; La_from := La_from c;
     L0b_set := true; L0b_from := cur c; LLb_set := LLb_set c; LLb_from := LLb_from c;
     L0a_set := L0a_set c; L0a_from := L0a_from c; L0a_a_from := L0a_a_from c |}.

Definition compute_LLb (c0 : cache) : cache :=
  if LLb_set c0 then c0 else
  let c := compute_Lb c0 in
  {| cur := cur c; a_set := a_set c; a_from := a_from c; b_set := b_set c; b_from := b_from c;
     Lb_set := Lb_set c; Lb_from := Lb_from c; La_set := La_set c; La_from := La_from c;
     L0b_set := L0b_set c; L0b_from := L0b_from c; LLb_set := true; LLb_from := cur c;
     L0a_set := L0a_set c; L0a_from := L0a_from c; L0a_a_from := L0a_a_from c |}.

(* _compute_L0a: `if not self._a_set: self._compute_a()`, then L.matmul(self._a) *)
Definition compute_L0a (c0 : cache) : cache :=
  if L0a_set c0 then c0 else
  let c := compute_a c0 in
  {| cur := cur c; a_set := a_set c; a_from := a_from c; b_set := b_set c; b_from := b_from c;
     Lb_set := Lb_set c; Lb_from := Lb_from c; La_set := La_set c; La_from := La_from c;
     L0b_set := L0b_set c; L0b_from := L0b_from c; LLb_set := LLb_set c; LLb_from := LLb_from c;
     L0a_set := true; L0a_from := cur c; L0a_a_from := a_from c |}.

(* an accessor call: new cache and the provenance of what it returns
   (index of the state it was computed from; for L0a also that of its `_a`) *)
Definition c_get (c : cache) (tm : term) : cache * (nat * nat) :=
  match tm with
  | Ta => let c' := compute_a c in (c', (a_from c', a_from c'))
  | Tb | Texpect => let c' := compute_b c in (c', (b_from c', b_from c'))
  | TLb => let c' := compute_Lb c in (c', (Lb_from c', Lb_from c'))
  | TLa => let c' := compute_La c in (c', (La_from c', La_from c'))
  | TL0b => let c' := compute_L0b c in (c', (L0b_from c', L0b_from c'))
  | TLLb => let c' := compute_LLb c in (c', (LLb_from c', LLb_from c'))
  | TL0a => let c' := compute_L0a c in (c', (L0a_from c', L0a_a_from c'))
  end.

Inductive cop := SetState (k : nat) | Get (tm : term).

Fixpoint c_run (c : cache) (ops : list cop) : cache * list (option (nat * nat)) :=
  match ops with
  | [] => (c, [])
  | SetState k :: r => let '(c', out) := c_run (c_set_state c k) r in (c', None :: out)
  | Get tm :: r => let '(c1, v) := c_get c tm in
                   let '(c2, out) := c_run c1 r in (c2, Some v :: out)
  end.

(* the accessor sequences of the steppers that use the cache, after their
   own set_state (Taylor15.step, Taylor15_imp.step, Milstein.step,
   Milstein_imp.step, PredCorr.step's two phases) *)
Definition prog_taylor15 : list term := [Ta; TL0a; Tb; TLb; TLa; TL0b; TLLb].
Definition prog_taylor15_imp : list term := [Ta; Tb; TLb; TLa; TL0b; TLLb].
Definition prog_milstein : list term := [Ta; Texpect; Tb; TLb].
Definition prog_predcorr : list term := [Texpect; Ta; Tb; TLb].
