(* Executable instances of the C13 model, used by the correspondence harness
   (tools/c13.py) and by the non-vacuity examples.  They mirror, number for
   number, the scripted "physics" that the harness plugs into the real
   MCIntegrator (a fake ODE integrator, fake c_ops / n_ops) and into the real
   stochastic integrator base class (a fake stepper).  All quantities are
   integers: times in a fixed dyadic unit, probabilities as numerators over
   2^1200, uniform draws k / 2^53 given as k * 2^1147. *)
From Coq Require Import List ZArith Bool Arith Lia.
Import ListNotations.
From QV Require Import Model.C13.
Local Open Scope Z_scope.

(* ------------------------------------------------------------ Monte-Carlo *)
(* state of the fake ODE: the ket has one non-zero amplitude 2^-e at level l *)
Definition YY := (nat * Z)%type.

(* a collapse channel: weight (in quarters) of its n_op per level, target
   level per level (None: c_op gives the zero vector), extra damping 2^-a *)
Record chan := { c_w : list Z; c_tgt : list (option nat); c_amp : list Z }.
Record mcprob := { p_h : Z; p_rate : list Z; p_chans : list chan }.

Definition one120 : Z := 2 ^ 1200.
Definition i_prob (y : YY) : Z := 2 ^ (1200 - 2 * snd y).
Definition i_mix (u f : Z) : Z := u + f - (u * f) / one120.
Definition i_ode_step (p : mcprob) (t : Z) (y : YY) (tt : Z) : Z * YY :=
  (Z.min (t + p_h p) tt, (fst y, snd y + nth (fst y) (p_rate p) 0)).
(* norm_t_tol is set huge: the collapse is placed at the end of the step *)
Definition i_find (t_prev : Z) (y_prev : YY) (t_step : Z) (y_step : YY) (n_old n tgt : Z)
  : option (Z * YY) := Some (t_step, y_step).
Definition i_weights (p : mcprob) (l : nat) : list Z := map (fun c => nth l (c_w c) 0) (p_chans p).
Fixpoint first_ge (cum : Z) (ws : list Z) (v : Z) (i : nat) : nat :=
  match ws with
  | [] => i
  | w :: r => if (v <=? (cum + w) * one120) then i else first_ge (cum + w) r v (S i)
  end.
(* np.searchsorted(cumsum(probs), probs[-1] * u): first i with cum_i >= W u *)
Definition i_choose (p : mcprob) (t : Z) (y : YY) (u : Z) : nat :=
  let ws := i_weights p (fst y) in
  first_ge 0 ws (fold_left Z.add ws 0 * u) 0.
(* mc_corr_eps = 2^-34 *)
Definition i_jump (p : mcprob) (which : nat) (t : Z) (y : YY) : option YY :=
  match nth_error (p_chans p) which with
  | None => None
  | Some c =>
      match nth (fst y) (c_tgt c) None with
      | None => None
      | Some l' => if 34 <? snd y + nth (fst y) (c_amp c) 0 then None else Some (l', 0)
      end
  end.
Definition i_renorm (y : YY) : YY := (fst y, 0).

(* scripted generators: seed number k (entropy k) hands out the list nth k,
   then the constant d (1/2 for the uniform draws: a threshold 0 is never reached) *)
Definition i_stream (d : Z) (ls : list (list Z)) (sd : seedid) (k : nat) : Z :=
  nth k (nth (Z.to_nat (fst sd)) ls []) d.

Definition i_mci0 : mci Z Z YY :=
  {| m_coll := []; m_target := 0; m_gen := {| g_seed := (0, []); g_pos := 0 |};
     m_t := 0; m_y := (0%nat, 0); m_set := false; m_log := [] |}.

Definition i_run_one (p : mcprob) (ls : list (list Z)) (s : mci Z Z YY) (seed : sseq)
    (t0 : Z) (y0 : YY) (ts : list Z) (nj : bool) (fl : Z) :=
  mc_run_one Z Z YY (i_stream (2 ^ 1199) ls) 0 one120 Z.leb Z.ltb i_mix
    (length (p_chans p)) i_prob (i_ode_step p) i_find (i_choose p) (i_jump p) i_renorm
    1000 s seed t0 y0 ts nj fl.

(* a history of trajectories on one MCIntegrator:
   (t0, level0, tlist[1:], no_jump, jump_prob_floor); trajectory number k uses
   generator number k.  i_mix is exact when floor and the first draw are
   multiples of 2^-20 (the harness generates them so). *)
Fixpoint i_history (p : mcprob) (ls : list (list Z)) (s : mci Z Z YY) (k : nat)
    (h : list (Z * nat * list Z * bool * Z)) : list (mc_traj Z YY) :=
  match h with
  | [] => []
  | (t0, l0, ts, nj, fl) :: r =>
      let '(tr, s') := i_run_one p ls s (fresh (Z.of_nat k)) t0 (l0, 0) ts nj fl in
      tr :: i_history p ls s' (S k) r
  end.

Definition role_code (r : role) : Z := match r with RThreshold => 0 | RWhich => 1 end.
Definition obs_traj (tr : mc_traj Z YY) :=
  (option_map (map (fun '(t, y) => (t, fst y, snd y))) (tr_states Z YY tr),
   tr_coll Z YY tr,
   map (fun '(r, i) => (role_code r, i)) (tr_draws Z YY tr)).
Definition i_observe (p : mcprob) (ls : list (list Z)) (h : list (Z * nat * list Z * bool * Z)) :=
  map obs_traj (i_history p ls i_mci0 0 h).

(* ------------------------------------------------------------- diffusive *)
Definition j_step (y : Z) (rows : list (list Z)) : Z :=
  fold_left (fun y row =>
               (2 * y + fold_left Z.add (map (fun '(i, v) => Z.of_nat (S i) * v)
                                             (combine (seq 0 (length row)) row)) 0)
               mod 1000003) rows y.

Definition j_sint0 (dt : Z) : sint Z Z :=
  {| i_dt := dt; i_t := 0; i_y := 0;
     i_w := {| w_t0 := 0; w_dt := dt; w_rows := []; w_gen := None; w_calls := [] |};
     i_set := false |}.

(* events on one stochastic solver: a trajectory from generator number k, or
   run_from_experiment with a given noise record *)
Inductive jev :=
| JRun (k : nat) (t0 : Z) (y0 : Z) (ts : list Z)
| JExp (t0 dtx : Z) (y0 : Z) (ts : list Z) (rows : list (list Z)).

Definition obs_point (p : spoint Z Z) :=
  match p with
  | PStep _ _ t y nz => (t, y, Some nz)
  | PSkipped _ _ t y => (t, y, None)
  end.
Definition obs_straj (tr : s_traj Z Z) :=
  (option_map (map obs_point) (st_points Z Z tr), st_calls Z Z tr).

Fixpoint j_history (restore : bool) (ndw ncol : nat) (ls : list (list Z)) (s : sint Z Z)
    (h : list jev) :=
  match h with
  | [] => []
  | JRun k t0 y0 ts :: r =>
      let '(tr, s') := s_run_one Z Z (i_stream 0 ls) 0 Z.add ndw ncol j_step s
                         (fresh (Z.of_nat k)) t0 y0 ts in
      (obs_straj tr, i_dt Z Z s') :: j_history restore ndw ncol ls s' r
  | JExp t0 dtx y0 ts rows :: r =>
      let '(tr, s') := s_experiment Z Z (i_stream 0 ls) 0 Z.add ndw ncol j_step restore s
                         t0 dtx y0 ts rows in
      (obs_straj tr, i_dt Z Z s') :: j_history restore ndw ncol ls s' r
  end.

Definition j_observe (restore : bool) (ndw ncol : nat) (dt : Z) (ls : list (list Z)) (h : list jev) :=
  j_history restore ndw ncol ls (j_sint0 dt) h.

(* --------------------------------------------------------------- seeds *)
(* a history of run() calls on one solver: the seed argument, ntraj, the
   order in which the tasks' results reach result.add, keep_runs_results.
   `SSeqU` = "the caller's SeedSequence object", the same object in every
   run of the history (its spawn counter advances). *)
Inductive sarg := ANone | AUser | AInt (n : Z) | AList (l : list item).

Definition k_run (solver_ss user : sseq) (a : sarg) (ntraj : nat) (order : list nat) (keep : bool) :=
  let arg := match a with ANone => SNone | AUser => SSeq user | AInt n => SInt n
                        | AList l => SList l end in
  let o := read_seed solver_ss arg ntraj in
  let user' := match rs_user o with Some u => u | None => user end in
  (match rs_seeds o with
   | None => None
   | Some seeds =>
       let r := reduce_all nat keep seeds (fun j => j) order in
       Some (map sid seeds, map sid (r_seeds nat r), r_coll nat r, r_trajs nat r, r_num nat r)
   end, rs_solver o, user').

Fixpoint k_history (solver_ss user : sseq) (h : list (sarg * nat * list nat * bool)) :=
  match h with
  | [] => []
  | (a, n, order, keep) :: r =>
      let '(out, ss', user') := k_run solver_ss user a n order keep in
      (out, ss_n ss', ss_n user') :: k_history ss' user' r
  end.
