(* Model of the stored-state part of qutip/solver/multitrajresult.py (after the
   repairs 191187a and a9be42a): the running sums of states and final states
   of _TrajectorySum, the processors _reduce_states / _reduce_final_state, the
   on-demand recomputation from the kept trajectories in the properties
   average_states and average_final_state, and merge (including the
   "ensure the states are reduced" reads it performs on its operands).

     _TrajectorySum.__init__ / _initialize_sum_states / _initialize_sum_finalstate   ssum_init, zero_states, zero_final
     reduce_states / reduce_final_state / merge                                     reduce_states, reduce_final, ssum_merge
     MultiTrajResult._store_average_density_matrices / _store_final_density_matrix  store_avg, store_fin
     __init__ + _post_init (which processors are registered)                        snew
     _increment_traj, _store_trajectory, _reduce_states, _reduce_final_state        sadd, sadd_det
     average_states, average_final_state                                            average_states, average_final
     merge                                                                          smerge, sstep

   Conventions:
   * all states of one trajectory (one density matrix per time, real and
     imaginary parts of the entries) are flattened into one vector; `d` is the
     length of one flattened matrix, so states[-1] is the last block of
     length d.  _to_dm is the identity (the harness hands density matrices to
     the model; kets are projected first).
   * Python truthiness: an empty list of states and None are both `None`
     here; a Qobj is always true.
   * code paths that raise inside a processor (zip over None, += on None)
     cannot be reached by histories whose trajectories carry states exactly
     when the options ask for them; the model returns None / SErr there.
   * at least one e_op is assumed (store_states=None then acts like False).
   * fields o_grel / o_gdet are ghost history, read by no modelled statement. *)
From Coq Require Import List ZArith QArith Qcanon Bool Arith Lia.
Import ListNotations.
From QV Require Import Model.C15.
Local Open Scope Qc_scope.

Record straj := { s_id : Z; s_states : option vec; s_final : option vec }.

Record ssum := { ss_states : option vec; ss_final : option vec }.

Definition is_some {A} (x : option A) : bool := match x with Some _ => true | None => false end.

Definition zero_states (ex : straj) : option vec := option_map vzeros_like (s_states ex).
Definition zero_final (ex : straj) : option vec := option_map vzeros_like (s_final ex).

(* _TrajectorySum(example, store_states, store_final_state) *)
Definition ssum_init (ex : straj) (fs ff : bool) : ssum :=
  {| ss_states := if fs then zero_states ex else None;
     ss_final := if ff then zero_final ex else None |}.

Definition slot_add (acc : option vec) (w : Qc) (x : option vec) : option vec :=
  match acc, x with
  | Some a, Some v => Some (vadd a (vscale w v))
  | _, _ => None
  end.

Definition reduce_states (s : ssum) (t : straj) (w : Qc) : ssum :=
  {| ss_states := slot_add (ss_states s) w (s_states t); ss_final := ss_final s |}.
Definition reduce_final (s : ssum) (t : straj) (w : Qc) : ssum :=
  {| ss_states := ss_states s; ss_final := slot_add (ss_final s) w (s_final t) |}.

Definition slot_scale (w : Qc) (x : option vec) : option vec := option_map (vscale w) x.
Definition slot_mix (w1 : Qc) (x1 : option vec) (w2 : Qc) (x2 : option vec) : option vec :=
  match x1, x2 with
  | Some a, Some b => Some (vadd (vscale w1 a) (vscale w2 b))
  | _, _ => None
  end.

(* static merge(sum1, weight1, sum2, weight2), state part *)
Definition ssum_merge (s1 : option ssum) (w1 : Qc) (s2 : option ssum) (w2 : Qc) : option ssum :=
  match s1, s2 with
  | None, None => None
  | None, Some b => Some {| ss_states := slot_scale w2 (ss_states b); ss_final := slot_scale w2 (ss_final b) |}
  | Some a, None => Some {| ss_states := slot_scale w1 (ss_states a); ss_final := slot_scale w1 (ss_final a) |}
  | Some a, Some b =>
      Some {| ss_states := slot_mix w1 (ss_states a) w2 (ss_states b);
              ss_final := slot_mix w1 (ss_final a) w2 (ss_final b) |}
  end.

Record sobj := {
  o_ss : bool; o_sf : bool; o_keep : bool;           (* options *)
  o_pstore : bool; o_pstates : bool; o_pfinal : bool;(* processors registered *)
  o_hast : bool;                                     (* times is not None *)
  o_num : nat;
  o_rel : option ssum; o_det : option ssum;
  o_wrel : list Qc; o_wdet : list Qc;
  o_trajs : list straj; o_dtrajs : list straj;
  o_grel : list straj; o_gdet : list straj }.

Definition store_avg (ss keep : bool) : bool := ss && negb keep.
Definition store_fin (ss sf keep : bool) : bool := sf && negb (store_avg ss keep) && negb keep.

Definition snew (ss sf k : bool) : sobj :=
  {| o_ss := ss; o_sf := sf; o_keep := k;
     o_pstore := k; o_pstates := store_avg ss k; o_pfinal := store_fin ss sf k;
     o_hast := false; o_num := 0; o_rel := None; o_det := None;
     o_wrel := []; o_wdet := []; o_trajs := []; o_dtrajs := []; o_grel := []; o_gdet := [] |}.

Definition clear_lazy (k : bool) (s : option ssum) : option ssum :=
  if k then option_map (fun _ => {| ss_states := None; ss_final := None |}) s else s.

Definition or_sinit (o : sobj) (s : option ssum) (t : straj) : ssum :=
  match s with
  | Some s => s
  | None => ssum_init t (store_avg (o_ss o) (o_keep o)) (store_fin (o_ss o) (o_sf o) (o_keep o))
  end.

Definition run_procs (o : sobj) (s : ssum) (t : straj) (w : Qc) : ssum :=
  let s1 := if o_pstates o then reduce_states s t w else s in
  if o_pfinal o then reduce_final s1 t w else s1.

Definition sadd (o : sobj) (t : straj) (w : Qc) : sobj :=
  let rel0 := clear_lazy (o_keep o) (o_rel o) in
  let det0 := clear_lazy (o_keep o) (o_det o) in
  {| o_ss := o_ss o; o_sf := o_sf o; o_keep := o_keep o;
     o_pstore := o_pstore o; o_pstates := o_pstates o; o_pfinal := o_pfinal o;
     o_hast := true; o_num := S (o_num o);
     o_rel := Some (run_procs o (or_sinit o rel0 t) t w); o_det := det0;
     o_wrel := o_wrel o ++ [w]; o_wdet := o_wdet o;
     o_trajs := if o_pstore o then o_trajs o ++ [t] else o_trajs o;
     o_dtrajs := o_dtrajs o;
     o_grel := o_grel o ++ [t]; o_gdet := o_gdet o |}.

Definition sadd_det (o : sobj) (t : straj) (w : Qc) : sobj :=
  let rel0 := clear_lazy (o_keep o) (o_rel o) in
  let det0 := clear_lazy (o_keep o) (o_det o) in
  {| o_ss := o_ss o; o_sf := o_sf o; o_keep := o_keep o;
     o_pstore := o_pstore o; o_pstates := o_pstates o; o_pfinal := o_pfinal o;
     o_hast := true; o_num := o_num o;
     o_rel := rel0; o_det := Some (run_procs o (or_sinit o det0 t) t w);
     o_wrel := o_wrel o; o_wdet := o_wdet o ++ [w];
     o_trajs := o_trajs o; o_dtrajs := o_dtrajs o ++ [t];
     o_grel := o_grel o; o_gdet := o_gdet o ++ [t] |}.

Inductive sres := SNone | SVal (v : vec) | SErr.

Definition with_sums (o : sobj) (rel det : option ssum) : sobj :=
  {| o_ss := o_ss o; o_sf := o_sf o; o_keep := o_keep o;
     o_pstore := o_pstore o; o_pstates := o_pstates o; o_pfinal := o_pfinal o;
     o_hast := o_hast o; o_num := o_num o; o_rel := rel; o_det := det;
     o_wrel := o_wrel o; o_wdet := o_wdet o; o_trajs := o_trajs o; o_dtrajs := o_dtrajs o;
     o_grel := o_grel o; o_gdet := o_gdet o |}.

Definition lacks (f : ssum -> option vec) (x : option ssum) : bool :=
  match x with Some s => negb (is_some (f s)) | None => false end.

Definition refold (red : ssum -> straj -> Qc -> ssum) (s : ssum) (ts : list straj) (ws : list Qc) : ssum :=
  fold_left (fun acc tw => red acc (fst tw) (snd tw)) (combine ts ws) s.

(* the `if need_to_reduce_states:` block of average_states *)
Definition recompute_states (o : sobj) : sobj :=
  match o_trajs o with
  | [] => o
  | ex :: _ =>
      let z s := {| ss_states := zero_states ex; ss_final := ss_final s |} in
      with_sums o
        (option_map (fun s => refold reduce_states (z s) (o_trajs o) (o_wrel o)) (o_rel o))
        (option_map (fun s => refold reduce_states (z s) (o_dtrajs o) (o_wdet o)) (o_det o))
  end.

Definition recompute_final (o : sobj) : sobj :=
  match o_trajs o with
  | [] => o
  | ex :: _ =>
      let z s := {| ss_states := ss_states s; ss_final := zero_final ex |} in
      with_sums o
        (option_map (fun s => refold reduce_final (z s) (o_trajs o) (o_wrel o)) (o_rel o))
        (option_map (fun s => refold reduce_final (z s) (o_dtrajs o) (o_wdet o)) (o_det o))
  end.

(* det + rel / N, rel / N, or det *)
Definition combine_sums (f : ssum -> option vec) (o : sobj) : sres :=
  match o_det o, o_rel o with
  | Some dt, Some r =>
      match f dt, f r with
      | Some a, Some b => SVal (vadd a (vdivn b (o_num o)))
      | _, _ => SErr                                  (* zip over None / None + ... *)
      end
  | None, Some r => match f r with Some b => SVal (vdivn b (o_num o)) | None => SErr end
  | Some dt, None => match f dt with Some a => SVal a | None => SNone end
  | None, None => SErr                                (* AttributeError on None *)
  end.

(* property average_states: new object (on-demand sums are stored) and value *)
Definition average_states (o : sobj) : sobj * sres :=
  let avail := match o_trajs o with t :: _ => is_some (s_states t) | [] => false end in
  if lacks ss_states (o_det o) && negb avail then (o, SNone)
  else if lacks ss_states (o_rel o) && negb avail then (o, SNone)
  else
    let o1 := if lacks ss_states (o_det o) || lacks ss_states (o_rel o)
              then recompute_states o else o in
    (o1, combine_sums ss_states o1).

Definition lastblock (d : nat) (v : vec) : vec := skipn (length v - d) v.

(* property average_final_state *)
Definition average_final (d : nat) (o : sobj) : sobj * sres :=
  let avail := match o_trajs o with t :: _ => is_some (s_final t) | [] => false end in
  let (o1, st) := average_states o in
  match st with
  | SErr => (o1, SErr)
  | _ =>
    let stv := match st with SVal _ => true | _ => false end in
    if lacks ss_final (o_det o1) && negb (avail || stv) then (o1, SNone)
    else if lacks ss_final (o_rel o1) && negb (avail || stv) then (o1, SNone)
    else
      let need := lacks ss_final (o_det o1) || lacks ss_final (o_rel o1) in
      match need, st with
      | true, SVal v => (o1, SVal (lastblock d v))          (* return states[-1] *)
      | true, _ => let o2 := recompute_final o1 in (o2, combine_sums ss_final o2)
      | false, _ => (o1, combine_sums ss_final o1)
      end
  end.

(* merge, after the times test, num a > 0, num b > 0; a and b are the operands
   AFTER the "ensure the states are reduced" reads *)
Definition smerge_obj (a b : sobj) (p : option Qc) : sobj :=
  let n := (o_num a + o_num b)%nat in
  let p_equal := QcN (o_num a) / QcN n in
  let p := match p with Some p => p | None => p_equal end in
  let both := negb (is_nil (o_trajs a)) && negb (is_nil (o_trajs b)) in
  let k := if both then o_keep a else false in
  let ss := o_ss a && o_ss b in
  let sf := (o_sf a || o_ss a) && (o_sf b || o_ss b) in
  {| o_ss := ss; o_sf := sf; o_keep := k;
     o_pstore := k; o_pstates := store_avg ss k; o_pfinal := store_fin ss sf k;
     o_hast := o_hast a; o_num := n;
     o_rel := ssum_merge (o_rel a) (p / p_equal) (o_rel b) ((1 - p) / (1 - p_equal));
     o_det := ssum_merge (o_det a) p (o_det b) (1 - p);
     o_wrel := map (fun w => w * p / p_equal) (o_wrel a)
               ++ map (fun w => w * (1 - p) / (1 - p_equal)) (o_wrel b);
     o_wdet := map (fun w => w * p) (o_wdet a) ++ map (fun w => w * (1 - p)) (o_wdet b);
     o_trajs := if both then o_trajs a ++ o_trajs b else [];
     o_dtrajs := o_dtrajs a ++ o_dtrajs b;
     o_grel := o_grel a ++ o_grel b; o_gdet := o_gdet a ++ o_gdet b |}.

(* `self.average_states; self.average_final_state` *)
Definition ensure_reduced (d : nat) (o : sobj) : sobj :=
  fst (average_final d (fst (average_states o))).

Inductive sop :=
| SNew (ss sf k : bool)
| SAdd (i : nat) (t : straj) (w : Qc)
| SAddDet (i : nat) (t : straj) (w : Qc)
| SMerge (i j : nat) (p : option Qc)
| SReadStates (i : nat)
| SReadFinal (i : nat).

Definition sworld := list sobj.

Definition sstep (d : nat) (W : sworld) (op : sop) : sworld * outcome :=
  match op with
  | SNew ss sf k => (W ++ [snew ss sf k], Ok)
  | SAdd i t w =>
      match nth_error W i with
      | Some x => (set_nth W i (sadd x t w), Ok)
      | None => (W, BadIndex)
      end
  | SAddDet i t w =>
      match nth_error W i with
      | Some x => (set_nth W i (sadd_det x t w), Ok)
      | None => (W, BadIndex)
      end
  | SMerge i j p =>
      match nth_error W i, nth_error W j with
      | Some a, Some b =>
          if negb (Bool.eqb (o_hast a) (o_hast b)) then (W, ErrValue)
          else
            let ea := is_nil (o_trajs a) in
            let eb := is_nil (o_trajs b) in
            (* if bool(self.trajectories) != bool(other.trajectories): reduce the keeping one *)
            let a1 := if negb (Bool.eqb ea eb) && negb ea then ensure_reduced d a else a in
            let b1 := if negb (Bool.eqb ea eb) && negb eb then ensure_reduced d b else b in
            let W1 := set_nth (set_nth W i a1) j b1 in
            if (o_num a =? 0)%nat || (o_num b =? 0)%nat then (W1, ErrZeroDiv)
            else (W1 ++ [smerge_obj a1 b1 p], Ok)
      | _, _ => (W, BadIndex)
      end
  | SReadStates i =>
      match nth_error W i with
      | Some x => match average_states x with
                  | (x', SErr) => (W, ErrType)
                  | (x', _) => (set_nth W i x', Ok)
                  end
      | None => (W, BadIndex)
      end
  | SReadFinal i =>
      match nth_error W i with
      | Some x => match average_final d x with
                  | (x', SErr) => (W, ErrType)
                  | (x', _) => (set_nth W i x', Ok)
                  end
      | None => (W, BadIndex)
      end
  end.

Fixpoint srun (d : nat) (W : sworld) (ops : list sop) : sworld :=
  match ops with [] => W | o :: ops' => srun d (fst (sstep d W o)) ops' end.

Fixpoint srun_log (d : nat) (W : sworld) (ops : list sop) : sworld * list outcome :=
  match ops with
  | [] => (W, [])
  | o :: ops' => let (W1, r) := sstep d W o in
                 let (W2, rs) := srun_log d W1 ops' in (W2, r :: rs)
  end.

(* --------------------------------------------------------- harness only *)
Definition sres_z (r : sres) : Z * list (Z * Z) :=
  match r with SNone => (0, []) | SVal v => (1, vz v) | SErr => (2, []) end%Z.
Definition ssum_z (s : ssum) := (oz vz (ss_states s), oz vz (ss_final s)).
Definition sobs_obj (d : nat) (o : sobj) :=
  ((o_ss o, o_sf o, o_keep o, o_num o),
   (oz ssum_z (o_rel o), oz ssum_z (o_det o)),
   (vz (o_wrel o), vz (o_wdet o), map s_id (o_trajs o), map s_id (o_dtrajs o)),
   (sres_z (snd (average_states o)), sres_z (snd (average_final d o)))).
Definition sobserve (d : nat) (ops : list sop) :=
  let (W, rs) := srun_log d [] ops in (map out_code rs, map (sobs_obj d) W).
Definition mkv (e : list (Z * Z)) : vec := map (fun nd => mkq (fst nd) (snd nd)) e.
Definition mkst (id : Z) (st fin : option (list (Z * Z))) : straj :=
  {| s_id := id; s_states := option_map mkv st; s_final := option_map mkv fin |}.
