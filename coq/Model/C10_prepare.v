(* C10 - the normalisation decision of Solver._prepare_state and what
   Solver._restore_state does with it (qutip/solver/solver_base.py):

     if rhs.issuper and state.isket: state = ket2dm(state)
     if state.isket:             norm = state.norm()
     elif state._dims.issquare:  norm = state.tr()
     else:                       norm = -1
     _normalize_output = options["normalize_output"]
                         and |norm - 1| <= atol
                         and (rhs.dims[1] == state.dims or state.shape[1] == 1)
     data = stack_columns(state.data) if rhs.dims[1] == state.dims else state.data
     ...
     _restore_state: if _normalize_output:
                         state / state.tr() if state.isoper else state / state.norm()

   The inputs of the decision are attributes of the state AFTER the ket2dm
   conversion; the comparisons with 1 are oracles (booleans).  No proofs. *)
From Coq Require Import Bool.

Inductive sform := FKet | FOper | FOperKet | FSuper | FOther.   (* Qobj.type *)

Record pstate := mk_pstate {
  p_form : sform;
  p_square : bool;          (* state._dims.issquare *)
  p_dims_match : bool;      (* rhs.dims[1] == state.dims  (the state gets stacked) *)
  p_col : bool;             (* state.shape[1] == 1 *)
  p_l2_one : bool;          (* | state.norm() - 1 | <= atol *)
  p_tr_one : bool           (* | state.tr() - 1 | <= atol *)
}.

Definition norm_is_one (s : pstate) : bool :=
  match p_form s with
  | FKet => p_l2_one s
  | _ => if p_square s then p_tr_one s else false      (* norm = -1 *)
  end.

Definition normalize_output (opt : bool) (s : pstate) : bool :=
  opt && norm_is_one s && (p_dims_match s || p_col s).

Definition stacked (s : pstate) : bool := p_dims_match s.

(* which quantity _restore_state divides by *)
Inductive divisor := ByTrace | ByNorm.
Definition restore_divisor (restored_isoper : bool) : divisor :=
  if restored_isoper then ByTrace else ByNorm.

(* well-formed attribute combinations of the states a solver accepts
   (dimension N > 1):
     ket           : a column, not square, never equal to a super rhs dims[1]
     operator-ket  : a column, dims [[[n],[n]],[1]] are not square
     oper          : square; equals rhs.dims[1] exactly when the rhs is a super-operator
     super         : square, dims differ from rhs.dims[1], not a column *)
Definition wf (rhs_super : bool) (s : pstate) : bool :=
  match p_form s with
  | FKet => p_col s && negb (p_square s) && negb (p_dims_match s) && negb rhs_super
  | FOperKet => p_col s && negb (p_square s) && negb (p_dims_match s) && rhs_super
  | FOper => p_square s && negb (p_col s) && Bool.eqb (p_dims_match s) rhs_super
  | FSuper => p_square s && negb (p_col s) && negb (p_dims_match s) && rhs_super
  | FOther => false
  end.
