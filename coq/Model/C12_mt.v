(* Model of the option logic of qutip/solver/multitrajresult.py
   MultiTrajResult: which processors `_post_init` registers and what the
   read-only views (runs_states, average_states, states, runs_final_states,
   average_final_state, final_state, e_data) make available, as written.

   This is a boolean abstraction: a trajectory is described by whether its
   `.states` is non-empty and whether its `.final_state` is not None (both are
   consequences of the Result model, see Props/C12.v), the running sums by
   whether they were initialised.  The numbers inside the sums are C15's
   subject and are not modelled here.  No proofs in this file. *)
From Coq Require Import List Bool Arith.
Import ListNotations.
From QV Require Import Model.C12.

Record mopts := {
  m_store_states : option bool;
  m_store_final : bool;
  m_keep : bool }.                   (* keep_runs_results *)

Definition truthy (x : option bool) : bool := match x with Some b => b | None => false end.
Definition is_none (x : option bool) : bool := match x with None => true | _ => false end.

(* MultiTrajResult._store_average_density_matrices *)
Definition store_avg_dm (o : mopts) (nops : nat) : bool :=
  (truthy (m_store_states o) || (is_none (m_store_states o) && Nat.eqb nops 0))
  && negb (m_keep o).

(* MultiTrajResult._store_final_density_matrix *)
Definition store_final_dm (o : mopts) (nops : nat) : bool :=
  m_store_final o && negb (store_avg_dm o nops) && negb (m_keep o).

Inductive mproc := MIncrement | MStoreTrajectory | MReduceStates | MReduceFinal | MReduceExpect.

(* MultiTrajResult._post_init *)
Definition mt_procs (o : mopts) (nops : nat) : list mproc :=
  [MIncrement]
  ++ (if m_keep o then [MStoreTrajectory] else [])
  ++ (if store_avg_dm o nops then [MReduceStates] else [])
  ++ (if store_final_dm o nops then [MReduceFinal] else [])
  ++ (if Nat.eqb nops 0 then [] else [MReduceExpect]).

(* the options a trajectory's Result is built from are the same dict *)
Definition traj_opts (o : mopts) : opts :=
  {| store_states := m_store_states o; store_final_state := m_store_final o;
     store_ados := false; store_floquet_states := false; store_measurement := false |}.

(* a trajectory over at least one time: `.states` non-empty / `.final_state`
   not None (Result model: C12_states_stored_iff, C12_final_state_iff) *)
Definition traj_has_states (o : mopts) (nops : nat) : bool :=
  stores_states (traj_opts o) nops.
Definition traj_has_final (o : mopts) (nops : nat) : bool :=
  m_store_final o || stores_states (traj_opts o) nops.

(* after at least one `add` of such a trajectory (no deterministic ones):
   self.trajectories is non-empty iff _store_trajectory is registered;
   _sum_rel exists; its sum_states / sum_final_state were initialised iff
   (_TrajectorySum.__init__) the example trajectory has them and the flag
   is set *)
Definition trajectories_kept (o : mopts) : bool := m_keep o.
Definition sum_states_set (o : mopts) (nops : nat) : bool :=
  traj_has_states o nops && store_avg_dm o nops.
Definition sum_final_set (o : mopts) (nops : nat) : bool :=
  traj_has_final o nops && store_final_dm o nops.

(* runs_states: `if self.trajectories and self.trajectories[0].states` *)
Definition runs_states_avail o nops := trajectories_kept o && traj_has_states o nops.

(* average_states:
     trajectory_states_available = trajectories and trajectories[0].states
     if self._sum_rel and not self._sum_rel.sum_states:
         if not trajectory_states_available: return None
         (initialise and reduce from the kept trajectories)
     return [...] *)
Definition average_states_avail o nops :=
  if negb (sum_states_set o nops)
  then (if negb (runs_states_avail o nops) then false else true)
  else true.

(* states: `self.runs_states or self.average_states` *)
Definition states_avail o nops := runs_states_avail o nops || average_states_avail o nops.

(* runs_final_states: `if self.trajectories and self.trajectories[0].final_state` *)
Definition runs_final_avail o nops := trajectories_kept o && traj_has_final o nops.

(* average_final_state:
     trajectory_states_available = trajectories and trajectories[0].final_state
     states = self.average_states
     if self._sum_rel and not self._sum_rel.sum_final_state:
         if not (trajectory_states_available or states): return None
         need_to_reduce_states = True
     if need_to_reduce_states and states: return states[-1]
     elif need_to_reduce_states: (reduce from the kept trajectories)
     return ... *)
Inductive final_src := FNone | FFromSum | FLastAverageState | FFromTrajectories.
Definition average_final_src o nops : final_src :=
  if negb (sum_final_set o nops) then
    if negb (runs_final_avail o nops || average_states_avail o nops) then FNone
    else if average_states_avail o nops then FLastAverageState else FFromTrajectories
  else FFromSum.
Definition average_final_avail o nops :=
  match average_final_src o nops with FNone => false | _ => true end.

(* final_state: `self.runs_final_states or self.average_final_state` *)
Definition final_avail o nops := runs_final_avail o nops || average_final_avail o nops.

(* e_data: `self.runs_e_data or self.average_e_data`; runs_e_data is
   {k: [] for k in raw_ops} with keep_runs_results, {} otherwise *)
Definition e_data_is_runs (o : mopts) (nops : nat) : bool :=
  m_keep o && negb (Nat.eqb nops 0).

Definition mt_observe (o : mopts) (nops : nat) :=
  (mt_procs o nops,
   (runs_states_avail o nops, average_states_avail o nops, states_avail o nops),
   (runs_final_avail o nops, average_final_avail o nops, final_avail o nops),
   (e_data_is_runs o nops, trajectories_kept o, average_final_src o nops)).
