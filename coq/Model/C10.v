(* C10 - executable model of QuTiP's own explicit Runge-Kutta kernel
   (qutip/solver/integrator/explicit_rk.pyx, class Explicit_RungeKutta):
     iadd_data, _accumulate, _compute_step, _prep_dense_out,
     _interpolate_step, _get_timestep (the two configurations the harness
     drives), integrate (forward part: step loop, AT_FRONT / INTERPOLATED).

   The kernel is generic in the state type (qutip Data: dense, sparse ...),
   so the model is generic too:
     C      scalars (python `double` / `double complex`)
     V      states  (a Data object: ket, stacked density matrix, operator ...)
     F t y  the right-hand side  qevo.matmul_data(t, y)
   Nothing is assumed about them here; Proofs/C10.v states which laws each
   theorem needs.  Instantiations at the end of the file:
     * Gaussian rationals / matrices  - what the correspondence harness runs
     * polynomials in one indeterminate - the symbolic run of the kernel
   The step-size controller (error norm, _recompute_safe_step) is floating
   point control logic and belongs to C11; here the step sizes are inputs.
   No proofs in this file. *)
From Coq Require Import List ZArith QArith Bool.
Import ListNotations.
From QV Require Import Model.C10_trees.

Section RK.
Variables C V : Type.
Variables cadd cmul csub cdiv : C -> C -> C.
Variable czero : C.
Variable ciszero : C -> bool.          (* factor == 0 *)
Variable cltb : C -> C -> bool.        (* a < b on times *)
Variable ceqb : C -> C -> bool.        (* a == b on times *)
Variable vadd : V -> V -> V.
Variable vscal : C -> V -> V.
Variable F : C -> V -> V.              (* qevo.matmul_data(t, y) (into a zeroed buffer) *)

(* _init_coeff: a (extra x extra), b (rk_step), c (extra), bi (extra x q) *)
Record tableau := mk_tableau {
  tb_a : list (list C);
  tb_b : list C;
  tb_c : list C;
  tb_adaptive : bool;                  (* e is not None *)
  tb_bi : list (list C)                (* [] when there is no dense output *)
}.
Variable tb : tableau.
Definition rk_step := length (tb_b tb).
Definition rk_extra_step := length (tb_c tb).
Definition denseout_order := length (nth 0 (tb_bi tb) []).   (* bi.shape[1] *)

(* iadd_data(left, right, factor): left += right * factor, skipped when the
   factor is zero *)
Definition iadd (left right : V) (factor : C) : V :=
  if ciszero factor then left else vadd left (vscal factor right).

(* _accumulate(target, factors, dt, size):
     for i in range(size): target = iadd_data(target, k[i], dt * factors[i]) *)
Fixpoint accumulate (target : V) (factors : list C) (dt : C) (ks : list V)
         (size : nat) {struct size} : V :=
  match size, factors, ks with
  | S n, f :: fs, k :: ks' => accumulate (iadd target k (cmul dt f)) fs dt ks' n
  | _, _, _ => target
  end.

(* one stage i >= 1 of _compute_step / _prep_dense_out:
     y_temp = copy(y_prev); y_temp = _accumulate(y_temp, a[i,:], dt, i)
     k[i] = matmul_data(t_prev + c[i]*dt, y_temp)                         *)
Definition stage (t_prev : C) (y_prev : V) (dt : C) (i : nat) (ks : list V) : V :=
  F (cadd t_prev (cmul (nth i (tb_c tb) czero) dt))
    (accumulate y_prev (nth i (tb_a tb) []) dt ks i).

(* stages i, i+1, ..., i+n-1; ks holds k[0..i-1] *)
Fixpoint stages_from (t_prev : C) (y_prev : V) (dt : C) (i n : nat) (ks : list V)
  : list V :=
  match n with
  | O => ks
  | S n' => stages_from t_prev y_prev dt (S i) n' (ks ++ [stage t_prev y_prev dt i ks])
  end.

(* _compute_step: k[0] = matmul_data(t_prev, y_prev); stages 1..rk_step-1;
   y_front = copy(y_prev) accumulated with b over rk_step stages *)
Definition compute_ks (t_prev : C) (y_prev : V) (dt : C) : list V :=
  stages_from t_prev y_prev dt 1 (rk_step - 1) [F t_prev y_prev].
Definition front_of (y_prev : V) (dt : C) (ks : list V) : V :=
  accumulate y_prev (tb_b tb) dt ks rk_step.
Definition compute_step (t_prev : C) (y_prev : V) (dt : C) : V :=
  front_of y_prev dt (compute_ks t_prev y_prev dt).

(* _prep_dense_out: stages rk_step .. rk_extra_step-1 *)
Definition prep_dense_out (t_prev : C) (y_prev : V) (dt : C) (ks : list V) : list V :=
  stages_from t_prev y_prev dt rk_step (rk_extra_step - rk_step) ks.

(* _interpolate_step:
     for i: b_factor[i] = 0; for j in range(q-1,-1,-1):
                                 b_factor[i] += bi[i,j]; b_factor[i] *= tau
     out = copy(y_prev); out = _accumulate(out, b_factor, dt, rk_extra_step) *)
Definition b_factor (row : list C) (tau : C) : C :=
  fold_left (fun bf j => cmul (cadd bf (nth j row czero)) tau)
            (rev (seq 0 denseout_order)) czero.
Definition b_factors (tau : C) : list C :=
  map (fun i => b_factor (nth i (tb_bi tb) []) tau) (seq 0 rk_extra_step).
Definition interpolate_step (y_prev : V) (dt tau : C) (ks : list V) : V :=
  accumulate y_prev (b_factors tau) dt ks rk_extra_step.

(* ---- the integrator object: set_initial_value / integrate ---- *)
Record rkstate := mk_rkstate {
  st_t : C; st_y : V;
  st_tprev : C; st_yprev : V;
  st_tfront : C; st_yfront : V;
  st_ks : list V;                       (* k[0..] of the last step *)
  st_dt : C                             (* _dt_int *)
}.
Definition set_initial_value (y0 : V) (t : C) : rkstate :=
  mk_rkstate t y0 t y0 t y0 [] czero.

(* _get_timestep(t): not adaptive -> t - t_front;
   adaptive with dense output -> _dt_safe, which the harness pins to the
   constant h (first_step = max_step = h, tolerance never binding) *)
Definition get_timestep (h t : C) (st : rkstate) : C :=
  if tb_adaptive tb then h else csub t (st_tfront st).

(* body of `while self._t_front < t` with _step_in_err accepting at once *)
Definition do_step (h t : C) (st : rkstate) : rkstate :=
  let dt := get_timestep h t st in
  let ks := compute_ks (st_tfront st) (st_yfront st) dt in
  mk_rkstate (st_t st) (st_y st)
             (st_tfront st) (st_yfront st)
             (cadd (st_tfront st) dt) (front_of (st_yfront st) dt ks)
             ks dt.
Fixpoint step_loop (fuel : nat) (h t : C) (st : rkstate) : option rkstate :=
  if cltb (st_tfront st) t then
    match fuel with
    | O => None                                   (* TOO_MUCH_WORK *)
    | S f => step_loop f h t (do_step h t st)
    end
  else Some st.

(* integrate(t, step=False) for t >= t_prev; None = a negative status *)
Definition integrate (fuel : nat) (h t : C) (st : rkstate) : option rkstate :=
  if ceqb t (st_t st) then Some st
  else if cltb t (st_tprev st) then None          (* OUTSIDE_RANGE *)
  else match step_loop fuel h t st with
       | None => None
       | Some s1 =>
         if cltb t (st_tfront s1) then            (* INTERPOLATED *)
           let ks := prep_dense_out (st_tprev s1) (st_yprev s1) (st_dt s1) (st_ks s1) in
           let tau := cdiv (csub t (st_tprev s1)) (st_dt s1) in
           Some (mk_rkstate t (interpolate_step (st_yprev s1) (st_dt s1) tau ks)
                            (st_tprev s1) (st_yprev s1) (st_tfront s1) (st_yfront s1)
                            ks (st_dt s1))
         else                                      (* AT_FRONT *)
           Some (mk_rkstate (st_tfront s1) (st_yfront s1)
                            (st_tprev s1) (st_yprev s1) (st_tfront s1) (st_yfront s1)
                            (st_ks s1) (st_dt s1))
       end.

(* a whole session: set_initial_value then integrate(t) for each t; the
   observed values are (t, y) after every call *)
Fixpoint session (fuel : nat) (h : C) (ts : list C) (st : rkstate) : list (option (C * V)) :=
  match ts with
  | [] => []
  | t :: r => match integrate fuel h t st with
              | None => [None]
              | Some s1 => Some (st_t s1, st_y s1) :: session fuel h r s1
              end
  end.
End RK.

(* ===================================================================== *)
(* Instantiation 1: Gaussian rationals, matrices as lists of rows.        *)
Definition gq := (Q * Q)%type.
Definition gq_add (x y : gq) : gq := (Qred (fst x + fst y), Qred (snd x + snd y)).
Definition gq_sub (x y : gq) : gq := (Qred (fst x - fst y), Qred (snd x - snd y)).
Definition gq_mul (x y : gq) : gq :=
  (Qred (fst x * fst y - snd x * snd y), Qred (fst x * snd y + snd x * fst y)).
(* division by a real scalar (times are real) *)
Definition gq_div (x y : gq) : gq := (Qred (fst x / fst y), Qred (snd x / fst y)).
Definition gq_zero : gq := (0, 0).
Definition gq_iszero (x : gq) : bool := Qeq_bool (fst x) 0 && Qeq_bool (snd x) 0.
Definition gq_ltb (x y : gq) : bool := negb (Qle_bool (fst y) (fst x)).
Definition gq_eqb (x y : gq) : bool := Qeq_bool (fst x) (fst y).

Definition gmat := list (list gq).
Fixpoint map2 {A B D} (f : A -> B -> D) (u : list A) (v : list B) : list D :=
  match u, v with
  | x :: u', y :: v' => f x y :: map2 f u' v'
  | _, _ => []
  end.
Definition gm_add (x y : gmat) : gmat := map2 (map2 gq_add) x y.
Definition gm_scal (c : gq) (x : gmat) : gmat := map (map (gq_mul c)) x.
Definition gdot (u v : list gq) : gq := fold_right gq_add gq_zero (map2 gq_mul u v).
Fixpoint transpose (ncols : nat) (m : gmat) : gmat :=
  match ncols with
  | O => []
  | S n => map (fun r => hd gq_zero r) m :: transpose n (map (fun r => tl r) m)
  end.
Definition gm_mul (a b : gmat) : gmat :=
  let bt := transpose (length (hd [] b)) b in
  map (fun row => map (fun col => gdot row col) bt) a.
(* QobjEvo([M0, [M1, f]]) with f(t) = t :  M0 y + t (M1 y) *)
Definition gm_rhs (m0 m1 : gmat) (t : gq) (y : gmat) : gmat :=
  gm_add (gm_mul m0 y) (gm_scal t (gm_mul m1 y)).

Definition g_session (tb : tableau gq) (m0 m1 : gmat) (fuel : nat) (h : gq)
           (y0 : gmat) (t0 : gq) (ts : list gq) :=
  session gq gmat gq_add gq_mul gq_sub gq_div gq_zero gq_iszero gq_ltb gq_eqb
          gm_add gm_scal (gm_rhs m0 m1) tb fuel h ts
          (set_initial_value gq gmat gq_zero y0 t0).

(* ===================================================================== *)
(* Instantiation 2: the symbolic run.  States are polynomials in one
   indeterminate x (list of coefficients, lowest first); the right-hand side
   is multiplication by x.  Running the kernel on the polynomial 1 yields
   the stability polynomial of the tableau as the kernel computes it. *)
Section Poly.
Variable C : Type.
Variables cadd cmul : C -> C -> C.
Variable czero cone : C.
Fixpoint padd (p q : list C) : list C :=
  match p, q with
  | [], _ => q
  | _, [] => p
  | a :: p', b :: q' => cadd a b :: padd p' q'
  end.
Definition pscal (c : C) (p : list C) : list C := map (cmul c) p.
Definition pshift (p : list C) : list C := czero :: p.
End Poly.

(* over the dyadic rationals of Model/C10_trees.v (exact, no gcd needed);
   ciszero never skips, so the polynomial keeps all its coefficients *)
Definition dy_tableau (a : list (list Q)) (b c : list Q) (bi : list (list Q)) : tableau dy :=
  mk_tableau dy (dmat a) (dvec b) (dvec c) false (dmat bi).
Definition dpoly := list dy.
Definition stab_poly (tb : tableau dy) (dt : dy) : dpoly :=
  compute_step dy dpoly dadd dmul dzero (fun _ => false)
               (padd dy dadd) (pscal dy dmul) (fun _ => pshift dy dzero) tb dzero [done] dt.
(* symbolic dense output at parameter tau *)
Definition dense_poly (tb : tableau dy) (dt tau : dy) : dpoly :=
  let cs := compute_ks dy dpoly dadd dmul dzero (fun _ => false)
               (padd dy dadd) (pscal dy dmul) (fun _ => pshift dy dzero) tb dzero [done] dt in
  let ks := prep_dense_out dy dpoly dadd dmul dzero (fun _ => false)
               (padd dy dadd) (pscal dy dmul) (fun _ => pshift dy dzero) tb dzero [done] dt cs in
  interpolate_step dy dpoly dadd dmul dzero (fun _ => false)
               (padd dy dadd) (pscal dy dmul) tb [done] dt tau ks.

Fixpoint fact (n : nat) : Z := match n with O => 1%Z | S m => (Z.of_nat n * fact m)%Z end.
Fixpoint dpow (x : dy) (n : nat) : dy := match n with O => done | S m => dmul x (dpow x m) end.
(* |p_j * j! - x^j| <= 2^-k for j <= n *)
Definition taylor_close (k : Z) (x : dy) (n : nat) (p : dpoly) : bool :=
  forallb (fun j => dclose2 k (dmul (nth j p dzero) (dofZ (fact j))) (dpow x j))
          (seq 0 (S n)).

(* dense output at theta = 1 reproduces the step: the Horner factors of
   _interpolate_step at tau = 1 are b_i for the rk_step stages and 0 for the
   extra ones (within 2^-k) *)
Definition theta1_ok (k : Z) (tb : tableau dy) : bool :=
  let bf := b_factors dy dadd dmul dzero tb done in
  forallb (fun i => dclose2 k (nth i bf dzero) (nth i (tb_b dy tb) dzero))
          (seq 0 (length (tb_c dy tb))).

(* ===================================================================== *)
(* State packing (qutip/core/superoperator.py stack_columns /
   unstack_columns as used by Solver._prepare_state/_restore_state):
   column stacking of an n x m matrix X is the vector v with
   v[j*n + i] = X[i][j]; unstacking a vector of length n*n gives
   Y[i][j] = v[j*n + i].  Matrices and vectors are index functions with
   explicit sizes; `tabulate` makes them lists for the harness. *)
Definition stack_idx (n : nat) (i j : nat) : nat := (j * n + i)%nat.
Definition stack_fun {A} (n : nat) (X : nat -> nat -> A) : nat -> A :=
  fun k => X (Nat.modulo k n) (Nat.div k n).
Definition unstack_fun {A} (n : nat) (v : nat -> A) : nat -> nat -> A :=
  fun i j => v (stack_idx n i j).
Definition tabulate_v {A} (len : nat) (v : nat -> A) : list A := map v (seq 0 len).
Definition tabulate_m {A} (n m : nat) (X : nat -> nat -> A) : list (list A) :=
  map (fun i => map (fun j => X i j) (seq 0 m)) (seq 0 n).
Definition mat_of_rows (rows : list (list Z)) : nat -> nat -> Z :=
  fun i j => nth j (nth i rows []) 0%Z.
Definition stack_rows (n m : nat) (rows : list (list Z)) : list Z :=
  tabulate_v (n * m)%nat (stack_fun n (mat_of_rows rows)).
Definition unstack_list (n : nat) (v : list Z) : list (list Z) :=
  tabulate_m n n (unstack_fun n (fun k => nth k v 0%Z)).

(* ---- output form of a session for the harness: integers only ---- *)
Definition mkq (n d : Z) : Q := Qmake n (Z.to_pos d).
Definition gqz (a b c d : Z) : gq := (mkq a b, mkq c d).
Definition q_out (q : Q) : Z * Z := (Qnum q, Zpos (Qden q)).
Definition gq_out (x : gq) := (q_out (fst x), q_out (snd x)).
Definition g_obs (o : option (gq * gmat)) :=
  option_map (fun p => (gq_out (fst p), map (map gq_out) (snd p))) o.
Definition g_run (tb : tableau gq) (m0 m1 : gmat) (fuel : nat) (h : gq)
           (y0 : gmat) (t0 : gq) (ts : list gq) :=
  map g_obs (g_session tb m0 m1 fuel h y0 t0 ts).
