(* C17 - one step of the stochastic integration schemes as a function of
   (state, dW), and the open-system drift / diffusion terms.

   Model of
     qutip/solver/sode/_sode.pyx     Euler.step, Platen.step, Milstein.step,
                                     PredCorr.step (incl. measurement_noise)
     qutip/solver/sode/ssystem.pyx   StochasticOpenSystem drift / diffusion /
                                     expect / a / bi / Libj  (executable
                                     instance at the end of this file)

   The schemes are written once, over an arbitrary scalar type K and state
   type V with the operations they use (`alg`), and an arbitrary system
   (`sys`: number of operators, drift a, diffusions b_i, derivative terms
   L_i b_j, expectation values).  `axpy x y c` is `_data.add(x, y, c)`
   = x + c*y (and iadd_dense(x, y, c)).  Constants 0.5, 0.25 and the two
   square-root derived numbers of Platen are fields / arguments, so the
   theorems hold whatever they are (only half + half = 1 is used). *)
From Coq Require Import List ZArith Bool Arith QArith.
Import ListNotations.
Close Scope Q_scope.
Open Scope nat_scope.

Record alg (K V : Type) := {
  k0 : K; k1 : K;
  kadd : K -> K -> K; kmul : K -> K -> K; ksub : K -> K -> K; kopp : K -> K;
  half : K; quarter : K;
  vadd : V -> V -> V; vscale : K -> V -> V }.
Arguments k0 {K V}. Arguments k1 {K V}. Arguments kadd {K V}. Arguments kmul {K V}.
Arguments ksub {K V}. Arguments kopp {K V}. Arguments half {K V}. Arguments quarter {K V}.
Arguments vadd {K V}. Arguments vscale {K V}.

Record sys (K V : Type) := {
  nops : nat;                       (* system.num_collapse *)
  drift : V -> V;                   (* system.drift(t, .) = system.a() *)
  diff : nat -> V -> V;             (* system.diffusion(t, .)[i] = system.bi(i) *)
  Lbij : nat -> nat -> V -> V;      (* system.Libj(i, j), i <= j *)
  expect_re : nat -> V -> K }.      (* system.expect(t, .)[i].real *)
Arguments nops {K V}. Arguments drift {K V}. Arguments diff {K V}.
Arguments Lbij {K V}. Arguments expect_re {K V}.

Section Schemes.
  Context {K V : Type} (A : alg K V) (S : sys K V).
  Notation "x +k y" := (kadd A x y) (at level 50, left associativity).
  Notation "x *k y" := (kmul A x y) (at level 40, left associativity).
  Notation "x -k y" := (ksub A x y) (at level 50, left associativity).

  Definition axpy (x y : V) (c : K) : V := vadd A x (vscale A c y).

  (* for i in range(n): acc = f i acc *)
  Definition foldi (n : nat) (f : nat -> V -> V) (x : V) : V :=
    fold_left (fun acc i => f i acc) (seq 0 n) x.

  (* `if self.measurement_noise: dW[0, i] -= expect[i].real * dt` *)
  Definition adj_dW (meas : bool) (state : V) (dt : K) (dW : nat -> K) : nat -> K :=
    if meas then fun i => dW i -k (expect_re S i state *k dt) else dW.

  (* Euler.step *)
  Definition euler_step (meas : bool) (state : V) (dt : K) (dW0 : nat -> K) : V :=
    let a := drift S state in
    let dW := adj_dW meas state dt dW0 in
    let new_state := axpy state a dt in
    foldi (nops S) (fun i acc => axpy acc (diff S i state) (dW i)) new_state.

  (* Platen.step; sdt = np.sqrt(dt), isdt4 = 0.25 / sqrt_dt *)
  Definition platen_step (meas : bool) (state : V) (dt sdt isdt4 : K) (dW0 : nat -> K) : V :=
    let n := nops S in
    let d1 := axpy state (drift S state) dt in
    let d2 := fun i => diff S i state in
    let dW := adj_dW meas state dt dW0 in
    let out := vscale A (half A) d1 in
    let Vp := fun i => axpy d1 (d2 i) sdt in
    let Vm := fun i => axpy d1 (d2 i) (kopp A sdt) in
    let Vt := foldi n (fun i acc => axpy acc (d2 i) (dW i)) d1 in
    let d1' := drift S Vt in
    let out := axpy out d1' (half A *k dt) in
    let out := axpy out state (half A) in
    foldi n (fun i out =>
      let dw := dW i *k quarter A in
      let out := axpy out (d2 i) ((k1 A +k k1 A) *k dw) in
      foldi n (fun j out =>
        let '(dw2p, dw2m) :=
          if Nat.eqb i j then
            let dw2 := isdt4 *k (dW i *k dW j -k dt) in
            (dw2 +k dw, kopp A dw2 +k dw)
          else
            let p := isdt4 *k dW i *k dW j in (p, kopp A p) in
        let out := axpy out (diff S j (Vp i)) dw2p in
        axpy out (diff S j (Vm i)) dw2m) out) out.

  (* Milstein.step *)
  Definition milstein_step (meas : bool) (state : V) (dt : K) (dW0 : nat -> K) : V :=
    let n := nops S in
    let out := axpy state (drift S state) dt in
    let dW := adj_dW meas state dt dW0 in
    let out := foldi n (fun i acc => axpy acc (diff S i state) (dW i)) out in
    foldi n (fun i out =>
      fold_left (fun out j =>
        let dw := if Nat.eqb i j then (dW i *k dW j -k dt) *k half A
                  else dW i *k dW j in
        axpy out (Lbij S i j state) dw) (seq i (n - i)) out) out.

  (* PredCorr.step; alpha_nz is the truth value of `if alpha:` *)
  Definition predcorr_step (meas : bool) (alpha eta : K) (alpha_nz : bool)
             (state : V) (dt : K) (dW0 : nat -> K) : V :=
    let n := nops S in
    let dW := adj_dW meas state dt dW0 in
    let out := axpy state (drift S state) (dt *k (k1 A -k alpha)) in
    let euler := axpy state (drift S state) dt in
    let '(euler, out) :=
      fold_left (fun '(euler, out) i =>
        let euler := axpy euler (diff S i state) (dW i) in
        let out := axpy out (diff S i state) (dW i *k eta) in
        let out := axpy out (Lbij S i i state) (dt *k (alpha -k k1 A) *k half A) in
        (euler, out)) (seq 0 n) (euler, out) in
    let out := foldi n (fun i out => axpy out (diff S i euler) (dW i *k (k1 A -k eta))) out in
    if alpha_nz then
      let out := axpy out (drift S euler) (dt *k alpha) in
      foldi n (fun i out => axpy out (Lbij S i i euler) (kopp A dt *k alpha *k half A)) out
    else out.

  (* Euler.run / Milstein.run: num_step steps, step i consumes dW[i] *)
  Fixpoint run_steps (step : V -> (nat -> K) -> V) (state : V) (dWs : list (nat -> K)) : V :=
    match dWs with
    | [] => state
    | dW :: r => run_steps step (step state dW) r
    end.
End Schemes.

(* ============================================================ executable
   instance: Gaussian rationals, square matrices as lists of rows.          *)
Definition C := (Q * Q)%type.
Definition cred (z : C) : C := (Qred (fst z), Qred (snd z)).
Definition c0 : C := (0%Q, 0%Q).
Definition c1 : C := (1%Q, 0%Q).
Definition cadd (x y : C) : C := cred ((fst x + fst y)%Q, (snd x + snd y)%Q).
Definition csub (x y : C) : C := cred ((fst x - fst y)%Q, (snd x - snd y)%Q).
Definition copp (x : C) : C := cred ((- fst x)%Q, (- snd x)%Q).
Definition cmul (x y : C) : C :=
  cred ((fst x * fst y - snd x * snd y)%Q, (fst x * snd y + snd x * fst y)%Q).
Definition cconj (x : C) : C := (fst x, Qred (- snd x)%Q).
Definition cre (x : C) : C := (fst x, 0%Q).
Definition cofq (q : Q) : C := (Qred q, 0%Q).
Definition ci : C := (0%Q, 1%Q).

Definition mat := list (list C).

Fixpoint map2c {X Y Z} (f : X -> Y -> Z) (a : list X) (b : list Y) : list Z :=
  match a, b with
  | x :: a', y :: b' => f x y :: map2c f a' b'
  | _, _ => []
  end.

Definition madd (a b : mat) : mat := map2c (map2c cadd) a b.
Definition mscale (c : C) (a : mat) : mat := map (map (cmul c)) a.
Definition mcol (a : mat) (k : nat) : list C := map (fun r => nth k r c0) a.
Definition dot (u v : list C) : C := fold_left cadd (map2c cmul u v) c0.
Definition mmul (a b : mat) : mat :=
  let n := length b in
  map (fun r => map (fun k => dot r (mcol b k)) (seq 0 (length (hd [] b)))) a.
Definition mdag (a : mat) : mat :=
  map (fun k => map cconj (mcol a k)) (seq 0 (length (hd [] a))).
Definition mtr (a : mat) : C :=
  fold_left cadd (map (fun k => nth k (nth k a []) c0) (seq 0 (length a))) c0.
Definition msum (z : mat) (l : list mat) : mat := fold_left madd l z.
Definition mzero (n : nat) : mat := repeat (repeat c0 n) n.

(* StochasticOpenSystem(H, sc_ops, c_ops): drift = liouvillian(H, sc_ops + c_ops) rho *)
Definition lind (c rho : mat) : mat :=
  let cd := mdag c in
  let cdc := mmul cd c in
  madd (mmul (mmul c rho) cd)
       (mscale (copp (cofq (1 # 2))) (madd (mmul cdc rho) (mmul rho cdc))).

Definition open_drift (H : mat) (all_ops : list mat) (rho : mat) : mat :=
  msum (mscale (copp ci) (madd (mmul H rho) (mscale (copp c1) (mmul rho H))))
       (map (fun c => lind c rho) all_ops).

(* c_ops[i] = spre(c) + spost(c.dag) *)
Definition Cop (c x : mat) : mat := madd (mmul c x) (mmul x (mdag c)).

(* diffusion / _compute_b: vec - expect * state *)
Definition open_diff (c rho : mat) : mat :=
  let v := Cop c rho in madd v (mscale (copp (mtr v)) rho).

(* _compute_Lb: Lb[i,j] = C_i b_j - e_i b_j - tr(C_i b_j) rho, i <= j
   (Libj swaps its arguments when i > j) *)
Definition open_Lb (ci_ cj rho : mat) : mat :=
  let bj := open_diff cj rho in
  let ei := mtr (Cop ci_ rho) in
  let v := Cop ci_ bj in
  madd (madd v (mscale (copp ei) bj)) (mscale (copp (mtr v)) rho).

Definition open_sys (H : mat) (sc_ops c_ops : list mat) : sys C mat :=
  let dim := length H in
  {| nops := length sc_ops;
     drift := open_drift H (sc_ops ++ c_ops);
     diff := fun i rho => open_diff (nth i sc_ops (mzero dim)) rho;
     Lbij := fun i j rho =>
               let '(i, j) := if j <? i then (j, i) else (i, j) in
               open_Lb (nth i sc_ops (mzero dim)) (nth j sc_ops (mzero dim)) rho;
     expect_re := fun i rho => cre (mtr (Cop (nth i sc_ops (mzero dim)) rho)) |}.

Definition calg : alg C mat :=
  {| k0 := c0; k1 := c1; kadd := cadd; kmul := cmul; ksub := csub; kopp := copp;
     half := cofq (1 # 2); quarter := cofq (1 # 4);
     vadd := madd; vscale := mscale |}.

Inductive scheme := SEuler | SPlaten | SMilstein | SPredCorr (alpha eta : Q).

(* one call of <stepper>.run(t, state, dt, dW, N) on the open system; dW is
   the list (one per step) of the row-0 increments *)
Definition sde_run (sch : scheme) (meas : bool) (H : mat) (sc_ops c_ops : list mat)
           (rho : mat) (dt sdt : Q) (dWs : list (list Q)) : mat :=
  let S := open_sys H sc_ops c_ops in
  let dWf := map (fun l => fun i => cofq (nth i l 0%Q)) dWs in
  let cdt := cofq dt in
  let step :=
    match sch with
    | SEuler => fun st dW => euler_step calg S meas st cdt dW
    | SPlaten => fun st dW =>
        platen_step calg S meas st cdt (cofq sdt) (cofq ((1 # 4) / sdt)) dW
    | SMilstein => fun st dW => milstein_step calg S meas st cdt dW
    | SPredCorr al et => fun st dW =>
        predcorr_step calg S meas (cofq al) (cofq et) (negb (Qeq_bool al 0)) st cdt dW
    end in
  run_steps step rho dWf.

Definition cprint (z : C) : (Z * Z) * (Z * Z) :=
  ((Qnum (fst z), Zpos (Qden (fst z))), (Qnum (snd z), Zpos (Qden (snd z)))).
Definition mprint (m : mat) := map (map (fun z => cprint (cred z))) m.
